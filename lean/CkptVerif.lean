-- Root of the `CkptVerif` library.
import CkptVerif.Model.Basic
import CkptVerif.Model.NAdv
import CkptVerif.Spec.Exec
import CkptVerif.Spec.Monitor
import CkptVerif.Model.Segment
import CkptVerif.Model.Machine
import CkptVerif.Model.Multistage
import CkptVerif.Model.Online
import CkptVerif.Model.DP
import CkptVerif.Model.Mixed
import CkptVerif.Model.Revolve
import CkptVerif.Proofs.NAdv
import CkptVerif.Proofs.DP
import CkptVerif.Proofs.MixedDP
import CkptVerif.Proofs.ExecLemmas
import CkptVerif.Proofs.SegOk
import CkptVerif.Proofs.MultistageOk
