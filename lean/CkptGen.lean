import CkptGen.Prelude
import CkptGen.Src
