import CkptGen.Prelude
import CkptGen.Src
import CkptGen.RefineNAdv
import CkptGen.RefineArgmin
import CkptGen.RefineExtra
import CkptGen.RefineMixed
