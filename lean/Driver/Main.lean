import CkptVerif.Model.Online
import CkptVerif.Model.Mixed
import CkptVerif.Model.Revolve
import CkptVerif.Spec.Configs
import CkptVerif.Model.ActionApi
import CkptVerif.Model.Planners
import CkptVerif.Model.MixedIter
import CkptVerif.Model.MultistageIter
import CkptVerif.Model.TwoLevelIter
import CkptVerif.Model.BasicIter
import CkptVerif.Model.Ops
import CkptVerif.Model.Process
/-!
# Line-protocol driver over the executable model and the spec monitor

One request per line on stdin; the answer is zero or more lines followed by a line `.`.
Imports nothing from `Proofs/` (no Mathlib), so it also links as a `lean_exe`.
-/
open Ckpt

def stName : Storage → String
  | .ram => "R" | .disk => "D" | .work => "W" | .none => "N"

def parseSt : String → Option Storage
  | "R" => some .ram | "D" => some .disk | "W" => some .work | "N" => some .none | _ => none

def b2s (b : Bool) : String := if b then "1" else "0"
def s2b : String → Option Bool
  | "1" => some true | "0" => some false | _ => none

def on2s : Option Nat → String
  | some n => toString n | none => "-"
def s2on (s : String) : Option (Option Nat) :=
  if s = "-" then some none else s.toNat?.map some

def ppAct : Action → String
  | .forward n0 n1 wi wa st => s!"F {n0} {n1} {b2s wi} {b2s wa} {stName st}"
  | .reverse n1 n0 c => s!"R {n1} {n0} {b2s c}"
  | .copy n s d => s!"C {n} {stName s} {stName d}"
  | .move n s d => s!"M {n} {stName s} {stName d}"
  | .endForward => "EF"
  | .endReverse => "ER"

def parseAct : List String → Option Action
  | ["F", n0, n1, wi, wa, st] => do
    pure (.forward (← n0.toNat?) (← n1.toNat?) (← s2b wi) (← s2b wa) (← parseSt st))
  | ["R", n1, n0, c] => do pure (.reverse (← n1.toNat?) (← n0.toNat?) (← s2b c))
  | ["C", n, s, d] => do pure (.copy (← n.toNat?) (← parseSt s) (← parseSt d))
  | ["M", n, s, d] => do pure (.move (← n.toNat?) (← parseSt s) (← parseSt d))
  | ["EF"] => some .endForward
  | ["ER"] => some .endReverse
  | _ => none

def ppFlags (n r : Nat) (maxN : Option Nat) (exh run : Bool) : String :=
  s!"{n} {r} {on2s maxN} {b2s exh} {b2s run}"

def ob2s : Option Bool → String
  | some true => "1" | some false => "0" | none => "x"
def s2ob : String → Option (Option Bool)
  | "1" => some (some true) | "0" => some (some false) | "x" => some none | _ => none

def ppLine : Line → String
  | .init n r m e ru => "I " ++ ppFlags n r m e ru
  | .act o => "A " ++ ppAct o.act ++ " | " ++ ppFlags o.n o.r o.maxN o.exhausted o.running
  | .stop n r m e ru => "S " ++ ppFlags n r m e ru
  | .uses a b c d => s!"U {ob2s a} {ob2s b} {ob2s c} {ob2s d}"
  | .bad w => "B " ++ w

def parseFlags : List String → Option (Nat × Nat × Option Nat × Bool × Bool)
  | [n, r, m, e, ru] => do pure (← n.toNat?, ← r.toNat?, ← s2on m, ← s2b e, ← s2b ru)
  | _ => none

def splitBar (ws : List String) : List String × List String :=
  (ws.takeWhile (· ≠ "|"), (ws.dropWhile (· ≠ "|")).drop 1)

def parseLine (s : String) : Line :=
  let ws := (s.splitOn " ").filter (· ≠ "")
  match ws with
  | "I" :: rest =>
    match parseFlags rest with
    | some (n, r, m, e, ru) => .init n r m e ru
    | none => .bad s
  | "S" :: rest =>
    match parseFlags rest with
    | some (n, r, m, e, ru) => .stop n r m e ru
    | none => .bad s
  | "A" :: rest =>
    let (a, f) := splitBar rest
    match parseAct a, parseFlags f with
    | some act, some (n, r, m, e, ru) => .act ⟨act, n, r, m, e, ru⟩
    | _, _ => .bad s
  | ["U", a, b, c, d] =>
    match s2ob a, s2ob b, s2ob c, s2ob d with
    | some a, some b, some c, some d => .uses a b c d
    | _, _, _, _ => .bad s
  | _ => .bad s

def parseTraj : String → Option Traj
  | "maximum" => some .maximum | "revolve" => some .revolve | _ => none

/-- A class description: the model object and the specification config for `Nfin`. -/
structure ClassSpec where
  sched : Except Err Sched
  cfg : Nat → Cfg
  /-- the parameter tuple lies in the documented domain (C17) -/
  valid : Bool

def parseCosts : List String → Option Costs
  | [uf, ub, wd, rd] => do pure ⟨← uf.toNat?, ← ub.toNat?, ← wd.toNat?, ← rd.toNat?⟩
  | _ => none

def parseClass (T : Tabs) : List String → Option ClassSpec
  | ["SM"] => some ⟨.ok singleMemorySched, cfgSingleMemory, true⟩
  | ["SD", mv] => do
    let mv ← s2b mv
    pure ⟨.ok (singleDiskSched mv), cfgSingleDisk mv, true⟩
  | ["NO"] => some ⟨.ok noneSched, cfgNone, true⟩
  | ["TL", p, b, st, traj] => do
    let p ← p.toNat?; let b ← b.toNat?; let st ← parseSt st; let traj ← parseTraj traj
    pure ⟨twoLevelSched p b st traj, cfgTwoLevel p b st, validTwoLevel p st⟩
  | ["MS", n, ram, disk, traj] => do
    let n ← n.toNat?; let ram ← ram.toNat?; let disk ← disk.toNat?; let traj ← parseTraj traj
    pure ⟨multistageSched n ram disk traj, cfgMultistage ram disk, validMultistage n ram disk⟩
  | ["MX", n, s, st, numba] => do
    let n ← n.toNat?; let s ← s.toNat?; let st ← parseSt st; let numba ← s2b numba
    let plan := if numba then tabPlanner T else memoPlanner T
    pure ⟨mixedSched plan n s st, cfgMixed s st, validMixed n s st⟩
  | "RV" :: n :: cm :: costs => do
    let n ← n.toNat?; let cm ← cm.toNat?; let c ← parseCosts costs
    pure ⟨revolveSched n cm c, cfgRevolve cm, validRevolve n cm c.uf c.ub⟩
  | "DR" :: n :: cm :: costs => do
    let n ← n.toNat?; let cm ← cm.toNat?; let c ← parseCosts costs
    pure ⟨diskRevolveSched n cm c, cfgDiskRevolve cm, validRevolve n cm c.uf c.ub⟩
  | "PD" :: n :: cm :: costs => do
    let n ← n.toNat?; let cm ← cm.toNat?; let c ← parseCosts costs
    pure ⟨periodicSched n cm c, cfgDiskRevolve cm, validRevolve n cm c.uf c.ub⟩
  | "HR" :: n :: c0 :: c1 :: costs => do
    let n ← n.toNat?; let c0 ← c0.toNat?; let c1 ← c1.toNat?; let c ← parseCosts costs
    pure ⟨hrevolveSched n c0 c1 c, cfgHRevolve c0 c1, validRevolve n c0 c.uf c.ub⟩
  | _ => none

def tagName : Tag → String
  | .C01 => "C01" | .C02 => "C02" | .C03 => "C03" | .C04 => "C04" | .C08 => "C08"
  | .C09 => "C09" | .C11 => "C11" | .C12 => "C12" | .C18 => "C18"

def errStage : Err → String
  | .construct w => "construct " ++ w
  | .firstNext w => "first-next " ++ w
  | .later w => "later " ++ w
  | .fuel => "fuel"

/-- split `… ; N k` style requests: class words, then `@`, then numbers -/
def splitAt (ws : List String) : List String × List String :=
  (ws.takeWhile (· ≠ "@"), (ws.dropWhile (· ≠ "@")).drop 1)

def genTrace (cs : ClassSpec) (Nfin k : Nat) : List String :=
  match cs.sched with
  | .error e => ["X " ++ errStage e]
  | .ok s => (s.canon Nfin k (1000000)).map ppLine

/-- history ops: `n` = next, `f<k>` = finalize(k) -/
def runHist (s : Sched) (ops : List String) : List String :=
  let rec go (m : MSt) : List String → List String
    | [] => []
    | op :: rest =>
      if op = "n" then
        let (m', out) := s.next m
        let o := match out with
          | .act o => "A " ++ ppAct o.act
          | .stop => "S"
          | .raised e => "B " ++ errStage e
        (o ++ " | " ++ ppFlags m'.n m'.r m'.maxN m'.exhausted m'.started) :: go m' rest
      else if op.startsWith "f" then
        match (op.drop 1).toInt? with
        | none => ["?"]
        | some k =>
          let (m', out) := finalize m k
          let o := match out with
            | .ok => "ok" | .valueError => "ValueError" | .runtimeError => "RuntimeError"
          ("f " ++ o ++ " | " ++ ppFlags m'.n m'.r m'.maxN m'.exhausted m'.started) :: go m' rest
      else ["?"]
  go s.init ops

def ppCell (c : Cell) : String := s!"{c.kind} {c.len} {c.cost}"
def ppTCell (c : TCell) : String := s!"{c.kind} {c.len} {c.cost}"

def ppON : Option Nat → String
  | some n => toString n | none => "inf"

def ppStList (l : List Storage) : String := " ".intercalate (l.map stName)
def ppNatList (l : List Nat) : String := " ".intercalate (l.map toString)

def kernel : List String → List String
  | ["nadv", n, s, traj] =>
    match n.toNat?, s.toNat?, parseTraj traj with
    | some n, some s, some t => [match nAdvance n s t with | some a => toString a | none => "raise"]
    | _, _, _ => ["?"]
  | ["memotab", nmax, smax] =>
    match nmax.toNat?, smax.toNat? with
    | some nmax, some smax =>
      let t := dpTable memoF nmax (smax + 1)
      (List.range (nmax + 1)).flatMap (fun n => (List.range (smax + 1)).map (fun s =>
        let sc := clampS n s
        s!"{n} {s} " ++ (if validKey n sc then ppCell (dpGet t n sc) else "raise")))
    | _, _ => ["?"]
  | ["extratab", nmax, smax] =>
    match nmax.toNat?, smax.toNat? with
    | some nmax, some smax =>
      let t := dpTable extraF nmax (smax + 1)
      (List.range (nmax + 1)).flatMap (fun n => (List.range (smax + 1)).map (fun s =>
        let sc := clampS n s
        s!"{n} {s} " ++ (if validKey n sc then toString (dpGet t n sc) else "raise")))
    | _, _ => ["?"]
  | ["optmixedtab", nmax, smax] =>
    match nmax.toNat?, smax.toNat? with
    | some nmax, some smax =>
      let t := dpTable optMixedF nmax (smax + 1)
      (List.range (nmax + 1)).flatMap (fun n => (List.range (smax + 1)).map (fun s =>
        let sc := clampS n s
        s!"{n} {s} " ++ (if validKey n sc then toString (dpGet t n sc) else "raise")))
    | _, _ => ["?"]
  | ["tab", n, s] =>
    match n.toNat?, s.toNat? with
    | some n, some s =>
      match mixedTab n s with
      | none => ["raise"]
      | some t => (List.range (n + 1)).flatMap (fun ni => (List.range (s + 1)).map (fun si =>
          s!"{ni} {si} " ++ ppTCell (tabGet t ni si)))
    | _, _ => ["?"]
  | ["opt0", lmax, mmax, uf, ub] =>
    match lmax.toNat?, mmax.toNat?, uf.toNat?, ub.toNat? with
    | some lmax, some mmax, some uf, some ub =>
      (opt0Table lmax mmax uf ub).toList.map (fun row => ppNatList row.toList)
    | _, _, _, _ => ["?"]
  | ["optinf", lmax, cm, uf, ub, wr] =>
    match lmax.toNat?, cm.toNat?, uf.toNat?, ub.toNat?, wr.toNat? with
    | some lmax, some cm, some uf, some ub, some wr =>
      [ppNatList (optInfTable lmax cm uf ub wr (opt0Table lmax cm uf ub)).toList]
    | _, _, _, _, _ => ["?"]
  | ["hopt", lmax, c0, c1, wd, rd, ub, uf] =>
    match lmax.toNat?, c0.toNat?, c1.toNat?, wd.toNat?, rd.toNat?, ub.toNat?, uf.toNat? with
    | some lmax, some c0, some c1, some wd, some rd, some ub, some uf =>
      let h := hoptTable lmax c0 c1 0 wd 0 rd ub uf
      let dump (name : String) (t : Array (Array (Option Nat))) : List String :=
        t.toList.map (fun row => name ++ " " ++ " ".intercalate (row.toList.map ppON))
      dump "optp0" h.optp0 ++ dump "opt0" h.opt0 ++ dump "optp1" h.optp1 ++ dump "opt1" h.opt1
    | _, _, _, _, _, _, _ => ["?"]
  | ["mxrr", cm, uf, wr] =>
    match cm.toNat?, uf.toNat?, wr.toNat? with
    | some cm, some uf, some wr => [match mxrr cm uf wr with | some m => toString m | none => "raise"]
    | _, _, _ => ["?"]
  | "argmin" :: xs =>
    match xs.mapM (fun w => if w = "inf" then some none else w.toNat?.map some) with
    | some l => if l.isEmpty then ["raise"] else [toString (argminO l)]
    | none => ["?"]
  | ["beta", x, y] =>
    match x.toNat?, y.toNat? with
    | some x, some y => [toString (beta x y)]
    | _, _ => ["?"]
  | ["alloc", n, ram, disk, traj] =>
    match n.toNat?, ram.toNat?, disk.toNat?, parseTraj traj with
    | some n, some ram, some disk, some t =>
      match allocate n ram disk t with
      | some (w, a) => [ppNatList w, ppStList a]
      | none => ["raise"]
    | _, _, _, _ => ["?"]
  | "repr" :: a =>
    match parseAct a with | some a => [pyRepr a] | none => ["?"]
  | "steps" :: a =>
    match parseAct a with | some a => [ppNatList (steps a)] | none => ["?"]
  | "eq" :: rest =>
    let (a, b) := splitBar rest
    match parseAct a, parseAct b with
    | some a, some b => [b2s (decide (a = b))]
    | _, _ => ["?"]
  | _ => ["?"]

/-- the literal twins of the Python generators (iterative loops / operation sequences):
events from `EndForward` on for the online classes, the whole stream for the offline ones -/
def twinEvs (T : Tabs) (k : Nat) (N : Nat) : List String → Option (Except Err (List Ev))
  | ["SM"] => some (singleMemoryIter N k (singleMemoryIterFuel k))
  | ["SD", mv] => do
    let mv ← s2b mv
    pure (singleDiskIter mv N k (singleDiskIterFuel N k))
  | ["NO"] => some (noneIter N)
  | ["TL", p, b, st, traj] => do
    let p ← p.toNat?; let b ← b.toNat?; let st ← parseSt st; let traj ← parseTraj traj
    pure (match twoLevelIterPass N p b st traj (twoLevelIterFuel N) with
      | .error e => .error e
      | .ok pass => .ok ((List.replicate k pass).flatten))
  | ["MS", n, ram, disk, traj] => do
    let n ← n.toNat?; let ram ← ram.toNat?; let disk ← disk.toNat?; let traj ← parseTraj traj
    pure (multistageIterEvs n ram disk traj)
  | ["MX", n, s, st, numba] => do
    let n ← n.toNat?; let s ← s.toNat?; let st ← parseSt st; let numba ← s2b numba
    pure (mixedIterEvs (if numba then tabPlanner T else memoPlanner T) n s st)
  | "RV" :: n :: cm :: costs => do
    let n ← n.toNat?; let cm ← cm.toNat?; let c ← parseCosts costs
    pure (Ops.revolveTwin n cm c)
  | "DR" :: n :: cm :: costs => do
    let n ← n.toNat?; let cm ← cm.toNat?; let c ← parseCosts costs
    pure (Ops.diskRevolveTwin n cm c)
  | "PD" :: n :: cm :: costs => do
    let n ← n.toNat?; let cm ← cm.toNat?; let c ← parseCosts costs
    pure (Ops.periodicTwin n cm c)
  | "HR" :: n :: c0 :: c1 :: costs => do
    let n ← n.toNat?; let c0 ← c0.toNat?; let c1 ← c1.toNat?; let c ← parseCosts costs
    pure (Ops.hrevolveTwin n c0 c1 c)
  | _ => none

/-- the operation sequence of the Revolve family, printed like Python's `repr(list(sequence))` -/
def opsOf : List String → Option (Costs × Option (List Ops.Op))
  | "RV" :: n :: cm :: costs => do
    let n ← n.toNat?; let cm ← cm.toNat?; let c ← parseCosts costs
    pure (c, Ops.revolveOpsTop n cm c)
  | "DR" :: n :: cm :: costs => do
    let n ← n.toNat?; let cm ← cm.toNat?; let c ← parseCosts costs
    pure (c, Ops.diskRevolveOpsTop n cm c)
  | "PD" :: n :: cm :: costs => do
    let n ← n.toNat?; let cm ← cm.toNat?; let c ← parseCosts costs
    pure (c, Ops.periodicOpsTop n cm c)
  | "HR" :: n :: c0 :: c1 :: costs => do
    let n ← n.toNat?; let c0 ← c0.toNat?; let c1 ← c1.toNat?; let c ← parseCosts costs
    pure (c, Ops.hrevolveOpsTop n c0 c1 c)
  | _ => none

/-! ## `proc`: an interleaved history over several objects and the shared memo tables

Request `proc`, then one operation per line until `ENDPROC`:
`C <class words>` construct (the object gets the next index, from 0) · `N i` next · `F i n` finalize ·
`O i` read n, r, max_n, is_exhausted, is_running · `U i R|D|W|N` uses_storage_type ·
`HE n s` optimal_extra_steps · `HM n s` optimal_steps_mixed · `HS n s` mixed_step_memoization.
One answer line per operation. -/

def parseStLong : String → Option Storage
  | "RAM" => some .ram | "DISK" => some .disk | "WORK" => some .work | "NONE" => some .none
  | s => parseSt s

def parseSpec : List String → Option Proc.Spec
  | ["SM"] => some .SM
  | ["SD", mv] => do pure (.SD (← s2b mv))
  | ["NO"] => some .NO
  | ["TL", p, b, st, traj] => do
    pure (.TL (← p.toNat?) (← b.toNat?) (← parseSt st) (← parseTraj traj))
  | ["MS", n, ram, disk, traj] => do
    pure (.MS (← n.toNat?) (← ram.toNat?) (← disk.toNat?) (← parseTraj traj))
  | ["MX", n, s, st, numba] => do
    pure (.MX (← n.toNat?) (← s.toNat?) (← parseSt st) (← s2b numba))
  | ["RV", n, cm, uf, ub, wd, rd] => do
    pure (.RV (← n.toNat?) (← cm.toNat?) (← uf.toNat?) (← ub.toNat?) (← wd.toNat?) (← rd.toNat?))
  | ["DR", n, cm, uf, ub, wd, rd] => do
    pure (.DR (← n.toNat?) (← cm.toNat?) (← uf.toNat?) (← ub.toNat?) (← wd.toNat?) (← rd.toNat?))
  | ["PD", n, cm, uf, ub, wd, rd] => do
    pure (.PD (← n.toNat?) (← cm.toNat?) (← uf.toNat?) (← ub.toNat?) (← wd.toNat?) (← rd.toNat?))
  | ["HR", n, c0, c1, uf, ub, wd, rd] => do
    pure (.HR (← n.toNat?) (← c0.toNat?) (← c1.toNat?) (← uf.toNat?) (← ub.toNat?) (← wd.toNat?)
      (← rd.toNat?))
  | _ => none

def parsePOp : List String → Option Proc.POp
  | "C" :: rest => (parseSpec rest).map .construct
  | ["N", i] => do pure (.obj (← i.toNat?) .next)
  | ["F", i, n] => do pure (.obj (← i.toNat?) (.finalize (← n.toInt?)))
  | ["O", i] => do pure (.obj (← i.toNat?) .observe)
  | ["U", i, st] => do pure (.obj (← i.toNat?) (.usesStorage (← parseStLong st)))
  | ["HE", n, s] => do pure (.optimalExtraSteps (← n.toNat?) (← s.toNat?))
  | ["HM", n, s] => do pure (.optimalStepsMixed (← n.toNat?) (← s.toNat?))
  | ["HS", n, s] => do pure (.mixedStepMemo (← n.toNat?) (← s.toNat?))
  | _ => none

def ppPOut : Proc.POut → String
  | .constructed none => "C ok"
  | .constructed (some e) => "C X " ++ errStage e
  | .next (.act o) => "A " ++ ppAct o.act ++ " | " ++ ppFlags o.n o.r o.maxN o.exhausted o.running
  | .next .stop => "S"
  | .next (.raised e) => "B " ++ errStage e
  | .fin .ok => "f ok"
  | .fin .valueError => "f ValueError"
  | .fin .runtimeError => "f RuntimeError"
  | .obs n r m e ru => "O " ++ ppFlags n r m e ru
  | .uses b => "U " ++ ob2s b
  | .helperNat (some v) => s!"H {v}"
  | .helperNat none => "H raise"
  | .helperCell (some c) => "H " ++ ppCell c
  | .helperCell none => "H raise"
  | .noObject => "?obj"

/-- read the operations of a `proc` request; `none` for a line that does not parse -/
partial def readProc (h : IO.FS.Stream) (acc : Array (Option Proc.POp)) :
    IO (Array (Option Proc.POp)) := do
  let line ← h.getLine
  if line.isEmpty then return acc
  let s := line.trimAsciiEnd.toString
  if s = "ENDPROC" then return acc
  readProc h (acc.push (parsePOp ((s.splitOn " ").filter (· ≠ ""))))

/-- run the history, answering `?` for (and skipping) lines that did not parse -/
def runProc (ops : List (Option Proc.POp)) : List String :=
  let rec go (p : Proc.Proc) : List (Option Proc.POp) → List String
    | [] => []
    | none :: rest => "?" :: go p rest
    | some op :: rest =>
      let a := p.step op
      ppPOut a.2 :: go a.1 rest
  go Proc.Proc.init ops

partial def readTrace (h : IO.FS.Stream) (acc : Array Line) : IO (Array Line) := do
  let line ← h.getLine
  if line.isEmpty then return acc
  let s := line.trimAsciiEnd.toString
  if s = "ENDTRACE" then return acc
  readTrace h (acc.push (parseLine s))

/-- the largest `max_n` of a Mixed request in these words -/
def mixedSize : List String → Nat
  | "MX" :: n :: _ => n.toNat?.getD 0
  | _ => 0

partial def loop (h : IO.FS.Stream) (out : IO.FS.Stream) (T : Tabs) : IO Unit := do
  let line ← h.getLine
  if line.isEmpty then return ()
  let ws := (line.trimAsciiEnd.toString.splitOn " ").filter (· ≠ "")
  let need := mixedSize (ws.drop 1)
  let T := if need > T.size then Tabs.mk' (max need (2 * T.size)) else T
  match ws with
  | "gen" :: rest =>
    let (cw, nums) := splitAt rest
    match parseClass T cw, nums.map String.toNat? with
    | some cs, [some Nfin, some k] =>
      for l in genTrace cs Nfin k do out.putStrLn l
    | _, _ => out.putStrLn "?"
  | "mon" :: rest =>
    let (cw, nums) := splitAt rest
    let tr ← readTrace h #[]
    match parseClass T cw, nums.map String.toNat? with
    | some cs, [some Nfin, some k] =>
      for (i, v) in monitor (cs.cfg Nfin) k tr.toList do
        out.putStrLn s!"V {i} {tagName v.tag} {v.code}"
    | _, _ => out.putStrLn "?"
  | "hist" :: rest =>
    let (cw, ops) := splitAt rest
    match parseClass T cw with
    | some cs =>
      match cs.sched with
      | .error e => out.putStrLn ("X " ++ errStage e)
      | .ok s => for l in runHist s ops do out.putStrLn l
    | none => out.putStrLn "?"
  | "twin" :: rest =>
    let (cw, nums) := splitAt rest
    match nums.map String.toNat? with
    | [some Nfin, some k] =>
      match twinEvs T k Nfin cw with
      | some (.ok evs) => for e in evs do out.putStrLn s!"E {ppAct e.act} | {e.n} {e.r}"
      | some (.error e) => out.putStrLn ("X " ++ errStage e)
      | none => out.putStrLn "?"
    | _ => out.putStrLn "?"
  | "ops" :: rest =>
    match opsOf rest with
    | some (c, some ops) =>
      out.putStrLn (Ops.ppOps ops)
      out.putStrLn s!"makespan {Ops.makespan c ops}"
    | some (_, none) => out.putStrLn "raise"
    | none => out.putStrLn "?"
  | "valid" :: rest =>
    match parseClass T rest with
    | some cs => out.putStrLn (b2s cs.valid)
    | none => out.putStrLn "?"
  | "kernel" :: rest =>
    for l in kernel rest do out.putStrLn l
  | ["proc"] =>
    let ops ← readProc h #[]
    for l in runProc ops.toList do out.putStrLn l
  | _ => out.putStrLn "?"
  out.putStrLn "."
  out.flush
  loop h out T

def main : IO Unit := do
  loop (← IO.getStdin) (← IO.getStdout) (Tabs.mk' 16)
