import CkptVerif.Model.Basic
/-! Model of `n_advance` (multistage.py:375-451). Import-free. -/
namespace Ckpt

/-- The `while b_s_tm1 >= n or n > b_s_t` loop, with fuel. Returns (t, b_s_tm2, b_s_tm1, b_s_t). -/
def advLoop : (fuel n s t b2 b1 b0 : Nat) → Option (Nat × Nat × Nat × Nat)
  | 0, _, _, _, _, _, _ => none
  | fuel+1, n, s, t, b2, b1, b0 =>
    if b1 ≥ n ∨ n > b0 then
      advLoop fuel n s (t+1) b1 b0 ((b0 * (s + (t+1))) / (t+1))
    else some (t, b2, b1, b0)

/-- `n_advance(n, snapshots, trajectory=...)`; `none` models a raised `ValueError`
(or fuel exhaustion, proved impossible in `Proofs/NAdv.lean`). -/
def nAdvance (n snapshots : Nat) (traj : Traj) : Option Nat :=
  if n < 1 then none else
  if snapshots = 0 then none else
  let s := max (min snapshots (n - 1)) 1
  if s = 1 then some (n - 1)
  else if s = n - 1 then some 1
  else
    match advLoop (n+1) n s 2 1 (s+1) (((s+1)*(s+2))/2) with
    | none => none
    | some (t, b2, b1, _b0) =>
      match traj with
      | .maximum =>
        let bm1_t2 := (b2 * s) / (s + t - 2)
        if n ≤ b1 + bm1_t2 then some (n - b1 + b2) else
        let bm1_t1 := (b1 * s) / (s + t - 1)
        let bm2_t1 := (bm1_t1 * (s - 1)) / (s + t - 2)
        if n ≤ b1 + bm2_t1 + bm1_t2 then some (b2 + bm1_t2)
        else if n ≤ b1 + bm1_t1 + bm2_t1 then some (n - bm1_t1 - bm2_t1)
        else some b1
      | .revolve =>
        let bm1_t1 := (b1 * s) / (s + t - 1)
        let bm2_t1 := (bm1_t1 * (s - 1)) / (s + t - 2)
        if n ≤ b1 + bm2_t1 then some b2
        else if n < b1 + bm1_t1 + bm2_t1 then some (n - bm1_t1 - bm2_t1)
        else some b1

end Ckpt
