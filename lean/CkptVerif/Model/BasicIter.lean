import CkptVerif.Model.Online
/-!
# Literal, iterative twins of the `_iterator`s of basic_schedules.py (after finalisation)

The generators of `SingleMemoryStorageSchedule`, `SingleDiskStorageSchedule` and
`NoneCheckpointSchedule` from the statement `yield EndForward()` onwards, i.e. from the moment
`max_n = N` is known (`finalize` has set `_n = N`; `_r = 0`), transcribed statement by statement
(line numbers of basic_schedules.py in the comments).  The `while True:` loops never end by
themselves; the twins stop where a client that wants `k` adjoint calculations stops calling
`next()`: after the `k`-th `EndReverse` (`todo` counts the calculations still wanted).
One `yield` appends one `Ev` carrying the current `_n`, `_r`; a `raise` is an `.error`.

`Proofs/BasicIterRefine.lean` proves that the twins yield exactly `first N` followed by `again N`
for each further calculation, of `singleMemorySched`, `singleDiskSched mv`, `noneSched`.
-/
namespace Ckpt

/-- the mutable state of the three generators -/
structure BIter where
  /-- `self._n` -/
  n : Nat
  /-- `self._r` -/
  r : Nat
  /-- `self._exhausted` (SingleDisk, None) -/
  exhausted : Bool
  /-- the actions yielded so far -/
  out : List Ev
deriving Repr, DecidableEq, Inhabited

/-- `yield act` -/
def BIter.yield (s : BIter) (act : Action) : BIter :=
  { s with out := s.out ++ [⟨act, s.n, s.r⟩] }

/-- `raise RuntimeError("Invalid checkpointing state")` -/
def bInvalid : Err := .later "Invalid checkpointing state"

/-- the state in which the generator is resumed after `finalize(N)` -/
def BIter.start (N : Nat) : BIter := { n := N, r := 0, exhausted := false, out := [] }

/-! ## SingleMemoryStorageSchedule (basic_schedules.py:51-64) -/

/-- lines 53-64: `while True:`; one iteration = one `next()` -/
def smLoop (N : Nat) : (fuel : Nat) → (todo : Nat) → BIter → Except Err BIter
  | 0, _, _ => .error .fuel
  | fuel+1, todo, s =>
    if todo = 0 then .ok s else                                  -- the client has stopped
    if s.r = 0 then                                              -- 54
      let s := { s with r := N }                                 -- 56
      let s := s.yield (.reverse N 0 false)                      -- 57
      smLoop N fuel todo s
    else if s.r = N then                                         -- 58
      let s := { s with r := 0 }                                 -- 61
      let s := s.yield .endReverse                               -- 62
      smLoop N fuel (todo - 1) s
    else .error bInvalid                                         -- 63-64

/-- the actions from `EndForward` up to the `k`-th `EndReverse` -/
def singleMemoryIter (N k fuel : Nat) : Except Err (List Ev) :=
  let s := (BIter.start N).yield .endForward                     -- 51
  match smLoop N fuel k s with                                   -- 53-64
  | .error e => .error e
  | .ok s => .ok s.out

/-! ## SingleDiskStorageSchedule (basic_schedules.py:131-155) -/

/-- lines 134-145: `while self._r < self._max_n:` -/
def sdWhile (move : Bool) (N : Nat) : (fuel : Nat) → BIter → Except Err BIter
  | 0, _ => .error .fuel
  | fuel+1, s =>
    if s.r < N then                                              -- 134
      let n1 := N - s.r                                          -- 135
      let n0 := n1 - 1                                           -- 136
      let s := { s with n := n0 }                                -- 138
      let s := if move then                                      -- 139
          s.yield (.move s.n .disk .work)                        -- 140
        else
          s.yield (.copy s.n .disk .work)                        -- 142
      let s := { s with r := N - n0 }                            -- 144
      let s := s.yield (.reverse n1 n0 true)                     -- 145
      sdWhile move N fuel s
    else .ok s

/-- lines 133-155: `while True:` -/
def sdLoop (move : Bool) (N : Nat) : (fuel : Nat) → (todo : Nat) → BIter → Except Err BIter
  | 0, _, _ => .error .fuel
  | fuel+1, todo, s =>
    if todo = 0 then .ok s else                                  -- the client has stopped
    match sdWhile move N fuel s with                             -- 134-145
    | .error e => .error e
    | .ok s =>
      if s.r > N then .error bInvalid else                       -- 146-147
      let s := if move then                                      -- 148
          { s with exhausted := true }                           -- 149
        else
          { s with r := 0 }                                      -- 151
      let s := s.yield .endReverse                               -- 152
      if move then .ok s                                         -- 154-155 break: the generator returns
      else sdLoop move N fuel (todo - 1) s

/-- the actions from `EndForward` up to the `k`-th `EndReverse` (or to the end of the generator) -/
def singleDiskIter (move : Bool) (N k fuel : Nat) : Except Err (List Ev) :=
  let s := (BIter.start N).yield .endForward                     -- 131
  match sdLoop move N fuel k s with                              -- 133-155
  | .error e => .error e
  | .ok s => .ok s.out

/-! ## NoneCheckpointSchedule (basic_schedules.py:208-209) -/

/-- the final state of the generator: `self._exhausted = True; yield EndForward()` -/
def noneIterState (N : Nat) : BIter :=
  let s := BIter.start N
  let s := { s with exhausted := true }                          -- 208
  s.yield .endForward                                            -- 209

def noneIter (N : Nat) : Except Err (List Ev) := .ok (noneIterState N).out

/-- fuel that always suffices (`Proofs/BasicIterRefine.lean`) -/
def singleMemoryIterFuel (k : Nat) : Nat := 2 * k + 1
def singleDiskIterFuel (N k : Nat) : Nat := N + k + 2

/-! ## validation against `first`/`again` of the `Sched` models -/

/-- `first N` followed by `k-1` times `again N` -/
def Sched.stream (s : Sched) (N k : Nat) : Except Err (List Ev) :=
  match s.first N with
  | .error e => .error e
  | .ok evs => .ok (evs ++ (List.replicate (k - 1) (s.again N)).flatten)

def sameOk (a b : Except Err (List Ev)) : Bool :=
  match a, b with
  | .ok x, .ok y => decide (x = y)
  | _, _ => false

#guard (List.range 6).all fun N' => (List.range 4).all fun k' =>
  sameOk (singleMemoryIter (N' + 1) (k' + 1) (singleMemoryIterFuel (k' + 1))) (singleMemorySched.stream (N' + 1) (k' + 1)) &&
  sameOk (singleDiskIter false (N' + 1) (k' + 1) (singleDiskIterFuel (N' + 1) (k' + 1)))
    ((singleDiskSched false).stream (N' + 1) (k' + 1)) &&
  sameOk (singleDiskIter true (N' + 1) (k' + 1) (singleDiskIterFuel (N' + 1) (k' + 1)))
    ((singleDiskSched true).stream (N' + 1) 1) &&
  sameOk (noneIter (N' + 1)) (noneSched.stream (N' + 1) 1)

end Ckpt
