import CkptVerif.Model.Multistage
/-!
# The online schedules: basic_schedules.py and twolevel_binomial.py
-/
namespace Ckpt

/-- SingleMemoryStorageSchedule (basic_schedules.py:25-88). -/
def singleMemorySched : Sched :=
  { maxN0 := none
    fwdEv := fun n => ⟨.forward n (n + maxsize) false true .work, n + maxsize, 0⟩
    first := fun N => .ok [⟨.endForward, N, 0⟩, ⟨.reverse N 0 false, N, N⟩, ⟨.endReverse, N, 0⟩]
    again := fun N => [⟨.reverse N 0 false, N, N⟩, ⟨.endReverse, N, 0⟩]
    passes := none
    uses := fun st => some (st = .work) }

/-- the reverse loop of SingleDiskStorageSchedule for `max_n = N`: steps N-1 … 0 -/
def singleDiskPass (move : Bool) (N : Nat) : Nat → List Ev
  | 0 => [⟨.endReverse, 0, if move then N else 0⟩]
  | k+1 =>
    -- n0 = k, n1 = k+1, r before = N - (k+1)
    ⟨if move then .move k .disk .work else .copy k .disk .work, k, N - (k+1)⟩ ::
    ⟨.reverse (k+1) k true, k, N - k⟩ :: singleDiskPass move N k

/-- SingleDiskStorageSchedule (basic_schedules.py:91-177). -/
def singleDiskSched (move : Bool) : Sched :=
  { maxN0 := none
    fwdEv := fun n => ⟨.forward n (n + 1) false true .disk, n + 1, 0⟩
    first := fun N => .ok (⟨.endForward, N, 0⟩ :: singleDiskPass move N N)
    again := fun N => singleDiskPass move N N
    passes := if move then some 1 else none
    uses := fun st => some (st = .disk || st = .work) }

/-- NoneCheckpointSchedule (basic_schedules.py:180-233). -/
def noneSched : Sched :=
  { maxN0 := none
    fwdEv := fun n => ⟨.forward n (n + maxsize) false false .none, n + maxsize, 0⟩
    first := fun N => .ok [⟨.endForward, N, 0⟩]
    again := fun _ => []
    passes := some 0
    uses := fun _ => some false }

/-- the blocks of one TwoLevel adjoint calculation, block index `blk-1` down to 0 -/
def twoLevelBlocks (N p b : Nat) (st : Storage) (traj : Traj) : (blk : Nat) → Option (List Ev)
  | 0 => some []
  | blk+1 =>
    let lo := blk * p
    let hi := min (lo + p) N
    match segWith N (fun m k => nAdvance m k traj) (b + 1)
        (fun d => if d = 0 then .disk else st) true (hi - lo + 1) true false lo hi 0 with
    | none => none
    | some evs =>
      match twoLevelBlocks N p b st traj blk with
      | none => none
      | some rest => some (evs ++ rest)

def twoLevelPass (N p b : Nat) (st : Storage) (traj : Traj) : List Ev :=
  match twoLevelBlocks N p b st traj ((N + p - 1) / p) with
  | some evs => evs ++ [⟨.endReverse, 1, 0⟩]
  | none => []

/-- TwoLevelCheckpointSchedule (twolevel_binomial.py:14-172). -/
def twoLevelSched (p b : Nat) (st : Storage) (traj : Traj) : Except Err Sched :=
  if p < 1 then .error (.construct "period must be positive") else
  if ¬ (st = .ram ∨ st = .disk) then .error (.construct "Invalid storage") else
  .ok { maxN0 := none
        fwdEv := fun n => ⟨.forward n (n + p) true false .disk, n + p, 0⟩
        first := fun N =>
          match twoLevelBlocks N p b st traj ((N + p - 1) / p) with
          | some _ => .ok (⟨.endForward, N, 0⟩ :: twoLevelPass N p b st traj)
          | none => .error (.later "Invalid checkpointing state")
        again := fun N => twoLevelPass N p b st traj
        passes := none
        uses := fun s => some (s = .disk || s = st) }

end Ckpt
