import CkptVerif.Model.Mixed
/-!
# The two planners of `MixedCheckpointSchedule`, as executed by the driver

`memoPlanner` answers from a bottom-up table of `memoF` (the memoised Python path),
`tabPlanner` from the literal model of `mixed_steps_tabulation` (the numba path).
One table of the largest size requested so far serves every request of a driver run.
-/
namespace Ckpt

structure Tabs where
  size : Nat
  memo : Array (Array Cell)
  tab : Option (Array (Array TCell))

def Tabs.mk' (n : Nat) : Tabs := { size := n, memo := dpTable memoF n (n + 1), tab := mixedTab n n }

def memoPlanner (T : Tabs) : Planner :=
  fun m k =>
    let s := clampS m k
    if validKey m s then some (dpGet T.memo m s) else none

def tabPlanner (T : Tabs) : Planner :=
  match T.tab with
  | none => fun _ _ => none
  | some t => fun m k =>
    let c := tabGet t m k
    if c.kind = stNone ∨ c.cost < 0 then none else some ⟨c.kind, c.len, c.cost.toNat⟩

end Ckpt
