import CkptVerif.Model.Revolve
/-!
# A faithful twin of the two-stage Python pipeline of the Revolve family

Stage 1 (`hrevolve_sequences/{revolve,disk_revolve,periodic_disk_revolve,hrevolve}.py`): a
`Sequence` of `Operation`s is built recursively (`insert`, `insert_sequence`, `.shift(jmin)`,
`.remove_useless_wm()`), and flattened depth-first (`concat = 0`; `list(sequence)`).
`revolveOps`, `diskRevolveOps`, `periodicOps`, `hrevolveRecOps`/`hrevolveAuxOps` build the flat
list directly; `ppOp` prints an operation as Python's `Operation.__repr__` does.

Stage 2 (`hrevolve.py`, `RevolveCheckpointSchedule._iterator`): the flat list is walked with an
index `i` and converted into actions.  `convertOps` mirrors the loop statement by statement
(look-behind `schedule[i - 1]` with Python's wrap-around at `i = 0`, look-ahead `schedule[i + 3]`,
the variables `w_n0`/`w_storage` that persist across iterations, `_last_reads`, the `raise`s).

Only the reachable parameter paths are mirrored: `one_read_disk = True`, `fast = False`,
`mx = None`, `concat = 0`.  Cost tables are the model's (`opt0Table`, `optInfTable`, `hoptTable`);
a table lookup outside the table (a Python `IndexError`) is not modelled: it reads the default.
-/
namespace Ckpt.Ops

/-- the operation types of `basic_functions.official_names` that the four algorithms emit -/
inductive OpKind
  | forward | backward
  | writeMemory | readMemory | discardMemory
  | writeDisk | readDisk | discardDisk
  | writeForwardMemory | discardForwardMemory
  | write | read | discard | writeForward | discardForward
deriving DecidableEq, Repr, Inhabited

/-- `Operation(type, index)`: `Forward [a, b]`, `Backward [a, b]`; the memory/disk operations have
`index = a`; the hierarchical ones `index = [lvl, a]` -/
structure Op where
  kind : OpKind
  lvl : Nat
  a : Nat
  b : Nat
deriving DecidableEq, Repr, Inhabited

namespace Op
def fwd (n0 n1 : Nat) : Op := ⟨.forward, 0, n0, n1⟩
def bwd (n1 n0 : Nat) : Op := ⟨.backward, 0, n1, n0⟩
def wm (n : Nat) : Op := ⟨.writeMemory, 0, n, 0⟩
def rm (n : Nat) : Op := ⟨.readMemory, 0, n, 0⟩
def dm (n : Nat) : Op := ⟨.discardMemory, 0, n, 0⟩
def wd (n : Nat) : Op := ⟨.writeDisk, 0, n, 0⟩
def rd (n : Nat) : Op := ⟨.readDisk, 0, n, 0⟩
def dd (n : Nat) : Op := ⟨.discardDisk, 0, n, 0⟩
def wfm (n : Nat) : Op := ⟨.writeForwardMemory, 0, n, 0⟩
def dfm (n : Nat) : Op := ⟨.discardForwardMemory, 0, n, 0⟩
def w (K n : Nat) : Op := ⟨.write, K, n, 0⟩
def r (K n : Nat) : Op := ⟨.read, K, n, 0⟩
def d (K n : Nat) : Op := ⟨.discard, K, n, 0⟩
def wf (K n : Nat) : Op := ⟨.writeForward, K, n, 0⟩
def df (K n : Nat) : Op := ⟨.discardForward, K, n, 0⟩
end Op

/-- `Operation.cost()` (basic_functions.py:160-214) with `params = revolver_parameters(wd, rd, uf, ub)`;
for the hierarchical operations `wd = [0, wd]`, `rd = [0, rd]`: level 0 (RAM) costs nothing -/
def opCost (c : Costs) (o : Op) : Nat :=
  match o.kind with
  | .forward => (o.b - o.a) * c.uf
  | .backward => c.ub
  | .readDisk => c.rd
  | .writeDisk => c.wd
  | .read => if o.lvl = 0 then 0 else c.rd
  | .write => if o.lvl = 0 then 0 else c.wd
  | .writeForward => if o.lvl = 0 then 0 else c.wd
  | _ => 0

/-- `Sequence.makespan`: the library's own running total of `Operation.cost()` -/
def makespan (c : Costs) (ops : List Op) : Nat := (ops.map (opCost c)).sum

/-- `Operation.shift(size)`: both ends of a `Forward`/`Backward`, the step of everything else -/
def shiftOp (size : Nat) (o : Op) : Op :=
  match o.kind with
  | .forward | .backward => { o with a := o.a + size, b := o.b + size }
  | _ => { o with a := o.a + size }

/-- `Sequence.shift(size)` on the flattened sequence -/
def shiftOps (size : Nat) (ops : List Op) : List Op := ops.map (shiftOp size)

/-- `Operation.__repr__` -/
def ppOp (o : Op) : String :=
  match o.kind with
  | .forward => s!"F_{o.a}->{o.b}"
  | .backward => s!"B_{o.a}->{o.b}"
  | .writeMemory => s!"WM_{o.a}"
  | .readMemory => s!"RM_{o.a}"
  | .discardMemory => s!"DM_{o.a}"
  | .writeDisk => s!"WD_{o.a}"
  | .readDisk => s!"RD_{o.a}"
  | .discardDisk => s!"DD_{o.a}"
  | .writeForwardMemory => s!"WFM_{o.a}"
  | .discardForwardMemory => s!"DFM_{o.a}"
  | .write => s!"W^{o.lvl}_{o.a}"
  | .read => s!"R^{o.lvl}_{o.a}"
  | .discard => s!"D^{o.lvl}_{o.a}"
  | .writeForward => s!"WF^{o.lvl}_{o.a}"
  | .discardForward => s!"DF^{o.lvl}_{o.a}"

/-- `repr(list(sequence))` -/
def ppOps (ops : List Op) : String := "[" ++ ", ".intercalate (ops.map ppOp) ++ "]"

/-! ## stage 1: `revolve` (revolve.py:60-141) -/

/-- `Sequence.remove_useless_wm()` (K = -1): drop a leading `Write_memory` -/
def removeUselessWm : List Op → List Op
  | o :: rest => if o.kind = .writeMemory then rest else o :: rest
  | [] => []

/-- the body of the `for index in range(l - 1, -1, -1)` loop of `revolve` (`cm == 1`) -/
def revolveLoopBody (l index : Nat) : List Op :=
  (if index ≠ l - 1 then [Op.rm 0] else []) ++
  (if index + 1 ≠ 0 then [Op.fwd 0 (index + 1)] else []) ++
  [Op.wfm (index + 2), Op.fwd (index + 1) (index + 2), Op.bwd (index + 2) (index + 1),
   Op.dfm (index + 2)]

/-- `revolve(l, cm, …, opt_0 = t0)`; `none`: the `ValueError` for `cm == 0` -/
def revolveOps (t0 : Array (Array Nat)) (uf : Nat) : (fuel l cm : Nat) → Option (List Op)
  | 0, _, _ => none
  | fuel+1, l, cm =>
    if l = 0 then
      some [Op.wfm 1, Op.fwd 0 1, Op.bwd 1 0, Op.dfm 1, Op.dm 0]
    else if cm = 0 then none
    else if l = 1 then
      some [Op.wm 0, Op.fwd 0 1, Op.wfm 2, Op.fwd 1 2, Op.bwd 2 1, Op.dfm 2, Op.rm 0,
            Op.wfm 1, Op.fwd 0 1, Op.bwd 1 0, Op.dfm 1, Op.dm 0]
    else if cm = 1 then
      some ([Op.wm 0] ++ (List.range l).reverse.flatMap (revolveLoopBody l) ++
        [Op.rm 0, Op.wfm 1, Op.fwd 0 1, Op.bwd 1 0, Op.dfm 1, Op.dm 0])
    else
      let listMem := (List.range' 1 (l - 1)).map (fun j =>
        some (j * uf + opt0Get t0 (cm - 1) (l - j) + opt0Get t0 cm (j - 1)))
      let jmin := argminO listMem
      match revolveOps t0 uf fuel (l - jmin) (cm - 1) with
      | none => none
      | some right =>
        match revolveOps t0 uf fuel (jmin - 1) cm with
        | none => none
        | some left =>
          some ([Op.wm 0, Op.fwd 0 jmin] ++ shiftOps jmin right ++ [Op.rm 0] ++
            removeUselessWm left)

/-! ## stage 1: `disk_revolve` (disk_revolve.py:94-191) -/

/-- `disk_revolve(l, cm, …)` with `wr = wd + rd` -/
def diskRevolveOps (t0 : Array (Array Nat)) (tinf : Array Nat) (cm uf wr : Nat) :
    (fuel l : Nat) → Option (List Op)
  | 0, _ => none
  | fuel+1, l =>
    if l = 0 then some [Op.wfm 1, Op.fwd 0 1, Op.bwd 1 0, Op.dfm 1]
    else if l = 1 then
      if cm = 0 then
        some [Op.wd 0, Op.fwd 0 1, Op.wfm 2, Op.fwd 1 2, Op.bwd 2 1, Op.dfm 2, Op.rd 0,
              Op.wfm 1, Op.fwd 0 1, Op.bwd 1 0, Op.dfm 1, Op.dd 0]
      else
        some [Op.wm 0, Op.fwd 0 1, Op.wfm 2, Op.fwd 1 2, Op.bwd 2 1, Op.dfm 2, Op.rm 0,
              Op.wfm 1, Op.fwd 0 1, Op.bwd 1 0, Op.dfm 1, Op.dm 0]
    else
      let listMem := (List.range' 1 (l - 1)).map (fun j =>
        wr + j * uf + tinf.getD (l - j) 0 + opt0Get t0 cm (j - 1))
      if listMem.foldl min (listMem.headD 0) < opt0Get t0 cm l then
        let jmin := argminO (listMem.map some)
        match diskRevolveOps t0 tinf cm uf wr fuel (l - jmin) with
        | none => none
        | some right =>
          match revolveOps t0 uf jmin (jmin - 1) cm with
          | none => none
          | some left =>
            some ([Op.wd 0, Op.fwd 0 jmin] ++ shiftOps jmin right ++ [Op.rd 0] ++ left)
      else revolveOps t0 uf (l + 1) l cm

/-! ## stage 1: `periodic_disk_revolve` (periodic_disk_revolve.py:190-300) -/

/-- the first `while` loop: `Write_disk`, `Forward` over one period; returns `current_task` -/
def periodicSweepOps (l mx : Nat) : (fuel ct : Nat) → List Op × Nat
  | 0, ct => ([], ct)
  | fuel+1, ct =>
    if l - ct > mx then
      let (rest, ct') := periodicSweepOps l mx fuel (ct + mx)
      (Op.wd ct :: Op.fwd ct (ct + mx) :: rest, ct')
    else ([], ct)

/-- the last `while` loop: `Read_disk`, then `revolve(mx - 1, cm)` shifted, for each period -/
def periodicBlockOps (t0 : Array (Array Nat)) (uf cm mx : Nat) : (nblk : Nat) → Option (List Op)
  | 0 => some []
  | b+1 =>
    match revolveOps t0 uf mx (mx - 1) cm with
    | none => none
    | some blk =>
      match periodicBlockOps t0 uf cm mx b with
      | none => none
      | some rest => some ([Op.rd (b * mx)] ++ shiftOps (b * mx) blk ++ rest)

/-- `periodic_disk_revolve(l, cm, …)` for the period `mx` and the table `t0` -/
def periodicOps (t0 : Array (Array Nat)) (uf cm mx l : Nat) : Option (List Op) :=
  let (sweep, ct) := periodicSweepOps l mx (l + 1) 0
  match revolveOps t0 uf (l - ct + 1) (l - ct) cm with
  | none => none
  | some mid =>
    match periodicBlockOps t0 uf cm mx (ct / mx) with
    | none => none
    | some blocks => some (sweep ++ shiftOps ct mid ++ blocks)

/-! ## stage 1: `hrevolve_recurse` / `hrevolve_aux` (hrevolve_sequences/hrevolve.py) -/

/-- the body of the `for index in range(l - 1, -1, -1)` loop of `hrevolve_aux` (`K == 0`,
`cmem == 1`) -/
def hrevolveLoopBody (l index : Nat) : List Op :=
  (if index ≠ l - 1 then [Op.r 0 0] else []) ++
  (if index + 1 ≠ 0 then [Op.fwd 0 (index + 1)] else []) ++
  [Op.wf 0 (index + 2), Op.fwd (index + 1) (index + 2), Op.bwd (index + 2) (index + 1),
   Op.df 0 (index + 2)]

mutual
/-- `hrevolve_recurse(l, K, cmem, …)`; `none`: `KeyError` -/
def hrevolveRecOps (c : HCtx) : (fuel l K cmem : Nat) → Option (List Op)
  | 0, _, _, _ => none
  | fuel+1, l, K, cmem =>
    if l = 0 then some [Op.wf 0 1, Op.fwd 0 1, Op.bwd 1 0, Op.df 0 1]
    else if K = 0 ∧ cmem = 0 then none
    else if l = 1 then
      some [Op.w 0 0, Op.fwd 0 1, Op.wf 0 2, Op.fwd 1 2, Op.bwd 2 1, Op.df 0 2, Op.r 0 0,
            Op.wf 0 1, Op.fwd 0 1, Op.bwd 1 0, Op.df 0 1, Op.d 0 0]
    else if K = 0 then
      match hrevolveAuxOps c fuel l 0 cmem with
      | none => none
      | some aux => some ([Op.w 0 0] ++ aux)
    else if olt (oadd (some (c.w K)) (c.tab.optp K l cmem)) (c.tab.opt (K - 1) l (cv c (K - 1))) then
      match hrevolveAuxOps c fuel l K cmem with
      | none => none
      | some aux => some ([Op.w K 0] ++ aux)
    else hrevolveRecOps c fuel l (K - 1) (cv c (K - 1))
/-- `hrevolve_aux(l, K, cmem, …)`; `none`: `KeyError` -/
def hrevolveAuxOps (c : HCtx) : (fuel l K cmem : Nat) → Option (List Op)
  | 0, _, _, _ => none
  | fuel+1, l, K, cmem =>
    if cmem = 0 then none
    else if l = 0 then some [Op.wf 0 1, Op.fwd 0 1, Op.bwd 1 0, Op.df 0 1]
    else if l = 1 then
      let t : Bool := c.w 0 + c.rr 0 < c.rr K
      some ((if t then [Op.w 0 0] else []) ++
        [Op.fwd 0 1, Op.wf 0 2, Op.fwd 1 2, Op.bwd 2 1, Op.df 0 2] ++
        [if t then Op.r 0 0 else Op.r K 0] ++
        [Op.wf 0 1, Op.fwd 0 1, Op.bwd 1 0, Op.df 0 1, Op.d 0 0])
    else if K = 0 ∧ cmem = 1 then
      some ((List.range l).reverse.flatMap (hrevolveLoopBody l) ++
        [Op.r 0 0, Op.wf 0 1, Op.fwd 0 1, Op.bwd 1 0, Op.df 0 1, Op.d 0 0])
    else
      let listMem := (List.range' 1 (l - 1)).map (fun j =>
        oadd (oadd (oadd (some (j * c.uf)) (c.tab.opt K (l - j) (cmem - 1))) (some (c.rr K)))
          (c.tab.optp K (j - 1) cmem))
      if K = 0 then
        if olt (ominList listMem) (c.tab.optp 0 l 1) then
          let jmin := argminO listMem
          match hrevolveRecOps c fuel (l - jmin) 0 (cmem - 1) with
          | none => none
          | some right =>
            match hrevolveAuxOps c fuel (jmin - 1) 0 cmem with
            | none => none
            | some left =>
              let s := [Op.fwd 0 jmin] ++ shiftOps jmin right ++ [Op.r 0 0] ++ left
              -- `aux = sequence; while aux.type == 'Function': aux = aux.sequence[-1]`
              some (if (s.getLast?.map (·.kind)) ≠ some .discard then s ++ [Op.d 0 0] else s)
        else hrevolveAuxOps c fuel l 0 1
      else
        if olt (ominList listMem) (c.tab.opt (K - 1) l (cv c (K - 1))) then
          let jmin := argminO listMem
          match hrevolveRecOps c fuel (l - jmin) K (cmem - 1) with
          | none => none
          | some right =>
            match hrevolveAuxOps c fuel (jmin - 1) K cmem with
            | none => none
            | some left =>
              some ([Op.fwd 0 jmin] ++ shiftOps jmin right ++ [Op.r K 0] ++ left)
        else hrevolveRecOps c fuel l (K - 1) (cv c (K - 1))
end

/-! ## stage 2: `_convert_action` and `_last_reads` (hrevolve.py:356-441) -/

/-- the result of `_convert_action`: `(cp_action, (n_0, n_1, storage))`; `None` is `none` -/
structure CAct where
  kind : OpKind
  n0 : Nat
  n1 : Option Nat
  storage : Option Storage
deriving DecidableEq, Repr, Inhabited

/-- `_convert_action(action)`; `.error`: the exception it raises -/
def convAct (o : Op) : Except String CAct :=
  match o.kind with
  | .forward =>
    if o.b ≤ o.a then .error "RuntimeError: Invalid forward indexes." else
    .ok ⟨o.kind, o.a, some o.b, none⟩
  | .backward =>
    if o.a ≤ o.b then .error "RuntimeError: Invalid backward indexes." else
    .ok ⟨o.kind, o.a, some o.b, none⟩
  | .read | .write | .discard =>
    if o.lvl = 0 then .ok ⟨o.kind, o.a, none, some .ram⟩
    else if o.lvl = 1 then .ok ⟨o.kind, o.a, none, some .disk⟩
    else .error "KeyError"
  | .writeForward | .discardForward => .ok ⟨o.kind, o.a, none, some .work⟩
  | .writeForwardMemory | .discardForwardMemory => .ok ⟨o.kind, o.a, none, some .work⟩
  | .readDisk | .writeDisk | .discardDisk => .ok ⟨o.kind, o.a, none, some .disk⟩
  | .readMemory | .writeMemory | .discardMemory => .ok ⟨o.kind, o.a, none, some .ram⟩

def OpKind.isRead : OpKind → Bool
  | .read | .readMemory | .readDisk => true
  | _ => false

def OpKind.isWrite : OpKind → Bool
  | .write | .writeMemory | .writeDisk => true
  | _ => false

/-- the loop of `_last_reads`, `i` running down from `len - 1` to `0`; state:
`(last_reads, read_later)` -/
def lastReadsLoop (sched : Array Op) :
    (i : Nat) → List Nat × List (Option Storage × Nat) →
      Except String (List Nat × List (Option Storage × Nat))
  | 0, s => .ok s
  | i+1, (lastReads, readLater) =>
    match convAct (sched.getD i default) with
    | .error e => .error e
    | .ok a =>
      if a.kind.isRead then
        lastReadsLoop sched i
          (if readLater.contains (a.storage, a.n0) then lastReads else i :: lastReads,
           if readLater.contains (a.storage, a.n0) then readLater else (a.storage, a.n0) :: readLater)
      else if a.kind.isWrite then
        lastReadsLoop sched i (lastReads, readLater.filter (· ≠ (a.storage, a.n0)))
      else lastReadsLoop sched i (lastReads, readLater)

/-- `_last_reads(schedule)` -/
def lastReads (sched : Array Op) : Except String (List Nat) :=
  (lastReadsLoop sched sched.size ([], [])).map (·.1)

/-! ## stage 2: `RevolveCheckpointSchedule._iterator` (hrevolve.py:59-153) -/

/-- the local variables of `_iterator` (`w_n0 = none`: not yet bound), `self._n`, `self._r`, and
the actions yielded so far -/
structure ConvSt where
  n : Nat
  r : Nat
  snapshots : List (Option Storage × Nat)
  wStorage : Option Storage
  wN0 : Option Nat
  writeIcs : Bool
  adjDeps : Bool
  out : List Ev
deriving Repr, Inhabited

def ConvSt.init : ConvSt :=
  { n := 0, r := 0, snapshots := [], wStorage := none, wN0 := none, writeIcs := false,
    adjDeps := false, out := [] }

/-- `yield action`: the event carries `self._n`, `self._r` at the time of the yield -/
def ConvSt.yield (s : ConvSt) (a : Action) : ConvSt := { s with out := s.out ++ [⟨a, s.n, s.r⟩] }

/-- `schedule[j]` for a Python index `j ≥ -1` given as `i - 1` (`i = 0` wraps to the last
element); `none`: `IndexError` -/
def pyGetPrev (sched : Array Op) (i : Nat) : Option Op :=
  if i = 0 then (if sched.size = 0 then none else sched[sched.size - 1]?) else sched[i - 1]?

/-- The body of the `while i < len(self._schedule)` loop (without the `i += 1`) for the operation
`cur = schedule[i]`, given what the body may inspect besides its state: `prev = schedule[i - 1]`
(`none`: `IndexError`), `ahead = schedule[i + 3]` (`none`: `IndexError`), `isLast = (i in
last_reads)`, `early = (i < 2)`. -/
def convBody (N : Nat) (prev : Option Op) (cur : Op) (ahead : Option Op) (isLast early : Bool)
    (s : ConvSt) : Except String ConvSt :=
  match convAct cur with
  | .error e => .error e
  | .ok a =>
    match a.kind with
    | .forward =>
      if a.n0 ≠ s.n then .error "InvalidForwardStep" else
      let n1 := a.n1.getD 0
      let s := { s with n := n1 }
      match prev with
      | none => .error "IndexError"
      | some prev =>
        match convAct prev with
        | .error e => .error e
        | .ok w =>
          -- `w_cp_action, (w_n0, _, w_storage) = _convert_action(self._schedule[i - 1])`
          let s := { s with wN0 := some w.n0, wStorage := w.storage }
          let fin (s : ConvSt) : Except String ConvSt :=
            let s := s.yield (.forward a.n0 n1 s.writeIcs s.adjDeps (s.wStorage.getD .none))
            if s.n = N then
              if s.r ≠ 0 then .error "InvalidReverseStep" else .ok (s.yield .endForward)
            else .ok s
          if w.kind.isWrite then
            if w.n0 ≠ a.n0 then .error "InvalidActionIndex" else
            fin { s with writeIcs := true, adjDeps := false,
                         snapshots := if s.snapshots.contains (w.storage, w.n0) then s.snapshots
                                      else (w.storage, w.n0) :: s.snapshots }
          else if w.kind = .writeForward ∨ w.kind = .writeForwardMemory then
            if w.n0 ≠ n1 then .error "InvalidActionIndex" else
            fin { s with writeIcs := false, adjDeps := true }
          else
            fin { s with writeIcs := false, adjDeps := false, wStorage := some .work }
    | .backward =>
      if a.n0 ≠ s.n then .error "InvalidActionIndex" else
      if a.n0 ≠ N - s.r then .error "InvalidForwardStep" else
      let s := { s with r := s.r + 1 }
      .ok (s.yield (.reverse a.n0 (a.n1.getD 0) true))
    | .read | .readMemory | .readDisk =>
      let s := { s with n := a.n0 }
      if isLast then
        if ¬ s.snapshots.contains (a.storage, a.n0) then .error "KeyError" else
        let s := { s with snapshots := s.snapshots.filter (· ≠ (a.storage, a.n0)) }
        .ok (s.yield (.move a.n0 (a.storage.getD .none) .work))
      else .ok (s.yield (.copy a.n0 (a.storage.getD .none) .work))
    | .write | .writeDisk | .writeMemory =>
      if a.n0 ≠ s.n then .error "InvalidActionIndex" else .ok s
    | .writeForward =>
      if a.n0 ≠ s.n + 1 then .error "InvalidActionIndex" else
      match ahead with
      | none => .error "IndexError"
      | some nxt =>
        match convAct nxt with
        | .error e => .error e
        | .ok d =>
          -- `d_cp_action, (d_n0, _, w_storage) = _convert_action(self._schedule[i + 3])`
          let s := { s with wStorage := d.storage }
          if d.kind ≠ .discardForward ∨ d.n0 ≠ a.n0 ∨ d.storage ≠ a.storage then
            match s.wN0 with
            | none => .error "UnboundLocalError"
            | some wn0 =>
              if wn0 ≠ a.n0 then .error "InvalidActionIndex" else
              .ok { s with writeIcs := true, adjDeps := false }
          else .ok s
    | .writeForwardMemory =>
      if a.n0 ≠ s.n + 1 then .error "InvalidActionIndex" else
      match ahead with
      | none => .error "IndexError"
      | some nxt =>
        match convAct nxt with
        | .error e => .error e
        | .ok d =>
          let s := { s with wStorage := d.storage }
          if d.kind ≠ .discardForwardMemory ∨ d.n0 ≠ a.n0 ∨ d.storage ≠ a.storage then
            match s.wN0 with
            | none => .error "UnboundLocalError"
            | some wn0 => if wn0 ≠ a.n0 then .error "InvalidActionIndex" else .ok s
          else .ok s
    | .discard | .discardMemory =>
      if early then .error "InvalidRevolverAction" else .ok s
    | .discardForward | .discardForwardMemory =>
      if a.n0 ≠ s.n then .error "InvalidActionIndex" else .ok s
    | .discardDisk => .error "InvalidRevolverAction"

/-- one iteration at index `i` of the schedule -/
def convStep (N : Nat) (sched : Array Op) (lastR : List Nat) (i : Nat) (s : ConvSt) :
    Except String ConvSt :=
  convBody N (pyGetPrev sched i) (sched.getD i default) sched[i + 3]? (lastR.contains i)
    (decide (i < 2)) s

/-- an exception: raised by the first `next()` if nothing has been yielded yet -/
def convErr (s : ConvSt) (e : String) : Err := if s.out.isEmpty then .firstNext e else .later e

/-- the `while` loop, `i` running from `i` to `len`; `fuel` = iterations left -/
def convLoop (N : Nat) (sched : Array Op) (lastR : List Nat) :
    (fuel i : Nat) → ConvSt → Except Err ConvSt
  | 0, _, s => .ok s
  | fuel+1, i, s =>
    match convStep N sched lastR i s with
    | .error e => .error (convErr s e)
    | .ok s' => convLoop N sched lastR fuel (i + 1) s'

/-- `RevolveCheckpointSchedule(max_n = N, …, schedule = ops)._iterator()`: all yielded actions
with the values of `_n`, `_r` at each yield, or the exception -/
def convertOps (N : Nat) (ops : List Op) : Except Err (List Ev) :=
  let sched := ops.toArray
  match lastReads sched with
  | .error e => .error (.firstNext e)
  | .ok lastR =>
    match convLoop N sched lastR sched.size 0 ConvSt.init with
    | .error e => .error e
    | .ok s =>
      if s.snapshots.length > 0 then .error (convErr s "RuntimeError: Unexpected snapshot number.")
      else .ok ((s.yield .endReverse).out)

/-! ## the four classes: stage 1 then stage 2 -/

/-- `list(revolve(max_n - 1, snapshots_in_ram, wd, rd, uf, ub))` -/
def revolveOpsTop (N cm : Nat) (c : Costs) : Option (List Op) :=
  revolveOps (opt0Table (N - 1) cm c.uf c.ub) c.uf N (N - 1) cm

/-- `list(disk_revolve(max_n - 1, snapshots_in_ram, wd, rd, uf, ub))` -/
def diskRevolveOpsTop (N cm : Nat) (c : Costs) : Option (List Op) :=
  let t0 := opt0Table (N - 1) cm c.uf c.ub
  let tinf := optInfTable (N - 1) cm c.uf c.ub (c.wd + c.rd) t0
  diskRevolveOps t0 tinf cm c.uf (c.wd + c.rd) N (N - 1)

/-- `list(periodic_disk_revolve(max_n - 1, snapshots_in_ram, wd, rd, uf, ub))`; `none`: an exception
while building (`uf = 0`: `ZeroDivisionError`) -/
def periodicOpsTop (N cm : Nat) (c : Costs) : Option (List Op) :=
  match mxrr cm c.uf (c.wd + c.rd) with
  | none => none
  | some mx => periodicOps (opt0Table (mx + 1) cm c.uf c.ub) c.uf cm mx (N - 1)

/-- the context of `hrevolve(max_n - 1, (c0, c1), [0, wd], [0, rd], uf, ub)` -/
def hrevolveCtx (N c0 c1 : Nat) (c : Costs) : HCtx :=
  { N := N, c0 := c0, c1 := c1, uf := c.uf,
    w := fun K => if K = 0 then 0 else c.wd, rr := fun K => if K = 0 then 0 else c.rd,
    tab := hoptTable (N - 1) c0 c1 0 c.wd 0 c.rd c.ub c.uf }

/-- `list(hrevolve(max_n - 1, (c0, c1), [0, wd], [0, rd], uf, ub))` -/
def hrevolveOpsTop (N c0 c1 : Nat) (c : Costs) : Option (List Op) :=
  hrevolveRecOps (hrevolveCtx N c0 c1 c) (4 * N + 8) (N - 1) 1 c1

def twinOf (N : Nat) (what : String) (ops : Option (List Op)) : Except Err (List Ev) :=
  match ops with
  | none => .error (.construct what)
  | some ops => convertOps N ops

/-- `Revolve(N, cm, uf, ub, wd, rd)`: the stream of the twin -/
def revolveTwin (N cm : Nat) (c : Costs) : Except Err (List Ev) :=
  twinOf N "revolve" (revolveOpsTop N cm c)

def diskRevolveTwin (N cm : Nat) (c : Costs) : Except Err (List Ev) :=
  twinOf N "disk_revolve" (diskRevolveOpsTop N cm c)

def periodicTwin (N cm : Nat) (c : Costs) : Except Err (List Ev) :=
  twinOf N "periodic_disk_revolve" (periodicOpsTop N cm c)

def hrevolveTwin (N c0 c1 : Nat) (c : Costs) : Except Err (List Ev) :=
  twinOf N "hrevolve" (hrevolveOpsTop N c0 c1 c)

end Ckpt.Ops
