import CkptVerif.Model.Mixed
/-!
# `cache_step`: the three kernels with an explicit memo table

```
def cache_step(fn):
    _cache = {}
    def wrapped_fn(n, s):
        s = min(s, n - 1)
        if (n, s) not in _cache:
            _cache[(n, s)] = fn(n, s)   # fn's own recursive calls go through wrapped_fn again
        return _cache[(n, s)]
```

The dictionary is an association list threaded through every call (state passing:
a computation is a function `Cache α → Cache α × α`).  `memoFM`, `extraFM`, `optMixedFM` are the
bodies of `mixed_step_memoization`, `optimal_extra_steps`, `optimal_steps_mixed` with the recursive
calls made through the wrapper, in the order Python makes them.  `cachedCall` is `wrapped_fn`.
The `ValueError` paths are not modelled: the statements in `Proofs/Cache.lean` are about valid
keys (`validKey n (clampS n s)`), for which neither the wrapper nor the body raises and all
recursive calls are again on valid keys.  `fuel` bounds the recursion depth (Python's stack);
`n + 1` is enough for a call with first argument `n`.
-/
namespace Ckpt

/-- `_cache`: keys `(n, s)` (after the clamp) -/
abbrev Cache (α : Type) := List ((Nat × Nat) × α)

/-- `_cache[k]` if `k in _cache` -/
def cacheLookup {α : Type} : Cache α → Nat × Nat → Option α
  | [], _ => none
  | (k', v) :: rest, k => if k' = k then some v else cacheLookup rest k

/-- `_cache[k] = v` for a key not yet present -/
def cacheInsert {α : Type} (c : Cache α) (k : Nat × Nat) (v : α) : Cache α := (k, v) :: c

/-- a computation that reads and extends the cache -/
abbrev CM (α β : Type) := Cache α → Cache α × β

/-- the (wrapped) function as seen from inside a body -/
abbrev Getter (α : Type) := Nat → Nat → CM α α

/-! ## `mixed_step_memoization` -/

/-- one iteration of `for i in range(2, n)`: two wrapped calls, then the comparison -/
def memoStepM (n s : Nat) (get : Getter Cell) (st : Cache Cell × Option Cell) (i : Nat) :
    Cache Cell × Option Cell :=
  let r1 := get i s st.1
  let r2 := get (n - i) (s - 1) r1.1
  let m1 := i + r1.2.cost + r2.2.cost
  (r2.1, match st.2 with
    | none => some ⟨stWriteIcs, i, m1⟩
    | some c => if m1 ≤ c.cost then some ⟨stWriteIcs, i, m1⟩ else some c)

def memoFM (n s : Nat) (get : Getter Cell) : CM Cell Cell := fun c =>
  if n ≤ 1 then (c, ⟨stForwardReverse, 1, 1⟩)
  else if n ≤ s + 1 then (c, ⟨stWriteAdjDeps, 1, n⟩)
  else if s = 1 then (c, ⟨stWriteIcs, n - 1, n * (n + 1) / 2 - 1⟩)
  else
    let st := (List.range' 2 (n - 2)).foldl (memoStepM n s get) (c, none)
    match st.2 with
    | none => (st.1, default)
    | some cc =>
      let r := get (n - 1) (s - 1) st.1
      let m1 := 1 + r.2.cost
      (r.1, if m1 < cc.cost then ⟨stWriteAdjDeps, 1, m1⟩ else cc)

/-! ## `optimal_extra_steps` -/

def extraStepM (n s : Nat) (get : Getter Nat) (st : Cache Nat × Option Nat) (i : Nat) :
    Cache Nat × Option Nat :=
  let r1 := get i s st.1
  let r2 := get (n - i) (s - 1) r1.1
  let m1 := i + r1.2 + r2.2
  (r2.1, match st.2 with
    | none => some m1
    | some c => if m1 < c then some m1 else some c)

def extraFM (n s : Nat) (get : Getter Nat) : CM Nat Nat := fun c =>
  if n ≤ 1 then (c, 0)
  else if s = 1 then (c, n * (n - 1) / 2)
  else
    let st := (List.range' 1 (n - 1)).foldl (extraStepM n s get) (c, none)
    (st.1, st.2.getD 0)

/-! ## `optimal_steps_mixed` -/

def optMixedStepM (n s : Nat) (get : Getter Nat) (st : Cache Nat × Nat) (i : Nat) :
    Cache Nat × Nat :=
  let r1 := get i s st.1
  let r2 := get (n - i) (s - 1) r1.1
  (r2.1, min st.2 (i + r1.2 + r2.2))

def optMixedFM (n s : Nat) (get : Getter Nat) : CM Nat Nat := fun c =>
  if n ≤ s + 1 then (c, n)
  else if s = 1 then (c, n * (n + 1) / 2 - 1)
  else
    let r := get (n - 1) (s - 1) c
    (List.range' 2 (n - 2)).foldl (optMixedStepM n s get) (r.1, 1 + r.2)

/-! ## the wrapper -/

/-- `wrapped_fn(n, s)`; the body's recursive calls are `wrapped_fn` again -/
def cachedCall {α : Type} [Inhabited α] (FM : Nat → Nat → Getter α → CM α α) :
    (fuel : Nat) → Getter α
  | 0, _, _, c => (c, default)
  | fuel+1, n, s, c =>
    let s := clampS n s
    match cacheLookup c (n, s) with
    | some v => (c, v)
    | none =>
      let r := FM n s (cachedCall FM fuel) c
      (cacheInsert r.1 (n, s) r.2, r.2)

/-- a sequence of top-level calls sharing the cache; returns the answers in order -/
def runCalls {α : Type} [Inhabited α] (FM : Nat → Nat → Getter α → CM α α) :
    List (Nat × Nat) → CM α (List α)
  | [], c => (c, [])
  | k :: rest, c =>
    let r := cachedCall FM (k.1 + 1) k.1 k.2 c
    let rs := runCalls FM rest r.1
    (rs.1, r.2 :: rs.2)

end Ckpt
