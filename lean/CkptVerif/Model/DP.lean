import CkptVerif.Model.Basic
/-!
# Two-index dynamic programs: recursive specification and table

The Python kernels `optimal_extra_steps`, `optimal_steps_mixed` and `mixed_step_memoization` are
recursive functions of `(n, s)` that only call themselves on lexicographically earlier keys
(`s' < s`, or `s' = s ∧ n' < n`), wrapped in a memo table (`cache_step`).  `fixDP F` is the
recursive function itself (well-founded recursion; this is the specification).  `dpTable F` is a
bottom-up table used to *execute* it; `Proofs/DP.lean` proves that the two agree cell by cell.
-/
namespace Ckpt

/-- `F n s get`: the body of the recursive function; `get i j` stands for the recursive call. -/
def fixDP {α : Type} [Inhabited α] (F : Nat → Nat → (Nat → Nat → α) → α) (n s : Nat) : α :=
  F n s (fun i j => if _h : j < s ∨ (j = s ∧ i < n) then fixDP F i j else default)
termination_by (s, n)
decreasing_by
  all_goals simp_wf
  rcases _h with h | ⟨h1, h2⟩
  · exact Prod.Lex.left _ _ h
  · subst h1; exact Prod.Lex.right _ h2

/-- one row `s` of the table (cells `n = 0 … nmax`), given the rows `0 … s-1` -/
def dpRow {α : Type} [Inhabited α] (F : Nat → Nat → (Nat → Nat → α) → α)
    (prev : Array (Array α)) (s : Nat) : (k : Nat) → Array α
  | 0 => #[]
  | k+1 =>
    let acc := dpRow F prev s k
    acc.push (F k s (fun i j =>
      if j = s then acc.getD i default else (prev.getD j #[]).getD i default))

/-- rows `0 … smax`, each with cells `0 … nmax`; indexed `[s][n]` -/
def dpTable {α : Type} [Inhabited α] (F : Nat → Nat → (Nat → Nat → α) → α) (nmax : Nat) :
    (rows : Nat) → Array (Array α)
  | 0 => #[]
  | k+1 =>
    let prev := dpTable F nmax k
    prev.push (dpRow F prev k (nmax + 1))

def dpGet {α : Type} [Inhabited α] (t : Array (Array α)) (n s : Nat) : α :=
  (t.getD s #[]).getD n default

end Ckpt
