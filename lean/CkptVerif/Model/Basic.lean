/-!
# Basic data of the model (import-free)

Mirrors `checkpoint_schedules/schedule.py`: storage types, the six actions, and the
observable counters a schedule reports after each `next()`.
-/
namespace Ckpt

/-- `StorageType` of schedule.py. -/
inductive Storage | ram | disk | work | none
deriving DecidableEq, Repr, Inhabited

/-- `trajectory` argument of the binomial schedules. -/
inductive Traj | maximum | revolve
deriving DecidableEq, Repr, Inhabited

/-- The six action kinds, with the constructor arguments in the order of schedule.py. -/
inductive Action
  | forward (n0 n1 : Nat) (wIcs wAdj : Bool) (st : Storage)
  | reverse (n1 n0 : Nat) (clear : Bool)
  | copy (n : Nat) (src dst : Storage)
  | move (n : Nat) (src dst : Storage)
  | endForward
  | endReverse
deriving DecidableEq, Repr, Inhabited

/-- `sys.maxsize` on the 64-bit CPython the repository runs on. -/
def maxsize : Nat := 2^63 - 1

/-- What a generator body produces at one `yield`: the action, and the values the body has
assigned to `self._n` and `self._r` before yielding. -/
structure Ev where
  act : Action
  n : Nat
  r : Nat
deriving DecidableEq, Repr, Inhabited

/-- What a client observes after one `next()`: the action plus the public counters/flags. -/
structure Obs where
  act : Action
  n : Nat
  r : Nat
  maxN : Option Nat
  exhausted : Bool
  running : Bool
deriving DecidableEq, Repr, Inhabited

/-- Errors are outcomes of the model, never defaults. The stage at which Python raises is part
of the outcome. -/
inductive Err
  | construct (what : String)     -- raised by `__init__`
  | firstNext (what : String)     -- raised by the first `next()`
  | later (what : String)         -- raised after at least one action was yielded
  | fuel                          -- model ran out of fuel (proved impossible where it matters)
deriving DecidableEq, Repr, Inhabited

def Storage.isStore : Storage → Bool
  | .ram => true | .disk => true | _ => false

end Ckpt
