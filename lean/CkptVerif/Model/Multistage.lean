import CkptVerif.Model.Segment
import CkptVerif.Model.Machine
/-!
# MultistageCheckpointSchedule (multistage.py:134-309) and `allocate_snapshots` (32-131)
-/
namespace Ckpt

/-- The dry run of `allocate_snapshots`: walk the all-in-one-storage stream keeping the stack
index `snapshot_i` (here `top = snapshot_i + 1`) and add 1.0 per write and per read to the
weight of the stack position concerned.  `none` = one of its RuntimeErrors. -/
def dryRun (S : Nat) : List Ev → (top : Nat) → (w : List Nat) → Option (Nat × List Nat)
  | [], top, w => some (top, w)
  | e :: es, top, w =>
    match e.act with
    | .forward _ _ true _ _ =>
      if top + 1 > S then none else dryRun S es (top + 1) (w.modify top (· + 1))
    | .copy _ _ _ =>
      if top = 0 then none else dryRun S es top (w.modify (top - 1) (· + 1))
    | .move _ _ dst =>
      if top = 0 then none else
      dryRun S es (if dst = .work then top - 1 else top) (w.modify (top - 1) (· + 1))
    | _ => dryRun S es top w

/-- stable insertion into a list sorted by descending weight (Python's
`sorted(..., key=itemgetter(1), reverse=True)` keeps equal elements in their original order) -/
def insDesc (x : Nat × Nat) : List (Nat × Nat) → List (Nat × Nat)
  | [] => [x]
  | y :: ys => if y.2 ≥ x.2 then y :: insDesc x ys else x :: y :: ys

def sortDesc (l : List (Nat × Nat)) : List (Nat × Nat) :=
  l.foldl (fun acc x => insDesc x acc) []

def multistageSeg (N S : Nat) (alloc : Nat → Storage) (traj : Traj) : Option (List Ev) :=
  (segWith N (fun m k => nAdvance m k traj) S alloc false N false true 0 N 0).map
    (· ++ [⟨.endReverse, 1, N⟩])

/-- `allocate_snapshots(max_n, ram, disk, trajectory=…)` with the default weights:
returns (weights, allocation). -/
def allocate (N ram disk : Nat) (traj : Traj) : Option (List Nat × List Storage) :=
  let ram := min ram (N - 1)
  let disk := min disk (N - 1)
  let S := min (ram + disk) (N - 1)
  match multistageSeg N S (fun _ => .ram) traj with
  | none => none
  | some evs =>
    match dryRun S evs 0 (List.replicate S 0) with
    | none => none
    | some (top, w) =>
      if top ≠ 0 then none else
      let order : List Nat := ((sortDesc (w.zipIdx.map (fun p => (p.2, p.1)))).take ram).map (·.1)
      some (w, (List.range S).map (fun i => if order.contains i then Storage.ram else Storage.disk))

/-- the `storage` tuple computed by `MultistageCheckpointSchedule.__init__` -/
def multistageStorage (N ram disk : Nat) (traj : Traj) : Option (List Storage) :=
  let ram := min ram (N - 1)
  let disk := min disk (N - 1)
  if ram = 0 then some (List.replicate disk .disk)
  else if disk = 0 then some (List.replicate ram .ram)
  else (allocate N ram disk traj).map (·.2)

def multistageEvs (N ram disk : Nat) (traj : Traj) : Except Err (List Ev) :=
  if N < 1 then .error (.construct "max_n must be positive") else
  match multistageStorage N ram disk traj with
  | none => .error (.construct "allocate_snapshots")
  | some storage =>
    let S := storage.length
    if N > 1 ∧ S = 0 then .error (.firstNext "Require at least one snapshot") else
    match multistageSeg N S (fun d => storage.getD d .none) traj with
    | none => .error (.later "Invalid checkpointing state")
    | some evs => .ok evs

def offlineSched (N : Nat) (evs : Except Err (List Ev)) (uses : Storage → Option Bool) : Sched :=
  { maxN0 := some N, fwdEv := fun n => ⟨.endForward, n, 0⟩, first := fun _ => evs,
    again := fun _ => [], passes := some 1, uses := uses }

def multistageSched (N ram disk : Nat) (traj : Traj) : Except Err Sched :=
  if N < 1 then .error (.construct "max_n must be positive") else
  match multistageStorage N ram disk traj with
  | none => .error (.construct "allocate_snapshots")
  | some storage =>
    .ok (offlineSched N (multistageEvs N ram disk traj) (fun st =>
      match st with
      | .ram => some (storage.contains .ram)
      | .disk => some (storage.contains .disk)
      | _ => some false))

end Ckpt
