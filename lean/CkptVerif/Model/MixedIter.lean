import CkptVerif.Model.Mixed
/-!
# `MixedCheckpointSchedule._iterator` as a loop (mixed.py:65-189)

A faithful iterative twin of the Python generator: the mutable state (`self._n`, `self._r`,
`snapshot_n`, `snapshots`) is a record, the control flow is the Python control flow

```
while True:                                   # line 78
    step_type = NONE                          # line 79
    while self._n < self._max_n - self._r:    # lines 80-139   → `mixInner`
        …
    checks; EndForward; self._r += 1; Reverse # lines 140-147  → `mixTurn`
    if self._r == self._max_n: break          # line 149       → `mixReload`
    reload snapshots[-1]                      # lines 151-183  → `mixReload`
leftover check; EndReverse                    # lines 185-189  → `mixReload` (the `break` arm)
```

as three mutually recursive fuelled functions; every call consumes one unit of fuel.  One `yield`
is one emitted `Ev` carrying the values `self._n`, `self._r` have at that moment; every `raise` is
an `.error (.later msg)`; running out of fuel is `.error .fuel` (`Proofs/MixedIterRefine.lean`:
`6 * max_n + 4` suffices).  `Proofs/MixedIterRefine.lean` proves that the emitted stream is the
recursive model `mixedEvs`.
-/
namespace Ckpt

/-- the generator's mutable state -/
structure MixSt where
  /-- `self._n` -/
  n : Nat
  /-- `self._r` -/
  r : Nat
  /-- `snapshot_n` (a Python set; kept as a list without repetitions) -/
  snapshotN : List Nat
  /-- `snapshots`, most recent first: the head is `snapshots[-1]`; entries `(step_type, n0, n1)` -/
  snapshots : List (Nat × Nat × Nat)
deriving Repr, Inhabited

/-- one `yield`: the event is produced, then the generator continues -/
def yieldEv (e : Ev) (k : Except Err (List Ev)) : Except Err (List Ev) :=
  match k with
  | .ok es => .ok (e :: es)
  | .error x => .error x

/-- `StepType.FORWARD` (schedule.py) -/
def stForward : Nat := 1

def mixErr : Except Err (List Ev) := .error (.later "Invalid checkpointing state")

mutual
/-- the inner loop `while self._n < self._max_n - self._r` (lines 80-139); `stepType` is the local
variable `step_type` -/
def mixInner (plan : Planner) (N S : Nat) (st : Storage) :
    (fuel : Nat) → MixSt → (stepType : Nat) → Except Err (List Ev)
  | 0, _, _ => .error .fuel
  | fuel+1, σ, stepType =>
    if σ.n < N - σ.r then                                                      -- line 80
      let n0 := σ.n                                                            -- line 81
      let reuseSnapshot : Bool := σ.snapshotN.contains n0                      -- line 82
      -- lines 84-91: `step_type, n1, _ = planner(max_n - r - n0, snapshots - len(snapshots) + int(reuse))`
      match plan (N - σ.r - n0) (S - σ.snapshots.length + (if reuseSnapshot then 1 else 0)) with
      | none => .error (.later "ValueError")      -- `cache_step` rejects the key
      | some cell =>
        let stepType := cell.kind
        let n1 := cell.len + n0                                                -- line 92
        -- lines 93-96
        let bad : Bool := reuseSnapshot &&
          (match σ.snapshots with
           | [] => true                           -- `snapshots[-1]`: IndexError
           | (ty, m0, m1) :: _ => !(ty = stepType ∧ m0 = n0) || decide (m1 < n1))
        if bad then mixErr
        else if stepType = stForwardReverse then                               -- line 98
          if n1 > n0 + 1 then                                                  -- line 99
            -- lines 100-101, then 104-105
            yieldEv ⟨.forward n0 (n1 - 1) false false .work, n1 - 1, σ.r⟩
              (yieldEv ⟨.forward (n1 - 1) n1 false true .work, n1, σ.r⟩
                (mixInner plan N S st fuel { σ with n := n1 } stepType))
          else if n1 ≤ n0 then .error (.later "InvalidForwardStep")             -- lines 102-103
          else
            -- lines 104-105: `self._n += 1`
            yieldEv ⟨.forward (n1 - 1) n1 false true .work, n0 + 1, σ.r⟩
              (mixInner plan N S st fuel { σ with n := n0 + 1 } stepType)
        else if stepType = stForward then                                     -- line 106: FORWARD
          if n1 ≤ n0 then .error (.later "InvalidForwardStep")                  -- lines 107-108
          else
            yieldEv ⟨.forward n0 n1 false false .work, n1, σ.r⟩                -- lines 109-110
              (mixInner plan N S st fuel { σ with n := n1 } stepType)
        else if stepType = stWriteAdjDeps then                                 -- line 111
          if n1 ≠ n0 + 1 then .error (.later "InvalidForwardStep")              -- lines 112-113
          else if reuseSnapshot then mixErr                                     -- lines 114-115
          else if σ.snapshots.length > S - 1 then mixErr                        -- lines 116-117
          else
            -- lines 118-121
            yieldEv ⟨.forward n0 n1 false true st, n1, σ.r⟩
              (mixInner plan N S st fuel
                { σ with n := n1, snapshotN := n0 :: σ.snapshotN,
                         snapshots := (stWriteAdjDeps, n0, n1) :: σ.snapshots } stepType)
        else if stepType = stWriteIcs then                                     -- line 122
          if n1 ≤ n0 + 1 then .error (.later "InvalidActionIndex")              -- lines 123-124
          else if reuseSnapshot then
            -- lines 125-127
            yieldEv ⟨.forward n0 n1 false false .work, n1, σ.r⟩
              (mixInner plan N S st fuel { σ with n := n1 } stepType)
          else
            -- lines 128-133 (the check of line 130 happens after the `yield`)
            yieldEv ⟨.forward n0 n1 true false st, n1, σ.r⟩
              (if σ.snapshots.length > S - 1 then mixErr
               else mixInner plan N S st fuel
                { σ with n := n1, snapshotN := n0 :: σ.snapshotN,
                         snapshots := (stWriteIcs, n0, n1) :: σ.snapshots } stepType)
        else .error (.later "Unexpected step type")                             -- lines 134-135
    else mixTurn plan N S st fuel σ stepType
/-- after the inner loop (lines 136-147): the two checks, `EndForward`, `self._r += 1`, `Reverse` -/
def mixTurn (plan : Planner) (N S : Nat) (st : Storage) :
    (fuel : Nat) → MixSt → (stepType : Nat) → Except Err (List Ev)
  | 0, _, _ => .error .fuel
  | fuel+1, σ, stepType =>
    if σ.n ≠ N - σ.r then mixErr                                               -- lines 136-137
    else if stepType ≠ stNone ∧ stepType ≠ stForwardReverse then mixErr        -- lines 138-139
    else
      let r' := σ.r + 1                                                        -- line 144
      let rev : Ev := ⟨.reverse (N - r' + 1) (N - r') true, σ.n, r'⟩           -- line 145
      let k := yieldEv rev (mixReload plan N S st fuel { σ with r := r' })
      if σ.r = 0 then yieldEv ⟨.endForward, σ.n, σ.r⟩ k else k                 -- lines 141-142
/-- after the `Reverse` (lines 149-189): `break` and the final checks, or the reload of
`snapshots[-1]` and the next iteration of the outer loop -/
def mixReload (plan : Planner) (N S : Nat) (st : Storage) :
    (fuel : Nat) → MixSt → Except Err (List Ev)
  | 0, _ => .error .fuel
  | fuel+1, σ =>
    if σ.r = N then                                                            -- lines 149-150: break
      if σ.snapshotN ≠ [] ∨ σ.snapshots ≠ [] then mixErr                       -- lines 185-186
      else .ok [⟨.endReverse, σ.n, σ.r⟩]                                       -- lines 188-189
    else
      match σ.snapshots with                                                   -- line 152
      | [] => .error (.later "IndexError")
      | (cpStepType, cpN, _) :: rest =>
        if cpStepType ≠ stWriteIcs ∧ cpStepType ≠ stWriteAdjDeps then mixErr   -- lines 153-154
        else
          -- lines 156-163
          match plan (N - σ.r - cpN) (S - σ.snapshots.length + 1) with
          | none => .error (.later "ValueError")
          | some cell =>
            let nextStepType := cell.kind
            let cpDelete : Bool := decide (cpStepType ≠ nextStepType)           -- line 164
            if cpDelete && !σ.snapshotN.contains cpN then .error (.later "KeyError")  -- line 166
            else
              let snapshotN' := if cpDelete then σ.snapshotN.erase cpN else σ.snapshotN  -- line 166
              let snapshots' := if cpDelete then rest else σ.snapshots                   -- line 167
              if cpStepType = stWriteIcs then                                   -- line 169
                if cpN + 1 ≥ N - σ.r then mixErr                                -- lines 170-171
                else
                  let σ' : MixSt := { n := cpN, r := σ.r, snapshotN := snapshotN',      -- line 172
                                      snapshots := snapshots' }
                  -- lines 180-183
                  yieldEv (if cpDelete then ⟨.move cpN st .work, σ'.n, σ'.r⟩
                           else ⟨.copy cpN st .work, σ'.n, σ'.r⟩)
                    (mixInner plan N S st fuel σ' stNone)                       -- lines 78-79
              else
                -- line 173: WRITE_ADJ_DEPS
                if !cpDelete ∨ cpN + 1 ≠ N - σ.r then mixErr                    -- lines 175-178
                else
                  let σ' : MixSt := { n := cpN + 1, r := σ.r, snapshotN := snapshotN',  -- line 180
                                      snapshots := snapshots' }
                  yieldEv (if cpDelete then ⟨.move cpN st .work, σ'.n, σ'.r⟩
                           else ⟨.copy cpN st .work, σ'.n, σ'.r⟩)
                    (mixInner plan N S st fuel σ' stNone)
end

/-- the initial state of the generator -/
def MixSt.init : MixSt := { n := 0, r := 0, snapshotN := [], snapshots := [] }

/-- `MixedCheckpointSchedule(max_n, snapshots, storage=st)._iterator()` with
`self._snapshots = S = min(snapshots, max_n - 1)`: the whole stream. -/
def mixedIter (plan : Planner) (N S : Nat) (st : Storage) (fuel : Nat) : Except Err (List Ev) :=
  mixInner plan N S st fuel MixSt.init stNone

/-- fuel that always suffices -/
def mixedIterFuel (N : Nat) : Nat := 6 * N + 4

/-- the twin of `mixedEvs` -/
def mixedIterEvs (plan : Planner) (N s : Nat) (st : Storage) : Except Err (List Ev) :=
  mixedIter plan N (min s (N - 1)) st (mixedIterFuel N)

end Ckpt
