import CkptVerif.Model.Online
/-!
# A literal, iterative twin of `TwoLevelCheckpointSchedule._iterator` (reverse phase)

`twolevel_binomial.py:79-153`, one adjoint calculation for `max_n = N`, transcribed loop by loop:
the mutable state of the generator is a record (`self._n`, `self._r`, the local list `snapshots`,
and the actions yielded so far); every `while` is a fuelled function whose body follows the Python
statements in order (line numbers of twolevel_binomial.py in the comments); one `yield` appends one
`Ev` carrying the current `_n`, `_r`; every `raise` is an `.error`.

Python integers versus `Nat`.  `snapshots` is a Python list whose top is its LAST element
(`snapshots[-1]`, `append`, `pop`); it is modelled by a `List Nat` in the same order.  The
differences `max_n - r - 1`, `max_n - n0s`, `max_n - n1s` are never negative where they are
evaluated (`r < max_n`, `n0s ≤ n1s ≤ max_n`), so truncated subtraction is exact.  The two arguments
of `n_advance` can in principle be non-positive; `n_advance` then raises `ValueError`, and so does
the model (`nAdvance 0 _ = none`, `nAdvance _ 0 = none`): the first argument is truncated at 0,
the second is computed in `Int` exactly as written and converted by `Int.toNat`.

`Proofs/TwoLevelIterRefine.lean` proves that this twin produces exactly the recursive stream
`twoLevelPass` of `Model/Online.lean` (and never raises), for every `p ≥ 1`, `N ≥ 1`.
-/
namespace Ckpt

/-- the mutable state of the generator during the reverse phase -/
structure TLIter where
  /-- `self._n` -/
  n : Nat
  /-- `self._r` -/
  r : Nat
  /-- the local `snapshots` (top = last element) -/
  snapshots : List Nat
  /-- the actions yielded so far, each with the values of `_n`, `_r` at its `yield` -/
  out : List Ev
deriving Repr, DecidableEq, Inhabited

/-- `yield act` -/
def TLIter.yield (s : TLIter) (act : Action) : TLIter :=
  { s with out := s.out ++ [⟨act, s.n, s.r⟩] }

/-- `raise RuntimeError("Invalid checkpointing state")` -/
def tlInvalid : Err := .later "Invalid checkpointing state"
/-- `n_advance` raised `ValueError` -/
def tlValueError : Err := .later "n_advance: ValueError"
/-- `assert n1 > n0` failed -/
def tlAssert : Err := .later "AssertionError"

section
variable (N p b : Nat) (st : Storage) (traj : Traj)
-- N = self._max_n, p = self._period, b = self._binomial_snapshots,
-- st = self._binomial_storage, traj = self._trajectory

/-- lines 118-132: `while self._n < self._max_n - self._r - 1:` -/
def tlWriteLoop : (fuel : Nat) → TLIter → Except Err TLIter
  | 0, _ => .error .fuel
  | fuel+1, s =>
    if s.n < N - s.r - 1 then                                           -- 118
      let n_snapshots : Int := (b : Int) + 1 - (s.snapshots.length : Int) -- 119-120
      let n0 := s.n                                                      -- 121
      match nAdvance (N - s.r - n0) n_snapshots.toNat traj with          -- 122-124 (n_advance may raise)
      | none => .error tlValueError
      | some adv =>
        let n1 := n0 + adv                                               -- 122
        if ¬ (n1 > n0) then .error tlAssert else                         -- 125
        let s := { s with n := n1 }                                      -- 126
        let s := s.yield (.forward n0 n1 true false st)                  -- 127
        if s.snapshots.length ≥ b + 1 then .error tlInvalid else         -- 129-131
        let s := { s with snapshots := s.snapshots ++ [n0] }             -- 132
        tlWriteLoop fuel s
    else .ok s

/-- lines 94-135: the `if cp_n == self._max_n - self._r - 1: … else: …` statement of the inner loop
(`fuel` is for the `while` of lines 118-132) -/
def tlBody (n0s : Nat) (fuel : Nat) (s : TLIter) : Except Err TLIter :=
  let cp_n := s.snapshots.getLastD 0                                     -- 93
  if cp_n = N - s.r - 1 then                                             -- 94
    let s := { s with snapshots := s.snapshots.dropLast }                -- 95
    let s := { s with n := cp_n }                                        -- 96
    if cp_n = n0s then                                                   -- 97
      .ok (s.yield (.copy cp_n .disk .work))                             -- 98
    else
      .ok (s.yield (.move cp_n st .work))                                -- 100
  else                                                                   -- 101
    let s := { s with n := cp_n }                                        -- 102
    let s := if cp_n = n0s then                                          -- 103
        s.yield (.copy cp_n .disk .work)                                 -- 104
      else
        s.yield (.copy cp_n st .work)                                    -- 106
    let n_snapshots : Int := (b : Int) + 1 - (s.snapshots.length : Int) + 1 -- 108-109
    let n0 := s.n                                                        -- 110
    match nAdvance (N - s.r - n0) n_snapshots.toNat traj with            -- 111-113 (n_advance may raise)
    | none => .error tlValueError
    | some adv =>
      let n1 := n0 + adv                                                 -- 111
      if ¬ (n1 > n0) then .error tlAssert else                           -- 114
      let s := { s with n := n1 }                                        -- 115
      let s := s.yield (.forward n0 n1 false false .work)                -- 116
      match tlWriteLoop N b st traj fuel s with                          -- 118-132
      | .error e => .error e
      | .ok s =>
        if s.n ≠ N - s.r - 1 then .error tlInvalid else                  -- 134-135
        .ok s

/-- lines 137-141: the turn-around `Forward` and the `Reverse` -/
def tlTail (s : TLIter) : TLIter :=
  let s := { s with n := s.n + 1 }                                       -- 137
  let s := s.yield (.forward (s.n - 1) s.n false true .work)             -- 138
  let s := { s with r := s.r + 1 }                                       -- 140
  s.yield (.reverse s.n (s.n - 1) true)                                  -- 141

/-- lines 90-141: `while self._r < self._max_n - n0s:` -/
def tlInnerLoop (n0s : Nat) : (fuel : Nat) → TLIter → Except Err TLIter
  | 0, _ => .error .fuel
  | fuel+1, s =>
    if s.r < N - n0s then                                                -- 90
      if s.snapshots.length = 0 then .error tlInvalid else               -- 91-92
      match tlBody N b st traj n0s fuel s with                           -- 93-135
      | .error e => .error e
      | .ok s => tlInnerLoop n0s fuel (tlTail s)                         -- 137-141
    else .ok s

/-- lines 81-146: `while self._r < self._max_n:` -/
def tlOuterLoop : (fuel : Nat) → TLIter → Except Err TLIter
  | 0, _ => .error .fuel
  | fuel+1, s =>
    if s.r < N then                                                      -- 81
      let n := N - s.r - 1                                               -- 82
      let n0s := (n / p) * p                                             -- 83
      let n1s := min (n0s + p) N                                         -- 84
      if s.r ≠ N - n1s then .error tlInvalid else                        -- 85-86
      let s := { s with snapshots := [n0s] }                             -- 89
      match tlInnerLoop N b st traj n0s fuel s with                      -- 90-141
      | .error e => .error e
      | .ok s =>
        if s.r ≠ N - n0s then .error tlInvalid else                      -- 143-144
        if s.snapshots.length ≠ 0 then .error tlInvalid else             -- 145-146
        tlOuterLoop fuel s
    else .ok s

/-- lines 81-153: one pass through the body of `while True:`, from the state in which the
generator is resumed (`_n = n`, `_r = 0`; `snapshots` not yet bound) up to and including the
`yield EndReverse()`; returns the final state -/
def twoLevelIterFrom (n : Nat) (fuel : Nat) : Except Err TLIter :=
  match tlOuterLoop N p b st traj fuel { n := n, r := 0, snapshots := [], out := [] } with -- 81-146
  | .error e => .error e
  | .ok s =>
    if s.r ≠ N then .error tlInvalid else                                -- 147-148
    let s := { s with r := 0 }                                           -- 152
    .ok (s.yield .endReverse)                                            -- 153

/-- the actions of one adjoint calculation (`_n = N` when the first one starts; the value is
overwritten before it is used) -/
def twoLevelIterPass (fuel : Nat) : Except Err (List Ev) :=
  match twoLevelIterFrom N p b st traj N fuel with
  | .error e => .error e
  | .ok s => .ok s.out

end

/-- fuel that always suffices (`Proofs/TwoLevelIterRefine.lean`) -/
def twoLevelIterFuel (N : Nat) : Nat := 2 * N + 2

/-! ## validation against the recursive stream model -/

/-- the twin and `twoLevelPass` agree for all `N ≤ 3p+2` -/
def twoLevelIterAgrees (p b : Nat) (st : Storage) (traj : Traj) : Bool :=
  (List.range (3 * p + 3)).all fun N =>
    N = 0 ||
      match twoLevelIterPass N p b st traj (twoLevelIterFuel N) with
      | .ok evs => decide (evs = twoLevelPass N p b st traj)
      | .error _ => false

#guard (List.range 8).all fun p' => (List.range 5).all fun b =>
  [Storage.ram, Storage.disk].all fun st => [Traj.maximum, Traj.revolve].all fun traj =>
    twoLevelIterAgrees (p' + 1) b st traj

end Ckpt
