import CkptVerif.Model.Online
import CkptVerif.Model.Revolve
import CkptVerif.Model.Cache
import CkptVerif.Model.MixedIter
import CkptVerif.Model.Planners
/-!
# A process: the module-level memo tables and all live schedule objects (C15)

One Python process holds

* the three dictionaries created by `cache_step` (mixed.py:212-223) when `mixed.py` and
  `multistage.py` are imported: the `_cache` of `mixed_step_memoization` (mixed.py:248), of
  `optimal_extra_steps` (multistage.py:312) and of `optimal_steps_mixed` (mixed.py:226).  They are
  process-global and only ever grow;
* any number of live schedule objects, each with its own generator (`self.iter`, created by the
  first `next()`: schedule.py:409-426) and its own `_n, _r, _max_n`.

`Proc` is that state; `POp` is what a client can do to it; `Proc.step` / `Proc.run` execute a
history.  A history may interleave constructions, `next()` / `finalize(n)` calls on any object,
observer reads (`n, r, max_n, is_exhausted, is_running`, `uses_storage_type`) and direct calls of
the three cached helper functions, in any order.

## How the objects are modelled

* Every class except `MixedCheckpointSchedule` on the memoisation path touches no module-level
  state: its object is the pure machine `Sched` (`Model/Machine.lean`) with its `MSt`, stepped by
  `Sched.next` / `finalize`.
* `MixedCheckpointSchedule` *without numba* calls the cached `mixed_step_memoization` lazily, while
  its generator runs (mixed.py:86 and mixed.py:156), i.e. inside `next()`, not at construction.
  Its object is the *resumable* form of the iterator twin of `Model/MixedIter.lean`: `MixPC` is the
  point at which the generator is suspended, `mixResume` runs it to the next `yield`, and the (at
  most one) planner query made on the way goes through `cachedCall memoFM`, threading the
  process-global memo table (`Proc.memo`), exactly where Python makes the call.
  `Proofs/ProcessRefine.lean` proves that this lazy object emits the same actions and flags as the
  pure `Sched` built by `mixedSched` from the recursive specification.
* `MixedCheckpointSchedule` *with numba* builds a private table (`mixed_steps_tabulation`) when the
  generator starts; no shared state: a pure `Sched` again.
* A constructor that raises leaves an entry `failed` in the object list (so that the `i`-th
  `construct` of a history always has index `i`); every operation on it answers `noObject`.

## What is NOT in this model

* The in-place `Operation.shift` aliasing inside `hrevolve_sequences/basic_functions.py`: the
  `Operation` / `Sequence` objects are created afresh by every `get_hopt_table` / `hrevolve`
  call made from one schedule's `_iterator`, and are never shared between schedule objects, so
  they are not process state.  (Aliasing *within* one sequence construction is the subject of
  `Model/Ops.lean` and `Proofs/Ops*.lean`.)
* Threads (two threads inside the same generator or the same `cache_step` wrapper), `warnings`
  filters (the "Numba not available" warning), garbage collection, and re-import of the modules.
* `ValueError` raised by a cached function on an invalid key: the wrapper raises before anything
  is stored, so the tables are unchanged; the model answers `none` and leaves the table alone.
  Arguments are naturals (`n ≤ 0` is `n = 0`).
-/
namespace Ckpt.Proc
open Ckpt

deriving instance DecidableEq for NextOut
deriving instance DecidableEq for MixSt

/-! ## class specifications (constructor arguments) -/

/-- the constructor call: class and parameters (the words of the driver's class descriptions) -/
inductive Spec
  | SM
  | SD (move : Bool)
  | NO
  | TL (period binomial : Nat) (st : Storage) (traj : Traj)
  | MS (n ram disk : Nat) (traj : Traj)
  /-- `numba = true`: the tabulated planner; `false`: `mixed_step_memoization` through the cache -/
  | MX (n s : Nat) (st : Storage) (numba : Bool)
  | RV (n cm uf ub wd rd : Nat)
  | DR (n cm uf ub wd rd : Nat)
  | PD (n cm uf ub wd rd : Nat)
  | HR (n c0 c1 uf ub wd rd : Nat)
deriving DecidableEq, Repr, Inhabited

/-- the planner a numba `MixedCheckpointSchedule(n, s)` object tabulates for itself -/
def ownTabPlanner (n s : Nat) : Planner :=
  tabPlanner { size := n, memo := #[], tab := mixedTab n (min s (n - 1)) }

/-- `mixed_step_memoization` as a mathematical function (`none` = ValueError) -/
def specPlanner : Planner := fun m k => memoSpec m k

/-- the pure machine of a class (for Mixed on the memoisation path: the reference object the lazy
one is compared with; the process does not use it) -/
def Spec.sched : Spec → Except Err Sched
  | .SM => .ok singleMemorySched
  | .SD mv => .ok (singleDiskSched mv)
  | .NO => .ok noneSched
  | .TL p b st traj => twoLevelSched p b st traj
  | .MS n ram disk traj => multistageSched n ram disk traj
  | .MX n s st numba => mixedSched (if numba then ownTabPlanner n s else specPlanner) n s st
  | .RV n cm uf ub wd rd => revolveSched n cm ⟨uf, ub, wd, rd⟩
  | .DR n cm uf ub wd rd => diskRevolveSched n cm ⟨uf, ub, wd, rd⟩
  | .PD n cm uf ub wd rd => periodicSched n cm ⟨uf, ub, wd, rd⟩
  | .HR n c0 c1 uf ub wd rd => hrevolveSched n c0 c1 ⟨uf, ub, wd, rd⟩

/-! ## the resumable Mixed generator -/

/-- where `MixedCheckpointSchedule._iterator` is suspended (or about to start) -/
inductive MixPC
  /-- not started (then `σ = MixSt.init`, `stepType = NONE`), or suspended at a `yield` after which
  control reaches the loop test of line 80 with these locals -/
  | inner (σ : MixSt) (stepType : Nat)
  /-- suspended at line 101 (the first `yield Forward` of a FORWARD_REVERSE step with `n1 > n0 + 1`;
  `σ.n = n1 - 1`); lines 104-105 follow -/
  | fr2 (σ : MixSt) (n1 : Nat) (stepType : Nat)
  /-- suspended at line 142 (`yield EndForward()`); lines 144-145 follow -/
  | rev (σ : MixSt)
  /-- suspended at line 129 (`yield Forward(n0, n1, True, False, storage)`); lines 130-133 follow.
  `σ.n` is already `n1` -/
  | icsPost (σ : MixSt) (n0 : Nat) (stepType : Nat)
  /-- suspended at line 145 (`yield Reverse`); lines 149-183 follow -/
  | reload (σ : MixSt)
  /-- suspended at line 189 (`yield EndReverse()`) -/
  | final
  /-- the generator has returned or raised -/
  | dead
deriving DecidableEq, Repr, Inhabited

/-- what one resumption of a generator produces -/
inductive GenOut
  | yield (e : Ev)
  | ret
  | raise (e : Err)
deriving DecidableEq, Repr, Inhabited

/-- a planner call that may read and extend the memo table -/
abbrev PlanM := Nat → Nat → CM Cell (Option Cell)

def mixErrE : Err := .later "Invalid checkpointing state"

/-- lines 92-135 once the planner has answered `ans` (`none` = it raised) -/
def innerAfter (S : Nat) (st : Storage) (σ : MixSt) (ans : Option Cell) : MixPC × GenOut :=
  let n0 := σ.n
  let reuseSnapshot : Bool := σ.snapshotN.contains n0
  match ans with
  | none => (.dead, .raise (.later "ValueError"))
  | some cell =>
    let stepType := cell.kind
    let n1 := cell.len + n0
    let bad : Bool := reuseSnapshot &&
      (match σ.snapshots with
       | [] => true
       | (ty, m0, m1) :: _ => !(ty = stepType ∧ m0 = n0) || decide (m1 < n1))
    if bad then (.dead, .raise mixErrE)
    else if stepType = stForwardReverse then
      if n1 > n0 + 1 then
        (.fr2 { σ with n := n1 - 1 } n1 stepType,
         .yield ⟨.forward n0 (n1 - 1) false false .work, n1 - 1, σ.r⟩)
      else if n1 ≤ n0 then (.dead, .raise (.later "InvalidForwardStep"))
      else
        (.inner { σ with n := n0 + 1 } stepType,
         .yield ⟨.forward (n1 - 1) n1 false true .work, n0 + 1, σ.r⟩)
    else if stepType = stForward then
      if n1 ≤ n0 then (.dead, .raise (.later "InvalidForwardStep"))
      else (.inner { σ with n := n1 } stepType, .yield ⟨.forward n0 n1 false false .work, n1, σ.r⟩)
    else if stepType = stWriteAdjDeps then
      if n1 ≠ n0 + 1 then (.dead, .raise (.later "InvalidForwardStep"))
      else if reuseSnapshot then (.dead, .raise mixErrE)
      else if σ.snapshots.length > S - 1 then (.dead, .raise mixErrE)
      else
        (.inner { σ with n := n1, snapshotN := n0 :: σ.snapshotN,
                         snapshots := (stWriteAdjDeps, n0, n1) :: σ.snapshots } stepType,
         .yield ⟨.forward n0 n1 false true st, n1, σ.r⟩)
    else if stepType = stWriteIcs then
      if n1 ≤ n0 + 1 then (.dead, .raise (.later "InvalidActionIndex"))
      else if reuseSnapshot then
        (.inner { σ with n := n1 } stepType, .yield ⟨.forward n0 n1 false false .work, n1, σ.r⟩)
      else
        (.icsPost { σ with n := n1 } n0 stepType, .yield ⟨.forward n0 n1 true false st, n1, σ.r⟩)
    else (.dead, .raise (.later "Unexpected step type"))

/-- lines 144-145: `self._r += 1; yield Reverse(…)` -/
def revStep (N : Nat) (σ : MixSt) : MixPC × GenOut :=
  let r' := σ.r + 1
  (.reload { σ with r := r' }, .yield ⟨.reverse (N - r' + 1) (N - r') true, σ.n, r'⟩)

/-- lines 136-147: the inner loop has ended -/
def turnStep (N : Nat) (σ : MixSt) (stepType : Nat) : MixPC × GenOut :=
  if σ.n ≠ N - σ.r then (.dead, .raise mixErrE)
  else if stepType ≠ stNone ∧ stepType ≠ stForwardReverse then (.dead, .raise mixErrE)
  else
    if σ.r = 0 then (.rev σ, .yield ⟨.endForward, σ.n, σ.r⟩)
    else revStep N σ

/-- the loop test of line 80, then either one planner call and lines 92-135, or lines 136-147 -/
def innerStep (planM : PlanM) (N S : Nat) (st : Storage) (σ : MixSt) (stepType : Nat) :
    CM Cell (MixPC × GenOut) := fun c =>
  if σ.n < N - σ.r then
    let a := planM (N - σ.r - σ.n)
      (S - σ.snapshots.length + (if σ.snapshotN.contains σ.n then 1 else 0)) c
    (a.1, innerAfter S st σ a.2)
  else (c, turnStep N σ stepType)

/-- lines 164-183 once the planner has answered -/
def reloadAfter (N : Nat) (st : Storage) (σ : MixSt) (cpStepType cpN : Nat)
    (rest : List (Nat × Nat × Nat)) (ans : Option Cell) : MixPC × GenOut :=
  match ans with
  | none => (.dead, .raise (.later "ValueError"))
  | some cell =>
    let nextStepType := cell.kind
    let cpDelete : Bool := decide (cpStepType ≠ nextStepType)
    if cpDelete && !σ.snapshotN.contains cpN then (.dead, .raise (.later "KeyError"))
    else
      let snapshotN' := if cpDelete then σ.snapshotN.erase cpN else σ.snapshotN
      let snapshots' := if cpDelete then rest else σ.snapshots
      if cpStepType = stWriteIcs then
        if cpN + 1 ≥ N - σ.r then (.dead, .raise mixErrE)
        else
          let σ' : MixSt := { n := cpN, r := σ.r, snapshotN := snapshotN', snapshots := snapshots' }
          (.inner σ' stNone,
           .yield (if cpDelete then ⟨.move cpN st .work, σ'.n, σ'.r⟩
                   else ⟨.copy cpN st .work, σ'.n, σ'.r⟩))
      else
        if !cpDelete ∨ cpN + 1 ≠ N - σ.r then (.dead, .raise mixErrE)
        else
          let σ' : MixSt := { n := cpN + 1, r := σ.r, snapshotN := snapshotN',
                              snapshots := snapshots' }
          (.inner σ' stNone,
           .yield (if cpDelete then ⟨.move cpN st .work, σ'.n, σ'.r⟩
                   else ⟨.copy cpN st .work, σ'.n, σ'.r⟩))

/-- lines 149-183 (and 185-189 on `break`) -/
def reloadStep (planM : PlanM) (N S : Nat) (st : Storage) (σ : MixSt) :
    CM Cell (MixPC × GenOut) := fun c =>
  if σ.r = N then
    if σ.snapshotN ≠ [] ∨ σ.snapshots ≠ [] then (c, (.dead, .raise mixErrE))
    else (c, (.final, .yield ⟨.endReverse, σ.n, σ.r⟩))
  else
    match σ.snapshots with
    | [] => (c, (.dead, .raise (.later "IndexError")))
    | (cpStepType, cpN, _) :: rest =>
      if cpStepType ≠ stWriteIcs ∧ cpStepType ≠ stWriteAdjDeps then (c, (.dead, .raise mixErrE))
      else
        let a := planM (N - σ.r - cpN) (S - σ.snapshots.length + 1) c
        (a.1, reloadAfter N st σ cpStepType cpN rest a.2)

/-- `next(generator)`: run from the suspension point to the next `yield`, `return` or `raise` -/
def mixResume (planM : PlanM) (N S : Nat) (st : Storage) : MixPC → CM Cell (MixPC × GenOut)
  | .inner σ stepType, c => innerStep planM N S st σ stepType c
  | .fr2 σ n1 stepType, c =>
    (c, (.inner { σ with n := n1 } stepType, .yield ⟨.forward (n1 - 1) n1 false true .work, n1, σ.r⟩))
  | .rev σ, c => (c, revStep N σ)
  | .icsPost σ n0 stepType, c =>
    if σ.snapshots.length > S - 1 then (c, (.dead, .raise mixErrE))
    else innerStep planM N S st
      { σ with snapshotN := n0 :: σ.snapshotN, snapshots := (stWriteIcs, n0, σ.n) :: σ.snapshots }
      stepType c
  | .reload σ, c => reloadStep planM N S st σ c
  | .final, c => (c, (.dead, .ret))
  | .dead, c => (c, (.dead, .ret))

/-- the wrapped function called from outside: ValueError on an invalid key (nothing stored),
otherwise `wrapped_fn(n, s)` -/
def cachedOpt {α : Type} [Inhabited α] (FM : Nat → Nat → Getter α → CM α α) (n s : Nat) :
    CM α (Option α) := fun c =>
  if validKey n (clampS n s) then
    let r := cachedCall FM (n + 1) n s c
    (r.1, some r.2)
  else (c, none)

/-- `mixed_step_memoization(n, s)` as called by the iterator -/
def memoQuery : PlanM := cachedOpt memoFM

/-- a planner that is a function (no table) -/
def purePlanM (plan : Planner) : PlanM := fun m k c => (c, plan m k)

/-! ## objects -/

/-- operations on one schedule object -/
inductive OOp
  | next
  | finalize (n : Int)
  /-- read `n, r, max_n, is_exhausted, is_running` -/
  | observe
  | usesStorage (st : Storage)
deriving DecidableEq, Repr, Inhabited

inductive ObjSt
  /-- the constructor raised -/
  | failed (e : Err)
  /-- an object that touches no module-level state -/
  | plain (s : Sched) (m : MSt)
  /-- `MixedCheckpointSchedule` on the memoisation path: `S = self._snapshots`; `m.phase` is unused
  (the generator's position is `pc`) -/
  | mixed (N S : Nat) (st : Storage) (m : MSt) (pc : MixPC)

structure Obj where
  spec : Spec
  st : ObjSt

/-- what an operation answers -/
inductive POut
  /-- the constructor returned (`none`) or raised -/
  | constructed (err : Option Err)
  | next (o : NextOut)
  | fin (o : FinOut)
  | obs (n r : Nat) (maxN : Option Nat) (exhausted running : Bool)
  /-- `none`: `uses_storage_type` raised or returned `None` -/
  | uses (b : Option Bool)
  /-- `none`: ValueError -/
  | helperNat (v : Option Nat)
  | helperCell (v : Option Cell)
  /-- no such object (index out of range, or its constructor had raised) -/
  | noObject
deriving DecidableEq, Repr, Inhabited

/-- `MixedCheckpointSchedule.__init__` (mixed.py:54-63) -/
def mkMixed (N s : Nat) (st : Storage) : ObjSt :=
  if s < min 1 (N - 1) ∧ 1 ≤ N then .failed (.construct "Invalid number of snapshots") else
  if ¬ (st = .ram ∨ st = .disk) then .failed (.construct "Invalid storage") else
  if N < 1 then .failed (.construct "max_n must be positive") else
  .mixed N (min s (N - 1)) st
    { n := 0, r := 0, maxN := some N, started := false, exhausted := false, phase := .fwd }
    (.inner MixSt.init stNone)

def mkPlain (spec : Spec) : ObjSt :=
  match spec.sched with
  | .error e => .failed e
  | .ok s => .plain s s.init

/-- the constructor -/
def mkObj (spec : Spec) : Obj :=
  ⟨spec, match spec with
    | .MX n s st false => mkMixed n s st
    | _ => mkPlain spec⟩

def ObjSt.error? : ObjSt → Option Err
  | .failed e => some e
  | _ => none

/-- `__next__` once the generator has been resumed: the flags and the answer -/
def mixNextOf (m : MSt) (a : MixPC × GenOut) : MSt × MixPC × NextOut :=
  let m := { m with started := true }
  match a.2 with
  | .yield e =>
    -- `self._exhausted = True` precedes `yield EndReverse()`
    let exh : Bool := m.exhausted || decide (e.act = .endReverse)
    let m' := { m with n := e.n, r := e.r, exhausted := exh }
    (m', a.1, .act ⟨e.act, e.n, e.r, m'.maxN, exh, true⟩)
  | .ret => (m, a.1, .stop)
  | .raise err => (m, a.1, .raised err)

/-- `__next__` of a Mixed object on the memoisation path: `self.iter` is created if absent, the
generator runs to its next `yield`; the cache is the table of `mixed_step_memoization` -/
def mixNext (planM : PlanM) (N S : Nat) (st : Storage) (m : MSt) (pc : MixPC) :
    CM Cell (MSt × MixPC × NextOut) := fun c =>
  let a := mixResume planM N S st pc c
  (a.1, mixNextOf m a.2)

def obsOf (m : MSt) : POut := .obs m.n m.r m.maxN m.exhausted m.started

/-- one operation on one object; only `next` of a lazy Mixed object reads or extends `memo` -/
def ObjSt.step (planM : PlanM) : ObjSt → OOp → CM Cell (ObjSt × POut)
  | .failed e, _, c => (c, (.failed e, .noObject))
  | .plain s m, .next, c => let a := s.next m; (c, (.plain s a.1, .next a.2))
  | .plain s m, .finalize k, c => let a := finalize m k; (c, (.plain s a.1, .fin a.2))
  | .plain s m, .observe, c => (c, (.plain s m, obsOf m))
  | .plain s m, .usesStorage x, c => (c, (.plain s m, .uses (s.uses x)))
  | .mixed N S st m pc, .next, c =>
    let a := mixNext planM N S st m pc c
    (a.1, (.mixed N S st a.2.1 a.2.2.1, .next a.2.2.2))
  | .mixed N S st m pc, .finalize k, c =>
    let a := finalize m k; (c, (.mixed N S st a.1 pc, .fin a.2))
  | .mixed N S st m pc, .observe, c => (c, (.mixed N S st m pc, obsOf m))
  | .mixed N S st m pc, .usesStorage x, c => (c, (.mixed N S st m pc, .uses (some (x = st))))

/-! ## the process -/

structure Proc where
  /-- `_cache` of `mixed_step_memoization` -/
  memo : Cache Cell
  /-- `_cache` of `optimal_extra_steps` -/
  extra : Cache Nat
  /-- `_cache` of `optimal_steps_mixed` -/
  optMixed : Cache Nat
  /-- every object constructed so far, in order of construction -/
  objs : List Obj

/-- a freshly started interpreter with the package imported -/
def Proc.init : Proc := { memo := [], extra := [], optMixed := [], objs := [] }

inductive POp
  /-- call a constructor; the new object gets the next index -/
  | construct (spec : Spec)
  /-- an operation on object `i` -/
  | obj (i : Nat) (op : OOp)
  /-- `optimal_extra_steps(n, s)` -/
  | optimalExtraSteps (n s : Nat)
  /-- `optimal_steps_mixed(n, s)` -/
  | optimalStepsMixed (n s : Nat)
  /-- `mixed_step_memoization(n, s)` -/
  | mixedStepMemo (n s : Nat)
deriving DecidableEq, Repr, Inhabited

@[match_pattern] abbrev POp.next (i : Nat) : POp := .obj i .next
@[match_pattern] abbrev POp.finalize (i : Nat) (n : Int) : POp := .obj i (.finalize n)
@[match_pattern] abbrev POp.observe (i : Nat) : POp := .obj i .observe
@[match_pattern] abbrev POp.usesStorage (i : Nat) (st : Storage) : POp := .obj i (.usesStorage st)

def Proc.step (p : Proc) : POp → Proc × POut
  | .construct spec =>
    let o := mkObj spec
    ({ p with objs := p.objs ++ [o] }, .constructed o.st.error?)
  | .obj i op =>
    match p.objs[i]? with
    | none => (p, .noObject)
    | some o =>
      let a := o.st.step memoQuery op p.memo
      ({ p with memo := a.1, objs := p.objs.set i { o with st := a.2.1 } }, a.2.2)
  | .optimalExtraSteps n s =>
    let a := cachedOpt extraFM n s p.extra
    ({ p with extra := a.1 }, .helperNat a.2)
  | .optimalStepsMixed n s =>
    let a := cachedOpt optMixedFM n s p.optMixed
    ({ p with optMixed := a.1 }, .helperNat a.2)
  | .mixedStepMemo n s =>
    let a := cachedOpt memoFM n s p.memo
    ({ p with memo := a.1 }, .helperCell a.2)

def Proc.run (p : Proc) : List POp → Proc × List POut
  | [] => (p, [])
  | op :: rest =>
    let a := p.step op
    let b := Proc.run a.1 rest
    (b.1, a.2 :: b.2)

/-! ## projection of a history onto one object -/

/-- the operations of a history addressed to object `i`, in order -/
def ownOps (i : Nat) : List POp → List OOp
  | [] => []
  | .obj j op :: rest => if j = i then op :: ownOps i rest else ownOps i rest
  | _ :: rest => ownOps i rest

/-- the answers to the operations addressed to object `i` -/
def ownOuts (i : Nat) : List POp → List POut → List POut
  | .obj j _ :: rest, o :: outs => if j = i then o :: ownOuts i rest outs else ownOuts i rest outs
  | _ :: rest, _ :: outs => ownOuts i rest outs
  | _, _ => []

/-- the history in which only one object is ever built, and driven by `ops` -/
def soloHistory (spec : Spec) (ops : List OOp) : List POp :=
  .construct spec :: ops.map (POp.obj 0)

/-- observer reads -/
def OOp.isObserver : OOp → Bool
  | .observe => true
  | .usesStorage _ => true
  | _ => false

end Ckpt.Proc
