import CkptVerif.Model.Multistage
import CkptVerif.Model.MixedIter
/-!
# `MultistageCheckpointSchedule._iterator` as a loop (multistage.py:204-290)

A faithful iterative twin of the Python generator.  Mutable state: `self._n`, `self._r` and the
stack `snapshots` (of step indices).  Control flow:

```
while self._n < self._max_n - 1: write + Forward              # lines 218-228  → `msFwd`
check; turn-around Forward; EndForward; self._r += 1; Reverse # lines 230-241  → `msFwd` (exit arm)
while self._r < self._max_n:                                  # lines 243-283  → `msRev`
    Move  |  Copy; Forward; while …: write + Forward; check   # lines 265-278  → `msInner`
    turn-around Forward; self._r += 1; Reverse                # lines 280-283
final checks; EndReverse                                      # lines 284-290  → `msRev` (exit arm)
```

Three mutually recursive fuelled functions; every loop iteration or loop exit consumes one unit of
fuel (`2 * max_n + 2` suffices).  `S` is `snapshots_in_ram + snapshots_on_disk`, `alloc i` is
`self._storage[i]`.  `Proofs/MultistageIterRefine.lean` proves that the emitted stream is
`multistageSeg`.
-/
namespace Ckpt

/-- the generator's mutable state -/
structure MsSt where
  /-- `self._n` -/
  n : Nat
  /-- `self._r` -/
  r : Nat
  /-- `snapshots`, most recent first: the head is `snapshots[-1]` -/
  snapshots : List Nat
deriving Repr, Inhabited

def msErr : Except Err (List Ev) := .error (.later "Invalid checkpointing state")

mutual
/-- the forward loop (lines 218-228) and, on exit, lines 230-241 -/
def msFwd (N S : Nat) (alloc : Nat → Storage) (traj : Traj) :
    (fuel : Nat) → MsSt → Except Err (List Ev)
  | 0, _ => .error .fuel
  | fuel+1, σ =>
    if σ.n < N - 1 then                                                        -- line 218
      let nSnapshots := S - σ.snapshots.length                                 -- lines 219-221
      let n0 := σ.n                                                            -- line 222
      match nAdvance (N - n0) nSnapshots traj with                             -- lines 223-224
      | none => .error (.later "ValueError")
      | some a =>
        let n1 := n0 + a
        if ¬ n1 > n0 then .error (.later "AssertionError")                      -- line 225
        else if σ.snapshots.length ≥ S then                                     -- `write`, lines 208-209
          .error (.later "Unexpected snapshot number.")
        else
          let snapshots' := n0 :: σ.snapshots                                  -- line 210
          let cpStorage := alloc (snapshots'.length - 1)                       -- line 211
          yieldEv ⟨.forward n0 n1 true false cpStorage, n1, σ.r⟩               -- lines 226-228
            (msFwd N S alloc traj fuel { σ with n := n1, snapshots := snapshots' })
    else if σ.n ≠ N - 1 then msErr                                             -- lines 230-231
    else
      let n := σ.n + 1                                                         -- line 234
      yieldEv ⟨.forward (n - 1) n false true .work, n, σ.r⟩                    -- line 235
        (yieldEv ⟨.endForward, n, σ.r⟩                                         -- line 237
          (yieldEv ⟨.reverse n (n - 1) true, n, σ.r + 1⟩                       -- lines 239-240
            (msRev N S alloc traj fuel { σ with n := n, r := σ.r + 1 })))
/-- the reverse loop (lines 243-283) and, on exit, lines 284-290 -/
def msRev (N S : Nat) (alloc : Nat → Storage) (traj : Traj) :
    (fuel : Nat) → MsSt → Except Err (List Ev)
  | 0, _ => .error .fuel
  | fuel+1, σ =>
    if σ.r < N then                                                            -- line 243
      match σ.snapshots with
      | [] => msErr                                                            -- lines 244-245
      | cpN :: rest =>                                                         -- line 246
        let cpStorage := alloc (σ.snapshots.length - 1)                        -- line 247
        if cpN = N - σ.r - 1 then                                              -- line 248
          -- lines 249-251: pop, `self._n = cp_n`, Move; then lines 280-283
          let n := cpN + 1
          yieldEv ⟨.move cpN cpStorage .work, cpN, σ.r⟩
            (yieldEv ⟨.forward (n - 1) n false true .work, n, σ.r⟩
              (yieldEv ⟨.reverse n (n - 1) true, n, σ.r + 1⟩
                (msRev N S alloc traj fuel { n := n, r := σ.r + 1, snapshots := rest })))
        else
          -- lines 253-263
          let nSnapshots := S - σ.snapshots.length + 1                         -- lines 255-257
          let n0 := cpN                                                        -- line 258
          yieldEv ⟨.copy cpN cpStorage .work, cpN, σ.r⟩                        -- line 254
            (match nAdvance (N - σ.r - n0) nSnapshots traj with                -- lines 259-261
             | none => .error (.later "ValueError")
             | some a =>
               let n1 := n0 + a
               if ¬ n1 > n0 then .error (.later "AssertionError")               -- line 262
               else
                 yieldEv ⟨.forward n0 n1 false false .work, n1, σ.r⟩           -- lines 263-264
                   (msInner N S alloc traj fuel { σ with n := n1 }))
    else if σ.r ≠ N then msErr                                                 -- lines 284-285
    else if σ.snapshots.length ≠ 0 then msErr                                  -- lines 286-287
    else .ok [⟨.endReverse, σ.n, σ.r⟩]                                         -- lines 289-290
/-- the checkpointing loop inside the reverse loop (lines 265-275), the check of lines 277-278 and
the common tail of the reverse loop body (lines 280-283) -/
def msInner (N S : Nat) (alloc : Nat → Storage) (traj : Traj) :
    (fuel : Nat) → MsSt → Except Err (List Ev)
  | 0, _ => .error .fuel
  | fuel+1, σ =>
    if σ.n < N - σ.r - 1 then                                                  -- line 265
      let nSnapshots := S - σ.snapshots.length                                 -- lines 266-268
      let n0 := σ.n                                                            -- line 269
      match nAdvance (N - σ.r - n0) nSnapshots traj with                       -- lines 270-272
      | none => .error (.later "ValueError")
      | some a =>
        let n1 := n0 + a
        if ¬ n1 > n0 then .error (.later "AssertionError")                      -- line 273
        else if σ.snapshots.length ≥ S then                                     -- `write`
          .error (.later "Unexpected snapshot number.")
        else
          let snapshots' := n0 :: σ.snapshots
          let cpStorage := alloc (snapshots'.length - 1)
          yieldEv ⟨.forward n0 n1 true false cpStorage, n1, σ.r⟩               -- lines 274-275
            (msInner N S alloc traj fuel { σ with n := n1, snapshots := snapshots' })
    else if σ.n ≠ N - σ.r - 1 then msErr                                       -- lines 277-278
    else
      let n := σ.n + 1                                                         -- line 280
      yieldEv ⟨.forward (n - 1) n false true .work, n, σ.r⟩                    -- line 281
        (yieldEv ⟨.reverse n (n - 1) true, n, σ.r + 1⟩                         -- lines 282-283
          (msRev N S alloc traj fuel { σ with n := n, r := σ.r + 1 }))
end

def MsSt.init : MsSt := { n := 0, r := 0, snapshots := [] }

/-- the whole stream of `MultistageCheckpointSchedule._iterator` -/
def multistageIter (N S : Nat) (alloc : Nat → Storage) (traj : Traj) (fuel : Nat) :
    Except Err (List Ev) :=
  msFwd N S alloc traj fuel MsSt.init

def multistageIterFuel (N : Nat) : Nat := 2 * N + 2

/-- the twin of `multistageEvs` (same constructor checks, the stream computed by the loop) -/
def multistageIterEvs (N ram disk : Nat) (traj : Traj) : Except Err (List Ev) :=
  if N < 1 then .error (.construct "max_n must be positive") else
  match multistageStorage N ram disk traj with
  | none => .error (.construct "allocate_snapshots")
  | some storage =>
    let S := storage.length
    if N > 1 ∧ S = 0 then .error (.firstNext "Require at least one snapshot") else
    multistageIter N S (fun d => storage.getD d .none) traj (multistageIterFuel N)

end Ckpt
