import CkptVerif.Model.NAdv
/-!
# The binomial segment, generic in the split function

`segWith` is the recursive, stream-level reading of the reverse loops of
`MultistageCheckpointSchedule._iterator` (multistage.py:204-290), of each period block of
`TwoLevelCheckpointSchedule._iterator` (twolevel_binomial.py:79-146) and of the memory-only
Revolve sequences (hrevolve_sequences/revolve.py:61-141 after conversion by hrevolve.py:59-153).

`seg lo hi d` reverses steps `[lo, hi)` with the adjoint standing at `hi`, using stack positions
`d, d+1, …` of the checkpoint stack:

* `stored`: a restart checkpoint for `lo` already sits at stack position `d` (so it is re-loaded),
  otherwise the forward state is in WORK at `lo` and position `d` is free;
* `spine`: we are still on the initial forward sweep (emit `EndForward` after the turn-around);
* `persist`: the checkpoint at stack position 0 is never deleted (TwoLevel's periodic DISK
  checkpoints; a `Copy` replaces the `Move`).

Every event carries the values of `_n` and `_r` the Python generator has assigned before the
`yield`; `N` is `max_n`.
-/
namespace Ckpt

def segWith (N : Nat) (σ : Nat → Nat → Option Nat) (S : Nat) (alloc : Nat → Storage) (persist : Bool) :
    (fuel : Nat) → (stored spine : Bool) → (lo hi d : Nat) → Option (List Ev)
  | 0, _, _, _, _, _ => none
  | fuel+1, stored, spine, lo, hi, d =>
    let r := N - hi
    if hi = lo + 1 then
      some ((if stored then
               [⟨if persist ∧ d = 0 then .copy lo (alloc d) .work else .move lo (alloc d) .work, lo, r⟩]
             else [])
        ++ [⟨.forward lo hi false true .work, hi, r⟩]
        ++ (if spine then [⟨.endForward, hi, r⟩] else [])
        ++ [⟨.reverse hi lo true, hi, r + 1⟩])
    else
      match σ (hi - lo) (S - d) with
      | none => none
      | some a =>
        let first : List Ev := if stored
          then [⟨.copy lo (alloc d) .work, lo, r⟩, ⟨.forward lo (lo + a) false false .work, lo + a, r⟩]
          else [⟨.forward lo (lo + a) true false (alloc d), lo + a, r⟩]
        match segWith N σ S alloc persist fuel false spine (lo + a) hi (d + 1) with
        | none => none
        | some right =>
          match segWith N σ S alloc persist fuel true false lo (lo + a) d with
          | none => none
          | some left => some (first ++ right ++ left)

end Ckpt
