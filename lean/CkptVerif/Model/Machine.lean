import CkptVerif.Spec.Monitor
/-!
# Schedule objects as step machines

`CheckpointSchedule` (schedule.py:368-512) is an object with `next()`, `finalize(n)` and the
observers `n, r, max_n, is_exhausted, is_running, uses_storage_type`.  The model of an object is a
`Sched` (what its generator body produces) run by the generic machine below, which mirrors
`__next__`, the cached generator and `finalize`.

* online classes (`max_n` unknown at construction) emit `fwdEv n` while `max_n is None`, and
  `first N` (starting with `EndForward`) once it is known;
* offline classes emit `first N` (their whole stream) from the start;
* classes permitting repeated adjoint calculations continue with `again N` after each
  `EndReverse`.
-/
namespace Ckpt

structure Sched where
  /-- `max_n` passed to `CheckpointSchedule.__init__` (none for online schedules) -/
  maxN0 : Option Nat
  /-- the Forward produced in the `while self._max_n is None` loop from `_n = n` -/
  fwdEv : Nat → Ev
  /-- events produced once `max_n = N` is known, up to and including the first `EndReverse`
  (or `EndForward` when no adjoint calculation is permitted) -/
  first : Nat → Except Err (List Ev)
  /-- one further adjoint calculation -/
  again : Nat → List Ev
  /-- permitted adjoint calculations (`none` = unbounded) -/
  passes : Option Nat
  /-- `uses_storage_type` for RAM, DISK, WORK, NONE -/
  uses : Storage → Option Bool

inductive Phase
  | fwd                                  -- generator not started, or in its online forward loop
  | run (todo : List Ev) (done : Nat)    -- after `max_n` is known
  | stopped                              -- generator returned or raised
deriving Repr, Inhabited

structure MSt where
  n : Nat
  r : Nat
  maxN : Option Nat
  started : Bool
  exhausted : Bool
  phase : Phase
deriving Repr, Inhabited

def Sched.init (s : Sched) : MSt :=
  { n := 0, r := 0, maxN := s.maxN0, started := false, exhausted := false, phase := .fwd }

inductive NextOut
  | act (o : Obs)
  | stop
  | raised (e : Err)
deriving Repr, Inhabited

/-- events still to come after `e` was taken from `todo`: refill for a further calculation -/
def Sched.after (s : Sched) (N : Nat) (e : Ev) (rest : List Ev) (done : Nat) : Phase × Bool :=
  let done' := if e.act = .endReverse then done + 1 else done
  let fin : Bool := match s.passes with
    | none => false
    | some 0 => e.act = .endForward
    | some k => decide (k ≤ done')
  if fin then (.stopped, true)
  else match rest with
    | [] => (.run (s.again N) done', false)
    | _ => (.run rest done', false)

def Sched.next (s : Sched) (m : MSt) : MSt × NextOut :=
  let m := { m with started := true }
  let emit (m : MSt) (e : Ev) (ph : Phase) (exh : Bool) : MSt × NextOut :=
    let m' := { m with n := e.n, r := e.r, phase := ph, exhausted := exh }
    (m', .act ⟨e.act, e.n, e.r, m'.maxN, exh, true⟩)
  match m.phase with
  | .stopped => (m, .stop)
  | .fwd =>
    match m.maxN with
    | none =>
      let e := s.fwdEv m.n
      emit m e .fwd false
    | some N =>
      match s.first N with
      | .error err => ({ m with phase := .stopped }, .raised err)
      | .ok [] => ({ m with phase := .stopped }, .stop)
      | .ok (e :: rest) =>
        let (ph, exh) := s.after N e rest 0
        emit m e ph exh
  | .run todo done =>
    match todo with
    | [] => ({ m with phase := .stopped }, .stop)
    | e :: rest =>
      let N := m.maxN.getD 0
      let (ph, exh) := s.after N e rest done
      emit m e ph exh

inductive FinOut | ok | valueError | runtimeError
deriving DecidableEq, Repr, Inhabited

/-- `CheckpointSchedule.finalize` (schedule.py:493-512). -/
def finalize (m : MSt) (k : Int) : MSt × FinOut :=
  if k < 1 then (m, .valueError) else
  match m.maxN with
  | none =>
    if (m.n : Int) ≥ k then ({ m with n := k.toNat, maxN := some k.toNat }, .ok)
    else (m, .runtimeError)
  | some N =>
    if (m.n : Int) ≠ k ∨ (N : Int) ≠ k then (m, .runtimeError) else (m, .ok)

def MSt.line (m : MSt) (f : Nat → Nat → Option Nat → Bool → Bool → Line) : Line :=
  f m.n m.r m.maxN m.exhausted m.started

def Sched.usesLine (s : Sched) : Line := .uses (s.uses .ram) (s.uses .disk) (s.uses .work) (s.uses .none)

/-- The canonical driver (the one of tests/test_validity.py): call `next()`; finalise an online
schedule as soon as the forward has been told to reach `Nfin`; stop after `k` adjoint
calculations, or — when the schedule is exhausted — after three more `next()` calls. -/
def Sched.canonLoop (s : Sched) (Nfin k : Nat) : (fuel : Nat) → MSt → (seenRev : Nat) → (usedEF : Bool) → List Line
  | 0, _, _, _ => [.bad "fuel"]
  | fuel+1, m, seen, usedEF =>
    let (m1, out) := s.next m
    match out with
    | .stop => [m1.line .stop, (s.next m1).1.line .stop, (s.next (s.next m1).1).1.line .stop, s.usesLine]
    | .raised e => [.bad (reprStr e), s.usesLine]
    | .act o =>
      -- the driver finalises when told to advance to (or past) the last step
      let m2 := if m1.maxN.isNone ∧ Nfin ≤ m1.n then (finalize m1 Nfin).1 else m1
      let o := { o with n := m2.n, maxN := m2.maxN }
      let seen' := if o.act = .endReverse then seen + 1 else seen
      let ef := (o.act = .endForward) && !usedEF
      let here : List Line := [.act o] ++ (if ef then [s.usesLine] else [])
      if m2.exhausted then here ++ s.canonLoop Nfin k fuel m2 seen' (usedEF || ef)
      else if seen' ≥ k ∧ o.act = .endReverse then here ++ [s.usesLine]
      else here ++ s.canonLoop Nfin k fuel m2 seen' (usedEF || ef)

def Sched.canon (s : Sched) (Nfin k fuel : Nat) : List Line :=
  let m := s.init
  [m.line .init, s.usesLine] ++ s.canonLoop Nfin k fuel m 0 false

end Ckpt
