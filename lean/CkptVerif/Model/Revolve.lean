import CkptVerif.Model.Multistage
/-!
# The Revolve family (hrevolve.py + hrevolve_sequences/*)

Cost tables (`get_opt_0_table`, `get_opt_inf_table`, `get_hopt_table`), `argmin`, `beta`, the
period formula `mxrr_close_formula`, and recursive stream-level readings of the four schedule
classes after conversion by `RevolveCheckpointSchedule._iterator`.

Costs are natural numbers (integer cost vectors; every float the Python code computes from them
is an exactly representable integer).  `float("inf")` is `none`.
-/
namespace Ckpt

/-! ## extended naturals (`none` = +∞) -/

def oadd : Option Nat → Option Nat → Option Nat
  | some a, some b => some (a + b)
  | _, _ => none

def olt : Option Nat → Option Nat → Bool
  | some a, some b => decide (a < b)
  | some _, none => true
  | none, _ => false

def ole (a b : Option Nat) : Bool := !olt b a

def omin (a b : Option Nat) : Option Nat := if olt b a then b else a

/-- Python `min(list)` for a non-empty list (first minimal element is irrelevant: value only) -/
def ominList : List (Option Nat) → Option Nat
  | [] => none
  | x :: xs => xs.foldl omin x

/-- `argmin` of basic_functions.py:63-84: 1 + index of the *last* minimal element -/
def argminO (l : List (Option Nat)) : Nat :=
  match l with
  | [] => 1
  | x :: _ =>
    let (idx, _) := l.zipIdx.foldl (fun (acc : Nat × Option Nat) (p : Option Nat × Nat) =>
      if ole p.1 acc.2 then (p.2, p.1) else acc) (0, x)
    1 + idx

/-- `beta(x, y)` of basic_functions.py:38-60 for `y ≥ 0`: the binomial coefficient C(x+y, y) -/
def binom : Nat → Nat → Nat
  | _, 0 => 1
  | 0, _+1 => 0
  | n+1, k+1 => binom n k + binom n (k+1)

/-! The Pascal recursion above is the specification; the compiled driver evaluates it row by row
(`binom_eq_binomFast` is a proved `@[csimp]` equation, no axiom, so `#eval`/`drv` and the theorems
speak about the same function). -/

def pascalNext (r : List Nat) : List Nat := List.zipWith (· + ·) (0 :: r) (r ++ [0])

def pascalRow : Nat → List Nat
  | 0 => [1]
  | n+1 => pascalNext (pascalRow n)

def binomFast (n k : Nat) : Nat := (pascalRow n)[k]?.getD 0

theorem pascalRow_length (n : Nat) : (pascalRow n).length = n + 1 := by
  induction n with
  | zero => rfl
  | succ n ih => simp [pascalRow, pascalNext, ih]

theorem binom_eq_zero : ∀ (n k : Nat), n < k → binom n k = 0
  | _, 0, h => by omega
  | 0, _+1, _ => rfl
  | n+1, k+1, h => by
    rw [binom, binom_eq_zero n k (by omega), binom_eq_zero n (k+1) (by omega)]

theorem pascalRow_get (n : Nat) : ∀ k, (pascalRow n)[k]?.getD 0 = binom n k := by
  induction n with
  | zero =>
    intro k
    cases k with
    | zero => rfl
    | succ k => simp [pascalRow, binom]
  | succ n ih =>
    intro k
    have hl := pascalRow_length n
    cases k with
    | zero =>
      have h0 := ih 0
      simp only [pascalRow, pascalNext, binom]
      cases hr : pascalRow n with
      | nil => rw [hr] at hl; simp at hl
      | cons a r => rw [hr] at h0; simp [binom] at h0; simp [h0]
    | succ k =>
      simp only [pascalRow, pascalNext, binom]
      rw [← ih k, ← ih (k + 1)]
      rw [List.getElem?_zipWith]
      simp only [List.getElem?_cons_succ]
      by_cases hk : k + 1 < (pascalRow n).length
      · have h1 : k < (pascalRow n).length := by omega
        rw [List.getElem?_append_left hk]
        rw [List.getElem?_eq_getElem h1, List.getElem?_eq_getElem hk]
        simp
      · by_cases hk2 : k < (pascalRow n).length
        · have : k + 1 = (pascalRow n).length := by omega
          rw [List.getElem?_eq_getElem hk2]
          rw [List.getElem?_append_right (by omega)]
          rw [List.getElem?_eq_none (l := pascalRow n) (by omega)]
          simp [this]
        · rw [List.getElem?_eq_none (l := pascalRow n) (i := k) (by omega)]
          rw [List.getElem?_eq_none (l := pascalRow n) (i := k + 1) (by omega)]
          simp

@[csimp] theorem binom_eq_binomFast : @binom = @binomFast := by
  funext n k
  exact (pascalRow_get n k).symm


def beta (x y : Nat) : Nat := binom (x + y) y

/-! ## `get_opt_0_table` (revolve.py:16-58): `opt0 m l`, rows `m = 0 … mmax`, `l = 0 … lmax` -/

/-- row `m` given row `m-1`; a row is the list of values for `l = 0, 1, …` -/
def opt0Row (uf ub lmax : Nat) (prev : Array Nat) : Array Nat :=
  (List.range' 2 (lmax - 1)).foldl (fun (row : Array Nat) l =>
    let cands := (List.range' 1 (l - 1)).map (fun j =>
      j * uf + prev.getD (l - j) 0 + row.getD (j - 1) 0)
    row.push (cands.foldl min (cands.headD 0))) #[ub, uf + 2 * ub]

/-- `opt[m][l]`; row 0 holds only `l = 0`, row 1 the closed form -/
def opt0Table (lmax mmax uf ub : Nat) : Array (Array Nat) :=
  let row0 : Array Nat := #[ub]
  let row1 : Array Nat := (List.range' 2 (lmax - 1)).foldl (fun row l =>
    row.push ((l + 1) * ub + l * (l + 1) / 2 * uf)) #[ub, uf + 2 * ub]
  if mmax = 0 then #[row0] else
  (List.range' 2 (mmax - 1)).foldl (fun (t : Array (Array Nat)) m =>
    t.push (opt0Row uf ub lmax (t.getD (m - 1) #[]))) #[row0, row1]

def opt0Get (t : Array (Array Nat)) (m l : Nat) : Nat := (t.getD m #[]).getD l 0

/-- Revolve's split for a segment of `m = l + 1` steps with `k` slots (revolve.py:92-141):
`k = 0` raises; `l = 1` and `k = 1` are the special cases; otherwise `argmin`. -/
def revolveSplit (t : Array (Array Nat)) (uf : Nat) (m k : Nat) : Option Nat :=
  let l := m - 1
  if k = 0 then none
  else if l = 1 ∨ k = 1 then some (m - 1)
  else
    some (argminO ((List.range' 1 (l - 1)).map (fun j =>
      some (j * uf + opt0Get t (k - 1) (l - j) + opt0Get t k (j - 1)))))

/-- the memory-only segment on RAM with Revolve's split -/
def revSeg (N : Nat) (t : Array (Array Nat)) (uf cm : Nat) (spine : Bool) (lo hi : Nat) : Option (List Ev) :=
  segWith N (revolveSplit t uf) cm (fun _ => .ram) false (hi - lo + 1) false spine lo hi 0

/-! ## `get_opt_inf_table` (disk_revolve.py:19-91, one_read_disk) -/

def optInfTable (lmax cm uf ub wr : Nat) (t0 : Array (Array Nat)) : Array Nat :=
  (List.range' 2 (lmax - 1)).foldl (fun (tab : Array Nat) l =>
    let cands := (List.range' 1 (l - 1)).map (fun j =>
      wr + j * uf + tab.getD (l - j) 0 + opt0Get t0 cm (j - 1))
    tab.push (min (opt0Get t0 cm l) (cands.foldl min (cands.headD 0))))
    #[ub, if cm = 0 then wr + uf + 2 * ub else uf + 2 * ub]

/-- DiskRevolve stream for `[lo, hi)` (disk_revolve.py:94-191 after conversion) -/
def diskSeg (N : Nat) (t0 : Array (Array Nat)) (tinf : Array Nat) (cm uf wr : Nat) :
    (fuel : Nat) → (spine : Bool) → (lo hi : Nat) → Option (List Ev)
  | 0, _, _, _ => none
  | fuel+1, spine, lo, hi =>
    let l := hi - lo - 1
    let r := N - hi
    let cands := (List.range' 1 (l - 1)).map (fun j =>
      wr + j * uf + tinf.getD (l - j) 0 + opt0Get t0 cm (j - 1))
    if l ≥ 2 ∧ cands.foldl min (cands.headD 0) < opt0Get t0 cm l then
      let j := argminO (cands.map some)
      match diskSeg N t0 tinf cm uf wr fuel spine (lo + j) hi with
      | none => none
      | some right =>
        match revSeg N t0 uf cm false lo (lo + j) with
        | none => none
        | some left =>
          some ([⟨.forward lo (lo + j) true false .disk, lo + j, r⟩] ++ right ++
            [⟨.move lo .disk .work, lo, N - (lo + j)⟩] ++ left)
    else revSeg N t0 uf cm spine lo hi

/-! ## PeriodicDiskRevolve (periodic_disk_revolve.py:190-300) -/

/-- `mxrr_close_formula(cm, uf, rd, wd)`: `beta(cm, t)` for the first `t` with
`beta(cm+1, t) > (wd+rd)/uf`; exact for integer costs as `beta·uf > wd+rd`.  Fuelled. -/
def mxrrLoop (cm uf wr : Nat) : (fuel t : Nat) → Option Nat
  | 0, _ => none
  | fuel+1, t => if beta (cm + 1) t * uf ≤ wr then mxrrLoop cm uf wr fuel (t + 1) else some t

def mxrr (cm uf wr : Nat) : Option Nat :=
  if uf = 0 then none else (mxrrLoop cm uf wr (wr + 2) 0).map (beta cm ·)

/-- the initial sweep: DISK checkpoints every `mx` steps while more than `mx` steps remain -/
def periodicSweep (l mx : Nat) : (fuel c : Nat) → List Ev × Nat
  | 0, c => ([], c)
  | fuel+1, c =>
    if l - c > mx then
      let (rest, c') := periodicSweep l mx fuel (c + mx)
      (⟨.forward c (c + mx) true false .disk, c + mx, 0⟩ :: rest, c')
    else ([], c)

/-- the blocks `[c, c+mx)` for `c` descending to 0 -/
def periodicBlocks (N : Nat) (t0 : Array (Array Nat)) (uf cm mx : Nat) : (nblk : Nat) → Option (List Ev)
  | 0 => some []
  | b+1 =>
    let c := b * mx
    match revSeg N t0 uf cm false c (c + mx) with
    | none => none
    | some evs =>
      match periodicBlocks N t0 uf cm mx b with
      | none => none
      | some rest => some ([⟨.move c .disk .work, c, N - (c + mx)⟩] ++ evs ++ rest)

/-! ## `get_hopt_table` (hrevolve_sequences/hrevolve.py:15-94), two levels -/

structure HTab where
  /-- `optp[k][l][m]`, `opt[k][l][m]` as arrays indexed `[l][m]` per level -/
  optp0 : Array (Array (Option Nat))
  opt0 : Array (Array (Option Nat))
  optp1 : Array (Array (Option Nat))
  opt1 : Array (Array (Option Nat))
deriving Repr, Inhabited

def g2 (t : Array (Array (Option Nat))) (l m : Nat) : Option Nat := (t.getD l #[]).getD m none

def s2 (t : Array (Array (Option Nat))) (l m : Nat) (v : Option Nat) : Array (Array (Option Nat)) :=
  t.modify l (fun row => row.setIfInBounds m v)

def HTab.optp (h : HTab) (k l m : Nat) : Option Nat := if k = 0 then g2 h.optp0 l m else g2 h.optp1 l m
def HTab.opt (h : HTab) (k l m : Nat) : Option Nat := if k = 0 then g2 h.opt0 l m else g2 h.opt1 l m

/-- `ub`, `uf` are the *callee's* parameters, in the order of the signature
`get_hopt_table(lmax, cvect, wvect, rvect, ub, uf)`. -/
def hoptTable (lmax c0 c1 w0 w1 r0 r1 ub uf : Nat) : HTab :=
  let blank (c : Nat) : Array (Array (Option Nat)) := Array.replicate (lmax + 1) (Array.replicate (c + 1) none)
  -- borders
  let border (k c : Nat) (tp t : Array (Array (Option Nat))) :=
    let (tp, t) := (List.range (c + 1)).foldl (fun (p : _ × _) m => (s2 p.1 0 m (some ub), s2 p.2 0 m (some ub))) (tp, t)
    (List.range (c + 1)).foldl (fun (p : _ × _) m =>
      if (m = 0 ∧ k = 0) ∨ lmax < 1 then p else
      let v := uf + 2 * ub + r0
      (s2 p.1 1 m (some v), s2 p.2 1 m (some (w0 + v)))) (tp, t)
  let (p0, o0) := border 0 c0 (blank c0) (blank c0)
  let (p1, o1) := border 1 c1 (blank c1) (blank c1)
  -- level 0, m = 1
  let (p0, o0) := (List.range' 2 (lmax - 1)).foldl (fun (p : _ × _) l =>
      let v := (l + 1) * ub + l * (l + 1) / 2 * uf + l * r0
      (s2 p.1 l 1 (some v), s2 p.2 l 1 (some (w0 + v)))) (p0, o0)
  -- level 0, m ≥ 2
  let (p0, o0) := (List.range' 2 (c0 - 1)).foldl (fun (p : _ × _) m =>
      (List.range' 2 (lmax - 1)).foldl (fun (p : _ × _) l =>
        let cands := (List.range' 1 (l - 1)).map (fun j =>
          oadd (oadd (oadd (some (j * uf)) (g2 p.2 (l - j) (m - 1))) (some r0)) (g2 p.1 (j - 1) m))
        let v := ominList (cands ++ [g2 p.1 l 1])
        (s2 p.1 l m v, s2 p.2 l m (oadd (some w0) v))) p) (p0, o0)
  -- level 1
  let o1 := (List.range' 2 (lmax - 1)).foldl (fun o l => s2 o l 0 (g2 o0 l c0)) o1
  let (p1, o1) := (List.range' 1 c1).foldl (fun (p : _ × _) m =>
      (List.range' 1 lmax).foldl (fun (p : _ × _) l =>
        let cands := (List.range' 1 (l - 1)).map (fun j =>
          oadd (oadd (oadd (some (j * uf)) (g2 p.2 (l - j) (m - 1))) (some r1)) (g2 p.1 (j - 1) m))
        let v := ominList ([g2 o0 l c0] ++ cands)
        (s2 p.1 l m v, s2 p.2 l m (omin (g2 o0 l c0) (oadd (some w1) v)))) p) (p1, o1)
  { optp0 := p0, opt0 := o0, optp1 := p1, opt1 := o1 }

/-! ## HRevolve stream: the mutual recursion `hrevolve_recurse` / `hrevolve_aux` at stream level -/

/-- an event, or a checkpoint load whose Copy/Move nature is decided by `_last_reads` -/
inductive HOp
  | ev (e : Ev)
  | load (n : Nat) (st : Storage) (r : Nat)
deriving Repr, Inhabited

structure HCtx where
  N : Nat
  c0 : Nat
  c1 : Nat
  uf : Nat
  w : Nat → Nat     -- wvect
  rr : Nat → Nat    -- rvect
  tab : HTab

def lvl (K : Nat) : Storage := if K = 0 then .ram else .disk

def hBase (c : HCtx) (lo hi : Nat) (spine : Bool) : List HOp :=
  let r := c.N - hi
  [.ev ⟨.forward lo hi false true .work, hi, r⟩] ++
  (if spine then [.ev ⟨.endForward, hi, r⟩] else []) ++
  [.ev ⟨.reverse hi lo true, hi, r + 1⟩]

/-- a Forward from `lo` to `to`; `pending = some K`: the checkpoint at `lo` is written to level `K`
by this Forward, `none`: plain advance -/
def hFwd (c : HCtx) (lo to hi : Nat) (pending : Option Nat) : HOp :=
  match pending with
  | none => .ev ⟨.forward lo to false false .work, to, c.N - hi⟩
  | some K => .ev ⟨.forward lo to true false (lvl K), to, c.N - hi⟩

def cv (c : HCtx) (K : Nat) : Nat := if K = 0 then c.c0 else c.c1

mutual
/-- `hrevolve_recurse(l, K, cmem)` on `[lo, hi)` -/
def hR (c : HCtx) : (fuel : Nat) → (lo hi K cm : Nat) → (spine : Bool) → Option (List HOp)
  | 0, _, _, _, _, _ => none
  | fuel+1, lo, hi, K, cm, spine =>
    let l := hi - lo - 1
    if l = 0 then some (hBase c lo hi spine)
    else if K = 0 ∧ cm = 0 then none
    else if l = 1 then
      some ([hFwd c lo (lo + 1) hi (some 0)] ++ hBase c (lo + 1) hi spine ++
        [.load lo .ram (c.N - (lo + 1))] ++ hBase c lo (lo + 1) false)
    else if K = 0 then hA c fuel lo hi 0 cm spine (some 0)
    else if olt (oadd (some (c.w K)) (c.tab.optp K l cm)) (c.tab.opt (K - 1) l (cv c (K - 1))) then
      hA c fuel lo hi K cm spine (some K)
    else hR c fuel lo hi (K - 1) (cv c (K - 1)) spine
/-- `hrevolve_aux(l, K, cmem)` on `[lo, hi)`; `pending`: level at which the checkpoint at `lo`
is still to be written by the next Forward (`none`: the state was just loaded) -/
def hA (c : HCtx) : (fuel : Nat) → (lo hi K cm : Nat) → (spine : Bool) → (pending : Option Nat) → Option (List HOp)
  | 0, _, _, _, _, _, _ => none
  | fuel+1, lo, hi, K, cm, spine, pending =>
    let l := hi - lo - 1
    if cm = 0 then none
    else if l = 0 then
      if pending.isSome then none else some (hBase c lo hi spine)
    else if l = 1 then
      if pending.isSome then none else
      if c.w 0 + c.rr 0 < c.rr K then
        some ([hFwd c lo (lo + 1) hi (some 0)] ++ hBase c (lo + 1) hi spine ++
          [.load lo .ram (c.N - (lo + 1))] ++ hBase c lo (lo + 1) false)
      else
        some ([hFwd c lo (lo + 1) hi none] ++ hBase c (lo + 1) hi spine ++
          [.load lo (lvl K) (c.N - (lo + 1))] ++ hBase c lo (lo + 1) false)
    else if K = 0 ∧ cm = 1 then
      -- for index in range(l-1, -1, -1)
      let body := (List.range l).reverse.flatMap (fun idx =>
        (if idx ≠ l - 1 then [HOp.load lo .ram (c.N - (lo + idx + 2))] else []) ++
        [hFwd c lo (lo + idx + 1) (lo + idx + 2) (if idx = l - 1 then pending else none)] ++
        hBase c (lo + idx + 1) (lo + idx + 2) (spine && idx = l - 1))
      some (body ++ [.load lo .ram (c.N - (lo + 1))] ++ hBase c lo (lo + 1) false)
    else
      let cands := (List.range' 1 (l - 1)).map (fun j =>
        oadd (oadd (oadd (some (j * c.uf)) (c.tab.opt K (l - j) (cm - 1))) (some (c.rr K)))
          (c.tab.optp K (j - 1) cm))
      let other := if K = 0 then c.tab.optp 0 l 1 else c.tab.opt (K - 1) l (cv c (K - 1))
      if olt (ominList cands) other then
        let j := argminO cands
        match hR c fuel (lo + j) hi K (cm - 1) spine with
        | none => none
        | some right =>
          match hA c fuel lo (lo + j) K cm false none with
          | none => none
          | some left =>
            some ([hFwd c lo (lo + j) hi pending] ++ right ++
              [.load lo (lvl K) (c.N - (lo + j))] ++ left)
      else if K = 0 then hA c fuel lo hi 0 1 spine pending
      else
        if pending.isSome then none else hR c fuel lo hi (K - 1) (cv c (K - 1)) spine
end

/-- `_last_reads` (hrevolve.py): a load is the last use of its checkpoint iff no later load of
the same (storage, step) occurs before that checkpoint is next written -/
def isLastLoad (n : Nat) (st : Storage) : List HOp → Bool
  | [] => true
  | .load n' st' _ :: rest => if n' = n ∧ st' = st then false else isLastLoad n st rest
  | .ev e :: rest =>
    match e.act with
    | .forward n0 _ true _ st' => if n0 = n ∧ st' = st then true else isLastLoad n st rest
    | _ => isLastLoad n st rest

def resolveLoads : List HOp → List Ev
  | [] => []
  | .ev e :: rest => e :: resolveLoads rest
  | .load n st r :: rest =>
    (if isLastLoad n st rest then ⟨.move n st .work, n, r⟩ else ⟨.copy n st .work, n, r⟩) :: resolveLoads rest

/-! ## The four classes -/

structure Costs where
  uf : Nat
  ub : Nat
  wd : Nat
  rd : Nat
deriving Repr, Inhabited

def revUses (ram : Nat) (disk : Option Nat) : Storage → Option Bool
  | .ram => some (decide (ram > 0))
  | .disk => some (match disk with | none => true | some d => decide (d > 0))
  | _ => some false

def revolveEvs (N cm : Nat) (c : Costs) : Except Err (List Ev) :=
  let t0 := opt0Table (N - 1) cm c.uf c.ub
  match revSeg N t0 c.uf cm true 0 N with
  | none => .error (.later "revolve")
  | some evs => .ok (evs ++ [⟨.endReverse, 1, N⟩])

def revolveSched (N cm : Nat) (c : Costs) : Except Err Sched :=
  if N < 1 ∨ cm < 1 then .error (.construct "Revolve") else
  .ok (offlineSched N (revolveEvs N cm c) (revUses cm (some 0)))

def diskRevolveEvs (N cm : Nat) (c : Costs) : Except Err (List Ev) :=
  let t0 := opt0Table (N - 1) cm c.uf c.ub
  let tinf := optInfTable (N - 1) cm c.uf c.ub (c.wd + c.rd) t0
  match diskSeg N t0 tinf cm c.uf (c.wd + c.rd) (N + 1) true 0 N with
  | none => .error (.later "disk_revolve")
  | some evs => .ok (evs ++ [⟨.endReverse, 1, N⟩])

def diskRevolveSched (N cm : Nat) (c : Costs) : Except Err Sched :=
  if N < 1 ∨ cm < 1 then .error (.construct "DiskRevolve") else
  .ok (offlineSched N (diskRevolveEvs N cm c) (revUses cm none))

def periodicEvs (N cm : Nat) (c : Costs) : Except Err (List Ev) :=
  match mxrr cm c.uf (c.wd + c.rd) with
  | none => .error (.construct "mxrr")
  | some mx =>
    let t0 := opt0Table (max (N - 1) (mx + 1)) cm c.uf c.ub
    let (sweep, cur) := periodicSweep (N - 1) mx N 0
    match revSeg N t0 c.uf cm true cur N with
    | none => .error (.later "periodic")
    | some mid =>
      match periodicBlocks N t0 c.uf cm mx (cur / mx) with
      | none => .error (.later "periodic")
      | some blocks => .ok (sweep ++ mid ++ blocks ++ [⟨.endReverse, 1, N⟩])

def periodicSched (N cm : Nat) (c : Costs) : Except Err Sched :=
  if N < 1 ∨ cm < 1 ∨ c.uf = 0 then .error (.construct "PeriodicDiskRevolve") else
  .ok (offlineSched N (periodicEvs N cm c) (revUses cm none))

/-- `swap`: build the table with the argument order of the *unrepaired* call sites
(`get_hopt_table(…, uf, ub)` against the signature `(…, ub, uf)`); kept representable so that the
C07 obligation demonstrably fails for it. -/
def hrevolveEvs (N c0 c1 : Nat) (c : Costs) (swap : Bool := false) : Except Err (List Ev) :=
  let tab := if swap then hoptTable (N - 1) c0 c1 0 c.wd 0 c.rd c.uf c.ub
             else hoptTable (N - 1) c0 c1 0 c.wd 0 c.rd c.ub c.uf
  let ctx : HCtx := { N := N, c0 := c0, c1 := c1, uf := c.uf,
                      w := fun K => if K = 0 then 0 else c.wd, rr := fun K => if K = 0 then 0 else c.rd,
                      tab := tab }
  match hR ctx (4 * N + 8) 0 N 1 c1 true with
  | none => .error (.later "hrevolve")
  | some ops => .ok (resolveLoads ops ++ [⟨.endReverse, 1, N⟩])

def hrevolveSched (N c0 c1 : Nat) (c : Costs) : Except Err Sched :=
  if N < 1 ∨ c0 < 1 then .error (.construct "HRevolve") else
  .ok (offlineSched N (hrevolveEvs N c0 c1 c) (revUses c0 (some c1)))

end Ckpt
