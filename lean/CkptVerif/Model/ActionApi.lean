import CkptVerif.Model.Basic
/-!
# Value semantics of actions (schedule.py)

`CheckpointAction.__repr__` / `__eq__` (two actions are equal iff they are of the same class and
have equal argument tuples, i.e. iff they are equal as values of `Action`; `repr` prints the class
name and the argument tuple), and `Forward/Reverse.__iter__ / __len__ / __contains__`
(the steps `range(n0, n1)` resp. `range(n1 - 1, n0 - 1, -1)`).

Besides the printer `pyRepr` (the definitions are those of `Driver/Main.lean`) there is a
recursive-descent parser `parseRepr` on characters, which accepts exactly the strings `pyRepr`
produces (it re-renders what it has read and compares).  Import-free apart from `Basic`.
-/
namespace Ckpt

/-- `Forward.__iter__` / `Reverse.__iter__`; the other actions are not iterable. -/
def steps : Action → List Nat
  | .forward n0 n1 _ _ _ => List.range' n0 (n1 - n0)
  | .reverse n1 n0 _ => (List.range' n0 (n1 - n0)).reverse
  | _ => []

def pyBool (b : Bool) : String := if b then "True" else "False"
def pySt : Storage → String
  | .ram => "StorageType.RAM" | .disk => "StorageType.DISK" | .work => "StorageType.WORK" | .none => "StorageType.NONE"
def pyNat (n : Nat) : String := if n = maxsize then "sys.maxsize" else toString n

/-- `CheckpointAction.__repr__` -/
def pyRepr : Action → String
  | .forward n0 n1 wi wa st => s!"Forward({pyNat n0}, {pyNat n1}, {pyBool wi}, {pyBool wa}, {pySt st})"
  | .reverse n1 n0 c => s!"Reverse({pyNat n1}, {pyNat n0}, {pyBool c})"
  | .copy n s d => s!"Copy({pyNat n}, {pySt s}, {pySt d})"
  | .move n s d => s!"Move({pyNat n}, {pySt s}, {pySt d})"
  | .endForward => "EndForward()"
  | .endReverse => "EndReverse()"

/-! ## Parser (on characters, no tokenizer) -/

/-- strip the literal `p` from the front -/
def lit : List Char → List Char → Option (List Char)
  | [], cs => some cs
  | _ :: _, [] => none
  | p :: ps, c :: cs => if p = c then lit ps cs else none

/-- a number: `sys.maxsize` or a non-empty run of decimal digits -/
def pNat (cs : List Char) : Option (Nat × List Char) :=
  match lit "sys.maxsize".toList cs with
  | some r => some (maxsize, r)
  | none =>
    let ds := cs.takeWhile Char.isDigit
    if ds.isEmpty then none else some (Nat.ofDigitChars 10 ds 0, cs.dropWhile Char.isDigit)

def pBool (cs : List Char) : Option (Bool × List Char) :=
  match lit "True".toList cs with
  | some r => some (true, r)
  | none =>
    match lit "False".toList cs with
    | some r => some (false, r)
    | none => none

def pSt (cs : List Char) : Option (Storage × List Char) :=
  match lit "StorageType.".toList cs with
  | none => none
  | some r =>
    match lit "RAM".toList r with
    | some r => some (.ram, r)
    | none =>
    match lit "DISK".toList r with
    | some r => some (.disk, r)
    | none =>
    match lit "WORK".toList r with
    | some r => some (.work, r)
    | none =>
    match lit "NONE".toList r with
    | some r => some (.none, r)
    | none => none

/-- `, ` -/
def pSep (cs : List Char) : Option (List Char) := lit ", ".toList cs

/-- `)` and end of input -/
def pClose (cs : List Char) : Option Unit :=
  match lit ")".toList cs with
  | some [] => some ()
  | _ => none

/-- the argument tuples (after the class name and the opening parenthesis) -/
def pForwardArgs (r : List Char) : Option Action := do
  let (n0, r) ← pNat r
  let r ← pSep r
  let (n1, r) ← pNat r
  let r ← pSep r
  let (wi, r) ← pBool r
  let r ← pSep r
  let (wa, r) ← pBool r
  let r ← pSep r
  let (st, r) ← pSt r
  pClose r
  pure (.forward n0 n1 wi wa st)

def pReverseArgs (r : List Char) : Option Action := do
  let (n1, r) ← pNat r
  let r ← pSep r
  let (n0, r) ← pNat r
  let r ← pSep r
  let (c, r) ← pBool r
  pClose r
  pure (.reverse n1 n0 c)

def pCopyArgs (mk : Nat → Storage → Storage → Action) (r : List Char) : Option Action := do
  let (n, r) ← pNat r
  let r ← pSep r
  let (s, r) ← pSt r
  let r ← pSep r
  let (d, r) ← pSt r
  pClose r
  pure (mk n s d)

def parseChars (cs : List Char) : Option Action :=
  match lit "Forward(".toList cs with
  | some r => pForwardArgs r
  | none =>
  match lit "Reverse(".toList cs with
  | some r => pReverseArgs r
  | none =>
  match lit "Copy(".toList cs with
  | some r => pCopyArgs .copy r
  | none =>
  match lit "Move(".toList cs with
  | some r => pCopyArgs .move r
  | none =>
  match lit "EndForward(".toList cs with
  | some r => (pClose r).map fun _ => .endForward
  | none =>
  match lit "EndReverse(".toList cs with
  | some r => (pClose r).map fun _ => .endReverse
  | none => none

/-- Parser for `repr` strings: reads the string, and accepts iff re-rendering what was read gives
the string back — so it accepts exactly the strings `pyRepr` produces (no leading zeros, no
`9223372036854775807` in place of `sys.maxsize`, …). -/
def parseRepr (s : String) : Option Action :=
  match parseChars s.toList with
  | some a => if pyRepr a = s then some a else none
  | none => none

end Ckpt
