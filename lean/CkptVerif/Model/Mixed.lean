import CkptVerif.Model.DP
import CkptVerif.Model.Multistage
/-!
# MixedCheckpointSchedule (mixed.py) and the step-count kernels
-/
namespace Ckpt

/-- `StepType` values used by the planners (schedule.py:58-84). -/
def stNone : Nat := 0
def stForwardReverse : Nat := 2
def stWriteAdjDeps : Nat := 3
def stWriteIcs : Nat := 4

/-- a planner answer `(step_type, n1, cost)` -/
structure Cell where
  kind : Nat
  len : Nat
  cost : Nat
deriving DecidableEq, Repr, Inhabited

/-- `cache_step`'s key: `s = min(s, n - 1)` -/
def clampS (n s : Nat) : Nat := min s (n - 1)

/-- the validity guards shared by the three cached kernels (after the clamp);
`n <= 0`, `s < min(1, n-1)`, `s > n-1` raise ValueError -/
def validKey (n s : Nat) : Bool := decide (1 ≤ n) && decide (min 1 (n - 1) ≤ s) && decide (s ≤ n - 1)

/-- body of `mixed_step_memoization` (mixed.py:248-275) for a valid clamped key -/
def memoF (n s : Nat) (get : Nat → Nat → Cell) : Cell :=
  if n ≤ 1 then ⟨stForwardReverse, 1, 1⟩
  else if n ≤ s + 1 then ⟨stWriteAdjDeps, 1, n⟩
  else if s = 1 then ⟨stWriteIcs, n - 1, n * (n + 1) / 2 - 1⟩
  else
    -- for i in range(2, n): keep the last minimiser (`m1 <= m[2]`)
    let m : Option Cell := (List.range' 2 (n - 2)).foldl (fun m i =>
      let m1 := i + (get i (clampS i s)).cost + (get (n - i) (clampS (n - i) (s - 1))).cost
      match m with
      | none => some ⟨stWriteIcs, i, m1⟩
      | some c => if m1 ≤ c.cost then some ⟨stWriteIcs, i, m1⟩ else some c) none
    match m with
    | none => default    -- "Failed to determine total number of steps" (n = 2 cannot reach here)
    | some c =>
      let m1 := 1 + (get (n - 1) (clampS (n - 1) (s - 1))).cost
      if m1 < c.cost then ⟨stWriteAdjDeps, 1, m1⟩ else c

/-- the recursive function (specification) -/
def memoCell : Nat → Nat → Cell := fixDP memoF

/-- `mixed_step_memoization(n, s)` as seen through `cache_step`; `none` = ValueError -/
def memoSpec (n s : Nat) : Option Cell :=
  let s := clampS n s
  if validKey n s then some (memoCell n s) else none

/-- body of `optimal_extra_steps` (multistage.py:312-353) -/
def extraF (n s : Nat) (get : Nat → Nat → Nat) : Nat :=
  if n ≤ 1 then 0
  else if s = 1 then n * (n - 1) / 2
  else
    let m : Option Nat := (List.range' 1 (n - 1)).foldl (fun m i =>
      let m1 := i + get i (clampS i s) + get (n - i) (clampS (n - i) (s - 1))
      match m with
      | none => some m1
      | some c => if m1 < c then some m1 else some c) none
    m.getD 0

def extraCell : Nat → Nat → Nat := fixDP extraF

def extraSpec (n s : Nat) : Option Nat :=
  let s := clampS n s
  if validKey n s then some (extraCell n s) else none

/-- `optimal_steps_binomial(n, s)` -/
def optimalStepsBinomial (n s : Nat) : Option Nat := (extraSpec n s).map (n + ·)

/-- body of `optimal_steps_mixed` (mixed.py:226-245) -/
def optMixedF (n s : Nat) (get : Nat → Nat → Nat) : Nat :=
  if n ≤ s + 1 then n
  else if s = 1 then n * (n + 1) / 2 - 1
  else
    let m0 := 1 + get (n - 1) (clampS (n - 1) (s - 1))
    (List.range' 2 (n - 2)).foldl (fun m i =>
      min m (i + get i (clampS i s) + get (n - i) (clampS (n - i) (s - 1)))) m0

def optMixedCell : Nat → Nat → Nat := fixDP optMixedF

def optMixedSpec (n s : Nat) : Option Nat :=
  let s := clampS n s
  if validKey n s then some (optMixedCell n s) else none

/-! ## The tabulated planner (numba path), mirrored loop by loop -/

/-- a cell of `mixed_steps_tabulation`'s int64 array: `(type, steps, cost)` with cost `-1` unset -/
structure TCell where
  kind : Nat
  len : Nat
  cost : Int
deriving DecidableEq, Repr, Inhabited

def tNone : TCell := ⟨stNone, 0, -1⟩

/-- the table `schedule[n_i][s_i]`, shape `(n+1) × (s+1)`; `none` = RuntimeError / IndexError -/
def tabGet (t : Array (Array TCell)) (ni si : Nat) : TCell := (t.getD ni #[]).getD si tNone

def tabSet (t : Array (Array TCell)) (ni si : Nat) (c : TCell) : Array (Array TCell) :=
  t.modify ni (fun row => row.setIfInBounds si c)

/-- the innermost `for i in range(2, n_i)` loop and the final WRITE_ADJ_DEPS comparison -/
def tabCell (t : Array (Array TCell)) (ni si : Nat) : Option TCell :=
  let cur : TCell := (List.range' 2 (ni - 2)).foldl (fun cur i =>
    let m1 : Int := i + (tabGet t i si).cost + (tabGet t (ni - i) (si - 1)).cost
    if cur.cost < 0 ∨ m1 ≤ cur.cost then ⟨stWriteIcs, i, m1⟩ else cur) (tabGet t ni si)
  if cur.cost < 0 then none else
  let m1 : Int := 1 + (tabGet t (ni - 1) (si - 1)).cost
  some (if m1 < cur.cost then ⟨stWriteAdjDeps, 1, m1⟩ else cur)

/-- `mixed_steps_tabulation(n, s)` (mixed.py:285-337) -/
def mixedTab (n s : Nat) : Option (Array (Array TCell)) :=
  if n < 1 then none else
  let t0 : Array (Array TCell) := Array.replicate (n + 1) (Array.replicate (s + 1) tNone)
  let t1 := (List.range (s + 1)).foldl (fun t si => tabSet t 1 si ⟨stForwardReverse, 1, 1⟩) t0
  (List.range' 1 s).foldl (fun (ot : Option (Array (Array TCell))) si =>
    (List.range' 2 (n - 1)).foldl (fun (ot : Option (Array (Array TCell))) ni =>
      match ot with
      | none => none
      | some t =>
        if ni ≤ si + 1 then some (tabSet t ni si ⟨stWriteAdjDeps, 1, ni⟩)
        else if si = 1 then some (tabSet t ni si ⟨stWriteIcs, ni - 1, (ni * (ni + 1) / 2 - 1 : Nat)⟩)
        else match tabCell t ni si with
          | none => none
          | some c => some (tabSet t ni si c)) ot) (some t1)

/-! ## The stream -/

/-- A planner: `plan m k` = the cell for `m` steps and `k` units, `none` = the planner raises. -/
abbrev Planner := Nat → Nat → Option Cell

/-- Recursive, stream-level reading of `MixedCheckpointSchedule._iterator` (mixed.py:65-189):
reverse `[lo, hi)` with `k` free units; `reuse`: a restart checkpoint for `lo` is kept in a unit
(counted in `k`). -/
def mseg (N : Nat) (plan : Planner) (st : Storage) :
    (fuel : Nat) → (lo hi k : Nat) → (spine reuse : Bool) → Option (List Ev)
  | 0, _, _, _, _, _ => none
  | fuel+1, lo, hi, k, spine, reuse =>
    let m := hi - lo
    let r := N - hi
    match plan m k with
    | none => none
    | some c =>
      if c.kind = stForwardReverse then
        if m ≠ 1 ∨ c.len ≠ 1 ∨ reuse then none else
        some ([⟨.forward lo hi false true .work, hi, r⟩]
          ++ (if spine then [⟨.endForward, hi, r⟩] else [])
          ++ [⟨.reverse hi lo true, hi, r + 1⟩])
      else if c.kind = stWriteAdjDeps then
        if c.len ≠ 1 ∨ reuse ∨ k = 0 ∨ m < 2 then none else
        match mseg N plan st fuel (lo + 1) hi (k - 1) spine false with
        | none => none
        | some right =>
          some ([⟨.forward lo (lo + 1) false true st, lo + 1, r⟩] ++ right ++
            [⟨.move lo st .work, lo + 1, N - (lo + 1)⟩, ⟨.reverse (lo + 1) lo true, lo + 1, N - lo⟩])
      else if c.kind = stWriteIcs then
        let ln := c.len
        if ln < 2 ∨ m ≤ ln ∨ k = 0 then none else
        match mseg N plan st fuel (lo + ln) hi (k - 1) spine false with
        | none => none
        | some right =>
          match plan ln k with
          | none => none
          | some c2 =>
            let keep : Bool := c2.kind = stWriteIcs
            match mseg N plan st fuel lo (lo + ln) k false keep with
            | none => none
            | some left =>
              some ([if reuse then ⟨.forward lo (lo + ln) false false .work, lo + ln, r⟩
                     else ⟨.forward lo (lo + ln) true false st, lo + ln, r⟩]
                ++ right
                ++ [if keep then ⟨.copy lo st .work, lo, N - (lo + ln)⟩
                    else ⟨.move lo st .work, lo, N - (lo + ln)⟩]
                ++ left)
      else none

def mixedEvs (plan : Planner) (N s : Nat) (st : Storage) : Except Err (List Ev) :=
  match mseg N plan st N 0 N (min s (N - 1)) true false with
  | none => .error (.later "Invalid checkpointing state")
  | some evs => .ok (evs ++ [⟨.endReverse, 1, N⟩])

def mixedSched (plan : Planner) (N s : Nat) (st : Storage) : Except Err Sched :=
  if s < min 1 (N - 1) ∧ 1 ≤ N then .error (.construct "Invalid number of snapshots") else
  if ¬ (st = .ram ∨ st = .disk) then .error (.construct "Invalid storage") else
  if N < 1 then .error (.construct "max_n must be positive") else
  .ok (offlineSched N (mixedEvs plan N s st) (fun x => some (x = st)))

end Ckpt
