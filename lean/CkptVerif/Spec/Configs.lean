import CkptVerif.Spec.Exec
/-!
# What the properties demand of each schedule class

The specification side of each class: its budgets (C03), how many adjoint calculations it
permits (C09), whether it is online, and which constructor parameters are in the documented
domain (C17).  These are the `Cfg`s the monitor is run with and the theorems are stated for.
-/
namespace Ckpt

def ceilDiv (a b : Nat) : Nat := (a + b - 1) / b

/-- SingleMemoryStorageSchedule: nothing in RAM/DISK, all adjoint data in WORK, unlimited passes -/
def cfgSingleMemory (N : Nat) : Cfg :=
  { N := N, ram := some 0, disk := some 0, passes := none, keepsAllDeps := true, online := true }

/-- SingleDiskStorageSchedule: one DISK checkpoint per step; one pass iff `move_data` -/
def cfgSingleDisk (move : Bool) (N : Nat) : Cfg :=
  { N := N, ram := some 0, disk := some N, passes := if move then some 1 else none,
    keepsAllDeps := false, online := true }

/-- NoneCheckpointSchedule: no storage, no adjoint calculation -/
def cfgNone (N : Nat) : Cfg :=
  { N := N, ram := some 0, disk := some 0, passes := some 0, keepsAllDeps := false, online := true }

/-- TwoLevel: one DISK checkpoint per started period plus `b` units in the binomial storage -/
def cfgTwoLevel (p b : Nat) (st : Storage) (N : Nat) : Cfg :=
  { N := N,
    ram := if st = .ram then some b else some 0,
    disk := if st = .ram then some (ceilDiv N p) else some (ceilDiv N p + b),
    passes := none, keepsAllDeps := false, online := true }

def cfgMultistage (ram disk : Nat) (N : Nat) : Cfg :=
  { N := N, ram := some ram, disk := some disk, passes := some 1, keepsAllDeps := false, online := false }

/-- Mixed: only the chosen storage, at most `s` units -/
def cfgMixed (s : Nat) (st : Storage) (N : Nat) : Cfg :=
  { N := N, ram := if st = .ram then some s else some 0, disk := if st = .disk then some s else some 0,
    passes := some 1, keepsAllDeps := false, online := false }

/-- Revolve: RAM only -/
def cfgRevolve (cm : Nat) (N : Nat) : Cfg :=
  { N := N, ram := some cm, disk := some 0, passes := some 1, keepsAllDeps := false, online := false }

/-- DiskRevolve / PeriodicDiskRevolve: RAM bounded, DISK unbounded -/
def cfgDiskRevolve (cm : Nat) (N : Nat) : Cfg :=
  { N := N, ram := some cm, disk := none, passes := some 1, keepsAllDeps := false, online := false }

def cfgHRevolve (c0 c1 : Nat) (N : Nat) : Cfg :=
  { N := N, ram := some c0, disk := some c1, passes := some 1, keepsAllDeps := false, online := false }

/-! ## documented parameter domains (C17) -/

def validTwoLevel (p : Nat) (st : Storage) : Bool := decide (1 ≤ p) && (st = .ram || st = .disk)
def validMultistage (N ram disk : Nat) : Bool := decide (1 ≤ N) && (decide (N = 1) || decide (1 ≤ ram + disk))
def validMixed (N s : Nat) (st : Storage) : Bool :=
  decide (1 ≤ N) && decide (min 1 (N - 1) ≤ s) && (st = .ram || st = .disk)
/-- the Revolve family documents `snapshots_in_ram > 0` and positive step costs -/
def validRevolve (N cm uf ub : Nat) : Bool := decide (1 ≤ N) && decide (1 ≤ cm) && decide (0 < uf) && decide (0 < ub)

end Ckpt
