import CkptVerif.Spec.Exec
/-!
# Trace monitor

A trace is what the harness records around a real schedule object (or what the model emits):
the flags before the first `next()`, one observation per action, `uses_storage_type` snapshots,
and the behaviour after the end (`StopIteration`).  The monitor runs the executor over the
action lines and adds the checks that are about the lines in between (C09 flags before/after,
C11 `uses_storage_type`, C02 "nothing but StopIteration follows").
-/
namespace Ckpt

inductive Line
  | init (n r : Nat) (maxN : Option Nat) (exh run : Bool)
  | act (o : Obs)
  /-- `next()` raised StopIteration; flags after it -/
  | stop (n r : Nat) (maxN : Option Nat) (exh run : Bool)
  /-- `uses_storage_type` of RAM, DISK, WORK, NONE (`none` = the call raised) -/
  | uses (ram disk work none_ : Option Bool)
  /-- anything else: an exception other than StopIteration, or an action that is not well formed -/
  | bad (what : String)
deriving Repr, Inhabited

structure MonSt where
  x : XS
  idx : Nat
  stopped : Bool
  viols : List (Nat × Viol)
deriving Repr, Inhabited

def monStep (cfg : Cfg) (m : MonSt) : Line → MonSt
  | .init n r maxN exh run =>
    let vs := chk (decide (n = 0)) .C08 4 ++ chk (decide (r = 0)) .C08 5 ++
      chk (decide (maxN = if cfg.online then none else some cfg.N)) .C08 6 ++
      chk (!exh) .C09 3 ++ chk (!run) .C09 4
    { m with viols := m.viols ++ vs.map (fun v => (m.idx, v)) }
  | .act o =>
    let (x', vs) := step cfg m.x o
    let vs := vs ++ chk (!m.stopped) .C02 11
    { m with x := x', idx := m.idx + 1, viols := m.viols ++ vs.map (fun v => (m.idx, v)) }
  | .stop _ _ _ exh run =>
    let vs := chk (finished cfg m.x) .C02 12 ++ chk exh .C09 5 ++ chk run .C09 6
    { m with stopped := true, viols := m.viols ++ vs.map (fun v => (m.idx, v)) }
  | .uses _ _ _ _ => m
  | .bad _ => { m with idx := m.idx + 1, viols := m.viols ++ [(m.idx, ⟨.C18, 9⟩)] }

/-- C11: every `uses` line answers for all four members, and answers `true` for RAM/DISK when
some action of the trace touches that storage. -/
def c11Viols (ls : List Line) : List (Nat × Viol) :=
  let acts := ls.filterMap (fun l => match l with | .act o => some o.act | _ => none)
  let tr := acts.any (touches .ram)
  let td := acts.any (touches .disk)
  ls.foldl (fun acc l => match l with
    | .uses a b c d =>
      acc ++ (chk (a.isSome && b.isSome && c.isSome && d.isSome) .C11 1 ++
              chk (!tr || a == some true) .C11 2 ++
              chk (!td || b == some true) .C11 3).map (fun v => (0, v))
    | _ => acc) []

/-- Monitor a whole trace; `k` = number of adjoint calculations the driver asked for. -/
def monitor (cfg : Cfg) (k : Nat) (ls : List Line) : List (Nat × Viol) :=
  let m := ls.foldl (monStep cfg) { x := XS.init cfg, idx := 0, stopped := false, viols := [] }
  m.viols ++ (endViols cfg k m.x).map (fun v => (m.idx, v)) ++ c11Viols ls

end Ckpt
