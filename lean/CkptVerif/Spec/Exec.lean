import CkptVerif.Model.Basic
/-!
# The specification executor ("literal solver")

A total, checking executor that carries an action stream out literally (forward position,
adjoint position, working storage, RAM and DISK checkpoint sets) and records a *tagged*
violation whenever an action does not find what it needs.  The tags are property ids.

It is the same machine as the repository's own `tests/test_validity.py`, made total and made to
check all clauses of C01-C04, C08, C09, C12, C18.  All sets of the literal solver are intervals,
so intervals are what is stored.  Import-free, executable: the driver runs it on *real* streams.
-/
namespace Ckpt

inductive Tag | C01 | C02 | C03 | C04 | C08 | C09 | C11 | C12 | C18
deriving DecidableEq, Repr, Inhabited

/-- A violation: which property, and which numbered check of this file failed. -/
structure Viol where
  tag : Tag
  code : Nat
deriving DecidableEq, Repr, Inhabited

/-- A stored checkpoint: restart data for steps `[n, n+ics)` and/or adjoint dependency data for
`[n, n+deps)`, held in storage `st` under key `n`. -/
structure Cp where
  n : Nat
  st : Storage
  ics : Nat
  deps : Nat
deriving DecidableEq, Repr, Inhabited

/-- What the executor is told about the schedule it is checking (the *specification* side of
the class: budgets, how many adjoint calculations are permitted). -/
structure Cfg where
  /-- true number of forward steps (for online schedules: the finalisation point) -/
  N : Nat
  /-- RAM budget; `none` = unbounded -/
  ram : Option Nat
  /-- DISK budget; `none` = unbounded -/
  disk : Option Nat
  /-- number of permitted adjoint calculations; `none` = arbitrarily many -/
  passes : Option Nat
  /-- SingleMemory: adjoint data of all steps lives in working storage -/
  keepsAllDeps : Bool
  /-- `max_n` unknown until the driver finalises (which it does when the forward reaches `N`) -/
  online : Bool
deriving Repr, Inhabited

structure XS where
  /-- step at which the forward state held in WORK stands, if there is one -/
  fwd : Option Nat
  /-- steps reversed in the current adjoint calculation -/
  r : Nat
  /-- restart data loaded into WORK and not yet consumed by a Forward -/
  wIcs : Option (Nat × Nat)
  /-- adjoint dependency data held in WORK -/
  wDeps : Option (Nat × Nat)
  /-- all stored checkpoints, most recent first -/
  cps : List Cp
  /-- EndForward seen -/
  ended : Bool
  /-- `max_n` known -/
  fin : Bool
  /-- adjoint calculations completed -/
  done : Nat
  /-- storage at EndForward -/
  snap : List Cp
deriving Repr, Inhabited

def XS.init (cfg : Cfg) : XS :=
  { fwd := some 0, r := 0, wIcs := none, wDeps := none, cps := [], ended := false,
    fin := !cfg.online, done := 0, snap := [] }

def countSt (cps : List Cp) (s : Storage) : Nat := (cps.filter (fun c => c.st = s)).length

def findCp (cps : List Cp) (n : Nat) (s : Storage) : Option Cp :=
  cps.find? (fun c => c.n = n ∧ c.st = s)

def eraseCp (cps : List Cp) (n : Nat) (s : Storage) : List Cp :=
  cps.filter (fun c => ¬ (c.n = n ∧ c.st = s))

def withinOpt (b : Option Nat) (k : Nat) : Bool :=
  match b with | some m => k ≤ m | none => true

def withinBudget (cfg : Cfg) (cps : List Cp) : Bool :=
  withinOpt cfg.ram (countSt cps .ram) && withinOpt cfg.disk (countSt cps .disk)

/-- set equality of two duplicate-free checkpoint lists -/
def sameCps (a b : List Cp) : Bool :=
  a.length == b.length && a.all (fun c => b.contains c) && b.all (fun c => a.contains c)

/-- The stream has ended: no further action is permitted. -/
def finished (cfg : Cfg) (x : XS) : Bool :=
  match cfg.passes with
  | none => false
  | some 0 => x.ended
  | some k => decide (k ≤ x.done)

def chk (c : Bool) (t : Tag) (code : Nat) : List Viol := if c then [] else [⟨t, code⟩]

def covers (w : Option (Nat × Nat)) (lo hi : Nat) : Bool :=
  match w with | some (a, b) => decide (a ≤ lo ∧ hi ≤ b) | none => false

/-- clipped end of a Forward: an online schedule that has not been told `max_n` asks for more
steps than exist; the solver stops at `N` (and the driver then finalises). -/
def clip (cfg : Cfg) (x : XS) (n1 : Nat) : Nat := if x.fin then n1 else min n1 cfg.N

/-- State update (the "natural recovery" is the same update; violations are recorded apart). -/
def nextState (cfg : Cfg) (x : XS) : Action → XS
  | .forward n0 n1 wi wa st =>
    let n1c := clip cfg x n1
    let cps := if st.isStore
      then { n := n0, st := st, ics := if wi then n1c - n0 else 0, deps := if wa then n1c - n0 else 0 } :: x.cps
      else x.cps
    { x with fwd := some n1c,
             wIcs := if st = .work ∧ wi then some (n0, n1c) else none,
             wDeps := if st = .work ∧ wa then some (n0, n1c) else none,
             cps := cps,
             fin := x.fin || decide (cfg.N ≤ n1c) }
  | .reverse n1 n0 clear =>
    { x with r := x.r + (n1 - n0), wDeps := if clear then none else x.wDeps }
  | .copy n src dst =>
    match findCp x.cps n src with
    | none => x
    | some c =>
      let cps := if dst.isStore then { c with st := dst } :: x.cps else x.cps
      if dst = .work then
        { x with cps := cps,
                 fwd := if c.ics > 0 then some n else none,
                 wIcs := if c.ics > 0 then some (n, n + c.ics) else none,
                 wDeps := if c.deps > 0 then some (n, n + c.deps) else none }
      else { x with cps := cps }
  | .move n src dst =>
    match findCp x.cps n src with
    | none => x
    | some c =>
      let cps0 := eraseCp x.cps n src
      let cps := if dst.isStore then { c with st := dst } :: cps0 else cps0
      if dst = .work then
        { x with cps := cps,
                 fwd := if c.ics > 0 then some n else none,
                 wIcs := if c.ics > 0 then some (n, n + c.ics) else none,
                 wDeps := if c.deps > 0 then some (n, n + c.deps) else none }
      else { x with cps := cps }
  | .endForward => { x with ended := true, snap := x.cps }
  | .endReverse =>
    let done := x.done + 1
    let again := match cfg.passes with | none => true | some k => decide (done < k)
    { x with done := done, r := if again then 0 else x.r }

/-- The checks an action must pass in state `x` (before the update). -/
def actViols (cfg : Cfg) (x : XS) : Action → List Viol
  | .forward n0 n1 wi wa st =>
    let n1c := clip cfg x n1
    chk (decide (n0 < n1)) .C18 1 ++
    chk (!st.isStore || wi || wa) .C18 2 ++
    chk (!(st = .none) || (!wi && !wa)) .C18 3 ++
    chk (x.fwd = some n0) .C01 1 ++
    chk (!x.fin || decide (n1 ≤ cfg.N - x.r)) .C12 1 ++
    (if st.isStore then
      chk (!(wi && wa)) .C03 1 ++
      chk (!wa || decide (n1c = n0 + 1)) .C03 2 ++
      chk ((findCp x.cps n0 st).isNone) .C01 2 ++
      chk (withinBudget cfg ({ n := n0, st := st, ics := 0, deps := 0 } :: x.cps)) .C03 3
     else []) ++
    (if st = .work then
      chk (!wa || cfg.keepsAllDeps || decide (n1c = n0 + 1 ∧ n1c = cfg.N - x.r)) .C12 2
     else [])
  | .reverse n1 n0 _ =>
    chk (decide (n0 < n1)) .C18 4 ++
    chk x.ended .C02 1 ++
    chk (decide (n1 = cfg.N - x.r)) .C02 2 ++
    chk (covers x.wDeps n0 n1) .C01 3
  | .copy n src dst =>
    loadViols cfg x n src dst
  | .move n src dst =>
    loadViols cfg x n src dst
  | .endForward =>
    chk (!x.ended) .C02 4 ++
    chk (x.fwd = some cfg.N) .C02 5 ++
    chk (decide (x.r = 0)) .C02 6
  | .endReverse =>
    chk x.ended .C02 7 ++
    chk (decide (x.r = cfg.N)) .C02 8 ++
    (match cfg.passes with
     | none => chk (sameCps x.cps x.snap) .C04 1
     | some _ => chk (x.cps.isEmpty) .C04 2)
where
  loadViols (cfg : Cfg) (x : XS) (n : Nat) (src dst : Storage) : List Viol :=
    chk src.isStore .C18 5 ++
    chk x.ended .C02 3 ++
    (match findCp x.cps n src with
     | none => [⟨.C01, 4⟩]
     | some c =>
       chk (decide (c.ics > 0 ∨ c.deps > 0)) .C01 5 ++
       chk (decide (n < cfg.N - x.r)) .C01 6 ++
       (if c.ics > 0 then chk (decide (cfg.N - x.r ≤ n + c.ics)) .C01 7
        else chk (decide (n + 1 = cfg.N - x.r)) .C12 3) ++
       (if dst = .work then chk (x.wIcs.isNone && x.wDeps.isNone) .C12 4 else []) ++
       (if dst.isStore then
          chk ((findCp x.cps n dst).isNone) .C01 8 ++
          chk (withinBudget cfg ({ c with st := dst } :: x.cps)) .C03 4
        else []))

/-- What the object must report after the action (C08) and the exhaustion flags (C09);
`x'` is the state after the update. -/
def obsViols (cfg : Cfg) (x' : XS) (o : Obs) : List Viol :=
  chk (match x'.fwd with | some p => decide (o.n = p) | none => true) .C08 1 ++
  chk (decide (o.r = x'.r)) .C08 2 ++
  chk (decide (o.maxN = if x'.fin then some cfg.N else none)) .C08 3 ++
  chk (o.exhausted == finished cfg x') .C09 1 ++
  chk o.running .C09 2

def stepViols (cfg : Cfg) (x : XS) (o : Obs) : List Viol :=
  chk (!finished cfg x) .C02 9 ++ actViols cfg x o.act ++ obsViols cfg (nextState cfg x o.act) o

def step (cfg : Cfg) (x : XS) (o : Obs) : XS × List Viol :=
  (nextState cfg x o.act, stepViols cfg x o)

/-- Run a stream; violations come with the index of the action that caused them. -/
def runFrom (cfg : Cfg) : Nat → XS → List Obs → XS × List (Nat × Viol)
  | _, x, [] => (x, [])
  | i, x, o :: os =>
    let (x', vs) := step cfg x o
    let (xf, rest) := runFrom cfg (i+1) x' os
    (xf, vs.map (fun v => (i, v)) ++ rest)

def run (cfg : Cfg) (os : List Obs) : XS × List (Nat × Viol) := runFrom cfg 0 (XS.init cfg) os

/-- A complete stream has reached its end: all permitted calculations done (single-adjoint),
or the `k` requested ones (repeating schedules). -/
def endViols (cfg : Cfg) (k : Nat) (x : XS) : List Viol :=
  match cfg.passes with
  | none => chk (x.ended && decide (x.done = k) && decide (x.r = 0)) .C02 10
  | some _ => chk (finished cfg x) .C02 10

/-- Does the stream touch storage `s` (write a checkpoint to it, or copy/move from or to it)? -/
def touches (s : Storage) : Action → Bool
  | .forward _ _ _ _ st => st = s
  | .copy _ src dst => src = s || dst = s
  | .move _ src dst => src = s || dst = s
  | _ => false

end Ckpt
