import CkptVerif.Model.Revolve
import CkptVerif.Spec.Configs
import CkptVerif.Proofs.SegOk
import CkptVerif.Proofs.MultistageOk
import CkptVerif.Proofs.Argmin
import CkptVerif.Proofs.Period
/-!
# Revolve, DiskRevolve, PeriodicDiskRevolve: the model streams are accepted by the executor

For all `N ≥ 1`, `cm ≥ 1` and all cost parameters (for an arbitrary cost table, in fact), the
streams run through the specification executor without a violation of any tag and are complete.
-/
namespace Ckpt

/-! ## (a) Revolve's split function is admissible for `segWith_ok` -/

theorem revolveSplit_range (t : Array (Array Nat)) (uf m k : Nat) (hm : 2 ≤ m) (hk : 1 ≤ k) :
    ∃ a, revolveSplit t uf m k = some a ∧ 1 ≤ a ∧ a ≤ m - 1 := by
  unfold revolveSplit
  have hk0 : ¬ k = 0 := by omega
  simp only [hk0, if_false]
  by_cases h1 : m - 1 = 1 ∨ k = 1
  · rw [if_pos h1]; exact ⟨_, rfl, by omega, le_refl _⟩
  · rw [if_neg h1]
    refine ⟨_, rfl, ?_⟩
    have hne : (List.range' 1 (m - 1 - 1)).map (fun j =>
        some (j * uf + opt0Get t (k - 1) (m - 1 - j) + opt0Get t k (j - 1))) ≠ [] := by
      intro h
      have := congrArg List.length h
      simp at this
      omega
    have := argminO_range _ hne
    simp only [List.length_map, List.length_range'] at this
    omega

set_option linter.unusedVariables false in
theorem revolveSplit_one (t : Array (Array Nat)) (uf m : Nat) (hm : 2 ≤ m) :
    revolveSplit t uf m 1 = some (m - 1) := by
  simp [revolveSplit]

example : revolveSplit (opt0Table 9 3 1 1) 1 10 3 = some 4 := by decide

/-! ## counting labels -/

theorem countSt_append (a b : List Cp) (s : Storage) :
    countSt (a ++ b) s = countSt a s + countSt b s := by
  simp [countSt]

theorem countSt_labelled_ram : ∀ stack : List Cp, Labelled (fun _ => Storage.ram) stack →
    countSt stack .ram = stack.length ∧ countSt stack .disk = 0
  | [], _ => by simp [countSt]
  | c :: rest, h => by
    obtain ⟨hc, hrest⟩ := h
    obtain ⟨i1, i2⟩ := countSt_labelled_ram rest hrest
    simp only [countSt] at i1 i2 ⊢
    simp only [List.filter_cons, hc]
    simp [i1, i2]

theorem countSt_cons_disk_ram (n a b : Nat) (base : List Cp) :
    countSt (⟨n, .disk, a, b⟩ :: base) .ram = countSt base .ram := by
  simp [countSt]

/-- what the Revolve family needs of the executor configuration: RAM budget `cm ≥ 1` -/
structure RevHyp (cfg : Cfg) (N cm dn : Nat) : Prop where
  hN : cfg.N = N
  alive : Alive cfg dn
  ram : cfg.ram = some cm
  cm : 1 ≤ cm

theorem alive_one {cfg : Cfg} (hp : cfg.passes = some 1) : Alive cfg 0 :=
  ⟨by rw [hp]; simp, by intro k hk; rw [hp] at hk; injection hk with hk; omega⟩

theorem revHyp_revolve (cm N : Nat) (hcm : 1 ≤ cm) : RevHyp (cfgRevolve cm N) N cm 0 :=
  ⟨rfl, alive_one rfl, rfl, hcm⟩

theorem revHyp_disk (cm N : Nat) (hcm : 1 ≤ cm) : RevHyp (cfgDiskRevolve cm N) N cm 0 :=
  ⟨rfl, alive_one rfl, rfl, hcm⟩

/-! ## the memory-only segment `revSeg` -/

/-- Hoare triple for `revSeg` on `[lo, hi)`: forward state in WORK at `lo` (any working data),
adjoint at `hi`, other checkpoints `base` (none in RAM, keys outside the region, DISK budget
respected) ⟶ adjoint at `lo`, same `base`. Arbitrary cost table `t`. -/
theorem revSeg_ok {cfg : Cfg} {N cm dn : Nat} (H : RevHyp cfg N cm dn) (t : Array (Array Nat)) (uf : Nat)
    (base : List Cp) (hbr : countSt base .ram = 0)
    (hbd : withinOpt cfg.disk (countSt base .disk) = true)
    (spine : Bool) (lo hi : Nat) (sn : List Cp) (wi wd : Option (Nat × Nat))
    (hlt : lo < hi) (hhi : hi ≤ N) (hsp : spine = true → hi = N) (hout : Outside base lo hi) :
    ∃ evs sn', revSeg N t uf cm spine lo hi = some evs ∧ (spine = false → sn' = sn) ∧
      Clean cfg (X (some lo) (N - hi) wi wd base (!spine) dn sn) (evs.map (Ev.obs · N))
        (X (some (lo + 1)) (N - lo) none none base true dn sn') := by
  have HS : SegHyp cfg N (revolveSplit t uf) cm (fun _ => Storage.ram) base lo hi dn := {
    hN := H.hN
    alive := H.alive
    range := fun m k hm hk => revolveSplit_range t uf m k hm hk
    one := fun m hm => revolveSplit_one t uf m hm
    store := fun _ _ => rfl
    budget := by
      intro stack hl hlen
      obtain ⟨h1, h2⟩ := countSt_labelled_ram stack hl
      simp only [withinBudget, countSt_append, h1, h2, hbr, H.ram, Nat.zero_add, Nat.add_zero,
        Bool.and_eq_true]
      exact ⟨by simpa [withinOpt] using hlen, hbd⟩
    base := hout }
  obtain ⟨evs, sn', hseg, hsn, hclean⟩ := segWith_ok false HS (hi - lo + 1) false spine lo hi 0 [] 0
    (some lo) sn wi wd (by simp) (by omega) hlt hhi (le_refl _) (le_refl _)
    (fun h => ⟨hsp h, rfl⟩) (by simp) (by intro c hc; cases hc) trivial rfl
    (fun _ => by have := H.cm; omega) (fun _ => rfl) (by simp)
  refine ⟨evs, sn', hseg, hsn, ?_⟩
  simpa only [Bool.false_eq_true, if_false, false_and, List.nil_append] using hclean

/-! ## (b) Revolve -/

theorem revolve_clean (N cm : Nat) (c : Costs) (hN : 1 ≤ N) (hcm : 1 ≤ cm) :
    ∃ evs sn, revolveEvs N cm c = .ok (evs ++ [⟨.endReverse, 1, N⟩]) ∧
      Clean (cfgRevolve cm N) (XS.init (cfgRevolve cm N))
        (evs.map (Ev.obs · N) ++ [⟨.endReverse, 1, N, some N, true, true⟩])
        (X (some 1) N none none [] true 1 sn) := by
  obtain ⟨evs, sn', hseg, _, hclean⟩ := revSeg_ok (revHyp_revolve cm N hcm)
    (opt0Table (N - 1) cm c.uf c.ub) c.uf [] (by simp [countSt]) (by simp [countSt, cfgRevolve, withinOpt])
    true 0 N [] none none (by omega) (le_refl _) (fun _ => rfl) (by intro x hx; cases hx)
  refine ⟨evs, sn', ?_, ?_⟩
  · simp only [revolveEvs, hseg]
  · have hinit : XS.init (cfgRevolve cm N) = X (some 0) (N - N) none none [] (!true) 0 [] := by
      simp [XS.init, X, cfgRevolve]
    rw [hinit]
    refine Clean.append hclean ?_
    exact Clean.single (step_endReverse_final (cfgRevolve cm N) N 1 sn' rfl rfl)

/-! ## (c) DiskRevolve -/

theorem withinBudget_disk_cons {cfg : Cfg} {N cm dn : Nat} (H : RevHyp cfg N cm dn)
    (hd : cfg.disk = none) (n a : Nat) (base : List Cp) (hbr : countSt base .ram = 0) :
    withinBudget cfg (⟨n, .disk, a, 0⟩ :: base) = true := by
  simp [withinBudget, countSt_cons_disk_ram, hbr, H.ram, hd, withinOpt]

/-- `Forward lo (lo+a) true false .disk`: write a DISK checkpoint on top of `base` -/
theorem step_write_disk (cfg : Cfg) (N : Nat) (base : List Cp) (lo a r : Nat)
    (wi wd : Option (Nat × Nat)) (e : Bool) (dn : Nat) (sn : List Cp)
    (hN : cfg.N = N) (hal : Alive cfg dn) (h : lo + a ≤ N - r) (ha : 0 < a) (hb : Below base lo)
    (hB : withinBudget cfg (⟨lo, .disk, a, 0⟩ :: base) = true) :
    step cfg (X (some lo) r wi wd base e dn sn)
        (Ev.obs ⟨.forward lo (lo + a) true false .disk, lo + a, r⟩ N)
      = (X (some (lo + a)) r none none (⟨lo, .disk, a, 0⟩ :: base) e dn sn, []) :=
  step_write cfg N (fun _ => Storage.disk) 0 base lo (lo + 1) (some lo) lo a r wi wd [] e dn sn hN hal
    h ha rfl rfl (by intro c hc; cases hc) (fun c hc => Or.inl (hb c hc)) (le_refl _) (by omega) hB

/-- `Move lo .disk .work`: the DISK checkpoint on top of `base` is loaded and deleted -/
theorem step_move_disk (cfg : Cfg) (N : Nat) (base : List Cp) (f : Option Nat) (lo k r : Nat)
    (dn : Nat) (sn : List Cp) (hN : cfg.N = N) (hal : Alive cfg dn)
    (hk : 0 < k) (h : N - r ≤ lo + k) (hlo : lo < N - r) (hb : Below base lo) :
    step cfg (X f r none none (⟨lo, .disk, k, 0⟩ :: base) true dn sn)
        (Ev.obs ⟨.move lo .disk .work, lo, r⟩ N)
      = (X (some lo) r (some (lo, lo + k)) none base true dn sn, []) :=
  step_move cfg N base lo (lo + 1) f lo k r .disk [] dn sn hN hal rfl hk h hlo
    (by intro c hc; cases hc) (fun c hc => Or.inl (hb c hc)) (le_refl _) (by omega)

/-- Hoare triple for `diskSeg` on `[lo, hi)`: forward in WORK at `lo`, adjoint at `hi`, storage
`base` (no RAM checkpoint, keys `< lo`) ⟶ adjoint at `lo`, storage `base`. -/
theorem diskSeg_ok {cfg : Cfg} {N cm dn : Nat} (H : RevHyp cfg N cm dn) (hd : cfg.disk = none)
    (t0 : Array (Array Nat)) (tinf : Array Nat) (uf wr : Nat) :
    ∀ (fuel : Nat) (spine : Bool) (lo hi : Nat) (base : List Cp) (sn : List Cp)
      (wi wd : Option (Nat × Nat)),
      hi - lo ≤ fuel → lo < hi → hi ≤ N → (spine = true → hi = N) → Below base lo →
      countSt base .ram = 0 →
      ∃ evs sn', diskSeg N t0 tinf cm uf wr fuel spine lo hi = some evs ∧ (spine = false → sn' = sn) ∧
        Clean cfg (X (some lo) (N - hi) wi wd base (!spine) dn sn) (evs.map (Ev.obs · N))
          (X (some (lo + 1)) (N - lo) none none base true dn sn') := by
  intro fuel
  induction fuel with
  | zero => intro _ lo hi _ _ _ _ h1 h2; omega
  | succ fuel ih =>
    intro spine lo hi base sn wi wd hfuel hlt hhi hsp hbelow hbr
    have hbd : withinOpt cfg.disk (countSt base .disk) = true := by simp [hd, withinOpt]
    unfold diskSeg
    dsimp only
    split
    · rename_i hcond
      have hl2 : 2 ≤ hi - lo - 1 := hcond.1
      generalize hj : argminO _ = j
      have hjr : 1 ≤ j ∧ j ≤ hi - lo - 1 - 1 := by
        have hne : ((List.range' 1 (hi - lo - 1 - 1)).map (fun j =>
            wr + j * uf + tinf.getD (hi - lo - 1 - j) 0 + opt0Get t0 cm (j - 1))).map some ≠ [] := by
          intro h
          have := congrArg List.length h
          simp at this
          omega
        have := argminO_range _ hne
        rw [hj] at this
        simpa using this
      obtain ⟨hj1, hj2⟩ := hjr
      have hbelow' : Below (⟨lo, .disk, j, 0⟩ :: base) (lo + j) := hbelow.cons rfl (by omega)
      obtain ⟨right, sn1, hright, hsn1, hcr⟩ := ih spine (lo + j) hi (⟨lo, .disk, j, 0⟩ :: base) sn
        none none (by omega) (by omega) hhi hsp hbelow' (by rw [countSt_cons_disk_ram]; exact hbr)
      rw [hright]; dsimp only
      obtain ⟨left, sn2, hleft, hsn2, hcl⟩ := revSeg_ok H t0 uf base hbr hbd false lo (lo + j) sn1
        (some (lo, lo + j)) none (by omega) (by omega) (by simp) (fun c hc => Or.inl (hbelow c hc))
      rw [hleft]; dsimp only
      refine ⟨_, sn2, rfl, fun h => by rw [hsn2 rfl, hsn1 h], ?_⟩
      simp only [List.map_append, List.map_cons, List.map_nil]
      simp only [Bool.not_false] at hcl
      have s1 := step_write_disk cfg N base lo j (N - hi) wi wd (!spine) dn sn H.hN H.alive
        (by omega) (by omega) hbelow (withinBudget_disk_cons H hd lo j base hbr)
      have s3 := step_move_disk cfg N base (some (lo + j + 1)) lo j (N - (lo + j)) dn sn1 H.hN H.alive
        (by omega) (by omega) (by omega) hbelow
      exact Clean.append (Clean.append (Clean.append (Clean.single s1) hcr) (Clean.single s3)) hcl
    · exact revSeg_ok H t0 uf base hbr hbd spine lo hi sn wi wd hlt hhi hsp
        (fun c hc => Or.inl (hbelow c hc))

theorem diskRevolve_clean (N cm : Nat) (c : Costs) (hN : 1 ≤ N) (hcm : 1 ≤ cm) :
    ∃ evs sn, diskRevolveEvs N cm c = .ok (evs ++ [⟨.endReverse, 1, N⟩]) ∧
      Clean (cfgDiskRevolve cm N) (XS.init (cfgDiskRevolve cm N))
        (evs.map (Ev.obs · N) ++ [⟨.endReverse, 1, N, some N, true, true⟩])
        (X (some 1) N none none [] true 1 sn) := by
  obtain ⟨evs, sn', hseg, _, hclean⟩ := diskSeg_ok (revHyp_disk cm N hcm) rfl
    (opt0Table (N - 1) cm c.uf c.ub)
    (optInfTable (N - 1) cm c.uf c.ub (c.wd + c.rd) (opt0Table (N - 1) cm c.uf c.ub)) c.uf (c.wd + c.rd)
    (N + 1) true 0 N [] [] none none (by omega) (by omega) (le_refl _) (fun _ => rfl)
    (by intro x hx; cases hx) (by simp [countSt])
  refine ⟨evs, sn', ?_, ?_⟩
  · simp only [diskRevolveEvs, hseg]
  · have hinit : XS.init (cfgDiskRevolve cm N) = X (some 0) (N - N) none none [] (!true) 0 [] := by
      simp [XS.init, X, cfgDiskRevolve]
    rw [hinit]
    refine Clean.append hclean ?_
    exact Clean.single (step_endReverse_final (cfgDiskRevolve cm N) N 1 sn' rfl rfl)

/-! ## (d) PeriodicDiskRevolve -/

/-- the periodic DISK checkpoints at `0, mx, …, (q-1)·mx`, most recent first -/
def diskBase (mx : Nat) : Nat → List Cp
  | 0 => []
  | q + 1 => ⟨q * mx, .disk, mx, 0⟩ :: diskBase mx q

theorem diskBase_below (mx : Nat) (hmx : 1 ≤ mx) : ∀ q, Below (diskBase mx q) (q * mx)
  | 0 => by intro c hc; cases hc
  | q + 1 => by
    have := diskBase_below mx hmx q
    rw [Nat.succ_mul]
    exact this.cons rfl (by omega)

theorem diskBase_ram (mx : Nat) : ∀ q, countSt (diskBase mx q) .ram = 0
  | 0 => by simp [diskBase, countSt]
  | q + 1 => by
    simp only [diskBase, countSt_cons_disk_ram]
    exact diskBase_ram mx q

theorem diskBase_length (mx : Nat) : ∀ q, (diskBase mx q).length = q
  | 0 => rfl
  | q + 1 => by simp [diskBase, diskBase_length mx q]

/-- the initial sweep, started at `q·mx` with the `q` periodic checkpoints written -/
theorem sweep_ok {cfg : Cfg} {N cm dn : Nat} (H : RevHyp cfg N cm dn) (hd : cfg.disk = none)
    (mx : Nat) (hmx : 1 ≤ mx) (sn : List Cp) :
    ∀ (fuel q : Nat), N - 1 - q * mx + 1 ≤ fuel → q * mx < N →
      ∃ q', (periodicSweep (N - 1) mx fuel (q * mx)).2 = q' * mx ∧ q' * mx < N ∧
        N - 1 - q' * mx ≤ mx ∧ q ≤ q' ∧
        Clean cfg (X (some (q * mx)) 0 none none (diskBase mx q) false dn sn)
          ((periodicSweep (N - 1) mx fuel (q * mx)).1.map (Ev.obs · N))
          (X (some (q' * mx)) 0 none none (diskBase mx q') false dn sn) := by
  intro fuel
  induction fuel with
  | zero => intro q h; omega
  | succ fuel ih =>
    intro q hfuel hq
    unfold periodicSweep
    by_cases hc : N - 1 - q * mx > mx
    · rw [if_pos hc]
      obtain ⟨q', h1, h2, h3, h4, h5⟩ := ih (q + 1) (by rw [Nat.succ_mul]; omega)
        (by rw [Nat.succ_mul]; omega)
      rw [Nat.succ_mul] at h1 h5
      rcases hps : periodicSweep (N - 1) mx fuel (q * mx + mx) with ⟨rest, c'⟩
      rw [hps] at h1 h5
      dsimp only at h1 h5 ⊢
      refine ⟨q', h1, h2, h3, by omega, ?_⟩
      simp only [List.map_cons]
      refine Clean.cons (step_write_disk cfg N (diskBase mx q) (q * mx) mx 0 none none false dn sn
        H.hN H.alive (by omega) hmx (diskBase_below mx hmx q)
        (withinBudget_disk_cons H hd _ _ _ (diskBase_ram mx q))) ?_
      simpa only [diskBase] using h5
    · rw [if_neg hc]
      exact ⟨q, rfl, hq, by omega, le_refl _, Clean.nil _ _⟩

/-- the blocks `[b·mx, (b+1)·mx)` for `b = q-1, …, 0` -/
theorem blocks_ok {cfg : Cfg} {N cm dn : Nat} (H : RevHyp cfg N cm dn) (hd : cfg.disk = none)
    (t0 : Array (Array Nat)) (uf mx : Nat) (hmx : 1 ≤ mx) (sn : List Cp) :
    ∀ (q : Nat) (f : Option Nat), q * mx ≤ N → (q = 0 → f = some 1) →
      ∃ evs, periodicBlocks N t0 uf cm mx q = some evs ∧
        Clean cfg (X f (N - q * mx) none none (diskBase mx q) true dn sn) (evs.map (Ev.obs · N))
          (X (some 1) N none none [] true dn sn) := by
  intro q
  induction q with
  | zero =>
    intro f _ hf
    refine ⟨[], rfl, ?_⟩
    rw [hf rfl, Nat.zero_mul, Nat.sub_zero]
    exact Clean.nil _ _
  | succ b ih =>
    intro f hq _
    rw [Nat.succ_mul] at hq
    have hbelow := diskBase_below mx hmx b
    have hbr := diskBase_ram mx b
    have hbd : withinOpt cfg.disk (countSt (diskBase mx b) .disk) = true := by simp [hd, withinOpt]
    unfold periodicBlocks
    dsimp only
    obtain ⟨evs1, sn1, hseg, hsn1, hc1⟩ := revSeg_ok H t0 uf (diskBase mx b) hbr hbd false (b * mx)
      (b * mx + mx) sn (some (b * mx, b * mx + mx)) none (by omega) hq (by simp)
      (fun c hc => Or.inl (hbelow c hc))
    have hsn : sn1 = sn := hsn1 rfl
    subst hsn
    obtain ⟨rest, hrest, hc2⟩ := ih (some (b * mx + 1)) (by omega) (by intro h; subst h; simp)
    rw [hseg, hrest]
    refine ⟨_, rfl, ?_⟩
    simp only [List.map_append, List.map_cons, List.map_nil, Nat.succ_mul, diskBase]
    simp only [Bool.not_false] at hc1
    have s1 := step_move_disk cfg N (diskBase mx b) f (b * mx) mx (N - (b * mx + mx)) dn sn1 H.hN H.alive
      hmx (by omega) (by omega) hbelow
    have e : N - (N - (b * mx + mx)) = b * mx + mx := by omega
    exact Clean.append (Clean.append (Clean.single s1) hc1) hc2

theorem periodic_clean (N cm : Nat) (c : Costs) (hN : 1 ≤ N) (hcm : 1 ≤ cm) (huf : 0 < c.uf) :
    ∃ evs sn, periodicEvs N cm c = .ok (evs ++ [⟨.endReverse, 1, N⟩]) ∧
      Clean (cfgDiskRevolve cm N) (XS.init (cfgDiskRevolve cm N))
        (evs.map (Ev.obs · N) ++ [⟨.endReverse, 1, N, some N, true, true⟩])
        (X (some 1) N none none [] true 1 sn) := by
  obtain ⟨_, hmx⟩ := mxrr_spec cm c.uf (c.wd + c.rd) huf
  generalize hmxv : beta cm _ = mx at hmx
  have hmx1 : 1 ≤ mx := mxrr_pos _ _ _ _ hmx
  have H := revHyp_disk cm N hcm
  have hd : (cfgDiskRevolve cm N).disk = none := rfl
  obtain ⟨q, h1, h2, h3, _, hsweep⟩ := sweep_ok H hd mx hmx1 [] N 0 (by omega) (by omega)
  rw [Nat.zero_mul] at h1 hsweep
  rcases hps : periodicSweep (N - 1) mx N 0 with ⟨sweep, cur⟩
  rw [hps] at h1 hsweep
  dsimp only at h1 hsweep
  subst h1
  have hbd : withinOpt (cfgDiskRevolve cm N).disk (countSt (diskBase mx q) .disk) = true := rfl
  obtain ⟨mid, sn1, hmid, _, hcmid⟩ := revSeg_ok H (opt0Table (max (N - 1) (mx + 1)) cm c.uf c.ub) c.uf
    (diskBase mx q) (diskBase_ram mx q) hbd true (q * mx) N [] none none h2 (le_refl _) (fun _ => rfl)
    (fun x hx => Or.inl (diskBase_below mx hmx1 q x hx))
  obtain ⟨blocks, hblocks, hcb⟩ := blocks_ok H hd (opt0Table (max (N - 1) (mx + 1)) cm c.uf c.ub) c.uf
    mx hmx1 sn1 q (some (q * mx + 1)) (by omega) (by intro h; subst h; simp)
  have hdiv : q * mx / mx = q := Nat.mul_div_cancel _ (by omega)
  refine ⟨sweep ++ mid ++ blocks, sn1, ?_, ?_⟩
  · simp only [periodicEvs, hmx, hps, hmid, hdiv, hblocks]
  · have hinit : XS.init (cfgDiskRevolve cm N) = X (some 0) 0 none none (diskBase mx 0) false 0 [] := by
      simp [XS.init, X, cfgDiskRevolve, diskBase]
    rw [hinit, List.map_append, List.map_append]
    rw [Nat.sub_self] at hcmid
    simp only [Bool.not_true] at hcmid
    refine Clean.append (Clean.append (Clean.append hsweep hcmid) hcb) ?_
    exact Clean.single (step_endReverse_final (cfgDiskRevolve cm N) N 1 sn1 rfl rfl)

-- the hypotheses are satisfiable; concrete streams (N = 7 steps, 2 RAM units)
example : (match revolveEvs 7 2 ⟨1, 1, 2, 2⟩ with | .ok evs => evs.length | .error _ => 0) = 28 := by
  decide
-- DiskRevolve and PeriodicDiskRevolve with one RAM unit really use the disk (period `mx = 2`)
example : (match diskRevolveEvs 9 1 ⟨1, 1, 1, 1⟩ with
    | .ok evs => (evs.filter (fun e : Ev => touches .disk e.act)).length | .error _ => 0) ≠ 0 := by
  decide +kernel
example : mxrr 1 1 2 = some 2 ∧ (match periodicEvs 9 1 ⟨1, 1, 1, 1⟩ with
    | .ok evs => (evs.filter (fun e : Ev => touches .disk e.act)).length | .error _ => 0) ≠ 0 := by
  decide +kernel

end Ckpt
