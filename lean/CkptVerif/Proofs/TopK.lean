import CkptVerif.Model.Multistage
import Mathlib.Data.List.Perm.Basic
import Mathlib.Tactic
/-! The RAM/disk allocation of `allocate_snapshots`: `sortDesc` is a stable descending sort, and
labelling the first `a` positions of the sorted order RAM minimises the total weight left on
disk. -/
namespace Ckpt
open List

/-! ## (a) `sortDesc` is a stable descending sort -/

theorem insDesc_perm (x : Nat × Nat) (l : List (Nat × Nat)) : insDesc x l ~ x :: l := by
  induction l with
  | nil => exact Perm.refl _
  | cons y ys ih =>
    unfold insDesc
    split
    · exact (ih.cons y).trans (Perm.swap x y ys)
    · exact Perm.refl _

theorem sortDesc_nil : sortDesc [] = [] := rfl

theorem sortDesc_snoc (l : List (Nat × Nat)) (x : Nat × Nat) :
    sortDesc (l ++ [x]) = insDesc x (sortDesc l) := by
  simp [sortDesc, List.foldl_append]

/-- (a1) `sortDesc l` is a permutation of `l` -/
theorem sortDesc_perm (l : List (Nat × Nat)) : sortDesc l ~ l := by
  induction l using List.reverseRecOn with
  | nil => exact Perm.refl _
  | append_singleton l x ih =>
    rw [sortDesc_snoc]
    exact (insDesc_perm x _).trans ((ih.cons x).trans (perm_append_singleton x l).symm)

theorem mem_sortDesc {l : List (Nat × Nat)} {p : Nat × Nat} : p ∈ sortDesc l ↔ p ∈ l :=
  (sortDesc_perm l).mem_iff

theorem length_sortDesc (l : List (Nat × Nat)) : (sortDesc l).length = l.length :=
  (sortDesc_perm l).length_eq

/-- descending by weight, ties broken by the relation `R` -/
def DescLex (R : Nat × Nat → Nat × Nat → Prop) (x y : Nat × Nat) : Prop :=
  x.2 > y.2 ∨ (x.2 = y.2 ∧ R x y)

theorem DescLex.ge {R} {x y : Nat × Nat} (h : DescLex R x y) : x.2 ≥ y.2 := by
  rcases h with h | ⟨h, _⟩ <;> omega

theorem insDesc_pairwise (R : Nat × Nat → Nat × Nat → Prop) (x : Nat × Nat)
    (acc : List (Nat × Nat)) (hp : acc.Pairwise (DescLex R)) (hR : ∀ a ∈ acc, R a x) :
    (insDesc x acc).Pairwise (DescLex R) := by
  induction acc with
  | nil => simp [insDesc]
  | cons y ys ih =>
    obtain ⟨h1, h2⟩ := pairwise_cons.1 hp
    unfold insDesc
    split
    · rename_i hge
      refine pairwise_cons.2 ⟨?_, ih h2 (fun a ha => hR a (mem_cons_of_mem _ ha))⟩
      intro z hz
      rcases mem_cons.1 ((insDesc_perm x ys).mem_iff.1 hz) with rfl | hz
      · rcases Nat.lt_or_ge z.2 y.2 with h | h
        · exact Or.inl h
        · exact Or.inr ⟨by omega, hR y mem_cons_self⟩
      · exact h1 z hz
    · rename_i hlt
      refine pairwise_cons.2 ⟨?_, hp⟩
      intro z hz
      rcases mem_cons.1 hz with rfl | hz
      · exact Or.inl (by omega)
      · have := (h1 z hz).ge
        exact Or.inl (by omega)

/-- (a3) stability, relational form: whatever relation `R` holds between each earlier and each
later element of the input is kept between elements of equal weight in the output. -/
theorem sortDesc_pairwise_lex (R : Nat × Nat → Nat × Nat → Prop) (l : List (Nat × Nat))
    (h : l.Pairwise R) : (sortDesc l).Pairwise (DescLex R) := by
  induction l using List.reverseRecOn with
  | nil => exact Pairwise.nil
  | append_singleton l x ih =>
    rw [sortDesc_snoc]
    obtain ⟨h1, _, h3⟩ := pairwise_append.1 h
    exact insDesc_pairwise R x _ (ih h1)
      (fun a ha => h3 a (mem_sortDesc.1 ha) x (mem_singleton.2 rfl))

/-- (a2) `sortDesc l` is sorted by descending weight -/
theorem sortDesc_sorted (l : List (Nat × Nat)) :
    (sortDesc l).Pairwise (fun x y => x.2 ≥ y.2) :=
  (sortDesc_pairwise_lex (fun _ _ => True) l (pairwise_of_forall (fun _ _ => trivial))).imp
    (fun h => h.ge)

theorem insDesc_filter (x : Nat × Nat) (v : Nat) (acc : List (Nat × Nat))
    (hp : acc.Pairwise (fun x y => x.2 ≥ y.2)) :
    (insDesc x acc).filter (fun p => p.2 == v) =
      acc.filter (fun p => p.2 == v) ++ (if x.2 = v then [x] else []) := by
  induction acc with
  | nil => by_cases h : x.2 = v <;> simp [insDesc, h]
  | cons y ys ih =>
    obtain ⟨h1, h2⟩ := pairwise_cons.1 hp
    unfold insDesc
    split
    · rw [filter_cons, filter_cons, ih h2]
      by_cases hy : (y.2 == v) = true <;> simp [hy]
    · rename_i hlt
      by_cases hx : x.2 = v
      · have hnil : (y :: ys).filter (fun p => p.2 == v) = [] := by
          rw [filter_eq_nil_iff]
          intro z hz
          have : z.2 ≤ y.2 := by
            rcases mem_cons.1 hz with rfl | hz
            · exact le_refl _
            · exact h1 z hz
          simp only [beq_iff_eq]; omega
        rw [filter_cons, hnil]; simp [hx]
      · rw [filter_cons]; simp [hx]

/-- (a3) stability, filter form: for every weight `v` the elements of weight `v` appear in
`sortDesc l` in exactly the order in which they appear in `l`. -/
theorem sortDesc_stable (l : List (Nat × Nat)) (v : Nat) :
    (sortDesc l).filter (fun p => p.2 == v) = l.filter (fun p => p.2 == v) := by
  induction l using List.reverseRecOn with
  | nil => rfl
  | append_singleton l x ih =>
    rw [sortDesc_snoc, insDesc_filter x v _ (sortDesc_sorted l), ih, filter_append]
    by_cases hx : x.2 = v <;> simp [hx]

/-- the three facts of (a) together -/
theorem sortDesc_spec (l : List (Nat × Nat)) :
    sortDesc l ~ l ∧ (sortDesc l).Pairwise (fun x y => x.2 ≥ y.2) ∧
    ∀ v, (sortDesc l).filter (fun p => p.2 == v) = l.filter (fun p => p.2 == v) :=
  ⟨sortDesc_perm l, sortDesc_sorted l, sortDesc_stable l⟩

example : sortDesc [(0, 2), (1, 5), (2, 2), (3, 7), (4, 5)] = [(3, 7), (1, 5), (4, 5), (0, 2), (2, 2)] := by
  decide

/-! ## (b) top-`a` optimality -/

/-- the `(index, weight)` pairs that `allocate` sorts -/
def idxPairs (w : List Nat) : List (Nat × Nat) := w.zipIdx.map (fun p => (p.2, p.1))

/-- the stack positions labelled RAM when `a` RAM units are available -/
def ramIdx (w : List Nat) (a : Nat) : List Nat := ((sortDesc (idxPairs w)).take a).map (·.1)

theorem ramIdx_def (w : List Nat) (a : Nat) :
    ramIdx w a = ((sortDesc (w.zipIdx.map (fun p => (p.2, p.1)))).take a).map (·.1) := rfl

theorem idxPairs_map_fst (w : List Nat) : (idxPairs w).map (·.1) = List.range w.length := by
  unfold idxPairs
  rw [map_map]
  have : ((fun x : Nat × Nat => x.1) ∘ fun p : Nat × Nat => (p.2, p.1)) = Prod.snd := by
    funext p; rfl
  rw [this, zipIdx_map_snd, range_eq_range']

theorem idxPairs_map_snd (w : List Nat) : (idxPairs w).map (·.2) = w := by
  unfold idxPairs
  rw [map_map]
  have : ((fun x : Nat × Nat => x.2) ∘ fun p : Nat × Nat => (p.2, p.1)) = Prod.fst := by
    funext p; rfl
  rw [this, zipIdx_map_fst]

theorem mem_idxPairs {w : List Nat} {p : Nat × Nat} (h : p ∈ idxPairs w) :
    w[p.1]? = some p.2 := by
  unfold idxPairs at h
  obtain ⟨q, hq, rfl⟩ := mem_map.1 h
  exact mem_zipIdx_iff_getElem?.1 hq

theorem idxPairs_weight {w : List Nat} {p : Nat × Nat} (h : p ∈ idxPairs w) :
    w.getD p.1 0 = p.2 := by
  rw [getD_eq_getElem?_getD, mem_idxPairs h]; rfl

theorem length_idxPairs (w : List Nat) : (idxPairs w).length = w.length := by
  simp [idxPairs]

/-- the index components of the sorted pairs are a permutation of `0 … n-1` -/
theorem sortDesc_idx_perm (w : List Nat) :
    (sortDesc (idxPairs w)).map (·.1) ~ List.range w.length := by
  rw [← idxPairs_map_fst]; exact (sortDesc_perm _).map _

theorem sortDesc_weights_perm (w : List Nat) : (sortDesc (idxPairs w)).map (·.2) ~ w := by
  have := (sortDesc_perm (idxPairs w)).map (·.2)
  rwa [idxPairs_map_snd] at this

theorem ramIdx_eq_take (w : List Nat) (a : Nat) :
    ramIdx w a = ((sortDesc (idxPairs w)).map (·.1)).take a := by
  unfold ramIdx; rw [map_take]

theorem ramIdx_nodup (w : List Nat) (a : Nat) : (ramIdx w a).Nodup := by
  rw [ramIdx_eq_take]
  exact ((sortDesc_idx_perm w).nodup_iff.2 nodup_range).sublist (take_sublist _ _)

theorem ramIdx_length (w : List Nat) (a : Nat) : (ramIdx w a).length = min a w.length := by
  simp [ramIdx, length_sortDesc, length_idxPairs]

theorem ramIdx_lt (w : List Nat) (a : Nat) : ∀ i ∈ ramIdx w a, i < w.length := by
  intro i hi
  rw [ramIdx_eq_take] at hi
  have := (sortDesc_idx_perm w).mem_iff.1 (mem_of_mem_take hi)
  exact mem_range.1 this

/-- the weights of the chosen positions are the first `a` weights of the sorted order -/
theorem ramIdx_weights (w : List Nat) (a : Nat) :
    (ramIdx w a).map (fun i => w.getD i 0) = ((sortDesc (idxPairs w)).map (·.2)).take a := by
  unfold ramIdx
  rw [map_map, ← map_take]
  apply map_congr_left
  intro p hp
  exact idxPairs_weight (mem_sortDesc.1 (mem_of_mem_take hp))

/-- the sum of the first `a` elements of a descending list dominates any sublist of length ≤ a -/
theorem sum_le_sum_take_of_sublist : ∀ (D : List Nat), D.Pairwise (fun x y => x ≥ y) →
    ∀ (a : Nat) (M : List Nat), M <+ D → M.length ≤ a → M.sum ≤ (D.take a).sum
  | [], _, a, M, hs, _ => by
    have := eq_nil_of_sublist_nil hs
    subst this; simp
  | d :: ds, hp, a, M, hs, hl => by
    cases M with
    | nil => simp
    | cons m M' =>
      cases a with
      | zero => simp at hl
      | succ a' =>
        have hp' := pairwise_cons.1 hp
        have hm : m ≤ d ∧ M' <+ ds := by
          cases hs with
          | cons _ h =>
            exact ⟨hp'.1 m (h.subset mem_cons_self), (sublist_cons_self m M').trans h⟩
          | cons_cons _ h => exact ⟨le_refl _, h⟩
        have ih := sum_le_sum_take_of_sublist ds hp'.2 a' M' hm.2 (by simpa using hl)
        simp only [take_succ_cons, sum_cons]
        omega

/-- … and any sub-multiset of at most `a` elements -/
theorem sum_le_sum_take_of_subperm (D : List Nat) (hD : D.Pairwise (fun x y => x ≥ y)) (a : Nat)
    (M : List Nat) (hs : M <+~ D) (hl : M.length ≤ a) : M.sum ≤ (D.take a).sum := by
  obtain ⟨M', hperm, hsub⟩ := hs
  rw [← hperm.sum_nat]
  exact sum_le_sum_take_of_sublist D hD a M' hsub (by rw [hperm.length_eq]; exact hl)

theorem map_getD_range (w : List Nat) : (List.range w.length).map (fun i => w.getD i 0) = w := by
  apply ext_getElem (by simp)
  intro i h1 h2
  simp only [length_map, length_range] at h1
  simp [getD_eq_getElem?_getD, getElem?_eq_getElem h1]

theorem filter_contains_range_perm (n : Nat) (S : List Nat) (hS : S.Nodup)
    (hlt : ∀ i ∈ S, i < n) : (List.range n).filter (fun i => S.contains i) ~ S := by
  apply (perm_ext_iff_of_nodup (nodup_range.filter _) hS).2
  intro i
  simp only [mem_filter, mem_range, contains_iff_mem]
  exact ⟨fun h => h.2, fun h => ⟨hlt i h, h⟩⟩

/-- splitting the total weight into selected and unselected positions -/
theorem sum_split (w : List Nat) (S : List Nat) (hS : S.Nodup) (hlt : ∀ i ∈ S, i < w.length) :
    (((List.range w.length).filter (fun i => !S.contains i)).map (fun i => w.getD i 0)).sum
      + (S.map (fun i => w.getD i 0)).sum = w.sum := by
  have h1 := filter_contains_range_perm w.length S hS hlt
  have h2 := filter_append_perm (fun i => S.contains i) (List.range w.length)
  have h3 := (h2.map (fun i => w.getD i 0)).sum_nat
  rw [map_getD_range, map_append, sum_append, (h1.map _).sum_nat] at h3
  omega

/-- the selected weight of any admissible choice is at most that of `ramIdx` -/
theorem ramIdx_max_selected (w : List Nat) (a : Nat) (R : List Nat) (hR : R.Nodup)
    (hlen : R.length ≤ a) (hlt : ∀ i ∈ R, i < w.length) :
    (R.map (fun i => w.getD i 0)).sum ≤ ((ramIdx w a).map (fun i => w.getD i 0)).sum := by
  rw [ramIdx_weights]
  apply sum_le_sum_take_of_subperm _ ((pairwise_map).2 (sortDesc_sorted _)) a _ _ (by simpa using hlen)
  have hsub : R <+~ List.range w.length :=
    subperm_of_subset hR (fun i hi => mem_range.2 (hlt i hi))
  have h2 : R.map (fun i => w.getD i 0) <+~ w := by
    obtain ⟨R', hp, hs⟩ := hsub
    have : R'.map (fun i => w.getD i 0) <+ w := by
      have := hs.map (fun i => w.getD i 0)
      rwa [map_getD_range] at this
    exact ⟨_, hp.map _, this⟩
  exact h2.trans (sortDesc_weights_perm w).symm.subperm

/-- (b) Top-`a` optimality: `chosen` (the positions labelled RAM) is duplicate-free, has
`min a n` members, all in range, and leaves the least possible total weight on disk among all
choices of at most `a` positions. -/
theorem topk_optimal (w : List Nat) (a : Nat) :
    let chosen := ((sortDesc (w.zipIdx.map (fun p => (p.2, p.1)))).take a).map (·.1)
    chosen.Nodup ∧ chosen.length = min a w.length ∧ (∀ i ∈ chosen, i < w.length) ∧
    ∀ R : List Nat, R.Nodup → R.length ≤ a → (∀ i ∈ R, i < w.length) →
      (((List.range w.length).filter (fun i => !chosen.contains i)).map (fun i => w.getD i 0)).sum
        ≤ (((List.range w.length).filter (fun i => !R.contains i)).map (fun i => w.getD i 0)).sum := by
  intro chosen
  have hc : chosen = ramIdx w a := rfl
  rw [hc]
  refine ⟨ramIdx_nodup w a, ramIdx_length w a, ramIdx_lt w a, ?_⟩
  intro R hR hlen hlt
  have e1 := sum_split w (ramIdx w a) (ramIdx_nodup w a) (ramIdx_lt w a)
  have e2 := sum_split w R hR hlt
  have e3 := ramIdx_max_selected w a R hR hlen hlt
  omega

-- a concrete instance: weights [2,5,2,7,5], two RAM units: positions 3 and 1 (first of the 5s)
example : ramIdx [2, 5, 2, 7, 5] 2 = [3, 1] := by decide
example : ([0, 4] : List Nat).Nodup ∧ [0, 4].length ≤ 2 ∧ ∀ i ∈ [0, 4], i < [2, 5, 2, 7, 5].length := by
  decide

/-! ## (c) `allocate` -/

theorem dryRun_length (S : Nat) : ∀ (evs : List Ev) (top : Nat) (w : List Nat) (top' : Nat)
    (w' : List Nat), dryRun S evs top w = some (top', w') → w'.length = w.length
  | [], top, w, top', w', h => by
    simp only [dryRun, Option.some.injEq, Prod.mk.injEq] at h
    rw [← h.2]
  | e :: es, top, w, top', w', h => by
    simp only [dryRun] at h
    split at h <;> (try split at h) <;>
      first
        | (exact absurd h (by simp))
        | (have := dryRun_length S es _ _ _ _ h; simpa [length_modify] using this)

/-- the shape of a successful `allocate`: the weight vector has one entry per stack position and
the allocation labels exactly the positions of `ramIdx` RAM, all others DISK -/
theorem allocate_shape (N ram disk : Nat) (traj : Traj) (w : List Nat) (alloc : List Storage)
    (h : allocate N ram disk traj = some (w, alloc)) :
    w.length = min (min ram (N - 1) + min disk (N - 1)) (N - 1) ∧
    alloc = (List.range w.length).map (fun i =>
      if (ramIdx w (min ram (N - 1))).contains i then Storage.ram else Storage.disk) := by
  simp only [allocate] at h
  split at h
  · cases h
  · split at h
    · cases h
    · rename_i evs _ top w0 hdry
      split at h
      · cases h
      · simp only [Option.some.injEq, Prod.mk.injEq] at h
        obtain ⟨rfl, rfl⟩ := h
        have hl := dryRun_length _ _ _ _ _ _ hdry
        rw [length_replicate] at hl
        exact ⟨hl, by rw [hl]; rfl⟩

/-- (c) the allocation returned by `allocate_snapshots` -/
theorem allocate_spec (N ram disk : Nat) (traj : Traj) (w : List Nat) (alloc : List Storage)
    (h : allocate N ram disk traj = some (w, alloc)) :
    let chosen :=
      ((sortDesc (w.zipIdx.map (fun p => (p.2, p.1)))).take (min ram (N - 1))).map (·.1)
    alloc.length = w.length ∧
    alloc.count .ram = min (min ram (N - 1)) w.length ∧
    (∀ i, i < w.length → (alloc[i]? = some .ram ↔ i ∈ chosen)) ∧
    (∀ i, i < w.length → (alloc[i]? = some .disk ↔ i ∉ chosen)) := by
  intro chosen
  have hc : chosen = ramIdx w (min ram (N - 1)) := rfl
  obtain ⟨_, halloc⟩ := allocate_shape N ram disk traj w alloc h
  rw [hc]
  set c := ramIdx w (min ram (N - 1)) with hcdef
  refine ⟨by rw [halloc]; simp, ?_, ?_, ?_⟩
  · rw [halloc, count_eq_countP, countP_map, countP_eq_length_filter]
    have : ((fun x : Storage => x == Storage.ram) ∘ fun i =>
        if c.contains i then Storage.ram else Storage.disk) = fun i => c.contains i := by
      funext i
      by_cases hi : i ∈ c <;> simp [hi]
    rw [this, (filter_contains_range_perm w.length c (ramIdx_nodup _ _) (ramIdx_lt _ _)).length_eq,
      hcdef, ramIdx_length]
  · intro i hi
    rw [halloc, getElem?_map, getElem?_range hi]
    by_cases hm : i ∈ c <;> simp [hm]
  · intro i hi
    rw [halloc, getElem?_map, getElem?_range hi]
    by_cases hm : i ∈ c <;> simp [hm]

/-- at most the declared number of RAM units is used -/
theorem allocate_ram_le (N ram disk : Nat) (traj : Traj) (w : List Nat) (alloc : List Storage)
    (h : allocate N ram disk traj = some (w, alloc)) : alloc.count .ram ≤ ram := by
  have := (allocate_spec N ram disk traj w alloc h).2.1
  omega

/-- (b)+(c): the allocation computed by `allocate` minimises the total weight on disk -/
theorem allocate_optimal (N ram disk : Nat) (traj : Traj) (w : List Nat) (alloc : List Storage)
    (h : allocate N ram disk traj = some (w, alloc)) (R : List Nat) (hR : R.Nodup)
    (hlen : R.length ≤ min ram (N - 1)) (hlt : ∀ i ∈ R, i < w.length) :
    (((List.range w.length).filter (fun i => alloc.getD i .disk != .ram)).map
        (fun i => w.getD i 0)).sum
      ≤ (((List.range w.length).filter (fun i => !R.contains i)).map (fun i => w.getD i 0)).sum := by
  obtain ⟨_, halloc⟩ := allocate_shape N ram disk traj w alloc h
  have key := (topk_optimal w (min ram (N - 1))).2.2.2 R hR hlen hlt
  have hf : (List.range w.length).filter (fun i => alloc.getD i .disk != .ram)
      = (List.range w.length).filter (fun i => !(ramIdx w (min ram (N - 1))).contains i) := by
    apply filter_congr
    intro i hi
    have hi' := mem_range.1 hi
    rw [halloc, getD_eq_getElem?_getD, getElem?_map, getElem?_range hi']
    by_cases hm : i ∈ ramIdx w (min ram (N - 1)) <;> simp [hm]
  rw [hf]
  exact key

-- the hypothesis is satisfiable: 6 steps, 2 RAM + 2 disk units
example : allocate 6 2 2 .revolve =
    some ([2, 2, 2, 3], [Storage.ram, Storage.disk, Storage.disk, Storage.ram]) := by decide

end Ckpt
