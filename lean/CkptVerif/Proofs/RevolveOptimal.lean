import CkptVerif.Proofs.LowerBound
import CkptVerif.Proofs.RevolveCost
import CkptVerif.Proofs.RevolveSteps
import CkptVerif.Proofs.RevolveOk
/-!
# C07 for Revolve: the stream is cost-optimal among ALL executable schedules

`obsCost c os` is the cost of a stream of observations in the cost model of the Revolve family
(`Proofs/Cost.lean`): `uf` per forward step, `ub` per reversed step, `wd` per checkpoint written to
DISK by a `Forward`, `rd` per `Copy`/`Move` out of DISK.  It agrees with `RC.cost` on the
observations of an event list (`obsCost_map_obs`).

`C07_revolve_optimal`: for `N ≥ 1`, `cm ≥ 1`, `uf > 0` the stream of `Revolve(N, cm)` costs no more
than ANY stream that the checking executor accepts for `cfgRevolve cm N`, that completes the adjoint
calculation and whose storage units hold restart data only.  Nothing else is assumed of the
competing stream.

Ingredients: the lower bound on forward steps `GW.lowerBound` (`C05_full`), a count of the reversed
steps of a complete accepted run (`revSteps_eq`), `RC.revolve_cost` and `RC.opt0_eq_gwT`.
-/
namespace Ckpt.RC
open Ckpt.GW Ckpt.Mean

/-- cost of one action -/
def actCost (c : Costs) : Action → Nat
  | .forward n0 n1 _ _ st => (n1 - n0) * c.uf + (if st = .disk then c.wd else 0)
  | .reverse n1 n0 _ => (n1 - n0) * c.ub
  | .copy _ src _ => if src = .disk then c.rd else 0
  | .move _ src _ => if src = .disk then c.rd else 0
  | _ => 0

/-- cost of a stream of observations -/
def obsCost (c : Costs) (os : List Obs) : Nat := (os.map (fun o => actCost c o.act)).sum

theorem obsCost_nil (c : Costs) : obsCost c [] = 0 := rfl

theorem obsCost_cons (c : Costs) (o : Obs) (os : List Obs) :
    obsCost c (o :: os) = actCost c o.act + obsCost c os := by
  unfold obsCost; rw [List.map_cons, List.sum_cons]

theorem obsCost_append (c : Costs) (as bs : List Obs) :
    obsCost c (as ++ bs) = obsCost c as + obsCost c bs := by
  unfold obsCost; rw [List.map_append, List.sum_append]

theorem evCost_eq_actCost (c : Costs) (e : Ev) : evCost c e = actCost c e.act := by
  unfold evCost actCost
  cases e.act <;> rfl

/-- `obsCost` depends on the actions only, and is `RC.cost` on them -/
theorem obsCost_eq_cost (c : Costs) (evs : List Ev) (os : List Obs)
    (h : os.map (·.act) = evs.map (·.act)) : obsCost c os = cost c evs := by
  induction evs generalizing os with
  | nil =>
    rw [List.map_nil, List.map_eq_nil_iff] at h
    subst h; rfl
  | cons e es ih =>
    cases os with
    | nil => simp at h
    | cons o os =>
      simp only [List.map_cons, List.cons.injEq] at h
      rw [obsCost_cons, cost_cons, ih os h.2, evCost_eq_actCost, h.1]

/-- **agreement**: on the observations of an event list, `obsCost` is the stream cost `RC.cost` -/
theorem obsCost_map_obs (c : Costs) (evs : List Ev) (N : Nat) :
    obsCost c (evs.map (Ev.obs · N)) = cost c evs := by
  apply obsCost_eq_cost
  rw [List.map_map]
  rfl

/-! ## reversed steps -/

/-- steps reversed by one action -/
def actRev : Action → Nat
  | .reverse n1 n0 _ => n1 - n0
  | _ => 0

/-- total number of reversed steps of a stream of observations -/
def obsRevSteps (os : List Obs) : Nat := (os.map (fun o => actRev o.act)).sum

theorem obsRevSteps_cons (o : Obs) (os : List Obs) :
    obsRevSteps (o :: os) = actRev o.act + obsRevSteps os := by
  unfold obsRevSteps; rw [List.map_cons, List.sum_cons]

/-- with one permitted adjoint calculation the counter `r` only grows, by the reversed steps -/
theorem nextState_r {cfg : Cfg} (hp : cfg.passes = some 1) (x : XS) (a : Action) :
    (nextState cfg x a).r = x.r + actRev a := by
  cases a with
  | forward n0 n1 wi wa st => rfl
  | reverse n1 n0 cl => rfl
  | copy n src dst =>
    simp only [nextState, actRev]
    cases findCp x.cps n src with
    | none => rfl
    | some c => dsimp only; split <;> rfl
  | move n src dst =>
    simp only [nextState, actRev]
    cases findCp x.cps n src with
    | none => rfl
    | some c => dsimp only; split <;> rfl
  | endForward => rfl
  | endReverse =>
    simp only [nextState, hp, actRev]
    have : decide (x.done + 1 < 1) = false := by simp
    rw [this]
    rfl

/-- a clean run that ends finished reverses exactly the steps that were still to be reversed -/
theorem runFrom_revSteps {cfg : Cfg} {s : Nat} (H : CfgHyp cfg s) (os : List Obs) :
    ∀ (i : Nat) (x : XS), Inv cfg s x → (runFrom cfg i x os).2 = [] →
      finished cfg (runFrom cfg i x os).1 = true → (∀ o ∈ os, storesDeps o.act = false) →
      x.r + obsRevSteps os = cfg.N := by
  induction os with
  | nil =>
    intro i x hinv _ hfin _
    have hdone : 1 ≤ x.done := by
      have : finished cfg x = true := hfin
      unfold finished at this
      rw [H.passes] at this
      simpa using this
    have := hinv.done hdone
    show x.r + 0 = cfg.N
    omega
  | cons o os ih =>
    intro i x hinv hclean hfin hnd
    rw [runFrom_snd_cons, List.append_eq_nil_iff, List.map_eq_nil_iff] at hclean
    have hfin' : finished cfg (runFrom cfg (i + 1) (nextState cfg x o.act) os).1 = true := by
      rw [runFrom_fst_eq] at hfin ⊢
      exact hfin
    obtain ⟨hinv', _⟩ := step_pot H hinv o hclean.1 (hnd o (List.mem_cons_self ..))
    have := ih (i + 1) _ hinv' hclean.2 hfin' (fun o' ho' => hnd o' (List.mem_cons_of_mem _ ho'))
    rw [nextState_r H.passes] at this
    rw [obsRevSteps_cons]
    omega

/-- **every complete accepted stream reverses exactly `N` steps** -/
theorem revSteps_eq {cfg : Cfg} {s : Nat} (H : CfgHyp cfg s) (os : List Obs)
    (hclean : (run cfg os).2 = []) (hdone : finished cfg (run cfg os).1 = true)
    (hnd : ∀ o ∈ os, storesDeps o.act = false) : obsRevSteps os = cfg.N := by
  have := runFrom_revSteps H os 0 (XS.init cfg) (inv_init H) hclean hdone hnd
  have e : (XS.init cfg).r = 0 := rfl
  omega

/-- the cost of a stream is at least the price of its forward and reversed steps -/
theorem obsCost_ge (c : Costs) (os : List Obs) :
    c.uf * obsFwdSteps os + c.ub * obsRevSteps os ≤ obsCost c os := by
  induction os with
  | nil => exact le_refl _
  | cons o os ih =>
    rw [obsCost_cons, obsFwdSteps_cons, obsRevSteps_cons, Nat.mul_add, Nat.mul_add]
    have : c.uf * actFwd o.act + c.ub * actRev o.act ≤ actCost c o.act := by
      cases o.act <;> simp [actFwd, actRev, actCost, Nat.mul_comm]
    omega

/-- **cost lower bound** for a budget of `s` units split in any way between RAM and disk: any
complete accepted stream (restart data only) costs at least `uf·(N + E(N, min(s, N-1))) + ub·N` -/
theorem cost_lowerBound {cfg : Cfg} {s : Nat} (H : CfgHyp cfg s) (hN : 1 ≤ cfg.N) (c : Costs)
    (os : List Obs) (hclean : (run cfg os).2 = []) (hdone : finished cfg (run cfg os).1 = true)
    (hnd : ∀ o ∈ os, storesDeps o.act = false) :
    c.uf * (cfg.N + extraCell cfg.N (clampS cfg.N s)) + c.ub * cfg.N ≤ obsCost c os := by
  have h1 := lowerBound H hN os hclean hdone hnd
  have h2 := revSteps_eq H os hclean hdone hnd
  have h3 := obsCost_ge c os
  rw [h2] at h3
  have := Nat.mul_le_mul_left c.uf h1
  omega

theorem cfgHyp_revolve (cm N : Nat) : CfgHyp (cfgRevolve cm N) cm :=
  ⟨⟨cm, 0, rfl, rfl, rfl⟩, rfl, rfl, rfl⟩

/-- the cost of the Revolve stream in closed form: `uf·(N + E(N, min(cm, N-1))) + ub·N` -/
theorem revolve_cost_closed (N cm : Nat) (c : Costs) (hN : 1 ≤ N) (hcm : 1 ≤ cm) (evs : List Ev)
    (h : revolveEvs N cm c = .ok evs) :
    cost c evs = c.uf * (N + extraCell N (clampS N cm)) + c.ub * N := by
  rw [revolve_cost N cm c hN evs h]
  have := opt0_eq_gwT (N - 1) cm c.uf c.ub (N - 1) cm (le_refl _) hcm (le_refl _)
  have e : N - 1 + 1 = N := by omega
  rw [e] at this
  unfold gwT at this
  rw [this, Nat.mul_comm N c.ub]
  omega

/-- **C07 for Revolve, complete.**  For `N ≥ 1` steps, `cm ≥ 1` RAM units and any cost vector with
`uf > 0`: the stream of `Revolve` costs no more than ANY stream of observations that the checking
executor accepts for the configuration `cfgRevolve cm N` (offline, `cm` RAM units, no disk, one
adjoint calculation), that completes the adjoint calculation and that writes restart data only into
the storage units. -/
theorem C07_revolve_optimal (N cm : Nat) (c : Costs) (hN : 1 ≤ N) (hcm : 1 ≤ cm) (huf : 0 < c.uf)
    (evs : List Ev) (h : revolveEvs N cm c = .ok evs) (os : List Obs)
    (hclean : (run (cfgRevolve cm N) os).2 = [])
    (hdone : finished (cfgRevolve cm N) (run (cfgRevolve cm N) os).1 = true)
    (hnd : ∀ o ∈ os, storesDeps o.act = false) :
    cost c evs ≤ obsCost c os := by
  have _ := huf
  rw [revolve_cost_closed N cm c hN hcm evs h]
  exact cost_lowerBound (cfgHyp_revolve cm N) hN c os hclean hdone hnd

/-- the same as a statement about the table: `opt0[cm][N-1] + N·uf` is a lower bound for the cost of
every complete accepted stream -/
theorem C07_opt0_lowerBound (N cm : Nat) (c : Costs) (hN : 1 ≤ N) (hcm : 1 ≤ cm) (os : List Obs)
    (hclean : (run (cfgRevolve cm N) os).2 = [])
    (hdone : finished (cfgRevolve cm N) (run (cfgRevolve cm N) os).1 = true)
    (hnd : ∀ o ∈ os, storesDeps o.act = false) :
    opt0Get (opt0Table (N - 1) cm c.uf c.ub) cm (N - 1) + N * c.uf ≤ obsCost c os := by
  have := opt0_eq_gwT (N - 1) cm c.uf c.ub (N - 1) cm (le_refl _) hcm (le_refl _)
  have e : N - 1 + 1 = N := by omega
  rw [e] at this
  unfold gwT at this
  have h := cost_lowerBound (cfgHyp_revolve cm N) hN c os hclean hdone hnd
  have e2 : (cfgRevolve cm N).N = N := rfl
  rw [e2] at h
  rw [this, Nat.mul_comm N c.ub]
  omega

/-- the bound is attained by an accepted stream: the observations of the Revolve stream are accepted,
complete, hold restart data only, and their `obsCost` is the stream cost -/
theorem revolve_obs_attains (N cm : Nat) (c : Costs) (hN : 1 ≤ N) (hcm : 1 ≤ cm) :
    ∃ evs os, revolveEvs N cm c = .ok evs ∧ os.map (·.act) = evs.map (·.act) ∧
      (run (cfgRevolve cm N) os).2 = [] ∧
      finished (cfgRevolve cm N) (run (cfgRevolve cm N) os).1 = true ∧
      (∀ o ∈ os, storesDeps o.act = false) ∧ obsCost c os = cost c evs := by
  obtain ⟨evs, sn, hevs, hclean⟩ := revolve_clean N cm c hN hcm
  have hseg : revSeg N (opt0Table (N - 1) cm c.uf c.ub) c.uf cm true 0 N = some evs := by
    unfold revolveEvs at hevs
    dsimp only at hevs
    split at hevs
    · cases hevs
    · rename_i seg hseg
      injection hevs with hevs
      rw [hseg, List.append_cancel_right hevs]
  have hacts : (evs.map (Ev.obs · N) ++ [(⟨.endReverse, 1, N, some N, true, true⟩ : Obs)]).map (·.act)
      = (evs ++ [(⟨.endReverse, 1, N⟩ : Ev)]).map (·.act) := by
    rw [List.map_append, List.map_append, List.map_map]
    rfl
  refine ⟨_, _, hevs, hacts, hclean.run_viols, ?_, ?_, obsCost_eq_cost c _ _ hacts⟩
  · rw [hclean.run_state]; rfl
  · intro o ho
    rcases List.mem_append.mp ho with ho | ho
    · obtain ⟨e, he, rfl⟩ := List.mem_map.mp ho
      unfold revSeg at hseg
      exact segWith_noStoresDeps _ _ _ _ _ _ _ _ _ _ _ _ hseg e he
    · rw [List.mem_singleton] at ho; subst ho; rfl

end Ckpt.RC

namespace Ckpt
alias C07_revolve_optimal := RC.C07_revolve_optimal
alias C07_opt0_lowerBound := RC.C07_opt0_lowerBound
end Ckpt

#print axioms Ckpt.RC.C07_revolve_optimal
#print axioms Ckpt.RC.C07_opt0_lowerBound
#print axioms Ckpt.RC.revolve_obs_attains
#print axioms Ckpt.RC.obsCost_map_obs
#print axioms Ckpt.RC.revSteps_eq
