import CkptVerif.Proofs.MixedOk
import CkptVerif.Proofs.RevolveOk
import CkptVerif.Proofs.OfflineGlue
import CkptVerif.Proofs.SegLabels
/-!
# End-to-end monitor theorems for the offline classes Mixed, Revolve, DiskRevolve, PeriodicDiskRevolve
-/
namespace Ckpt

/-! ## (a) Mixed -/

/-- an event of a Mixed segment: not `EndReverse`, and it names no storage but `st` and WORK -/
def MixEvOk (st : Storage) (e : Ev) : Prop :=
  e.act ≠ .endReverse ∧ ∀ x, touches x e.act = true → x = st ∨ x = .work

theorem ok_forward_work (st : Storage) (a b : Nat) (wi wa : Bool) (n r : Nat) :
    MixEvOk st ⟨.forward a b wi wa .work, n, r⟩ :=
  ⟨by simp, by intro x hx; simp [touches] at hx; exact .inr hx.symm⟩

theorem ok_forward_st (st : Storage) (a b : Nat) (wi wa : Bool) (n r : Nat) :
    MixEvOk st ⟨.forward a b wi wa st, n, r⟩ :=
  ⟨by simp, by intro x hx; simp [touches] at hx; exact .inl hx.symm⟩

theorem ok_endForward (st : Storage) (n r : Nat) : MixEvOk st ⟨.endForward, n, r⟩ :=
  ⟨by simp, by intro x hx; simp [touches] at hx⟩

theorem ok_reverse (st : Storage) (a b : Nat) (c : Bool) (n r : Nat) :
    MixEvOk st ⟨.reverse a b c, n, r⟩ :=
  ⟨by simp, by intro x hx; simp [touches] at hx⟩

theorem ok_move (st : Storage) (a n r : Nat) : MixEvOk st ⟨.move a st .work, n, r⟩ :=
  ⟨by simp, by
    intro x hx; simp [touches] at hx
    rcases hx with h | h
    · exact .inl h.symm
    · exact .inr h.symm⟩

theorem ok_copy (st : Storage) (a n r : Nat) : MixEvOk st ⟨.copy a st .work, n, r⟩ :=
  ⟨by simp, by
    intro x hx; simp [touches] at hx
    rcases hx with h | h
    · exact .inl h.symm
    · exact .inr h.symm⟩

theorem mseg_evOk (N : Nat) (plan : Planner) (st : Storage) :
    ∀ (fuel lo hi k : Nat) (spine reuse : Bool) (evs : List Ev),
      mseg N plan st fuel lo hi k spine reuse = some evs → ∀ e ∈ evs, MixEvOk st e := by
  intro fuel
  induction fuel with
  | zero => intro lo hi k spine reuse evs h; simp [mseg] at h
  | succ fuel ih =>
    intro lo hi k spine reuse evs h
    rw [mseg] at h
    simp only at h
    cases hp : plan (hi - lo) k with
    | none => rw [hp] at h; cases h
    | some c =>
      rw [hp] at h
      simp only at h
      by_cases h1 : c.kind = stForwardReverse
      · rw [if_pos h1] at h
        split at h
        · cases h
        · simp only [Option.some.injEq] at h
          subst h
          intro e he
          simp only [List.mem_append, List.mem_singleton] at he
          rcases he with (he | he) | he
          · rw [he]; exact ok_forward_work _ _ _ _ _ _ _
          · cases spine
            · simp at he
            · simp at he; rw [he]; exact ok_endForward _ _ _
          · rw [he]; exact ok_reverse _ _ _ _ _ _
      · rw [if_neg h1] at h
        by_cases h2 : c.kind = stWriteAdjDeps
        · rw [if_pos h2] at h
          split at h
          · cases h
          · cases hr : mseg N plan st fuel (lo + 1) hi (k - 1) spine false with
            | none => rw [hr] at h; cases h
            | some right =>
              rw [hr] at h
              simp only [Option.some.injEq] at h
              subst h
              intro e he
              simp only [List.mem_append, List.mem_cons, List.not_mem_nil, or_false] at he
              rcases he with (he | he) | (he | he)
              · rw [he]; exact ok_forward_st _ _ _ _ _ _ _
              · exact ih _ _ _ _ _ _ hr e he
              · rw [he]; exact ok_move _ _ _ _
              · rw [he]; exact ok_reverse _ _ _ _ _ _
        · rw [if_neg h2] at h
          by_cases h3 : c.kind = stWriteIcs
          · rw [if_pos h3] at h
            split at h
            · cases h
            · cases hr : mseg N plan st fuel (lo + c.len) hi (k - 1) spine false with
              | none => rw [hr] at h; cases h
              | some right =>
                rw [hr] at h
                simp only at h
                cases hp2 : plan c.len k with
                | none => rw [hp2] at h; cases h
                | some c2 =>
                  rw [hp2] at h
                  simp only at h
                  cases hl : mseg N plan st fuel lo (lo + c.len) k false
                      (decide (c2.kind = stWriteIcs)) with
                  | none => rw [hl] at h; cases h
                  | some left =>
                    rw [hl] at h
                    simp only [Option.some.injEq] at h
                    subst h
                    intro e he
                    simp only [List.mem_append, List.mem_singleton] at he
                    rcases he with ((he | he) | he) | he
                    · rw [he]; split
                      · exact ok_forward_work _ _ _ _ _ _ _
                      · exact ok_forward_st _ _ _ _ _ _ _
                    · exact ih _ _ _ _ _ _ hr e he
                    · rw [he]; split
                      · exact ok_copy _ _ _ _
                      · exact ok_move _ _ _ _
                    · exact ih _ _ _ _ _ _ hl e he
          · rw [if_neg h3] at h; cases h

/-- **(a) Mixed end to end.** -/
theorem mixed_monitor_clean (N s : Nat) (st : Storage) (hv : validMixed N s st = true) :
    ∃ sch evs, mixedSched memoPlan N s st = .ok sch ∧ mixedEvs memoPlan N s st = .ok evs ∧
      ∀ k fuel, evs.length + 4 ≤ fuel →
        monitor (cfgMixed s st N) k (sch.canon N k fuel) = [] := by
  simp only [validMixed, Bool.and_eq_true, Bool.or_eq_true, decide_eq_true_eq] at hv
  obtain ⟨⟨hN, hs⟩, hst⟩ := hv
  obtain ⟨evs, sn, f, hevs, _, hclean⟩ := mixed_clean N s st hst hN hs
  have hsch : mixedSched memoPlan N s st =
      .ok (offlineSched N (mixedEvs memoPlan N s st) (fun x => some (x = st))) := by
    unfold mixedSched
    rw [if_neg (by omega), if_neg (not_not.mpr hst), if_neg (by omega)]
  have hseg : mseg N memoPlan st N 0 N (min s (N - 1)) true false = some evs := by
    unfold mixedEvs at hevs
    cases hm : mseg N memoPlan st N 0 N (min s (N - 1)) true false with
    | none => rw [hm] at hevs; cases hevs
    | some evs' =>
      rw [hm] at hevs
      simp only [Except.ok.injEq] at hevs
      rw [List.append_cancel_right hevs]
  have hok := mseg_evOk N memoPlan st N 0 N (min s (N - 1)) true false evs hseg
  have hnw : st ≠ .work := by rcases hst with rfl | rfl <;> simp
  refine ⟨_, _, hsch, hevs, ?_⟩
  intro k fuel hfuel
  rw [hevs]
  apply offline_end_to_end (cfgMixed s st N) N k fuel evs 1 _ _ rfl rfl rfl
    (by rw [List.length_append, List.length_singleton] at hfuel; omega)
    (fun e he => (hok e he).1) hclean
  · intro x; rfl
  · rintro ⟨e, he, ht⟩
    rcases (hok e he).2 _ ht with h | h
    · simp [← h]
    · cases h
  · rintro ⟨e, he, ht⟩
    rcases (hok e he).2 _ ht with h | h
    · simp [← h]
    · cases h

example : validMixed 9 2 .disk = true := by decide

/-! ## (b) the Revolve family -/

theorem revSeg_no_endReverse {N : Nat} {t : Array (Array Nat)} {uf cm : Nat} {spine : Bool}
    {lo hi : Nat} {evs : List Ev} (h : revSeg N t uf cm spine lo hi = some evs) :
    ∀ e ∈ evs, e.act ≠ .endReverse :=
  segWith_no_endReverse (by unfold revSeg at h; exact h)

/-- a Revolve segment names RAM and WORK only -/
theorem revSeg_touches {N : Nat} {t : Array (Array Nat)} {uf cm : Nat} {spine : Bool}
    {lo hi : Nat} {evs : List Ev} (h : revSeg N t uf cm spine lo hi = some evs)
    (e : Ev) (he : e ∈ evs) (st : Storage) (ht : touches st e.act = true) :
    st = .work ∨ st = .ram := by
  unfold revSeg at h
  rcases segWith_touches' h e he st ht with h' | ⟨_, _, h'⟩
  · exact .inl h'
  · exact .inr h'.symm

theorem revUses_isSome (ram : Nat) (disk : Option Nat) (st : Storage) :
    (revUses ram disk st).isSome = true := by
  cases st <;> rfl

/-- **Revolve end to end.** -/
theorem revolve_monitor_clean (N cm : Nat) (c : Costs)
    (hv : validRevolve N cm c.uf c.ub = true) :
    ∃ sch evs, revolveSched N cm c = .ok sch ∧ revolveEvs N cm c = .ok evs ∧
      ∀ k fuel, evs.length + 4 ≤ fuel →
        monitor (cfgRevolve cm N) k (sch.canon N k fuel) = [] := by
  simp only [validRevolve, Bool.and_eq_true, decide_eq_true_eq] at hv
  obtain ⟨⟨⟨hN, hcm⟩, _⟩, _⟩ := hv
  obtain ⟨evs, sn, hevs, hclean⟩ := revolve_clean N cm c hN hcm
  have hsch : revolveSched N cm c =
      .ok (offlineSched N (revolveEvs N cm c) (revUses cm (some 0))) := by
    unfold revolveSched; rw [if_neg (by omega)]
  have hseg : revSeg N (opt0Table (N - 1) cm c.uf c.ub) c.uf cm true 0 N = some evs := by
    unfold revolveEvs at hevs
    simp only at hevs
    cases hm : revSeg N (opt0Table (N - 1) cm c.uf c.ub) c.uf cm true 0 N with
    | none => rw [hm] at hevs; cases hevs
    | some evs' =>
      rw [hm] at hevs
      simp only [Except.ok.injEq] at hevs
      rw [List.append_cancel_right hevs]
  refine ⟨_, _, hsch, hevs, ?_⟩
  intro k fuel hfuel
  rw [hevs]
  apply offline_end_to_end (cfgRevolve cm N) N k fuel evs 1 _ _ rfl rfl rfl
    (by rw [List.length_append, List.length_singleton] at hfuel; omega)
    (revSeg_no_endReverse hseg) hclean (revUses_isSome _ _)
  · intro _
    have : decide (cm > 0) = true := decide_eq_true (by omega)
    simp only [revUses, this]
  · rintro ⟨e, he, ht⟩
    rcases revSeg_touches hseg e he _ ht with h | h <;> cases h

theorem diskSeg_no_endReverse (N : Nat) (t0 : Array (Array Nat)) (tinf : Array Nat)
    (cm uf wr : Nat) : ∀ (fuel : Nat) (spine : Bool) (lo hi : Nat) (evs : List Ev),
      diskSeg N t0 tinf cm uf wr fuel spine lo hi = some evs → ∀ e ∈ evs, e.act ≠ .endReverse := by
  intro fuel
  induction fuel with
  | zero => intro spine lo hi evs h; simp [diskSeg] at h
  | succ fuel ih =>
    intro spine lo hi evs h
    rw [diskSeg] at h
    simp only at h
    split at h
    · split at h
      · cases h
      · rename_i right hr
        split at h
        · cases h
        · rename_i left hl
          simp only [Option.some.injEq] at h
          subst h
          intro e he
          simp only [List.mem_append, List.mem_singleton] at he
          rcases he with ((he | he) | he) | he
          · rw [he]; simp
          · exact ih _ _ _ _ hr e he
          · rw [he]; simp
          · exact revSeg_no_endReverse hl e he
    · exact revSeg_no_endReverse h

/-- **DiskRevolve end to end.** -/
theorem diskRevolve_monitor_clean (N cm : Nat) (c : Costs)
    (hv : validRevolve N cm c.uf c.ub = true) :
    ∃ sch evs, diskRevolveSched N cm c = .ok sch ∧ diskRevolveEvs N cm c = .ok evs ∧
      ∀ k fuel, evs.length + 4 ≤ fuel →
        monitor (cfgDiskRevolve cm N) k (sch.canon N k fuel) = [] := by
  simp only [validRevolve, Bool.and_eq_true, decide_eq_true_eq] at hv
  obtain ⟨⟨⟨hN, hcm⟩, _⟩, _⟩ := hv
  obtain ⟨evs, sn, hevs, hclean⟩ := diskRevolve_clean N cm c hN hcm
  have hsch : diskRevolveSched N cm c =
      .ok (offlineSched N (diskRevolveEvs N cm c) (revUses cm none)) := by
    unfold diskRevolveSched; rw [if_neg (by omega)]
  have hseg : diskSeg N (opt0Table (N - 1) cm c.uf c.ub)
      (optInfTable (N - 1) cm c.uf c.ub (c.wd + c.rd) (opt0Table (N - 1) cm c.uf c.ub))
      cm c.uf (c.wd + c.rd) (N + 1) true 0 N = some evs := by
    unfold diskRevolveEvs at hevs
    simp only at hevs
    cases hm : diskSeg N (opt0Table (N - 1) cm c.uf c.ub)
        (optInfTable (N - 1) cm c.uf c.ub (c.wd + c.rd) (opt0Table (N - 1) cm c.uf c.ub))
        cm c.uf (c.wd + c.rd) (N + 1) true 0 N with
    | none => rw [hm] at hevs; cases hevs
    | some evs' =>
      rw [hm] at hevs
      simp only [Except.ok.injEq] at hevs
      rw [List.append_cancel_right hevs]
  refine ⟨_, _, hsch, hevs, ?_⟩
  intro k fuel hfuel
  rw [hevs]
  apply offline_end_to_end (cfgDiskRevolve cm N) N k fuel evs 1 _ _ rfl rfl rfl
    (by rw [List.length_append, List.length_singleton] at hfuel; omega)
    (diskSeg_no_endReverse N _ _ cm c.uf _ _ _ _ _ evs hseg) hclean (revUses_isSome _ _)
  · intro _
    have : decide (cm > 0) = true := decide_eq_true (by omega)
    simp only [revUses, this]
  · intro _; rfl

theorem periodicSweep_no_endReverse (l mx : Nat) : ∀ (fuel c : Nat),
    ∀ e ∈ (periodicSweep l mx fuel c).1, e.act ≠ .endReverse := by
  intro fuel
  induction fuel with
  | zero => intro c e he; simp [periodicSweep] at he
  | succ fuel ih =>
    intro c e he
    rw [periodicSweep] at he
    split at he
    · simp only [List.mem_cons] at he
      rcases he with he | he
      · rw [he]; simp
      · exact ih _ e he
    · simp at he

theorem periodicBlocks_no_endReverse (N : Nat) (t0 : Array (Array Nat)) (uf cm mx : Nat) :
    ∀ (nblk : Nat) (evs : List Ev), periodicBlocks N t0 uf cm mx nblk = some evs →
      ∀ e ∈ evs, e.act ≠ .endReverse := by
  intro nblk
  induction nblk with
  | zero => intro evs h e he; simp only [periodicBlocks, Option.some.injEq] at h; subst h; cases he
  | succ b ih =>
    intro evs h
    rw [periodicBlocks] at h
    split at h
    · cases h
    · rename_i seg hs
      split at h
      · cases h
      · rename_i rest hr
        simp only [Option.some.injEq] at h
        subst h
        intro e he
        simp only [List.mem_append, List.mem_singleton] at he
        rcases he with (he | he) | he
        · rw [he]; simp
        · exact revSeg_no_endReverse hs e he
        · exact ih _ hr e he

/-- **PeriodicDiskRevolve end to end.** -/
theorem periodic_monitor_clean (N cm : Nat) (c : Costs)
    (hv : validRevolve N cm c.uf c.ub = true) :
    ∃ sch evs, periodicSched N cm c = .ok sch ∧ periodicEvs N cm c = .ok evs ∧
      ∀ k fuel, evs.length + 4 ≤ fuel →
        monitor (cfgDiskRevolve cm N) k (sch.canon N k fuel) = [] := by
  simp only [validRevolve, Bool.and_eq_true, decide_eq_true_eq] at hv
  obtain ⟨⟨⟨hN, hcm⟩, huf⟩, _⟩ := hv
  obtain ⟨evs, sn, hevs, hclean⟩ := periodic_clean N cm c hN hcm huf
  have hsch : periodicSched N cm c =
      .ok (offlineSched N (periodicEvs N cm c) (revUses cm none)) := by
    unfold periodicSched; rw [if_neg (by omega)]
  have hne : ∀ e ∈ evs, e.act ≠ .endReverse := by
    unfold periodicEvs at hevs
    cases hm : mxrr cm c.uf (c.wd + c.rd) with
    | none => rw [hm] at hevs; cases hevs
    | some mx =>
      rw [hm] at hevs
      simp only at hevs
      have hsw := periodicSweep_no_endReverse (N - 1) mx N 0
      rcases hps : periodicSweep (N - 1) mx N 0 with ⟨sweep, cur⟩
      rw [hps] at hevs hsw
      simp only at hevs hsw
      cases hmid : revSeg N (opt0Table (max (N - 1) (mx + 1)) cm c.uf c.ub) c.uf cm true cur N with
      | none => rw [hmid] at hevs; cases hevs
      | some mid =>
        rw [hmid] at hevs
        simp only at hevs
        cases hb : periodicBlocks N (opt0Table (max (N - 1) (mx + 1)) cm c.uf c.ub) c.uf cm mx
            (cur / mx) with
        | none => rw [hb] at hevs; cases hevs
        | some blocks =>
          rw [hb] at hevs
          simp only [Except.ok.injEq] at hevs
          have := List.append_cancel_right hevs
          rw [← this]
          intro e he
          simp only [List.mem_append] at he
          rcases he with (he | he) | he
          · exact hsw e he
          · exact revSeg_no_endReverse hmid e he
          · exact periodicBlocks_no_endReverse _ _ _ _ _ _ _ hb e he
  refine ⟨_, _, hsch, hevs, ?_⟩
  intro k fuel hfuel
  rw [hevs]
  apply offline_end_to_end (cfgDiskRevolve cm N) N k fuel evs 1 _ _ rfl rfl rfl
    (by rw [List.length_append, List.length_singleton] at hfuel; omega)
    hne hclean (revUses_isSome _ _)
  · intro _
    have : decide (cm > 0) = true := decide_eq_true (by omega)
    simp only [revUses, this]
  · intro _; rfl

example : validRevolve 7 2 1 1 = true := by decide

end Ckpt

section AxiomCheck
open Ckpt
#print axioms mseg_evOk
#print axioms mixed_monitor_clean
#print axioms revolve_monitor_clean
#print axioms diskRevolve_monitor_clean
#print axioms periodic_monitor_clean
end AxiomCheck
