import CkptVerif.Proofs.HRevolveLBFullSteps
/-!
# The relaxed LIFO discipline: `Copy`/`Move`, one step, the whole stream
-/
namespace Ckpt.LB7
open Ckpt.RC Ckpt.GW Ckpt.Mean Ckpt.HLB

theorem countSt_sublist {l l' : List Cp} (h : l'.Sublist l) (s : Storage) : countSt l' s ≤ countSt l s := by
  unfold countSt
  exact (h.filter _).length_le

/-- fewer stored checkpoints: the storage invariant is kept -/
theorem inv2_of_sublist {c0 c1 : Nat} {x x' : XS} (h : x'.cps.Sublist x.cps) (hinv2 : Inv2 c0 c1 x) :
    Inv2 c0 c1 x' :=
  ⟨le_trans (countSt_sublist h _) hinv2.capR, le_trans (countSt_sublist h _) hinv2.capD,
    fun cp hcp => hinv2.ics cp (h.subset hcp), (h.map _).nodup hinv2.keys⟩

theorem eraseCp_sublist (cps : List Cp) (n : Nat) (s : Storage) : (eraseCp cps n s).Sublist cps := by
  unfold eraseCp; exact List.filter_sublist

/-- a step that only removes stored checkpoints and leaves everything else alone -/
theorem step_shrinkT {c : Costs} {c0 c1 : Nat} {cfg : Cfg} {x x' : XS} (hc : x'.cps.Sublist x.cps)
    (hf : x'.fwd = x.fwd) (hr : x'.r = x.r) (hd : x'.wDeps = x.wDeps) (k : Nat) :
    ∀ m, PotT c c0 c1 cfg x' m → PotT c c0 c1 cfg x (m + k) := by
  intro m hp
  have hfl : Flagged cfg x' ↔ Flagged cfg x := by unfold Flagged; rw [hr, hd]
  have hstk : (stk x').Sublist (stk x) := by unfold stk; exact hc.map _
  refine ⟨fun h => ?_, fun h => ?_⟩
  · have := hp.1 (hfl.mpr h)
    rw [hf, hr] at this
    exact HLB.rt_weaken (HLB.rt_mono hstk this) (by omega)
  · have := hp.2 (fun h' => h (hfl.mp h'))
    rw [hf, hr] at this
    exact HLB.rt_weaken (HLB.rt_mono hstk this) (by omega)

theorem lifoAct'_split {cfg : Cfg} {x : XS} {n : Nat} {src dst : Storage}
    (h : (!dst.isStore && (decide (dst ≠ .work) || topAlive cfg x n src)) = true) :
    dst.isStore = false ∧ (dst = .work → topAlive cfg x n src = true) := by
  rw [Bool.and_eq_true, Bool.or_eq_true] at h
  obtain ⟨h1, h2⟩ := h
  refine ⟨by simpa using h1, fun hw => ?_⟩
  rcases h2 with h2 | h2
  · simp [hw] at h2
  · exact h2

theorem step_copyT {c : Costs} {c0 c1 N : Nat} {x : XS}
    (hinv : GW.Inv (cfgHRevolve c0 c1 N) (c0 + c1) x) (hinv2 : Inv2 c0 c1 x)
    {n : Nat} {src dst : Storage} (h : actViols (cfgHRevolve c0 c1 N) x (.copy n src dst) = [])
    (hl : lifoAct' (cfgHRevolve c0 c1 N) x (.copy n src dst) = true) :
    Inv2 c0 c1 (nextState (cfgHRevolve c0 c1 N) x (.copy n src dst)) ∧
    ∀ m, PotT c c0 c1 (cfgHRevolve c0 c1 N) (nextState (cfgHRevolve c0 c1 N) x (.copy n src dst)) m →
      PotT c c0 c1 (cfgHRevolve c0 c1 N) x (m + actCostF c (.copy n src dst)) := by
  obtain ⟨hns, htop⟩ := lifoAct'_split hl
  obtain ⟨c', hf, hwork, _⟩ := load_clean (show actViols.loadViols (cfgHRevolve c0 c1 N) x n src dst = [] from h)
  by_cases hdw : dst = .work
  · subst hdw
    obtain ⟨pre, cp, post, hcps, hn, hsrc, halive, hpre⟩ := topAlive_split (htop rfl)
    subst hn; subst hsrc
    have hf' : findCp x.cps cp.n cp.st = some cp := by
      rw [hcps]; exact findCp_middle (by rw [← hcps]; exact hinv2.keys)
    have hcost : actCostF c (.copy cp.n cp.st .work) = (if cp.st = .disk then c.rd else 0) := by
      simp [actCostF, actCostT, actCost, transfersToDisk]
    have hnx : nextState (cfgHRevolve c0 c1 N) x (.copy cp.n cp.st .work) =
        { x with cps := x.cps,
                 fwd := if cp.ics > 0 then some cp.n else none,
                 wIcs := if cp.ics > 0 then some (cp.n, cp.n + cp.ics) else none,
                 wDeps := if cp.deps > 0 then some (cp.n, cp.n + cp.deps) else none } := by
      simp only [nextState, hf', Storage.isStore]; simp
    refine ⟨inv2_of_sublist (by rw [hnx]) hinv2, ?_⟩
    rw [hcost]
    exact step_loadT hinv hinv2 hcps halive hpre (hwork rfl) true _ (by rw [hnx]; simp)
  · have hnx : nextState (cfgHRevolve c0 c1 N) x (.copy n src dst) = x := by
      simp only [nextState, hf, hns, hdw]; simp
    rw [hnx]
    exact ⟨hinv2, step_shrinkT (List.Sublist.refl _) rfl rfl rfl _⟩

theorem step_moveT {c : Costs} {c0 c1 N : Nat} {x : XS}
    (hinv : GW.Inv (cfgHRevolve c0 c1 N) (c0 + c1) x) (hinv2 : Inv2 c0 c1 x)
    {n : Nat} {src dst : Storage} (h : actViols (cfgHRevolve c0 c1 N) x (.move n src dst) = [])
    (hl : lifoAct' (cfgHRevolve c0 c1 N) x (.move n src dst) = true) :
    Inv2 c0 c1 (nextState (cfgHRevolve c0 c1 N) x (.move n src dst)) ∧
    ∀ m, PotT c c0 c1 (cfgHRevolve c0 c1 N) (nextState (cfgHRevolve c0 c1 N) x (.move n src dst)) m →
      PotT c c0 c1 (cfgHRevolve c0 c1 N) x (m + actCostF c (.move n src dst)) := by
  obtain ⟨hns, htop⟩ := lifoAct'_split hl
  obtain ⟨c', hf, hwork, _⟩ := load_clean (show actViols.loadViols (cfgHRevolve c0 c1 N) x n src dst = [] from h)
  by_cases hdw : dst = .work
  · subst hdw
    obtain ⟨pre, cp, post, hcps, hn, hsrc, halive, hpre⟩ := topAlive_split (htop rfl)
    subst hn; subst hsrc
    have hk : ((pre ++ cp :: post).map (fun c => (c.n, c.st))).Nodup := by rw [← hcps]; exact hinv2.keys
    have hf' : findCp x.cps cp.n cp.st = some cp := by
      rw [hcps]; exact findCp_middle hk
    have her : eraseCp x.cps cp.n cp.st = pre ++ post := by
      rw [hcps]; exact eraseCp_middle hk
    have hcost : actCostF c (.move cp.n cp.st .work) = (if cp.st = .disk then c.rd else 0) := by
      simp [actCostF, actCostT, actCost, transfersToDisk]
    have hnx : nextState (cfgHRevolve c0 c1 N) x (.move cp.n cp.st .work) =
        { x with cps := pre ++ post,
                 fwd := if cp.ics > 0 then some cp.n else none,
                 wIcs := if cp.ics > 0 then some (cp.n, cp.n + cp.ics) else none,
                 wDeps := if cp.deps > 0 then some (cp.n, cp.n + cp.deps) else none } := by
      simp only [nextState, hf', her, Storage.isStore]; simp
    refine ⟨inv2_of_sublist (by rw [hnx, ← her]; exact eraseCp_sublist _ _ _) hinv2, ?_⟩
    rw [hcost]
    exact step_loadT hinv hinv2 hcps halive hpre (hwork rfl) false _ (by rw [hnx]; simp)
  · have hnx : nextState (cfgHRevolve c0 c1 N) x (.move n src dst) =
        { x with cps := eraseCp x.cps n src } := by
      simp only [nextState, hf, hns, hdw]; simp
    rw [hnx]
    refine ⟨inv2_of_sublist (eraseCp_sublist _ _ _) hinv2, ?_⟩
    exact step_shrinkT (x := x) (x' := { x with cps := eraseCp x.cps n src })
      (eraseCp_sublist _ _ _) rfl rfl rfl _

end Ckpt.LB7
