import CkptVerif.Model.ActionApi
/-!
# Value semantics of actions: iteration, length, membership, and the `repr` round trip
-/
namespace Ckpt

/-! ## `__iter__`, `__len__`, `__contains__` -/

theorem steps_forward (n0 n1 : Nat) (wi wa : Bool) (st : Storage) :
    steps (.forward n0 n1 wi wa st) = List.range' n0 (n1 - n0) := rfl

theorem steps_reverse (n1 n0 : Nat) (c : Bool) :
    steps (.reverse n1 n0 c) = (List.range' n0 (n1 - n0)).reverse := rfl

/-- `len(action)`: `n1 - n0` for Forward/Reverse -/
theorem length_steps_forward (n0 n1 : Nat) (wi wa : Bool) (st : Storage) :
    (steps (.forward n0 n1 wi wa st)).length = n1 - n0 := by
  simp [steps]

theorem length_steps_reverse (n1 n0 : Nat) (c : Bool) :
    (steps (.reverse n1 n0 c)).length = n1 - n0 := by
  simp [steps]

/-- `__len__` for every action -/
theorem length_steps (a : Action) :
    (steps a).length = match a with
      | .forward n0 n1 _ _ _ => n1 - n0
      | .reverse n1 n0 _ => n1 - n0
      | _ => 0 := by
  cases a <;> simp [steps]

/-- `k in Forward(n0, n1, …)` iff `n0 ≤ k < n1` -/
theorem mem_steps_forward (k n0 n1 : Nat) (wi wa : Bool) (st : Storage) :
    k ∈ steps (.forward n0 n1 wi wa st) ↔ n0 ≤ k ∧ k < n1 := by
  simp only [steps, List.mem_range'_1]; omega

/-- `k in Reverse(n1, n0, …)` iff `n0 ≤ k < n1` -/
theorem mem_steps_reverse (k n1 n0 : Nat) (c : Bool) :
    k ∈ steps (.reverse n1 n0 c) ↔ n0 ≤ k ∧ k < n1 := by
  simp only [steps, List.mem_reverse, List.mem_range'_1]; omega

/-- Forward iterates upwards from `n0`, Reverse downwards from `n1 - 1`. -/
theorem getElem?_steps_forward (i n0 n1 : Nat) (wi wa : Bool) (st : Storage) (h : i < n1 - n0) :
    (steps (.forward n0 n1 wi wa st))[i]? = some (n0 + i) := by
  simp [steps, h]

theorem getElem?_steps_reverse (i n1 n0 : Nat) (c : Bool) (h : i < n1 - n0) :
    (steps (.reverse n1 n0 c))[i]? = some (n1 - 1 - i) := by
  simp only [steps]
  rw [List.getElem?_reverse (by simpa using h)]
  simp only [List.length_range']
  rw [List.getElem?_range' (by omega)]
  congr 1; omega

example : steps (.forward 2 5 true false .ram) = [2, 3, 4] := by decide
example : steps (.reverse 5 2 true) = [4, 3, 2] := by decide

/-! ## `__repr__`: the strings -/

theorem pyRepr_forward (n0 n1 : Nat) (wi wa : Bool) (st : Storage) :
    pyRepr (.forward n0 n1 wi wa st) =
      "Forward(" ++ pyNat n0 ++ ", " ++ pyNat n1 ++ ", " ++ pyBool wi ++ ", " ++ pyBool wa ++ ", "
        ++ pySt st ++ ")" := rfl

theorem pyRepr_reverse (n1 n0 : Nat) (c : Bool) :
    pyRepr (.reverse n1 n0 c) =
      "Reverse(" ++ pyNat n1 ++ ", " ++ pyNat n0 ++ ", " ++ pyBool c ++ ")" := rfl

theorem pyRepr_copy (n : Nat) (s d : Storage) :
    pyRepr (.copy n s d) = "Copy(" ++ pyNat n ++ ", " ++ pySt s ++ ", " ++ pySt d ++ ")" := rfl

theorem pyRepr_move (n : Nat) (s d : Storage) :
    pyRepr (.move n s d) = "Move(" ++ pyNat n ++ ", " ++ pySt s ++ ", " ++ pySt d ++ ")" := rfl

/-! ## The parser on what the printer produces -/

theorem lit_append (p r : List Char) : lit p (p ++ r) = some r := by
  induction p with
  | nil => rfl
  | cons a p ih => simp [lit, ih]

theorem lit_cons_ne (a b : Char) (ps cs : List Char) (h : a ≠ b) :
    lit (a :: ps) (b :: cs) = none := by
  simp [lit, h]

theorem pSep_append (r : List Char) : pSep (", ".toList ++ r) = some r := lit_append _ r

theorem pClose_close : pClose ")".toList = some () := rfl

theorem pBool_append (b : Bool) (r : List Char) :
    pBool ((pyBool b).toList ++ r) = some (b, r) := by
  cases b
  · show pBool ("False".toList ++ r) = _
    unfold pBool
    rw [show lit "True".toList ("False".toList ++ r) = none from rfl, lit_append]
  · show pBool ("True".toList ++ r) = _
    unfold pBool
    rw [lit_append]

theorem pSt_append (st : Storage) (r : List Char) :
    pSt ((pySt st).toList ++ r) = some (st, r) := by
  have h : ∀ x : String, ("StorageType." ++ x).toList ++ r = "StorageType.".toList ++ (x.toList ++ r) := by
    intro x; rw [String.toList_append, List.append_assoc]
  cases st
  · show pSt (("StorageType." ++ "RAM").toList ++ r) = _
    rw [h]; unfold pSt; rw [lit_append]; simp only; rw [lit_append]
  · show pSt (("StorageType." ++ "DISK").toList ++ r) = _
    rw [h]; unfold pSt; rw [lit_append]; simp only
    rw [show lit "RAM".toList ("DISK".toList ++ r) = none from rfl, lit_append]
  · show pSt (("StorageType." ++ "WORK").toList ++ r) = _
    rw [h]; unfold pSt; rw [lit_append]; simp only
    rw [show lit "RAM".toList ("WORK".toList ++ r) = none from rfl,
      show lit "DISK".toList ("WORK".toList ++ r) = none from rfl, lit_append]
  · show pSt (("StorageType." ++ "NONE").toList ++ r) = _
    rw [h]; unfold pSt; rw [lit_append]; simp only
    rw [show lit "RAM".toList ("NONE".toList ++ r) = none from rfl,
      show lit "DISK".toList ("NONE".toList ++ r) = none from rfl,
      show lit "WORK".toList ("NONE".toList ++ r) = none from rfl, lit_append]

/-- a number followed by a separator -/
theorem pNat_sep (n : Nat) (r : List Char) :
    pNat ((pyNat n).toList ++ (", ".toList ++ r)) = some (n, ", ".toList ++ r) := by
  unfold pyNat
  by_cases h : n = maxsize
  · rw [if_pos h]; unfold pNat; rw [lit_append, h]
  · rw [if_neg h]
    have hd : (toString n).toList = Nat.toDigits 10 n := Nat.toList_repr
    rw [hd]
    have hdig : ∀ c ∈ Nat.toDigits 10 n, c.isDigit = true :=
      fun c hc => Nat.isDigit_of_mem_toDigits (by omega) (by omega) hc
    have hne : Nat.toDigits 10 n ≠ [] := Nat.toDigits_ne_nil
    have htail : ", ".toList ++ r = ',' :: ' ' :: r := rfl
    unfold pNat
    have hlit : lit "sys.maxsize".toList (Nat.toDigits 10 n ++ (", ".toList ++ r)) = none := by
      cases hD : Nat.toDigits 10 n with
      | nil => exact absurd hD hne
      | cons d D =>
        have : d.isDigit = true := hdig d (by rw [hD]; simp)
        rw [show "sys.maxsize".toList = 's' :: "ys.maxsize".toList from rfl, List.cons_append]
        apply lit_cons_ne
        intro hsd; rw [← hsd] at this; exact absurd this (by decide)
    rw [hlit]
    simp only
    have htw : List.takeWhile Char.isDigit (Nat.toDigits 10 n ++ (", ".toList ++ r)) =
        Nat.toDigits 10 n := by
      rw [List.takeWhile_append_of_pos hdig, htail, List.takeWhile_cons_of_neg (by decide),
        List.append_nil]
    have hdw : List.dropWhile Char.isDigit (Nat.toDigits 10 n ++ (", ".toList ++ r)) =
        ", ".toList ++ r := by
      rw [List.dropWhile_append_of_pos hdig, htail, List.dropWhile_cons_of_neg (by decide)]
    rw [htw, hdw, if_neg (by simp [hne]), Nat.ofDigitChars_ten_toDigits]

/-- The character-level parser reads back what the printer printed. -/
theorem parseChars_pyRepr (a : Action) : parseChars (pyRepr a).toList = some a := by
  cases a with
  | forward n0 n1 wi wa st =>
    rw [pyRepr_forward]
    simp only [String.toList_append, List.append_assoc]
    unfold parseChars
    rw [lit_append]
    simp only [pForwardArgs, pNat_sep, pSep_append, pBool_append, pSt_append, pClose_close,
      Option.bind_eq_bind, Option.bind_some, Option.pure_def]
  | reverse n1 n0 c =>
    rw [pyRepr_reverse]
    simp only [String.toList_append, List.append_assoc]
    unfold parseChars
    rw [show ∀ r, lit "Forward(".toList ("Reverse(".toList ++ r) = none from fun _ => rfl]
    simp only
    rw [lit_append]
    simp only [pReverseArgs, pNat_sep, pSep_append, pBool_append, pClose_close,
      Option.bind_eq_bind, Option.bind_some, Option.pure_def]
  | copy n s d =>
    rw [pyRepr_copy]
    simp only [String.toList_append, List.append_assoc]
    unfold parseChars
    rw [show ∀ r, lit "Forward(".toList ("Copy(".toList ++ r) = none from fun _ => rfl,
      show ∀ r, lit "Reverse(".toList ("Copy(".toList ++ r) = none from fun _ => rfl]
    simp only
    rw [lit_append]
    simp only [pCopyArgs, pNat_sep, pSep_append, pSt_append, pClose_close,
      Option.bind_eq_bind, Option.bind_some, Option.pure_def]
  | move n s d =>
    rw [pyRepr_move]
    simp only [String.toList_append, List.append_assoc]
    unfold parseChars
    rw [show ∀ r, lit "Forward(".toList ("Move(".toList ++ r) = none from fun _ => rfl,
      show ∀ r, lit "Reverse(".toList ("Move(".toList ++ r) = none from fun _ => rfl,
      show ∀ r, lit "Copy(".toList ("Move(".toList ++ r) = none from fun _ => rfl]
    simp only
    rw [lit_append]
    simp only [pCopyArgs, pNat_sep, pSep_append, pSt_append, pClose_close,
      Option.bind_eq_bind, Option.bind_some, Option.pure_def]
  | endForward => rfl
  | endReverse => rfl

/-- **Round trip**: `parseRepr (repr a) = a`. -/
theorem parseRepr_pyRepr (a : Action) : parseRepr (pyRepr a) = some a := by
  unfold parseRepr
  rw [parseChars_pyRepr]
  simp only [if_true]

/-- The parser accepts exactly the strings the printer produces. -/
theorem parseRepr_eq_some_iff (s : String) (a : Action) :
    parseRepr s = some a ↔ pyRepr a = s := by
  constructor
  · intro h
    unfold parseRepr at h
    split at h
    · split at h
      · cases h; assumption
      · cases h
    · cases h
  · rintro rfl; exact parseRepr_pyRepr a

/-- `__eq__`/`__repr__`: `repr` is injective — two actions print the same iff they are equal. -/
theorem pyRepr_injective (a b : Action) (h : pyRepr a = pyRepr b) : a = b := by
  have := parseRepr_pyRepr a
  rw [h, parseRepr_pyRepr] at this
  exact (Option.some.inj this).symm

example : pyRepr (.forward 3 maxsize true false .disk) =
    "Forward(3, sys.maxsize, True, False, StorageType.DISK)" := by decide
example : parseRepr "Reverse(10, 0, True)" = some (.reverse 10 0 true) := by
  rw [parseRepr_eq_some_iff]; decide

end Ckpt

section AxiomCheck
open Ckpt
#print axioms steps_forward
#print axioms steps_reverse
#print axioms length_steps
#print axioms mem_steps_forward
#print axioms mem_steps_reverse
#print axioms parseChars_pyRepr
#print axioms parseRepr_pyRepr
#print axioms parseRepr_eq_some_iff
#print axioms pyRepr_injective
end AxiomCheck
