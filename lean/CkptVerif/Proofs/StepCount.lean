import CkptVerif.Model.Segment
import CkptVerif.Proofs.ExtraRec
/-!
# Number of forward steps of the generic binomial segment

`fwdSteps evs`: the sum of `n1 - n0` over the `Forward(n0, n1, …)` actions of a stream.

`segWith_fwdSteps`: if the split function `σ` attains the minimum of the recurrence of
`optimal_extra_steps` at every key, the stream `segWith … lo hi d` advances the forward exactly
`(hi - lo) + optimal_extra_steps(hi - lo, min(S - d, hi - lo - 1))` steps.

Import-free (no Mathlib).
-/
namespace Ckpt.GW

/-- forward steps performed by one event -/
def evFwd (e : Ev) : Nat :=
  match e.act with
  | .forward n0 n1 _ _ _ => n1 - n0
  | _ => 0

/-- total number of forward steps of a stream -/
def fwdSteps : List Ev → Nat
  | [] => 0
  | e :: es => evFwd e + fwdSteps es

theorem fwdSteps_nil : fwdSteps [] = 0 := rfl

theorem fwdSteps_cons (e : Ev) (es : List Ev) : fwdSteps (e :: es) = evFwd e + fwdSteps es := rfl

theorem fwdSteps_append (l1 l2 : List Ev) : fwdSteps (l1 ++ l2) = fwdSteps l1 + fwdSteps l2 := by
  induction l1 with
  | nil => simp [fwdSteps]
  | cons e es ih => rw [List.cons_append, fwdSteps_cons, fwdSteps_cons, ih]; omega

theorem fwdSteps_eq_sum (l : List Ev) : fwdSteps l = (l.map evFwd).sum := by
  induction l with
  | nil => rfl
  | cons e es ih => rw [fwdSteps_cons, List.map_cons, List.sum_cons, ih]

/-- the split function attains the minimum of the recurrence of `optimal_extra_steps` -/
def AttainsMin (σ : Nat → Nat → Option Nat) : Prop :=
  ∀ m k, 2 ≤ m → 1 ≤ k → ∃ a, σ m k = some a ∧ 1 ≤ a ∧ a ≤ m - 1 ∧
    a + extraCell a (clampS a k) + extraCell (m - a) (clampS (m - a) (k - 1)) =
      extraCell m (clampS m k)

theorem segWith_fwdSteps (N : Nat) (σ : Nat → Nat → Option Nat) (S : Nat) (alloc : Nat → Storage)
    (persist : Bool)
    (hσ : ∀ m k, 2 ≤ m → 1 ≤ k → ∃ a, σ m k = some a ∧ 1 ≤ a ∧ a ≤ m - 1 ∧
      a + extraCell a (clampS a k) + extraCell (m - a) (clampS (m - a) (k - 1)) =
        extraCell m (clampS m k))
    (fuel : Nat) (stored spine : Bool) (lo hi d : Nat) (evs : List Ev)
    (h : segWith N σ S alloc persist fuel stored spine lo hi d = some evs)
    (hlt : lo < hi) (hk : hi = lo + 1 ∨ 1 ≤ S - d) :
    fwdSteps evs = (hi - lo) + extraCell (hi - lo) (clampS (hi - lo) (S - d)) := by
  induction fuel generalizing stored spine lo hi d evs with
  | zero => simp [segWith] at h
  | succ fuel ih =>
    unfold segWith at h
    dsimp only at h
    by_cases hu : hi = lo + 1
    · rw [if_pos hu] at h
      have h' := Option.some.inj h
      subst h'
      have e1 : hi - lo = 1 := by omega
      rw [e1, extraCell_le_one 1 _ (Nat.le_refl _)]
      simp only [fwdSteps_append]
      have a1 : fwdSteps (if stored = true then
          [(⟨if persist = true ∧ d = 0 then Action.copy lo (alloc d) .work
            else Action.move lo (alloc d) .work, lo, N - hi⟩ : Ev)] else []) = 0 := by
        by_cases hs : stored = true
        · rw [if_pos hs]
          by_cases hp : persist = true ∧ d = 0
          · rw [if_pos hp]; rfl
          · rw [if_neg hp]; rfl
        · rw [if_neg hs]; rfl
      have a2 : fwdSteps (if spine = true then [(⟨Action.endForward, hi, N - hi⟩ : Ev)] else []) = 0 := by
        split <;> rfl
      have a3 : fwdSteps [(⟨Action.forward lo hi false true .work, hi, N - hi⟩ : Ev)] = hi - lo := rfl
      have a4 : fwdSteps [(⟨Action.reverse hi lo true, hi, N - hi + 1⟩ : Ev)] = 0 := rfl
      rw [a1, a2, a3, a4]; omega
    · rw [if_neg hu] at h
      have hk1 : 1 ≤ S - d := by rcases hk with hk | hk; exact absurd hk hu; exact hk
      obtain ⟨a, hσa, ha1, ha2, hmin⟩ := hσ (hi - lo) (S - d) (by omega) hk1
      rw [hσa] at h
      dsimp only at h
      cases hr : segWith N σ S alloc persist fuel false spine (lo + a) hi (d + 1) with
      | none => rw [hr] at h; simp at h
      | some right =>
        rw [hr] at h
        cases hl : segWith N σ S alloc persist fuel true false lo (lo + a) d with
        | none => rw [hl] at h; simp at h
        | some left =>
          rw [hl] at h
          have h' := Option.some.inj h
          subst h'
          -- the right part
          have hkr : hi = lo + a + 1 ∨ 1 ≤ S - (d + 1) := by
            by_cases hk2 : 2 ≤ S - d
            · right; omega
            · left
              have e : S - d = 1 := by omega
              rw [e] at hmin
              have := one_unit_split (hi - lo) a (by omega) ha1 ha2 hmin
              omega
          have ihr := ih false spine (lo + a) hi (d + 1) right hr (by omega) hkr
          -- the left part
          have hkl : lo + a = lo + 1 ∨ 1 ≤ S - d := Or.inr hk1
          have ihl := ih true false lo (lo + a) d left hl (by omega) hkl
          have e1 : hi - (lo + a) = hi - lo - a := by omega
          have e2 : S - (d + 1) = S - d - 1 := by omega
          have e3 : lo + a - lo = a := by omega
          rw [e1, e2] at ihr
          rw [e3] at ihl
          have hfirst : fwdSteps (if stored = true
              then [(⟨Action.copy lo (alloc d) .work, lo, N - hi⟩ : Ev),
                ⟨Action.forward lo (lo + a) false false .work, lo + a, N - hi⟩]
              else [⟨Action.forward lo (lo + a) true false (alloc d), lo + a, N - hi⟩]) = a := by
            split
            · show 0 + ((lo + a - lo) + 0) = a
              omega
            · show (lo + a - lo) + 0 = a
              omega
          rw [fwdSteps_append, fwdSteps_append, hfirst, ihr, ihl]
          omega

/-- the same statement with the hypothesis on `σ` named -/
theorem segWith_fwdSteps' {N : Nat} {σ : Nat → Nat → Option Nat} {S : Nat} {alloc : Nat → Storage}
    {persist : Bool} (hσ : AttainsMin σ) {fuel : Nat} {stored spine : Bool} {lo hi d : Nat}
    {evs : List Ev} (h : segWith N σ S alloc persist fuel stored spine lo hi d = some evs)
    (hlt : lo < hi) (hk : hi = lo + 1 ∨ 1 ≤ S - d) :
    fwdSteps evs = (hi - lo) + extraCell (hi - lo) (clampS (hi - lo) (S - d)) :=
  segWith_fwdSteps N σ S alloc persist hσ fuel stored spine lo hi d evs h hlt hk

/-- a concrete stream: 5 steps with 2 units (split function `n_advance`) advance
`5 + E(5,2) = 5 + 6 = 11` steps -/
example : (segWith 5 (fun m k => nAdvance m k .maximum) 2 (fun _ => .ram) false 5 false true 0 5 0).map
    fwdSteps = some 11 := by decide

end Ckpt.GW
