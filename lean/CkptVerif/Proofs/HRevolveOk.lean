import CkptVerif.Proofs.HRevolveStruct
import CkptVerif.Proofs.HOpt
import CkptVerif.Proofs.ExecLemmas
import CkptVerif.Spec.Configs
import CkptVerif.Proofs.MultistageOk
/-!
# HRevolve: the model stream is accepted by the specification executor

The acceptance proof works on the structural streams `hRs`/`hAs` of `HRevolveStruct.lean`
(Copy/Move decided by position), which equal `resolveLoads` of the model streams.
-/
namespace Ckpt

/-! ## budgets -/

theorem countSt_cons (cp : Cp) (l : List Cp) (s : Storage) :
    countSt (cp :: l) s = (if cp.st = s then 1 else 0) + countSt l s := by
  unfold countSt
  rw [List.filter_cons]
  by_cases h : cp.st = s
  · simp [h]; omega
  · simp [h]

theorem withinBudget_iff (cfg : Cfg) (c0 c1 : Nat) (hr : cfg.ram = some c0) (hd : cfg.disk = some c1)
    (l : List Cp) :
    withinBudget cfg l = true ↔ countSt l .ram ≤ c0 ∧ countSt l .disk ≤ c1 := by
  simp [withinBudget, withinOpt, hr, hd]

/-- what the acceptance proof needs of the executor configuration and of the cost table -/
structure HHyp (cfg : Cfg) (c : HCtx) (dn : Nat) : Prop where
  hN : cfg.N = c.N
  alive : Alive cfg dn
  ram : cfg.ram = some c.c0
  disk : cfg.disk = some c.c1
  c0pos : 1 ≤ c.c0
  /-- whenever `hR` decides to write to DISK, `hA` finds a split (see `HOpt.lean`) -/
  tab : ∀ l cm, 2 ≤ l →
    olt (oadd (some (c.w 1)) (c.tab.optp 1 l cm)) (c.tab.opt 0 l c.c0) = true →
    cm ≠ 0 ∧ hSplit c 1 cm l = true

/-- the units still available at level `K`: `cm` at the level itself, and the budgets of both
storages are respected -/
def Inv (c : HCtx) (K cm : Nat) (L : List Cp) : Prop :=
  if K = 0 then countSt L .ram + cm ≤ c.c0 ∧ countSt L .disk ≤ c.c1
  else countSt L .ram = 0 ∧ countSt L .disk + cm ≤ c.c1

section blocks
variable {cfg : Cfg} {c : HCtx} {dn : Nat} (H : HHyp cfg c dn)
include H

/-- one step: advance recording the dependencies, (end of the forward sweep,) reverse -/
theorem evBase_clean (lo : Nat) (spine : Bool) (wi wd : Option (Nat × Nat)) (cps : List Cp)
    (sn : List Cp) (h1 : lo + 1 ≤ c.N) (hsp : spine = true → lo + 1 = c.N) :
    Clean cfg (X (some lo) (c.N - (lo + 1)) wi wd cps (!spine) dn sn)
      ((evBase c lo (lo + 1) spine).map (Ev.obs · c.N))
      (X (some (lo + 1)) (c.N - lo) none none cps true dn (if spine then cps else sn)) := by
  have hcN := H.hN
  have hal := H.alive
  have hr : lo + 1 = c.N - (c.N - (lo + 1)) := by omega
  have hr2 : c.N - (lo + 1) + 1 = c.N - lo := by omega
  cases spine with
  | false =>
    simp only [evBase, Bool.false_eq_true, if_false, List.append_nil, Bool.not_false,
      List.map_cons, List.map_nil, List.cons_append, List.nil_append]
    refine Clean.cons (step_turn cfg c.N (some lo) lo _ wi wd _ true dn sn hcN hal hr rfl) ?_
    refine Clean.cons (step_reverse cfg c.N (some (lo+1)) lo _ none _ dn sn hcN hal hr rfl) ?_
    rw [hr2]; exact Clean.nil _ _
  | true =>
    have hN' := hsp rfl
    simp only [evBase, if_true, Bool.not_true, List.map_cons, List.map_nil, List.cons_append,
      List.nil_append]
    rw [← hN'] at hcN ⊢
    simp only [Nat.sub_self]
    refine Clean.cons (step_turn cfg (lo+1) (some lo) lo 0 wi wd _ false dn sn hcN hal (by omega) rfl) ?_
    refine Clean.cons (step_endForward cfg (lo+1) none _ _ dn sn hcN hal) ?_
    refine Clean.cons (step_reverse cfg (lo+1) (some (lo+1)) lo 0 none cps dn cps hcN hal (by omega) rfl) ?_
    have e1 : 0 + 1 = lo + 1 - lo := by omega
    rw [e1]; exact Clean.nil _ _


omit H in
theorem lvl_isStore (K : Nat) : (lvl K).isStore = true := by
  unfold lvl; split <;> rfl

/-- `Forward lo (lo+a) true false (lvl K)`: write a restart checkpoint -/
theorem write_step (base : List Cp) (lo0 hi0 : Nat) (K lo a hi : Nat) (wi wd : Option (Nat × Nat))
    (rest : List Cp) (e : Bool) (sn : List Cp)
    (h : lo + a ≤ hi) (hhi : hi ≤ c.N) (ha : 0 < a)
    (hr : Below rest lo) (hb : Outside base lo0 hi0) (h0 : lo0 ≤ lo) (h1 : lo < hi0)
    (hB : withinBudget cfg (⟨lo, lvl K, a, 0⟩ :: (rest ++ base)) = true) :
    step cfg (X (some lo) (c.N - hi) wi wd (rest ++ base) e dn sn)
        (Ev.obs (evFwd c lo (lo + a) hi (some K)) c.N)
      = (X (some (lo + a)) (c.N - hi) none none (⟨lo, lvl K, a, 0⟩ :: (rest ++ base)) e dn sn, []) :=
  step_write cfg c.N (fun _ => lvl K) 0 base lo0 hi0 (some lo) lo a (c.N - hi) wi wd rest e dn sn
    H.hN H.alive (by omega) ha rfl (lvl_isStore K) hr hb h0 h1 hB

/-- `Forward lo (lo+a) false false WORK`: plain advance -/
theorem plain_step (lo a hi : Nat) (wi wd : Option (Nat × Nat)) (cps : List Cp) (e : Bool)
    (sn : List Cp) (h : lo + a ≤ hi) (hhi : hi ≤ c.N) (ha : 0 < a) :
    step cfg (X (some lo) (c.N - hi) wi wd cps e dn sn)
        (Ev.obs (evFwd c lo (lo + a) hi none) c.N)
      = (X (some (lo + a)) (c.N - hi) none none cps e dn sn, []) :=
  step_plain cfg c.N (some lo) lo a (c.N - hi) wi wd cps e dn sn H.hN H.alive (by omega) ha rfl

theorem ram_budget (L : List Cp) (lo a : Nat)
    (h : countSt L .ram + 1 ≤ c.c0 ∧ countSt L .disk ≤ c.c1) :
    withinBudget cfg (⟨lo, .ram, a, 0⟩ :: L) = true := by
  rw [withinBudget_iff cfg c.c0 c.c1 H.ram H.disk, countSt_cons, countSt_cons]
  simp only [if_true]
  have : ¬ (Storage.ram = Storage.disk) := by decide
  simp only [this, if_false]
  omega

theorem lvl_budget (K cm : Nat) (L : List Cp) (lo a : Nat) (hinv : Inv c K cm L) (hcm : 1 ≤ cm) :
    withinBudget cfg (⟨lo, lvl K, a, 0⟩ :: L) = true := by
  rw [withinBudget_iff cfg c.c0 c.c1 H.ram H.disk, countSt_cons, countSt_cons]
  unfold Inv at hinv
  by_cases hK : K = 0
  · subst hK
    rw [if_pos rfl] at hinv
    have : ¬ (Storage.ram = Storage.disk) := by decide
    simp only [lvl_zero, if_true, this, if_false]
    omega
  · rw [if_neg hK] at hinv
    have : ¬ (Storage.disk = Storage.ram) := by decide
    simp only [lvl_pos K hK, if_true, this, if_false]
    omega

/-- the two-step segment, the first step re-stored in RAM -/
theorem unit_write_clean (base : List Cp) (lo0 hi0 : Nat) (hb : Outside base lo0 hi0)
    (lo : Nat) (spine : Bool) (wi wd : Option (Nat × Nat)) (rest : List Cp) (sn : List Cp)
    (hN : lo + 2 ≤ c.N) (hsp : spine = true → lo + 2 = c.N) (h0 : lo0 ≤ lo) (h1 : lo < hi0)
    (hr : Below rest lo)
    (hbud : countSt (rest ++ base) .ram + 1 ≤ c.c0 ∧ countSt (rest ++ base) .disk ≤ c.c1) :
    ∃ sn', (spine = false → sn' = sn) ∧
    Clean cfg (X (some lo) (c.N - (lo + 2)) wi wd (rest ++ base) (!spine) dn sn)
      (([evFwd c lo (lo + 1) (lo + 2) (some 0)] ++ evBase c (lo + 1) (lo + 2) spine ++
        [evLoad false lo .ram (c.N - (lo + 1))] ++ evBase c lo (lo + 1) false).map (Ev.obs · c.N))
      (X (some (lo + 1)) (c.N - lo) none none (rest ++ base) true dn sn') := by
  refine ⟨if spine then (⟨lo, .ram, 1, 0⟩ : Cp) :: (rest ++ base) else sn, fun h => by simp [h], ?_⟩
  have hw := write_step H base lo0 hi0 0 lo 1 (lo + 2) wi wd rest (!spine) sn (by omega) hN
    (by omega) hr hb h0 h1 (ram_budget H _ lo 1 hbud)
  have hb1 := evBase_clean H (lo + 1) spine none none ((⟨lo, .ram, 1, 0⟩ : Cp) :: (rest ++ base)) sn
    (by omega) hsp
  have hm := step_move cfg c.N base lo0 hi0 (some (lo + 1 + 1)) lo 1 (c.N - (lo + 1)) .ram rest dn
    (if spine then (⟨lo, .ram, 1, 0⟩ : Cp) :: (rest ++ base) else sn) H.hN H.alive rfl (by omega)
    (by omega) (by omega) hr hb h0 h1
  have hb2 := evBase_clean H lo false (some (lo, lo + 1)) none (rest ++ base)
    (if spine then (⟨lo, .ram, 1, 0⟩ : Cp) :: (rest ++ base) else sn) (by omega) (by simp)
  simp only [List.map_append, List.map_cons, List.cons_append, List.nil_append,
    List.append_assoc]
  refine Clean.cons hw (Clean.append hb1 (Clean.cons hm ?_))
  simpa using hb2

/-- the two-step segment, the checkpoint at `lo` being present -/
theorem unit_plain_clean (base : List Cp) (lo0 hi0 : Nat) (hb : Outside base lo0 hi0)
    (lo : Nat) (st : Storage) (kk : Nat) (wi wd : Option (Nat × Nat)) (rest : List Cp)
    (sn : List Cp) (hst : st.isStore = true) (hkk : 2 ≤ kk)
    (hN : lo + 2 ≤ c.N) (h0 : lo0 ≤ lo) (h1 : lo < hi0) (hr : Below rest lo) :
    Clean cfg (X (some lo) (c.N - (lo + 2)) wi wd (⟨lo, st, kk, 0⟩ :: (rest ++ base)) true dn sn)
      (([evFwd c lo (lo + 1) (lo + 2) none] ++ evBase c (lo + 1) (lo + 2) false ++
        [evLoad false lo st (c.N - (lo + 1))] ++ evBase c lo (lo + 1) false).map (Ev.obs · c.N))
      (X (some (lo + 1)) (c.N - lo) none none (rest ++ base) true dn sn) := by
  have hw := plain_step H lo 1 (lo + 2) wi wd ((⟨lo, st, kk, 0⟩ : Cp) :: (rest ++ base)) true sn
    (by omega) hN (by omega)
  have hb1 := evBase_clean H (lo + 1) false none none ((⟨lo, st, kk, 0⟩ : Cp) :: (rest ++ base)) sn
    (by omega) (by simp)
  have hm := step_move cfg c.N base lo0 hi0 (some (lo + 1 + 1)) lo kk (c.N - (lo + 1)) st rest dn
    sn H.hN H.alive hst (by omega) (by omega) (by omega) hr hb h0 h1
  have hb2 := evBase_clean H lo false (some (lo, lo + kk)) none (rest ++ base) sn (by omega) (by simp)
  simp only [List.map_append, List.map_cons, List.cons_append, List.nil_append,
    List.append_assoc]
  refine Clean.cons hw (Clean.append ?_ (Clean.cons hm ?_))
  · simpa using hb1
  · simpa using hb2

/-- the tail of the `cm = 1` loop: `n` further re-loads of `(lo, st)`, each followed by an advance
and the reversal of one step; then the last load (a `move`) and the first step -/
theorem loop_clean (base : List Cp) (lo0 hi0 : Nat) (hb : Outside base lo0 hi0)
    (lo : Nat) (kk : Nat) (rest : List Cp) (sn : List Cp) (h0 : lo0 ≤ lo) (h1 : lo < hi0)
    (hr : Below rest lo) :
    ∀ (n : Nat) (f : Option Nat), n + 1 ≤ kk → lo + n + 1 ≤ c.N →
    Clean cfg (X f (c.N - (lo + n + 1)) none none (⟨lo, .ram, kk, 0⟩ :: (rest ++ base)) true dn sn)
      (((List.range n).reverse.flatMap (loopEv c lo) ++
        [evLoad false lo .ram (c.N - (lo + 1))] ++ evBase c lo (lo + 1) false).map (Ev.obs · c.N))
      (X (some (lo + 1)) (c.N - lo) none none (rest ++ base) true dn sn) := by
  intro n
  induction n with
  | zero =>
    intro f hk hN
    have hm := step_move cfg c.N base lo0 hi0 f lo kk (c.N - (lo + 1)) .ram rest dn
      sn H.hN H.alive rfl (by omega) (by omega) (by omega) hr hb h0 h1
    have hb2 := evBase_clean H lo false (some (lo, lo + kk)) none (rest ++ base) sn (by omega)
      (by simp)
    simp only [List.range_zero, List.reverse_nil, List.flatMap_nil, List.nil_append,
      List.map_cons, List.cons_append]
    refine Clean.cons hm ?_
    simpa using hb2
  | succ n ih =>
    intro f hk hN
    rw [List.range_succ, List.reverse_append, List.reverse_singleton, List.singleton_append,
      List.flatMap_cons, List.append_assoc, List.append_assoc, loopEv_append, List.map_cons,
      List.map_cons, List.map_append]
    have hc := step_copy cfg c.N base f lo kk (c.N - (lo + n + 2)) .ram rest dn sn H.hN H.alive rfl
      (by omega) (by omega) (by omega)
    have hp := plain_step H lo (n + 1) (lo + n + 2) (some (lo, lo + kk)) none
      ((⟨lo, .ram, kk, 0⟩ : Cp) :: (rest ++ base)) true sn (by omega) (by omega) (by omega)
    have hb1 := evBase_clean H (lo + n + 1) false none none
      ((⟨lo, .ram, kk, 0⟩ : Cp) :: (rest ++ base)) sn (by omega) (by simp)
    have hrest := ih (some (lo + n + 1 + 1)) (by omega) (by omega)
    have e1 : lo + (n + 1) + 1 = lo + n + 2 := by omega
    have e2 : lo + (n + 1) = lo + n + 1 := by omega
    rw [e1]
    rw [e2] at hp
    refine Clean.cons hc (Clean.cons hp (Clean.append
      (x' := X (some (lo + n + 1 + 1)) (c.N - (lo + n + 1)) none none
        ((⟨lo, .ram, kk, 0⟩ : Cp) :: (rest ++ base)) true dn sn) ?_ ?_))
    · simpa using hb1
    · rw [← List.append_assoc]
      simpa using hrest

end blocks

/-! ## the Hoare triples of `hRs` and `hAs` -/

def rankR (K : Nat) : Nat := if K = 0 then 2 else 4
def rankA (K cm : Nat) : Nat := if K = 0 then (if cm ≤ 1 then 0 else 1) else 3

theorem Inv_push (c : HCtx) (K cm : Nat) (L : List Cp) (lo a : Nat) (h : Inv c K cm L)
    (hcm : 1 ≤ cm) : Inv c K (cm - 1) (⟨lo, lvl K, a, 0⟩ :: L) := by
  unfold Inv at h ⊢
  rw [countSt_cons, countSt_cons]
  by_cases hK : K = 0
  · subst hK
    rw [if_pos rfl] at h ⊢
    have : ¬ (Storage.ram = Storage.disk) := by decide
    simp only [lvl_zero, if_true, this, if_false]
    omega
  · rw [if_neg hK] at h ⊢
    have : ¬ (Storage.disk = Storage.ram) := by decide
    simp only [lvl_pos K hK, if_true, this, if_false]
    omega

theorem Inv_down (c : HCtx) (K cm : Nat) (L : List Cp) (h : Inv c K cm L) (hK : K ≠ 0) :
    Inv c 0 c.c0 L := by
  unfold Inv at h ⊢
  rw [if_neg hK] at h
  rw [if_pos rfl]
  omega

theorem Inv_one (c : HCtx) (cm : Nat) (L : List Cp) (h : Inv c 0 cm L) (hcm : 1 ≤ cm) :
    Inv c 0 1 L := by
  unfold Inv at h ⊢
  rw [if_pos rfl] at h ⊢
  omega

theorem Inv_ram (c : HCtx) (K cm : Nat) (L : List Cp) (h : Inv c K cm L) (hc0 : 1 ≤ c.c0)
    (hcm : K = 0 → 1 ≤ cm) :
    countSt L .ram + 1 ≤ c.c0 ∧ countSt L .disk ≤ c.c1 := by
  unfold Inv at h
  by_cases hK : K = 0
  · rw [if_pos hK] at h; have := hcm hK; omega
  · rw [if_neg hK] at h; omega

/-- what is proved about a call of `hRs`: forward in WORK at `lo`, adjoint at `hi`, stack `rest`
(keys `< lo`) ⟶ adjoint at `lo`, same stack -/
def RTriple (cfg : Cfg) (c : HCtx) (dn : Nat) (base : List Cp) (lo0 hi0 fuel : Nat) : Prop :=
  ∀ (lo hi K cm : Nat) (spine : Bool) (rest : List Cp) (wi wd : Option (Nat × Nat)) (sn : List Cp),
    4 * (hi - lo) + rankR K ≤ fuel → lo < hi → hi ≤ c.N → lo0 ≤ lo → hi ≤ hi0 →
    (spine = true → hi = c.N) → K ≤ 1 → (K = 0 → 1 ≤ cm) → Below rest lo →
    Inv c K cm (rest ++ base) →
    ∃ evs sn', hRs c fuel lo hi K cm spine = some evs ∧ (spine = false → sn' = sn) ∧
      Clean cfg (X (some lo) (c.N - hi) wi wd (rest ++ base) (!spine) dn sn)
        (evs.map (Ev.obs · c.N))
        (X (some (lo + 1)) (c.N - lo) none none (rest ++ base) true dn sn')

/-- what is proved about a call of `hAs`; `pres`: the checkpoint `⟨lo, lvl K, kk, 0⟩` is on top
of the stack (it was just re-loaded by a `copy`) -/
def ATriple (cfg : Cfg) (c : HCtx) (dn : Nat) (base : List Cp) (lo0 hi0 fuel : Nat) : Prop :=
  ∀ (lo hi K cm : Nat) (spine : Bool) (pending : Option Nat) (pres : Bool) (rest : List Cp)
    (kk : Nat) (wi wd : Option (Nat × Nat)) (sn : List Cp),
    4 * (hi - lo) + rankA K cm ≤ fuel → lo < hi → hi ≤ c.N → lo0 ≤ lo → hi ≤ hi0 →
    (spine = true → hi = c.N) → K ≤ 1 → 1 ≤ cm → Below rest lo →
    Inv c K cm (rest ++ base) →
    (pending = none ∨ pending = some K) →
    (pending = some K → 2 ≤ hi - lo - 1 ∧ (K = 1 → hSplit c 1 cm (hi - lo - 1) = true)) →
    (pending = none → spine = false) →
    pres = (pending.isNone && reloads c K cm (hi - lo - 1)) →
    (pres = true → hi ≤ lo + kk) →
    ∃ evs sn', hAs c fuel lo hi K cm spine pending = some evs ∧ (spine = false → sn' = sn) ∧
      Clean cfg
        (X (some lo) (c.N - hi) wi wd ((if pres then ⟨lo, lvl K, kk, 0⟩ :: rest else rest) ++ base)
          (!spine) dn sn)
        (evs.map (Ev.obs · c.N))
        (X (some (lo + 1)) (c.N - lo) none none (rest ++ base) true dn sn')

theorem hrev_ok {cfg : Cfg} {c : HCtx} {dn : Nat} (H : HHyp cfg c dn) (base : List Cp)
    (lo0 hi0 : Nat) (hb : Outside base lo0 hi0) :
    ∀ fuel, RTriple cfg c dn base lo0 hi0 fuel ∧ ATriple cfg c dn base lo0 hi0 fuel := by
  intro fuel
  induction fuel with
  | zero =>
    constructor
    · intro lo hi K cm spine rest wi wd sn hf hlt; omega
    · intro lo hi K cm spine pending pres rest kk wi wd sn hf hlt; omega
  | succ fuel ih =>
    obtain ⟨ihR, ihA⟩ := ih
    constructor
    · -- hRs
      intro lo hi K cm spine rest wi wd sn hf hlt hN hlo0 hhi0 hsp hK hcm hbelow hinv
      rw [hRs_succ]
      by_cases h0 : hi - lo - 1 = 0
      · rw [if_pos h0]
        obtain rfl : hi = lo + 1 := by omega
        refine ⟨_, _, rfl, fun h => ?_, evBase_clean H lo spine wi wd _ sn hN hsp⟩
        simp [h]
      rw [if_neg h0, if_neg (by omega : ¬ (K = 0 ∧ cm = 0))]
      by_cases h1 : hi - lo - 1 = 1
      · rw [if_pos h1]
        obtain rfl : hi = lo + 2 := by omega
        obtain ⟨sn', hsn, hcl⟩ := unit_write_clean H base lo0 hi0 hb lo spine wi wd rest sn hN hsp
          hlo0 (by omega) hbelow (Inv_ram c K cm _ hinv H.c0pos hcm)
        exact ⟨_, sn', rfl, hsn, hcl⟩
      rw [if_neg h1]
      by_cases h3 : K = 0
      · subst h3
        rw [if_pos rfl]
        obtain ⟨evs, sn', he, hsn, hcl⟩ := ihA lo hi 0 cm spine (some 0) false rest 0 wi wd sn
          (by unfold rankR at hf; unfold rankA; split_ifs <;> simp at hf ⊢ <;> omega)
          hlt hN hlo0 hhi0 hsp (by omega) (hcm rfl) hbelow hinv (Or.inr rfl)
          (fun _ => ⟨by omega, fun h => by omega⟩) (fun h => by cases h) (by simp) (by simp)
        refine ⟨evs, sn', he, hsn, ?_⟩
        simpa only [Bool.false_eq_true, if_false] using hcl
      rw [if_neg h3]
      have hK1 : K = 1 := by omega
      subst hK1
      by_cases h4 : olt (oadd (some (c.w 1)) (c.tab.optp 1 (hi - lo - 1) cm))
          (c.tab.opt (1 - 1) (hi - lo - 1) (cv c (1 - 1))) = true
      · rw [if_pos h4]
        have h4' : olt (oadd (some (c.w 1)) (c.tab.optp 1 (hi - lo - 1) cm))
            (c.tab.opt 0 (hi - lo - 1) c.c0) = true := h4
        obtain ⟨hcm0, hsplit⟩ := H.tab (hi - lo - 1) cm (by omega) h4'
        obtain ⟨evs, sn', he, hsn, hcl⟩ := ihA lo hi 1 cm spine (some 1) false rest 0 wi wd sn
          (by unfold rankR at hf; unfold rankA; simp at hf ⊢; omega)
          hlt hN hlo0 hhi0 hsp (by omega) (by omega) hbelow hinv (Or.inr rfl)
          (fun _ => ⟨by omega, fun _ => hsplit⟩) (fun h => by cases h) (by simp) (by simp)
        refine ⟨evs, sn', he, hsn, ?_⟩
        simpa only [Bool.false_eq_true, if_false] using hcl
      · rw [if_neg h4]
        exact ihR lo hi (1 - 1) (cv c (1 - 1)) spine rest wi wd sn
          (by unfold rankR at hf ⊢; simp at hf ⊢; omega) hlt hN hlo0 hhi0 hsp (by omega)
          (fun _ => H.c0pos) hbelow (Inv_down c 1 cm _ hinv (by omega))
    · -- hAs
      intro lo hi K cm spine pending pres rest kk wi wd sn hf hlt hN hlo0 hhi0 hsp hK hcm hbelow
        hinv hp hpend hpsp hpres hkk
      rw [hAs_succ, if_neg (by omega : ¬ cm = 0)]
      by_cases h0 : hi - lo - 1 = 0
      · rw [if_pos h0]
        have hpn : pending = none := by
          rcases hp with h | h
          · exact h
          · have := (hpend h).1; omega
        subst hpn
        obtain rfl : hi = lo + 1 := by omega
        have hpf : pres = false := by rw [hpres, h0]; simp [reloads]
        subst hpf
        simp only [Option.isSome_none, Bool.false_eq_true, if_false]
        refine ⟨_, _, rfl, fun h => ?_, evBase_clean H lo spine wi wd _ sn hN hsp⟩
        simp [h]
      rw [if_neg h0]
      by_cases h1 : hi - lo - 1 = 1
      · rw [if_pos h1]
        have hpn : pending = none := by
          rcases hp with h | h
          · exact h
          · have := (hpend h).1; omega
        subst hpn
        have hspf := hpsp rfl
        subst hspf
        obtain rfl : hi = lo + 2 := by omega
        simp only [Option.isSome_none, Bool.false_eq_true, if_false]
        by_cases ht : c.w 0 + c.rr 0 < c.rr K
        · rw [if_pos ht]
          have hK0 : K ≠ 0 := by intro h; subst h; omega
          have hpf : pres = false := by rw [hpres, h1]; simp [reloads, ht]
          subst hpf
          obtain ⟨sn', hsn, hcl⟩ := unit_write_clean H base lo0 hi0 hb lo false wi wd rest sn hN
            (by simp) hlo0 (by omega) hbelow
            (Inv_ram c K cm _ hinv H.c0pos (fun h => absurd h hK0))
          refine ⟨_, sn', rfl, fun _ => hsn rfl, ?_⟩
          simpa only [Bool.false_eq_true, if_false] using hcl
        · rw [if_neg ht]
          have hpt : pres = true := by rw [hpres, h1]; simp [reloads, ht]
          subst hpt
          have hkk' := hkk rfl
          refine ⟨_, sn, rfl, fun _ => rfl, ?_⟩
          simp only [if_true, List.cons_append, Bool.not_false]
          exact unit_plain_clean H base lo0 hi0 hb lo (lvl K) kk wi wd rest sn (lvl_isStore K)
            (by omega) hN hlo0 (by omega) hbelow
      rw [if_neg h1]
      have hl2 : 2 ≤ hi - lo - 1 := by omega
      by_cases h2 : K = 0 ∧ cm = 1
      · -- the `cm = 1` loop
        rw [if_pos h2]
        obtain ⟨hK0, hcm1⟩ := h2
        subst hK0
        subst hcm1
        obtain ⟨l', hl'⟩ : ∃ l', hi - lo - 1 = l' + 1 := ⟨hi - lo - 1 - 1, by omega⟩
        have hl1 : 1 ≤ l' := by omega
        obtain rfl : hi = lo + l' + 2 := by omega
        rw [hl', hAs_loop_body c lo l' spine pending _ rfl]
        -- the checkpoint after the first action
        have hfirst : ∃ kk', l' + 1 ≤ kk' ∧
            Clean cfg
              (X (some lo) (c.N - (lo + l' + 2)) wi wd
                ((if pres then ⟨lo, lvl 0, kk, 0⟩ :: rest else rest) ++ base) (!spine) dn sn)
              [Ev.obs (evFwd c lo (lo + l' + 1) (lo + l' + 2) pending) c.N]
              (X (some (lo + l' + 1)) (c.N - (lo + l' + 2)) none none
                (⟨lo, .ram, kk', 0⟩ :: (rest ++ base)) (!spine) dn sn) := by
          rcases hp with rfl | rfl
          · have hpt : pres = true := by
              rw [hpres, hl', reloads_zero c 1 (l' + 1) (by omega)]; rfl
            subst hpt
            have hkk' := hkk rfl
            refine ⟨kk, by omega, ?_⟩
            simp only [if_true, List.cons_append, lvl_zero]
            exact Clean.single (plain_step H lo (l' + 1) (lo + l' + 2) wi wd _ _ sn (by omega) hN
              (by omega))
          · have hpf : pres = false := by rw [hpres]; rfl
            subst hpf
            refine ⟨l' + 1, le_refl _, ?_⟩
            simp only [Bool.false_eq_true, if_false]
            exact Clean.single (write_step H base lo0 hi0 0 lo (l' + 1) (lo + l' + 2) wi wd rest
              (!spine) sn (by omega) hN (by omega) hbelow hb hlo0 (by omega)
              (lvl_budget H 0 1 _ lo (l' + 1) hinv (le_refl _)))
        obtain ⟨kk', hkk', hfirst⟩ := hfirst
        have hb1 := evBase_clean H (lo + l' + 1) spine none none
          ((⟨lo, .ram, kk', 0⟩ : Cp) :: (rest ++ base)) sn (by omega) (fun h => by
            have := hsp h; omega)
        have hloop := loop_clean H base lo0 hi0 hb lo kk' rest
          (if spine then (⟨lo, .ram, kk', 0⟩ : Cp) :: (rest ++ base) else sn) hlo0 (by omega) hbelow
          l' (some (lo + l' + 1 + 1)) hkk' (by omega)
        refine ⟨_, (if spine then (⟨lo, .ram, kk', 0⟩ : Cp) :: (rest ++ base) else sn), rfl,
          fun h => ?_, ?_⟩
        · simp [h]
        · simp only [List.map_append, List.map_cons, List.cons_append,
            List.nil_append, List.append_assoc]
          refine Clean.append hfirst (Clean.append (by simpa using hb1) ?_)
          simpa only [List.map_append, List.map_cons, List.map_nil, List.cons_append,
            List.nil_append, List.append_assoc] using hloop
      rw [if_neg h2]
      by_cases h3 : hSplit c K cm (hi - lo - 1) = true
      · -- a split
        rw [if_pos h3]
        obtain ⟨hj1, hj2⟩ := hSplit_range c K cm (hi - lo - 1) hl2
        generalize argminO (hCands c K cm (hi - lo - 1)) = j at hj1 hj2 ⊢
        have hrel : reloads c K cm (hi - lo - 1) = true := by
          by_cases hK0 : K = 0
          · subst hK0; exact reloads_zero c cm _ hl2
          · rw [reloads_pos c K cm _ hl2 hK0]; exact h3
        -- first action
        have hfirst : ∃ kk', j ≤ kk' ∧
            Clean cfg
              (X (some lo) (c.N - hi) wi wd
                ((if pres then ⟨lo, lvl K, kk, 0⟩ :: rest else rest) ++ base) (!spine) dn sn)
              [Ev.obs (evFwd c lo (lo + j) hi pending) c.N]
              (X (some (lo + j)) (c.N - hi) none none
                (⟨lo, lvl K, kk', 0⟩ :: (rest ++ base)) (!spine) dn sn) := by
          rcases hp with rfl | rfl
          · have hpt : pres = true := by rw [hpres, hrel]; rfl
            subst hpt
            have hkk' := hkk rfl
            refine ⟨kk, by omega, ?_⟩
            simp only [if_true, List.cons_append]
            exact Clean.single (plain_step H lo j hi wi wd _ _ sn (by omega) hN (by omega))
          · have hpf : pres = false := by rw [hpres]; rfl
            subst hpf
            refine ⟨j, le_refl _, ?_⟩
            simp only [Bool.false_eq_true, if_false]
            exact Clean.single (write_step H base lo0 hi0 K lo j hi wi wd rest
              (!spine) sn (by omega) hN (by omega) hbelow hb hlo0 (by omega)
              (lvl_budget H K cm _ lo j hinv hcm))
        obtain ⟨kk', hkk', hfirst⟩ := hfirst
        -- right part
        obtain ⟨right, sn1, hright, hsn1, hcl_right⟩ := ihR (lo + j) hi K (cm - 1) spine
          (⟨lo, lvl K, kk', 0⟩ :: rest) none none sn
          (by unfold rankA at hf; unfold rankR; split_ifs at hf ⊢ <;> omega)
          (by omega) hN (by omega) hhi0 hsp hK (fun h => by omega)
          (hbelow.cons rfl (by omega)) (by
            have := Inv_push c K cm (rest ++ base) lo kk' hinv hcm
            simpa only [List.cons_append] using this)
        rw [hright]
        -- left part
        have hpl : (reloads c K cm (j - 1)) =
            ((none : Option Nat).isNone && reloads c K cm (lo + j - lo - 1)) := by
          rw [show lo + j - lo - 1 = j - 1 by omega]; rfl
        obtain ⟨left, sn2, hleft, hsn2, hcl_left⟩ := ihA lo (lo + j) K cm false none
          (reloads c K cm (j - 1)) rest kk' (some (lo, lo + kk')) none sn1
          (by unfold rankA at hf ⊢; split_ifs at hf ⊢ <;> omega)
          (by omega) (by omega) hlo0 (by omega) (by simp) hK hcm hbelow hinv (Or.inl rfl)
          (fun h => by cases h) (fun _ => rfl) hpl (fun _ => by omega)
        rw [hleft]
        refine ⟨_, sn2, rfl, fun h => by rw [hsn2 rfl, hsn1 h], ?_⟩
        simp only [List.map_append, List.map_cons, List.cons_append,
          List.nil_append, List.append_assoc, Bool.not_false] at hcl_right hcl_left ⊢
        refine Clean.append hfirst (Clean.append hcl_right ?_)
        cases hrl : reloads c K cm (j - 1) with
        | true =>
          rw [hrl] at hcl_left
          simp only [if_true, List.cons_append] at hcl_left
          refine Clean.cons ?_ hcl_left
          exact step_copy cfg c.N base (some (lo + j + 1)) lo kk' (c.N - (lo + j)) (lvl K) rest dn sn1
            H.hN H.alive (lvl_isStore K) (by omega) (by omega) (by omega)
        | false =>
          rw [hrl] at hcl_left
          simp only [Bool.false_eq_true, if_false] at hcl_left
          refine Clean.cons ?_ hcl_left
          exact step_move cfg c.N base lo0 hi0 (some (lo + j + 1)) lo kk' (c.N - (lo + j)) (lvl K)
            rest dn sn1 H.hN H.alive (lvl_isStore K) (by omega) (by omega) (by omega) hbelow hb
            hlo0 (by omega)
      rw [if_neg h3]
      by_cases h4 : K = 0
      · subst h4
        rw [if_pos rfl]
        have hcm2 : 2 ≤ cm := by
          by_contra hh
          exact h2 ⟨rfl, by omega⟩
        exact ihA lo hi 0 1 spine pending pres rest kk wi wd sn
          (by unfold rankA at hf ⊢; split_ifs at hf ⊢ <;> omega)
          hlt hN hlo0 hhi0 hsp (by omega) (le_refl _) hbelow (Inv_one c cm _ hinv hcm) hp
          (fun h => ⟨(hpend h).1, fun h1 => by omega⟩) hpsp
          (by rw [hpres, reloads_zero c cm _ hl2, reloads_zero c 1 _ hl2]) hkk
      · rw [if_neg h4]
        have hK1 : K = 1 := by omega
        subst hK1
        have hpn : pending = none := by
          rcases hp with h | h
          · exact h
          · exact absurd ((hpend h).2 rfl) h3
        subst hpn
        have hpf : pres = false := by
          rw [hpres, reloads_pos c 1 cm _ hl2 (by omega)]
          simpa using h3
        subst hpf
        simp only [Option.isSome_none, Bool.false_eq_true, if_false]
        exact ihR lo hi (1 - 1) (cv c (1 - 1)) spine rest wi wd sn
          (by unfold rankA at hf; unfold rankR; simp at hf ⊢; omega) hlt hN hlo0 hhi0 hsp (by omega)
          (fun _ => H.c0pos) hbelow (Inv_down c 1 cm _ hinv (by omega))

/-! ## the complete stream -/

/-- the context `hrevolveEvs` runs the recursion in -/
def hCtxOf (N c0 c1 : Nat) (c : Costs) : HCtx :=
  { N := N, c0 := c0, c1 := c1, uf := c.uf,
    w := fun K => if K = 0 then 0 else c.wd, rr := fun K => if K = 0 then 0 else c.rd,
    tab := hoptTable (N - 1) c0 c1 0 c.wd 0 c.rd c.ub c.uf }

/-- the only fact about the cost table the acceptance proof uses -/
def TabOk (c : HCtx) : Prop :=
  ∀ l cm, 2 ≤ l →
    olt (oadd (some (c.w 1)) (c.tab.optp 1 l cm)) (c.tab.opt 0 l c.c0) = true →
    cm ≠ 0 ∧ hSplit c 1 cm l = true

theorem hrevolveEvs_eq (N c0 c1 : Nat) (c : Costs) :
    hrevolveEvs N c0 c1 c =
      match hR (hCtxOf N c0 c1 c) (4 * N + 8) 0 N 1 c1 true with
      | none => .error (.later "hrevolve")
      | some ops => .ok (resolveLoads ops ++ [⟨.endReverse, 1, N⟩]) := rfl

/-- acceptance of the HRevolve stream, given the table fact -/
theorem hrevolve_clean_of_tab (N c0 c1 : Nat) (c : Costs) (hN : 1 ≤ N) (hc0 : 1 ≤ c0)
    (htab : TabOk (hCtxOf N c0 c1 c)) :
    ∃ evs sn, hrevolveEvs N c0 c1 c = .ok (evs ++ [⟨.endReverse, 1, N⟩]) ∧
      Clean (cfgHRevolve c0 c1 N) (XS.init (cfgHRevolve c0 c1 N))
        (evs.map (Ev.obs · N) ++ [⟨.endReverse, 1, N, some N, true, true⟩])
        (X (some 1) N none none [] true 1 sn) := by
  have H : HHyp (cfgHRevolve c0 c1 N) (hCtxOf N c0 c1 c) 0 :=
    { hN := rfl
      alive := ⟨by simp [cfgHRevolve], by intro k hk; simp [cfgHRevolve] at hk; omega⟩
      ram := rfl
      disk := rfl
      c0pos := hc0
      tab := htab }
  have hNe : (hCtxOf N c0 c1 c).N = N := rfl
  obtain ⟨evs, sn', hevs, _, hclean⟩ := (hrev_ok H [] 0 N (by intro cp hcp; cases hcp)
    (4 * N + 8)).1 0 N 1 c1 true [] none none []
    (by unfold rankR; simp) (by omega) (le_refl _) (le_refl _) (le_refl _)
    (fun _ => rfl) (le_refl _) (fun h => by cases h) (by intro cp hcp; cases hcp)
    (by unfold Inv; simp [countSt]; exact le_refl c1)
  have hres := resolveLoads_hR (hCtxOf N c0 c1 c) (4 * N + 8) 0 N 1 c1 true (le_refl _)
  rw [hevs] at hres
  refine ⟨evs, sn', ?_, ?_⟩
  · rw [hrevolveEvs_eq]
    cases hr : hR (hCtxOf N c0 c1 c) (4 * N + 8) 0 N 1 c1 true with
    | none => rw [hr] at hres; cases hres
    | some ops =>
      rw [hr, Option.map_some] at hres
      cases hres
      rfl
  · have hinit : XS.init (cfgHRevolve c0 c1 N) = X (some 0) (N - N) none none ([] ++ []) (!true) 0 [] := by
      simp [XS.init, X, cfgHRevolve]
    rw [hinit]
    rw [hNe] at hclean
    refine Clean.append hclean ?_
    have : N - 0 = N := by omega
    rw [this]
    exact Clean.single (step_endReverse_final (cfgHRevolve c0 c1 N) N 1 sn' rfl rfl)

/-- the table `hrevolveEvs` builds has the required property (`HOpt.lean`) -/
theorem tabOk_hCtxOf (N c0 c1 : Nat) (c : Costs) : TabOk (hCtxOf N c0 c1 c) := by
  intro l cm hl h
  exact hoptTable_split (N - 1) c0 c1 0 c.wd 0 c.rd c.ub c.uf l cm hl _ h

/-- `HRevolveCheckpointSchedule(N, c0, c1, costs)`: the stream is accepted by the specification
executor under `cfgHRevolve c0 c1 N` (RAM ≤ `c0`, DISK ≤ `c1`, one adjoint pass), for every
`N ≥ 1`, `c0 ≥ 1`, every `c1` and every cost vector. -/
theorem hrevolve_clean (N c0 c1 : Nat) (c : Costs) (hN : 1 ≤ N) (hc0 : 1 ≤ c0) :
    ∃ evs sn, hrevolveEvs N c0 c1 c = .ok (evs ++ [⟨.endReverse, 1, N⟩]) ∧
      Clean (cfgHRevolve c0 c1 N) (XS.init (cfgHRevolve c0 c1 N))
        (evs.map (Ev.obs · N) ++ [⟨.endReverse, 1, N, some N, true, true⟩])
        (X (some 1) N none none [] true 1 sn) :=
  hrevolve_clean_of_tab N c0 c1 c hN hc0 (tabOk_hCtxOf N c0 c1 c)

end Ckpt
