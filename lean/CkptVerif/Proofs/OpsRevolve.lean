import CkptVerif.Proofs.OpsRefine
import CkptVerif.Proofs.Argmin
/-!
# Refinement for Revolve: the twin's stream is the recursive stream model `revSeg`

`revOpsAt`: the operations of `revolve(l, cm)` shifted to offset `lo`, in block form
(`shiftOps_revolveOps`).  `revolve_block`: converting them yields the events of `segWith`
(`stored = false`), and converting `Read_memory lo` followed by them without the leading
`Write_memory` yields the events of `segWith` with `stored = true`.
-/
namespace Ckpt.Ops

/-! ## shifting -/

theorem shiftOp_fwd (s a b : Nat) : shiftOp s (Op.fwd a b) = Op.fwd (s + a) (s + b) := by
  simp [shiftOp, Op.fwd, Nat.add_comm]
theorem shiftOp_bwd (s a b : Nat) : shiftOp s (Op.bwd a b) = Op.bwd (s + a) (s + b) := by
  simp [shiftOp, Op.bwd, Nat.add_comm]
theorem shiftOp_wm (s n : Nat) : shiftOp s (Op.wm n) = Op.wm (s + n) := by
  simp [shiftOp, Op.wm, Nat.add_comm]
theorem shiftOp_rm (s n : Nat) : shiftOp s (Op.rm n) = Op.rm (s + n) := by
  simp [shiftOp, Op.rm, Nat.add_comm]
theorem shiftOp_dm (s n : Nat) : shiftOp s (Op.dm n) = Op.dm (s + n) := by
  simp [shiftOp, Op.dm, Nat.add_comm]
theorem shiftOp_wfm (s n : Nat) : shiftOp s (Op.wfm n) = Op.wfm (s + n) := by
  simp [shiftOp, Op.wfm, Nat.add_comm]
theorem shiftOp_dfm (s n : Nat) : shiftOp s (Op.dfm n) = Op.dfm (s + n) := by
  simp [shiftOp, Op.dfm, Nat.add_comm]
theorem shiftOp_wd (s n : Nat) : shiftOp s (Op.wd n) = Op.wd (s + n) := by
  simp [shiftOp, Op.wd, Nat.add_comm]
theorem shiftOp_rd (s n : Nat) : shiftOp s (Op.rd n) = Op.rd (s + n) := by
  simp [shiftOp, Op.rd, Nat.add_comm]

theorem shiftOp_shiftOp (s j : Nat) (o : Op) : shiftOp s (shiftOp j o) = shiftOp (s + j) o := by
  obtain ⟨k, lv, a, b⟩ := o
  cases k <;> simp [shiftOp] <;> omega

theorem shiftOps_shiftOps (s j : Nat) (ops : List Op) :
    shiftOps s (shiftOps j ops) = shiftOps (s + j) ops := by
  unfold shiftOps
  rw [List.map_map]
  apply List.map_congr_left
  intro o _
  exact shiftOp_shiftOp s j o

theorem shiftOps_append (s : Nat) (a b : List Op) :
    shiftOps s (a ++ b) = shiftOps s a ++ shiftOps s b := by
  unfold shiftOps; rw [List.map_append]

theorem shiftOp_kind (s : Nat) (o : Op) : (shiftOp s o).kind = o.kind := by
  obtain ⟨k, lv, a, b⟩ := o
  cases k <;> rfl

theorem removeUselessWm_shift (s : Nat) (ops : List Op) :
    removeUselessWm (shiftOps s ops) = shiftOps s (removeUselessWm ops) := by
  cases ops with
  | nil => rfl
  | cons o rest =>
    show (if (shiftOp s o).kind = .writeMemory then shiftOps s rest else shiftOp s o :: shiftOps s rest) = _
    rw [shiftOp_kind]
    by_cases h : o.kind = .writeMemory
    · rw [if_pos h]; simp [removeUselessWm, h]
    · rw [if_neg h]; simp [removeUselessWm, h, shiftOps]

theorem shiftOps_turn (s lo : Nat) : shiftOps s (turnOps lo) = turnOps (s + lo) := by
  simp [shiftOps, turnOps, shiftOp_wfm, shiftOp_fwd, shiftOp_bwd, shiftOp_dfm, Nat.add_assoc]

/-! ## `revolve(l, cm)` at offset `lo`, in block form -/

/-- the stored segment `[lo, lo+n+1)` with one slot: re-load, advance, one step back, … -/
def qLoop (lo : Nat) : Nat → List Op
  | 0 => [Op.rm lo] ++ turnOps lo ++ [Op.dm lo]
  | n+1 => [Op.rm lo, Op.fwd lo (lo + n + 1)] ++ turnOps (lo + n + 1) ++ qLoop lo n

def revOpsAt (t0 : Array (Array Nat)) (uf : Nat) : (fuel lo l cm : Nat) → Option (List Op)
  | 0, _, _, _ => none
  | fuel+1, lo, l, cm =>
    if l = 0 then some (turnOps lo ++ [Op.dm lo])
    else if cm = 0 then none
    else if l = 1 ∨ cm = 1 then
      some ([Op.wm lo, Op.fwd lo (lo + l)] ++ turnOps (lo + l) ++ qLoop lo (l - 1))
    else
      let listMem := (List.range' 1 (l - 1)).map (fun j =>
        some (j * uf + opt0Get t0 (cm - 1) (l - j) + opt0Get t0 cm (j - 1)))
      let jmin := argminO listMem
      match revOpsAt t0 uf fuel (lo + jmin) (l - jmin) (cm - 1) with
      | none => none
      | some right =>
        match revOpsAt t0 uf fuel lo (jmin - 1) cm with
        | none => none
        | some left =>
          some ([Op.wm lo, Op.fwd lo (lo + jmin)] ++ right ++ [Op.rm lo] ++ removeUselessWm left)

theorem shiftOps_qLoop (s lo : Nat) : ∀ n, shiftOps s (qLoop lo n) = qLoop (s + lo) n := by
  intro n
  induction n with
  | zero =>
    rw [qLoop, qLoop, shiftOps_append, shiftOps_append, shiftOps_turn]
    simp [shiftOps, shiftOp_rm, shiftOp_dm]
  | succ n ih =>
    rw [qLoop, qLoop, shiftOps_append, shiftOps_append, ih, shiftOps_turn]
    simp [shiftOps, shiftOp_rm, shiftOp_fwd, Nat.add_assoc]

/-- shifting the block form -/
theorem shift_revOpsAt (t0 : Array (Array Nat)) (uf : Nat) :
    ∀ (fuel s lo l cm : Nat),
      (revOpsAt t0 uf fuel lo l cm).map (shiftOps s) = revOpsAt t0 uf fuel (s + lo) l cm := by
  intro fuel
  induction fuel with
  | zero => intro s lo l cm; rfl
  | succ fuel ih =>
    intro s lo l cm
    rw [revOpsAt, revOpsAt]
    by_cases h0 : l = 0
    · rw [if_pos h0, if_pos h0, Option.map_some, shiftOps_append, shiftOps_turn]
      simp [shiftOps, shiftOp_dm]
    rw [if_neg h0, if_neg h0]
    by_cases hc : cm = 0
    · rw [if_pos hc, if_pos hc]; rfl
    rw [if_neg hc, if_neg hc]
    by_cases h1 : l = 1 ∨ cm = 1
    · rw [if_pos h1, if_pos h1, Option.map_some, shiftOps_append, shiftOps_append, shiftOps_turn,
        shiftOps_qLoop]
      simp [shiftOps, shiftOp_wm, shiftOp_fwd, Nat.add_assoc]
    rw [if_neg h1, if_neg h1]
    dsimp only
    generalize argminO ((List.range' 1 (l - 1)).map (fun j =>
        some (j * uf + opt0Get t0 (cm - 1) (l - j) + opt0Get t0 cm (j - 1)))) = j
    rw [Nat.add_assoc s lo j, ← ih s (lo + j) _ _, ← ih s lo _ _]
    cases revOpsAt t0 uf fuel (lo + j) (l - j) (cm - 1) with
    | none => rfl
    | some right =>
      cases revOpsAt t0 uf fuel lo (j - 1) cm with
      | none => rfl
      | some left =>
        simp only [Option.map_some]
        rw [shiftOps_append, shiftOps_append, shiftOps_append, removeUselessWm_shift]
        simp [shiftOps, shiftOp_wm, shiftOp_fwd, shiftOp_rm]

/-- the `cm == 1` loop of `revolve`, iterations `n-1, …, 0`, followed by the final block -/
theorem revolve_loop_eq (l : Nat) : ∀ n, n + 1 ≤ l →
    (List.range n).reverse.flatMap (revolveLoopBody l) ++
      [Op.rm 0, Op.wfm 1, Op.fwd 0 1, Op.bwd 1 0, Op.dfm 1, Op.dm 0] = qLoop 0 n := by
  intro n
  induction n with
  | zero => intro _; simp [qLoop, turnOps]
  | succ n ih =>
    intro hn
    have hr : (List.range (n + 1)).reverse = n :: (List.range n).reverse := by
      rw [List.range_succ, List.reverse_append]; rfl
    rw [hr, List.flatMap_cons, List.append_assoc, ih (by omega)]
    have h1 : n ≠ l - 1 := by omega
    simp [revolveLoopBody, qLoop, turnOps, h1]

/-- `revolve(l, cm)` is the block form at offset `0` -/
theorem revolveOps_eq_at (t0 : Array (Array Nat)) (uf : Nat) :
    ∀ (fuel l cm : Nat), revolveOps t0 uf fuel l cm = revOpsAt t0 uf fuel 0 l cm := by
  intro fuel
  induction fuel with
  | zero => intro l cm; rfl
  | succ fuel ih =>
    intro l cm
    rw [revolveOps, revOpsAt]
    by_cases h0 : l = 0
    · simp [h0, turnOps]
    rw [if_neg h0, if_neg h0]
    by_cases hc : cm = 0
    · simp [hc]
    rw [if_neg hc, if_neg hc]
    by_cases h1 : l = 1
    · subst h1
      simp [qLoop, turnOps]
    rw [if_neg h1]
    by_cases hc1 : cm = 1
    · rw [if_pos hc1, if_pos (Or.inr hc1)]
      obtain ⟨l', rfl⟩ : ∃ l', l = l' + 1 := ⟨l - 1, by omega⟩
      have hr : (List.range (l' + 1)).reverse = l' :: (List.range l').reverse := by
        rw [List.range_succ, List.reverse_append]; rfl
      rw [hr, List.flatMap_cons]
      have := revolve_loop_eq (l' + 1) l' (by omega)
      simp only [List.append_assoc] at this ⊢
      rw [this]
      simp [revolveLoopBody, turnOps]
    rw [if_neg hc1, if_neg (by omega)]
    dsimp only
    generalize argminO ((List.range' 1 (l - 1)).map (fun j =>
        some (j * uf + opt0Get t0 (cm - 1) (l - j) + opt0Get t0 cm (j - 1)))) = j
    rw [ih, ih, Nat.zero_add, ← Nat.add_zero j, ← shift_revOpsAt t0 uf fuel j 0, Nat.add_zero]
    cases revOpsAt t0 uf fuel 0 (l - j) (cm - 1) with
    | none => rfl
    | some right => simp; rfl

/-- `revolve(l, cm)` shifted by `lo` is the block form at offset `lo` -/
theorem shiftOps_revolveOps (t0 : Array (Array Nat)) (uf fuel lo l cm : Nat) :
    (revolveOps t0 uf fuel l cm).map (shiftOps lo) = revOpsAt t0 uf fuel lo l cm := by
  rw [revolveOps_eq_at, shift_revOpsAt, Nat.add_zero]

/-! ## reads and writes of a block -/

/-- the operation reads or writes a checkpoint -/
def opTouches (o : Op) : Bool := opIsRead o || opIsWrite o

/-- everything after the block concerns checkpoints of earlier steps -/
def TailOk (lo : Nat) (tail : List Op) : Prop :=
  ∀ o ∈ tail, opTouches o = true → (opKeyOf o).2 < lo

def KeysOps (lo hi : Nat) (ops : List Op) : Prop :=
  ∀ o ∈ ops, opTouches o = true → lo ≤ (opKeyOf o).2 ∧ (opKeyOf o).2 < hi

def SnapOk (lo : Nat) (S : List (Option Storage × Nat)) : Prop := ∀ k ∈ S, k.2 < lo

theorem lastRd_skip (k : Option Storage × Nat) (a b : List Op)
    (h : ∀ o ∈ a, opTouches o = true → opKeyOf o ≠ k) : lastRd k (a ++ b) = lastRd k b := by
  induction a with
  | nil => rfl
  | cons o rest ih =>
    rw [List.cons_append, lastRd]
    have ho := h o (List.mem_cons_self ..)
    have h1 : ¬ (opIsRead o = true ∧ opKeyOf o = k) := by
      rintro ⟨h1, h2⟩; exact ho (by simp [opTouches, h1]) h2
    have h2 : ¬ (opIsWrite o = true ∧ opKeyOf o = k) := by
      rintro ⟨h1, h2⟩; exact ho (by simp [opTouches, h1]) h2
    rw [if_neg h1, if_neg h2]
    exact ih (fun o' ho' => h o' (List.mem_cons_of_mem _ ho'))

theorem lastRd_none (k : Option Storage × Nat) (a : List Op)
    (h : ∀ o ∈ a, opTouches o = true → opKeyOf o ≠ k) : lastRd k a = true := by
  have := lastRd_skip k a [] h
  rw [List.append_nil] at this
  rw [this]; rfl

theorem lastRd_tail (lo : Nat) (tail : List Op) (h : TailOk lo tail) (st : Option Storage) (m : Nat)
    (hm : lo ≤ m) : lastRd (st, m) tail = true := by
  apply lastRd_none
  intro o ho ht he
  have := h o ho ht
  rw [he] at this
  simp at this
  omega

theorem opTouches_turn (lo : Nat) : ∀ o ∈ turnOps lo, opTouches o = false := by
  intro o ho
  simp [turnOps] at ho
  rcases ho with rfl | rfl | rfl | rfl <;> rfl

theorem opTouches_fwd (a b : Nat) : opTouches (Op.fwd a b) = false := rfl
theorem opTouches_dm (n : Nat) : opTouches (Op.dm n) = false := rfl
theorem opKeyOf_rm (n : Nat) : opKeyOf (Op.rm n) = (some .ram, n) := rfl
theorem opKeyOf_wm (n : Nat) : opKeyOf (Op.wm n) = (some .ram, n) := rfl

theorem lastRd_rm (n : Nat) (rest : List Op) : lastRd (some .ram, n) (Op.rm n :: rest) = false := by
  rw [lastRd, if_pos ⟨rfl, opKeyOf_rm n⟩]

theorem wf_turn (lo : Nat) : OpsWf (turnOps lo) := by
  intro o ho
  simp [turnOps] at ho
  rcases ho with rfl | rfl | rfl | rfl
  · exact ⟨_, convAct_wfm _⟩
  · exact ⟨_, convAct_fwd _ _ (by omega)⟩
  · exact ⟨_, convAct_bwd _ _ (by omega)⟩
  · exact ⟨_, convAct_dfm _⟩

theorem OpsWf.append {a b : List Op} (ha : OpsWf a) (hb : OpsWf b) : OpsWf (a ++ b) := by
  intro o ho
  rcases List.mem_append.1 ho with h | h
  · exact ha o h
  · exact hb o h

theorem KeysOps.append {lo hi : Nat} {a b : List Op} (ha : KeysOps lo hi a) (hb : KeysOps lo hi b) :
    KeysOps lo hi (a ++ b) := by
  intro o ho
  rcases List.mem_append.1 ho with h | h
  · exact ha o h
  · exact hb o h

theorem KeysOps.mono {lo hi lo' hi' : Nat} {a : List Op} (ha : KeysOps lo hi a) (h1 : lo' ≤ lo)
    (h2 : hi ≤ hi') : KeysOps lo' hi' a := by
  intro o ho ht
  have := ha o ho ht
  omega

theorem KeysOps.of_noTouch {lo hi : Nat} {a : List Op} (h : ∀ o ∈ a, opTouches o = false) :
    KeysOps lo hi a := by
  intro o ho ht
  rw [h o ho] at ht; cases ht

/-! ## unfolding `segWith` -/

theorem segWith_unit (N : Nat) (σ : Nat → Nat → Option Nat) (S : Nat) (alloc : Nat → Storage)
    (fuel : Nat) (stored spine : Bool) (lo d : Nat) :
    segWith N σ S alloc false (fuel + 1) stored spine lo (lo + 1) d =
      some ((if stored then [⟨.move lo (alloc d) .work, lo, N - (lo + 1)⟩] else [])
        ++ [⟨.forward lo (lo + 1) false true .work, lo + 1, N - (lo + 1)⟩]
        ++ (if spine then [⟨.endForward, lo + 1, N - (lo + 1)⟩] else [])
        ++ [⟨.reverse (lo + 1) lo true, lo + 1, N - (lo + 1) + 1⟩]) := by
  rw [segWith]
  simp

theorem segWith_split (N : Nat) (σ : Nat → Nat → Option Nat) (S : Nat) (alloc : Nat → Storage)
    (fuel : Nat) (stored spine : Bool) (lo hi d a : Nat) (right left : List Ev)
    (hne : hi ≠ lo + 1) (hσ : σ (hi - lo) (S - d) = some a)
    (hr : segWith N σ S alloc false fuel false spine (lo + a) hi (d + 1) = some right)
    (hl : segWith N σ S alloc false fuel true false lo (lo + a) d = some left) :
    segWith N σ S alloc false (fuel + 1) stored spine lo hi d =
      some ((if stored then
          [⟨.copy lo (alloc d) .work, lo, N - hi⟩,
           ⟨.forward lo (lo + a) false false .work, lo + a, N - hi⟩]
        else [⟨.forward lo (lo + a) true false (alloc d), lo + a, N - hi⟩]) ++ right ++ left) := by
  rw [segWith]
  simp [hne, hσ, hr, hl]

theorem Conv.congr {N : Nat} {wrap : Option Op} {pos : Nat} {prev : Option Op}
    {xs tail : List Op} {n r n' r' m q m' q' : Nat} {S S' : List (Option Storage × Nat)}
    {evs evs' : List Ev}
    (h : Conv N wrap pos prev xs tail m q S evs' m' q' S') (h1 : n = m) (h2 : r = q)
    (h3 : evs = evs') (h4 : n' = m') (h5 : r' = q') :
    Conv N wrap pos prev xs tail n r S evs n' r' S' := by
  subst h1 h2 h3 h4 h5; exact h

theorem qLoop_head (lo n : Nat) : ∃ x, qLoop lo n = Op.rm lo :: x := by
  cases n with
  | zero => exact ⟨_, rfl⟩
  | succ n => exact ⟨_, rfl⟩

theorem lastRd_qLoop (lo n : Nat) (y : List Op) : lastRd (some .ram, lo) (qLoop lo n ++ y) = false := by
  obtain ⟨x, hx⟩ := qLoop_head lo n
  rw [hx, List.cons_append, lastRd_rm]

/-- the stored segment `[lo, lo+n+1)` reversed with a single slot (or `n ≤ 1`) -/
theorem qLoop_block (N : Nat) (t : Array (Array Nat)) (uf S0 d : Nat) (wrap : Option Op)
    (tail : List Op) (lo : Nat) (S : List (Option Storage × Nat)) (htail : TailOk lo tail)
    (hS : SnapOk lo S) :
    ∀ (n fuelS : Nat), lo + n + 1 < N → n + 1 ≤ fuelS →
      (∀ m, 2 ≤ m → m ≤ n + 1 → revolveSplit t uf m (S0 - d) = some (m - 1)) →
      ∃ evs, segWith N (revolveSplit t uf) S0 (fun _ => Storage.ram) false fuelS true false lo
          (lo + n + 1) d = some evs ∧
        ∀ pos prev n0, Conv N wrap pos prev (qLoop lo n) tail n0 (N - (lo + n + 1))
          ((some .ram, lo) :: S) evs (lo + 1) (N - lo) S := by
  have hkey : (some Storage.ram, lo) ∉ S := by
    intro h; have := hS _ h; simp at this
  intro n
  induction n with
  | zero =>
    intro fuelS hN hf _
    obtain ⟨f, rfl⟩ : ∃ f, fuelS = f + 1 := ⟨fuelS - 1, by omega⟩
    refine ⟨_, segWith_unit N _ S0 _ f true false lo d, ?_⟩
    intro pos prev n0
    show Conv N wrap pos prev (Op.rm lo :: (turnOps lo ++ [Op.dm lo])) tail n0 _ _ _ _ _ _
    have hlast : isLastAt (Op.rm lo) ((turnOps lo ++ [Op.dm lo]) ++ tail) = true := by
      unfold isLastAt
      rw [opKeyOf_rm, List.append_assoc, lastRd_skip _ _ _ (fun o ho ht => by
        rw [opTouches_turn lo o ho] at ht; cases ht)]
      rw [List.singleton_append, lastRd]
      simp only [opIsRead, opIsWrite, Op.dm, OpKind.isRead, OpKind.isWrite, Bool.false_eq_true,
        false_and, if_false]
      exact lastRd_tail lo tail htail _ lo (le_refl _)
    refine Conv.evs (evs' := [⟨.move lo .ram .work, lo, N - (lo + 0 + 1)⟩] ++
      (turnEvs N lo ++ ([] ++ []))) ?_ (by
        have : ¬ lo + 1 = N := by omega
        simp [turnEvs, fwdEvs, this])
    refine Conv.cons (n1 := lo) (r1 := N - (lo + 0 + 1)) (S1 := S) ?_ ?_
    · rw [hlast]
      exact step_read_last N _ _ _ _ n0 _ S _ .ram (convAct_rm lo) rfl rfl hkey
    · refine Conv.append (n1 := lo + 1) (r1 := N - lo) (S1 := S) (by simp [turnOps]) ?_ ?_
      · exact Conv.congr (turn_block N wrap _ _ _ lo S (by omega)) rfl (by simp) rfl rfl rfl
      · refine Conv.cons (e1 := []) (e2 := []) ?_ (Conv.nil _ _ _ _ _ _ _ _)
        refine step_noop N _ _ _ _ _ (lo + 1) _ S _ (convAct_dm lo) (Or.inr (Or.inl ⟨Or.inr rfl, ?_⟩))
        simp [turnOps]
  | succ n ih =>
    intro fuelS hN hf hσ
    obtain ⟨f, rfl⟩ : ∃ f, fuelS = f + 1 := ⟨fuelS - 1, by omega⟩
    obtain ⟨evsL, hL, hconvL⟩ := ih f (by omega) (by omega)
      (fun m h1 h2 => hσ m h1 (by omega))
    have hf2 : 1 ≤ f := by omega
    have hσ' : revolveSplit t uf (lo + (n + 1) + 1 - lo) (S0 - d) = some (n + 1) := by
      have := hσ (n + 2) (by omega) (by omega)
      rw [show lo + (n + 1) + 1 - lo = n + 2 by omega]
      exact this
    obtain ⟨f', rfl⟩ : ∃ f', f = f' + 1 := ⟨f - 1, by omega⟩
    have hR := segWith_unit N (revolveSplit t uf) S0 (fun _ => Storage.ram) f' false false
      (lo + (n + 1)) (d + 1)
    have hL' : segWith N (revolveSplit t uf) S0 (fun _ => Storage.ram) false (f' + 1) true false lo
        (lo + (n + 1)) d = some evsL := by
      rw [← hL]; rfl
    refine ⟨_, segWith_split N _ S0 _ (f' + 1) true false lo (lo + (n + 1) + 1) d (n + 1) _ evsL
      (by omega) hσ' hR hL', ?_⟩
    intro pos prev n0
    show Conv N wrap pos prev (Op.rm lo :: Op.fwd lo (lo + n + 1) ::
      (turnOps (lo + n + 1) ++ qLoop lo n)) tail n0 _ _ _ _ _ _
    have hlast : isLastAt (Op.rm lo)
        ((Op.fwd lo (lo + n + 1) :: (turnOps (lo + n + 1) ++ qLoop lo n)) ++ tail) = false := by
      unfold isLastAt
      rw [opKeyOf_rm, List.cons_append, lastRd]
      simp only [opIsRead, opIsWrite, Op.fwd, OpKind.isRead, OpKind.isWrite, Bool.false_eq_true,
        false_and, if_false]
      rw [List.append_assoc, lastRd_skip _ _ _ (fun o ho ht => by
        rw [opTouches_turn _ o ho] at ht; cases ht)]
      exact lastRd_qLoop lo n tail
    have hne : ¬ lo + n + 1 = N := by omega
    refine Conv.evs (evs' := [⟨.copy lo .ram .work, lo, N - (lo + (n + 1) + 1)⟩] ++
      (fwdEvs N lo (lo + n + 1) (N - (lo + (n + 1) + 1)) false false .work ++
        (turnEvs N (lo + n + 1) ++ evsL))) ?_ (by
        have h2 : ¬ lo + (n + 2) = N := by omega
        have h3 : ¬ lo + (n + 1) = N := by omega
        simp [turnEvs, fwdEvs, h2, h3, Nat.add_assoc])
    refine Conv.cons (n1 := lo) (r1 := N - (lo + (n + 1) + 1)) (S1 := (some .ram, lo) :: S) ?_ ?_
    · rw [hlast]
      exact step_read_copy N _ _ _ _ n0 _ _ _ .ram (convAct_rm lo) rfl rfl
    refine Conv.cons (n1 := lo + n + 1) (r1 := N - (lo + (n + 1) + 1))
      (S1 := (some .ram, lo) :: S) ?_ ?_
    · rw [if_neg (by omega)]
      exact step_fwd_plain N _ _ _ _ lo (lo + n + 1) _ _ _ (convAct_rm lo) rfl (by omega)
        (fun h => absurd h hne)
    refine Conv.append (n1 := lo + n + 1 + 1) (r1 := N - (lo + n + 1))
      (S1 := (some .ram, lo) :: S) (by simp [turnOps]) ?_ ?_
    · exact Conv.congr (turn_block N wrap _ _ _ (lo + n + 1) _ (by omega)) rfl (by omega) rfl rfl rfl
    · exact Conv.congr (hconvL _ _ (lo + n + 1 + 1)) rfl (by omega) rfl rfl rfl

theorem revolveSplit_last (t : Array (Array Nat)) (uf m k : Nat) (hk : k ≠ 0)
    (h : m - 1 = 1 ∨ k = 1) : revolveSplit t uf m k = some (m - 1) := by
  unfold revolveSplit
  dsimp only
  rw [if_neg hk, if_pos h]

theorem revolveSplit_argmin (t : Array (Array Nat)) (uf m k : Nat) (hk : k ≠ 0)
    (h : ¬ (m - 1 = 1 ∨ k = 1)) :
    revolveSplit t uf m k = some (argminO ((List.range' 1 (m - 1 - 1)).map (fun j =>
      some (j * uf + opt0Get t (k - 1) (m - 1 - j) + opt0Get t k (j - 1))))) := by
  unfold revolveSplit
  dsimp only
  rw [if_neg hk, if_neg h]

theorem removeUselessWm_wm (lo : Nat) (x : List Op) : removeUselessWm (Op.wm lo :: x) = x := by
  simp [removeUselessWm, Op.wm]

theorem mem_qLoop_zero (lo : Nat) (o : Op) :
    o ∈ qLoop lo 0 ↔ o = Op.rm lo ∨ o ∈ turnOps lo ∨ o = Op.dm lo := by
  simp [qLoop]

theorem mem_qLoop_succ (lo n : Nat) (o : Op) :
    o ∈ qLoop lo (n + 1) ↔ o = Op.rm lo ∨ o = Op.fwd lo (lo + n + 1) ∨ o ∈ turnOps (lo + n + 1) ∨
      o ∈ qLoop lo n := by
  simp [qLoop]

theorem wf_qLoop (lo : Nat) : ∀ n, OpsWf (qLoop lo n) := by
  intro n
  induction n with
  | zero =>
    intro o ho
    rw [mem_qLoop_zero] at ho
    rcases ho with rfl | h | rfl
    · exact ⟨_, convAct_rm _⟩
    · exact wf_turn lo o h
    · exact ⟨_, convAct_dm _⟩
  | succ n ih =>
    intro o ho
    rw [mem_qLoop_succ] at ho
    rcases ho with rfl | rfl | h | h
    · exact ⟨_, convAct_rm _⟩
    · exact ⟨_, convAct_fwd _ _ (by omega)⟩
    · exact wf_turn _ o h
    · exact ih o h

theorem keys_qLoop (lo hi : Nat) (h : lo < hi) : ∀ n, KeysOps lo hi (qLoop lo n) := by
  intro n
  induction n with
  | zero =>
    intro o ho ht
    rw [mem_qLoop_zero] at ho
    rcases ho with rfl | h' | rfl
    · rw [opKeyOf_rm]; exact ⟨le_refl _, h⟩
    · rw [opTouches_turn lo o h'] at ht; cases ht
    · cases ht
  | succ n ih =>
    intro o ho ht
    rw [mem_qLoop_succ] at ho
    rcases ho with rfl | rfl | h' | h'
    · rw [opKeyOf_rm]; exact ⟨le_refl _, h⟩
    · cases ht
    · rw [opTouches_turn _ o h'] at ht; cases ht
    · exact ih o h' ht

/-- what is proved about the block `revolve(l, cm)` at offset `lo` -/
def RevBlock (N : Nat) (t : Array (Array Nat)) (uf lo l cm : Nat) (ops : List Op) : Prop :=
  ∀ (S0 d fuelS : Nat) (spine : Bool) (tail : List Op) (wrap : Option Op)
    (S : List (Option Storage × Nat)),
    lo + l + 1 ≤ N → S0 - d = cm → l + 1 ≤ fuelS → (spine = true ↔ lo + l + 1 = N) →
    TailOk lo tail → SnapOk lo S →
    (∃ evsP, segWith N (revolveSplit t uf) S0 (fun _ => Storage.ram) false fuelS false spine lo
        (lo + l + 1) d = some evsP ∧
      ∀ pos prev, Conv N wrap pos prev ops tail lo (N - (lo + l + 1)) S evsP (lo + 1) (N - lo) S) ∧
    (lo + l + 1 < N →
      ∃ evsQ, segWith N (revolveSplit t uf) S0 (fun _ => Storage.ram) false fuelS true false lo
          (lo + l + 1) d = some evsQ ∧
        ∀ pos prev n0, Conv N wrap pos prev (Op.rm lo :: removeUselessWm ops) tail n0
          (N - (lo + l + 1)) ((some .ram, lo) :: S) evsQ (lo + 1) (N - lo) S)

/-- the common part of `ops` (after `Write_memory lo; Forward`) and of `Read_memory lo; ops`
without its `Write_memory` (after `Read_memory lo; Forward`): the first action differs, the rest
is converted from the same state -/
theorem revBlock_of_rest (N : Nat) (t : Array (Array Nat)) (uf lo l cm a : Nat) (Y : List Op)
    (ha1 : 1 ≤ a) (hal : a ≤ l)
    (hσ : revolveSplit t uf (lo + l + 1 - lo) cm = some a)
    (hlastY : ∀ y, lastRd (some .ram, lo) (Y ++ y) = false)
    (hY : ∀ (S0 d f : Nat) (spine : Bool) (tail : List Op) (wrap : Option Op)
      (S : List (Option Storage × Nat)),
      lo + l + 1 ≤ N → S0 - d = cm → l ≤ f → (spine = true ↔ lo + l + 1 = N) →
      TailOk lo tail → SnapOk lo S →
      ∃ right left,
        segWith N (revolveSplit t uf) S0 (fun _ => Storage.ram) false f false spine (lo + a)
          (lo + l + 1) (d + 1) = some right ∧
        segWith N (revolveSplit t uf) S0 (fun _ => Storage.ram) false f true false lo (lo + a) d
          = some left ∧
        ∀ pos prev, Conv N wrap pos prev Y tail (lo + a) (N - (lo + l + 1)) ((some .ram, lo) :: S)
          (right ++ left) (lo + 1) (N - lo) S) :
    RevBlock N t uf lo l cm (Op.wm lo :: Op.fwd lo (lo + a) :: Y) := by
  intro S0 d fuelS spine tail wrap S hN hcm hf hsp htail hS
  obtain ⟨f, rfl⟩ : ∃ f, fuelS = f + 1 := ⟨fuelS - 1, by omega⟩
  obtain ⟨right, left, hr, hl, hconv⟩ := hY S0 d f spine tail wrap S hN hcm (by omega) hsp htail hS
  have hkey : (some Storage.ram, lo) ∉ S := by
    intro h; have := hS _ h; simp at this
  have hσ' : revolveSplit t uf (lo + l + 1 - lo) (S0 - d) = some a := by rw [hcm]; exact hσ
  have hneN : ¬ lo + a = N := by omega
  constructor
  · refine ⟨_, segWith_split N _ S0 _ f false spine lo (lo + l + 1) d a right left (by omega)
      hσ' hr hl, ?_⟩
    intro pos prev
    refine Conv.evs (evs' := [] ++ (fwdEvs N lo (lo + a) (N - (lo + l + 1)) true false .ram ++
      (right ++ left))) ?_ (by simp [fwdEvs, hneN])
    refine Conv.cons (n1 := lo) (r1 := N - (lo + l + 1)) (S1 := S)
      (step_noop N _ _ _ _ _ lo _ S _ (convAct_wm lo) (Or.inr (Or.inr ⟨rfl, rfl⟩))) ?_
    refine Conv.cons (n1 := lo + a) (r1 := N - (lo + l + 1)) (S1 := (some .ram, lo) :: S) ?_
      (hconv _ _)
    rw [if_neg (by omega)]
    exact step_fwd_write N _ _ _ _ lo (lo + a) _ S _ .ram (convAct_wm lo) rfl rfl rfl (by omega)
      (fun h => absurd h hneN) hkey
  · intro hlt
    have hsf : spine = false := by
      cases spine with
      | false => rfl
      | true => have := hsp.1 rfl; omega
    subst hsf
    refine ⟨_, segWith_split N _ S0 _ f true false lo (lo + l + 1) d a right left (by omega)
      hσ' hr hl, ?_⟩
    intro pos prev n0
    rw [removeUselessWm_wm]
    have hlast : isLastAt (Op.rm lo) ((Op.fwd lo (lo + a) :: Y) ++ tail) = false := by
      unfold isLastAt
      rw [opKeyOf_rm, List.cons_append, lastRd]
      simp only [opIsRead, opIsWrite, Op.fwd, OpKind.isRead, OpKind.isWrite, Bool.false_eq_true,
        false_and, if_false]
      exact hlastY tail
    refine Conv.evs (evs' := [⟨.copy lo .ram .work, lo, N - (lo + l + 1)⟩] ++
      (fwdEvs N lo (lo + a) (N - (lo + l + 1)) false false .work ++ (right ++ left))) ?_
      (by simp [fwdEvs, hneN])
    refine Conv.cons (n1 := lo) (r1 := N - (lo + l + 1)) (S1 := (some .ram, lo) :: S) ?_ ?_
    · rw [hlast]
      exact step_read_copy N _ _ _ _ n0 _ _ _ .ram (convAct_rm lo) rfl rfl
    refine Conv.cons (n1 := lo + a) (r1 := N - (lo + l + 1)) (S1 := (some .ram, lo) :: S) ?_
      (hconv _ _)
    rw [if_neg (by omega)]
    exact step_fwd_plain N _ _ _ _ lo (lo + a) _ _ _ (convAct_rm lo) rfl (by omega)
      (fun h => absurd h hneN)

theorem SnapOk.cons {lo lo' : Nat} {S : List (Option Storage × Nat)} (h : SnapOk lo S)
    (hl : lo < lo') (st : Option Storage) : SnapOk lo' ((st, lo) :: S) := by
  intro k hk
  rcases List.mem_cons.1 hk with rfl | hk
  · exact hl
  · have := h k hk; omega

theorem mem_removeUselessWm (o : Op) (L : List Op) (h : o ∈ removeUselessWm L) : o ∈ L := by
  cases L with
  | nil => exact h
  | cons x xs =>
    simp only [removeUselessWm] at h
    split_ifs at h
    · exact List.mem_cons_of_mem _ h
    · exact h

theorem revOpsAt_ne_nil (t : Array (Array Nat)) (uf fuel lo l cm : Nat) (ops : List Op)
    (h : revOpsAt t uf fuel lo l cm = some ops) : ops ≠ [] := by
  cases fuel with
  | zero => simp [revOpsAt] at h
  | succ f =>
    rw [revOpsAt] at h
    by_cases h0 : l = 0
    · rw [if_pos h0] at h; cases h; simp [turnOps]
    rw [if_neg h0] at h
    by_cases hc : cm = 0
    · rw [if_pos hc] at h; cases h
    rw [if_neg hc] at h
    by_cases h1 : l = 1 ∨ cm = 1
    · rw [if_pos h1] at h; cases h; simp
    rw [if_neg h1] at h
    dsimp only at h
    split at h
    · cases h
    · split at h
      · cases h
      · cases h; simp

/-- **the block theorem for Revolve** -/
theorem revolve_block (N : Nat) (t : Array (Array Nat)) (uf : Nat) :
    ∀ (fuelO lo l cm : Nat), 1 ≤ cm → l < fuelO →
      ∃ ops, revOpsAt t uf fuelO lo l cm = some ops ∧ KeysOps lo (lo + l + 1) ops ∧ OpsWf ops ∧
        (1 ≤ l → ∃ x, ops = Op.wm lo :: x ∧ ∀ y, lastRd (some .ram, lo) (x ++ y) = false) ∧
        RevBlock N t uf lo l cm ops := by
  intro fuelO
  induction fuelO with
  | zero => intro lo l cm _ h; omega
  | succ fuelO ih =>
    intro lo l cm hcm hfuel
    rw [revOpsAt]
    by_cases h0 : l = 0
    · -- a single step
      subst h0
      rw [if_pos rfl]
      refine ⟨_, rfl, ?_, ?_, fun h => by omega, ?_⟩
      · exact (KeysOps.of_noTouch (opTouches_turn lo)).append (KeysOps.of_noTouch (by
          intro o ho; rw [List.mem_singleton] at ho; subst ho; rfl))
      · exact (wf_turn lo).append (by
          intro o ho; rw [List.mem_singleton] at ho; subst ho; exact ⟨_, convAct_dm lo⟩)
      · intro S0 d fuelS spine tail wrap S hN _ hf hsp htail hS
        obtain ⟨f, rfl⟩ : ∃ f, fuelS = f + 1 := ⟨fuelS - 1, by omega⟩
        constructor
        · refine ⟨_, segWith_unit N _ S0 _ f false spine (lo + 0) d, ?_⟩
          intro pos prev
          refine Conv.evs (evs' := turnEvs N lo ++ ([] ++ [])) ?_ (by
            by_cases hNN : lo + 0 + 1 = N
            · have : spine = true := hsp.2 hNN
              subst this
              have h2 : lo + 1 = N := by omega
              simp [turnEvs, fwdEvs, h2]
            · have : spine = false := by
                cases spine with
                | false => rfl
                | true => exact absurd (hsp.1 rfl) hNN
              subst this
              have h2 : ¬ lo + 1 = N := by omega
              simp [turnEvs, fwdEvs, h2])
          refine Conv.append (n1 := lo + 1) (r1 := N - lo) (S1 := S) (by simp [turnOps]) ?_ ?_
          · exact Conv.congr (turn_block N wrap _ _ _ lo S (by omega)) rfl (by simp) rfl rfl rfl
          · refine Conv.cons (e1 := []) (e2 := []) ?_ (Conv.nil _ _ _ _ _ _ _ _)
            refine step_noop N _ _ _ _ _ (lo + 1) _ S _ (convAct_dm lo)
              (Or.inr (Or.inl ⟨Or.inr rfl, ?_⟩))
            simp [turnOps]
        · intro hlt
          have hq := qLoop_block N t uf S0 d wrap tail lo S htail hS 0 (f + 1) hlt (by omega)
            (fun m h1 h2 => by omega)
          exact hq
    rw [if_neg h0, if_neg (by omega : ¬ cm = 0)]
    have hl1 : 1 ≤ l := by omega
    by_cases h1 : l = 1 ∨ cm = 1
    · -- the right part is a single step, the left part is re-loaded again and again
      rw [if_pos h1]
      have hσall : ∀ m, 2 ≤ m → m ≤ l + 1 → revolveSplit t uf m cm = some (m - 1) := by
        intro m hm1 hm2
        apply revolveSplit_last t uf m cm (by omega)
        rcases h1 with h | h
        · left; omega
        · right; exact h
      have hlastY : ∀ y, lastRd (some Storage.ram, lo) ((turnOps (lo + l) ++ qLoop lo (l - 1)) ++ y)
          = false := by
        intro y
        rw [List.append_assoc, lastRd_skip _ _ _ (fun o ho ht => by
          rw [opTouches_turn _ o ho] at ht; cases ht)]
        exact lastRd_qLoop lo (l - 1) y
      refine ⟨_, rfl, ?_, ?_, fun _ => ⟨_, rfl, fun y => ?_⟩, ?_⟩
      · refine KeysOps.append (KeysOps.append ?_ (KeysOps.of_noTouch (opTouches_turn _)))
          (keys_qLoop lo _ (by omega) _)
        intro o ho ht
        simp only [List.mem_cons, List.not_mem_nil, or_false] at ho
        rcases ho with rfl | rfl
        · rw [opKeyOf_wm]; exact ⟨le_refl _, by show lo < lo + l + 1; omega⟩
        · cases ht
      · refine OpsWf.append (OpsWf.append ?_ (wf_turn _)) (wf_qLoop lo _)
        intro o ho
        simp only [List.mem_cons, List.not_mem_nil, or_false] at ho
        rcases ho with rfl | rfl
        · exact ⟨_, convAct_wm lo⟩
        · exact ⟨_, convAct_fwd _ _ (by omega)⟩
      · show lastRd _ ((Op.fwd lo (lo + l) :: (turnOps (lo + l) ++ qLoop lo (l - 1))) ++ y) = false
        rw [List.cons_append, lastRd]
        simp only [opIsRead, opIsWrite, Op.fwd, OpKind.isRead, OpKind.isWrite, Bool.false_eq_true,
          false_and, if_false]
        exact hlastY y
      · show RevBlock N t uf lo l cm
          (Op.wm lo :: Op.fwd lo (lo + l) :: (turnOps (lo + l) ++ qLoop lo (l - 1)))
        apply revBlock_of_rest N t uf lo l cm l _ hl1 (le_refl _)
          (by rw [show lo + l + 1 - lo = l + 1 by omega]; exact hσall (l + 1) (by omega) (le_refl _))
          hlastY
        intro S0 d f spine tail wrap S hN hcm' hf hsp htail hS
        obtain ⟨f', rfl⟩ : ∃ f', f = f' + 1 := ⟨f - 1, by omega⟩
        have hR := segWith_unit N (revolveSplit t uf) S0 (fun _ => Storage.ram) f' false spine
          (lo + l) (d + 1)
        obtain ⟨evsL, hL, hconvL⟩ := qLoop_block N t uf S0 d wrap tail lo S htail hS (l - 1)
          (f' + 1) (by omega) (by omega)
          (fun m hm1 hm2 => by rw [hcm']; exact hσall m hm1 (by omega))
        have hL' : segWith N (revolveSplit t uf) S0 (fun _ => Storage.ram) false (f' + 1) true false
            lo (lo + l) d = some evsL := by
          rw [← hL, show lo + (l - 1) + 1 = lo + l by omega]
        refine ⟨_, evsL, hR, hL', ?_⟩
        intro pos prev
        refine Conv.append (n1 := lo + l + 1) (r1 := N - (lo + l)) (S1 := (some .ram, lo) :: S)
          (by simp [turnOps]) ?_ ?_
        · refine Conv.congr (turn_block N wrap _ _ _ (lo + l) _ (by omega)) rfl rfl ?_ rfl rfl
          by_cases hNN : lo + l + 1 = N
          · have : spine = true := hsp.2 hNN
            subst this
            simp [turnEvs, fwdEvs, hNN]
          · have : spine = false := by
              cases spine with
              | false => rfl
              | true => exact absurd (hsp.1 rfl) hNN
            subst this
            simp [turnEvs, fwdEvs, hNN]
        · exact Conv.congr (hconvL _ _ (lo + l + 1)) rfl (by omega) rfl rfl rfl
    · -- a proper split
      rw [if_neg h1]
      dsimp only
      have hl2 : 2 ≤ l := by omega
      have hc2 : 2 ≤ cm := by omega
      have hne : (List.range' 1 (l - 1)).map (fun j =>
          some (j * uf + opt0Get t (cm - 1) (l - j) + opt0Get t cm (j - 1))) ≠ [] := by
        intro h
        have := congrArg List.length h
        simp at this
        omega
      have hrange := argminO_range _ hne
      simp only [List.length_map, List.length_range'] at hrange
      have hσ : revolveSplit t uf (lo + l + 1 - lo) cm = some (argminO ((List.range' 1 (l - 1)).map
          (fun j => some (j * uf + opt0Get t (cm - 1) (l - j) + opt0Get t cm (j - 1))))) := by
        rw [revolveSplit_argmin t uf _ cm (by omega) (by omega)]
        rw [show lo + l + 1 - lo - 1 = l by omega]
      generalize argminO ((List.range' 1 (l - 1)).map (fun j =>
          some (j * uf + opt0Get t (cm - 1) (l - j) + opt0Get t cm (j - 1)))) = j at hrange hσ ⊢
      obtain ⟨hj1, hj2⟩ := hrange
      obtain ⟨R, hR, hRk, hRwf, _, hRb⟩ := ih (lo + j) (l - j) (cm - 1) (by omega) (by omega)
      obtain ⟨L, hL, hLk, hLwf, _, hLb⟩ := ih lo (j - 1) cm hcm (by omega)
      rw [hR, hL]
      dsimp only
      have hRk' : KeysOps (lo + j) (lo + l + 1) R := by
        rw [show lo + j + (l - j) + 1 = lo + l + 1 by omega] at hRk; exact hRk
      have hLk' : KeysOps lo (lo + j) L := by
        rw [show lo + (j - 1) + 1 = lo + j by omega] at hLk; exact hLk
      have hLk'' : KeysOps lo (lo + j) (removeUselessWm L) := by
        intro o ho ht
        exact hLk' o (mem_removeUselessWm o L ho) ht
      have hLwf' : OpsWf (removeUselessWm L) := by
        intro o ho
        exact hLwf o (mem_removeUselessWm o L ho)
      have hlastY : ∀ y, lastRd (some Storage.ram, lo) ((R ++ (Op.rm lo :: removeUselessWm L)) ++ y)
          = false := by
        intro y
        rw [List.append_assoc, lastRd_skip _ _ _ (fun o ho ht he => by
          have := (hRk' o ho ht).1
          rw [he] at this
          simp at this
          omega)]
        rw [List.cons_append, lastRd_rm]
      have hlist : [Op.wm lo, Op.fwd lo (lo + j)] ++ R ++ [Op.rm lo] ++ removeUselessWm L =
          Op.wm lo :: Op.fwd lo (lo + j) :: (R ++ (Op.rm lo :: removeUselessWm L)) := by simp
      rw [hlist]
      refine ⟨_, rfl, ?_, ?_, fun _ => ⟨_, rfl, fun y => ?_⟩, ?_⟩
      · intro o ho ht
        rcases List.mem_cons.1 ho with rfl | ho
        · rw [opKeyOf_wm]; exact ⟨le_refl _, by show lo < lo + l + 1; omega⟩
        rcases List.mem_cons.1 ho with rfl | ho
        · cases ht
        rcases List.mem_append.1 ho with ho | ho
        · have := hRk' o ho ht; omega
        rcases List.mem_cons.1 ho with rfl | ho
        · rw [opKeyOf_rm]; exact ⟨le_refl _, by show lo < lo + l + 1; omega⟩
        · have := hLk'' o ho ht; omega
      · intro o ho
        rcases List.mem_cons.1 ho with rfl | ho
        · exact ⟨_, convAct_wm lo⟩
        rcases List.mem_cons.1 ho with rfl | ho
        · exact ⟨_, convAct_fwd _ _ (by omega)⟩
        rcases List.mem_append.1 ho with ho | ho
        · exact hRwf o ho
        rcases List.mem_cons.1 ho with rfl | ho
        · exact ⟨_, convAct_rm lo⟩
        · exact hLwf' o ho
      · show lastRd _ ((Op.fwd lo (lo + j) :: (R ++ (Op.rm lo :: removeUselessWm L))) ++ y) = false
        rw [List.cons_append, lastRd]
        simp only [opIsRead, opIsWrite, Op.fwd, OpKind.isRead, OpKind.isWrite, Bool.false_eq_true,
          false_and, if_false]
        exact hlastY y
      · apply revBlock_of_rest N t uf lo l cm j _ hj1 (by omega) hσ hlastY
        intro S0 d f spine tail wrap S hN hcm' hf hsp htail hS
        have htailR : TailOk (lo + j) ((Op.rm lo :: removeUselessWm L) ++ tail) := by
          intro o ho ht
          rcases List.mem_append.1 ho with ho | ho
          · rcases List.mem_cons.1 ho with rfl | ho
            · rw [opKeyOf_rm]; show lo < lo + j; omega
            · exact (hLk'' o ho ht).2
          · have := htail o ho ht; omega
        obtain ⟨⟨evsR, hsegR, hconvR⟩, _⟩ := hRb S0 (d + 1) f spine
          ((Op.rm lo :: removeUselessWm L) ++ tail) wrap ((some .ram, lo) :: S)
          (by omega) (by omega) (by omega)
          (by rw [show lo + j + (l - j) + 1 = lo + l + 1 by omega]; exact hsp) htailR
          (hS.cons (by omega) _)
        obtain ⟨_, hQ⟩ := hLb S0 d f false tail wrap S (by omega) hcm' (by omega)
          (by constructor
              · intro h; cases h
              · intro h; omega) htail hS
        obtain ⟨evsL, hsegL, hconvL⟩ := hQ (by omega)
        refine ⟨evsR, evsL, ?_, ?_, ?_⟩
        · rw [← hsegR, show lo + j + (l - j) + 1 = lo + l + 1 by omega]
        · rw [← hsegL, show lo + (j - 1) + 1 = lo + j by omega]
        · intro pos prev
          have hRne : R ≠ [] := revOpsAt_ne_nil t uf fuelO _ _ _ R hR
          refine Conv.append (n1 := lo + j + 1) (r1 := N - (lo + j)) (S1 := (some .ram, lo) :: S)
            hRne ?_ ?_
          · exact Conv.congr (hconvR _ _) rfl (by omega) rfl rfl rfl
          · exact Conv.congr (hconvL _ _ (lo + j + 1)) rfl (by omega) rfl rfl rfl

/-! ## the complete schedule -/

/-- from a converted block to `convertOps`: the whole schedule is one block starting in the
initial state and ending with no snapshot left -/
theorem convertOps_of_conv (N : Nat) (ops : List Op) (hwf : OpsWf ops) (evs : List Ev) (n' r' : Nat)
    (h : Conv N ops.getLast? 0 none ops [] 0 0 [] evs n' r' []) :
    convertOps N ops = .ok (evs ++ [⟨.endReverse, n', r'⟩]) := by
  rw [convertOps_eq N ops hwf]
  obtain ⟨s', h1, h2, h3, h4, h5⟩ := h ConvSt.init rfl rfl rfl
  rw [h1]
  dsimp only
  rw [h5]
  simp [ConvSt.yield, h2, h3, h4, ConvSt.init]

/-- **Refinement for Revolve**: the twin (`revolve(N-1, cm, …)` converted by `_iterator`) yields
exactly the stream of the recursive model. -/
theorem revolveTwin_eq (N cm : Nat) (c : Costs) (hN : 1 ≤ N) (hcm : 1 ≤ cm) :
    revolveTwin N cm c = revolveEvs N cm c := by
  obtain ⟨ops, hops, _, hwf, _, hblock⟩ := revolve_block N (opt0Table (N - 1) cm c.uf c.ub) c.uf
    N 0 (N - 1) cm hcm (by omega)
  obtain ⟨⟨evsP, hseg, hconv⟩, _⟩ := hblock cm 0 (N - 0 + 1) true [] ops.getLast? []
    (by omega) rfl (by omega) (by constructor <;> intro _ <;> [omega; rfl])
    (by intro o ho; cases ho) (by intro k hk; cases hk)
  have hhi : 0 + (N - 1) + 1 = N := by omega
  rw [hhi] at hseg hconv
  have htop : revolveOpsTop N cm c = some ops := by
    unfold revolveOpsTop
    rw [revolveOps_eq_at]; exact hops
  have h1 : revolveTwin N cm c = .ok (evsP ++ [⟨.endReverse, 1, N⟩]) := by
    unfold revolveTwin twinOf
    rw [htop]
    exact convertOps_of_conv N ops hwf evsP (0 + 1) (N - 0)
      (Conv.congr (hconv 0 none) rfl (by omega) rfl rfl rfl)
  have h2 : revolveEvs N cm c = .ok (evsP ++ [⟨.endReverse, 1, N⟩]) := by
    unfold revolveEvs revSeg
    dsimp only
    rw [hseg]
  rw [h1, h2]

/-! ## `revolve` only touches RAM checkpoints -/

theorem ram_qLoop (lo : Nat) : ∀ n, ∀ o ∈ qLoop lo n, opTouches o = true →
    (opKeyOf o).1 = some Storage.ram := by
  intro n
  induction n with
  | zero =>
    intro o ho ht
    rw [mem_qLoop_zero] at ho
    rcases ho with rfl | h' | rfl
    · rfl
    · rw [opTouches_turn lo o h'] at ht; cases ht
    · cases ht
  | succ n ih =>
    intro o ho ht
    rw [mem_qLoop_succ] at ho
    rcases ho with rfl | rfl | h' | h'
    · rfl
    · cases ht
    · rw [opTouches_turn _ o h'] at ht; cases ht
    · exact ih o h' ht

theorem revOpsAt_ram (t : Array (Array Nat)) (uf : Nat) :
    ∀ (fuel lo l cm : Nat) (ops : List Op), revOpsAt t uf fuel lo l cm = some ops →
      ∀ o ∈ ops, opTouches o = true → (opKeyOf o).1 = some Storage.ram := by
  intro fuel
  induction fuel with
  | zero => intro lo l cm ops h; simp [revOpsAt] at h
  | succ f ih =>
    intro lo l cm ops h
    rw [revOpsAt] at h
    by_cases h0 : l = 0
    · rw [if_pos h0] at h; cases h
      intro o ho ht
      rcases List.mem_append.1 ho with ho | ho
      · rw [opTouches_turn lo o ho] at ht; cases ht
      · rw [List.mem_singleton] at ho; subst ho; cases ht
    rw [if_neg h0] at h
    by_cases hc : cm = 0
    · rw [if_pos hc] at h; cases h
    rw [if_neg hc] at h
    by_cases h1 : l = 1 ∨ cm = 1
    · rw [if_pos h1] at h; cases h
      intro o ho ht
      rcases List.mem_append.1 ho with ho | ho
      · rcases List.mem_append.1 ho with ho | ho
        · simp only [List.mem_cons, List.not_mem_nil, or_false] at ho
          rcases ho with rfl | rfl
          · rfl
          · cases ht
        · rw [opTouches_turn _ o ho] at ht; cases ht
      · exact ram_qLoop lo _ o ho ht
    rw [if_neg h1] at h
    dsimp only at h
    split at h
    · cases h
    · rename_i R hR
      split at h
      · cases h
      · rename_i L hL
        cases h
        intro o ho ht
        simp only [List.mem_append, List.mem_cons, List.not_mem_nil, or_false] at ho
        rcases ho with (((rfl | rfl) | ho) | rfl) | ho
        · rfl
        · cases ht
        · exact ih _ _ _ _ hR o ho ht
        · rfl
        · exact ih _ _ _ _ hL o (mem_removeUselessWm o L ho) ht

end Ckpt.Ops
