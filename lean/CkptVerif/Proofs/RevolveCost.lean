import CkptVerif.Proofs.Cost
import CkptVerif.Proofs.Opt0
import CkptVerif.Proofs.Argmin
import Mathlib.Tactic
/-!
# Revolve: the cost of the model stream is the table value (C07)

`cost (revSeg … lo hi) = opt0[cm][hi-lo-1] + (hi-lo)·uf`: the table `opt0` counts the forward
steps of the re-computations and all backward steps; the `hi - lo` steps of the first sweep over
the segment are the extra term.
-/
namespace Ckpt.RC

/-! ## the closed form of row 1, and the Bellman equality at the split Revolve chooses -/

theorem opt0Get_row1_all (lmax mmax uf ub l : Nat) (hmm : 1 ≤ mmax) (hl : l ≤ lmax) :
    opt0Get (opt0Table lmax mmax uf ub) 1 l = (l + 1) * ub + l * (l + 1) / 2 * uf := by
  rcases Nat.lt_or_ge l 2 with h | h
  · rcases Nat.eq_zero_or_pos l with rfl | h1
    · rw [opt0Get_zero _ _ _ _ _ hmm]; simp
    · have : l = 1 := by omega
      subst this
      rw [opt0Get_one _ _ _ _ _ (le_refl _) hmm]
      norm_num; omega
  · exact opt0Get_row1 lmax mmax uf ub l hmm h hl

theorem tri_succ (n : Nat) : (n + 1) * (n + 2) / 2 = n * (n + 1) / 2 + (n + 1) := by
  have : (n + 1) * (n + 2) = n * (n + 1) + 2 * (n + 1) := by ring
  rw [this, Nat.add_mul_div_left _ _ (by norm_num)]

/-- At the split `a` chosen by `revolveSplit` the recurrence of the table holds with equality. -/
theorem revolveSplit_bellman (lmax mmax uf ub m k a : Nat) (hm : 2 ≤ m) (hml : m - 1 ≤ lmax)
    (hk : k ≤ mmax) (h : revolveSplit (opt0Table lmax mmax uf ub) uf m k = some a) :
    1 ≤ k ∧ 1 ≤ a ∧ a ≤ m - 1 ∧
    opt0Get (opt0Table lmax mmax uf ub) k (m - 1) =
      a * uf + opt0Get (opt0Table lmax mmax uf ub) (k - 1) (m - 1 - a)
        + opt0Get (opt0Table lmax mmax uf ub) k (a - 1) := by
  unfold revolveSplit at h
  dsimp only at h
  by_cases hk0 : k = 0
  · rw [if_pos hk0] at h; cases h
  rw [if_neg hk0] at h
  have hk1 : 1 ≤ k := by omega
  by_cases hc : m - 1 = 1 ∨ k = 1
  · rw [if_pos hc] at h
    injection h with h
    subst h
    refine ⟨hk1, by omega, le_refl _, ?_⟩
    by_cases hl1 : m - 1 = 1
    · rw [hl1, opt0Get_one _ _ _ _ _ hk1 hk, Nat.sub_self, opt0Get_zero _ _ _ _ _ (by omega),
        opt0Get_zero _ _ _ _ _ hk]
      omega
    · have hk' : k = 1 := by rcases hc with hc | hc; exact absurd hc hl1; exact hc
      subst hk'
      obtain ⟨n, hn⟩ : ∃ n, m - 1 = n + 1 := ⟨m - 2, by omega⟩
      rw [hn]
      simp only [Nat.sub_self, Nat.add_sub_cancel]
      rw [opt0Get_zero _ _ _ _ _ (by omega),
        opt0Get_row1_all _ _ _ _ _ hk (by omega), opt0Get_row1_all _ _ _ _ _ hk (by omega),
        tri_succ, Nat.add_mul]
      ring
  · rw [if_neg hc] at h
    injection h with h
    have hl2 : 2 ≤ m - 1 := by omega
    have hk2 : 2 ≤ k := by omega
    obtain ⟨heq, _, _⟩ := opt0Get_rec lmax mmax uf ub k (m - 1) hk2 hk hl2 hml
    have hne : (List.range' 1 (m - 1 - 1)).map (fun j =>
        j * uf + opt0Get (opt0Table lmax mmax uf ub) (k - 1) (m - 1 - j) +
          opt0Get (opt0Table lmax mmax uf ub) k (j - 1)) ≠ [] := by
      intro h0
      have := congrArg List.length h0
      simp at this
      omega
    have hr := argminO_map_some_range _ hne
    have hg := argminO_map_some_get _ hne
    rw [← heq] at hg
    have h' : argminO (((List.range' 1 (m - 1 - 1)).map (fun j =>
        j * uf + opt0Get (opt0Table lmax mmax uf ub) (k - 1) (m - 1 - j) +
          opt0Get (opt0Table lmax mmax uf ub) k (j - 1))).map some) = a := by
      rw [List.map_map]; exact h
    rw [h'] at hg hr
    simp only [List.length_map, List.length_range'] at hr
    rw [List.getElem?_map, List.getElem?_range' (by omega)] at hg
    simp only [Option.map_some, Option.some.injEq] at hg
    have e : 1 + 1 * (a - 1) = a := by omega
    rw [e] at hg
    exact ⟨hk1, hr.1, by omega, hg.symm⟩

/-! ## the cost of the generic segment with Revolve's split -/

theorem segRev_cost (c : Costs) (N lmax mmax cm : Nat) (hcm : cm ≤ mmax) :
    ∀ (fuel : Nat) (stored spine : Bool) (lo hi d : Nat) (evs : List Ev),
      segWith N (revolveSplit (opt0Table lmax mmax c.uf c.ub) c.uf) cm (fun _ => Storage.ram) false
        fuel stored spine lo hi d = some evs →
      lo < hi → hi - lo - 1 ≤ lmax →
      cost c evs = opt0Get (opt0Table lmax mmax c.uf c.ub) (cm - d) (hi - lo - 1) + (hi - lo) * c.uf := by
  intro fuel
  induction fuel with
  | zero => intro _ _ _ _ _ _ h; simp [segWith] at h
  | succ fuel ih =>
    intro stored spine lo hi d evs h hlt hl
    unfold segWith at h
    dsimp only at h
    split at h
    · rename_i hbase
      have e1 : hi - lo - 1 = 0 := by omega
      have e2 : hi - lo = 1 := by omega
      injection h with h
      rw [e1, e2, opt0Get_zero _ _ _ _ _ (by omega), ← h]
      cases stored <;> cases spine <;> simp [evCost, e2] <;> omega
    · rename_i hbase
      split at h
      · cases h
      · rename_i a ha
        split at h
        · cases h
        · rename_i right hright
          split at h
          · cases h
          · rename_i left hleft
            injection h with h
            obtain ⟨hk1, ha1, ha2, hbell⟩ := revolveSplit_bellman lmax mmax c.uf c.ub (hi - lo) (cm - d) a
              (by omega) hl (by omega) ha
            have cr := ih _ _ _ _ _ _ hright (by omega) (by omega)
            have cl := ih _ _ _ _ _ _ hleft (by omega) (by omega)
            have e1 : hi - (lo + a) - 1 = hi - lo - 1 - a := by omega
            have e2 : cm - (d + 1) = cm - d - 1 := by omega
            have e3 : lo + a - lo - 1 = a - 1 := by omega
            have e4 : lo + a - lo = a := by omega
            rw [e1, e2] at cr
            rw [e3, e4] at cl
            have hsplit : (hi - lo) * c.uf = a * c.uf + (hi - (lo + a)) * c.uf := by
              rw [← Nat.add_mul]; congr 1; omega
            rw [← h, cost_append, cost_append, cr, cl, hbell, hsplit]
            have hfirst : cost c (if stored = true then
                [(⟨.copy lo Storage.ram .work, lo, N - hi⟩ : Ev),
                  ⟨.forward lo (lo + a) false false .work, lo + a, N - hi⟩]
                else [⟨.forward lo (lo + a) true false Storage.ram, lo + a, N - hi⟩]) = a * c.uf := by
              cases stored <;> simp [evCost]
            rw [hfirst]
            omega

/-- the cost of the memory-only Revolve segment on `[lo, hi)` is the table entry plus the first
sweep -/
theorem revSeg_cost (c : Costs) (N lmax mmax cm : Nat) (hcm : cm ≤ mmax) (spine : Bool)
    (lo hi : Nat) (evs : List Ev)
    (h : revSeg N (opt0Table lmax mmax c.uf c.ub) c.uf cm spine lo hi = some evs)
    (hlt : lo < hi) (hl : hi - lo - 1 ≤ lmax) :
    cost c evs = opt0Get (opt0Table lmax mmax c.uf c.ub) cm (hi - lo - 1) + (hi - lo) * c.uf := by
  have := segRev_cost c N lmax mmax cm hcm _ _ _ _ _ _ evs h hlt hl
  simpa using this

/-- C07 for Revolve: the cost of the stream is the optimal-cost table entry (plus the `N` steps of
the initial forward sweep, which the table does not count) -/
theorem revolve_cost (N cm : Nat) (c : Costs) (hN : 1 ≤ N) (evs : List Ev)
    (h : revolveEvs N cm c = .ok evs) :
    cost c evs = opt0Get (opt0Table (N - 1) cm c.uf c.ub) cm (N - 1) + N * c.uf := by
  unfold revolveEvs at h
  dsimp only at h
  split at h
  · cases h
  · rename_i seg hseg
    injection h with h
    have := revSeg_cost c N (N - 1) cm cm (le_refl _) true 0 N seg hseg (by omega) (by omega)
    rw [← h, cost_append, this]
    simp [evCost]

-- a concrete instance: N = 10, 3 RAM units, uf = 2, ub = 3
example : (match revolveEvs 10 3 ⟨2, 3, 5, 7⟩ with | .ok evs => cost ⟨2, 3, 5, 7⟩ evs | .error _ => 0)
    = opt0Get (opt0Table 9 3 2 3) 3 9 + 10 * 2 := by decide +kernel

end Ckpt.RC
