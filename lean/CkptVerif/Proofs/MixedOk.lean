import CkptVerif.Proofs.MixedSegLemmas
import CkptVerif.Proofs.ExecLemmas
import CkptVerif.Spec.Configs
/-!
# MixedCheckpointSchedule: the model stream is accepted by the specification executor

`mseg_ok`: for ANY planner with the shape `PlanHyp` (in particular `memoPlan`, hence also the
tabulated planner), the stream `mseg … lo hi k` runs through the executor without a single
violation (of any tag) and takes "forward at `lo`, adjoint at `hi`, stack of `S - k` checkpoints
with keys below `lo`" to "adjoint at `lo`, same stack".  `mixed_clean`: the complete stream of
`MixedCheckpointSchedule(N, s, storage)` is accepted under `cfgMixed s st N`, for all `N ≥ 1`,
all `s ≥ min 1 (N-1)` and both storages.
-/
namespace Ckpt

section steps
variable (cfg : Cfg) (N : Nat)

/-- write an adjoint-dependency checkpoint for step `lo` while advancing one step -/
theorem step_writeDeps (base : List Cp) (lo0 hi0 : Nat) (st : Storage)
    (f : Option Nat) (lo r : Nat) (wi wd : Option (Nat × Nat)) (rest : List Cp) (e : Bool)
    (dn : Nat) (sn : List Cp) (hN : cfg.N = N) (hal : Alive cfg dn)
    (h : lo + 1 ≤ N - r) (hf : f = some lo)
    (hst : st.isStore = true)
    (hr : Below rest lo) (hb : Outside base lo0 hi0) (h0 : lo0 ≤ lo) (h1 : lo < hi0)
    (hB : withinBudget cfg (⟨lo, st, 0, 1⟩ :: (rest ++ base)) = true) :
    step cfg (X f r wi wd (rest ++ base) e dn sn)
        (Ev.obs ⟨.forward lo (lo + 1) false true st, lo + 1, r⟩ N)
      = (X (some (lo + 1)) r none none (⟨lo, st, 0, 1⟩ :: (rest ++ base)) e dn sn, []) := by
  have hnf := finished_false hal (X f r wi wd (rest ++ base) e dn sn) rfl
  have hfind := findCp_none hr hb h0 h1 st
  have hB' : withinBudget cfg (⟨lo, st, 0, 0⟩ :: (rest ++ base)) = true := by
    rw [← hB]; exact withinBudget_congr cfg _ _ _ rfl
  have hnw : st ≠ .work := by
    intro hw; rw [hw] at hst; simp [Storage.isStore] at hst
  have hnn : st ≠ .none := by
    intro hw; rw [hw] at hst; simp [Storage.isStore] at hst
  subst hf
  simp only [step, stepViols, hnf, actViols, nextState, clip, X, Ev.obs, obsViols, chk, hN, hst, hfind, hB'] at *
  simp [h, hnw, hnn]
  close_step hal

/-- load the adjoint-dependency checkpoint on top of the stack, deleting it; the forward state
becomes undefined, so the reported `n` is unconstrained -/
theorem step_moveDeps (base : List Cp) (lo0 hi0 : Nat) (f : Option Nat) (lo n r : Nat) (st : Storage)
    (rest : List Cp) (dn : Nat) (sn : List Cp) (hN : cfg.N = N) (hal : Alive cfg dn)
    (hst : st.isStore = true) (h : lo + 1 = N - r)
    (hr : Below rest lo) (hb : Outside base lo0 hi0) (h0 : lo0 ≤ lo) (h1 : lo < hi0) :
    step cfg (X f r none none (⟨lo, st, 0, 1⟩ :: (rest ++ base)) true dn sn)
        (Ev.obs ⟨.move lo st .work, n, r⟩ N)
      = (X none r none (some (lo, lo + 1)) (rest ++ base) true dn sn, []) := by
  have hnf := finished_false hal (X f r none none (⟨lo, st, 0, 1⟩ :: (rest ++ base)) true dn sn) rfl
  have hfind : findCp (⟨lo, st, 0, 1⟩ :: (rest ++ base)) lo st = some ⟨lo, st, 0, 1⟩ := by
    simp [findCp]
  have herase : eraseCp (⟨lo, st, 0, 1⟩ :: (rest ++ base)) lo st = rest ++ base := by
    have := eraseCp_stack hr hb h0 h1 st
    unfold eraseCp at this ⊢
    rw [List.filter_cons, this]
    simp
  simp only [step, stepViols, hnf, actViols, actViols.loadViols, nextState, X, Ev.obs, obsViols, chk, hN, hst, hfind, herase] at *
  simp [h, Storage.isStore]
  close_step hal

/-- reversal of the single step whose dependencies are in WORK, the forward state being
undefined (C08.1 only constrains `n` when there is a forward state) -/
theorem step_reverse_none (lo n r : Nat) (wi : Option (Nat × Nat)) (cps : List Cp)
    (dn : Nat) (sn : List Cp) (hN : cfg.N = N) (hal : Alive cfg dn)
    (h : lo + 1 = N - r) :
    step cfg (X none r wi (some (lo, lo + 1)) cps true dn sn)
        (Ev.obs ⟨.reverse (lo + 1) lo true, n, r + 1⟩ N)
      = (X none (r + 1) wi none cps true dn sn, []) := by
  have hnf := finished_false hal (X none r wi (some (lo, lo + 1)) cps true dn sn) rfl
  simp only [step, stepViols, hnf, actViols, nextState, X, Ev.obs, obsViols, chk, hN, covers] at *
  simp [h]
  close_step hal

/-- the final `EndReverse` of a single-adjoint schedule, the forward state possibly undefined -/
theorem step_endReverse_final' (n : Nat) (f : Option Nat) (sn : List Cp)
    (hN : cfg.N = N) (hp : cfg.passes = some 1) (hf : f = none ∨ f = some n) :
    step cfg (X f N none none [] true 0 sn) ⟨.endReverse, n, N, some N, true, true⟩
      = (X f N none none [] true 1 sn, []) := by
  rcases hf with rfl | rfl <;>
  simp [step, stepViols, actViols, nextState, obsViols, chk, X, finished, hN, hp]

end steps

/-! ## the Hoare triple of a segment -/

structure MixHyp (cfg : Cfg) (N : Nat) (plan : Planner) (S : Nat) (st : Storage)
    (base : List Cp) (lo0 hi0 dn : Nat) : Prop where
  hN : cfg.N = N
  alive : Alive cfg dn
  plan : PlanHyp plan
  store : st.isStore = true
  budget : ∀ stack : List Cp, (∀ c ∈ stack, c.st = st) → stack.length ≤ S →
    withinBudget cfg (stack ++ base) = true
  base : Outside base lo0 hi0

theorem wics_ne_fr : ¬ stForwardReverse = stWriteIcs := by decide
theorem wics_ne_wad : ¬ stWriteAdjDeps = stWriteIcs := by decide

/-- `[lo, hi)` is reversed with `k` free units.  `reuse`: a restart checkpoint `⟨lo, st, kk, 0⟩`
covering the segment is on top of the stack and occupies one of the `k` units; the segment
consumes it. -/
theorem mseg_ok {cfg : Cfg} {N : Nat} {plan : Planner} {S : Nat} {st : Storage}
    {base : List Cp} {lo0 hi0 dn : Nat} (H : MixHyp cfg N plan S st base lo0 hi0 dn) :
    ∀ (fuel : Nat) (spine reuse : Bool) (lo hi k : Nat) (rest : List Cp) (kk : Nat)
      (wi wd : Option (Nat × Nat)) (sn : List Cp),
      hi - lo ≤ fuel → lo < hi → hi ≤ N → lo0 ≤ lo → hi ≤ hi0 →
      (spine = true → hi = N ∧ reuse = false) →
      Below rest lo → (∀ c ∈ rest, c.st = st) → rest.length + k = S →
      (hi - lo = 1 ∨ 1 ≤ k) →
      (reuse = true → hi ≤ lo + kk ∧ 0 < kk ∧
        ∃ c, plan (hi - lo) k = some c ∧ c.kind = stWriteIcs) →
      ∃ evs sn' f', mseg N plan st fuel lo hi k spine reuse = some evs ∧
        (spine = false → sn' = sn) ∧ (f' = none ∨ f' = some (lo + 1)) ∧
        Clean cfg
          (X (some lo) (N - hi) wi wd ((if reuse then ⟨lo, st, kk, 0⟩ :: rest else rest) ++ base)
            (!spine) dn sn)
          (evs.map (Ev.obs · N))
          (X f' (N - lo) none none (rest ++ base) true dn sn') := by
  intro fuel
  induction fuel with
  | zero => intro _ _ lo hi _ _ _ _ _ _ h1 h2; omega
  | succ fuel ih =>
    intro spine reuse lo hi k rest kk wi wd sn hfuel hlt hN hlo0 hhi0 hspine hbelow hlab hlen
      hvalid hreuse
    have hcN := H.hN
    have hal := H.alive
    by_cases hbase : hi = lo + 1
    · -- a single step: FORWARD_REVERSE
      subst hbase
      obtain ⟨c, hc, hck, hcl⟩ := H.plan.one k
      have hm : lo + 1 - lo = 1 := by omega
      have hru : reuse = false := by
        cases reuse with
        | false => rfl
        | true =>
          obtain ⟨_, _, c', hc', hk'⟩ := hreuse rfl
          rw [hm, hc] at hc'
          cases hc'
          rw [hck] at hk'
          exact absurd hk' wics_ne_fr
      subst hru
      have heq := mseg_FR N plan st fuel lo (lo + 1) k spine c (by rw [hm]; exact hc) hck hm hcl
      have hr : lo + 1 = N - (N - (lo + 1)) := by omega
      have hr2 : N - (lo + 1) + 1 = N - lo := by omega
      cases spine with
      | false =>
        refine ⟨_, sn, some (lo + 1), heq, fun _ => rfl, Or.inr rfl, ?_⟩
        simp only [Bool.false_eq_true, if_false, List.append_nil, Bool.not_false,
          List.map_cons, List.map_nil, List.cons_append, List.nil_append]
        refine Clean.cons (step_turn cfg N (some lo) lo _ wi wd _ true dn sn hcN hal hr rfl) ?_
        refine Clean.cons (step_reverse cfg N (some (lo+1)) lo _ none _ dn sn hcN hal hr rfl) ?_
        rw [hr2]; exact Clean.nil _ _
      | true =>
        have hN' := (hspine rfl).1
        subst hN'
        refine ⟨_, rest ++ base, some (lo + 1), heq, fun h => by simp at h, Or.inr rfl, ?_⟩
        simp only [if_true, Bool.false_eq_true, if_false, Bool.not_true,
          List.map_cons, List.map_nil, List.cons_append, List.nil_append, Nat.sub_self]
        refine Clean.cons (step_turn cfg (lo+1) (some lo) lo 0 wi wd _ false dn sn hcN hal (by omega) rfl) ?_
        refine Clean.cons (step_endForward cfg (lo+1) none _ _ dn sn hcN hal) ?_
        refine Clean.cons (step_reverse cfg (lo+1) (some (lo+1)) lo 0 none (rest ++ base) dn
          (rest ++ base) hcN hal (by omega) rfl) ?_
        have e1 : 0 + 1 = lo + 1 - lo := by omega
        rw [e1]; exact Clean.nil _ _
    · have hm2 : 2 ≤ hi - lo := by omega
      have hk1 : 1 ≤ k := by omega
      obtain ⟨c, hc, hcase⟩ := H.plan.big (hi - lo) k hm2 hk1
      rcases hcase with ⟨hck, hcl, hk2⟩ | ⟨hck, hl2, hlm, hlone⟩
      · -- WRITE_ADJ_DEPS
        have hru : reuse = false := by
          cases reuse with
          | false => rfl
          | true =>
            obtain ⟨_, _, c', hc', hk'⟩ := hreuse rfl
            rw [hc] at hc'
            cases hc'
            rw [hck] at hk'
            exact absurd hk' wics_ne_wad
        subst hru
        have hlab' : ∀ c' ∈ (⟨lo, st, 0, 1⟩ : Cp) :: rest, c'.st = st := by
          intro c' hc'
          rcases List.mem_cons.mp hc' with rfl | h
          · rfl
          · exact hlab _ h
        have hB := H.budget (⟨lo, st, 0, 1⟩ :: rest) hlab' (by simp; omega)
        have hw := step_writeDeps cfg N base lo0 hi0 st (some lo) lo (N - hi) wi wd rest (!spine)
          dn sn hcN hal (by omega) rfl H.store hbelow H.base hlo0 (by omega)
          (by simpa using hB)
        obtain ⟨right, sn1, f1, hright, hsn1, _, hrun⟩ := ih spine false (lo + 1) hi (k - 1)
          (⟨lo, st, 0, 1⟩ :: rest) 0 none none sn (by omega) (by omega) hN (by omega) hhi0
          (fun h => ⟨(hspine h).1, rfl⟩) (hbelow.cons rfl (by omega)) hlab'
          (by simp; omega) (by omega) (by simp)
        have heq := mseg_WAD N plan st fuel lo hi k spine c right hc hck hcl (by omega) hm2 hright
        refine ⟨_, sn1, none, heq, hsn1, Or.inl rfl, ?_⟩
        simp only [Bool.false_eq_true, if_false, List.cons_append] at hrun ⊢
        simp only [List.map_append, List.map_cons, List.map_nil]
        refine Clean.append (Clean.cons hw hrun) ?_
        refine Clean.cons (step_moveDeps cfg N base lo0 hi0 f1 lo (lo + 1) (N - (lo + 1)) st rest
          dn sn1 hcN hal H.store (by omega) hbelow H.base hlo0 (by omega)) ?_
        have hr2 : N - lo = N - (lo + 1) + 1 := by omega
        rw [hr2]
        exact Clean.single (step_reverse_none cfg N lo (lo + 1) (N - (lo + 1)) none _ dn sn1
          hcN hal (by omega))
      · -- WRITE_ICS
        have hln : c.len < hi - lo := by omega
        obtain ⟨c2, hc2, _⟩ := H.plan.big c.len k hl2 hk1
        -- the first action: write the restart checkpoint, or advance if it is already there
        have hfirst : ∃ kk', (reuse = true → kk' = kk) ∧ (reuse = false → kk' = c.len) ∧
            Clean cfg
              (X (some lo) (N - hi) wi wd
                ((if reuse then ⟨lo, st, kk, 0⟩ :: rest else rest) ++ base) (!spine) dn sn)
              ([Ev.obs (if reuse then ⟨.forward lo (lo + c.len) false false .work, lo + c.len, N - hi⟩
                 else ⟨.forward lo (lo + c.len) true false st, lo + c.len, N - hi⟩) N])
              (X (some (lo + c.len)) (N - hi) none none (⟨lo, st, kk', 0⟩ :: (rest ++ base))
                (!spine) dn sn) := by
          cases reuse with
          | false =>
            refine ⟨c.len, by simp, by simp, ?_⟩
            have hlab' : ∀ c' ∈ (⟨lo, st, c.len, 0⟩ : Cp) :: rest, c'.st = st := by
              intro c' hc'
              rcases List.mem_cons.mp hc' with rfl | h
              · rfl
              · exact hlab _ h
            have hB := H.budget (⟨lo, st, c.len, 0⟩ :: rest) hlab' (by simp; omega)
            have := step_write cfg N (fun _ => st) S base lo0 hi0 (some lo) lo c.len (N - hi) wi wd
              rest (!spine) dn sn hcN hal (by omega) (by omega) rfl H.store hbelow H.base hlo0
              (by omega) (by simpa using hB)
            simp only [Bool.false_eq_true, if_false]
            exact Clean.single this
          | true =>
            have hsp : spine = false := by
              cases spine with
              | false => rfl
              | true => exact absurd (hspine rfl).2 (by simp)
            subst hsp
            refine ⟨kk, by simp, by simp, ?_⟩
            simp only [if_true, List.cons_append]
            exact Clean.single (step_plain cfg N (some lo) lo c.len (N - hi) wi wd _ _ dn sn hcN hal
              (by omega) (by omega) rfl)
        obtain ⟨kk', hkk1, hkk2, hfirst⟩ := hfirst
        have hkk_pos : 0 < kk' ∧ c.len ≤ kk' := by
          cases reuse with
          | false => have := hkk2 rfl; omega
          | true => have := hkk1 rfl; obtain ⟨h1, h2, _⟩ := hreuse rfl; omega
        have hlab' : ∀ c' ∈ (⟨lo, st, kk', 0⟩ : Cp) :: rest, c'.st = st := by
          intro c' hc'
          rcases List.mem_cons.mp hc' with rfl | h
          · rfl
          · exact hlab _ h
        -- the right part
        obtain ⟨right, sn1, f1, hright, hsn1, _, hrun_right⟩ := ih spine false (lo + c.len) hi (k - 1)
          (⟨lo, st, kk', 0⟩ :: rest) 0 none none sn (by omega) (by omega) hN (by omega) hhi0
          (fun h => ⟨(hspine h).1, rfl⟩) (hbelow.cons rfl (by omega)) hlab'
          (by simp; omega)
          (by
            by_cases hk : k = 1
            · left; have := hlone hk; omega
            · right; omega)
          (by simp)
        simp only [Bool.false_eq_true, if_false, List.cons_append] at hrun_right
        have hr : N - (N - (lo + c.len)) = lo + c.len := by omega
        -- reload, then the left part
        by_cases hkeep : c2.kind = stWriteIcs
        · have hd : decide (c2.kind = stWriteIcs) = true := by simp [hkeep]
          obtain ⟨left, sn2, f2, hleft, hsn2, hf2, hrun_left⟩ := ih false true lo (lo + c.len) k rest kk'
            (some (lo, lo + kk')) none sn1 (by omega) (by omega) (by omega) hlo0 (by omega)
            (by simp) hbelow hlab hlen (Or.inr hk1)
            (fun _ => ⟨by omega, hkk_pos.1, c2, by
              rw [show lo + c.len - lo = c.len by omega]; exact hc2, hkeep⟩)
          have heq := mseg_WICS N plan st fuel lo hi k spine reuse c c2 right left hc hck hl2 hln
            (by omega) hright hc2 (by rw [hd]; exact hleft)
          refine ⟨_, sn2, f2, heq, fun h => by rw [hsn2 rfl, hsn1 h], hf2, ?_⟩
          simp only [hd, if_true, List.map_append, List.map_cons, List.map_nil, List.cons_append,
            Bool.not_false] at hrun_left ⊢
          refine Clean.append (Clean.append (Clean.append hfirst hrun_right) ?_) hrun_left
          exact Clean.single (step_copy cfg N base f1 lo kk' (N - (lo + c.len)) st rest dn sn1 hcN hal
            H.store hkk_pos.1 (by omega) (by omega))
        · have hd : decide (c2.kind = stWriteIcs) = false := by simp [hkeep]
          obtain ⟨left, sn2, f2, hleft, hsn2, hf2, hrun_left⟩ := ih false false lo (lo + c.len) k rest 0
            (some (lo, lo + kk')) none sn1 (by omega) (by omega) (by omega) hlo0 (by omega)
            (by simp) hbelow hlab hlen (Or.inr hk1) (by simp)
          have heq := mseg_WICS N plan st fuel lo hi k spine reuse c c2 right left hc hck hl2 hln
            (by omega) hright hc2 (by rw [hd]; exact hleft)
          refine ⟨_, sn2, f2, heq, fun h => by rw [hsn2 rfl, hsn1 h], hf2, ?_⟩
          simp only [hd, Bool.false_eq_true, if_false, List.map_append, List.map_cons, List.map_nil,
            List.cons_append, Bool.not_false] at hrun_left ⊢
          refine Clean.append (Clean.append (Clean.append hfirst hrun_right) ?_) hrun_left
          exact Clean.single (step_move cfg N base lo0 hi0 f1 lo kk' (N - (lo + c.len)) st rest dn sn1
            hcN hal H.store hkk_pos.1 (by omega) (by omega) hbelow H.base hlo0 (by omega))

/-! ## the complete stream -/

theorem countSt_all (stack : List Cp) (st s' : Storage) (h : ∀ c ∈ stack, c.st = st) :
    countSt stack s' = if st = s' then stack.length else 0 := by
  induction stack with
  | nil => simp [countSt]
  | cons c rest ih =>
    have hc : c.st = st := h c (List.mem_cons_self ..)
    have ih' := ih (fun c' hc' => h c' (List.mem_cons_of_mem _ hc'))
    unfold countSt at ih' ⊢
    rw [List.filter_cons, hc]
    by_cases hs : st = s'
    · simp only [hs, decide_true, if_true, List.length_cons] at ih' ⊢
      rw [ih']
    · simp only [hs, decide_false, if_false] at ih' ⊢
      simpa using ih'

theorem mixHyp_cfgMixed (plan : Planner) (hp : PlanHyp plan) (N s : Nat) (st : Storage)
    (hst : st = .ram ∨ st = .disk) :
    MixHyp (cfgMixed s st N) N plan (min s (N - 1)) st [] 0 N 0 where
  hN := rfl
  alive := ⟨by simp [cfgMixed], by intro k hk; simp [cfgMixed] at hk; omega⟩
  plan := hp
  store := by rcases hst with rfl | rfl <;> rfl
  budget := by
    intro stack hl hlen
    have hr := countSt_all stack st .ram hl
    have hd := countSt_all stack st .disk hl
    simp only [withinBudget, List.append_nil, Bool.and_eq_true]
    rcases hst with rfl | rfl
    · simp [cfgMixed, withinOpt, hr, hd]; omega
    · simp [cfgMixed, withinOpt, hr, hd]; omega
  base := by intro c hc; simp at hc

/-- The Mixed stream of any planner of the right shape is accepted. -/
theorem mixed_clean_plan (plan : Planner) (hp : PlanHyp plan) (N s : Nat) (st : Storage)
    (hst : st = .ram ∨ st = .disk) (hN : 1 ≤ N) (hs : min 1 (N - 1) ≤ s) :
    ∃ evs sn f, mixedEvs plan N s st = .ok (evs ++ [⟨.endReverse, 1, N⟩]) ∧
      (f = none ∨ f = some 1) ∧
      Clean (cfgMixed s st N) (XS.init (cfgMixed s st N))
        (evs.map (Ev.obs · N) ++ [⟨.endReverse, 1, N, some N, true, true⟩])
        (X f N none none [] true 1 sn) := by
  have H := mixHyp_cfgMixed plan hp N s st hst
  obtain ⟨evs, sn', f', hseg, _, hf', hclean⟩ := mseg_ok H N true false 0 N (min s (N - 1)) [] 0
    none none [] (by omega) (by omega) (le_refl _) (le_refl _) (le_refl _)
    (fun _ => ⟨rfl, rfl⟩) (by intro c hc; simp at hc) (by intro c hc; simp at hc)
    (by simp) (by omega) (by simp)
  refine ⟨evs, sn', f', ?_, by simpa using hf', ?_⟩
  · unfold mixedEvs; rw [hseg]
  · have hinit : XS.init (cfgMixed s st N) = X (some 0) (N - N) none none ([] ++ []) (!true) 0 [] := by
      simp [XS.init, X, cfgMixed]
    rw [hinit]
    simp only [Bool.false_eq_true, if_false] at hclean
    refine Clean.append hclean ?_
    have : N - 0 = N := by omega
    rw [this]
    exact Clean.single (step_endReverse_final' (cfgMixed s st N) N 1 f' sn' rfl rfl
      (by simpa using hf'))

/-- `MixedCheckpointSchedule(N, s, storage)` with the memoised planner: accepted by the
specification executor, for every `N ≥ 1`, every `s ≥ min(1, N-1)`, RAM or DISK.  The final forward
state is undefined (`f = none`) when the last step was restored from a dependency checkpoint. -/
theorem mixed_clean (N s : Nat) (st : Storage) (hst : st = .ram ∨ st = .disk) (hN : 1 ≤ N)
    (hs : min 1 (N - 1) ≤ s) :
    ∃ evs sn f, mixedEvs memoPlan N s st = .ok (evs ++ [⟨.endReverse, 1, N⟩]) ∧
      (f = none ∨ f = some 1) ∧
      Clean (cfgMixed s st N) (XS.init (cfgMixed s st N))
        (evs.map (Ev.obs · N) ++ [⟨.endReverse, 1, N, some N, true, true⟩])
        (X f N none none [] true 1 sn) :=
  mixed_clean_plan memoPlan memoPlan_hyp N s st hst hN hs

end Ckpt
