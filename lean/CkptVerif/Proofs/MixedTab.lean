import CkptVerif.Proofs.MixedPlanner
/-!
# The tabulated planner coincides with the memoised one (C16)

`mixedTab n s` (the loops of `mixed_steps_tabulation`, with in-place updates) never fails for
`n ≥ 1`, and every cell `(ni, si)`, `ni ≤ n`, `si ≤ s`, of the final table holds the answer of
`mixed_step_memoization(ni, si)` (through `cache_step`, i.e. `memoSpec ni si`), or the unset cell
`tNone` when that call raises.
-/
namespace Ckpt

/-! ## `tabGet` / `tabSet` -/

theorem tabGet_eq (t : Array (Array TCell)) (ni si : Nat) :
    tabGet t ni si = ((t[ni]?.getD #[])[si]?).getD tNone := by
  unfold tabGet
  rw [Array.getD_eq_getD_getElem?, Array.getD_eq_getD_getElem?]

theorem tabSet_row (t : Array (Array TCell)) (a b : Nat) (c : TCell) (ni : Nat) :
    (tabSet t a b c)[ni]? =
      if a = ni then t[ni]?.map (fun row => row.setIfInBounds b c) else t[ni]? :=
  Array.getElem?_modify

/-- the cell `(ni, si)` exists in the table -/
def InB (t : Array (Array TCell)) (ni si : Nat) : Prop :=
  ∃ row, t[ni]? = some row ∧ si < row.size

theorem InB_tabSet (t : Array (Array TCell)) (a b : Nat) (c : TCell) (ni si : Nat)
    (h : InB t ni si) : InB (tabSet t a b c) ni si := by
  obtain ⟨row, hr, hs⟩ := h
  by_cases hani : a = ni
  · refine ⟨row.setIfInBounds b c, ?_, ?_⟩
    · rw [tabSet_row, if_pos hani, hr, Option.map_some]
    · rw [Array.size_setIfInBounds]; exact hs
  · exact ⟨row, by rw [tabSet_row, if_neg hani, hr], hs⟩

theorem tabGet_tabSet_same (t : Array (Array TCell)) (a b : Nat) (c : TCell) (h : InB t a b) :
    tabGet (tabSet t a b c) a b = c := by
  obtain ⟨row, hr, hs⟩ := h
  rw [tabGet_eq, tabSet_row, if_pos rfl, hr, Option.map_some, Option.getD_some,
    Array.getElem?_setIfInBounds_self_of_lt hs, Option.getD_some]

theorem tabGet_tabSet_ne (t : Array (Array TCell)) (a b : Nat) (c : TCell) (ni si : Nat)
    (h : ¬ (ni = a ∧ si = b)) : tabGet (tabSet t a b c) ni si = tabGet t ni si := by
  rw [tabGet_eq, tabGet_eq, tabSet_row]
  by_cases hani : a = ni
  · rw [if_pos hani]
    have hb : b ≠ si := fun e => h ⟨hani.symm, e.symm⟩
    cases hrow : t[ni]? with
    | none => rfl
    | some row =>
      rw [Option.map_some, Option.getD_some, Option.getD_some,
        Array.getElem?_setIfInBounds_ne hb]
  · rw [if_neg hani]

/-! ## the initial table -/

theorem tabGet_replicate (n s ni si : Nat) :
    tabGet (Array.replicate (n + 1) (Array.replicate (s + 1) tNone)) ni si = tNone := by
  rw [tabGet_eq, Array.getElem?_replicate]
  by_cases h1 : ni < n + 1
  · rw [if_pos h1, Option.getD_some, Array.getElem?_replicate]
    by_cases h2 : si < s + 1
    · rw [if_pos h2, Option.getD_some]
    · rw [if_neg h2]; rfl
  · rw [if_neg h1]; rfl

theorem InB_replicate (n s ni si : Nat) (h1 : ni ≤ n) (h2 : si ≤ s) :
    InB (Array.replicate (n + 1) (Array.replicate (s + 1) tNone)) ni si := by
  refine ⟨Array.replicate (s + 1) tNone, ?_, ?_⟩
  · rw [Array.getElem?_replicate, if_pos (by omega)]
  · rw [Array.size_replicate]; omega

def tFR : TCell := ⟨stForwardReverse, 1, 1⟩

/-- the first loop: row `1` is `FORWARD_REVERSE` -/
theorem tabInit_spec (n s : Nat) (hn : 1 ≤ n) (k : Nat) (hk : k ≤ s + 1) :
    (∀ ni si, ni ≤ n → si ≤ s →
      InB ((List.range k).foldl (fun t si => tabSet t 1 si tFR)
        (Array.replicate (n + 1) (Array.replicate (s + 1) tNone))) ni si) ∧
    (∀ ni si, ni = 1 ∧ si < k →
      tabGet ((List.range k).foldl (fun t si => tabSet t 1 si tFR)
        (Array.replicate (n + 1) (Array.replicate (s + 1) tNone))) ni si = tFR) ∧
    (∀ ni si, ¬ (ni = 1 ∧ si < k) →
      tabGet ((List.range k).foldl (fun t si => tabSet t 1 si tFR)
        (Array.replicate (n + 1) (Array.replicate (s + 1) tNone))) ni si = tNone) := by
  induction k with
  | zero =>
    refine ⟨fun ni si h1 h2 => InB_replicate n s ni si h1 h2, ?_, ?_⟩
    · intro ni si h; omega
    · intro ni si _; exact tabGet_replicate n s ni si
  | succ k ih =>
    obtain ⟨hinb, hset, hunset⟩ := ih (by omega)
    rw [List.range_succ, List.foldl_append]
    show (∀ ni si, ni ≤ n → si ≤ s → InB (tabSet _ 1 k tFR) ni si) ∧
      (∀ ni si, ni = 1 ∧ si < k + 1 → tabGet (tabSet _ 1 k tFR) ni si = tFR) ∧
      (∀ ni si, ¬ (ni = 1 ∧ si < k + 1) → tabGet (tabSet _ 1 k tFR) ni si = tNone)
    refine ⟨fun ni si h1 h2 => InB_tabSet _ _ _ _ _ _ (hinb ni si h1 h2), ?_, ?_⟩
    · intro ni si h
      by_cases he : ni = 1 ∧ si = k
      · rw [he.1, he.2]
        exact tabGet_tabSet_same _ _ _ _ (hinb 1 k hn (by omega))
      · rw [tabGet_tabSet_ne _ _ _ _ _ _ he]
        exact hset ni si (by omega)
    · intro ni si h
      rw [tabGet_tabSet_ne _ _ _ _ _ _ (by omega)]
      exact hunset ni si (by omega)

/-! ## the expected content of a cell -/

def toT (c : Cell) : TCell := ⟨c.kind, c.len, (c.cost : Int)⟩

/-- what cell `(ni, si)` of the final table holds -/
def expect (ni si : Nat) : TCell :=
  if validKey ni (clampS ni si) = true then toT (memoCell ni (clampS ni si)) else tNone

theorem validKey_clamp_iff (ni si : Nat) :
    validKey ni (clampS ni si) = true ↔ 1 ≤ ni ∧ (ni = 1 ∨ 1 ≤ si) := by
  rw [validKey_iff]; unfold clampS; omega

theorem expect_valid (ni si : Nat) (h1 : 1 ≤ ni) (h2 : ni = 1 ∨ 1 ≤ si) :
    expect ni si = toT (memoCell ni (clampS ni si)) := by
  unfold expect
  rw [if_pos ((validKey_clamp_iff ni si).2 ⟨h1, h2⟩)]

theorem expect_invalid (ni si : Nat) (h : ni = 0 ∨ (2 ≤ ni ∧ si = 0)) : expect ni si = tNone := by
  unfold expect
  rw [if_neg]
  rw [validKey_clamp_iff]
  omega

theorem expect_one (si : Nat) : expect 1 si = tFR := by
  rw [expect_valid 1 si (Nat.le_refl 1) (Or.inl rfl), memoCell_one]; rfl

theorem expect_small (a b : Nat) (ha : 2 ≤ a) (hb : 1 ≤ b) (hab : a ≤ b + 1) :
    expect a b = ⟨stWriteAdjDeps, 1, (a : Int)⟩ := by
  rw [expect_valid a b (by omega) (Or.inr hb),
    memoCell_small a (clampS a b) ha (by unfold clampS; omega)]
  rfl

theorem expect_s_one (a : Nat) (ha : 3 ≤ a) :
    expect a 1 = ⟨stWriteIcs, a - 1, ((a * (a + 1) / 2 - 1 : Nat) : Int)⟩ := by
  have hc : clampS a 1 = 1 := by unfold clampS; omega
  rw [expect_valid a 1 (by omega) (Or.inr (Nat.le_refl 1)), hc, memoCell_s_one a ha]
  rfl

/-! ## the inner loop `tabCell` against the planner's loop -/

def tabStep (f : Nat → Int) (cur : TCell) (i : Nat) : TCell :=
  if cur.cost < 0 ∨ f i ≤ cur.cost then ⟨stWriteIcs, i, f i⟩ else cur

def tabFinish (m1 : Int) (cur : TCell) : Option TCell :=
  if cur.cost < 0 then none else some (if m1 < cur.cost then ⟨stWriteAdjDeps, 1, m1⟩ else cur)

theorem tabCell_def (t : Array (Array TCell)) (ni si : Nat) :
    tabCell t ni si = tabFinish (1 + (tabGet t (ni - 1) (si - 1)).cost)
      ((List.range' 2 (ni - 2)).foldl
        (tabStep (fun (i : Nat) => (i : Int) + (tabGet t i si).cost + (tabGet t (ni - i) (si - 1)).cost))
        (tabGet t ni si)) := rfl

/-- the `int64` accumulator (cost `< 0` = unset) against the `Option Cell` accumulator -/
def TRel (cur : TCell) (m : Option Cell) : Prop :=
  match m with
  | none => cur.cost < 0
  | some c => cur = toT c

theorem tabStep_rel (f : Nat → Int) (cand : Nat → Nat) (x : Nat) (hf : f x = (cand x : Int))
    (cur : TCell) (m : Option Cell) (h : TRel cur m) :
    TRel (tabStep f cur x) (memoStep cand m x) := by
  cases m with
  | none =>
    have h' : cur.cost < 0 := h
    show TRel (if cur.cost < 0 ∨ f x ≤ cur.cost then _ else _) (some ⟨stWriteIcs, x, cand x⟩)
    rw [if_pos (Or.inl h'), hf]
    rfl
  | some c =>
    have h' : cur = toT c := h
    subst h'
    have hc : (toT c).cost = (c.cost : Int) := rfl
    by_cases hx : cand x ≤ c.cost
    · have e1 : tabStep f (toT c) x = ⟨stWriteIcs, x, f x⟩ := by
        unfold tabStep
        rw [if_pos (Or.inr (by rw [hf, hc]; omega))]
      have e2 : memoStep cand (some c) x = some ⟨stWriteIcs, x, cand x⟩ := by
        show (if cand x ≤ c.cost then _ else _) = _
        rw [if_pos hx]
      rw [e1, e2, hf]; rfl
    · have e1 : tabStep f (toT c) x = toT c := by
        unfold tabStep
        rw [if_neg]
        rw [hf, hc]; omega
      have e2 : memoStep cand (some c) x = some c := by
        show (if cand x ≤ c.cost then _ else _) = _
        rw [if_neg hx]
      rw [e1, e2]; rfl

theorem tabStep_fold_rel (f : Nat → Int) (cand : Nat → Nat) (l : List Nat)
    (hf : ∀ i, i ∈ l → f i = (cand i : Int)) (cur : TCell) (m : Option Cell) (h : TRel cur m) :
    TRel (l.foldl (tabStep f) cur) (l.foldl (memoStep cand) m) := by
  induction l generalizing cur m with
  | nil => exact h
  | cons x xs ih =>
    rw [List.foldl_cons, List.foldl_cons]
    exact ih (fun i hi => hf i (List.mem_cons_of_mem _ hi)) _ _
      (tabStep_rel f cand x (hf x (List.mem_cons_self ..)) cur m h)

theorem tabFinish_toT (m1 : Nat) (c : Cell) :
    tabFinish (m1 : Int) (toT c) = some (toT (memoFinish m1 (some c))) := by
  have hc : (toT c).cost = (c.cost : Int) := rfl
  have hfin : memoFinish m1 (some c) = if m1 < c.cost then ⟨stWriteAdjDeps, 1, m1⟩ else c := rfl
  unfold tabFinish
  rw [if_neg (by rw [hc]; omega), hfin, hc]
  by_cases hlt : m1 < c.cost
  · rw [if_pos hlt, if_pos (by omega)]; rfl
  · rw [if_neg hlt, if_neg (by omega)]

/-- the general branch: if the cells read by `tabCell` are final, it computes `memoCell a b` -/
theorem tabCell_correct (t : Array (Array TCell)) (a b : Nat) (hb : 2 ≤ b) (hab : b + 1 < a)
    (hcur : tabGet t a b = tNone)
    (hL : ∀ i, 2 ≤ i → i < a → (tabGet t i b).cost = ((memoCell i (clampS i b)).cost : Int))
    (hR : ∀ i, 1 ≤ i → i < a →
      (tabGet t (a - i) (b - 1)).cost = ((memoCell (a - i) (clampS (a - i) (b - 1))).cost : Int)) :
    tabCell t a b = some (toT (memoCell a b)) := by
  rw [tabCell_def, memoCell_eq, memoF_def, if_neg (by omega), if_neg (by omega),
    if_neg (by omega)]
  obtain ⟨k, hk⟩ : ∃ k, a - 2 = k + 1 := ⟨a - 3, by omega⟩
  have hrange : List.range' 2 (a - 2) = 2 :: List.range' 3 k := by rw [hk, List.range'_succ]
  have hf : ∀ i, i ∈ List.range' 2 (a - 2) →
      (fun (i : Nat) => (i : Int) + (tabGet t i b).cost + (tabGet t (a - i) (b - 1)).cost) i =
        ((splitCand a b (fun i j => (memoCell i j).cost) i : Nat) : Int) := by
    intro i hi
    rw [List.mem_range'_1] at hi
    show (i : Int) + (tabGet t i b).cost + (tabGet t (a - i) (b - 1)).cost = _
    rw [hL i (by omega) (by omega), hR i (by omega) (by omega)]
    show _ = ((i + (memoCell i (clampS i b)).cost
      + (memoCell (a - i) (clampS (a - i) (b - 1))).cost : Nat) : Int)
    omega
  have hrel := tabStep_fold_rel _ _ (List.range' 2 (a - 2)) hf tNone none
    (show tNone.cost < 0 by decide)
  obtain ⟨c', hc', _⟩ := memoStep_fold_none_inv
    (splitCand a b (fun i j => (memoCell i j).cost)) (fun _ => True) 2 (List.range' 3 k)
    (fun _ _ => trivial)
  rw [← hrange] at hc'
  rw [hc'] at hrel
  have hrel' : (List.range' 2 (a - 2)).foldl
      (tabStep (fun (i : Nat) => (i : Int) + (tabGet t i b).cost + (tabGet t (a - i) (b - 1)).cost))
      tNone = toT c' := hrel
  have hm1 : (1 : Int) + (tabGet t (a - 1) (b - 1)).cost =
      ((1 + (memoCell (a - 1) (clampS (a - 1) (b - 1))).cost : Nat) : Int) := by
    rw [hR 1 (by omega) (by omega)]; omega
  rw [hcur, hrel', hc', hm1]
  exact tabFinish_toT _ _

/-! ## the loop invariant -/

/-- columns `< b` are final, column `b` is final in rows `< a`; rows `0, 1` and column `0`
are final from the start; everything else is still unset -/
structure TabInv (n s a b : Nat) (t : Array (Array TCell)) : Prop where
  inb : ∀ ni si, ni ≤ n → si ≤ s → InB t ni si
  done : ∀ ni si, ni ≤ n → si ≤ s → (ni ≤ 1 ∨ si = 0 ∨ si < b ∨ (si = b ∧ ni < a)) →
    tabGet t ni si = expect ni si
  todo : ∀ ni si, ni ≤ n → si ≤ s → ¬ (ni ≤ 1 ∨ si = 0 ∨ si < b ∨ (si = b ∧ ni < a)) →
    tabGet t ni si = tNone

theorem TabInv_set (n s a b : Nat) (t : Array (Array TCell)) (c : TCell)
    (inv : TabInv n s a b t) (_ha : 2 ≤ a) (han : a ≤ n) (_hb : 1 ≤ b) (hbs : b ≤ s)
    (hc : c = expect a b) : TabInv n s (a + 1) b (tabSet t a b c) where
  inb := fun ni si h1 h2 => InB_tabSet _ _ _ _ _ _ (inv.inb ni si h1 h2)
  done := by
    intro ni si h1 h2 h
    by_cases he : ni = a ∧ si = b
    · rw [he.1, he.2, tabGet_tabSet_same _ _ _ _ (inv.inb a b han hbs), hc]
    · rw [tabGet_tabSet_ne _ _ _ _ _ _ he]
      exact inv.done ni si h1 h2 (by omega)
  todo := by
    intro ni si h1 h2 h
    rw [tabGet_tabSet_ne _ _ _ _ _ _ (by omega)]
    exact inv.todo ni si h1 h2 (by omega)

theorem TabInv_next_col (n s b : Nat) (t : Array (Array TCell)) (inv : TabInv n s (n + 1) b t) :
    TabInv n s 2 (b + 1) t where
  inb := inv.inb
  done := fun ni si h1 h2 h => inv.done ni si h1 h2 (by omega)
  todo := fun ni si h1 h2 h => inv.todo ni si h1 h2 (by omega)

/-- body of the two nested loops -/
def tabStepCell (si : Nat) (ot : Option (Array (Array TCell))) (ni : Nat) :
    Option (Array (Array TCell)) :=
  match ot with
  | none => none
  | some t =>
    if ni ≤ si + 1 then some (tabSet t ni si ⟨stWriteAdjDeps, 1, ni⟩)
    else if si = 1 then
      some (tabSet t ni si ⟨stWriteIcs, ni - 1, (ni * (ni + 1) / 2 - 1 : Nat)⟩)
    else match tabCell t ni si with
      | none => none
      | some c => some (tabSet t ni si c)

theorem mixedTab_def (n s : Nat) :
    mixedTab n s =
      if n < 1 then none else
      (List.range' 1 s).foldl (fun ot si => (List.range' 2 (n - 1)).foldl (tabStepCell si) ot)
        (some ((List.range (s + 1)).foldl (fun t si => tabSet t 1 si tFR)
          (Array.replicate (n + 1) (Array.replicate (s + 1) tNone)))) := rfl

theorem tabStepCell_spec (n s a b : Nat) (t : Array (Array TCell))
    (inv : TabInv n s a b t) (ha : 2 ≤ a) (han : a ≤ n) (hb : 1 ≤ b) (hbs : b ≤ s) :
    ∃ t', tabStepCell b (some t) a = some t' ∧ TabInv n s (a + 1) b t' := by
  by_cases h1 : a ≤ b + 1
  · refine ⟨_, ?_, TabInv_set n s a b t _ inv ha han hb hbs (expect_small a b ha hb h1).symm⟩
    show (if a ≤ b + 1 then _ else _) = _
    rw [if_pos h1]
  · by_cases h2 : b = 1
    · subst h2
      refine ⟨_, ?_, TabInv_set n s a 1 t _ inv ha han hb hbs (expect_s_one a (by omega)).symm⟩
      show (if a ≤ 1 + 1 then _ else _) = _
      rw [if_neg h1, if_pos rfl]
    · have hcost : ∀ i j, 1 ≤ i → i < a → j ≤ b → (i = 1 ∨ 1 ≤ j) → (j < b ∨ j = b) →
          (tabGet t i j).cost = ((memoCell i (clampS i j)).cost : Int) := by
        intro i j hi1 hia hjb hv hj
        rw [inv.done i j (by omega) (by omega) (by omega), expect_valid i j hi1 hv]
        rfl
      have hcell : tabCell t a b = some (toT (memoCell a b)) := by
        apply tabCell_correct t a b (by omega) (by omega)
        · exact inv.todo a b han hbs (by omega)
        · intro i hi2 hia
          exact hcost i b (by omega) hia (Nat.le_refl _) (by omega) (Or.inr rfl)
        · intro i hi1 hia
          exact hcost (a - i) (b - 1) (by omega) (by omega) (by omega) (by omega)
            (Or.inl (by omega))
      have hexp : toT (memoCell a b) = expect a b := by
        have hc : clampS a b = b := by unfold clampS; omega
        rw [expect_valid a b (by omega) (Or.inr hb), hc]
      refine ⟨_, ?_, TabInv_set n s a b t _ inv ha han hb hbs hexp⟩
      show (if a ≤ b + 1 then _ else if b = 1 then _ else
        match tabCell t a b with
        | none => none
        | some c => some (tabSet t a b c)) = _
      rw [if_neg h1, if_neg h2, hcell]

/-- the inner loop over rows `a … n` of column `b` -/
theorem tabCol_spec (n s b : Nat) (hb : 1 ≤ b) (hbs : b ≤ s) (k a : Nat) (ha : 2 ≤ a)
    (hak : a + k = n + 1) (t : Array (Array TCell)) (inv : TabInv n s a b t) :
    ∃ t', (List.range' a k).foldl (tabStepCell b) (some t) = some t' ∧
      TabInv n s (n + 1) b t' := by
  induction k generalizing a t with
  | zero =>
    have : a = n + 1 := by omega
    subst this
    exact ⟨t, rfl, inv⟩
  | succ k ih =>
    rw [List.range'_succ, List.foldl_cons]
    obtain ⟨t1, h1, inv1⟩ := tabStepCell_spec n s a b t inv ha (by omega) hb hbs
    rw [h1]
    exact ih (a + 1) (by omega) (by omega) t1 inv1

/-- the outer loop over columns `b … s` -/
theorem tabCols_spec (n s : Nat) (hn : 1 ≤ n) (k b : Nat) (hb : 1 ≤ b) (hbk : b + k = s + 1)
    (t : Array (Array TCell)) (inv : TabInv n s 2 b t) :
    ∃ t', (List.range' b k).foldl
        (fun ot si => (List.range' 2 (n - 1)).foldl (tabStepCell si) ot) (some t) = some t' ∧
      TabInv n s 2 (s + 1) t' := by
  induction k generalizing b t with
  | zero =>
    have : b = s + 1 := by omega
    subst this
    exact ⟨t, rfl, inv⟩
  | succ k ih =>
    rw [List.range'_succ, List.foldl_cons]
    obtain ⟨t1, h1, inv1⟩ := tabCol_spec n s b hb (by omega) (n - 1) 2 (Nat.le_refl 2)
      (by omega) t inv
    rw [h1]
    exact ih (b + 1) (by omega) (by omega) t1 (TabInv_next_col n s b t1 inv1)

theorem tabInit_inv (n s : Nat) (hn : 1 ≤ n) :
    TabInv n s 2 1 ((List.range (s + 1)).foldl (fun t si => tabSet t 1 si tFR)
      (Array.replicate (n + 1) (Array.replicate (s + 1) tNone))) := by
  obtain ⟨hinb, hset, hunset⟩ := tabInit_spec n s hn (s + 1) (Nat.le_refl _)
  refine ⟨hinb, ?_, ?_⟩
  · intro ni si h1 h2 h
    by_cases hni : ni = 1
    · subst hni
      rw [hset 1 si ⟨rfl, by omega⟩, expect_one]
    · rw [hunset ni si (by omega), expect_invalid ni si (by omega)]
  · intro ni si h1 h2 h
    exact hunset ni si (by omega)

/-! ## the main statements -/

theorem mixedTab_zero (s : Nat) : mixedTab 0 s = none := by
  rw [mixedTab_def, if_pos (by omega)]

/-- `mixedTab` succeeds and every cell in range holds `expect ni si` -/
theorem mixedTab_expect (n s : Nat) (hn : 1 ≤ n) :
    ∃ t, mixedTab n s = some t ∧ ∀ ni si, ni ≤ n → si ≤ s → tabGet t ni si = expect ni si := by
  rw [mixedTab_def, if_neg (by omega)]
  obtain ⟨t, ht, inv⟩ := tabCols_spec n s hn s 1 (Nat.le_refl 1) (by omega) _ (tabInit_inv n s hn)
  exact ⟨t, ht, fun ni si h1 h2 => inv.done ni si h1 h2 (by omega)⟩

/-- C16: the tabulated planner never fails for `n ≥ 1`, and every cell of its table is the answer
of the memoised planner for the clamped key (or unset when the key is invalid). -/
theorem mixedTab_spec (n s : Nat) (hn : 1 ≤ n) :
    ∃ t, mixedTab n s = some t ∧ ∀ ni si, ni ≤ n → si ≤ s →
      tabGet t ni si =
        (if 1 ≤ ni ∧ validKey ni (clampS ni si) = true ∧ (ni = 1 ∨ 1 ≤ si) then
          ⟨(memoCell ni (clampS ni si)).kind, (memoCell ni (clampS ni si)).len,
            ((memoCell ni (clampS ni si)).cost : Int)⟩
        else tNone) := by
  obtain ⟨t, ht, h⟩ := mixedTab_expect n s hn
  refine ⟨t, ht, ?_⟩
  intro ni si h1 h2
  rw [h ni si h1 h2]
  unfold expect
  by_cases hv : validKey ni (clampS ni si) = true
  · have := (validKey_clamp_iff ni si).1 hv
    rw [if_pos hv, if_pos ⟨this.1, hv, this.2⟩]; rfl
  · rw [if_neg hv, if_neg (fun hh => hv hh.2.1)]

/-- the same, in terms of the cached entry point `memoSpec` (`none` = `ValueError`) -/
theorem mixedTab_memoSpec (n s : Nat) (hn : 1 ≤ n) :
    ∃ t, mixedTab n s = some t ∧ ∀ ni si, ni ≤ n → si ≤ s →
      tabGet t ni si = (match memoSpec ni si with
        | some c => toT c
        | none => tNone) := by
  obtain ⟨t, ht, h⟩ := mixedTab_expect n s hn
  refine ⟨t, ht, ?_⟩
  intro ni si h1 h2
  rw [h ni si h1 h2]
  unfold expect
  have hm : memoSpec ni si =
      if validKey ni (clampS ni si) = true then some (memoCell ni (clampS ni si)) else none := rfl
  rw [hm]
  by_cases hv : validKey ni (clampS ni si) = true
  · rw [if_pos hv, if_pos hv]
  · rw [if_neg hv, if_neg hv]

/-! ## the planners of `Driver/Main.lean` -/

/-- `tabPlanner` of the driver, for a successfully built table -/
def tabPlan (t : Array (Array TCell)) : Planner :=
  fun m k =>
    let c := tabGet t m k
    if c.kind = stNone ∨ c.cost < 0 then none else some ⟨c.kind, c.len, c.cost.toNat⟩

/-- `memoPlanner` of the driver, with the table replaced by the function it tabulates
(`dpGet_memoTable`) -/
def memoPlan : Planner :=
  fun m k =>
    let s := clampS m k
    if validKey m s then some (memoCell m s) else none

theorem tabPlan_toT (t : Array (Array TCell)) (m k : Nat) (c : Cell)
    (h : tabGet t m k = toT c) (hk : c.kind ≠ stNone) : tabPlan t m k = some c := by
  show (if (tabGet t m k).kind = stNone ∨ (tabGet t m k).cost < 0 then none
    else some ⟨(tabGet t m k).kind, (tabGet t m k).len, (tabGet t m k).cost.toNat⟩) = some c
  rw [h]
  have h1 : (toT c).kind = c.kind := rfl
  have h2 : (toT c).cost = (c.cost : Int) := rfl
  have h3 : (toT c).len = c.len := rfl
  rw [if_neg (by rw [h1, h2]; omega), h1, h2, h3, Int.toNat_natCast]

theorem tabPlan_eq_memoPlan (n s : Nat) (t : Array (Array TCell)) (ht : mixedTab n s = some t)
    (m k : Nat) (_hm1 : 1 ≤ m) (hmn : m ≤ n) (hks : k ≤ s)
    (hv : validKey m (clampS m k) = true) : tabPlan t m k = memoPlan m k := by
  obtain ⟨t', ht', h⟩ := mixedTab_expect n s (by omega)
  rw [ht] at ht'
  cases ht'
  have hmp : memoPlan m k = some (memoCell m (clampS m k)) := by
    show (if validKey m (clampS m k) = true then some (memoCell m (clampS m k)) else none) = _
    rw [if_pos hv]
  rw [hmp]
  apply tabPlan_toT
  · have := h m k hmn hks
    unfold expect at this
    rw [if_pos hv] at this
    exact this
  · have hk := (memoCell_kind_only m (clampS m k) hv).1
    intro h0
    rw [h0] at hk
    revert hk
    decide

end Ckpt
