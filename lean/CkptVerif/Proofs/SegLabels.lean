import CkptVerif.Model.Segment
import CkptVerif.Spec.Exec
import Mathlib.Tactic
/-!
# Which actions and which storages a binomial segment names

Facts about the events of `segWith N σ S alloc persist fuel stored spine lo hi d = some evs`,
by induction on the fuel, for arbitrary `σ` and `alloc`:
(a) no event is `EndReverse`; (b) the only storages named are `.work` and `alloc d'` with `d ≤ d'`;
(c) there is exactly one `EndForward` if `spine`, none otherwise; (d) the stream is not empty.
-/
namespace Ckpt

/-- the four facts at once (the induction needs them together only for convenience) -/
structure SegFacts (alloc : Nat → Storage) (spine : Bool) (d : Nat) (evs : List Ev) : Prop where
  ne_nil : evs ≠ []
  no_endReverse : ∀ e ∈ evs, e.act ≠ .endReverse
  storages : ∀ e ∈ evs, ∀ st, touches st e.act = true → st = .work ∨ ∃ d', d ≤ d' ∧ alloc d' = st
  endForward_count : evs.countP (fun e => e.act = .endForward) = if spine then 1 else 0

theorem forall_mem_unit {P : Ev → Prop} (stored spine : Bool) (ld f ef rv : Ev)
    (hld : stored = true → P ld) (hf : P f) (hef : spine = true → P ef) (hrv : P rv) :
    ∀ e ∈ (if stored then [ld] else []) ++ [f] ++ (if spine then [ef] else []) ++ [rv], P e := by
  intro e he
  simp only [List.mem_append, List.mem_singleton] at he
  rcases he with ((he | he) | he) | he
  · cases stored
    · simp at he
    · simp at he; rw [he]; exact hld rfl
  · rw [he]; exact hf
  · cases spine
    · simp at he
    · simp at he; rw [he]; exact hef rfl
  · rw [he]; exact hrv

theorem segFacts_unit (alloc : Nat → Storage) (persist stored spine : Bool) (lo hi d r : Nat) :
    SegFacts alloc spine d
      ((if stored then
          [(⟨if persist ∧ d = 0 then .copy lo (alloc d) .work else .move lo (alloc d) .work, lo, r⟩ : Ev)]
        else [])
        ++ [⟨.forward lo hi false true .work, hi, r⟩]
        ++ (if spine then [⟨.endForward, hi, r⟩] else [])
        ++ [⟨.reverse hi lo true, hi, r + 1⟩]) := by
  have hload : ∀ c : Prop, ∀ [Decidable c],
      (if c then Action.copy lo (alloc d) .work else Action.move lo (alloc d) .work) ≠ .endReverse ∧
      (if c then Action.copy lo (alloc d) .work else Action.move lo (alloc d) .work) ≠ .endForward := by
    intro c _; by_cases h : c <;> simp [h]
  have hload2 : ∀ (c : Prop) [Decidable c] (st : Storage),
      touches st (if c then Action.copy lo (alloc d) .work else Action.move lo (alloc d) .work) = true →
      st = .work ∨ alloc d = st := by
    intro c _ st; by_cases h : c <;> simp [h, touches] <;> tauto
  refine ⟨by simp, ?_, ?_, ?_⟩
  · apply forall_mem_unit
    · intro _; exact (hload _).1
    · simp
    · intro _; simp
    · simp
  · apply forall_mem_unit (P := fun e => ∀ st, touches st e.act = true →
        st = .work ∨ ∃ d', d ≤ d' ∧ alloc d' = st)
    · intro _ st ht
      rcases hload2 _ st ht with h' | h'
      · exact .inl h'
      · exact .inr ⟨d, le_refl _, h'⟩
    · intro st ht; simp [touches] at ht; exact .inl ht.symm
    · intro _ st ht; simp [touches] at ht
    · intro st ht; simp [touches] at ht
  · cases stored <;> cases spine <;> simp [(hload _).2]

theorem segWith_facts (N : Nat) (σ : Nat → Nat → Option Nat) (S : Nat) (alloc : Nat → Storage)
    (persist : Bool) : ∀ (fuel : Nat) (stored spine : Bool) (lo hi d : Nat) (evs : List Ev),
      segWith N σ S alloc persist fuel stored spine lo hi d = some evs →
      SegFacts alloc spine d evs := by
  intro fuel
  induction fuel with
  | zero => intro _ _ _ _ _ evs h; simp [segWith] at h
  | succ fuel ih =>
    intro stored spine lo hi d evs h
    unfold segWith at h
    by_cases hbase : hi = lo + 1
    · simp only [hbase, if_true, Option.some.injEq] at h
      rw [← h]
      exact segFacts_unit alloc persist stored spine lo (lo + 1) d _
    · simp only [hbase, if_false] at h
      cases hσ : σ (hi - lo) (S - d) with
      | none => rw [hσ] at h; cases h
      | some a =>
        rw [hσ] at h
        simp only at h
        cases hr : segWith N σ S alloc persist fuel false spine (lo + a) hi (d + 1) with
        | none => rw [hr] at h; cases h
        | some right =>
          rw [hr] at h
          simp only at h
          cases hl : segWith N σ S alloc persist fuel true false lo (lo + a) d with
          | none => rw [hl] at h; cases h
          | some left =>
            rw [hl] at h
            simp only [Option.some.injEq] at h
            have R := ih false spine (lo + a) hi (d + 1) right hr
            have L := ih true false lo (lo + a) d left hl
            rw [← h]
            refine ⟨?_, ?_, ?_, ?_⟩
            · intro hnil
              simp only [List.append_eq_nil_iff] at hnil
              exact L.ne_nil hnil.2
            · intro e he
              simp only [List.mem_append] at he
              rcases he with (he | he) | he
              · cases stored <;> simp at he
                · rw [he]; simp
                · rcases he with he | he <;> (rw [he]; simp)
              · exact R.no_endReverse e he
              · exact L.no_endReverse e he
            · intro e he st ht
              simp only [List.mem_append] at he
              rcases he with (he | he) | he
              · cases stored <;> simp at he
                · rw [he] at ht
                  simp [touches] at ht
                  exact .inr ⟨d, le_refl _, ht⟩
                · rcases he with he | he <;> rw [he] at ht <;> simp [touches] at ht
                  · rcases ht with ht | ht
                    · exact .inr ⟨d, le_refl _, ht⟩
                    · exact .inl ht.symm
                  · exact .inl ht.symm
              · rcases R.storages e he st ht with h' | ⟨d', hd', h'⟩
                · exact .inl h'
                · exact .inr ⟨d', by omega, h'⟩
              · exact L.storages e he st ht
            · rw [List.countP_append, List.countP_append, R.endForward_count, L.endForward_count]
              cases stored <;> simp

/-! ## The four facts, separately -/

variable {N : Nat} {σ : Nat → Nat → Option Nat} {S : Nat} {alloc : Nat → Storage} {persist : Bool}
  {fuel : Nat} {stored spine : Bool} {lo hi d : Nat} {evs : List Ev}

/-- (a) -/
theorem segWith_no_endReverse (h : segWith N σ S alloc persist fuel stored spine lo hi d = some evs) :
    ∀ e ∈ evs, e.act ≠ .endReverse :=
  (segWith_facts N σ S alloc persist fuel stored spine lo hi d evs h).no_endReverse

/-- (b) a RAM/DISK storage named by the stream is the label of a stack position `d' ≥ d` -/
theorem segWith_touches (h : segWith N σ S alloc persist fuel stored spine lo hi d = some evs)
    (e : Ev) (he : e ∈ evs) (st : Storage) (hst : st = .ram ∨ st = .disk)
    (ht : touches st e.act = true) : ∃ d', d ≤ d' ∧ alloc d' = st := by
  rcases (segWith_facts N σ S alloc persist fuel stored spine lo hi d evs h).storages e he st ht
    with h' | h'
  · rcases hst with rfl | rfl <;> cases h'
  · exact h'

/-- (b), all storages -/
theorem segWith_touches' (h : segWith N σ S alloc persist fuel stored spine lo hi d = some evs)
    (e : Ev) (he : e ∈ evs) (st : Storage) (ht : touches st e.act = true) :
    st = .work ∨ ∃ d', d ≤ d' ∧ alloc d' = st :=
  (segWith_facts N σ S alloc persist fuel stored spine lo hi d evs h).storages e he st ht

/-- (c) -/
theorem segWith_endForward_count
    (h : segWith N σ S alloc persist fuel stored spine lo hi d = some evs) :
    evs.countP (fun e => e.act = .endForward) = if spine then 1 else 0 :=
  (segWith_facts N σ S alloc persist fuel stored spine lo hi d evs h).endForward_count

theorem segWith_no_endForward
    (h : segWith N σ S alloc persist fuel stored false lo hi d = some evs) :
    ∀ e ∈ evs, e.act ≠ .endForward := by
  have := segWith_endForward_count h
  simp only [Bool.false_eq_true, if_false, List.countP_eq_zero, decide_eq_true_eq] at this
  exact this

/-- (d) -/
theorem segWith_ne_nil (h : segWith N σ S alloc persist fuel stored spine lo hi d = some evs) :
    evs ≠ [] :=
  (segWith_facts N σ S alloc persist fuel stored spine lo hi d evs h).ne_nil

/-- non-vacuity -/
example : (segWith 4 (fun m _ => some (m / 2)) 2 (fun d => if d = 0 then .disk else .ram)
    false 4 false true 0 4 0).isSome = true := by decide

end Ckpt

section AxiomCheck
open Ckpt
#print axioms segWith_facts
#print axioms segWith_no_endReverse
#print axioms segWith_touches
#print axioms segWith_endForward_count
#print axioms segWith_ne_nil
end AxiomCheck
