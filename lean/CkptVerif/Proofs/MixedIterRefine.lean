import CkptVerif.Model.MixedIter
import CkptVerif.Proofs.MixedSegLemmas
import CkptVerif.Proofs.MixedOk
import Mathlib.Tactic
/-!
# The iterative twin of `MixedCheckpointSchedule._iterator` refines to the recursive stream model

`mixedIter_eq_mixedEvs`: for a planner of the right shape (`PlanHyp`, in particular `memoPlan`) and
valid `(N, s)`, the loop `mixedIter` emits exactly the stream `mixedEvs` of the recursive model
`mseg`, within the fuel `6 N + 4`.

The heart is `seg_refine`, in continuation style: started at the top of the inner loop with
`_n = lo`, the adjoint at `hi = N - _r` and the snapshot stack `stack`, the machine emits
`mseg … lo hi k spine reuse` and arrives, just after the `Reverse` of step `lo`, at the reload point
with `_n = lo + 1`, `_r = N - lo` and the stack without the segment's own checkpoint.
-/
namespace Ckpt.RC
open Ckpt List

/-! ## emitting several events -/

/-- several `yield`s in a row -/
def emits (es : List Ev) (k : Except Err (List Ev)) : Except Err (List Ev) := es.foldr yieldEv k

@[simp] theorem emits_nil (k : Except Err (List Ev)) : emits [] k = k := rfl
@[simp] theorem emits_cons (e : Ev) (es : List Ev) (k : Except Err (List Ev)) :
    emits (e :: es) k = yieldEv e (emits es k) := rfl
theorem emits_append (a b : List Ev) (k : Except Err (List Ev)) :
    emits (a ++ b) k = emits a (emits b k) := by simp [emits, foldr_append]
theorem emits_ok (es l : List Ev) : emits es (.ok l) = .ok (es ++ l) := by
  induction es with
  | nil => rfl
  | cons e es ih => simp [emits_cons, ih, yieldEv]

/-! ## one step of each of the three loops -/

section steps
variable (plan : Planner) (N S : Nat) (st : Storage)

theorem inner_exit (fuel n r : Nat) (keys : List Nat) (stack : List (Nat × Nat × Nat)) (s0 : Nat)
    (h : ¬ n < N - r) :
    mixInner plan N S st (fuel + 1) ⟨n, r, keys, stack⟩ s0 =
      mixTurn plan N S st fuel ⟨n, r, keys, stack⟩ s0 := by
  rw [mixInner]; simp [h]

theorem inner_FR (fuel n r : Nat) (keys : List Nat) (stack : List (Nat × Nat × Nat)) (s0 : Nat)
    (c : Cell) (h : n < N - r) (hre : n ∉ keys)
    (hc : plan (N - r - n) (S - stack.length) = some c) (hk : c.kind = stForwardReverse)
    (hl : c.len = 1) :
    mixInner plan N S st (fuel + 1) ⟨n, r, keys, stack⟩ s0 =
      yieldEv ⟨.forward n (n + 1) false true .work, n + 1, r⟩
        (mixInner plan N S st fuel ⟨n + 1, r, keys, stack⟩ stForwardReverse) := by
  rw [mixInner]
  have e : 1 + n = n + 1 := by omega
  simp [h, hre, hc, hk, hl, e]

theorem inner_WAD (fuel n r : Nat) (keys : List Nat) (stack : List (Nat × Nat × Nat)) (s0 : Nat)
    (c : Cell) (h : n < N - r) (hre : n ∉ keys)
    (hc : plan (N - r - n) (S - stack.length) = some c) (hk : c.kind = stWriteAdjDeps)
    (hl : c.len = 1) (hS : stack.length ≤ S - 1) :
    mixInner plan N S st (fuel + 1) ⟨n, r, keys, stack⟩ s0 =
      yieldEv ⟨.forward n (n + 1) false true st, n + 1, r⟩
        (mixInner plan N S st fuel ⟨n + 1, r, n :: keys, (stWriteAdjDeps, n, n + 1) :: stack⟩
          stWriteAdjDeps) := by
  rw [mixInner]
  have e : 1 + n = n + 1 := by omega
  have hS' : ¬ stack.length > S - 1 := by omega
  simp [h, hre, hc, hk, hl, e, hS', stWriteAdjDeps, stForwardReverse, stForward]

theorem inner_WICS_new (fuel n r : Nat) (keys : List Nat) (stack : List (Nat × Nat × Nat)) (s0 : Nat)
    (c : Cell) (h : n < N - r) (hre : n ∉ keys)
    (hc : plan (N - r - n) (S - stack.length) = some c) (hk : c.kind = stWriteIcs)
    (hl : 2 ≤ c.len) (hS : stack.length ≤ S - 1) :
    mixInner plan N S st (fuel + 1) ⟨n, r, keys, stack⟩ s0 =
      yieldEv ⟨.forward n (n + c.len) true false st, n + c.len, r⟩
        (mixInner plan N S st fuel ⟨n + c.len, r, n :: keys, (stWriteIcs, n, n + c.len) :: stack⟩
          stWriteIcs) := by
  rw [mixInner]
  have e : c.len + n = n + c.len := by omega
  have hS' : ¬ stack.length > S - 1 := by omega
  have h1 : ¬ n + c.len ≤ n + 1 := by omega
  simp [h, hre, hc, hk, e, hS', h1, stWriteAdjDeps, stForwardReverse, stForward, stWriteIcs]

theorem inner_WICS_reuse (fuel n r : Nat) (keys : List Nat) (rest : List (Nat × Nat × Nat)) (e0 s0 : Nat)
    (c : Cell) (h : n < N - r) (hre : n ∈ keys)
    (hc : plan (N - r - n) (S - (rest.length + 1) + 1) = some c) (hk : c.kind = stWriteIcs)
    (hl : 2 ≤ c.len) (he : n + c.len ≤ e0) :
    mixInner plan N S st (fuel + 1) ⟨n, r, keys, (stWriteIcs, n, e0) :: rest⟩ s0 =
      yieldEv ⟨.forward n (n + c.len) false false .work, n + c.len, r⟩
        (mixInner plan N S st fuel ⟨n + c.len, r, keys, (stWriteIcs, n, e0) :: rest⟩ stWriteIcs) := by
  rw [mixInner]
  have e : c.len + n = n + c.len := by omega
  have h1 : ¬ n + c.len ≤ n + 1 := by omega
  have h2 : ¬ e0 < n + c.len := by omega
  simp [h, hre, hc, hk, e, h1, h2, stWriteAdjDeps, stForwardReverse, stForward, stWriteIcs]

theorem turn_step (fuel n r : Nat) (keys : List Nat) (stack : List (Nat × Nat × Nat)) (s0 : Nat)
    (hn : n = N - r) (hs : s0 = stNone ∨ s0 = stForwardReverse) :
    mixTurn plan N S st (fuel + 1) ⟨n, r, keys, stack⟩ s0 =
      emits ((if r = 0 then [(⟨.endForward, n, r⟩ : Ev)] else []) ++
          [⟨.reverse (N - (r + 1) + 1) (N - (r + 1)) true, n, r + 1⟩])
        (mixReload plan N S st fuel ⟨n, r + 1, keys, stack⟩) := by
  rw [mixTurn]
  have h2 : ¬ (s0 ≠ stNone ∧ s0 ≠ stForwardReverse) := by
    rcases hs with h | h <;> simp [h]
  by_cases hr : r = 0
  · simp [hn, h2, hr, emits]
  · simp [hn, h2, hr, emits]

theorem reload_break (fuel n : Nat) :
    mixReload plan N S st (fuel + 1) ⟨n, N, [], []⟩ = .ok [⟨.endReverse, n, N⟩] := by
  rw [mixReload]; simp

theorem reload_WICS (fuel n r cpN e0 : Nat) (rest : List (Nat × Nat × Nat)) (keys : List Nat) (c2 : Cell)
    (hr : r ≠ N) (hc : plan (N - r - cpN) (S - (rest.length + 1) + 1) = some c2)
    (hlt : cpN + 1 < N - r) :
    mixReload plan N S st (fuel + 1) ⟨n, r, cpN :: keys, (stWriteIcs, cpN, e0) :: rest⟩ =
      if c2.kind = stWriteIcs then
        yieldEv ⟨.copy cpN st .work, cpN, r⟩
          (mixInner plan N S st fuel ⟨cpN, r, cpN :: keys, (stWriteIcs, cpN, e0) :: rest⟩ stNone)
      else
        yieldEv ⟨.move cpN st .work, cpN, r⟩
          (mixInner plan N S st fuel ⟨cpN, r, keys, rest⟩ stNone) := by
  rw [mixReload]
  have h1 : ¬ cpN + 1 ≥ N - r := by omega
  by_cases hk : c2.kind = stWriteIcs
  · simp [hr, hc, hk, h1]
  · have hk' : ¬ stWriteIcs = c2.kind := fun h => hk h.symm
    simp [hr, hc, hk, hk', h1]

theorem reload_WAD (fuel n r cpN : Nat) (rest : List (Nat × Nat × Nat)) (keys : List Nat) (c2 : Cell)
    (hr : r ≠ N) (hc : plan (N - r - cpN) (S - (rest.length + 1) + 1) = some c2)
    (hk : c2.kind ≠ stWriteAdjDeps) (heq : cpN + 1 = N - r) :
    mixReload plan N S st (fuel + 1) ⟨n, r, cpN :: keys, (stWriteAdjDeps, cpN, cpN + 1) :: rest⟩ =
      yieldEv ⟨.move cpN st .work, cpN + 1, r⟩
        (mixInner plan N S st fuel ⟨cpN + 1, r, keys, rest⟩ stNone) := by
  rw [mixReload]
  have hk' : ¬ 3 = c2.kind := fun h => hk h.symm
  simp [hr, hc, hk', heq, stWriteAdjDeps, stWriteIcs]

end steps

/-! ## the segment lemma -/

/-- the key (`n0`) of a snapshot entry -/
def skey (x : Nat × Nat × Nat) : Nat := x.2.1

theorem not_mem_keys (rest : List (Nat × Nat × Nat)) (lo : Nat) (h : ∀ x ∈ rest, skey x < lo) :
    lo ∉ rest.map skey := by
  intro hm
  obtain ⟨x, hx, he⟩ := mem_map.1 hm
  have := h x hx
  omega

theorem seg_refine (plan : Planner) (hp : PlanHyp plan) (N S : Nat) (st : Storage) :
    ∀ (f lo hi k : Nat) (spine reuse : Bool) (evs : List Ev) (rest : List (Nat × Nat × Nat))
      (e0 s0 : Nat),
      mseg N plan st f lo hi k spine reuse = some evs →
      lo < hi → hi ≤ N → (spine = true ↔ hi = N) →
      (∀ x ∈ rest, skey x < lo) → rest.length + k = S → (reuse = true → hi ≤ e0) →
      ∃ F, F ≤ 6 * (hi - lo) - 3 ∧ ∀ fuel',
        mixInner plan N S st (F + fuel')
          ⟨lo, N - hi, (if reuse then (stWriteIcs, lo, e0) :: rest else rest).map skey,
            if reuse then (stWriteIcs, lo, e0) :: rest else rest⟩ s0 =
        emits evs (mixReload plan N S st fuel' ⟨lo + 1, N - lo, rest.map skey, rest⟩) := by
  intro f
  induction f with
  | zero => intro lo hi k spine reuse evs rest e0 s0 h; simp [mseg] at h
  | succ f ih =>
    intro lo hi k spine reuse evs rest e0 s0 h hlt hN hsp hkeys hS he
    rw [mseg] at h
    dsimp only at h
    cases hpl : plan (hi - lo) k with
    | none => rw [hpl] at h; cases h
    | some c =>
      rw [hpl] at h
      dsimp only at h
      have a1 : N - (N - hi) = hi := by omega
      have hnk := not_mem_keys rest lo hkeys
      by_cases hFR : c.kind = stForwardReverse
      · -- a single step
        rw [if_pos hFR] at h
        by_cases hcond : hi - lo ≠ 1 ∨ c.len ≠ 1 ∨ reuse = true
        · rw [if_pos hcond] at h; cases h
        rw [if_neg hcond] at h
        injection h with h
        have hm1 : hi = lo + 1 := by omega
        have hl1 : c.len = 1 := by
          by_contra hc; exact hcond (Or.inr (Or.inl hc))
        have hre : reuse = false := by
          cases reuse with
          | false => rfl
          | true => exact absurd (Or.inr (Or.inr rfl)) hcond
        subst hre
        subst hm1
        refine ⟨3, by omega, ?_⟩
        intro fuel'
        simp only [Bool.false_eq_true, if_false]
        have hc' : plan (N - (N - (lo + 1)) - lo) (S - rest.length) = some c := by
          rw [show N - (N - (lo + 1)) - lo = lo + 1 - lo by omega, show S - rest.length = k by omega]
          exact hpl
        rw [show 3 + fuel' = (fuel' + 2) + 1 by omega,
          inner_FR plan N S st _ lo _ _ rest s0 c (by omega) hnk hc' hFR hl1,
          show fuel' + 2 = (fuel' + 1) + 1 by omega,
          inner_exit plan N S st _ _ _ _ _ _ (by omega),
          turn_step plan N S st _ _ _ _ _ _ (by omega) (Or.inr rfl), ← h]
        have e1 : N - (N - (lo + 1) + 1) + 1 = lo + 1 := by omega
        have e2 : N - (N - (lo + 1) + 1) = lo := by omega
        have e3 : N - (lo + 1) + 1 = N - lo := by omega
        rw [e1, e2, e3]
        have hsp' : (N - (lo + 1) = 0) ↔ spine = true := by rw [hsp]; omega
        cases spine with
        | true =>
          have : N - (lo + 1) = 0 := hsp'.2 rfl
          simp [this, emits]
        | false =>
          have : ¬ N - (lo + 1) = 0 := fun h0 => by simpa using hsp'.1 h0
          simp [this, emits]
      rw [if_neg hFR] at h
      by_cases hWAD : c.kind = stWriteAdjDeps
      · -- a dependency checkpoint for step `lo`
        rw [if_pos hWAD] at h
        by_cases hcond : c.len ≠ 1 ∨ reuse = true ∨ k = 0 ∨ hi - lo < 2
        · rw [if_pos hcond] at h; cases h
        rw [if_neg hcond] at h
        have hl1 : c.len = 1 := by
          by_contra hc; exact hcond (Or.inl hc)
        have hre : reuse = false := by
          cases reuse with
          | false => rfl
          | true => exact absurd (Or.inr (Or.inl rfl)) hcond
        have hk0 : k ≠ 0 := fun hc => hcond (Or.inr (Or.inr (Or.inl hc)))
        have hm2 : 2 ≤ hi - lo := by
          by_contra hc; exact hcond (Or.inr (Or.inr (Or.inr (by omega))))
        subst hre
        cases hr : mseg N plan st f (lo + 1) hi (k - 1) spine false with
        | none => rw [hr] at h; cases h
        | some right =>
          rw [hr] at h
          injection h with h
          obtain ⟨Fr, hFr, ihr⟩ := ih (lo + 1) hi (k - 1) spine false right
            ((stWriteAdjDeps, lo, lo + 1) :: rest) 0 stWriteAdjDeps hr (by omega) hN hsp
            (by
              intro x hx
              rcases mem_cons.1 hx with rfl | hx
              · simp [skey]
              · have := hkeys x hx; omega)
            (by simp; omega) (by simp)
          simp only [Bool.false_eq_true, if_false] at ihr ⊢
          refine ⟨Fr + 4, by omega, ?_⟩
          intro fuel'
          have hc' : plan (N - (N - hi) - lo) (S - rest.length) = some c := by
            rw [a1, show S - rest.length = k by omega]; exact hpl
          obtain ⟨c1, hc1, hc1k, _⟩ := hp.one (S - (rest.length + 1) + 1)
          have hc1' : plan (N - (N - (lo + 1)) - lo) (S - (rest.length + 1) + 1) = some c1 := by
            rw [show N - (N - (lo + 1)) - lo = 1 by omega]; exact hc1
          have hne : c1.kind ≠ stWriteAdjDeps := by rw [hc1k]; decide
          rw [show Fr + 4 + fuel' = (Fr + (3 + fuel')) + 1 by omega,
            inner_WAD plan N S st _ lo _ _ rest s0 c (by omega) hnk hc' hWAD hl1 (by omega)]
          have hmap : ((stWriteAdjDeps, lo, lo + 1) :: rest).map skey = lo :: rest.map skey := rfl
          rw [hmap] at ihr
          rw [ihr (3 + fuel'), show 3 + fuel' = (2 + fuel') + 1 by omega,
            reload_WAD plan N S st _ _ _ lo rest _ c1 (by omega) hc1' hne (by omega),
            show 2 + fuel' = (1 + fuel') + 1 by omega,
            inner_exit plan N S st _ _ _ _ _ _ (by omega),
            show 1 + fuel' = fuel' + 1 by omega,
            turn_step plan N S st _ _ _ _ _ _ (by omega) (Or.inl rfl), ← h]
          have e1 : N - (N - (lo + 1) + 1) + 1 = lo + 1 := by omega
          have e2 : N - (N - (lo + 1) + 1) = lo := by omega
          have e3 : N - (lo + 1) + 1 = N - lo := by omega
          have e4 : ¬ N - (lo + 1) = 0 := by omega
          rw [e1, e2, e3, if_neg e4]
          simp [emits]
      rw [if_neg hWAD] at h
      by_cases hWICS : c.kind = stWriteIcs
      · -- a restart checkpoint for `lo`
        rw [if_pos hWICS] at h
        by_cases hcond : c.len < 2 ∨ hi - lo ≤ c.len ∨ k = 0
        · rw [if_pos hcond] at h; cases h
        rw [if_neg hcond] at h
        have hl2 : 2 ≤ c.len := by
          by_contra hc; exact hcond (Or.inl (by omega))
        have hlm : c.len < hi - lo := by
          by_contra hc; exact hcond (Or.inr (Or.inl (by omega)))
        have hk0 : k ≠ 0 := fun hc => hcond (Or.inr (Or.inr hc))
        cases hr : mseg N plan st f (lo + c.len) hi (k - 1) spine false with
        | none => rw [hr] at h; cases h
        | some right =>
          rw [hr] at h
          dsimp only at h
          cases hc2 : plan c.len k with
          | none => rw [hc2] at h; cases h
          | some c2 =>
            rw [hc2] at h
            dsimp only at h
            cases hl : mseg N plan st f lo (lo + c.len) k false (decide (c2.kind = stWriteIcs)) with
            | none => rw [hl] at h; cases h
            | some left =>
              rw [hl] at h
              injection h with h
              -- the checkpoint that covers `lo` during the right part
              obtain ⟨e1, he1, hstep⟩ : ∃ e1, lo + c.len ≤ e1 ∧ ∀ fuel,
                  mixInner plan N S st (fuel + 1)
                    ⟨lo, N - hi, (if reuse then (stWriteIcs, lo, e0) :: rest else rest).map skey,
                      if reuse then (stWriteIcs, lo, e0) :: rest else rest⟩ s0 =
                  yieldEv (if reuse then ⟨.forward lo (lo + c.len) false false .work, lo + c.len, N - hi⟩
                      else ⟨.forward lo (lo + c.len) true false st, lo + c.len, N - hi⟩)
                    (mixInner plan N S st fuel
                      ⟨lo + c.len, N - hi, lo :: rest.map skey, (stWriteIcs, lo, e1) :: rest⟩
                      stWriteIcs) := by
                cases reuse with
                | false =>
                  refine ⟨lo + c.len, le_refl _, ?_⟩
                  intro fuel
                  have hc' : plan (N - (N - hi) - lo) (S - rest.length) = some c := by
                    rw [a1, show S - rest.length = k by omega]; exact hpl
                  simp only [Bool.false_eq_true, if_false]
                  exact inner_WICS_new plan N S st fuel lo _ _ rest s0 c (by omega) hnk hc' hWICS hl2
                    (by omega)
                | true =>
                  refine ⟨e0, by have := he rfl; omega, ?_⟩
                  intro fuel
                  have hc' : plan (N - (N - hi) - lo) (S - (rest.length + 1) + 1) = some c := by
                    rw [a1, show S - (rest.length + 1) + 1 = k by omega]; exact hpl
                  simp only [if_true]
                  exact inner_WICS_reuse plan N S st fuel lo _ _ rest e0 s0 c (by omega)
                    (by simp [skey]) hc' hWICS hl2 (by have := he rfl; omega)
              obtain ⟨Fr, hFr, ihr⟩ := ih (lo + c.len) hi (k - 1) spine false right
                ((stWriteIcs, lo, e1) :: rest) 0 stWriteIcs hr (by omega) hN hsp
                (by
                  intro x hx
                  rcases mem_cons.1 hx with rfl | hx
                  · simp [skey]; omega
                  · have := hkeys x hx; omega)
                (by simp; omega) (by simp)
              obtain ⟨Fl, hFl, ihl⟩ := ih lo (lo + c.len) k false (decide (c2.kind = stWriteIcs)) left
                rest e1 stNone hl (by omega) (by omega)
                (by constructor
                    · intro hh; cases hh
                    · intro hh; omega)
                hkeys hS (fun _ => he1)
              simp only [Bool.false_eq_true, if_false] at ihr
              have hmap : ((stWriteIcs, lo, e1) :: rest).map skey = lo :: rest.map skey := rfl
              rw [hmap] at ihr
              refine ⟨1 + Fr + 1 + Fl, by omega, ?_⟩
              intro fuel'
              have hc2' : plan (N - (N - (lo + c.len)) - lo) (S - (rest.length + 1) + 1) = some c2 := by
                rw [show N - (N - (lo + c.len)) - lo = c.len by omega,
                  show S - (rest.length + 1) + 1 = k by omega]
                exact hc2
              rw [show 1 + Fr + 1 + Fl + fuel' = (Fr + (1 + Fl + fuel')) + 1 by omega, hstep,
                ihr (1 + Fl + fuel'), show 1 + Fl + fuel' = (Fl + fuel') + 1 by omega,
                reload_WICS plan N S st _ _ _ lo e1 rest _ c2 (by omega) hc2' (by omega), ← h]
              by_cases hkeep : c2.kind = stWriteIcs
              · have hd : decide (c2.kind = stWriteIcs) = true := by simp [hkeep]
                rw [hd] at ihl
                simp only [if_true] at ihl
                rw [hmap] at ihl
                rw [if_pos hkeep, ihl fuel']
                simp [emits, hkeep]
              · have hd : decide (c2.kind = stWriteIcs) = false := by simp [hkeep]
                rw [hd] at ihl
                simp only [Bool.false_eq_true, if_false] at ihl
                rw [if_neg hkeep, ihl fuel']
                simp [emits, hkeep]
      · rw [if_neg hWICS] at h; cases h

/-! ## the whole stream -/

/-- If the recursive model produces a stream, the loop produces the same stream, within the fuel
`6 N - 2`. -/
theorem mixedIter_of_mixedEvs (plan : Planner) (hp : PlanHyp plan) (N s : Nat) (st : Storage)
    (hN : 1 ≤ N) (evs : List Ev) (h : mixedEvs plan N s st = .ok evs) (fuel : Nat)
    (hf : 6 * N - 2 ≤ fuel) :
    mixedIter plan N (min s (N - 1)) st fuel = .ok evs := by
  unfold mixedEvs at h
  cases hm : mseg N plan st N 0 N (min s (N - 1)) true false with
  | none => rw [hm] at h; cases h
  | some e =>
    rw [hm] at h
    injection h with h
    obtain ⟨F, hF, hrun⟩ := seg_refine plan hp N (min s (N - 1)) st N 0 N (min s (N - 1)) true false e
      [] 0 stNone hm (by omega) (le_refl _) (by simp) (by intro x hx; cases hx) (by simp) (by simp)
    have hr := hrun (fuel - F)
    simp only [Bool.false_eq_true, if_false, map_nil, Nat.sub_self, Nat.sub_zero, Nat.zero_add] at hr
    unfold mixedIter MixSt.init
    rw [show fuel = F + (fuel - F) by omega, hr, show fuel - F = (fuel - F - 1) + 1 by omega,
      reload_break, emits_ok, ← h]

/-- **Refinement.**  For a planner of the right shape and valid parameters the iterative twin of
`MixedCheckpointSchedule._iterator` and the recursive stream model agree (both are `.ok` with the
same list of events). -/
theorem mixedIter_eq_mixedEvs (plan : Planner) (hp : PlanHyp plan) (N s : Nat) (st : Storage)
    (hst : st = .ram ∨ st = .disk) (hN : 1 ≤ N) (hs : min 1 (N - 1) ≤ s) (fuel : Nat)
    (hf : 6 * N - 2 ≤ fuel) :
    mixedIter plan N (min s (N - 1)) st fuel = mixedEvs plan N s st := by
  obtain ⟨evs, _, _, hev, _⟩ := mixed_clean_plan plan hp N s st hst hN hs
  rw [hev]
  exact mixedIter_of_mixedEvs plan hp N s st hN _ hev fuel hf

/-- the entry point with its default fuel -/
theorem mixedIterEvs_eq_mixedEvs (plan : Planner) (hp : PlanHyp plan) (N s : Nat) (st : Storage)
    (hst : st = .ram ∨ st = .disk) (hN : 1 ≤ N) (hs : min 1 (N - 1) ≤ s) :
    mixedIterEvs plan N s st = mixedEvs plan N s st :=
  mixedIter_eq_mixedEvs plan hp N s st hst hN hs _ (by unfold mixedIterFuel; omega)

/-- … in particular for the memoised planner of the Python code -/
theorem mixedIterEvs_memoPlan (N s : Nat) (st : Storage) (hst : st = .ram ∨ st = .disk) (hN : 1 ≤ N)
    (hs : min 1 (N - 1) ≤ s) : mixedIterEvs memoPlan N s st = mixedEvs memoPlan N s st :=
  mixedIterEvs_eq_mixedEvs memoPlan memoPlan_hyp N s st hst hN hs

-- the hypotheses are satisfiable; a concrete run
example : mixedIterEvs memoPlan 5 2 .disk = mixedEvs memoPlan 5 2 .disk :=
  mixedIterEvs_memoPlan 5 2 .disk (Or.inr rfl) (by decide) (by decide)

end Ckpt.RC
