import CkptVerif.Model.Process
import CkptVerif.Proofs.Cache
/-!
# C15 at process level: projection onto one object commutes with running a history

`Model/Process.lean` models a Python process: the three module-level memo tables of `cache_step`
and all live schedule objects; a history (`List POp`) interleaves constructions, `next()` /
`finalize(n)` on any object, observer reads and direct calls of the cached helpers.

* `CachesOK p`: every entry of each of the three memo tables is the value of the recursive
  specification at its (clamped, valid) key.  `CachesOK_init`, `CachesOK_step`, `CachesOK_run`:
  it holds initially and is preserved by every operation.
* `mixResume_spec`, `objStep_spec`: under `CachesOK`, what an object does (new object state and
  answer) does not depend on the contents of the memo table: it is what the same object does with
  the planner `specPlanner` (a mathematical function) and no table at all.
* `C15_process`: for ANY history `pre ++ construct spec :: post`, the answers to the operations
  addressed to the object built by that `construct` are the answers the same operations get in a
  fresh process in which nothing else ever happens (`soloHistory`).
* `C15_equal_params`: two objects built with equal parameters, at any two points of any two (or the
  same) histories, and driven by the same own sequence of `next` / `finalize` / observer
  operations, give the same answers.
* `C15_observers`, `C15_observer_erase`: observer reads (`n, r, max_n, is_exhausted, is_running`,
  `uses_storage_type`) leave the process state unchanged, so inserting or deleting them anywhere
  in a history changes no other answer.
* `C15_helpers_pure`: the three helper functions answer with the recursive specification, after
  any history.

Everything is by induction over arbitrary histories; there are no bounds.
-/
namespace Ckpt.Proc
open Ckpt

/-! ## the wrapped functions answer with the specification -/

/-- `planM` answers like the function `plan` on every table satisfying `OK`, and preserves `OK` -/
def PlanMSpec (planM : PlanM) (plan : Planner) (OK : Cache Cell → Prop) : Prop :=
  ∀ a b c, OK c → (planM a b c).2 = plan a b ∧ OK (planM a b c).1

/-- the specification of a call from outside: ValueError on invalid keys -/
def specOpt {α : Type} [Inhabited α] (F : Nat → Nat → (Nat → Nat → α) → α) (n s : Nat) :
    Option α :=
  if validKey n (clampS n s) then some (fixDP F n (clampS n s)) else none

theorem cachedOpt_spec {α : Type} [Inhabited α]
    (FM : Nat → Nat → Getter α → CM α α) (F : Nat → Nat → (Nat → Nat → α) → α)
    (hsim : Sim FM F) (hF : Local F) (n s : Nat) (c : Cache α) (hc : CacheOK F c) :
    (cachedOpt FM n s c).2 = specOpt F n s ∧ CacheOK F (cachedOpt FM n s c).1 := by
  unfold cachedOpt specOpt
  by_cases hv : validKey n (clampS n s) = true
  · obtain ⟨h1, h2, _⟩ := cachedCall_returns FM F hsim hF (n + 1) n s (by omega) hv c hc
    simp only [hv, if_true]
    exact ⟨by rw [h1], h2⟩
  · simp only [hv]
    exact ⟨rfl, hc⟩

theorem specPlanner_eq (n s : Nat) : specPlanner n s = specOpt memoF n s := rfl

theorem memoQuery_spec : PlanMSpec memoQuery specPlanner (CacheOK memoF) := by
  intro a b c hc
  rw [specPlanner_eq]
  exact cachedOpt_spec memoFM memoF memoFM_sim memoF_local a b c hc

theorem purePlanM_spec (plan : Planner) (OK : Cache Cell → Prop) :
    PlanMSpec (purePlanM plan) plan OK :=
  fun _ _ _ hc => ⟨rfl, hc⟩

/-! ## the lazy Mixed object does not see the contents of the table -/

section
variable {planM : PlanM} {plan : Planner} {OK : Cache Cell → Prop}

theorem innerStep_pos (planM : PlanM) (N S : Nat) (st : Storage) (σ : MixSt) (t : Nat)
    (c : Cache Cell) (hlt : σ.n < N - σ.r) :
    innerStep planM N S st σ t c =
      ((planM (N - σ.r - σ.n)
          (S - σ.snapshots.length + (if σ.snapshotN.contains σ.n then 1 else 0)) c).1,
       innerAfter S st σ (planM (N - σ.r - σ.n)
          (S - σ.snapshots.length + (if σ.snapshotN.contains σ.n then 1 else 0)) c).2) := by
  unfold innerStep; rw [if_pos hlt]

theorem innerStep_neg (planM : PlanM) (N S : Nat) (st : Storage) (σ : MixSt) (t : Nat)
    (c : Cache Cell) (hlt : ¬ σ.n < N - σ.r) :
    innerStep planM N S st σ t c = (c, turnStep N σ t) := by
  unfold innerStep; rw [if_neg hlt]

theorem innerStep_spec (h : PlanMSpec planM plan OK) (N S : Nat) (st : Storage) (σ : MixSt)
    (t : Nat) (c c' : Cache Cell) (hc : OK c) :
    (innerStep planM N S st σ t c).2 = (innerStep (purePlanM plan) N S st σ t c').2 ∧
      OK (innerStep planM N S st σ t c).1 := by
  by_cases hlt : σ.n < N - σ.r
  · rw [innerStep_pos _ _ _ _ _ _ _ hlt, innerStep_pos _ _ _ _ _ _ _ hlt]
    obtain ⟨h1, h2⟩ := h (N - σ.r - σ.n)
      (S - σ.snapshots.length + (if σ.snapshotN.contains σ.n then 1 else 0)) c hc
    refine ⟨?_, h2⟩
    show innerAfter S st σ _ = innerAfter S st σ _
    rw [h1]; rfl
  · rw [innerStep_neg _ _ _ _ _ _ _ hlt, innerStep_neg _ _ _ _ _ _ _ hlt]
    exact ⟨rfl, hc⟩

theorem reloadStep_spec (h : PlanMSpec planM plan OK) (N S : Nat) (st : Storage) (σ : MixSt)
    (c c' : Cache Cell) (hc : OK c) :
    (reloadStep planM N S st σ c).2 = (reloadStep (purePlanM plan) N S st σ c').2 ∧
      OK (reloadStep planM N S st σ c).1 := by
  unfold reloadStep
  split
  · split
    · exact ⟨rfl, hc⟩
    · exact ⟨rfl, hc⟩
  · split
    · exact ⟨rfl, hc⟩
    · rename_i cpStepType cpN x rest heq
      split
      · exact ⟨rfl, hc⟩
      · obtain ⟨h1, h2⟩ := h (N - σ.r - cpN) (S - σ.snapshots.length + 1) c hc
        refine ⟨?_, h2⟩
        show reloadAfter N st σ cpStepType cpN rest _ = reloadAfter N st σ cpStepType cpN rest _
        rw [h1]; rfl

theorem mixResume_icsPost (planM : PlanM) (N S : Nat) (st : Storage) (σ : MixSt) (n0 t : Nat)
    (c : Cache Cell) :
    mixResume planM N S st (.icsPost σ n0 t) c =
      if σ.snapshots.length > S - 1 then (c, (.dead, .raise mixErrE))
      else innerStep planM N S st
        { σ with snapshotN := n0 :: σ.snapshotN, snapshots := (stWriteIcs, n0, σ.n) :: σ.snapshots }
        t c := rfl

theorem mixResume_spec (h : PlanMSpec planM plan OK) (N S : Nat) (st : Storage) (pc : MixPC)
    (c c' : Cache Cell) (hc : OK c) :
    (mixResume planM N S st pc c).2 = (mixResume (purePlanM plan) N S st pc c').2 ∧
      OK (mixResume planM N S st pc c).1 := by
  cases pc with
  | inner σ t => exact innerStep_spec h N S st σ t c c' hc
  | fr2 σ n1 t => exact ⟨rfl, hc⟩
  | rev σ => exact ⟨rfl, hc⟩
  | icsPost σ n0 t =>
    rw [mixResume_icsPost, mixResume_icsPost]
    by_cases hgt : σ.snapshots.length > S - 1
    · rw [if_pos hgt, if_pos hgt]; exact ⟨rfl, hc⟩
    · rw [if_neg hgt, if_neg hgt]; exact innerStep_spec h N S st _ _ c c' hc
  | reload σ => exact reloadStep_spec h N S st σ c c' hc
  | final => exact ⟨rfl, hc⟩
  | dead => exact ⟨rfl, hc⟩

theorem mixNext_spec (h : PlanMSpec planM plan OK) (N S : Nat) (st : Storage) (m : MSt)
    (pc : MixPC) (c c' : Cache Cell) (hc : OK c) :
    (mixNext planM N S st m pc c).2 = (mixNext (purePlanM plan) N S st m pc c').2 ∧
      OK (mixNext planM N S st m pc c).1 := by
  obtain ⟨h1, h2⟩ := mixResume_spec h N S st pc c c' hc
  refine ⟨?_, h2⟩
  show mixNextOf m _ = mixNextOf m _
  rw [h1]

/-- **An object step does not depend on the table.**  With any table satisfying the invariant, an
operation on an object has the result (new object state, answer) it has with the planner given as
a function and an arbitrary other table; the invariant is preserved. -/
theorem objStep_spec (h : PlanMSpec planM plan OK) (o : ObjSt) (op : OOp)
    (c c' : Cache Cell) (hc : OK c) :
    (o.step planM op c).2 = (o.step (purePlanM plan) op c').2 ∧ OK (o.step planM op c).1 := by
  cases o with
  | failed e => exact ⟨rfl, hc⟩
  | plain s m => cases op <;> exact ⟨rfl, hc⟩
  | mixed N S st m pc =>
    cases op with
    | next =>
      obtain ⟨h1, h2⟩ := mixNext_spec h N S st m pc c c' hc
      refine ⟨?_, h2⟩
      show (ObjSt.mixed N S st (mixNext planM N S st m pc c).2.1 (mixNext planM N S st m pc c).2.2.1,
          POut.next (mixNext planM N S st m pc c).2.2.2) = _
      rw [h1]; rfl
    | finalize k => exact ⟨rfl, hc⟩
    | observe => exact ⟨rfl, hc⟩
    | usesStorage x => exact ⟨rfl, hc⟩

end

/-- two tables satisfying the invariant are indistinguishable for an object -/
theorem objStep_indep (o : ObjSt) (op : OOp) (c c' : Cache Cell)
    (hc : CacheOK memoF c) (hc' : CacheOK memoF c') :
    (o.step memoQuery op c).2 = (o.step memoQuery op c').2 := by
  rw [(objStep_spec memoQuery_spec o op c [] hc).1, (objStep_spec memoQuery_spec o op c' [] hc').1]

/-- observer reads change neither the object nor the table -/
theorem objStep_observer (planM : PlanM) (o : ObjSt) (op : OOp) (h : op.isObserver = true)
    (c : Cache Cell) : (o.step planM op c).1 = c ∧ (o.step planM op c).2.1 = o := by
  cases o <;> cases op <;> first | exact ⟨rfl, rfl⟩ | cases h

/-! ## the invariant -/

/-- every entry of each memo table is the value of the recursive specification at its key, and the
key is a valid clamped key -/
structure CachesOK (p : Proc) : Prop where
  memo : CacheOK memoF p.memo
  extra : CacheOK extraF p.extra
  optMixed : CacheOK optMixedF p.optMixed

theorem CachesOK_init : CachesOK Proc.init :=
  ⟨CacheOK_nil _, CacheOK_nil _, CacheOK_nil _⟩

theorem step_obj_none (p : Proc) (i : Nat) (oop : OOp) (h : p.objs[i]? = none) :
    p.step (.obj i oop) = (p, .noObject) := by
  show (match p.objs[i]? with
    | none => (p, POut.noObject)
    | some o => _) = _
  rw [h]

theorem step_obj_some (p : Proc) (i : Nat) (oop : OOp) (o : Obj) (h : p.objs[i]? = some o) :
    p.step (.obj i oop) =
      ({ p with memo := (o.st.step memoQuery oop p.memo).1,
                objs := p.objs.set i { o with st := (o.st.step memoQuery oop p.memo).2.1 } },
       (o.st.step memoQuery oop p.memo).2.2) := by
  show (match p.objs[i]? with
    | none => (p, POut.noObject)
    | some o => _) = _
  rw [h]

theorem CachesOK_step (p : Proc) (op : POp) (h : CachesOK p) : CachesOK (p.step op).1 := by
  cases op with
  | construct spec => exact ⟨h.memo, h.extra, h.optMixed⟩
  | obj i oop =>
    cases hi : p.objs[i]? with
    | none => rw [step_obj_none p i oop hi]; exact h
    | some o =>
      rw [step_obj_some p i oop o hi]
      exact ⟨(objStep_spec memoQuery_spec o.st oop p.memo [] h.memo).2, h.extra, h.optMixed⟩
  | optimalExtraSteps n s =>
    exact ⟨h.memo, (cachedOpt_spec extraFM extraF extraFM_sim extraF_local n s _ h.extra).2,
      h.optMixed⟩
  | optimalStepsMixed n s =>
    exact ⟨h.memo, h.extra,
      (cachedOpt_spec optMixedFM optMixedF optMixedFM_sim optMixedF_local n s _ h.optMixed).2⟩
  | mixedStepMemo n s =>
    exact ⟨(cachedOpt_spec memoFM memoF memoFM_sim memoF_local n s _ h.memo).2, h.extra,
      h.optMixed⟩

theorem CachesOK_run (ops : List POp) (p : Proc) (h : CachesOK p) : CachesOK (p.run ops).1 := by
  induction ops generalizing p with
  | nil => exact h
  | cons op rest ih => exact ih _ (CachesOK_step p op h)

/-! ## generalities about `run` -/

theorem run_nil (p : Proc) : p.run [] = (p, []) := rfl

theorem run_cons (p : Proc) (op : POp) (rest : List POp) :
    p.run (op :: rest) = (((p.step op).1.run rest).1, (p.step op).2 :: ((p.step op).1.run rest).2) :=
  rfl

theorem run_append (p : Proc) (a b : List POp) :
    p.run (a ++ b) = (((p.run a).1.run b).1, (p.run a).2 ++ ((p.run a).1.run b).2) := by
  induction a generalizing p with
  | nil => rfl
  | cons op rest ih =>
    rw [List.cons_append, run_cons, ih, run_cons]
    rfl

theorem run_length (p : Proc) (ops : List POp) : (p.run ops).2.length = ops.length := by
  induction ops generalizing p with
  | nil => rfl
  | cons op rest ih => rw [run_cons]; simp [ih]

/-! ## simulation of the big process by the one-object process -/

/-- object `i` of `p` is object `0` of `q`, and both have good tables -/
structure SimAt (i : Nat) (p q : Proc) : Prop where
  okp : CachesOK p
  okq : CachesOK q
  same : ∃ o, p.objs[i]? = some o ∧ q.objs[0]? = some o

/-- an operation on another object, a construction or a helper call keeps the relation -/
theorem SimAt_other (i : Nat) (p q : Proc) (h : SimAt i p q) (op : POp)
    (hop : ∀ oop, op ≠ .obj i oop) : SimAt i (p.step op).1 q := by
  refine ⟨CachesOK_step p op h.okp, h.okq, ?_⟩
  obtain ⟨o, ho, hq⟩ := h.same
  refine ⟨o, ?_, hq⟩
  cases op with
  | construct spec =>
    show (p.objs ++ [mkObj spec])[i]? = some o
    have hlt : i < p.objs.length := by
      rcases Nat.lt_or_ge i p.objs.length with h | h
      · exact h
      · rw [List.getElem?_eq_none h] at ho; cases ho
    rw [List.getElem?_append_left hlt]; exact ho
  | obj j oop =>
    have hji : j ≠ i := fun e => hop oop (by rw [e])
    cases hj : p.objs[j]? with
    | none => rw [step_obj_none p j oop hj]; exact ho
    | some o' =>
      rw [step_obj_some p j oop o' hj]
      show (p.objs.set j _)[i]? = some o
      rw [List.getElem?_set_ne hji]; exact ho
  | optimalExtraSteps n s => exact ho
  | optimalStepsMixed n s => exact ho
  | mixedStepMemo n s => exact ho

/-- the same operation on the shared object gives the same answer and keeps the relation -/
theorem SimAt_own (i : Nat) (p q : Proc) (h : SimAt i p q) (oop : OOp) :
    (p.step (.obj i oop)).2 = (q.step (.obj 0 oop)).2 ∧
      SimAt i (p.step (.obj i oop)).1 (q.step (.obj 0 oop)).1 := by
  obtain ⟨o, ho, hq⟩ := h.same
  have e := objStep_indep o.st oop p.memo q.memo h.okp.memo h.okq.memo
  have hp : p.step (.obj i oop) =
      ({ p with memo := (o.st.step memoQuery oop p.memo).1,
                objs := p.objs.set i { o with st := (o.st.step memoQuery oop p.memo).2.1 } },
       (o.st.step memoQuery oop p.memo).2.2) := step_obj_some p i oop o ho
  have hq' : q.step (.obj 0 oop) =
      ({ q with memo := (o.st.step memoQuery oop q.memo).1,
                objs := q.objs.set 0 { o with st := (o.st.step memoQuery oop q.memo).2.1 } },
       (o.st.step memoQuery oop q.memo).2.2) := step_obj_some q 0 oop o hq
  refine ⟨by rw [hp, hq', e], CachesOK_step p _ h.okp, CachesOK_step q _ h.okq, ?_⟩
  rw [hp, hq']
  have hlt : i < p.objs.length := by
    rcases Nat.lt_or_ge i p.objs.length with h | h
    · exact h
    · rw [List.getElem?_eq_none h] at ho; cases ho
  have hlt0 : 0 < q.objs.length := by
    rcases Nat.lt_or_ge 0 q.objs.length with h | h
    · exact h
    · rw [List.getElem?_eq_none h] at hq; cases hq
  refine ⟨{ o with st := (o.st.step memoQuery oop p.memo).2.1 }, ?_, ?_⟩
  · show (p.objs.set i _)[i]? = _
    rw [List.getElem?_set_self hlt]
  · show (q.objs.set 0 _)[0]? = _
    rw [List.getElem?_set_self hlt0, e]

/-- **Projection commutes with running**, from any pair of related states. -/
theorem proj_run (i : Nat) (post : List POp) (p q : Proc) (h : SimAt i p q) :
    ownOuts i post (p.run post).2 = (q.run ((ownOps i post).map (POp.obj 0))).2 := by
  induction post generalizing p q with
  | nil => rfl
  | cons op rest ih =>
    rw [run_cons]
    by_cases hop : ∃ oop, op = .obj i oop
    · obtain ⟨oop, rfl⟩ := hop
      obtain ⟨e, hs⟩ := SimAt_own i p q h oop
      have e1 : ownOps i (POp.obj i oop :: rest) = oop :: ownOps i rest := by
        simp [ownOps]
      have e2 : ∀ x xs, ownOuts i (POp.obj i oop :: rest) (x :: xs) = x :: ownOuts i rest xs := by
        intro x xs; simp [ownOuts]
      rw [e1, e2, List.map_cons, run_cons, ih _ _ hs, e]
    · have hne : ∀ oop, op ≠ .obj i oop := fun oop e => hop ⟨oop, e⟩
      have hs := SimAt_other i p q h op hne
      have e1 : ownOps i (op :: rest) = ownOps i rest := by
        cases op with
        | obj j oop =>
          have : j ≠ i := fun e => hne oop (by rw [e])
          simp [ownOps, this]
        | _ => simp [ownOps]
      have e2 : ∀ x xs, ownOuts i (op :: rest) (x :: xs) = ownOuts i rest xs := by
        intro x xs
        cases op with
        | obj j oop =>
          have : j ≠ i := fun e => hne oop (by rw [e])
          simp [ownOuts, this]
        | _ => simp [ownOuts]
      rw [e1, e2, ih _ _ hs]

/-- the number of objects is the number of constructions -/
theorem objs_length_run (p : Proc) (ops : List POp) :
    (p.run ops).1.objs.length =
      p.objs.length + (ops.filter (fun op => match op with | .construct _ => true | _ => false)).length := by
  induction ops generalizing p with
  | nil => rfl
  | cons op rest ih =>
    rw [run_cons]
    show ((p.step op).1.run rest).1.objs.length = _
    rw [ih]
    cases op with
    | construct spec => simp [Proc.step]; omega
    | obj j oop =>
      cases hj : p.objs[j]? with
      | none => rw [step_obj_none p j oop hj]; simp
      | some o => rw [step_obj_some p j oop o hj]; simp
    | optimalExtraSteps n s => simp [Proc.step]
    | optimalStepsMixed n s => simp [Proc.step]
    | mixedStepMemo n s => simp [Proc.step]

/-- right after a construction, in any process and in a fresh one, the new objects are related -/
theorem SimAt_construct (p : Proc) (hp : CachesOK p) (spec : Spec) :
    SimAt p.objs.length (p.step (.construct spec)).1 (Proc.init.step (.construct spec)).1 := by
  refine ⟨CachesOK_step p _ hp, CachesOK_step _ _ CachesOK_init, mkObj spec, ?_, ?_⟩
  · show (p.objs ++ [mkObj spec])[p.objs.length]? = _
    simp
  · rfl

/-! ## the main theorems -/

/-- **C15, process level.**  Take ANY history that builds an object with `construct spec` at some
point (`pre` before it, `post` after it; the object gets index `i` = the number of objects built
in `pre`).  The answer of the constructor followed by the answers to the operations of `post`
addressed to that object — `next`, `finalize`, and the reads of `n, r, max_n, is_exhausted,
is_running, uses_storage_type` — are the answers of the history in which that object is alone in a
fresh process and receives the same own operations.  `pre` and the rest of `post` are arbitrary:
constructions and iterations of other schedules of any class (including other Mixed objects that
fill the shared memo table), interleaved in any way, and direct calls of the cached helpers. -/
theorem C15_process (pre post : List POp) (spec : Spec) :
    let i := (Proc.init.run pre).1.objs.length
    ownOuts i (.construct spec :: post)
        ((Proc.init.run (pre ++ .construct spec :: post)).2.drop pre.length)
      = (Proc.init.run (soloHistory spec (ownOps i post))).2.tail := by
  intro i
  have hp : CachesOK (Proc.init.run pre).1 := CachesOK_run pre _ CachesOK_init
  rw [run_append, List.drop_left' (run_length _ _), run_cons]
  show ownOuts i post _ = _
  rw [proj_run i post _ _ (SimAt_construct _ hp spec)]
  rfl

/-- the same, the constructor's answer included -/
theorem C15_process_constructor (pre post : List POp) (spec : Spec) :
    ((Proc.init.run (pre ++ .construct spec :: post)).2.drop pre.length).head? =
      (Proc.init.run (soloHistory spec (ownOps (Proc.init.run pre).1.objs.length post))).2.head? := by
  rw [run_append, List.drop_left' (run_length _ _)]
  rfl

/-- the index of the object built after `pre` is the number of `construct`s in `pre` -/
theorem C15_index (pre : List POp) :
    (Proc.init.run pre).1.objs.length =
      (pre.filter (fun op => match op with | .construct _ => true | _ => false)).length := by
  rw [objs_length_run]; simp [Proc.init]

/-- **C15, equal parameters.**  Two schedule objects built with equal parameters at any two points
of any two histories (in particular of the same history: take `pre₂ = pre₁ ++ construct spec ::
mid`), and receiving the same own sequence of `next` / `finalize` / observer operations, give the
same answers, whatever else happens before, between and concurrently. -/
theorem C15_equal_params (pre₁ post₁ pre₂ post₂ : List POp) (spec : Spec)
    (hown : ownOps (Proc.init.run pre₁).1.objs.length post₁ =
            ownOps (Proc.init.run pre₂).1.objs.length post₂) :
    ownOuts (Proc.init.run pre₁).1.objs.length (.construct spec :: post₁)
        ((Proc.init.run (pre₁ ++ .construct spec :: post₁)).2.drop pre₁.length)
      = ownOuts (Proc.init.run pre₂).1.objs.length (.construct spec :: post₂)
        ((Proc.init.run (pre₂ ++ .construct spec :: post₂)).2.drop pre₂.length) := by
  have h1 := C15_process pre₁ post₁ spec
  have h2 := C15_process pre₂ post₂ spec
  simp only at h1 h2
  rw [h1, h2, hown]

/-- **C15, observers.**  Reading `n, r, max_n, is_exhausted, is_running` or calling
`uses_storage_type` on any object leaves the whole process state unchanged. -/
theorem C15_observers (p : Proc) (i : Nat) (oop : OOp) (h : oop.isObserver = true) :
    (p.step (.obj i oop)).1 = p := by
  cases hi : p.objs[i]? with
  | none => rw [step_obj_none p i oop hi]
  | some o =>
    rw [step_obj_some p i oop o hi]
    obtain ⟨h1, h2⟩ := objStep_observer memoQuery o.st oop h p.memo
    show ({ p with memo := (o.st.step memoQuery oop p.memo).1,
                   objs := p.objs.set i { o with st := (o.st.step memoQuery oop p.memo).2.1 } } : Proc) = p
    rw [h1, h2]
    have : p.objs.set i o = p.objs := by
      apply List.ext_getElem?
      intro j
      by_cases hj : i = j
      · subst hj
        rcases Nat.lt_or_ge i p.objs.length with hl | hl
        · rw [List.getElem?_set_self hl, hi]
        · rw [List.getElem?_eq_none (by simpa using hl), List.getElem?_eq_none hl]
      · rw [List.getElem?_set_ne hj]
    rw [this]

/-- … hence an observer read can be inserted into (or deleted from) any history, at any place,
without changing any other answer or the final state. -/
theorem C15_observer_erase (p : Proc) (a b : List POp) (i : Nat) (oop : OOp)
    (h : oop.isObserver = true) :
    (p.run (a ++ .obj i oop :: b)).1 = (p.run (a ++ b)).1 ∧
      ((p.run (a ++ .obj i oop :: b)).2).eraseIdx a.length = (p.run (a ++ b)).2 := by
  rw [run_append, run_append p a b, run_cons, C15_observers _ i oop h]
  refine ⟨rfl, ?_⟩
  show ((p.run a).2 ++ _ :: _).eraseIdx a.length = _
  rw [← run_length p a, List.eraseIdx_append_of_length_le (Nat.le_refl _)]
  simp

/-- **C15, helper functions.**  After any history, `optimal_extra_steps`, `optimal_steps_mixed`
and `mixed_step_memoization` answer with the value of their recursive specification (`none`:
ValueError), i.e. independently of the history. -/
theorem C15_helpers_pure (history : List POp) (n s : Nat) :
    ((Proc.init.run history).1.step (.optimalExtraSteps n s)).2 = .helperNat (specOpt extraF n s) ∧
    ((Proc.init.run history).1.step (.optimalStepsMixed n s)).2 = .helperNat (specOpt optMixedF n s) ∧
    ((Proc.init.run history).1.step (.mixedStepMemo n s)).2 = .helperCell (specOpt memoF n s) := by
  have hp : CachesOK (Proc.init.run history).1 := CachesOK_run history _ CachesOK_init
  refine ⟨?_, ?_, ?_⟩
  · show POut.helperNat (cachedOpt extraFM n s _).2 = _
    rw [(cachedOpt_spec extraFM extraF extraFM_sim extraF_local n s _ hp.extra).1]
  · show POut.helperNat (cachedOpt optMixedFM n s _).2 = _
    rw [(cachedOpt_spec optMixedFM optMixedF optMixedFM_sim optMixedF_local n s _ hp.optMixed).1]
  · show POut.helperCell (cachedOpt memoFM n s _).2 = _
    rw [(cachedOpt_spec memoFM memoF memoFM_sim memoF_local n s _ hp.memo).1]

/-! ## non-vacuity: a concrete interleaved history

Two Mixed objects with equal parameters on the memoisation path (indices 0 and 2) and a Multistage
object (index 1), iterated in an interleaved way, with helper calls and observer reads in
between. -/

def exHistory : List POp :=
  [.construct (.MX 5 2 .disk false), .construct (.MS 4 1 1 .maximum), .next 0,
   .mixedStepMemo 7 3, .construct (.MX 5 2 .disk false), .next 1, .next 0, .observe 0, .next 2,
   .optimalExtraSteps 6 2, .next 0, .next 2, .next 2, .usesStorage 2 .disk, .next 1, .next 0,
   .next 2, .finalize 0 5, .next 0, .next 0, .optimalStepsMixed 9 2, .next 2, .next 2, .next 1,
   .next 0, .next 2, .next 0, .next 0, .next 2, .observe 2, .next 0, .next 2]

/-- the first Mixed object emits real actions: the first four answers it gives -/
example : (ownOuts 0 exHistory (Proc.init.run exHistory).2).take 4 =
    [.next (.act ⟨.forward 0 3 true false .disk, 3, 0, some 5, false, true⟩),
     .next (.act ⟨.forward 3 4 false true .disk, 4, 0, some 5, false, true⟩),
     .obs 4 0 (some 5) false true,
     .next (.act ⟨.forward 4 5 false true .work, 5, 0, some 5, false, true⟩)] := by decide

/-- the shared table really is shared and filled lazily: after the first `next()` of object 0 it
has entries, and the second Mixed object's first `next()` adds none -/
example : (Proc.init.run (exHistory.take 2)).1.memo.length = 0 ∧
    (Proc.init.run (exHistory.take 3)).1.memo.length = 7 := by decide
example : (Proc.init.run (exHistory.take 8)).1.memo.length
        = (Proc.init.run (exHistory.take 9)).1.memo.length := by decide

/-- the instance of `C15_process` for object 0 of this history, checked by evaluation -/
example : ownOuts 0 (exHistory.drop 1) ((Proc.init.run exHistory).2.drop 1) =
    (Proc.init.run (soloHistory (.MX 5 2 .disk false) (ownOps 0 (exHistory.drop 1)))).2.tail := by
  decide

/-- the two Mixed objects receive the same number of `next()` calls up to the 7th, and answer
them equally although their calls are interleaved with each other and with everything else -/
example :
    ((ownOuts 0 exHistory (Proc.init.run exHistory).2).filter (fun o => match o with | .next _ => true | _ => false)).take 7 =
    ((ownOuts 2 exHistory (Proc.init.run exHistory).2).filter (fun o => match o with | .next _ => true | _ => false)).take 7 := by
  decide

/-- the Multistage object in the middle is not disturbed either -/
example : ownOuts 1 (exHistory.drop 2) ((Proc.init.run exHistory).2.drop 2) =
    (Proc.init.run (soloHistory (.MS 4 1 1 .maximum) (ownOps 1 (exHistory.drop 2)))).2.tail := by
  decide

#print axioms CachesOK_step
#print axioms C15_process
#print axioms C15_equal_params
#print axioms C15_observers
#print axioms C15_observer_erase
#print axioms C15_helpers_pure

end Ckpt.Proc
