import CkptVerif.Model.Revolve
import CkptVerif.Proofs.Argmin
import Mathlib.Tactic
/-!
# HRevolve: a structural description of Copy-vs-Move

`resolveLoads` decides for every pending `load` whether it is the last use of its checkpoint by
scanning the rest of the stream (`_last_reads`).  Here the same decision is made structurally,
from the position of the load in the recursion: `hRs`/`hAs` are `hR`/`hA` emitting `Ev`s directly.
`resolveLoads_hR`: both agree.
-/
namespace Ckpt

/-! ## definitions -/

/-- the candidates of the split in `hA` -/
def hCands (c : HCtx) (K cm l : Nat) : List (Option Nat) :=
  (List.range' 1 (l - 1)).map (fun j =>
    oadd (oadd (oadd (some (j * c.uf)) (c.tab.opt K (l - j) (cm - 1))) (some (c.rr K)))
      (c.tab.optp K (j - 1) cm))

def hOther (c : HCtx) (K l : Nat) : Option Nat :=
  if K = 0 then c.tab.optp 0 l 1 else c.tab.opt (K - 1) l (cv c (K - 1))

/-- the split test of `hA` -/
def hSplit (c : HCtx) (K cm l : Nat) : Bool := olt (ominList (hCands c K cm l)) (hOther c K l)

/-- "the stream of `hA c _ lo (lo+l+1) K cm spine none` loads `(lo, lvl K)` again before any write
to `(lo, lvl K)`", i.e. the load preceding it is a `copy` -/
def reloads (c : HCtx) (K cm l : Nat) : Bool :=
  if l = 0 then false
  else if l = 1 then !(decide (c.w 0 + c.rr 0 < c.rr K))
  else if K = 0 then true
  else hSplit c K cm l

/-- the events of `hBase` -/
def evBase (c : HCtx) (lo hi : Nat) (spine : Bool) : List Ev :=
  [⟨.forward lo hi false true .work, hi, c.N - hi⟩] ++
  (if spine then [⟨.endForward, hi, c.N - hi⟩] else []) ++
  [⟨.reverse hi lo true, hi, c.N - hi + 1⟩]

/-- the event of `hFwd` -/
def evFwd (c : HCtx) (lo tgt hi : Nat) (pending : Option Nat) : Ev :=
  match pending with
  | none => ⟨.forward lo tgt false false .work, tgt, c.N - hi⟩
  | some K => ⟨.forward lo tgt true false (lvl K), tgt, c.N - hi⟩

/-- a resolved load -/
def evLoad (copy : Bool) (n : Nat) (st : Storage) (r : Nat) : Ev :=
  if copy then ⟨.copy n st .work, n, r⟩ else ⟨.move n st .work, n, r⟩

mutual
/-- `hR` with the loads resolved structurally -/
def hRs (c : HCtx) : (fuel : Nat) → (lo hi K cm : Nat) → (spine : Bool) → Option (List Ev)
  | 0, _, _, _, _, _ => none
  | fuel+1, lo, hi, K, cm, spine =>
    let l := hi - lo - 1
    if l = 0 then some (evBase c lo hi spine)
    else if K = 0 ∧ cm = 0 then none
    else if l = 1 then
      some ([evFwd c lo (lo + 1) hi (some 0)] ++ evBase c (lo + 1) hi spine ++
        [evLoad false lo .ram (c.N - (lo + 1))] ++ evBase c lo (lo + 1) false)
    else if K = 0 then hAs c fuel lo hi 0 cm spine (some 0)
    else if olt (oadd (some (c.w K)) (c.tab.optp K l cm)) (c.tab.opt (K - 1) l (cv c (K - 1))) then
      hAs c fuel lo hi K cm spine (some K)
    else hRs c fuel lo hi (K - 1) (cv c (K - 1)) spine
/-- `hA` with the loads resolved structurally -/
def hAs (c : HCtx) : (fuel : Nat) → (lo hi K cm : Nat) → (spine : Bool) → (pending : Option Nat) →
    Option (List Ev)
  | 0, _, _, _, _, _, _ => none
  | fuel+1, lo, hi, K, cm, spine, pending =>
    let l := hi - lo - 1
    if cm = 0 then none
    else if l = 0 then
      if pending.isSome then none else some (evBase c lo hi spine)
    else if l = 1 then
      if pending.isSome then none else
      if c.w 0 + c.rr 0 < c.rr K then
        some ([evFwd c lo (lo + 1) hi (some 0)] ++ evBase c (lo + 1) hi spine ++
          [evLoad false lo .ram (c.N - (lo + 1))] ++ evBase c lo (lo + 1) false)
      else
        some ([evFwd c lo (lo + 1) hi none] ++ evBase c (lo + 1) hi spine ++
          [evLoad false lo (lvl K) (c.N - (lo + 1))] ++ evBase c lo (lo + 1) false)
    else if K = 0 ∧ cm = 1 then
      let body := (List.range l).reverse.flatMap (fun idx =>
        (if idx ≠ l - 1 then [evLoad true lo .ram (c.N - (lo + idx + 2))] else []) ++
        [evFwd c lo (lo + idx + 1) (lo + idx + 2) (if idx = l - 1 then pending else none)] ++
        evBase c (lo + idx + 1) (lo + idx + 2) (spine && idx = l - 1))
      some (body ++ [evLoad false lo .ram (c.N - (lo + 1))] ++ evBase c lo (lo + 1) false)
    else
      if hSplit c K cm l then
        let j := argminO (hCands c K cm l)
        match hRs c fuel (lo + j) hi K (cm - 1) spine with
        | none => none
        | some right =>
          match hAs c fuel lo (lo + j) K cm false none with
          | none => none
          | some left =>
            some ([evFwd c lo (lo + j) hi pending] ++ right ++
              [evLoad (reloads c K cm (j - 1)) lo (lvl K) (c.N - (lo + j))] ++ left)
      else if K = 0 then hAs c fuel lo hi 0 1 spine pending
      else
        if pending.isSome then none else hRs c fuel lo hi (K - 1) (cv c (K - 1)) spine
end

/-! ## one unfolding of the four generators -/

theorem hR_succ (c : HCtx) (fuel lo hi K cm : Nat) (spine : Bool) :
    hR c (fuel + 1) lo hi K cm spine =
      if hi - lo - 1 = 0 then some (hBase c lo hi spine)
      else if K = 0 ∧ cm = 0 then none
      else if hi - lo - 1 = 1 then
        some ([hFwd c lo (lo + 1) hi (some 0)] ++ hBase c (lo + 1) hi spine ++
          [.load lo .ram (c.N - (lo + 1))] ++ hBase c lo (lo + 1) false)
      else if K = 0 then hA c fuel lo hi 0 cm spine (some 0)
      else if olt (oadd (some (c.w K)) (c.tab.optp K (hi - lo - 1) cm))
          (c.tab.opt (K - 1) (hi - lo - 1) (cv c (K - 1))) then
        hA c fuel lo hi K cm spine (some K)
      else hR c fuel lo hi (K - 1) (cv c (K - 1)) spine := by
  rw [hR]

theorem hRs_succ (c : HCtx) (fuel lo hi K cm : Nat) (spine : Bool) :
    hRs c (fuel + 1) lo hi K cm spine =
      if hi - lo - 1 = 0 then some (evBase c lo hi spine)
      else if K = 0 ∧ cm = 0 then none
      else if hi - lo - 1 = 1 then
        some ([evFwd c lo (lo + 1) hi (some 0)] ++ evBase c (lo + 1) hi spine ++
          [evLoad false lo .ram (c.N - (lo + 1))] ++ evBase c lo (lo + 1) false)
      else if K = 0 then hAs c fuel lo hi 0 cm spine (some 0)
      else if olt (oadd (some (c.w K)) (c.tab.optp K (hi - lo - 1) cm))
          (c.tab.opt (K - 1) (hi - lo - 1) (cv c (K - 1))) then
        hAs c fuel lo hi K cm spine (some K)
      else hRs c fuel lo hi (K - 1) (cv c (K - 1)) spine := by
  rw [hRs]

/-- one iteration `idx < l - 1` of the `cm = 1` loop -/
def loopOp (c : HCtx) (lo idx : Nat) : List HOp :=
  [.load lo .ram (c.N - (lo + idx + 2)), hFwd c lo (lo + idx + 1) (lo + idx + 2) none] ++
    hBase c (lo + idx + 1) (lo + idx + 2) false

def loopEv (c : HCtx) (lo idx : Nat) : List Ev :=
  [evLoad true lo .ram (c.N - (lo + idx + 2)), evFwd c lo (lo + idx + 1) (lo + idx + 2) none] ++
    evBase c (lo + idx + 1) (lo + idx + 2) false

theorem hA_succ (c : HCtx) (fuel lo hi K cm : Nat) (spine : Bool) (pending : Option Nat) :
    hA c (fuel + 1) lo hi K cm spine pending =
      if cm = 0 then none
      else if hi - lo - 1 = 0 then
        if pending.isSome then none else some (hBase c lo hi spine)
      else if hi - lo - 1 = 1 then
        if pending.isSome then none else
        if c.w 0 + c.rr 0 < c.rr K then
          some ([hFwd c lo (lo + 1) hi (some 0)] ++ hBase c (lo + 1) hi spine ++
            [.load lo .ram (c.N - (lo + 1))] ++ hBase c lo (lo + 1) false)
        else
          some ([hFwd c lo (lo + 1) hi none] ++ hBase c (lo + 1) hi spine ++
            [.load lo (lvl K) (c.N - (lo + 1))] ++ hBase c lo (lo + 1) false)
      else if K = 0 ∧ cm = 1 then
        some ((List.range (hi - lo - 1)).reverse.flatMap (fun idx =>
          (if idx ≠ hi - lo - 1 - 1 then [HOp.load lo .ram (c.N - (lo + idx + 2))] else []) ++
          [hFwd c lo (lo + idx + 1) (lo + idx + 2) (if idx = hi - lo - 1 - 1 then pending else none)] ++
          hBase c (lo + idx + 1) (lo + idx + 2) (spine && idx = hi - lo - 1 - 1))
          ++ [.load lo .ram (c.N - (lo + 1))] ++ hBase c lo (lo + 1) false)
      else if hSplit c K cm (hi - lo - 1) then
        match hR c fuel (lo + argminO (hCands c K cm (hi - lo - 1))) hi K (cm - 1) spine with
        | none => none
        | some right =>
          match hA c fuel lo (lo + argminO (hCands c K cm (hi - lo - 1))) K cm false none with
          | none => none
          | some left =>
            some ([hFwd c lo (lo + argminO (hCands c K cm (hi - lo - 1))) hi pending] ++ right ++
              [.load lo (lvl K) (c.N - (lo + argminO (hCands c K cm (hi - lo - 1))))] ++ left)
      else if K = 0 then hA c fuel lo hi 0 1 spine pending
      else if pending.isSome then none else hR c fuel lo hi (K - 1) (cv c (K - 1)) spine := by
  rw [hA]
  rfl

theorem hAs_succ (c : HCtx) (fuel lo hi K cm : Nat) (spine : Bool) (pending : Option Nat) :
    hAs c (fuel + 1) lo hi K cm spine pending =
      if cm = 0 then none
      else if hi - lo - 1 = 0 then
        if pending.isSome then none else some (evBase c lo hi spine)
      else if hi - lo - 1 = 1 then
        if pending.isSome then none else
        if c.w 0 + c.rr 0 < c.rr K then
          some ([evFwd c lo (lo + 1) hi (some 0)] ++ evBase c (lo + 1) hi spine ++
            [evLoad false lo .ram (c.N - (lo + 1))] ++ evBase c lo (lo + 1) false)
        else
          some ([evFwd c lo (lo + 1) hi none] ++ evBase c (lo + 1) hi spine ++
            [evLoad false lo (lvl K) (c.N - (lo + 1))] ++ evBase c lo (lo + 1) false)
      else if K = 0 ∧ cm = 1 then
        some ((List.range (hi - lo - 1)).reverse.flatMap (fun idx =>
          (if idx ≠ hi - lo - 1 - 1 then [evLoad true lo .ram (c.N - (lo + idx + 2))] else []) ++
          [evFwd c lo (lo + idx + 1) (lo + idx + 2) (if idx = hi - lo - 1 - 1 then pending else none)] ++
          evBase c (lo + idx + 1) (lo + idx + 2) (spine && idx = hi - lo - 1 - 1))
          ++ [evLoad false lo .ram (c.N - (lo + 1))] ++ evBase c lo (lo + 1) false)
      else if hSplit c K cm (hi - lo - 1) then
        match hRs c fuel (lo + argminO (hCands c K cm (hi - lo - 1))) hi K (cm - 1) spine with
        | none => none
        | some right =>
          match hAs c fuel lo (lo + argminO (hCands c K cm (hi - lo - 1))) K cm false none with
          | none => none
          | some left =>
            some ([evFwd c lo (lo + argminO (hCands c K cm (hi - lo - 1))) hi pending] ++ right ++
              [evLoad (reloads c K cm (argminO (hCands c K cm (hi - lo - 1)) - 1)) lo (lvl K)
                (c.N - (lo + argminO (hCands c K cm (hi - lo - 1))))] ++ left)
      else if K = 0 then hAs c fuel lo hi 0 1 spine pending
      else if pending.isSome then none else hRs c fuel lo hi (K - 1) (cv c (K - 1)) spine := by
  rw [hAs]

/-- the split position is inside the segment -/
theorem hSplit_range (c : HCtx) (K cm l : Nat) (hl : 2 ≤ l) :
    1 ≤ argminO (hCands c K cm l) ∧ argminO (hCands c K cm l) ≤ l - 1 := by
  have hne : hCands c K cm l ≠ [] := by
    unfold hCands
    intro h
    have := congrArg List.length h
    simp at this
    omega
  have := argminO_range _ hne
  unfold hCands at this ⊢
  simpa using this

/-! ## keys: which checkpoint an operation reads or writes -/

/-- the checkpoint (step, storage) an operation loads or writes -/
def opKey : HOp → Option (Nat × Storage)
  | .load n st _ => some (n, st)
  | .ev e =>
    match e.act with
    | .forward n0 _ true _ st => some (n0, st)
    | _ => none

theorem isLastLoad_cons_ne (n : Nat) (st : Storage) (op : HOp) (rest : List HOp)
    (h : opKey op ≠ some (n, st)) : isLastLoad n st (op :: rest) = isLastLoad n st rest := by
  cases op with
  | load n' st' r =>
    have : ¬ (n' = n ∧ st' = st) := by
      rintro ⟨rfl, rfl⟩; exact h rfl
    simp [isLastLoad, this]
  | ev e =>
    obtain ⟨a, en, er⟩ := e
    cases a with
    | forward n0 n1 wi wa st' =>
      cases wi with
      | false => simp [isLastLoad]
      | true =>
        have : ¬ (n0 = n ∧ st' = st) := by
          rintro ⟨rfl, rfl⟩; exact h rfl
        simp [isLastLoad, this]
    | _ => simp [isLastLoad]

theorem isLastLoad_load (n : Nat) (st : Storage) (r : Nat) (rest : List HOp) :
    isLastLoad n st (.load n st r :: rest) = false := by
  simp [isLastLoad]

theorem isLastLoad_write (n n1 : Nat) (st : Storage) (wa : Bool) (en er : Nat) (rest : List HOp) :
    isLastLoad n st (.ev ⟨.forward n n1 true wa st, en, er⟩ :: rest) = true := by
  simp [isLastLoad]

/-- no operation of `a` touches the checkpoint `(n, st)` -/
def NoTouch (n : Nat) (st : Storage) (a : List HOp) : Prop := ∀ op ∈ a, opKey op ≠ some (n, st)

theorem isLastLoad_append_left (n : Nat) (st : Storage) (a b : List HOp) (h : NoTouch n st a) :
    isLastLoad n st (a ++ b) = isLastLoad n st b := by
  induction a with
  | nil => rfl
  | cons op rest ih =>
    rw [List.cons_append, isLastLoad_cons_ne n st op _ (h op (List.mem_cons_self ..))]
    exact ih (fun op' h' => h op' (List.mem_cons_of_mem _ h'))

theorem isLastLoad_noTouch (n : Nat) (st : Storage) (a : List HOp) (h : NoTouch n st a) :
    isLastLoad n st a = true := by
  have := isLastLoad_append_left n st a [] h
  rw [List.append_nil] at this
  rw [this]; rfl

theorem isLastLoad_append_right (n : Nat) (st : Storage) (a b : List HOp) (h : NoTouch n st b) :
    isLastLoad n st (a ++ b) = isLastLoad n st a := by
  induction a with
  | nil => rw [List.nil_append, isLastLoad_noTouch n st b h]; rfl
  | cons op rest ih =>
    by_cases hk : opKey op = some (n, st)
    · cases op with
      | load n' st' r =>
        have : n' = n ∧ st' = st := by
          simp only [opKey, Option.some.injEq, Prod.mk.injEq] at hk; exact hk
        simp [isLastLoad, this]
      | ev e =>
        obtain ⟨a, en, er⟩ := e
        cases a with
        | forward n0 n1 wi wa st' =>
          cases wi with
          | false => simp [opKey] at hk
          | true =>
            have : n0 = n ∧ st' = st := by
              simp only [opKey, Option.some.injEq, Prod.mk.injEq] at hk; exact hk
            simp [isLastLoad, this]
        | _ => simp [opKey] at hk
    · rw [List.cons_append, isLastLoad_cons_ne n st op _ hk, isLastLoad_cons_ne n st op _ hk, ih]

theorem resolveLoads_load (n : Nat) (st : Storage) (r : Nat) (rest : List HOp) :
    resolveLoads (.load n st r :: rest) =
      evLoad (!isLastLoad n st rest) n st r :: resolveLoads rest := by
  cases h : isLastLoad n st rest <;> simp [resolveLoads, evLoad, h]

/-- `resolveLoads` distributes over `++` when the second part touches no checkpoint loaded in the
first -/
theorem resolveLoads_append (a b : List HOp)
    (h : ∀ n st r, HOp.load n st r ∈ a → NoTouch n st b) :
    resolveLoads (a ++ b) = resolveLoads a ++ resolveLoads b := by
  induction a with
  | nil => rfl
  | cons op rest ih =>
    have ih' := ih (fun n st r hm => h n st r (List.mem_cons_of_mem _ hm))
    cases op with
    | ev e =>
      rw [List.cons_append]
      show e :: resolveLoads (rest ++ b) = e :: resolveLoads rest ++ resolveLoads b
      rw [ih']; rfl
    | load n st r =>
      rw [List.cons_append, resolveLoads_load, resolveLoads_load, ih',
        isLastLoad_append_right n st rest b (h n st r (List.mem_cons_self ..))]
      rfl

/-! ## the building blocks -/

theorem opKey_hFwd_none (c : HCtx) (lo tgt hi : Nat) : opKey (hFwd c lo tgt hi none) = none := rfl

theorem opKey_hFwd_some (c : HCtx) (lo tgt hi K : Nat) :
    opKey (hFwd c lo tgt hi (some K)) = some (lo, lvl K) := rfl

theorem hBase_keys (c : HCtx) (lo hi : Nat) (spine : Bool) :
    ∀ op ∈ hBase c lo hi spine, opKey op = none := by
  intro op hop
  cases spine <;> simp [hBase] at hop <;> rcases hop with rfl | rfl | rfl <;> rfl

theorem hBase_noLoad (c : HCtx) (lo hi : Nat) (spine : Bool) (n : Nat) (st : Storage) (r : Nat) :
    HOp.load n st r ∉ hBase c lo hi spine := by
  intro h
  have := hBase_keys c lo hi spine _ h
  simp [opKey] at this

theorem resolveLoads_hBase (c : HCtx) (lo hi : Nat) (spine : Bool) :
    resolveLoads (hBase c lo hi spine) = evBase c lo hi spine := by
  cases spine <;> rfl

theorem resolveLoads_hFwd (c : HCtx) (lo tgt hi : Nat) (p : Option Nat) (rest : List HOp) :
    resolveLoads (hFwd c lo tgt hi p :: rest) = evFwd c lo tgt hi p :: resolveLoads rest := by
  cases p <;> rfl

theorem resolveLoads_hBase_append (c : HCtx) (lo hi : Nat) (spine : Bool) (b : List HOp) :
    resolveLoads (hBase c lo hi spine ++ b) = evBase c lo hi spine ++ resolveLoads b := by
  rw [resolveLoads_append _ _ (fun n st r hm => absurd hm (hBase_noLoad c lo hi spine n st r)),
    resolveLoads_hBase]

theorem hBase_noTouch (c : HCtx) (lo hi : Nat) (spine : Bool) (n : Nat) (st : Storage) :
    NoTouch n st (hBase c lo hi spine) := by
  intro op hop
  rw [hBase_keys c lo hi spine op hop]
  simp

/-- all checkpoints touched have their step in `[lo, hi)`, and are in RAM if `ramOnly` -/
def Keys (lo hi : Nat) (ramOnly : Prop) (ops : List HOp) : Prop :=
  ∀ op ∈ ops, ∀ n st, opKey op = some (n, st) → lo ≤ n ∧ n < hi ∧ (ramOnly → st = .ram)

theorem Keys.append {lo hi : Nat} {p : Prop} {a b : List HOp} (ha : Keys lo hi p a)
    (hb : Keys lo hi p b) : Keys lo hi p (a ++ b) := by
  intro op hop
  rcases List.mem_append.1 hop with h | h
  · exact ha op h
  · exact hb op h

theorem Keys.mono {lo hi lo' hi' : Nat} {p p' : Prop} {a : List HOp} (ha : Keys lo hi p a)
    (h1 : lo' ≤ lo) (h2 : hi ≤ hi') (h3 : p' → p) : Keys lo' hi' p' a := by
  intro op hop n st hk
  obtain ⟨k1, k2, k3⟩ := ha op hop n st hk
  exact ⟨by omega, by omega, fun hp => k3 (h3 hp)⟩

theorem Keys.hBase (c : HCtx) (lo hi lo' hi' : Nat) (spine : Bool) (p : Prop) :
    Keys lo' hi' p (hBase c lo hi spine) := by
  intro op hop n st hk
  rw [hBase_keys c lo hi spine op hop] at hk
  cases hk

theorem Keys.single {lo hi : Nat} {p : Prop} (op : HOp)
    (h : ∀ n st, opKey op = some (n, st) → lo ≤ n ∧ n < hi ∧ (p → st = .ram)) :
    Keys lo hi p [op] := by
  intro op' hop n st hk
  rw [List.mem_singleton] at hop
  subst hop
  exact h n st hk

theorem Keys.noTouch {lo hi : Nat} {p : Prop} {a : List HOp} (ha : Keys lo hi p a) (n : Nat)
    (st : Storage) (h : n < lo ∨ hi ≤ n) : NoTouch n st a := by
  intro op hop hk
  have := ha op hop n st hk
  omega

theorem lvl_zero : lvl 0 = .ram := rfl

theorem lvl_pos (K : Nat) (h : K ≠ 0) : lvl K = .disk := by
  unfold lvl; rw [if_neg h]

/-! ## the `cm = 1` loop -/

theorem loopOp_head (c : HCtx) (lo idx : Nat) (rest : List HOp) :
    isLastLoad lo .ram (loopOp c lo idx ++ rest) = false := by
  unfold loopOp
  simp only [List.cons_append]
  exact isLastLoad_load _ _ _ _

theorem loop_isLast (c : HCtx) (lo : Nat) (idxs : List Nat) (T : List HOp)
    (hT : isLastLoad lo .ram T = false) :
    isLastLoad lo .ram (idxs.flatMap (loopOp c lo) ++ T) = false := by
  cases idxs with
  | nil => exact hT
  | cons i rest =>
    rw [List.flatMap_cons, List.append_assoc]
    exact loopOp_head c lo i _

theorem loopOp_append (c : HCtx) (lo i : Nat) (R : List HOp) :
    loopOp c lo i ++ R = .load lo .ram (c.N - (lo + i + 2)) ::
      hFwd c lo (lo + i + 1) (lo + i + 2) none :: (hBase c (lo + i + 1) (lo + i + 2) false ++ R) := rfl

theorem loopEv_append (c : HCtx) (lo i : Nat) (R : List Ev) :
    loopEv c lo i ++ R = evLoad true lo .ram (c.N - (lo + i + 2)) ::
      evFwd c lo (lo + i + 1) (lo + i + 2) none :: (evBase c (lo + i + 1) (lo + i + 2) false ++ R) := rfl

theorem loop_resolve (c : HCtx) (lo : Nat) (idxs : List Nat) (T : List HOp)
    (hT : isLastLoad lo .ram T = false) :
    resolveLoads (idxs.flatMap (loopOp c lo) ++ T) =
      idxs.flatMap (loopEv c lo) ++ resolveLoads T := by
  induction idxs with
  | nil => rfl
  | cons i rest ih =>
    rw [List.flatMap_cons, List.flatMap_cons, List.append_assoc, List.append_assoc]
    have hl := loop_isLast c lo rest T hT
    rw [loopOp_append, loopEv_append, resolveLoads_load, resolveLoads_hFwd,
      resolveLoads_hBase_append, ih]
    have e : isLastLoad lo .ram (hFwd c lo (lo + i + 1) (lo + i + 2) none ::
        (hBase c (lo + i + 1) (lo + i + 2) false ++ (rest.flatMap (loopOp c lo) ++ T))) = false := by
      rw [isLastLoad_cons_ne _ _ _ _ (by rw [opKey_hFwd_none]; simp),
        isLastLoad_append_left _ _ _ _ (hBase_noTouch c _ _ _ lo .ram)]
      exact hl
    rw [e]
    rfl

theorem flatMap_congr_mem {α β : Type} (l : List α) (f g : α → List β)
    (h : ∀ x ∈ l, f x = g x) : l.flatMap f = l.flatMap g := by
  induction l with
  | nil => rfl
  | cons x xs ih =>
    rw [List.flatMap_cons, List.flatMap_cons, h x (List.mem_cons_self ..),
      ih (fun y hy => h y (List.mem_cons_of_mem _ hy))]

/-- the loop body of `hA`, first iteration split off -/
theorem hA_loop_body (c : HCtx) (lo l' : Nat) (spine : Bool) (pending : Option Nat)
    (f : Nat → List HOp)
    (hf : f = fun idx =>
      (if idx ≠ l' + 1 - 1 then [HOp.load lo .ram (c.N - (lo + idx + 2))] else []) ++
      [hFwd c lo (lo + idx + 1) (lo + idx + 2) (if idx = l' + 1 - 1 then pending else none)] ++
      hBase c (lo + idx + 1) (lo + idx + 2) (spine && idx = l' + 1 - 1)) :
    (List.range (l' + 1)).reverse.flatMap f =
    ([hFwd c lo (lo + l' + 1) (lo + l' + 2) pending] ++ hBase c (lo + l' + 1) (lo + l' + 2) spine) ++
      (List.range l').reverse.flatMap (loopOp c lo) := by
  have h0 : f l' =
      [hFwd c lo (lo + l' + 1) (lo + l' + 2) pending] ++ hBase c (lo + l' + 1) (lo + l' + 2) spine := by
    subst hf; simp
  have h1 : (List.range l').reverse.flatMap f = (List.range l').reverse.flatMap (loopOp c lo) := by
    apply flatMap_congr_mem
    intro idx hidx
    rw [List.mem_reverse, List.mem_range] at hidx
    have h2 : idx ≠ l' := by omega
    subst hf
    simp [loopOp, h2]
  rw [List.range_succ, List.reverse_append, List.reverse_singleton, List.singleton_append,
    List.flatMap_cons, h0, h1]

theorem hAs_loop_body (c : HCtx) (lo l' : Nat) (spine : Bool) (pending : Option Nat)
    (f : Nat → List Ev)
    (hf : f = fun idx =>
      (if idx ≠ l' + 1 - 1 then [evLoad true lo .ram (c.N - (lo + idx + 2))] else []) ++
      [evFwd c lo (lo + idx + 1) (lo + idx + 2) (if idx = l' + 1 - 1 then pending else none)] ++
      evBase c (lo + idx + 1) (lo + idx + 2) (spine && idx = l' + 1 - 1)) :
    (List.range (l' + 1)).reverse.flatMap f =
    ([evFwd c lo (lo + l' + 1) (lo + l' + 2) pending] ++ evBase c (lo + l' + 1) (lo + l' + 2) spine) ++
      (List.range l').reverse.flatMap (loopEv c lo) := by
  have h0 : f l' =
      [evFwd c lo (lo + l' + 1) (lo + l' + 2) pending] ++ evBase c (lo + l' + 1) (lo + l' + 2) spine := by
    subst hf; simp
  have h1 : (List.range l').reverse.flatMap f = (List.range l').reverse.flatMap (loopEv c lo) := by
    apply flatMap_congr_mem
    intro idx hidx
    rw [List.mem_reverse, List.mem_range] at hidx
    have h2 : idx ≠ l' := by omega
    subst hf
    simp [loopEv, h2]
  rw [List.range_succ, List.reverse_append, List.reverse_singleton, List.singleton_append,
    List.flatMap_cons, h0, h1]

theorem loopOp_keys (c : HCtx) (lo hi : Nat) (p : Prop) (idxs : List Nat) (h : lo < hi) :
    Keys lo hi p (idxs.flatMap (loopOp c lo)) := by
  intro op hop n st hk
  rw [List.mem_flatMap] at hop
  obtain ⟨i, _, hop⟩ := hop
  unfold loopOp at hop
  rcases List.mem_append.1 hop with h1 | h1
  · simp only [List.mem_cons, List.not_mem_nil, or_false] at h1
    rcases h1 with rfl | rfl
    · simp only [opKey, Option.some.injEq, Prod.mk.injEq] at hk
      obtain ⟨rfl, rfl⟩ := hk
      exact ⟨le_refl _, h, fun _ => rfl⟩
    · rw [opKey_hFwd_none] at hk; cases hk
  · rw [hBase_keys _ _ _ _ op h1] at hk; cases hk

/-! ## the shapes that occur -/

/-- the two-step segment: write/advance, reverse the second step, load, reverse the first -/
theorem resolve_unit (c : HCtx) (lo hi : Nat) (spine : Bool) (p : Option Nat) (st : Storage)
    (r : Nat) :
    resolveLoads ([hFwd c lo (lo + 1) hi p] ++ hBase c (lo + 1) hi spine ++ [.load lo st r] ++
        hBase c lo (lo + 1) false) =
      [evFwd c lo (lo + 1) hi p] ++ evBase c (lo + 1) hi spine ++ [evLoad false lo st r] ++
        evBase c lo (lo + 1) false := by
  simp only [List.cons_append, List.nil_append, List.append_assoc]
  rw [resolveLoads_hFwd, resolveLoads_hBase_append, resolveLoads_load, resolveLoads_hBase,
    isLastLoad_noTouch _ _ _ (hBase_noTouch c _ _ _ lo st)]
  rfl

theorem keys_unit (c : HCtx) (lo hi : Nat) (spine : Bool) (p : Option Nat) (st : Storage)
    (r : Nat) (P : Prop) (hlt : lo < hi) (hp : ∀ K', p = some K' → P → lvl K' = .ram)
    (hst : P → st = .ram) :
    Keys lo hi P ([hFwd c lo (lo + 1) hi p] ++ hBase c (lo + 1) hi spine ++ [.load lo st r] ++
        hBase c lo (lo + 1) false) := by
  refine Keys.append (Keys.append (Keys.append (Keys.single _ ?_) (Keys.hBase _ _ _ _ _ _ _))
    (Keys.single _ ?_)) (Keys.hBase _ _ _ _ _ _ _)
  · intro n st' hk
    cases p with
    | none => rw [opKey_hFwd_none] at hk; cases hk
    | some K' =>
      rw [opKey_hFwd_some] at hk
      simp only [Option.some.injEq, Prod.mk.injEq] at hk
      obtain ⟨rfl, rfl⟩ := hk
      exact ⟨le_refl _, hlt, hp K' rfl⟩
  · intro n st' hk
    simp only [opKey, Option.some.injEq, Prod.mk.injEq] at hk
    obtain ⟨rfl, rfl⟩ := hk
    exact ⟨le_refl _, hlt, hst⟩

/-- a split: write/advance, right part, load, left part -/
theorem resolve_split (c : HCtx) (lo tgt hi : Nat) (p : Option Nat) (st : Storage) (r : Nat)
    (right left : List HOp)
    (hsep : ∀ n st' r', HOp.load n st' r' ∈ right → NoTouch n st' (.load lo st r :: left)) :
    resolveLoads ([hFwd c lo tgt hi p] ++ right ++ [.load lo st r] ++ left) =
      [evFwd c lo tgt hi p] ++ resolveLoads right ++
        [evLoad (!isLastLoad lo st left) lo st r] ++ resolveLoads left := by
  simp only [List.cons_append, List.nil_append, List.append_assoc]
  rw [resolveLoads_hFwd, resolveLoads_append _ _ hsep, resolveLoads_load]

theorem reloads_zero (c : HCtx) (cm l : Nat) (h : 2 ≤ l) : reloads c 0 cm l = true := by
  unfold reloads
  rw [if_neg (by omega), if_neg (by omega), if_pos rfl]

theorem reloads_pos (c : HCtx) (K cm l : Nat) (h : 2 ≤ l) (hK : K ≠ 0) :
    reloads c K cm l = hSplit c K cm l := by
  unfold reloads
  rw [if_neg (by omega), if_neg (by omega), if_neg hK]

/-! ## the main statement -/

/-- what is proved about a call of `hR` -/
def ROk (c : HCtx) (fuel lo hi K cm : Nat) (spine : Bool) : Prop :=
  (hR c fuel lo hi K cm spine).map resolveLoads = hRs c fuel lo hi K cm spine ∧
  ∀ ops, hR c fuel lo hi K cm spine = some ops → Keys lo hi (K = 0) ops

/-- what is proved about a call of `hA` -/
def AOk (c : HCtx) (fuel lo hi K cm : Nat) (spine : Bool) (pending : Option Nat) : Prop :=
  (hA c fuel lo hi K cm spine pending).map resolveLoads = hAs c fuel lo hi K cm spine pending ∧
  ∀ ops, hA c fuel lo hi K cm spine pending = some ops →
    Keys lo hi (K = 0) ops ∧
    (pending = none → isLastLoad lo (lvl K) ops = !reloads c K cm (hi - lo - 1))

theorem struct_main (c : HCtx) : ∀ fuel,
    (∀ lo hi K cm spine, K ≤ 1 → ROk c fuel lo hi K cm spine) ∧
    (∀ lo hi K cm spine pending, K ≤ 1 → (pending = none ∨ pending = some K) →
      AOk c fuel lo hi K cm spine pending) := by
  intro fuel
  induction fuel with
  | zero =>
    refine ⟨fun lo hi K cm spine _ => ⟨?_, ?_⟩, fun lo hi K cm spine pending _ _ => ⟨?_, ?_⟩⟩
    · rw [hR, hRs]; rfl
    · intro ops h; rw [hR] at h; cases h
    · rw [hA, hAs]; rfl
    · intro ops h; rw [hA] at h; cases h
  | succ fuel ih =>
    obtain ⟨ihR, ihA⟩ := ih
    constructor
    · -- hR
      intro lo hi K cm spine hK
      unfold ROk
      rw [hR_succ, hRs_succ]
      by_cases h0 : hi - lo - 1 = 0
      · rw [if_pos h0, if_pos h0]
        refine ⟨by rw [Option.map_some, resolveLoads_hBase], ?_⟩
        intro ops h; cases h; exact Keys.hBase _ _ _ _ _ _ _
      · rw [if_neg h0, if_neg h0]
        by_cases h1 : K = 0 ∧ cm = 0
        · rw [if_pos h1, if_pos h1]
          exact ⟨rfl, fun ops h => by cases h⟩
        · rw [if_neg h1, if_neg h1]
          by_cases h2 : hi - lo - 1 = 1
          · rw [if_pos h2, if_pos h2]
            refine ⟨by rw [Option.map_some, resolve_unit], ?_⟩
            intro ops h; cases h
            exact keys_unit c lo hi spine (some 0) .ram _ _ (by omega)
              (fun K' hK' _ => by cases hK'; rfl) (fun _ => rfl)
          · rw [if_neg h2, if_neg h2]
            by_cases h3 : K = 0
            · subst h3
              rw [if_pos rfl, if_pos rfl]
              obtain ⟨e, k⟩ := ihA lo hi 0 cm spine (some 0) (by omega) (Or.inr rfl)
              exact ⟨e, fun ops ho => (k ops ho).1⟩
            · rw [if_neg h3, if_neg h3]
              by_cases h4 : olt (oadd (some (c.w K)) (c.tab.optp K (hi - lo - 1) cm))
                  (c.tab.opt (K - 1) (hi - lo - 1) (cv c (K - 1))) = true
              · rw [if_pos h4, if_pos h4]
                obtain ⟨e, k⟩ := ihA lo hi K cm spine (some K) hK (Or.inr rfl)
                exact ⟨e, fun ops ho => (k ops ho).1⟩
              · rw [if_neg h4, if_neg h4]
                obtain ⟨e, k⟩ := ihR lo hi (K - 1) (cv c (K - 1)) spine (by omega)
                exact ⟨e, fun ops ho => (k ops ho).mono (le_refl _) (le_refl _)
                  (fun h => absurd h h3)⟩
    · -- hA
      intro lo hi K cm spine pending hK hp
      unfold AOk
      rw [hA_succ, hAs_succ]
      by_cases hc : cm = 0
      · rw [if_pos hc, if_pos hc]
        exact ⟨rfl, fun ops h => by cases h⟩
      rw [if_neg hc, if_neg hc]
      by_cases h0 : hi - lo - 1 = 0
      · rw [if_pos h0, if_pos h0]
        cases pending with
        | some p => exact ⟨rfl, fun ops h => by cases h⟩
        | none =>
          simp only [Option.isSome_none, Bool.false_eq_true, if_false]
          refine ⟨by rw [Option.map_some, resolveLoads_hBase], ?_⟩
          intro ops h; cases h
          refine ⟨Keys.hBase _ _ _ _ _ _ _, fun _ => ?_⟩
          rw [isLastLoad_noTouch _ _ _ (hBase_noTouch _ _ _ _ _ _), h0]
          simp [reloads]
      rw [if_neg h0, if_neg h0]
      by_cases h1 : hi - lo - 1 = 1
      · rw [if_pos h1, if_pos h1]
        cases pending with
        | some p => exact ⟨rfl, fun ops h => by cases h⟩
        | none =>
          simp only [Option.isSome_none, Bool.false_eq_true, if_false]
          by_cases ht : c.w 0 + c.rr 0 < c.rr K
          · rw [if_pos ht, if_pos ht]
            have hK0 : K ≠ 0 := by
              intro h; subst h; omega
            refine ⟨by rw [Option.map_some, resolve_unit], ?_⟩
            intro ops h; cases h
            refine ⟨keys_unit c lo hi spine (some 0) .ram _ _ (by omega)
              (fun _ _ h => absurd h hK0) (fun h => absurd h hK0), fun _ => ?_⟩
            have hkeys := keys_unit c lo hi spine (some 0) .ram (c.N - (lo + 1)) True (by omega)
              (fun K' hK' _ => by cases hK'; rfl) (fun _ => rfl)
            rw [isLastLoad_noTouch, h1]
            · simp [reloads, ht]
            · intro op hop hk
              have := (hkeys op hop lo (lvl K) hk).2.2 trivial
              rw [lvl_pos K hK0] at this
              cases this
          · rw [if_neg ht, if_neg ht]
            refine ⟨by rw [Option.map_some, resolve_unit], ?_⟩
            intro ops h; cases h
            refine ⟨keys_unit c lo hi spine none (lvl K) _ _ (by omega)
              (fun _ h => by cases h) (fun h => by rw [h]; rfl), fun _ => ?_⟩
            simp only [List.cons_append, List.nil_append, List.append_assoc]
            rw [isLastLoad_cons_ne _ _ _ _ (by rw [opKey_hFwd_none]; simp),
              isLastLoad_append_left _ _ _ _ (hBase_noTouch _ _ _ _ _ _), isLastLoad_load, h1]
            simp [reloads, ht]
      rw [if_neg h1, if_neg h1]
      by_cases h2 : K = 0 ∧ cm = 1
      · -- the `cm = 1` loop
        rw [if_pos h2, if_pos h2]
        obtain ⟨hK0, hcm1⟩ := h2
        subst hK0
        obtain ⟨l', hl'⟩ : ∃ l', hi - lo - 1 = l' + 1 := ⟨hi - lo - 1 - 1, by omega⟩
        have hl1 : 1 ≤ l' := by omega
        rw [hl', hA_loop_body c lo l' spine pending _ rfl, hAs_loop_body c lo l' spine pending _ rfl]
        have hT : isLastLoad lo .ram (HOp.load lo .ram (c.N - (lo + 1)) :: hBase c lo (lo + 1) false)
            = false := isLastLoad_load ..
        refine ⟨?_, ?_⟩
        · rw [Option.map_some]
          congr 1
          simp only [List.cons_append, List.nil_append, List.append_assoc]
          rw [resolveLoads_hFwd, resolveLoads_hBase_append, loop_resolve c lo _ _ hT,
            resolveLoads_load, resolveLoads_hBase,
            isLastLoad_noTouch _ _ _ (hBase_noTouch c _ _ _ lo .ram)]
          rfl
        · intro ops h; cases h
          refine ⟨?_, fun hpn => ?_⟩
          · refine Keys.append (Keys.append (Keys.append (Keys.append (Keys.single _ ?_)
              (Keys.hBase _ _ _ _ _ _ _)) (loopOp_keys c lo hi _ _ (by omega))) (Keys.single _ ?_))
              (Keys.hBase _ _ _ _ _ _ _)
            · intro n st' hk
              rcases hp with rfl | rfl
              · rw [opKey_hFwd_none] at hk; cases hk
              · rw [opKey_hFwd_some] at hk
                simp only [Option.some.injEq, Prod.mk.injEq] at hk
                obtain ⟨rfl, rfl⟩ := hk
                exact ⟨le_refl _, by omega, fun _ => rfl⟩
            · intro n st' hk
              simp only [opKey, Option.some.injEq, Prod.mk.injEq] at hk
              obtain ⟨rfl, rfl⟩ := hk
              exact ⟨le_refl _, by omega, fun _ => rfl⟩
          · subst hpn
            simp only [List.cons_append, List.nil_append, List.append_assoc]
            rw [isLastLoad_cons_ne _ _ _ _ (by rw [opKey_hFwd_none]; simp),
              isLastLoad_append_left _ _ _ _ (hBase_noTouch _ _ _ _ _ _)]
            rw [show lvl 0 = Storage.ram from rfl, loop_isLast c lo _ _ hT,
              reloads_zero c cm (l' + 1) (by omega)]
            rfl
      rw [if_neg h2, if_neg h2]
      have hl2 : 2 ≤ hi - lo - 1 := by omega
      by_cases h3 : hSplit c K cm (hi - lo - 1) = true
      · -- a split
        rw [if_pos h3, if_pos h3]
        obtain ⟨hj1, hj2⟩ := hSplit_range c K cm (hi - lo - 1) hl2
        generalize argminO (hCands c K cm (hi - lo - 1)) = j at hj1 hj2 ⊢
        obtain ⟨eR, kR⟩ := ihR (lo + j) hi K (cm - 1) spine hK
        obtain ⟨eA, kA⟩ := ihA lo (lo + j) K cm false none hK (Or.inl rfl)
        rw [← eR, ← eA]
        cases hr : hR c fuel (lo + j) hi K (cm - 1) spine with
        | none => exact ⟨rfl, fun ops h => by cases h⟩
        | some right =>
          cases ha : hA c fuel lo (lo + j) K cm false none with
          | none => exact ⟨rfl, fun ops h => by cases h⟩
          | some left =>
            have kr := kR right hr
            obtain ⟨kl, il⟩ := kA left ha
            have il' := il rfl
            rw [show lo + j - lo - 1 = j - 1 by omega] at il'
            have hsep : ∀ n st' r', HOp.load n st' r' ∈ right →
                NoTouch n st' (.load lo (lvl K) (c.N - (lo + j)) :: left) := by
              intro n st' r' hm op hop hk
              have hn := (kr _ hm n st' rfl).1
              rcases List.mem_cons.1 hop with rfl | hop
              · simp only [opKey, Option.some.injEq, Prod.mk.injEq] at hk
                omega
              · have := (kl op hop n st' hk).2.1
                omega
            refine ⟨?_, ?_⟩
            · simp only [Option.map_some]
              rw [resolve_split c lo (lo + j) hi pending (lvl K) _ right left hsep, il',
                Bool.not_not]
            · intro ops h; cases h
              refine ⟨?_, fun hpn => ?_⟩
              · refine Keys.append (Keys.append (Keys.append (Keys.single _ ?_)
                  (kr.mono (by omega) (le_refl _) id)) (Keys.single _ ?_))
                  (kl.mono (le_refl _) (by omega) id)
                · intro n st' hk
                  rcases hp with rfl | rfl
                  · rw [opKey_hFwd_none] at hk; cases hk
                  · rw [opKey_hFwd_some] at hk
                    simp only [Option.some.injEq, Prod.mk.injEq] at hk
                    obtain ⟨rfl, rfl⟩ := hk
                    exact ⟨le_refl _, by omega, fun h => by rw [h]; rfl⟩
                · intro n st' hk
                  simp only [opKey, Option.some.injEq, Prod.mk.injEq] at hk
                  obtain ⟨rfl, rfl⟩ := hk
                  exact ⟨le_refl _, by omega, fun h => by rw [h]; rfl⟩
              · subst hpn
                simp only [List.cons_append, List.nil_append, List.append_assoc]
                rw [isLastLoad_cons_ne _ _ _ _ (by rw [opKey_hFwd_none]; simp),
                  isLastLoad_append_left _ _ _ _ (kr.noTouch lo (lvl K) (Or.inl (by omega))),
                  isLastLoad_load]
                by_cases hK0 : K = 0
                · subst hK0; rw [reloads_zero c cm _ hl2]; rfl
                · rw [reloads_pos c K cm _ hl2 hK0, h3]; rfl
      rw [if_neg h3, if_neg h3]
      by_cases h4 : K = 0
      · subst h4
        rw [if_pos rfl, if_pos rfl]
        obtain ⟨e, k⟩ := ihA lo hi 0 1 spine pending (by omega) hp
        refine ⟨e, fun ops ho => ⟨(k ops ho).1, fun hpn => ?_⟩⟩
        rw [(k ops ho).2 hpn, reloads_zero c 1 _ hl2, reloads_zero c cm _ hl2]
      · rw [if_neg h4, if_neg h4]
        cases pending with
        | some p => exact ⟨rfl, fun ops h => by cases h⟩
        | none =>
          simp only [Option.isSome_none, Bool.false_eq_true, if_false]
          obtain ⟨e, k⟩ := ihR lo hi (K - 1) (cv c (K - 1)) spine (by omega)
          refine ⟨e, fun ops ho => ⟨(k ops ho).mono (le_refl _) (le_refl _)
            (fun h => absurd h h4), fun _ => ?_⟩⟩
          have h3' : hSplit c K cm (hi - lo - 1) = false := by simpa using h3
          rw [reloads_pos c K cm _ hl2 h4, h3', isLastLoad_noTouch]
          · rfl
          · intro op hop hk
            have := (k ops ho op hop lo (lvl K) hk).2.2 (by omega)
            rw [lvl_pos K h4] at this
            cases this

/-- `resolveLoads` of the stream of `hR` is the structural stream -/
theorem resolveLoads_hR (c : HCtx) (fuel lo hi K cm : Nat) (spine : Bool) (hK : K ≤ 1) :
    (hR c fuel lo hi K cm spine).map resolveLoads = hRs c fuel lo hi K cm spine :=
  ((struct_main c fuel).1 lo hi K cm spine hK).1

theorem resolveLoads_hA (c : HCtx) (fuel lo hi K cm : Nat) (spine : Bool) (pending : Option Nat)
    (hK : K ≤ 1) (hp : pending = none ∨ pending = some K) :
    (hA c fuel lo hi K cm spine pending).map resolveLoads = hAs c fuel lo hi K cm spine pending :=
  ((struct_main c fuel).2 lo hi K cm spine pending hK hp).1

/-- the characterisation of Copy vs Move: the load preceding `hA … none` is a `copy` iff
`reloads` -/
theorem isLastLoad_hA (c : HCtx) (fuel lo hi K cm : Nat) (spine : Bool) (hK : K ≤ 1)
    (ops : List HOp) (h : hA c fuel lo hi K cm spine none = some ops) :
    isLastLoad lo (lvl K) ops = !reloads c K cm (hi - lo - 1) :=
  (((struct_main c fuel).2 lo hi K cm spine none hK (Or.inl rfl)).2 ops h).2 rfl

end Ckpt
