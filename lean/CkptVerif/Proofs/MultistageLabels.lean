import CkptVerif.Proofs.MixedSteps
import CkptVerif.Proofs.MultistageE2E
import CkptVerif.Proofs.StepBridges
/-!
# C14: the Multistage stream and its storage labels

(a) `segWith_relabel`: relabelling the stack positions relabels the stream, nothing else changes;
`eraseSt` replaces RAM/DISK by a placeholder: the erased stream does not depend on the labelling
(`segWith_erase`), hence the erased `MultistageCheckpointSchedule` streams coincide for all valid
splits of the same total number of units (`multistage_erase`).

(b) `labelsOk alloc evs top`: replay of the checkpoint stack (a store-writing `Forward` pushes, a
`Move` pops, a `Copy` reads the top) checking that EVERY storage named by the stream is either `WORK`
(in a non-checkpoint role) or the label `alloc p` of the stack position `p` concerned.
`segWith_labelsOk`: every binomial segment passes, hence the Multistage stream
(`multistage_labelsOk`): one storage per stack position for the whole run.
-/
namespace Ckpt.GW

/-! ## (a) relabelling and erasure -/

/-- relabelling the stack positions by `g` relabels the stream (also on failing runs) -/
theorem segWith_relabel (g : Storage → Storage) (hg : g .work = .work) (N : Nat)
    (σ : Nat → Nat → Option Nat) (S : Nat) (alloc : Nat → Storage) (persist : Bool) :
    ∀ (fuel : Nat) (stored spine : Bool) (lo hi d : Nat),
      segWith N σ S (fun d => g (alloc d)) persist fuel stored spine lo hi d =
        (segWith N σ S alloc persist fuel stored spine lo hi d).map (List.map (relabel g)) := by
  intro fuel
  induction fuel with
  | zero => intro stored spine lo hi d; rfl
  | succ fuel ih =>
    intro stored spine lo hi d
    rw [segWith, segWith]
    by_cases hu : hi = lo + 1
    · simp only [hu, if_true, Option.map_some]
      cases stored <;> cases spine <;> by_cases hp : persist = true ∧ d = 0 <;>
        simp [relabel, relabelAct, hg, hp]
    · simp only [hu, if_false]
      cases σ (hi - lo) (S - d) with
      | none => rfl
      | some a =>
        simp only [ih]
        cases segWith N σ S alloc persist fuel false spine (lo + a) hi (d + 1) with
        | none => rfl
        | some right =>
          cases segWith N σ S alloc persist fuel true false lo (lo + a) d with
          | none => rfl
          | some left =>
            cases stored <;> simp [relabel, relabelAct, hg]

/-- RAM and DISK are replaced by a placeholder; `WORK` (and `NONE`) are kept -/
def eraseS : Storage → Storage
  | .ram => .none
  | .disk => .none
  | x => x

/-- erase the RAM/DISK labels of an event -/
def eraseSt (e : Ev) : Ev := relabel eraseS e

theorem eraseS_of_isStore {x : Storage} (h : x.isStore = true) : eraseS x = .none := by
  cases x <;> first | rfl | cases h

/-- the erased stream is the stream of the erased labelling -/
theorem segWith_eraseSt (N : Nat) (σ : Nat → Nat → Option Nat) (S : Nat) (alloc : Nat → Storage)
    (persist : Bool) (fuel : Nat) (stored spine : Bool) (lo hi d : Nat) :
    (segWith N σ S alloc persist fuel stored spine lo hi d).map (List.map eraseSt) =
      segWith N σ S (fun d => eraseS (alloc d)) persist fuel stored spine lo hi d :=
  (segWith_relabel eraseS rfl N σ S alloc persist fuel stored spine lo hi d).symm

/-- **the erased stream does not depend on the labelling**: for any two labellings that agree after
erasure — in particular any two labellings by RAM/DISK -/
theorem segWith_erase (N : Nat) (σ : Nat → Nat → Option Nat) (S : Nat) (alloc alloc' : Nat → Storage)
    (persist : Bool) (fuel : Nat) (stored spine : Bool) (lo hi d : Nat)
    (h : ∀ i, eraseS (alloc i) = eraseS (alloc' i)) :
    (segWith N σ S alloc persist fuel stored spine lo hi d).map (List.map eraseSt) =
      (segWith N σ S alloc' persist fuel stored spine lo hi d).map (List.map eraseSt) := by
  rw [segWith_eraseSt, segWith_eraseSt]
  have : (fun d => eraseS (alloc d)) = (fun d => eraseS (alloc' d)) := funext h
  rw [this]

theorem segWith_erase_isStore (N : Nat) (σ : Nat → Nat → Option Nat) (S : Nat)
    (alloc alloc' : Nat → Storage) (persist : Bool) (fuel : Nat) (stored spine : Bool) (lo hi d : Nat)
    (h : ∀ i, (alloc i).isStore = true) (h' : ∀ i, (alloc' i).isStore = true) :
    (segWith N σ S alloc persist fuel stored spine lo hi d).map (List.map eraseSt) =
      (segWith N σ S alloc' persist fuel stored spine lo hi d).map (List.map eraseSt) :=
  segWith_erase N σ S alloc alloc' persist fuel stored spine lo hi d
    (fun i => by rw [eraseS_of_isStore (h i), eraseS_of_isStore (h' i)])

theorem multistageSeg_erase (N S : Nat) (alloc alloc' : Nat → Storage) (traj : Traj)
    (h : ∀ i, eraseS (alloc i) = eraseS (alloc' i)) :
    (multistageSeg N S alloc traj).map (List.map eraseSt) =
      (multistageSeg N S alloc' traj).map (List.map eraseSt) := by
  have := segWith_erase N (fun m k => nAdvance m k traj) S alloc alloc' false N false true 0 N 0 h
  unfold multistageSeg
  cases h1 : segWith N (fun m k => nAdvance m k traj) S alloc false N false true 0 N 0 <;>
    cases h2 : segWith N (fun m k => nAdvance m k traj) S alloc' false N false true 0 N 0 <;>
    rw [h1, h2] at this <;> simp at this ⊢
  exact this

/-- the labelling computed by `__init__`, padded with `NONE`, erases to the constant placeholder -/
theorem eraseS_getD (storage : List Storage) (h : ∀ x ∈ storage, x.isStore = true) (i : Nat) :
    eraseS (storage.getD i .none) = .none := by
  by_cases hi : i < storage.length
  · have e : storage.getD i .none = storage[i] := by simp [List.getD, hi]
    rw [e]; exact eraseS_of_isStore (h _ (List.getElem_mem hi))
  · have e : storage.getD i .none = .none := by simp [List.getD, Nat.le_of_not_lt hi]
    rw [e]; rfl

/-- **C14 (a)**: for valid parameters with the same total number of units the Multistage streams
coincide except for the storage named in the checkpoint actions -/
theorem multistage_erase (N ram disk ram' disk' : Nat) (traj : Traj)
    (hv : validMultistage N ram disk = true) (hv' : validMultistage N ram' disk' = true)
    (hsum : ram + disk = ram' + disk') (evs evs' : List Ev)
    (h : multistageEvs N ram disk traj = .ok evs) (h' : multistageEvs N ram' disk' traj = .ok evs') :
    evs.map eraseSt = evs'.map eraseSt := by
  simp only [validMultistage, Bool.and_eq_true, Bool.or_eq_true, decide_eq_true_eq] at hv hv'
  obtain ⟨storage, _, hst, _, hseg⟩ := multistageEvs_ok N ram disk traj hv.1 evs h
  obtain ⟨storage', _, hst', _, hseg'⟩ := multistageEvs_ok N ram' disk' traj hv'.1 evs' h'
  rw [← hsum] at hseg'
  have := multistageSeg_erase N (min (ram + disk) (N - 1)) (fun d => storage.getD d .none)
    (fun d => storage'.getD d .none) traj
    (fun i => by rw [eraseS_getD storage hst, eraseS_getD storage' hst'])
  rw [hseg, hseg'] at this
  exact Option.some.inj this

/-- valid parameters do produce a stream -/
theorem multistageEvs_isOk (N ram disk : Nat) (traj : Traj) (hv : validMultistage N ram disk = true) :
    ∃ evs, multistageEvs N ram disk traj = .ok evs := by
  obtain ⟨_, evs, _, h, _⟩ := multistage_monitor_clean N ram disk traj hv
  exact ⟨evs, h⟩

/-- the erased streams differ by nothing: same length, same forward steps, … -/
theorem eraseSt_fwd (e : Ev) : evFwd (eraseSt e) = evFwd e := by
  obtain ⟨a, n, r⟩ := e
  cases a <;> rfl

example : (multistageEvs 6 2 1 .revolve).toOption.map (List.map eraseSt) =
    (multistageEvs 6 0 3 .revolve).toOption.map (List.map eraseSt) := by decide

example : multistageEvs 6 2 1 .revolve ≠ multistageEvs 6 0 3 .revolve := by decide

/-! ## (b) one storage per stack position -/

/-- Replay of the checkpoint stack; `top` = number of stack positions in use.  `none`: some event
names a storage that is not the label of the stack position it acts on. -/
def labelsOk (alloc : Nat → Storage) : List Ev → (top : Nat) → Option Nat
  | [], top => some top
  | e :: es, top =>
    match e.act with
    | .forward _ _ true _ st =>
      -- a checkpoint is written to the first free position
      if st = alloc top then labelsOk alloc es (top + 1) else none
    | .forward _ _ false _ st =>
      if st = .work then labelsOk alloc es top else none
    | .copy _ src dst =>
      if 1 ≤ top ∧ src = alloc (top - 1) ∧ dst = .work then labelsOk alloc es top else none
    | .move _ src dst =>
      if 1 ≤ top ∧ src = alloc (top - 1) ∧ dst = .work then labelsOk alloc es (top - 1) else none
    | _ => labelsOk alloc es top

theorem labelsOk_append (alloc : Nat → Storage) : ∀ (a b : List Ev) (top : Nat),
    labelsOk alloc (a ++ b) top = (labelsOk alloc a top).bind (labelsOk alloc b) := by
  intro a
  induction a with
  | nil => intro b top; rfl
  | cons e es ih =>
    intro b top
    simp only [List.cons_append, labelsOk]
    split <;> (try split) <;> first | rfl | exact ih _ _

/-- the stack position an event acts on when `top` positions are in use -/
def evPos (e : Ev) (top : Nat) : Option Nat :=
  match e.act with
  | .forward _ _ true _ _ => some top
  | .copy _ _ _ => some (top - 1)
  | .move _ _ _ => some (top - 1)
  | _ => none

/-- what one accepted event says about the storages it names -/
theorem labelsOk_head (alloc : Nat → Storage) (e : Ev) (es : List Ev) (top t' : Nat)
    (h : labelsOk alloc (e :: es) top = some t') (st : Storage) (ht : touches st e.act = true) :
    st = .work ∨ ∃ p, evPos e top = some p ∧ st = alloc p := by
  obtain ⟨a, n, r⟩ := e
  cases a with
  | forward n0 n1 wi wa s =>
    cases wi with
    | true =>
      simp only [labelsOk] at h
      split at h
      · rename_i hs
        simp only [touches, decide_eq_true_eq] at ht
        exact .inr ⟨top, rfl, by rw [← ht, hs]⟩
      · cases h
    | false =>
      simp only [labelsOk] at h
      split at h
      · rename_i hs
        simp only [touches, decide_eq_true_eq] at ht
        exact .inl (by rw [← ht, hs])
      · cases h
  | copy n0 src dst =>
    simp only [labelsOk] at h
    split at h
    · rename_i hs
      simp only [touches, Bool.or_eq_true, decide_eq_true_eq] at ht
      rcases ht with ht | ht
      · exact .inr ⟨top - 1, rfl, by rw [← ht, hs.2.1]⟩
      · exact .inl (by rw [← ht, hs.2.2])
    · cases h
  | move n0 src dst =>
    simp only [labelsOk] at h
    split at h
    · rename_i hs
      simp only [touches, Bool.or_eq_true, decide_eq_true_eq] at ht
      rcases ht with ht | ht
      · exact .inr ⟨top - 1, rfl, by rw [← ht, hs.2.1]⟩
      · exact .inl (by rw [← ht, hs.2.2])
    · cases h
  | reverse _ _ _ => simp [touches] at ht
  | endForward => simp [touches] at ht
  | endReverse => simp [touches] at ht

/-- **Reading of `labelsOk`**: at every point of an accepted stream, the stack height `top` after
the prefix is defined, and every storage the next event names is `WORK` or the label of the stack
position the event acts on (`top` for a checkpoint write, `top - 1` for a `Copy`/`Move`). -/
theorem labelsOk_touches (alloc : Nat → Storage) (evs : List Ev) (t t' : Nat)
    (h : labelsOk alloc evs t = some t') (pre : List Ev) (e : Ev) (post : List Ev)
    (hsplit : evs = pre ++ e :: post) :
    ∃ top, labelsOk alloc pre t = some top ∧
      ∀ st, touches st e.act = true → st = .work ∨ ∃ p, evPos e top = some p ∧ st = alloc p := by
  subst hsplit
  rw [labelsOk_append] at h
  cases hp : labelsOk alloc pre t with
  | none => rw [hp] at h; cases h
  | some top =>
    rw [hp] at h
    exact ⟨top, rfl, fun st ht => labelsOk_head alloc e post top t' h st ht⟩

/-- **Every binomial segment names, at every stack position, the label of that position.**
Entered with `d` positions in use (`d + 1` if the checkpoint for `lo` is stored), left with `d`
(`1` if the bottom position is persistent).  No hypothesis on the split function. -/
theorem segWith_labelsOk (N : Nat) (σ : Nat → Nat → Option Nat) (S : Nat) (alloc : Nat → Storage)
    (persist : Bool) :
    ∀ (fuel : Nat) (stored spine : Bool) (lo hi d : Nat) (evs : List Ev),
      segWith N σ S alloc persist fuel stored spine lo hi d = some evs →
      (persist = true → d = 0 → stored = true) →
      labelsOk alloc evs (d + if stored then 1 else 0) = some (if persist = true ∧ d = 0 then 1 else d) := by
  intro fuel
  induction fuel with
  | zero => intro _ _ _ _ _ evs h; simp [segWith] at h
  | succ fuel ih =>
    intro stored spine lo hi d evs h hpers
    unfold segWith at h
    by_cases hu : hi = lo + 1
    · simp only [hu, if_true, Option.some.injEq] at h
      subst h
      by_cases hp : persist = true ∧ d = 0
      · have hs := hpers hp.1 hp.2
        subst hs
        obtain ⟨hp1, hp2⟩ := hp
        subst hp1 hp2
        cases spine <;> simp [labelsOk]
      · cases stored <;> cases spine <;> simp [labelsOk, hp]
    · simp only [hu, if_false] at h
      cases hσ : σ (hi - lo) (S - d) with
      | none => rw [hσ] at h; cases h
      | some a =>
        rw [hσ] at h
        simp only at h
        cases hr : segWith N σ S alloc persist fuel false spine (lo + a) hi (d + 1) with
        | none => rw [hr] at h; cases h
        | some right =>
          rw [hr] at h
          simp only at h
          cases hl : segWith N σ S alloc persist fuel true false lo (lo + a) d with
          | none => rw [hl] at h; cases h
          | some left =>
            rw [hl] at h
            simp only [Option.some.injEq] at h
            subst h
            have R := ih false spine (lo + a) hi (d + 1) right hr (by intro _ h0; omega)
            have L := ih true false lo (lo + a) d left hl (by intro _ _; rfl)
            simp only [Bool.false_eq_true, if_false, Nat.add_zero, if_true] at R L
            have hR' : labelsOk alloc right (d + 1) = some (d + 1) := by
              rw [R, if_neg (by omega)]
            rw [labelsOk_append, labelsOk_append]
            have hfirst : labelsOk alloc (if stored = true
                then [(⟨Action.copy lo (alloc d) .work, lo, N - hi⟩ : Ev),
                  ⟨Action.forward lo (lo + a) false false .work, lo + a, N - hi⟩]
                else [⟨Action.forward lo (lo + a) true false (alloc d), lo + a, N - hi⟩])
                (d + if stored = true then 1 else 0) = some (d + 1) := by
              cases stored <;> simp [labelsOk]
            rw [hfirst, Option.bind_some, hR', Option.bind_some, L]

/-- **C14 (b)** for the stream of `multistageSeg`: started with an empty stack, every checkpoint
action names the label of its stack position, and the stack is empty at the end -/
theorem multistageSeg_labelsOk (N S : Nat) (alloc : Nat → Storage) (traj : Traj) (evs : List Ev)
    (h : multistageSeg N S alloc traj = some evs) : labelsOk alloc evs 0 = some 0 := by
  unfold multistageSeg at h
  cases hseg : segWith N (fun m k => nAdvance m k traj) S alloc false N false true 0 N 0 with
  | none => rw [hseg] at h; cases h
  | some body =>
    rw [hseg] at h
    have h' := Option.some.inj h
    subst h'
    have := segWith_labelsOk N _ S alloc false N false true 0 N 0 body hseg (by intro h0; cases h0)
    simp only [Bool.false_eq_true, if_false, Nat.add_zero, false_and] at this
    rw [labelsOk_append, this]
    rfl

/-- **C14 (b)** at the level of the class: the stream of `MultistageCheckpointSchedule(N, ram, disk)`
uses the `storage` tuple computed by `__init__` as a fixed labelling of the stack positions -/
theorem multistage_labelsOk (N ram disk : Nat) (traj : Traj) (hv : validMultistage N ram disk = true)
    (evs : List Ev) (h : multistageEvs N ram disk traj = .ok evs) :
    ∃ storage, multistageStorage N ram disk traj = some storage ∧
      storage.length = min (ram + disk) (N - 1) ∧ (∀ x ∈ storage, x.isStore = true) ∧
      storage.count .ram ≤ ram ∧ storage.count .disk ≤ disk ∧
      labelsOk (fun d => storage.getD d .none) evs 0 = some 0 := by
  simp only [validMultistage, Bool.and_eq_true, Bool.or_eq_true, decide_eq_true_eq] at hv
  obtain ⟨storage, hsto, hst, hlen, hseg⟩ := multistageEvs_ok N ram disk traj hv.1 evs h
  obtain ⟨storage', hsto', _, hr, hd, _⟩ := multistageStorage_spec N ram disk traj hv.1
  rw [hsto] at hsto'
  have := Option.some.inj hsto'
  subst this
  exact ⟨storage, hsto, hlen, hst, hr, hd, multistageSeg_labelsOk N _ _ traj evs hseg⟩

/-- the same for a period block of `TwoLevelCheckpointSchedule`: position 0 is the periodic DISK
checkpoint (kept: the block is entered and left with one position in use), positions `≥ 1` carry `st` -/
theorem twoLevel_block_labelsOk (N b : Nat) (st : Storage) (traj : Traj) (fuel lo hi : Nat)
    (seg : List Ev)
    (h : segWith N (fun m k => nAdvance m k traj) (b + 1) (fun d => if d = 0 then .disk else st) true
      fuel true false lo hi 0 = some seg) :
    labelsOk (fun d => if d = 0 then .disk else st) seg 1 = some 1 := by
  have := segWith_labelsOk N _ (b + 1) _ true fuel true false lo hi 0 seg h (fun _ _ => rfl)
  simpa using this

/-- the heights of `labelsOk` are those of the dry run of `allocate_snapshots` -/
theorem labelsOk_dryRun (alloc : Nat → Storage) (S : Nat) : ∀ (evs : List Ev) (t t' t'' : Nat)
    (w w' : List Nat), labelsOk alloc evs t = some t' → dryRun S evs t w = some (t'', w') → t' = t'' := by
  intro evs
  induction evs with
  | nil =>
    intro t t' t'' w w' h1 h2
    simp only [labelsOk, Option.some.injEq] at h1
    simp only [dryRun, Option.some.injEq, Prod.mk.injEq] at h2
    omega
  | cons e es ih =>
    intro t t' t'' w w' h1 h2
    obtain ⟨a, n, r⟩ := e
    cases a with
    | forward n0 n1 wi wa s =>
      cases wi with
      | true =>
        simp only [labelsOk] at h1
        simp only [dryRun] at h2
        split at h1
        · split at h2
          · cases h2
          · exact ih _ _ _ _ _ h1 h2
        · cases h1
      | false =>
        simp only [labelsOk] at h1
        simp only [dryRun] at h2
        split at h1
        · exact ih _ _ _ _ _ h1 h2
        · cases h1
    | copy n0 src dst =>
      simp only [labelsOk] at h1
      simp only [dryRun] at h2
      split at h1
      · split at h2
        · cases h2
        · exact ih _ _ _ _ _ h1 h2
      · cases h1
    | move n0 src dst =>
      simp only [labelsOk] at h1
      simp only [dryRun] at h2
      split at h1
      · rename_i hs
        split at h2
        · cases h2
        · rw [if_pos hs.2.2] at h2
          exact ih _ _ _ _ _ h1 h2
      · cases h1
    | reverse _ _ _ => exact ih _ _ _ _ _ h1 h2
    | endForward => exact ih _ _ _ _ _ h1 h2
    | endReverse => exact ih _ _ _ _ _ h1 h2

/-- a concrete run: 6 steps, 2 RAM + 1 disk unit; the labelling computed by `__init__` -/
example : multistageStorage 6 2 1 .revolve = some [.disk, .ram, .ram] := by decide

example : (multistageEvs 6 2 1 .revolve).toOption.bind
    (fun evs => labelsOk (fun d => [Storage.disk, .ram, .ram].getD d .none) evs 0) = some 0 := by decide

/-- the checker is not vacuous: with another labelling the same stream is rejected -/
example : (multistageEvs 6 2 1 .revolve).toOption.bind
    (fun evs => labelsOk (fun d => [Storage.ram, .disk, .ram].getD d .none) evs 0) = none := by decide

end Ckpt.GW
