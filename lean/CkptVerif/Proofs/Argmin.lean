import CkptVerif.Model.Revolve
import Mathlib.Tactic
/-! `argminO`: 1 + the index of the LAST minimal element of a list of extended naturals. -/
namespace Ckpt
set_option linter.unnecessarySeqFocus false

/-! ### order facts on extended naturals -/

theorem ole_refl (a : Option Nat) : ole a a = true := by
  cases a <;> simp [ole, olt]

theorem olt_irrefl (a : Option Nat) : olt a a = false := by
  cases a <;> simp [olt]

theorem ole_trans {a b c : Option Nat} (h1 : ole a b = true) (h2 : ole b c = true) :
    ole a c = true := by
  cases a <;> cases b <;> cases c <;> simp [ole, olt] at * <;> omega

theorem ole_antisymm {a b : Option Nat} (h1 : ole a b = true) (h2 : ole b a = true) : a = b := by
  cases a <;> cases b <;> simp [ole, olt] at * <;> omega

theorem ole_total (a b : Option Nat) : ole a b = true ∨ ole b a = true := by
  cases a <;> cases b <;> simp [ole, olt] <;> omega

theorem olt_of_not_ole {a b : Option Nat} (h : ole a b = false) : olt b a = true := by
  simpa [ole] using h

theorem ole_of_olt {a b : Option Nat} (h : olt a b = true) : ole a b = true := by
  cases a <;> cases b <;> simp [ole, olt] at * <;> omega

theorem olt_of_ole_of_olt {a b c : Option Nat} (h1 : ole a b = true) (h2 : olt b c = true) :
    olt a c = true := by
  cases a <;> cases b <;> cases c <;> simp [ole, olt] at * <;> omega

theorem olt_iff_not_ole (a b : Option Nat) : olt a b = true ↔ ole b a = false := by
  simp [ole]

theorem olt_some_some (a b : Nat) : olt (some a) (some b) = true ↔ a < b := by simp [olt]
theorem ole_some_some (a b : Nat) : ole (some a) (some b) = true ↔ a ≤ b := by simp [ole, olt]

theorem omin_some_some (a b : Nat) : omin (some a) (some b) = some (min a b) := by
  simp only [omin, olt]
  by_cases h : b < a
  · simp [h, Nat.min_eq_right (Nat.le_of_lt h)]
  · simp [h, Nat.min_eq_left (Nat.le_of_not_lt h)]

/-- the comparison step of the Python loop computes `omin` on the value component -/
theorem step_val (v y : Option Nat) : (if ole y v = true then y else v) = omin v y := by
  unfold omin
  by_cases h : ole y v = true
  · rw [if_pos h]
    by_cases h2 : olt y v = true
    · rw [if_pos h2]
    · rw [if_neg h2]
      have : ole v y = true := by simpa [ole] using h2
      exact ole_antisymm h this
  · rw [if_neg h]
    have h' : ole y v = false := by simpa using h
    have h3 := olt_of_not_ole h'
    have : olt y v = false := by
      cases y <;> cases v <;> simp [olt] at * <;> omega
    simp [this]

/-! ### the loop -/

/-- the loop body of `argmin` (basic_functions.py) -/
def argStep (acc : Nat × Option Nat) (p : Option Nat × Nat) : Nat × Option Nat :=
  if ole p.1 acc.2 then (p.2, p.1) else acc

theorem argminO_cons (x : Option Nat) (xs : List (Option Nat)) :
    argminO (x :: xs) = 1 + ((xs.zipIdx 1).foldl argStep (0, x)).1 := by
  simp only [argminO, List.zipIdx_cons, List.foldl_cons, ole_refl, if_true, Nat.zero_add]
  rfl

theorem foldl_omin_le_init (xs : List (Option Nat)) (v : Option Nat) :
    ole (xs.foldl omin v) v = true := by
  induction xs generalizing v with
  | nil => exact ole_refl v
  | cons y ys ih =>
    simp only [List.foldl_cons]
    refine ole_trans (ih _) ?_
    rw [← step_val]
    by_cases h : ole y v = true
    · rw [if_pos h]; exact h
    · rw [if_neg h]; exact ole_refl v

/-- Loop invariant, stated for the loop started in state `(i, v)` on the suffix `xs` whose first
element has index `k`. -/
theorem argLoop_spec (xs : List (Option Nat)) (k i : Nat) (v : Option Nat) :
    let r := (xs.zipIdx k).foldl argStep (i, v)
    let m := xs.foldl omin v
    r.2 = m ∧ (∀ x ∈ xs, ole m x = true) ∧
    ((r.1 = i ∧ m = v ∧ ∀ x ∈ xs, olt v x = true) ∨
     (k ≤ r.1 ∧ r.1 < k + xs.length ∧ xs[r.1 - k]? = some m ∧
        ∀ j y, r.1 - k < j → xs[j]? = some y → olt m y = true)) := by
  induction xs generalizing k i v with
  | nil => simp
  | cons y ys ih =>
    simp only [List.zipIdx_cons, List.foldl_cons, List.length_cons]
    by_cases h : ole y v = true
    · have hs : argStep (i, v) (y, k) = (k, y) := by simp [argStep, h]
      have hm : omin v y = y := by rw [← step_val, if_pos h]
      rw [hs, hm]
      obtain ⟨h1, h2, h3⟩ := ih (k + 1) k y
      refine ⟨h1, ?_, Or.inr ?_⟩
      · intro x hx
        rcases List.mem_cons.1 hx with rfl | hx
        · exact foldl_omin_le_init ys x
        · exact h2 x hx
      · rcases h3 with ⟨e1, e2, e3⟩ | ⟨e1, e2, e3, e4⟩
        · rw [e1, e2]
          refine ⟨le_refl _, by omega, by simp, ?_⟩
          intro j z hj hz
          obtain ⟨j', rfl⟩ : ∃ j', j = j' + 1 := ⟨j - 1, by omega⟩
          rw [List.getElem?_cons_succ] at hz
          exact e3 z (List.mem_of_getElem? hz)
        · refine ⟨by omega, by omega, ?_, ?_⟩
          · have : ((ys.zipIdx (k + 1)).foldl argStep (k, y)).1 - k
                = (((ys.zipIdx (k + 1)).foldl argStep (k, y)).1 - (k + 1)) + 1 := by omega
            rw [this, List.getElem?_cons_succ]; exact e3
          · intro j z hj hz
            obtain ⟨j', rfl⟩ : ∃ j', j = j' + 1 := ⟨j - 1, by omega⟩
            rw [List.getElem?_cons_succ] at hz
            exact e4 j' z (by omega) hz
    · have hs : argStep (i, v) (y, k) = (i, v) := by simp [argStep, h]
      have hm : omin v y = v := by rw [← step_val, if_neg h]
      have hlt : olt v y = true := olt_of_not_ole (by simpa using h)
      rw [hs, hm]
      obtain ⟨h1, h2, h3⟩ := ih (k + 1) i v
      refine ⟨h1, ?_, ?_⟩
      · intro x hx
        rcases List.mem_cons.1 hx with rfl | hx
        · exact ole_trans (foldl_omin_le_init ys v) (ole_of_olt hlt)
        · exact h2 x hx
      · rcases h3 with ⟨e1, e2, e3⟩ | ⟨e1, e2, e3, e4⟩
        · refine Or.inl ⟨e1, e2, ?_⟩
          intro x hx
          rcases List.mem_cons.1 hx with rfl | hx
          · exact hlt
          · exact e3 x hx
        · refine Or.inr ⟨by omega, by omega, ?_, ?_⟩
          · have : ((ys.zipIdx (k + 1)).foldl argStep (i, v)).1 - k
                = (((ys.zipIdx (k + 1)).foldl argStep (i, v)).1 - (k + 1)) + 1 := by omega
            rw [this, List.getElem?_cons_succ]; exact e3
          · intro j z hj hz
            obtain ⟨j', rfl⟩ : ∃ j', j = j' + 1 := ⟨j - 1, by omega⟩
            rw [List.getElem?_cons_succ] at hz
            exact e4 j' z (by omega) hz

/-! ### (a), (b): the specification of `argminO` -/

/-- all facts at once -/
theorem argminO_spec (l : List (Option Nat)) (hl : l ≠ []) :
    (1 ≤ argminO l ∧ argminO l ≤ l.length) ∧
    l[argminO l - 1]? = some (ominList l) ∧
    (∀ x ∈ l, ole (ominList l) x = true) ∧
    (∀ i y, argminO l - 1 < i → l[i]? = some y → olt (ominList l) y = true) := by
  obtain ⟨x, xs, rfl⟩ := List.exists_cons_of_ne_nil hl
  rw [argminO_cons]
  simp only [ominList, List.length_cons]
  obtain ⟨_, h2, h3⟩ := argLoop_spec xs 1 0 x
  have hall : ∀ z ∈ x :: xs, ole (xs.foldl omin x) z = true := by
    intro z hz
    rcases List.mem_cons.1 hz with rfl | hz
    · exact foldl_omin_le_init xs z
    · exact h2 z hz
  rcases h3 with ⟨e1, e2, e3⟩ | ⟨e1, e2, e3, e4⟩
  · rw [e1]
    refine ⟨by omega, by simp [e2], hall, ?_⟩
    intro i y hi hy
    obtain ⟨i', rfl⟩ : ∃ i', i = i' + 1 := ⟨i - 1, by omega⟩
    rw [List.getElem?_cons_succ] at hy
    rw [e2]
    exact e3 y (List.mem_of_getElem? hy)
  · refine ⟨by omega, ?_, hall, ?_⟩
    · have : 1 + ((xs.zipIdx 1).foldl argStep (0, x)).1 - 1
          = (((xs.zipIdx 1).foldl argStep (0, x)).1 - 1) + 1 := by omega
      rw [this, List.getElem?_cons_succ]; exact e3
    · intro i y hi hy
      obtain ⟨i', rfl⟩ : ∃ i', i = i' + 1 := ⟨i - 1, by omega⟩
      rw [List.getElem?_cons_succ] at hy
      exact e4 i' y (by omega) hy

/-- (a) the returned (1-based) position is in range -/
theorem argminO_range (l : List (Option Nat)) (hl : l ≠ []) :
    1 ≤ argminO l ∧ argminO l ≤ l.length := (argminO_spec l hl).1

/-- (b1) the element at the returned position is the minimum -/
theorem argminO_get (l : List (Option Nat)) (hl : l ≠ []) :
    l[argminO l - 1]? = some (ominList l) := (argminO_spec l hl).2.1

/-- (b2) `ominList l` is a lower bound -/
theorem ominList_le (l : List (Option Nat)) : ∀ x ∈ l, ole (ominList l) x = true := by
  intro x hx
  have hl : l ≠ [] := List.ne_nil_of_mem hx
  exact (argminO_spec l hl).2.2.1 x hx

theorem ominList_mem (l : List (Option Nat)) (hl : l ≠ []) : ominList l ∈ l :=
  List.mem_of_getElem? (argminO_get l hl)

/-- (b3) the returned position is the LAST minimal one: everything after it is strictly larger -/
theorem argminO_last (l : List (Option Nat)) (hl : l ≠ []) (i : Nat) (h1 : argminO l - 1 < i)
    (h2 : i < l.length) : olt (ominList l) l[i] = true :=
  (argminO_spec l hl).2.2.2 i l[i] h1 (List.getElem?_eq_getElem h2)

theorem argminO_last_getD (l : List (Option Nat)) (hl : l ≠ []) (i : Nat) (h1 : argminO l - 1 < i)
    (h2 : i < l.length) : olt (ominList l) (l.getD i none) = true := by
  have := argminO_last l hl i h1 h2
  simpa [List.getD_eq_getElem?_getD, List.getElem?_eq_getElem h2] using this

/-- uniqueness: the three facts determine the position -/
theorem argminO_unique (l : List (Option Nat)) (hl : l ≠ []) (p : Nat)
    (hp : l[p]? = some (ominList l))
    (hlast : ∀ i y, p < i → l[i]? = some y → olt (ominList l) y = true) :
    argminO l = p + 1 := by
  obtain ⟨⟨a1, _⟩, a3, _, a5⟩ := argminO_spec l hl
  rcases Nat.lt_trichotomy (argminO l - 1) p with h | h | h
  · have := a5 p _ h hp
    rw [olt_irrefl] at this; cases this
  · omega
  · have := hlast _ _ h a3
    rw [olt_irrefl] at this; cases this

/-! ### (c) lists of finite values -/

theorem foldl_omin_map_some (l : List Nat) (v : Nat) :
    (l.map some).foldl omin (some v) = some (l.foldl min v) := by
  induction l generalizing v with
  | nil => rfl
  | cons y ys ih => simp only [List.map_cons, List.foldl_cons, omin_some_some, ih]

/-- Python `min(l)` as the model writes it -/
def minNat (l : List Nat) : Nat := l.foldl min (l.headD 0)

theorem ominList_map_some (l : List Nat) (hl : l ≠ []) :
    ominList (l.map some) = some (l.foldl min (l.headD 0)) := by
  obtain ⟨x, xs, rfl⟩ := List.exists_cons_of_ne_nil hl
  simp only [List.map_cons, ominList, foldl_omin_map_some, List.headD_cons, List.foldl_cons,
    Nat.min_self]

theorem argminO_map_some_range (l : List Nat) (hl : l ≠ []) :
    1 ≤ argminO (l.map some) ∧ argminO (l.map some) ≤ l.length := by
  have := argminO_range (l.map some) (by simpa using hl)
  simpa using this

theorem argminO_map_some_get (l : List Nat) (hl : l ≠ []) :
    l[argminO (l.map some) - 1]? = some (l.foldl min (l.headD 0)) := by
  have h := argminO_get (l.map some) (by simpa using hl)
  rw [ominList_map_some l hl, List.getElem?_map] at h
  cases h' : l[argminO (l.map some) - 1]? with
  | none => rw [h'] at h; cases h
  | some z => rw [h'] at h; simpa using h

theorem foldl_min_le (l : List Nat) : ∀ x ∈ l, l.foldl min (l.headD 0) ≤ x := by
  intro x hx
  have hl : l ≠ [] := List.ne_nil_of_mem hx
  have h := ominList_le (l.map some) (some x) (List.mem_map_of_mem hx)
  rwa [ominList_map_some l hl, ole_some_some] at h

theorem argminO_map_some_last (l : List Nat) (hl : l ≠ []) (i : Nat)
    (h1 : argminO (l.map some) - 1 < i) (h2 : i < l.length) :
    l.foldl min (l.headD 0) < l[i] := by
  have h := argminO_last (l.map some) (by simpa using hl) i h1 (by simpa using h2)
  rwa [ominList_map_some l hl, List.getElem_map, olt_some_some] at h

/-- (c) all facts for `l.map some`, in terms of `Nat` only -/
theorem argminO_map_some_spec (l : List Nat) (hl : l ≠ []) :
    let p := argminO (l.map some)
    let m := l.foldl min (l.headD 0)
    (1 ≤ p ∧ p ≤ l.length) ∧ l[p - 1]? = some m ∧ (∀ x ∈ l, m ≤ x) ∧
    (∀ i (h : i < l.length), p - 1 < i → m < l[i]) :=
  ⟨argminO_map_some_range l hl, argminO_map_some_get l hl, foldl_min_le l,
    fun i h h1 => argminO_map_some_last l hl i h1 h⟩

-- satisfiable, non-trivial: two minimal elements (value 2 at indices 1 and 3), last one wins
example : argminO [some 5, some 2, none, some 2, some 7] = 4 := by decide
example : ominList [some 5, some 2, none, some 2, some 7] = some 2 := by decide
example : ([some 5, some 2, none, some 2, some 7] : List (Option Nat)) ≠ [] := by simp
example : argminO ([5, 2, 9, 2, 7].map some) = 4 ∧ [5, 2, 9, 2, 7].foldl min 5 = 2 := by decide

end Ckpt
