import CkptVerif.Proofs.Machine
/-!
# The canonical trace of an offline single-adjoint schedule, and what the monitor does with it
-/
namespace Ckpt

/-! ## The decorated observation stream -/

/-- What a client observes along an offline schedule producing `evs` with `max_n = N`:
`max_n` is known throughout, `is_exhausted` becomes true exactly at the last event. -/
def obsOffline (N : Nat) (evs : List Ev) : List Obs :=
  evs.mapIdx (fun i e => ⟨e.act, e.n, e.r, some N, decide (i + 1 = evs.length), true⟩)

/-- recursive form of `obsOffline` -/
def obsRec (N : Nat) : List Ev → List Obs
  | [] => []
  | e :: rest => ⟨e.act, e.n, e.r, some N, decide (rest = []), true⟩ :: obsRec N rest

theorem obsRec_eq_mapIdx (N : Nat) (evs : List Ev) :
    obsRec N evs =
      evs.mapIdx (fun i e => ⟨e.act, e.n, e.r, some N, decide (i + 1 = evs.length), true⟩) := by
  induction evs with
  | nil => rfl
  | cons e rest ih =>
    rw [obsRec, List.mapIdx_cons, ih]
    congr 1
    · cases rest <;> simp
    · apply congrArg (fun f => List.mapIdx f rest)
      funext i e'
      simp

theorem obsOffline_eq_rec (N : Nat) (evs : List Ev) : obsOffline N evs = obsRec N evs :=
  (obsRec_eq_mapIdx N evs).symm

theorem obsRec_length (N : Nat) (evs : List Ev) : (obsRec N evs).length = evs.length := by
  induction evs with
  | nil => rfl
  | cons e rest ih => simp [obsRec, ih]

theorem obsRec_acts (N : Nat) (evs : List Ev) :
    (obsRec N evs).map (·.act) = evs.map (·.act) := by
  induction evs with
  | nil => rfl
  | cons e rest ih => simp [obsRec, ih]

/-! ## Explicit description of the canonical trace -/

/-- the `act` lines of the canonical trace, with a `uses` line after the first EndForward -/
def actLines (u : Line) (N : Nat) : List Ev → Bool → List Line
  | [], _ => []
  | e :: rest, usedEF =>
    [Line.act ⟨e.act, e.n, e.r, some N, decide (rest = []), true⟩] ++
      (if (decide (e.act = .endForward) && !usedEF) = true then [u] else []) ++
      actLines u N rest (usedEF || (decide (e.act = .endForward) && !usedEF))

theorem actLines_cons (u : Line) (N : Nat) (e : Ev) (rest : List Ev) (usedEF : Bool) :
    actLines u N (e :: rest) usedEF =
      [Line.act ⟨e.act, e.n, e.r, some N, decide (rest = []), true⟩] ++
      (if (decide (e.act = .endForward) && !usedEF) = true then [u] else []) ++
      actLines u N rest (usedEF || (decide (e.act = .endForward) && !usedEF)) := rfl

/-- the whole canonical trace of an offline schedule ending in `⟨EndReverse, nE, rE⟩` -/
def canonOffline (u : Line) (N : Nat) (evs : List Ev) (nE rE : Nat) : List Line :=
  [Line.init 0 0 (some N) false false, u] ++ actLines u N evs false ++
    [Line.stop nE rE (some N) true true, Line.stop nE rE (some N) true true,
     Line.stop nE rE (some N) true true, u]

/-- the events still to be produced by the generator in state `m` are `l` -/
def Pending (s : Sched) (N : Nat) (m : MSt) (l : List Ev) : Prop :=
  (m.phase = .fwd ∧ s.first N = .ok l) ∨ m.phase = .run l 0

theorem next_pending (s : Sched) (N : Nat) (m : MSt) (e : Ev) (rest : List Ev)
    (hN : m.maxN = some N) (hp : Pending s N m (e :: rest)) :
    s.next m = ({ m with started := true, n := e.n, r := e.r,
                         phase := (s.after N e rest 0).1, exhausted := (s.after N e rest 0).2 },
                .act ⟨e.act, e.n, e.r, some N, (s.after N e rest 0).2, true⟩) := by
  rcases hp with ⟨hp, hf⟩ | hp
  · exact next_fwd_cons s m N e rest hp hN hf
  · rw [next_run_cons s m e rest 0 hp, hN]; rfl

theorem after_single_last (s : Sched) (hs : s.passes = some 1) (N : Nat) (e : Ev)
    (rest : List Ev) (he : e.act = .endReverse) : s.after N e rest 0 = (.stopped, true) := by
  rw [after_eq]
  have : s.afterFin e 0 = true := by simp [Sched.afterFin, hs, afterDone, he]
  rw [this]; rfl

theorem after_single_more (s : Sched) (hs : s.passes = some 1) (N : Nat) (e e' : Ev)
    (rest : List Ev) (he : e.act ≠ .endReverse) :
    s.after N e (e' :: rest) 0 = (.run (e' :: rest) 0, false) := by
  rw [after_eq]
  have : s.afterFin e 0 = false := by simp [Sched.afterFin, hs, afterDone, he]
  rw [this]
  simp [afterDone, he]

/-- the canonical loop on a stopped generator: three StopIterations and a `uses` line -/
theorem canonLoop_stopped (s : Sched) (Nfin k fuel : Nat) (m : MSt) (seen : Nat) (usedEF : Bool)
    (hp : m.phase = .stopped) (hst : m.started = true) :
    s.canonLoop Nfin k (fuel + 1) m seen usedEF =
      [m.line .stop, m.line .stop, m.line .stop, s.usesLine] := by
  have hm : ({ m with started := true } : MSt) = m := by cases m; cases hst; rfl
  have h1 : s.next m = (m, .stop) := by rw [next_stopped s m hp, hm]
  rw [Sched.canonLoop]
  simp only [h1]

/-- one step of the canonical loop on an action that is not the last one -/
theorem canonLoop_act_more (s : Sched) (Nfin k f : Nat) (m : MSt) (seen : Nat) (usedEF : Bool)
    (e : Ev) (N : Nat) (ph : Phase) (he : e.act ≠ .endReverse)
    (hnext : s.next m = ((⟨e.n, e.r, some N, true, false, ph⟩ : MSt),
      .act ⟨e.act, e.n, e.r, some N, false, true⟩)) :
    s.canonLoop Nfin k (f + 1) m seen usedEF =
      [Line.act ⟨e.act, e.n, e.r, some N, false, true⟩] ++
      (if (decide (e.act = .endForward) && !usedEF) = true then [s.usesLine] else []) ++
      s.canonLoop Nfin k f (⟨e.n, e.r, some N, true, false, ph⟩ : MSt) seen
        (usedEF || (decide (e.act = .endForward) && !usedEF)) := by
  rw [Sched.canonLoop]
  simp only [hnext]
  simp [he]

/-- the step of the canonical loop on the final EndReverse -/
theorem canonLoop_act_last (s : Sched) (Nfin k f : Nat) (m : MSt) (seen : Nat) (usedEF : Bool)
    (nE rE : Nat) (N : Nat)
    (hnext : s.next m = ((⟨nE, rE, some N, true, true, .stopped⟩ : MSt),
      .act ⟨.endReverse, nE, rE, some N, true, true⟩)) :
    s.canonLoop Nfin k (f + 2) m seen usedEF =
      [Line.act ⟨.endReverse, nE, rE, some N, true, true⟩,
       Line.stop nE rE (some N) true true, Line.stop nE rE (some N) true true,
       Line.stop nE rE (some N) true true, s.usesLine] := by
  rw [Sched.canonLoop]
  simp only [hnext]
  simp
  rw [canonLoop_stopped s Nfin k f _ _ _ rfl rfl]
  rfl

theorem canonLoop_offline (s : Sched) (hs : s.passes = some 1) (N Nfin k nE rE : Nat) :
    ∀ (todo : List Ev) (fuel : Nat) (m : MSt) (seen : Nat) (usedEF : Bool),
      (∀ e ∈ todo, e.act ≠ .endReverse) → todo.length + 2 ≤ fuel → m.maxN = some N →
      Pending s N m (todo ++ [⟨.endReverse, nE, rE⟩]) →
      s.canonLoop Nfin k fuel m seen usedEF =
        actLines s.usesLine N (todo ++ [⟨.endReverse, nE, rE⟩]) usedEF ++
          [Line.stop nE rE (some N) true true, Line.stop nE rE (some N) true true,
           Line.stop nE rE (some N) true true, s.usesLine] := by
  intro todo
  induction todo with
  | nil =>
    intro fuel m seen usedEF _ hfuel hN hp
    obtain ⟨f, rfl⟩ : ∃ f, fuel = f + 2 := ⟨fuel - 2, by simp at hfuel; omega⟩
    have hnext := next_pending s N m _ [] hN hp
    rw [after_single_last s hs N _ [] rfl, hN] at hnext
    rw [canonLoop_act_last s Nfin k f m seen usedEF nE rE N hnext]
    simp [actLines]
  | cons e todo ih =>
    intro fuel m seen usedEF hne hfuel hN hp
    obtain ⟨f, rfl⟩ : ∃ f, fuel = f + 1 := ⟨fuel - 1, by simp at hfuel; omega⟩
    have he : e.act ≠ .endReverse := hne e (by simp)
    have hnext := next_pending s N m e (todo ++ [(⟨.endReverse, nE, rE⟩ : Ev)]) hN hp
    obtain ⟨e', rest', hl⟩ : ∃ e' rest', todo ++ [(⟨.endReverse, nE, rE⟩ : Ev)] = e' :: rest' := by
      cases todo with
      | nil => exact ⟨_, _, rfl⟩
      | cons a t => exact ⟨_, _, rfl⟩
    rw [hl, after_single_more s hs N e e' rest' he, hN] at hnext
    rw [canonLoop_act_more s Nfin k f m seen usedEF e N _ he hnext]
    rw [ih f _ seen _ (fun x hx => hne x (by simp [hx])) (by simp at hfuel ⊢; omega) rfl
      (.inr (by rw [hl]))]
    rw [show (e :: todo) ++ [(⟨.endReverse, nE, rE⟩ : Ev)] = e :: (todo ++ [⟨.endReverse, nE, rE⟩]) from rfl,
      actLines_cons, hl]
    simp

/-- **The canonical trace of an offline single-adjoint schedule**: init line, `uses` line, the
`act` lines in order (a `uses` line after the first EndForward), three `stop` lines, `uses` line.
Neither `Nfin` nor `k` matter. -/
theorem canon_offline (N Nfin k fuel : Nat) (pre : List Ev) (nE rE : Nat)
    (uses : Storage → Option Bool) (hpre : ∀ e ∈ pre, e.act ≠ .endReverse)
    (hfuel : (pre ++ [(⟨.endReverse, nE, rE⟩ : Ev)]).length + 1 ≤ fuel) :
    (offlineSched N (.ok (pre ++ [⟨.endReverse, nE, rE⟩])) uses).canon Nfin k fuel =
      canonOffline (offlineSched N (.ok (pre ++ [⟨.endReverse, nE, rE⟩])) uses).usesLine N
        (pre ++ [⟨.endReverse, nE, rE⟩]) nE rE := by
  simp only [Sched.canon, canonOffline]
  rw [canonLoop_offline _ rfl N Nfin k nE rE pre fuel _ 0 false hpre
    (by simp at hfuel ⊢; omega) rfl (.inl ⟨rfl, rfl⟩)]
  simp [MSt.line, Sched.init, offlineSched]

/-! ## The monitor on such a trace -/

theorem runFrom_fst (cfg : Cfg) (os : List Obs) : ∀ (i : Nat) (x : XS),
    (runFrom cfg i x os).1 = (os.map (·.act)).foldl (nextState cfg) x := by
  induction os with
  | nil => intro i x; rfl
  | cons o os ih => intro i x; simp only [runFrom, step, List.map_cons, List.foldl_cons]; exact ih _ _

/-- the monitor's fold over the `act`/`uses` lines is the executor's run over the observations -/
theorem foldl_monStep_actLines (cfg : Cfg) (a b c d : Option Bool) (N : Nat) :
    ∀ (evs : List Ev) (usedEF : Bool) (x : XS) (i : Nat) (V : List (Nat × Viol)),
      (actLines (.uses a b c d) N evs usedEF).foldl (monStep cfg) ⟨x, i, false, V⟩ =
        ⟨(runFrom cfg i x (obsRec N evs)).1, i + evs.length, false,
          V ++ (runFrom cfg i x (obsRec N evs)).2⟩ := by
  intro evs
  induction evs with
  | nil => intro usedEF x i V; simp [actLines, obsRec, runFrom]
  | cons e rest ih =>
    intro usedEF x i V
    rw [actLines_cons, List.foldl_append, List.foldl_append]
    have h1 : ∀ (m : MonSt) (l : List Line), (∀ y ∈ l, y = Line.uses a b c d) →
        l.foldl (monStep cfg) m = m := by
      intro m l hl
      induction l with
      | nil => rfl
      | cons y l ihl =>
        rw [List.foldl_cons, hl y (by simp)]
        exact ihl (fun z hz => hl z (by simp [hz]))
    rw [h1 _ (if (decide (e.act = .endForward) && !usedEF) = true then [Line.uses a b c d] else [])
      (by intro y hy; split at hy <;> simp at hy; exact hy)]
    simp only [List.foldl_cons, List.foldl_nil, monStep]
    rw [ih]
    simp only [obsRec, runFrom, List.length_cons]
    simp [chk, Nat.add_assoc, Nat.add_comm 1]

theorem nextState_endReverse_done (cfg : Cfg) (x : XS) :
    (nextState cfg x .endReverse).done = x.done + 1 := rfl

/-- after a stream ending in EndReverse, `done ≥ 1` -/
theorem run_done_pos (cfg : Cfg) (N : Nat) (pre : List Ev) (eE : Ev) (hE : eE.act = .endReverse)
    (i : Nat) (x : XS) : 1 ≤ (runFrom cfg i x (obsRec N (pre ++ [eE]))).1.done := by
  rw [runFrom_fst, obsRec_acts, List.map_append, List.foldl_append]
  simp only [List.map_cons, List.map_nil, List.foldl_cons, List.foldl_nil, hE]
  rw [nextState_endReverse_done]; omega

theorem foldl_uses_nil {α : Type} (f : List α → Line → List α) (ls : List Line)
    (h : ∀ l ∈ ls, f [] l = []) : ls.foldl f [] = [] := by
  induction ls with
  | nil => rfl
  | cons l ls ih =>
    rw [List.foldl_cons, h l (by simp)]
    exact ih (fun y hy => h y (by simp [hy]))

/-- the actions of the `act` lines of a trace -/
def lineActs (ls : List Line) : List Action :=
  ls.filterMap (fun l => match l with | .act o => some o.act | _ => none)

/-- one step of the fold of `c11Viols` -/
def c11Step (tr td : Bool) (acc : List (Nat × Viol)) : Line → List (Nat × Viol)
  | .uses a b c d =>
    acc ++ (chk (a.isSome && b.isSome && c.isSome && d.isSome) .C11 1 ++
            chk (!tr || a == some true) .C11 2 ++
            chk (!td || b == some true) .C11 3).map (fun v => (0, v))
  | _ => acc

theorem c11Viols_eq (ls : List Line) :
    c11Viols ls = ls.foldl (c11Step ((lineActs ls).any (touches .ram))
      ((lineActs ls).any (touches .disk))) [] := by
  unfold c11Viols lineActs
  simp only
  congr 1

/-- C11 holds as soon as every `uses` line of the trace answers correctly. -/
theorem c11Viols_nil (ls : List Line)
    (h : ∀ a b c d, Line.uses a b c d ∈ ls →
      a.isSome = true ∧ b.isSome = true ∧ c.isSome = true ∧ d.isSome = true ∧
      ((lineActs ls).any (touches .ram) = true → a = some true) ∧
      ((lineActs ls).any (touches .disk) = true → b = some true)) :
    c11Viols ls = [] := by
  rw [c11Viols_eq]
  generalize (lineActs ls).any (touches .ram) = tr at h ⊢
  generalize (lineActs ls).any (touches .disk) = td at h ⊢
  apply foldl_uses_nil
  intro l hl
  cases l with
  | uses a b c d =>
    obtain ⟨ha, hb, hc, hd, hr, hdk⟩ := h a b c d hl
    have e1 : chk (a.isSome && b.isSome && c.isSome && d.isSome) .C11 1 = [] := by
      rw [ha, hb, hc, hd]; rfl
    have e2 : chk (!tr || a == some true) .C11 2 = [] := by
      cases tr with
      | false => rfl
      | true => rw [hr rfl]; rfl
    have e3 : chk (!td || b == some true) .C11 3 = [] := by
      cases td with
      | false => rfl
      | true => rw [hdk rfl]; rfl
    simp only [c11Step, e1, e2, e3, List.append_nil, List.map_nil]
  | _ => rfl

theorem mem_actLines (u : Line) (N : Nat) (l : Line) : ∀ (evs : List Ev) (usedEF : Bool),
    l ∈ actLines u N evs usedEF → l = u ∨ ∃ e ∈ evs, ∃ exh, l = .act ⟨e.act, e.n, e.r, some N, exh, true⟩ := by
  intro evs
  induction evs with
  | nil => intro usedEF h; simp [actLines] at h
  | cons e rest ih =>
    intro usedEF h
    rw [actLines_cons, List.mem_append, List.mem_append] at h
    rcases h with (h | h) | h
    · simp at h; exact .inr ⟨e, by simp, _, h⟩
    · split at h <;> simp at h; exact .inl h
    · rcases ih _ h with h | ⟨e', he', exh, h⟩
      · exact .inl h
      · exact .inr ⟨e', by simp [he'], exh, h⟩

theorem lineActs_canonOffline (a b c d : Option Bool) (N : Nat) (evs : List Ev) (nE rE : Nat)
    (x : Action) (hx : x ∈ lineActs (canonOffline (.uses a b c d) N evs nE rE)) :
    ∃ e ∈ evs, x = e.act := by
  unfold lineActs at hx
  rw [List.mem_filterMap] at hx
  obtain ⟨l, hl, hlx⟩ := hx
  unfold canonOffline at hl
  simp only [List.mem_append, List.mem_cons, List.not_mem_nil, or_false] at hl
  rcases hl with ((rfl | rfl) | hl) | (rfl | rfl | rfl | rfl)
  · cases hlx
  · cases hlx
  · rcases mem_actLines _ N l evs false hl with rfl | ⟨e, he, exh, rfl⟩
    · cases hlx
    · simp at hlx; exact ⟨e, he, hlx.symm⟩
  · cases hlx
  · cases hlx
  · cases hlx
  · cases hlx

theorem uses_mem_canonOffline (a b c d a' b' c' d' : Option Bool) (N : Nat) (evs : List Ev)
    (nE rE : Nat) (h : Line.uses a' b' c' d' ∈ canonOffline (.uses a b c d) N evs nE rE) :
    a' = a ∧ b' = b ∧ c' = c ∧ d' = d := by
  unfold canonOffline at h
  simp only [List.mem_append, List.mem_cons, List.not_mem_nil, or_false] at h
  have key : Line.uses a' b' c' d' = Line.uses a b c d → a' = a ∧ b' = b ∧ c' = c ∧ d' = d := by
    intro h; cases h; exact ⟨rfl, rfl, rfl, rfl⟩
  rcases h with ((h | h) | h) | (h | h | h | h)
  · cases h
  · exact key h
  · rcases mem_actLines _ N _ evs false h with h | ⟨e, _, exh, h⟩
    · exact key h
    · cases h
  · cases h
  · cases h
  · cases h
  · exact key h

theorem finished_of_done (cfg : Cfg) (hpass : cfg.passes = some 1) (x : XS) (h : 1 ≤ x.done) :
    finished cfg x = true := by
  unfold finished; rw [hpass]; simp only; exact decide_eq_true h

/-- the monitor's state after the whole canonical trace -/
theorem foldl_monStep_canonOffline (cfg : Cfg) (N : Nat) (a b c d : Option Bool) (pre : List Ev)
    (nE rE : Nat) (hN : cfg.N = N) (hon : cfg.online = false) (hpass : cfg.passes = some 1) :
    (canonOffline (.uses a b c d) N (pre ++ [⟨.endReverse, nE, rE⟩]) nE rE).foldl (monStep cfg)
        { x := XS.init cfg, idx := 0, stopped := false, viols := [] } =
      ⟨(run cfg (obsOffline N (pre ++ [⟨.endReverse, nE, rE⟩]))).1, pre.length + 1, true,
        (run cfg (obsOffline N (pre ++ [⟨.endReverse, nE, rE⟩]))).2⟩ := by
  have hfin : finished cfg (run cfg (obsOffline N (pre ++ [⟨.endReverse, nE, rE⟩]))).1 = true := by
    rw [obsOffline_eq_rec]
    exact finished_of_done cfg hpass _ (run_done_pos cfg N pre _ rfl 0 _)
  unfold canonOffline
  rw [List.foldl_append, List.foldl_append]
  have h0 : [Line.init 0 0 (some N) false false, Line.uses a b c d].foldl (monStep cfg)
      { x := XS.init cfg, idx := 0, stopped := false, viols := [] } =
      { x := XS.init cfg, idx := 0, stopped := false, viols := [] } := by
    simp [monStep, chk, hon, hN]
  rw [h0, foldl_monStep_actLines, ← obsOffline_eq_rec]
  show List.foldl (monStep cfg) ⟨(run cfg _).1, _, false, [] ++ (run cfg _).2⟩ _ = _
  simp only [List.foldl_cons, List.foldl_nil, monStep, hfin]
  simp [chk]

/-- The monitor accepts the explicit canonical trace. -/
theorem monitor_canonOffline (cfg : Cfg) (k N : Nat) (a b c d : Option Bool) (pre : List Ev)
    (nE rE : Nat) (hN : cfg.N = N) (hon : cfg.online = false) (hpass : cfg.passes = some 1)
    (hrun : (run cfg (obsOffline N (pre ++ [⟨.endReverse, nE, rE⟩]))).2 = [])
    (hc11 : c11Viols (canonOffline (.uses a b c d) N (pre ++ [⟨.endReverse, nE, rE⟩]) nE rE) = []) :
    monitor cfg k (canonOffline (.uses a b c d) N (pre ++ [⟨.endReverse, nE, rE⟩]) nE rE) = [] := by
  have hfin : finished cfg (run cfg (obsOffline N (pre ++ [⟨.endReverse, nE, rE⟩]))).1 = true := by
    rw [obsOffline_eq_rec]
    exact finished_of_done cfg hpass _ (run_done_pos cfg N pre _ rfl 0 _)
  unfold monitor
  simp only [foldl_monStep_canonOffline cfg N a b c d pre nE rE hN hon hpass, hrun, hc11]
  simp [endViols, hpass, hfin, chk]

/-- the C11 side condition implies `c11Viols = []` on the canonical trace -/
theorem c11_canonOffline (N : Nat) (evs : List Ev) (nE rE : Nat) (uses : Storage → Option Bool)
    (huses : ∀ st, (uses st).isSome = true)
    (hram : (∃ e ∈ evs, touches .ram e.act = true) → uses .ram = some true)
    (hdisk : (∃ e ∈ evs, touches .disk e.act = true) → uses .disk = some true) :
    c11Viols (canonOffline (.uses (uses .ram) (uses .disk) (uses .work) (uses .none)) N evs nE rE)
      = [] := by
  apply c11Viols_nil
  intro a b c d hmem
  obtain ⟨rfl, rfl, rfl, rfl⟩ := uses_mem_canonOffline _ _ _ _ _ _ _ _ N evs nE rE hmem
  refine ⟨huses _, huses _, huses _, huses _, ?_, ?_⟩
  · intro h
    rw [List.any_eq_true] at h
    obtain ⟨x, hx, ht⟩ := h
    obtain ⟨e, he, rfl⟩ := lineActs_canonOffline _ _ _ _ N evs nE rE x hx
    exact hram ⟨e, he, ht⟩
  · intro h
    rw [List.any_eq_true] at h
    obtain ⟨x, hx, ht⟩ := h
    obtain ⟨e, he, rfl⟩ := lineActs_canonOffline _ _ _ _ N evs nE rE x hx
    exact hdisk ⟨e, he, ht⟩

/-- **Main theorem (general form).** If the executor accepts the decorated stream of an offline
single-adjoint schedule and `uses_storage_type` answers correctly, the monitor accepts the
canonical trace.  `Nfin`, `k` are arbitrary, the fuel bound is `evs.length + 1`, and
`ended = true` is not needed (it is implied by the acceptance of the final EndReverse). -/
theorem monitor_offline_clean_gen (cfg : Cfg) (N Nfin k fuel : Nat) (pre : List Ev) (nE rE : Nat)
    (uses : Storage → Option Bool)
    (hN : cfg.N = N) (hon : cfg.online = false) (hpass : cfg.passes = some 1)
    (hfuel : (pre ++ [(⟨.endReverse, nE, rE⟩ : Ev)]).length + 1 ≤ fuel)
    (hpre : ∀ e ∈ pre, e.act ≠ .endReverse)
    (hrun : (run cfg (obsOffline N (pre ++ [⟨.endReverse, nE, rE⟩]))).2 = [])
    (huses : ∀ st, (uses st).isSome = true)
    (hram : (∃ e ∈ pre ++ [(⟨.endReverse, nE, rE⟩ : Ev)], touches .ram e.act = true) →
      uses .ram = some true)
    (hdisk : (∃ e ∈ pre ++ [(⟨.endReverse, nE, rE⟩ : Ev)], touches .disk e.act = true) →
      uses .disk = some true) :
    monitor cfg k
      ((offlineSched N (.ok (pre ++ [⟨.endReverse, nE, rE⟩])) uses).canon Nfin k fuel) = [] := by
  rw [canon_offline N Nfin k fuel pre nE rE uses hpre hfuel]
  exact monitor_canonOffline cfg k N _ _ _ _ pre nE rE hN hon hpass hrun
    (c11_canonOffline N _ nE rE uses huses hram hdisk)

/-- **Main theorem, as stated.** -/
theorem monitor_offline_clean (cfg : Cfg) (N k fuel : Nat) (pre : List Ev) (nE rE : Nat)
    (uses : Storage → Option Bool)
    (hN : cfg.N = N) (hon : cfg.online = false) (hpass : cfg.passes = some 1) (_hk : 1 ≤ k)
    (hfuel : (pre ++ [(⟨.endReverse, nE, rE⟩ : Ev)]).length + 4 ≤ fuel)
    (hpre : ∀ e ∈ pre, e.act ≠ .endReverse)
    (hrun : (run cfg (obsOffline N (pre ++ [⟨.endReverse, nE, rE⟩]))).2 = [])
    (_hended : (run cfg (obsOffline N (pre ++ [⟨.endReverse, nE, rE⟩]))).1.ended = true)
    (huses : ∀ st, (uses st).isSome = true)
    (hram : (∃ e ∈ pre ++ [(⟨.endReverse, nE, rE⟩ : Ev)], touches .ram e.act = true) →
      uses .ram = some true)
    (hdisk : (∃ e ∈ pre ++ [(⟨.endReverse, nE, rE⟩ : Ev)], touches .disk e.act = true) →
      uses .disk = some true) :
    monitor cfg k
      ((offlineSched N (.ok (pre ++ [⟨.endReverse, nE, rE⟩])) uses).canon N k fuel) = [] :=
  monitor_offline_clean_gen cfg N N k fuel pre nE rE uses hN hon hpass (by omega) hpre hrun
    huses hram hdisk

/-! ### The hypothesis `ended = true` of the stated form is implied by the others -/

theorem runFrom_append (cfg : Cfg) (os os' : List Obs) : ∀ (i : Nat) (x : XS),
    runFrom cfg i x (os ++ os') =
      ((runFrom cfg (i + os.length) (runFrom cfg i x os).1 os').1,
       (runFrom cfg i x os).2 ++ (runFrom cfg (i + os.length) (runFrom cfg i x os).1 os').2) := by
  induction os with
  | nil => intro i x; simp [runFrom]
  | cons o os ih =>
    intro i x
    simp only [List.cons_append, runFrom, ih, List.length_cons, List.append_assoc]
    rw [show i + 1 + os.length = i + (os.length + 1) by omega]

theorem obsRec_append_last (N : Nat) (pre : List Ev) (e : Ev) :
    ∃ os, obsRec N (pre ++ [e]) = os ++ [⟨e.act, e.n, e.r, some N, true, true⟩] := by
  induction pre with
  | nil => exact ⟨[], rfl⟩
  | cons a pre ih =>
    obtain ⟨os, h⟩ := ih
    exact ⟨_ :: os, by rw [List.cons_append, obsRec, h]; rfl⟩

theorem run_ended_of_clean (cfg : Cfg) (N : Nat) (pre : List Ev) (nE rE : Nat)
    (hrun : (run cfg (obsOffline N (pre ++ [⟨.endReverse, nE, rE⟩]))).2 = []) :
    (run cfg (obsOffline N (pre ++ [⟨.endReverse, nE, rE⟩]))).1.ended = true := by
  rw [obsOffline_eq_rec] at hrun ⊢
  obtain ⟨os, h⟩ := obsRec_append_last N pre ⟨.endReverse, nE, rE⟩
  rw [h] at hrun ⊢
  unfold run at hrun ⊢
  rw [runFrom_append] at hrun ⊢
  simp only [List.append_eq_nil_iff] at hrun
  generalize (runFrom cfg 0 (XS.init cfg) os).1 = y at hrun ⊢
  have h2 := hrun.2
  simp only [runFrom, step, List.append_nil, List.map_eq_nil_iff, stepViols, actViols,
    List.append_eq_nil_iff] at h2
  have h3 : chk y.ended .C02 7 = [] := h2.1.2.1.1
  show (nextState cfg y .endReverse).ended = true
  show y.ended = true
  cases hy : y.ended with
  | true => rfl
  | false => rw [hy] at h3; cases h3

/-! ## Non-vacuity: a two-step schedule with one RAM checkpoint -/

section Example
def exCfg : Cfg := { N := 2, ram := some 1, disk := some 0, passes := some 1, keepsAllDeps := false, online := false }
def exPre : List Ev :=
  [⟨.forward 0 1 true false .ram, 1, 0⟩, ⟨.forward 1 2 false true .work, 2, 0⟩, ⟨.endForward, 2, 0⟩,
   ⟨.reverse 2 1 true, 2, 1⟩, ⟨.move 0 .ram .work, 0, 1⟩, ⟨.forward 0 1 false true .work, 1, 1⟩,
   ⟨.reverse 1 0 true, 1, 2⟩]
def exUses : Storage → Option Bool
  | .ram => some true | .work => some true | _ => some false

example : monitor exCfg 1
    ((offlineSched 2 (.ok (exPre ++ [⟨.endReverse, 1, 2⟩])) exUses).canon 2 1 12) = [] :=
  monitor_offline_clean exCfg 2 1 12 exPre 1 2 exUses rfl rfl rfl (by decide) (by decide)
    (by decide) (by decide) (by decide) (by intro st; cases st <;> rfl) (fun _ => rfl)
    (by
      intro ⟨e, he, ht⟩
      simp [exPre] at he
      rcases he with rfl | rfl | rfl | rfl | rfl | rfl | rfl | rfl <;> simp [touches] at ht)
end Example

end Ckpt

section AxiomCheck
open Ckpt
#print axioms obsRec_eq_mapIdx
#print axioms canon_offline
#print axioms foldl_monStep_canonOffline
#print axioms monitor_offline_clean_gen
#print axioms monitor_offline_clean
#print axioms run_ended_of_clean
end AxiomCheck
