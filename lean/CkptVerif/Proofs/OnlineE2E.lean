import CkptVerif.Proofs.OnlineGlue
import CkptVerif.Proofs.CanonObs
/-!
# End-to-end monitor theorems for the five online classes

`OnlineGlue.lean` (explicit canonical traces, `monitor_shape`) combined with the acceptance
theorems of `BasicOk.lean`, `TwoLevelOk.lean`, `CanonObs.lean` (namespace `Ckpt.On`): the
canonical trace of every valid SingleMemory / SingleDisk / None / TwoLevel configuration passes
the whole monitor.
-/
namespace Ckpt

theorem On_actLines_eq (ls : List Line) : On.actLines ls = actsOf ls := rfl

/-! ## the observations on the act lines of the canonical traces, in `OnlineGlue` form -/

theorem actsOf_canon_unbounded (s : Sched) (H : FwdHyp s) (hs : s.passes = none) (N k : Nat)
    (h1N : 1 ≤ N) (hk : 1 ≤ k) (efs : Ev) (ppre : List Ev) (per : Ev) (apre : List Ev) (aer : Ev)
    (hfirst : s.first N = .ok (efs :: (ppre ++ [per]))) (hefs : efs.act = .endForward)
    (hper : per.act = .endReverse) (hppre : ∀ e ∈ ppre, e.act ≠ .endReverse)
    (hagain : s.again N = apre ++ [aer]) (haer : aer.act = .endReverse)
    (hapre : ∀ e ∈ apre, e.act ≠ .endReverse) (fuel : Nat)
    (hfuel : (onlineObs s N k (efs :: (ppre ++ [per]))).length ≤ fuel) :
    actsOf (s.canon N k fuel) = onlineObs s N k (efs :: (ppre ++ [per])) := by
  have hlen : (fwdObs s N N 0).length + 1 + (ppre ++ [per] ++ agains s N (k - 1)).length ≤ fuel := by
    simp only [onlineObs, List.length_append, List.length_map, List.length_cons] at hfuel ⊢
    omega
  rw [canon_online_unbounded s H hs N k h1N hk efs ppre per apre aer hfirst hefs hper hppre
    hagain haer hapre fuel hlen]
  simp only [actsOf_append, actsOf_map_act, actsOf_map_obs]
  simp [onlineObs, actsOf, Sched.usesLine]

theorem actsOf_canon_single (s : Sched) (H : FwdHyp s) (hs : s.passes = some 1) (N k : Nat)
    (h1N : 1 ≤ N) (efs : Ev) (ppre : List Ev) (nE rE : Nat)
    (hfirst : s.first N = .ok (efs :: (ppre ++ [⟨.endReverse, nE, rE⟩])))
    (hefs : efs.act = .endForward) (hppre : ∀ e ∈ ppre, e.act ≠ .endReverse) (fuel : Nat)
    (hfuel : (fwdObs s N N 0).length + ppre.length + 3 ≤ fuel) :
    actsOf (s.canon N k fuel) =
      fwdObs s N N 0 ++ obsOffline N (efs :: (ppre ++ [⟨.endReverse, nE, rE⟩])) := by
  rw [canon_online_single s H hs N k h1N efs ppre nE rE hfirst hefs hppre fuel hfuel]
  simp only [actsOf_append, actsOf_map_act, obsOffline_eq_rec]
  have := actsOf_actLines (s.uses .ram) (s.uses .disk) (s.uses .work) (s.uses .none) N
    (efs :: (ppre ++ [⟨.endReverse, nE, rE⟩])) false
  simp only [Sched.usesLine] at this ⊢
  rw [this]
  simp [actsOf]

theorem actsOf_canon_zero (s : Sched) (H : FwdHyp s) (hs : s.passes = some 0) (N k : Nat)
    (h1N : 1 ≤ N) (efs : Ev) (rest : List Ev) (hfirst : s.first N = .ok (efs :: rest))
    (hefs : efs.act = .endForward) (fuel : Nat) (hfuel : (fwdObs s N N 0).length + 2 ≤ fuel) :
    actsOf (s.canon N k fuel) =
      fwdObs s N N 0 ++ [⟨.endForward, efs.n, efs.r, some N, true, true⟩] := by
  rw [canon_online_zero s H hs N k h1N efs rest hfirst hefs fuel hfuel]
  simp only [actsOf_append, actsOf_map_act]
  simp [actsOf, Sched.usesLine]

theorem length_agains (s : Sched) (N : Nat) : ∀ j, (agains s N j).length = j * (s.again N).length
  | 0 => by simp [agains]
  | j+1 => by rw [agains_succ, List.length_append, length_agains s N j, Nat.succ_mul]; omega

/-! ## SingleMemory -/

theorem length_onlineObs_singleMemory (N k : Nat) (h1 : 1 ≤ N) (h2 : N ≤ maxsize) (hk : 1 ≤ k) :
    (onlineObs singleMemorySched N k (smFirst N)).length = 2 * k + 2 := by
  obtain ⟨k, rfl⟩ : ∃ k', k = k' + 1 := ⟨k - 1, by omega⟩
  simp only [onlineObs, fwdObs_singleMemory N h1 h2, List.length_append, List.length_map,
    length_agains, Nat.add_sub_cancel]
  simp [smFirst, singleMemorySched]
  omega

/-- **SingleMemoryStorageSchedule end to end.** -/
theorem singleMemory_monitor_clean (N k fuel : Nat) (hN : 1 ≤ N) (hmax : N ≤ maxsize)
    (hk : 1 ≤ k) (hfuel : 2 * k + 2 ≤ fuel) :
    monitor (cfgSingleMemory N) k (singleMemorySched.canon N k fuel) = [] := by
  have hlen := length_onlineObs_singleMemory N k hN hmax hk
  have hc := On.singleMemory_canon_clean N k fuel hN hmax hk hfuel
  rw [On_actLines_eq, actsOf_canon_unbounded singleMemorySched fwdHyp_singleMemory rfl N k hN hk
    ⟨.endForward, N, 0⟩ [⟨.reverse N 0 false, N, N⟩] ⟨.endReverse, N, 0⟩
    [⟨.reverse N 0 false, N, N⟩] ⟨.endReverse, N, 0⟩ rfl rfl rfl (by simp) rfl rfl (by simp)
    fuel (by rw [show (⟨.endForward, N, 0⟩ : Ev) :: ([⟨.reverse N 0 false, N, N⟩] ++
      [⟨.endReverse, N, 0⟩]) = smFirst N from rfl, hlen]; exact hfuel)] at hc
  exact singleMemory_monitor N k fuel hN hk _ (by rw [hlen]; exact hfuel) hc rfl rfl rfl

/-! ## None -/

theorem fwdObs_none (N : Nat) (h1 : 1 ≤ N) (h2 : N ≤ maxsize) :
    fwdObs noneSched N N 0 =
      [⟨.forward 0 maxsize false false .none, N, 0, some N, false, true⟩] := by
  have := fwdObs_const noneSched N maxsize (fun _ => rfl) 0 0 N (by omega) (by omega) h1
  rw [this]
  simp [noneSched]

/-- **NoneCheckpointSchedule end to end.** -/
theorem none_monitor_clean (N k fuel : Nat) (hN : 1 ≤ N) (hmax : N ≤ maxsize) (hfuel : 3 ≤ fuel) :
    monitor (cfgNone N) k (noneSched.canon N k fuel) = [] := by
  have hlen : (fwdObs noneSched N N 0).length + 2 ≤ fuel := by
    rw [fwdObs_none N hN hmax]; simpa using hfuel
  have hc := On.none_canon_clean N k fuel hN hmax (by omega)
  rw [On_actLines_eq, actsOf_canon_zero noneSched fwdHyp_none rfl N k hN ⟨.endForward, N, 0⟩ []
    rfl rfl fuel hlen] at hc
  exact none_monitor N k fuel hN _ hlen hc rfl

/-! ## SingleDisk -/

theorem length_singleDiskBody (mv : Bool) (N : Nat) : ∀ j, (singleDiskBody mv N j).length = 2 * j
  | 0 => rfl
  | j+1 => by rw [singleDiskBody, List.length_cons, List.length_cons, length_singleDiskBody mv N j]; omega

theorem length_fwdObs_singleDisk (mv : Bool) (N : Nat) (h1 : 1 ≤ N) :
    (fwdObs (singleDiskSched mv) N N 0).length = N := by
  rw [fwdObs_singleDisk mv N h1]; simp; omega

theorem length_onlineObs_singleDisk (N k : Nat) (h1 : 1 ≤ N) (hk : 1 ≤ k) :
    (onlineObs (singleDiskSched false) N k (sdFirst false N)).length = N + 1 + k * (2 * N + 1) := by
  obtain ⟨k, rfl⟩ : ∃ k', k = k' + 1 := ⟨k - 1, by omega⟩
  have hag : ((singleDiskSched false).again N).length = 2 * N + 1 := by
    show (singleDiskPass false N N).length = _
    rw [singleDiskPass_eq, List.length_append, length_singleDiskBody]; rfl
  simp only [onlineObs, List.length_append, List.length_map, length_agains, Nat.add_sub_cancel,
    length_fwdObs_singleDisk false N h1, hag, sdFirst, List.length_cons, length_singleDiskBody,
    List.length_nil, Nat.succ_mul]
  omega

/-- **SingleDiskStorageSchedule, `move_data = False`, end to end.** -/
theorem singleDiskCopy_monitor_clean (N k fuel : Nat) (hN : 1 ≤ N) (hk : 1 ≤ k)
    (hfuel : N + 1 + k * (2 * N + 1) ≤ fuel) :
    monitor (cfgSingleDisk false N) k ((singleDiskSched false).canon N k fuel) = [] := by
  have hlen := length_onlineObs_singleDisk N k hN hk
  have hc := On.singleDisk_copy_canon_clean N k fuel hN hk hfuel
  rw [On_actLines_eq, actsOf_canon_unbounded (singleDiskSched false) (fwdHyp_singleDisk false) rfl
    N k hN hk ⟨.endForward, N, 0⟩ (singleDiskBody false N N) ⟨.endReverse, 0, 0⟩
    (singleDiskBody false N N) ⟨.endReverse, 0, 0⟩ (singleDisk_first false N) rfl rfl
    (fun e he => (singleDiskBody_noER false N N e he).1) (singleDiskPass_eq false N N) rfl
    (fun e he => (singleDiskBody_noER false N N e he).1) fuel
    (by rw [show (⟨.endForward, N, 0⟩ : Ev) :: (singleDiskBody false N N ++
      [⟨.endReverse, 0, 0⟩]) = sdFirst false N from rfl, hlen]; exact hfuel)] at hc
  exact singleDiskCopy_monitor N k fuel hN hk _ (by rw [hlen]; exact hfuel) hc rfl rfl rfl

/-- **SingleDiskStorageSchedule, `move_data = True`, end to end.**  (One unit of fuel more than
the act lines need: the driver also records the StopIterations after the end.) -/
theorem singleDiskMove_monitor_clean (N k fuel : Nat) (hN : 1 ≤ N) (hk : 1 ≤ k)
    (hfuel : 3 * N + 3 ≤ fuel) :
    monitor (cfgSingleDisk true N) k ((singleDiskSched true).canon N k fuel) = [] := by
  have hlen : (fwdObs (singleDiskSched true) N N 0).length + (singleDiskBody true N N).length + 3
      ≤ fuel := by
    rw [length_fwdObs_singleDisk true N hN, length_singleDiskBody]; omega
  have hc := On.singleDisk_move_canon_clean N k fuel hN hk (by omega)
  rw [On_actLines_eq, actsOf_canon_single (singleDiskSched true) (fwdHyp_singleDisk true) rfl N k hN
    ⟨.endForward, N, 0⟩ (singleDiskBody true N N) 0 N (singleDisk_first true N) rfl
    (fun e he => (singleDiskBody_noER true N N e he).1) fuel hlen] at hc
  exact singleDiskMove_monitor N k fuel hN _ hlen hc (Nat.le_refl 1)

/-- **SingleDiskStorageSchedule end to end**, both values of `move_data`. -/
theorem singleDisk_monitor_clean (mv : Bool) (N k fuel : Nat) (hN : 1 ≤ N) (hk : 1 ≤ k)
    (hfuel : N + 2 + k * (2 * N + 1) ≤ fuel) :
    monitor (cfgSingleDisk mv N) k ((singleDiskSched mv).canon N k fuel) = [] := by
  obtain ⟨k', rfl⟩ : ∃ k', k = k' + 1 := ⟨k - 1, by omega⟩
  rw [Nat.succ_mul] at hfuel
  cases mv
  · exact singleDiskCopy_monitor_clean N (k' + 1) fuel hN hk (by rw [Nat.succ_mul]; omega)
  · exact singleDiskMove_monitor_clean N (k' + 1) fuel hN hk (by omega)

/-! ## TwoLevel -/

theorem length_fwdObs_twoLevel (p b : Nat) (st : Storage) (traj : Traj) (N : Nat) (hp : 1 ≤ p)
    (hN : 1 ≤ N) : (fwdObs (On.twoLevelS p b st traj) N N 0).length = ceilDiv N p := by
  have hpos := On.ceilDiv_pos N p hp hN
  have hlt := On.ceilDiv_lt N p (ceilDiv N p - 1) hN (by omega)
  have hge := On.ceilDiv_ge N p hp
  have hle : ceilDiv N p - 1 ≤ (ceilDiv N p - 1) * p := Nat.le_mul_of_pos_right _ (by omega)
  have := fwdObs_const (On.twoLevelS p b st traj) N p (fun _ => rfl) (ceilDiv N p - 1) 0 N
    (by omega) (by rw [show ceilDiv N p - 1 + 1 = ceilDiv N p by omega]; omega) (by omega)
  rw [this]
  simp; omega

/-- **TwoLevelCheckpointSchedule end to end**, for all valid parameters. -/
theorem twoLevel_monitor_clean (p b N k fuel : Nat) (st : Storage) (traj : Traj)
    (hv : validTwoLevel p st = true) (hN : 1 ≤ N) (hk : 1 ≤ k)
    (hfuel : ceilDiv N p + 1 + k * (twoLevelPass N p b st traj).length ≤ fuel) :
    ∃ s, twoLevelSched p b st traj = .ok s ∧
      monitor (cfgTwoLevel p b st N) k (s.canon N k fuel) = [] := by
  simp only [validTwoLevel, Bool.and_eq_true, Bool.or_eq_true, decide_eq_true_eq] at hv
  obtain ⟨hp, hst⟩ := hv
  have hsch := On.twoLevelSched_ok p b st traj hp hst
  refine ⟨On.twoLevelS p b st traj, hsch, ?_⟩
  obtain ⟨⟨blocks, hblocks⟩, _⟩ := On.twoLevel_pass p b N st traj hp hst hN 0 none
  have hpass : twoLevelPass N p b st traj = blocks ++ [⟨.endReverse, 1, 0⟩] := by
    unfold twoLevelPass; rw [hblocks]
  have hb := twoLevelBlocks_noER N p b st traj _ blocks hblocks
  have hfirst : (On.twoLevelS p b st traj).first N =
      .ok (⟨.endForward, N, 0⟩ :: (blocks ++ [⟨.endReverse, 1, 0⟩])) := by
    simp only [On.twoLevelS, hblocks, hpass]
  have hlen : (onlineObs (On.twoLevelS p b st traj) N k
      (⟨.endForward, N, 0⟩ :: (blocks ++ [⟨.endReverse, 1, 0⟩]))).length ≤ fuel := by
    obtain ⟨k', rfl⟩ : ∃ k', k = k' + 1 := ⟨k - 1, by omega⟩
    have hag : ((On.twoLevelS p b st traj).again N).length = blocks.length + 1 := by
      show (twoLevelPass N p b st traj).length = _
      rw [hpass]; simp
    rw [hpass, Nat.succ_mul] at hfuel
    simp only [onlineObs, List.length_append, List.length_map, length_agains, Nat.add_sub_cancel,
      length_fwdObs_twoLevel p b st traj N hp hN, hag, List.length_cons, List.length_nil,
      Nat.zero_add] at hfuel ⊢
    omega
  obtain ⟨s', hs', hc⟩ := On.twoLevel_canon_clean p b N k fuel st traj hp hst hN hk hfuel
  rw [hsch] at hs'
  cases hs'
  rw [On_actLines_eq, actsOf_canon_unbounded (On.twoLevelS p b st traj)
    (fwdHyp_twoLevel p b st traj _ hsch) rfl N k hN hk ⟨.endForward, N, 0⟩ blocks
    ⟨.endReverse, 1, 0⟩ blocks ⟨.endReverse, 1, 0⟩ hfirst rfl rfl (fun e he => (hb e he).1)
    hpass rfl (fun e he => (hb e he).1) fuel hlen] at hc
  exact twoLevel_monitor p b st traj _ hsch N k fuel hN hk blocks hblocks _ hlen hc rfl rfl rfl

/-! ### non-vacuity -/

example : monitor (cfgSingleMemory 5) 3 (singleMemorySched.canon 5 3 8) = [] :=
  singleMemory_monitor_clean 5 3 8 (by decide) (by decide) (by decide) (by decide)
example : monitor (cfgSingleDisk true 4) 1 ((singleDiskSched true).canon 4 1 15) = [] :=
  singleDisk_monitor_clean true 4 1 15 (by decide) (by decide) (by decide)
example : validTwoLevel 3 .ram = true := by decide

end Ckpt

section AxiomCheck
open Ckpt
#print axioms singleMemory_monitor_clean
#print axioms none_monitor_clean
#print axioms singleDiskCopy_monitor_clean
#print axioms singleDiskMove_monitor_clean
#print axioms singleDisk_monitor_clean
#print axioms twoLevel_monitor_clean
end AxiomCheck
