import CkptVerif.Model.Online
import CkptVerif.Spec.Configs
import CkptVerif.Proofs.SegOk
import CkptVerif.Proofs.NAdv
import CkptVerif.Proofs.BasicOk
/-!
# TwoLevelCheckpointSchedule is accepted by the specification executor

for every period `p ≥ 1`, every number `b` of binomial units, binomial storage RAM or DISK, both
trajectories, every `N ≥ 1` and every number `k ≥ 1` of adjoint calculations: the observations of
the canonical trace run through the executor from `XS.init` without a violation of any tag.

The periodic DISK checkpoints written by the forward sweep (`sweepCps`) stay in storage for the
whole run; each period block is a binomial segment whose depth-0 level re-loads its periodic
checkpoint by `Copy` (`level0_ok`), and whose deeper levels are an ordinary binomial segment on
`b` units (`segWith_ok`, after `segWith_persist_irrel` and `segWith_shift`).
-/
namespace Ckpt.On

/-! ## the segment stream: `persist` and depth shift -/

/-- (A) above depth 0 the `persist` flag is irrelevant -/
theorem segWith_persist_irrel (N : Nat) (σ : Nat → Nat → Option Nat) (S : Nat) (alloc : Nat → Storage) :
    ∀ (fuel : Nat) (sd sp : Bool) (lo hi d : Nat), 1 ≤ d →
      segWith N σ S alloc true fuel sd sp lo hi d = segWith N σ S alloc false fuel sd sp lo hi d := by
  intro fuel
  induction fuel with
  | zero => intros; rfl
  | succ fuel ih =>
    intro sd sp lo hi d hd
    have hd0 : d ≠ 0 := by omega
    have ih1 : ∀ sd sp lo hi, segWith N σ S alloc true fuel sd sp lo hi (d + 1)
        = segWith N σ S alloc false fuel sd sp lo hi (d + 1) := fun _ _ _ _ => ih _ _ _ _ _ (by omega)
    have ih0 : ∀ sd sp lo hi, segWith N σ S alloc true fuel sd sp lo hi d
        = segWith N σ S alloc false fuel sd sp lo hi d := fun _ _ _ _ => ih _ _ _ _ _ hd
    simp only [segWith, ih1, ih0, hd0, and_false, Bool.false_eq_true, if_false]

/-- (B) a segment at depth `d+1` is the segment at depth `d` of the stack without its bottom -/
theorem segWith_shift (N : Nat) (σ : Nat → Nat → Option Nat) (S : Nat) (alloc : Nat → Storage) :
    ∀ (fuel : Nat) (sd sp : Bool) (lo hi d : Nat),
      segWith N σ S alloc false fuel sd sp lo hi (d + 1)
        = segWith N σ (S - 1) (fun i => alloc (i + 1)) false fuel sd sp lo hi d := by
  intro fuel
  induction fuel with
  | zero => intros; rfl
  | succ fuel ih =>
    intro sd sp lo hi d
    have e : S - (d + 1) = S - 1 - d := by omega
    simp only [segWith, ih, e, Bool.false_eq_true, false_and, if_false]

/-! ## the periodic checkpoints -/

/-- storage after `j` Forwards of the online sweep: restart checkpoints at the multiples of the
period, most recent first -/
def sweepCps (p N : Nat) : Nat → List Cp
  | 0 => []
  | j+1 => ⟨j * p, .disk, min p (N - j * p), 0⟩ :: sweepCps p N j

theorem sweepCps_mem {p N j : Nat} {c : Cp} (h : c ∈ sweepCps p N j) :
    ∃ i, i < j ∧ c = ⟨i * p, .disk, min p (N - i * p), 0⟩ := by
  induction j with
  | zero => simp [sweepCps] at h
  | succ j ih =>
    rcases List.mem_cons.mp h with rfl | h'
    · exact ⟨j, by omega, rfl⟩
    · obtain ⟨i, hi, hc⟩ := ih h'
      exact ⟨i, by omega, hc⟩

theorem countSt_append (a b : List Cp) (s : Storage) : countSt (a ++ b) s = countSt a s + countSt b s := by
  simp [countSt, List.filter_append]

theorem countSt_sweepCps_disk (p N j : Nat) : countSt (sweepCps p N j) .disk = j := by
  induction j with
  | zero => rfl
  | succ j ih =>
    have : countSt (sweepCps p N (j+1)) .disk = countSt (sweepCps p N j) .disk + 1 := by
      simp [sweepCps, countSt]
    rw [this, ih]

theorem countSt_sweepCps_ram (p N j : Nat) : countSt (sweepCps p N j) .ram = 0 := by
  induction j with
  | zero => rfl
  | succ j ih =>
    have : countSt (sweepCps p N (j+1)) .ram = countSt (sweepCps p N j) .ram := by
      simp [sweepCps, countSt]
    rw [this, ih]

theorem findCp_sweepCps_none (p N j : Nat) (hp : 1 ≤ p) (st : Storage) :
    findCp (sweepCps p N j) (j * p) st = none := by
  unfold findCp
  rw [List.find?_eq_none]
  intro c hc
  obtain ⟨i, hi, rfl⟩ := sweepCps_mem hc
  have : i * p < j * p := Nat.mul_lt_mul_of_pos_right hi (by omega)
  simp; omega

theorem findCp_sweepCps (p N q blk : Nat) (hp : 1 ≤ p) (h : blk < q) :
    findCp (sweepCps p N q) (blk * p) .disk = some ⟨blk * p, .disk, min p (N - blk * p), 0⟩ := by
  induction q with
  | zero => omega
  | succ q ih =>
    by_cases hk : blk = q
    · subst hk; simp [sweepCps, findCp]
    · have := ih (by omega)
      unfold findCp at this ⊢
      rw [sweepCps, List.find?_cons_of_neg]
      · exact this
      · have hlt : blk * p < q * p := Nat.mul_lt_mul_of_pos_right (by omega) (by omega)
        simp; omega

/-- the periodic checkpoints lie outside the interior of a period block -/
theorem sweepCps_outside (p N q blk : Nat) : Outside (sweepCps p N q) (blk * p + 1) (blk * p + p) := by
  intro c hc
  obtain ⟨i, _, rfl⟩ := sweepCps_mem hc
  rcases Nat.lt_or_ge blk i with h | h
  · right
    have : (blk + 1) * p ≤ i * p := Nat.mul_le_mul_right p h
    rw [Nat.succ_mul] at this
    exact this
  · left
    have : i * p ≤ blk * p := Nat.mul_le_mul_right p h
    show i * p < blk * p + 1
    omega

/-! ## the number of periods -/

theorem ceilDiv_ge (N p : Nat) (hp : 1 ≤ p) : N ≤ ceilDiv N p * p := by
  unfold ceilDiv
  have h := Nat.lt_mul_div_succ (N + p - 1) (show 0 < p by omega)
  rw [Nat.mul_succ, Nat.mul_comm] at h
  omega

theorem ceilDiv_lt (N p blk : Nat) (hN : 1 ≤ N) (h : blk + 1 ≤ ceilDiv N p) : blk * p < N := by
  unfold ceilDiv at h
  have h1 : (blk + 1) * p ≤ (N + p - 1) / p * p := Nat.mul_le_mul_right p h
  have h2 := Nat.div_mul_le_self (N + p - 1) p
  rw [Nat.succ_mul] at h1
  omega

theorem ceilDiv_pos (N p : Nat) (hp : 1 ≤ p) (hN : 1 ≤ N) : 1 ≤ ceilDiv N p := by
  have := ceilDiv_ge N p hp
  rcases Nat.eq_zero_or_pos (ceilDiv N p) with h | h
  · rw [h] at this; omega
  · exact h

section steps
variable (cfg : Cfg) (N : Nat)

/-- re-load a restart checkpoint that sits anywhere in storage, keeping it -/
theorem step_copy_any (f : Option Nat) (lo k r : Nat) (st : Storage) (cps : List Cp)
    (dn : Nat) (sn : List Cp) (hN : cfg.N = N) (hal : Alive cfg dn)
    (hst : st.isStore = true) (hk : 0 < k) (h : N - r ≤ lo + k) (hlo : lo < N - r)
    (hfind : findCp cps lo st = some ⟨lo, st, k, 0⟩) :
    step cfg (X f r none none cps true dn sn) (Ev.obs ⟨.copy lo st .work, lo, r⟩ N)
      = (X (some lo) r (some (lo, lo + k)) none cps true dn sn, []) := by
  have hnf := finished_false hal (X f r none none cps true dn sn) rfl
  simp only [step, stepViols, hnf, actViols, actViols.loadViols, nextState, X, Ev.obs, obsViols, chk, hN, hst, hfind] at *
  simp [hk, h, hlo, Storage.isStore]
  close_step hal

end steps

/-! ## one period block -/

/-- (C) the depth-0 level of a period block: its restart checkpoint `⟨lo0, DISK, L, 0⟩` is one of
the periodic checkpoints (anywhere in `sweep`), re-loaded by `Copy` and never deleted; the levels
above it form a binomial segment on `b` units with labels `alloc (· + 1)`. -/
theorem level0_ok {cfg : Cfg} {N : Nat} {σ : Nat → Nat → Option Nat} {b : Nat} {alloc : Nat → Storage}
    {sweep : List Cp} {lo0 hi0 dn L : Nat}
    (H : SegHyp cfg N σ b (fun i => alloc (i + 1)) sweep (lo0 + 1) hi0 dn)
    (ha0 : alloc 0 = .disk)
    (hfind : findCp sweep lo0 .disk = some ⟨lo0, .disk, L, 0⟩)
    (hL : hi0 ≤ lo0 + L) (hL0 : 0 < L) (hhiN : hi0 ≤ N) :
    ∀ (fuel hi : Nat) (f : Option Nat) (sn : List Cp), hi - lo0 ≤ fuel → lo0 < hi → hi ≤ hi0 →
      ∃ evs, segWith N σ (b + 1) alloc true fuel true false lo0 hi 0 = some evs ∧
        Clean cfg (X f (N - hi) none none sweep true dn sn) (evs.map (Ev.obs · N))
          (X (some (lo0 + 1)) (N - lo0) none none sweep true dn sn) := by
  intro fuel
  have hcN := H.hN
  have hal := H.alive
  induction fuel with
  | zero => intro hi _ _ h1 h2; omega
  | succ fuel ih =>
    intro hi f sn hfuel hlt hhi
    unfold segWith
    by_cases hbase : hi = lo0 + 1
    · subst hbase
      refine ⟨_, by simp only [if_true]; rfl, ?_⟩
      have hr : lo0 + 1 = N - (N - (lo0 + 1)) := by omega
      have hr2 : N - (lo0 + 1) + 1 = N - lo0 := by omega
      simp only [and_self, if_true, Bool.false_eq_true, if_false, List.append_nil, List.cons_append,
        List.nil_append, List.map_cons, List.map_nil, ha0]
      refine Clean.cons (step_copy_any cfg N f lo0 L _ .disk sweep dn sn hcN hal rfl hL0 (by omega) (by omega) hfind) ?_
      refine Clean.cons (step_turn cfg N _ lo0 _ _ none sweep true dn sn hcN hal hr rfl) ?_
      refine Clean.cons (step_reverse cfg N (some (lo0 + 1)) lo0 _ none sweep dn sn hcN hal hr rfl) ?_
      rw [hr2]; exact Clean.nil _ _
    · simp only [hbase, if_false, Nat.sub_zero]
      obtain ⟨a, ha, ha1, ha2⟩ := H.range (hi - lo0) (b + 1) (by omega) (by omega)
      rw [ha]; dsimp only
      -- the levels above: an ordinary segment on `b` units
      rw [segWith_persist_irrel N σ (b + 1) alloc fuel false false (lo0 + a) hi (0 + 1) (by omega),
        segWith_shift N σ (b + 1) alloc fuel false false (lo0 + a) hi 0, Nat.add_sub_cancel]
      have hunits : lo0 + a + 2 ≤ hi → 0 + 1 ≤ b := by
        intro h
        by_contra hc
        have hb : b = 0 := by omega
        rw [hb, H.one _ (by omega)] at ha
        injection ha with ha; omega
      obtain ⟨right, sn1, hright, hsn1, hrun_right⟩ := segWith_ok false H fuel false false (lo0 + a) hi 0
        [] 0 (some (lo0 + a)) sn none none (by simp)
        (by omega) (by omega) (by omega) (by omega) hhi (by simp) (by simp)
        (by intro c hc; simp at hc) trivial rfl hunits (fun _ => rfl) (by simp)
      rw [hright]; dsimp only
      rw [hsn1 rfl] at hrun_right
      -- the depth-0 level again, on the left part
      obtain ⟨left, hleft, hrun_left⟩ := ih (lo0 + a) (some (lo0 + a + 1)) sn (by omega) (by omega) (by omega)
      rw [hleft]; dsimp only
      refine ⟨_, rfl, ?_⟩
      simp only [if_true, List.map_append, List.map_cons, List.map_nil, ha0]
      simp only [Bool.false_eq_true, if_false, List.nil_append, Bool.not_false, false_and] at hrun_right
      have h1 := step_copy_any cfg N f lo0 L (N - hi) .disk sweep dn sn hcN hal rfl hL0 (by omega) (by omega) hfind
      have h2 := step_plain cfg N (some lo0) lo0 a (N - hi) (some (lo0, lo0 + L)) none sweep true dn sn hcN hal
        (by omega) (by omega) rfl
      exact Clean.append (Clean.append (Clean.cons h1 (Clean.single h2)) hrun_right) hrun_left

/-! ## budgets -/

theorem labelled_shift_st {st : Storage} {stack : List Cp}
    (h : Labelled (fun i => (fun d => if d = 0 then Storage.disk else st) (i + 1)) stack) :
    ∀ c ∈ stack, c.st = st := by
  induction stack with
  | nil => intro c hc; simp at hc
  | cons c rest ih =>
    obtain ⟨hc, hrest⟩ := h
    intro c' hc'
    rcases List.mem_cons.mp hc' with rfl | h'
    · simpa using hc
    · exact ih hrest c' h'

theorem countSt_all {st : Storage} {stack : List Cp} (h : ∀ c ∈ stack, c.st = st) (s : Storage) :
    countSt stack s = if s = st then stack.length else 0 := by
  induction stack with
  | nil => simp [countSt]
  | cons c rest ih =>
    have hc := h c (List.mem_cons_self)
    have ih' := ih (fun c' hc' => h c' (List.mem_cons_of_mem _ hc'))
    simp only [countSt, List.filter_cons, hc] at ih' ⊢
    by_cases hs : s = st
    · subst hs; simp only [decide_true, if_true, List.length_cons] at ih' ⊢; omega
    · have hs' : ¬ st = s := fun e => hs e.symm
      simp only [hs, hs', decide_false, if_false, Bool.false_eq_true] at ih' ⊢
      exact ih'

/-- the budgets of TwoLevel: the periodic DISK checkpoints plus at most `b` binomial ones in `st` -/
theorem withinBudget_twoLevel (p b N q : Nat) (st : Storage) (hst : st = .ram ∨ st = .disk)
    (hq : q ≤ ceilDiv N p) (stack : List Cp) (hstack : ∀ c ∈ stack, c.st = st) (hlen : stack.length ≤ b) :
    withinBudget (cfgTwoLevel p b st N) (stack ++ sweepCps p N q) = true := by
  have h1 := countSt_all hstack .ram
  have h2 := countSt_all hstack .disk
  simp only [withinBudget, countSt_append, countSt_sweepCps_disk, countSt_sweepCps_ram, h1, h2]
  rcases hst with rfl | rfl
  · simp [cfgTwoLevel, withinOpt]; omega
  · simp [cfgTwoLevel, withinOpt]; omega

theorem alive_twoLevel (p b N : Nat) (st : Storage) (dn : Nat) : Alive (cfgTwoLevel p b st N) dn :=
  alive_of_passes_none rfl dn

/-! ## the stream -/

/-- the labels of a period block's stack: the periodic checkpoint on DISK, the binomial ones in `st` -/
def twoLevelAlloc (st : Storage) : Nat → Storage := fun d => if d = 0 then .disk else st

/-- one period block `[blk·p, min (blk·p + p) N)` -/
theorem twoLevel_block (p b N : Nat) (st : Storage) (traj : Traj) (hp : 1 ≤ p) (hst : st = .ram ∨ st = .disk)
    (hN : 1 ≤ N) (blk : Nat) (hblk : blk + 1 ≤ ceilDiv N p) (dn : Nat) (f : Option Nat) (sn : List Cp) :
    ∃ evs, segWith N (fun m k => nAdvance m k traj) (b + 1) (fun d => if d = 0 then .disk else st) true
        (min (blk * p + p) N - blk * p + 1) true false (blk * p) (min (blk * p + p) N) 0 = some evs ∧
      Clean (cfgTwoLevel p b st N)
        (X f (N - min (blk * p + p) N) none none (sweepCps p N (ceilDiv N p)) true dn sn)
        (evs.map (Ev.obs · N))
        (X (some (blk * p + 1)) (N - blk * p) none none (sweepCps p N (ceilDiv N p)) true dn sn) := by
  have hlo : blk * p < N := ceilDiv_lt N p blk hN hblk
  have hstore : st.isStore = true := by rcases hst with rfl | rfl <;> rfl
  have H : SegHyp (cfgTwoLevel p b st N) N (fun m k => nAdvance m k traj) b
      (fun i => (fun d => if d = 0 then Storage.disk else st) (i + 1))
      (sweepCps p N (ceilDiv N p)) (blk * p + 1) (min (blk * p + p) N) dn := {
    hN := rfl
    alive := alive_twoLevel p b N st dn
    range := fun m k hm hk => nAdvance_range m k traj hm hk
    one := fun m hm => nAdvance_one m traj (by omega)
    store := by intro i _; simpa using hstore
    budget := fun stack hl hlen =>
      withinBudget_twoLevel p b N _ st hst (le_refl _) stack (labelled_shift_st hl) hlen
    base := (sweepCps_outside p N (ceilDiv N p) blk).mono (le_refl _) (Nat.min_le_left _ _)
  }
  exact level0_ok (L := min p (N - blk * p)) H (by simp) (findCp_sweepCps p N _ blk hp (by omega))
    (by omega) (by omega) (Nat.min_le_right _ _) _ _ f sn (by omega) (by omega) (le_refl _)

/-- the blocks `blk-1, …, 0` of one adjoint calculation -/
theorem twoLevel_blocks (p b N : Nat) (st : Storage) (traj : Traj) (hp : 1 ≤ p) (hst : st = .ram ∨ st = .disk)
    (hN : 1 ≤ N) (dn : Nat) (sn : List Cp) (blk : Nat) (hblk : blk ≤ ceilDiv N p) (f : Option Nat) :
    ∃ evs, twoLevelBlocks N p b st traj blk = some evs ∧
      Clean (cfgTwoLevel p b st N)
        (X f (N - min (blk * p) N) none none (sweepCps p N (ceilDiv N p)) true dn sn)
        (evs.map (Ev.obs · N))
        (X (if blk = 0 then f else some 1) N none none (sweepCps p N (ceilDiv N p)) true dn sn) := by
  induction blk generalizing f with
  | zero =>
    refine ⟨[], rfl, ?_⟩
    simp only [Nat.zero_mul, Nat.zero_min, Nat.sub_zero, if_true, List.map_nil]
    exact Clean.nil _ _
  | succ blk ih =>
    obtain ⟨evs, hevs, hclean⟩ := twoLevel_block p b N st traj hp hst hN blk hblk dn f sn
    obtain ⟨rest, hrest, hclean'⟩ := ih (by omega) (some (blk * p + 1))
    refine ⟨evs ++ rest, ?_, ?_⟩
    · simp only [twoLevelBlocks, hevs, hrest]
    · rw [Nat.succ_mul, List.map_append]
      have e : N - min (blk * p) N = N - blk * p := by omega
      rw [e] at hclean'
      have e2 : (if blk = 0 then some (blk * p + 1) else some 1) = (some 1 : Option Nat) := by
        by_cases h : blk = 0
        · subst h; simp
        · simp [h]
      rw [e2] at hclean'
      simp only [Nat.add_one_ne_zero, if_false]
      exact Clean.append hclean hclean'

/-- one adjoint calculation: all blocks, then `EndReverse`; storage is the periodic checkpoints
before and after -/
theorem twoLevel_pass (p b N : Nat) (st : Storage) (traj : Traj) (hp : 1 ≤ p) (hst : st = .ram ∨ st = .disk)
    (hN : 1 ≤ N) (dn : Nat) (f : Option Nat) :
    (∃ evs, twoLevelBlocks N p b st traj ((N + p - 1) / p) = some evs) ∧
      Clean (cfgTwoLevel p b st N)
        (X f 0 none none (sweepCps p N (ceilDiv N p)) true dn (sweepCps p N (ceilDiv N p)))
        ((twoLevelPass N p b st traj).map (Ev.obs · N))
        (X (some 1) 0 none none (sweepCps p N (ceilDiv N p)) true (dn + 1) (sweepCps p N (ceilDiv N p))) := by
  obtain ⟨evs, hevs, hclean⟩ := twoLevel_blocks p b N st traj hp hst hN dn (sweepCps p N (ceilDiv N p))
    (ceilDiv N p) (le_refl _) f
  have hq := ceilDiv_pos N p hp hN
  have hge := ceilDiv_ge N p hp
  have hq0 : ¬ ceilDiv N p = 0 := by omega
  have e : N - min (ceilDiv N p * p) N = 0 := by omega
  rw [e] at hclean
  simp only [hq0, if_false] at hclean
  have hevs' : twoLevelBlocks N p b st traj ((N + p - 1) / p) = some evs := hevs
  refine ⟨⟨evs, hevs'⟩, ?_⟩
  simp only [twoLevelPass, hevs', List.map_append, List.map_cons, List.map_nil]
  refine Clean.append hclean (Clean.single ?_)
  exact step_endReverse_again (cfgTwoLevel p b st N) N (some 1) 1 none none _ dn _ rfl rfl (Or.inl rfl)
    (sameCps_refl _)

theorem twoLevel_passes (p b N : Nat) (st : Storage) (traj : Traj) (hp : 1 ≤ p) (hst : st = .ram ∨ st = .disk)
    (hN : 1 ≤ N) (k dn : Nat) :
    Clean (cfgTwoLevel p b st N)
      (X (some 1) 0 none none (sweepCps p N (ceilDiv N p)) true dn (sweepCps p N (ceilDiv N p)))
      (List.replicate k ((twoLevelPass N p b st traj).map (Ev.obs · N))).flatten
      (X (some 1) 0 none none (sweepCps p N (ceilDiv N p)) true (dn + k) (sweepCps p N (ceilDiv N p))) := by
  induction k generalizing dn with
  | zero => exact Clean.nil _ _
  | succ k ih =>
    rw [List.replicate_succ, List.flatten_cons]
    have h2 := ih (dn + 1)
    have e : dn + 1 + k = dn + (k + 1) := by omega
    rw [e] at h2
    exact Clean.append (twoLevel_pass p b N st traj hp hst hN dn (some 1)).2 h2

/-! ## the forward sweep -/

/-- decoration of an online forward event by the canonical client: `n` clipped to `N` by
`finalize`, `max_n` known from then on -/
def fwdObs (N : Nat) (e : Ev) : Obs := ⟨e.act, min e.n N, e.r, if N ≤ e.n then some N else none, false, true⟩

/-- the online forward phase: the `j`-th Forward starts from `j·p` -/
def twoLevelFwdObs (s : Sched) (p N : Nat) : List Obs :=
  (List.range (ceilDiv N p)).map (fun j => fwdObs N (s.fwdEv (j * p)))

/-- the `Sched` that `twoLevelSched` returns for valid parameters -/
def twoLevelS (p b : Nat) (st : Storage) (traj : Traj) : Sched :=
  { maxN0 := none
    fwdEv := fun n => ⟨.forward n (n + p) true false .disk, n + p, 0⟩
    first := fun N =>
      match twoLevelBlocks N p b st traj ((N + p - 1) / p) with
      | some _ => .ok (⟨.endForward, N, 0⟩ :: twoLevelPass N p b st traj)
      | none => .error (.later "Invalid checkpointing state")
    again := fun N => twoLevelPass N p b st traj
    passes := none
    uses := fun s => some (s = .disk || s = st) }

theorem twoLevelSched_ok (p b : Nat) (st : Storage) (traj : Traj) (hp : 1 ≤ p) (hst : st = .ram ∨ st = .disk) :
    twoLevelSched p b st traj = .ok (twoLevelS p b st traj) := by
  unfold twoLevelSched twoLevelS
  rw [if_neg (by omega), if_neg (not_not.mpr hst)]
  rfl

theorem twoLevel_forward (p b N : Nat) (st : Storage) (traj : Traj) (hp : 1 ≤ p) (hN : 1 ≤ N)
    (j : Nat) (hj : j ≤ ceilDiv N p) :
    Clean (cfgTwoLevel p b st N) (XS.init (cfgTwoLevel p b st N))
      ((List.range j).map (fun j => fwdObs N ((twoLevelS p b st traj).fwdEv (j * p))))
      (XF (decide (N ≤ j * p)) (some (min (j * p) N)) 0 none none (sweepCps p N j) false 0 []) := by
  induction j with
  | zero =>
    have : decide (N ≤ 0 * p) = false := by simp; omega
    rw [this]
    simp only [Nat.zero_mul, Nat.zero_min]
    exact Clean.nil _ _
  | succ j ih =>
    rw [List.range_succ, List.map_append]
    refine Clean.append (ih (by omega)) ?_
    have hlt : j * p < N := ceilDiv_lt N p j hN hj
    have hd : decide (N ≤ j * p) = false := by simp; omega
    have hm : min (j * p) N = j * p := by omega
    rw [hd, hm]
    have hB : withinBudget (cfgTwoLevel p b st N) (⟨j * p, .disk, 0, 0⟩ :: sweepCps p N j) = true := by
      have h1 : countSt (⟨j * p, .disk, 0, 0⟩ :: sweepCps p N j) .disk = j + 1 := by
        have := countSt_sweepCps_disk p N j
        simp only [countSt] at this ⊢
        simp [this]
      have h2 : countSt (⟨j * p, .disk, 0, 0⟩ :: sweepCps p N j) .ram = 0 := by
        have := countSt_sweepCps_ram p N j
        simp only [countSt] at this ⊢
        simp [this]
      simp only [withinBudget, h1, h2]
      by_cases hs : st = .ram
      · simp [cfgTwoLevel, withinOpt, hs]; omega
      · simp [cfgTwoLevel, withinOpt, hs]; omega
    have h := step_write_online (cfgTwoLevel p b st N) N (j * p) (j * p + p) 0 true false .disk none none
      (sweepCps p N j) 0 [] rfl (alive_twoLevel p b N st 0) rfl (by omega) rfl (by simp)
      (findCp_sweepCps_none p N j hp .disk) hB
    have e1 : min (j * p + p) N - j * p = min p (N - j * p) := by omega
    simp only [if_true, Bool.false_eq_true, if_false, e1] at h
    rw [Nat.succ_mul]
    exact Clean.single h

/-! ## the whole canonical trace -/

/-- the observations of the canonical trace of TwoLevel with `k` adjoint calculations: the
online forward events (`n` clipped, `max_n` known once the forward reaches `N`), then `first N`,
then `k-1` times `again N` -/
def twoLevelObs (p b : Nat) (st : Storage) (traj : Traj) (N k : Nat) : Option (List Obs) :=
  match twoLevelSched p b st traj with
  | .error _ => none
  | .ok s =>
    match s.first N with
    | .error _ => none
    | .ok evs =>
      some (twoLevelFwdObs s p N ++ evs.map (Ev.obs · N) ++
        (List.replicate (k - 1) ((s.again N).map (Ev.obs · N))).flatten)

/-- TwoLevel: the canonical trace with `k` adjoint calculations is accepted; storage is the
periodic checkpoints after every calculation -/
theorem twoLevel_clean (p b N k : Nat) (st : Storage) (traj : Traj) (hp : 1 ≤ p)
    (hst : st = .ram ∨ st = .disk) (hN : 1 ≤ N) (hk : 1 ≤ k) :
    ∃ obs, twoLevelObs p b st traj N k = some obs ∧
      Clean (cfgTwoLevel p b st N) (XS.init (cfgTwoLevel p b st N)) obs
        (X (some 1) 0 none none (sweepCps p N (ceilDiv N p)) true k (sweepCps p N (ceilDiv N p))) := by
  obtain ⟨⟨evs, hevs⟩, hpass⟩ := twoLevel_pass p b N st traj hp hst hN 0 (some N)
  have hfirst : (twoLevelS p b st traj).first N = .ok (⟨.endForward, N, 0⟩ :: twoLevelPass N p b st traj) := by
    simp only [twoLevelS, hevs]
  have hobs : twoLevelObs p b st traj N k = some
      (twoLevelFwdObs (twoLevelS p b st traj) p N ++
        (⟨.endForward, N, 0⟩ :: twoLevelPass N p b st traj).map (Ev.obs · N) ++
        (List.replicate (k - 1) ((twoLevelPass N p b st traj).map (Ev.obs · N))).flatten) := by
    simp only [twoLevelObs, twoLevelSched_ok p b st traj hp hst, hfirst]
    rfl
  refine ⟨_, hobs, ?_⟩
  -- forward sweep
  have h1 := twoLevel_forward p b N st traj hp hN (ceilDiv N p) (le_refl _)
  have hge := ceilDiv_ge N p hp
  have hd : decide (N ≤ ceilDiv N p * p) = true := by simpa using hge
  have hm : min (ceilDiv N p * p) N = N := by omega
  rw [hd, hm, XF_true] at h1
  -- EndForward
  have h2 := step_endForward (cfgTwoLevel p b st N) N none none (sweepCps p N (ceilDiv N p)) 0 [] rfl
    (alive_twoLevel p b N st 0)
  -- the further calculations
  have h3 := twoLevel_passes p b N st traj hp hst hN (k - 1) 1
  have e : 1 + (k - 1) = k := by omega
  rw [e] at h3
  rw [List.map_cons]
  exact Clean.append (Clean.append h1 (Clean.cons h2 hpass)) h3

example : ∃ obs, twoLevelObs 3 2 .ram .maximum 10 2 = some obs ∧
    Clean (cfgTwoLevel 3 2 .ram 10) (XS.init (cfgTwoLevel 3 2 .ram 10)) obs
      (X (some 1) 0 none none (sweepCps 3 10 4) true 2 (sweepCps 3 10 4)) :=
  twoLevel_clean 3 2 10 2 .ram .maximum (by omega) (Or.inl rfl) (by omega) (by omega)

example : ∃ obs, twoLevelObs 4 0 .disk .revolve 9 3 = some obs ∧
    Clean (cfgTwoLevel 4 0 .disk 9) (XS.init (cfgTwoLevel 4 0 .disk 9)) obs
      (X (some 1) 0 none none (sweepCps 4 9 3) true 3 (sweepCps 4 9 3)) :=
  twoLevel_clean 4 0 9 3 .disk .revolve (by omega) (Or.inr rfl) (by omega) (by omega)

/-! the observation list is what the canonical client records (checked on instances) -/

example : twoLevelObs 3 2 .disk .revolve 10 2
    = some (actLines ((twoLevelS 3 2 .disk .revolve).canon 10 2 500)) := by decide
example : twoLevelObs 4 1 .ram .maximum 9 3
    = some (actLines ((twoLevelS 4 1 .ram .maximum).canon 9 3 500)) := by decide
example : twoLevelObs 5 0 .ram .maximum 5 1
    = some (actLines ((twoLevelS 5 0 .ram .maximum).canon 5 1 500)) := by decide

end Ckpt.On
