import CkptVerif.Proofs.DP
/-!
# `optimal_steps_mixed` agrees with the cost computed by `mixed_step_memoization`

Both kernels compute, for a valid clamped key `(n, s)` with `n > s + 1`, `s ≥ 2`, the minimum of
`1 + cost(n-1, s-1)` and of `i + cost(i, s) + cost(n-i, s-1)` over `2 ≤ i < n`; the planner keeps
the last minimiser and compares with the `WRITE_ADJ_DEPS` candidate at the end, the helper folds
`min` starting from that candidate.
-/
namespace Ckpt

/-! ## the two folds compute the same minimum -/

/-- running minimum of `cand` over a list -/
def minFold (cand : Nat → Nat) (b : Nat) (l : List Nat) : Nat :=
  l.foldl (fun m i => min m (cand i)) b

theorem minFold_nil (cand : Nat → Nat) (b : Nat) : minFold cand b [] = b := rfl

theorem minFold_cons (cand : Nat → Nat) (b x : Nat) (l : List Nat) :
    minFold cand b (x :: l) = minFold cand (min b (cand x)) l := rfl

theorem minFold_min (cand : Nat → Nat) (a b : Nat) (l : List Nat) :
    minFold cand (min a b) l = min a (minFold cand b l) := by
  induction l generalizing b with
  | nil => rfl
  | cons x xs ih => rw [minFold_cons, minFold_cons, Nat.min_assoc, ih]

/-- from a `some` accumulator the planner's loop stays `some`, with the running minimum as cost -/
theorem memoStep_fold_some (cand : Nat → Nat) (l : List Nat) (c : Cell) :
    ∃ c', l.foldl (memoStep cand) (some c) = some c' ∧ c'.cost = minFold cand c.cost l := by
  induction l generalizing c with
  | nil => exact ⟨c, rfl, rfl⟩
  | cons x xs ih =>
    rw [List.foldl_cons, minFold_cons]
    by_cases hx : cand x ≤ c.cost
    · have e : memoStep cand (some c) x = some ⟨stWriteIcs, x, cand x⟩ := by
        show (if cand x ≤ c.cost then _ else _) = _
        rw [if_pos hx]
      rw [e]
      obtain ⟨c', h1, h2⟩ := ih ⟨stWriteIcs, x, cand x⟩
      refine ⟨c', h1, ?_⟩
      rw [h2, Nat.min_eq_right hx]
    · have e : memoStep cand (some c) x = some c := by
        show (if cand x ≤ c.cost then _ else _) = _
        rw [if_neg hx]
      rw [e]
      obtain ⟨c', h1, h2⟩ := ih c
      refine ⟨c', h1, ?_⟩
      rw [h2, Nat.min_eq_left (by omega)]

/-- the planner's loop followed by the final comparison has the cost computed by the `min`-fold -/
theorem memoFinish_fold_cost (cand : Nat → Nat) (m1 x : Nat) (xs : List Nat) :
    (memoFinish m1 ((x :: xs).foldl (memoStep cand) none)).cost = minFold cand m1 (x :: xs) := by
  rw [List.foldl_cons]
  have e : memoStep cand none x = some ⟨stWriteIcs, x, cand x⟩ := rfl
  rw [e]
  obtain ⟨c', h1, h2⟩ := memoStep_fold_some cand xs ⟨stWriteIcs, x, cand x⟩
  rw [h1, minFold_cons, minFold_min]
  show (if m1 < c'.cost then (⟨stWriteAdjDeps, 1, m1⟩ : Cell) else c').cost = _
  rw [← h2]
  by_cases hlt : m1 < c'.cost
  · rw [if_pos hlt, Nat.min_eq_left (by omega)]
  · rw [if_neg hlt, Nat.min_eq_right (by omega)]

/-! ## valid keys -/

theorem validKey_iff (n s : Nat) : validKey n s = true ↔ 1 ≤ n ∧ min 1 (n - 1) ≤ s ∧ s ≤ n - 1 := by
  unfold validKey
  rw [Bool.and_eq_true, Bool.and_eq_true, decide_eq_true_eq, decide_eq_true_eq, decide_eq_true_eq]
  exact and_assoc

theorem validKey_left (n s i : Nat) (_hn : s + 1 < n) (hs : 2 ≤ s) (h2 : 2 ≤ i) (_hi : i < n) :
    validKey i (clampS i s) = true := by
  rw [validKey_iff]; unfold clampS; omega

theorem validKey_right (n s i : Nat) (_hn : s + 1 < n) (hs : 2 ≤ s) (_h2 : 1 ≤ i) (hi : i < n) :
    validKey (n - i) (clampS (n - i) (s - 1)) = true := by
  rw [validKey_iff]; unfold clampS; omega

/-! ## the main statement -/

theorem optMixed_eq_memo_cost (n s : Nat) (h : validKey n s = true) :
    optMixedCell n s = (memoCell n s).cost := by
  induction n using Nat.strongRecOn generalizing s with
  | ind n ih =>
    rw [validKey_iff] at h
    rw [optMixedCell_eq, memoCell_eq, optMixedF_def, memoF_def]
    by_cases h1 : n ≤ 1
    · have h1' : n ≤ s + 1 := by omega
      have hn : n = 1 := by omega
      rw [if_pos h1, if_pos h1', hn]
    · rw [if_neg h1]
      by_cases h2 : n ≤ s + 1
      · rw [if_pos h2, if_pos h2]
      · rw [if_neg h2, if_neg h2]
        by_cases h3 : s = 1
        · rw [if_pos h3, if_pos h3]
        · rw [if_neg h3, if_neg h3]
          have hs : 2 ≤ s := by omega
          have hn : s + 1 < n := by omega
          -- the candidates agree by the induction hypothesis
          have hlast : optMixedCell (n - 1) (clampS (n - 1) (s - 1)) =
              (memoCell (n - 1) (clampS (n - 1) (s - 1))).cost :=
            ih (n - 1) (by omega) _ (validKey_right n s 1 hn hs (by omega) (by omega))
          have hcand : ∀ i, i ∈ List.range' 2 (n - 2) →
              splitCand n s optMixedCell i =
                splitCand n s (fun i j => (memoCell i j).cost) i := by
            intro i hi
            rw [List.mem_range'_1] at hi
            unfold splitCand
            rw [ih i (by omega) _ (validKey_left n s i hn hs (by omega) (by omega)),
              ih (n - i) (by omega) _ (validKey_right n s i hn hs (by omega) (by omega))]
          have hfold : ∀ b, (List.range' 2 (n - 2)).foldl
                (fun m i => min m (splitCand n s optMixedCell i)) b =
              minFold (splitCand n s (fun i j => (memoCell i j).cost)) b
                (List.range' 2 (n - 2)) := by
            intro b
            unfold minFold
            apply foldl_congr_mem
            intro a i hi
            show min a _ = min a _
            rw [hcand i hi]
          rw [hfold, hlast]
          -- the range is non-empty
          obtain ⟨k, hk⟩ : ∃ k, n - 2 = k + 1 := ⟨n - 3, by omega⟩
          rw [hk, List.range'_succ]
          exact (memoFinish_fold_cost _ _ _ _).symm

/-- in terms of the cached entry points (including the `ValueError` cases) -/
theorem optMixedSpec_eq_memoSpec_cost (n s : Nat) :
    optMixedSpec n s = (memoSpec n s).map (·.cost) := by
  show (if validKey n (clampS n s) = true then some (optMixedCell n (clampS n s)) else none) =
    Option.map (·.cost)
      (if validKey n (clampS n s) = true then some (memoCell n (clampS n s)) else none)
  by_cases h : validKey n (clampS n s) = true
  · rw [if_pos h, if_pos h, Option.map_some, optMixed_eq_memo_cost n _ h]
  · rw [if_neg h, if_neg h, Option.map_none]

end Ckpt
