import CkptVerif.Model.BasicIter
import CkptVerif.Proofs.CanonObs
/-!
# The iterative twins of basic_schedules.py refine to the `Sched` models

`singleMemoryIter`, `singleDiskIter mv`, `noneIter` (literal transcriptions of the generators after
finalisation, `Model/BasicIter.lean`) yield exactly `first N` followed by `again N` for each further
adjoint calculation of `singleMemorySched`, `singleDiskSched mv`, `noneSched`; they never raise.
-/
namespace Ckpt.On

/-! ## SingleMemory -/

/-- `k` further adjoint calculations from a state with `_r = 0` -/
theorem smLoop_passes (N : Nat) (hN : 1 ≤ N) (extra : Nat) :
    ∀ (k n : Nat) (ex : Bool) (out : List Ev),
      smLoop N (2 * k + 1 + extra) k ⟨n, 0, ex, out⟩
        = .ok ⟨n, 0, ex, out ++ (List.replicate k [(⟨.reverse N 0 false, n, N⟩ : Ev), ⟨.endReverse, n, 0⟩]).flatten⟩ := by
  intro k
  induction k with
  | zero =>
    intro n ex out
    rw [show 2 * 0 + 1 + extra = extra + 1 by omega]
    simp [smLoop]
  | succ k ih =>
    intro n ex out
    have e : 2 * (k + 1) + 1 + extra = (2 * k + 1 + extra) + 1 + 1 := by omega
    have hN0 : ¬ N = 0 := by omega
    rw [e]
    simp only [smLoop, Nat.add_one_ne_zero, if_false, if_true, BIter.yield, hN0, Nat.add_sub_cancel]
    rw [ih]
    simp [List.replicate_succ]

theorem singleMemoryIter_eq (N k fuel : Nat) (hN : 1 ≤ N) (hk : 1 ≤ k) (hfuel : 2 * k + 1 ≤ fuel) :
    singleMemoryIter N k fuel = singleMemorySched.stream N k := by
  obtain ⟨extra, rfl⟩ := Nat.exists_eq_add_of_le hfuel
  obtain ⟨k', rfl⟩ := Nat.exists_eq_add_of_le hk
  simp only [singleMemoryIter, BIter.start, BIter.yield, smLoop_passes N hN extra]
  simp [Sched.stream, singleMemorySched, Nat.add_comm 1 k', List.replicate_succ]

/-! ## SingleDisk -/

/-- lines 134-145 reverse the steps `j-1, …, 0` -/
theorem sdWhile_body (move : Bool) (N : Nat) (extra : Nat) :
    ∀ (j n : Nat) (ex : Bool) (out : List Ev), j ≤ N →
      sdWhile move N (j + 1 + extra) ⟨n, N - j, ex, out⟩
        = .ok ⟨if j = 0 then n else 0, N, ex, out ++ singleDiskBody move N j⟩ := by
  intro j
  induction j with
  | zero =>
    intro n ex out _
    rw [show 0 + 1 + extra = extra + 1 by omega]
    simp [sdWhile, singleDiskBody]
  | succ j ih =>
    intro n ex out hj
    have e : j + 1 + 1 + extra = (j + 1 + extra) + 1 := by omega
    have h1 : N - (j + 1) < N := by omega
    have h2 : N - (N - (j + 1)) - 1 = j := by omega
    have h3 : N - (N - (j + 1)) = j + 1 := by omega
    rw [e]
    simp only [sdWhile, h1, if_true, h3]
    have := ih j ex
      ((if move then ({ n := j, r := N - (j + 1), exhausted := ex, out := out } : BIter).yield (.move j .disk .work)
        else ({ n := j, r := N - (j + 1), exhausted := ex, out := out } : BIter).yield (.copy j .disk .work)).out
        ++ [⟨.reverse (j + 1) j true, j, N - j⟩]) (by omega)
    cases move <;> simp [BIter.yield, singleDiskBody] at this ⊢ <;> rw [this] <;> by_cases hj0 : j = 0 <;> simp [hj0]

theorem sdLoop_copy (N : Nat) (hN : 1 ≤ N) (extra : Nat) :
    ∀ (k n : Nat) (ex : Bool) (out : List Ev),
      sdLoop false N (N + k + 1 + extra) k ⟨n, 0, ex, out⟩
        = .ok ⟨if k = 0 then n else 0, 0, ex,
            out ++ (List.replicate k (singleDiskPass false N N)).flatten⟩ := by
  intro k
  induction k with
  | zero =>
    intro n ex out
    rw [show N + 0 + 1 + extra = (N + extra) + 1 by omega]
    simp [sdLoop]
  | succ k ih =>
    intro n ex out
    have e : N + (k + 1) + 1 + extra = (N + k + 1 + extra) + 1 := by omega
    have e2 : N + k + 1 + extra = N + 1 + (k + extra) := by omega
    have hw := sdWhile_body false N (k + extra) N n ex out (le_refl _)
    rw [Nat.sub_self] at hw
    have hN0 : ¬ N = 0 := by omega
    rw [e]
    simp only [sdLoop, Nat.add_one_ne_zero, if_false]
    rw [e2, hw, ← e2]
    simp only [gt_iff_lt, Nat.lt_irrefl, if_false, Bool.false_eq_true, BIter.yield, hN0, Nat.add_sub_cancel]
    rw [ih]
    simp [List.replicate_succ, singleDiskPass_eq]

theorem singleDiskIter_copy_eq (N k fuel : Nat) (hN : 1 ≤ N) (hk : 1 ≤ k) (hfuel : N + k + 1 ≤ fuel) :
    singleDiskIter false N k fuel = (singleDiskSched false).stream N k := by
  obtain ⟨extra, rfl⟩ := Nat.exists_eq_add_of_le hfuel
  obtain ⟨k', rfl⟩ := Nat.exists_eq_add_of_le hk
  simp only [singleDiskIter, BIter.start, BIter.yield, sdLoop_copy N hN extra]
  simp [Sched.stream, singleDiskSched, Nat.add_comm 1 k', List.replicate_succ]

theorem singleDiskIter_move_eq (N k fuel : Nat) (hN : 1 ≤ N) (hk : 1 ≤ k) (hfuel : N + 2 ≤ fuel) :
    singleDiskIter true N k fuel = (singleDiskSched true).stream N 1 := by
  obtain ⟨extra, rfl⟩ := Nat.exists_eq_add_of_le hfuel
  have e : N + 2 + extra = (N + 1 + extra) + 1 := by omega
  have hw := sdWhile_body true N extra N N false [⟨.endForward, N, 0⟩] (le_refl _)
  rw [Nat.sub_self] at hw
  have hk0 : ¬ k = 0 := by omega
  have hN0 : ¬ N = 0 := by omega
  rw [e]
  simp only [singleDiskIter, BIter.start, BIter.yield, sdLoop, hk0, if_false, List.nil_append, hw]
  simp [Sched.stream, singleDiskSched, singleDiskPass_eq, hN0]

/-- the generator of `move_data = True` ends exhausted -/
theorem sdLoop_move_exhausted (N k extra : Nat) (hk : 1 ≤ k) (s : BIter) (hs : s.r = 0) :
    ∃ s', sdLoop true N (N + 1 + extra + 1) k s = .ok s' ∧ s'.exhausted = true := by
  obtain ⟨n, r, ex, out⟩ := s
  simp only at hs
  subst hs
  have hw := sdWhile_body true N extra N n ex out (le_refl _)
  rw [Nat.sub_self] at hw
  have hk0 : ¬ k = 0 := by omega
  refine ⟨_, by simp only [sdLoop, hk0, if_false, hw, gt_iff_lt, Nat.lt_irrefl, if_true]; rfl, ?_⟩
  simp [BIter.yield]

/-! ## None -/

theorem noneIter_eq (N : Nat) : noneIter N = noneSched.stream N 1 := by
  simp [noneIter, noneIterState, BIter.start, BIter.yield, Sched.stream, noneSched]

theorem noneIter_exhausted (N : Nat) : (noneIterState N).exhausted = true := rfl

/-! ## default fuel -/

theorem singleMemoryIter_eq_default (N k : Nat) (hN : 1 ≤ N) (hk : 1 ≤ k) :
    singleMemoryIter N k (singleMemoryIterFuel k) = singleMemorySched.stream N k :=
  singleMemoryIter_eq N k _ hN hk (le_refl _)

theorem singleDiskIter_eq_default (move : Bool) (N k : Nat) (hN : 1 ≤ N) (hk : 1 ≤ k) :
    singleDiskIter move N k (singleDiskIterFuel N k)
      = (singleDiskSched move).stream N (if move then 1 else k) := by
  cases move
  · exact singleDiskIter_copy_eq N k _ hN hk (by unfold singleDiskIterFuel; omega)
  · exact singleDiskIter_move_eq N k _ hN hk (by unfold singleDiskIterFuel; omega)

example : singleDiskIter false 5 3 10 = (singleDiskSched false).stream 5 3 :=
  singleDiskIter_copy_eq 5 3 10 (by omega) (by omega) (by omega)
example : singleMemoryIter 5 3 7 = singleMemorySched.stream 5 3 :=
  singleMemoryIter_eq 5 3 7 (by omega) (by omega) (by omega)

end Ckpt.On
