import CkptVerif.Proofs.HRevolveLBTab
import CkptVerif.Proofs.HRevolveNoDisk
/-!
# The H-Revolve table is below every achievable hierarchical cost

For `k = c0 ≥ 1` the constructors of `HLB.A` are candidates of the recurrences of `hoptTable`, so
`opt[1][l][m] + (l+1)·uf ≤ v + (l+1)·ub` for every achievable `v` (`A c false c0 (l+1) m v`).
-/
namespace Ckpt.HLB
open Ckpt.RC Ckpt.GW

section
variable (lmax c0 c1 : Nat) (c : Costs)

/-- the table of `HRevolveOptimalT` -/
abbrev tabH : HTab := hoptTable lmax c0 c1 0 c.wd 0 c.rd c.ub c.uf

def Link (p : Bool) (l m v : Nat) : Prop :=
  ∃ t, (if p then (tabH lmax c0 c1 c).optp 1 l m else (tabH lmax c0 c1 c).opt 1 l m) = some t ∧
    t + (l + 1) * c.uf ≤ v + (l + 1) * c.ub

theorem opt0_val (hc0 : 1 ≤ c0) (l : Nat) (hl : l ≤ lmax) :
    ∃ X, (tabH lmax c0 c1 c).opt 0 l c0 = some X ∧ X + (l + 1) * c.uf = (l + 1) * c.ub + Rr c (l + 1) c0 := by
  refine ⟨opt0Get (opt0Table lmax c0 c.uf c.ub) c0 l,
    (hopt0_eq_opt0 lmax c0 c1 c.wd c.rd c.ub c.uf hc0 l hl c0 hc0 (le_refl _)).2, ?_⟩
  exact opt0_eq_gwT lmax c0 c.uf c.ub l c0 hl hc0 (le_refl _)

theorem link (hc0 : 1 ≤ c0) {p : Bool} {k n m v : Nat} (h : A c p k n m v) :
    k = c0 → ∀ l, n = l + 1 → l ≤ lmax → m ≤ c1 → Link lmax c0 c1 c p l m v := by
  induction h with
  | t_one k m =>
    intro _ l hl _ hm
    have hl0 : l = 0 := by omega
    subst hl0
    refine ⟨c.ub, ?_, by omega⟩
    simp only [Bool.false_eq_true, if_false]
    exact (hopt1_row0 lmax c0 c1 0 c.wd 0 c.rd c.ub c.uf m hm).2
  | t_ram k n m hk hn =>
    intro hkc l hl hll hm
    subst hkc; subst hl
    obtain ⟨X, hX, hXv⟩ := opt0_val lmax k c1 c hc0 l hll
    have hle := hopt1_le_level0 lmax k c1 0 c.wd 0 c.rd c.ub c.uf hc0 l m hll hm
    obtain ⟨t, ht⟩ := Option.isSome_iff_exists.1
      (hopt1_isSome lmax k c1 0 c.wd 0 c.rd c.ub c.uf hc0 l m hll hm)
    refine ⟨t, ?_, ?_⟩
    · simp only [Bool.false_eq_true, if_false]; exact ht
    · have hX' : (hoptTable lmax k c1 0 c.wd 0 c.rd c.ub c.uf).opt 0 l k = some X := hX
      rw [ht, hX', ole_some_some] at hle
      omega
  | t_disk k n m v hm hp ih =>
    intro hkc l hl hll hmc
    subst hkc; subst hl
    obtain ⟨t', ht', hle'⟩ := ih rfl l rfl hll hmc
    simp only [if_true] at ht'
    rcases Nat.eq_zero_or_pos l with rfl | hl1
    · refine ⟨c.ub, ?_, ?_⟩
      · simp only [Bool.false_eq_true, if_false]
        exact (hopt1_row0 lmax k c1 0 c.wd 0 c.rd c.ub c.uf m hmc).2
      · have := A_ge_uf hp
        omega
    · obtain ⟨_, o1⟩ := hopt1_rec lmax k c1 0 c.wd 0 c.rd c.ub c.uf l m hl1 hll hm hmc
      obtain ⟨t, ht⟩ := Option.isSome_iff_exists.1
        (hopt1_isSome lmax k c1 0 c.wd 0 c.rd c.ub c.uf hc0 l m hll hmc)
      refine ⟨t, ?_, ?_⟩
      · simp only [Bool.false_eq_true, if_false]; exact ht
      · have ht'' : (hoptTable lmax k c1 0 c.wd 0 c.rd c.ub c.uf).optp 1 l m = some t' := ht'
        have hle := omin_le_right ((hoptTable lmax k c1 0 c.wd 0 c.rd c.ub c.uf).opt 0 l k)
          (oadd (some c.wd) ((hoptTable lmax k c1 0 c.wd 0 c.rd c.ub c.uf).optp 1 l m))
        rw [← o1, ht, ht''] at hle
        simp only [oadd] at hle
        rw [ole_some_some] at hle
        omega
  | p_one k m hm =>
    intro _ l hl _ hmc
    have hl0 : l = 0 := by omega
    subst hl0
    refine ⟨c.ub, ?_, by omega⟩
    simp only [if_true]
    exact (hopt1_row0 lmax c0 c1 0 c.wd 0 c.rd c.ub c.uf m hmc).1
  | p_ram k n m hk hn hm =>
    intro hkc l hl hll hmc
    subst hkc; subst hl
    obtain ⟨X, hX, hXv⟩ := opt0_val lmax k c1 c hc0 l hll
    obtain ⟨p1, _⟩ := hopt1_rec lmax k c1 0 c.wd 0 c.rd c.ub c.uf l m (by omega) hll hm hmc
    obtain ⟨t, ht⟩ := Option.isSome_iff_exists.1
      (hopt1_optp_isSome lmax k c1 0 c.wd 0 c.rd c.ub c.uf hc0 l m (by omega) hll hm hmc)
    refine ⟨t, ?_, ?_⟩
    · simp only [if_true]; exact ht
    · have hX' : (hoptTable lmax k c1 0 c.wd 0 c.rd c.ub c.uf).opt 0 l k = some X := hX
      have hle := ominList_le _ _ (List.mem_cons_self (a := (hoptTable lmax k c1 0 c.wd 0 c.rd c.ub c.uf).opt 0 l k)
        (l := (List.range' 1 (l - 1)).map (fun j =>
          oadd (oadd (oadd (some (j * c.uf)) ((hoptTable lmax k c1 0 c.wd 0 c.rd c.ub c.uf).opt 1 (l - j) (m - 1)))
            (some c.rd)) ((hoptTable lmax k c1 0 c.wd 0 c.rd c.ub c.uf).optp 1 (j - 1) m))))
      rw [← p1, ht, hX', ole_some_some] at hle
      omega
  | p_split k n m j v1 v2 hm hj1 hj2 hjk h1 h2 ih1 ih2 =>
    intro hkc l hl hll hmc
    subst hkc; subst hl
    have hj := hjk hc0
    obtain ⟨t1, ht1, hle1⟩ := ih1 rfl (l - j) (by omega) (by omega) (by omega)
    obtain ⟨t2, ht2, hle2⟩ := ih2 rfl (j - 1) (by omega) (by omega) hmc
    simp only [Bool.false_eq_true, if_false] at ht1
    simp only [if_true] at ht2
    obtain ⟨p1, _⟩ := hopt1_rec lmax k c1 0 c.wd 0 c.rd c.ub c.uf l m (by omega) hll hm hmc
    obtain ⟨t, ht⟩ := Option.isSome_iff_exists.1
      (hopt1_optp_isSome lmax k c1 0 c.wd 0 c.rd c.ub c.uf hc0 l m (by omega) hll hm hmc)
    refine ⟨t, ?_, ?_⟩
    · simp only [if_true]; exact ht
    · have ht1' : (hoptTable lmax k c1 0 c.wd 0 c.rd c.ub c.uf).opt 1 (l - j) (m - 1) = some t1 := ht1
      have ht2' : (hoptTable lmax k c1 0 c.wd 0 c.rd c.ub c.uf).optp 1 (j - 1) m = some t2 := ht2
      have hmem : oadd (oadd (oadd (some (j * c.uf)) ((hoptTable lmax k c1 0 c.wd 0 c.rd c.ub c.uf).opt 1 (l - j) (m - 1)))
            (some c.rd)) ((hoptTable lmax k c1 0 c.wd 0 c.rd c.ub c.uf).optp 1 (j - 1) m) ∈
          (hoptTable lmax k c1 0 c.wd 0 c.rd c.ub c.uf).opt 0 l k ::
          (List.range' 1 (l - 1)).map (fun j =>
            oadd (oadd (oadd (some (j * c.uf)) ((hoptTable lmax k c1 0 c.wd 0 c.rd c.ub c.uf).opt 1 (l - j) (m - 1)))
              (some c.rd)) ((hoptTable lmax k c1 0 c.wd 0 c.rd c.ub c.uf).optp 1 (j - 1) m)) := by
        apply List.mem_cons_of_mem
        apply List.mem_map.2
        exact ⟨j, List.mem_range'_1.2 ⟨hj1, by omega⟩, rfl⟩
      have hle := ominList_le _ _ hmem
      rw [← p1, ht, ht1', ht2'] at hle
      simp only [oadd] at hle
      rw [ole_some_some] at hle
      have e1 : (l - j + 1) * c.uf + j * c.uf = (l + 1) * c.uf := by
        rw [← Nat.add_mul]; congr 1; omega
      have e2 : (l - j + 1) * c.ub + j * c.ub = (l + 1) * c.ub := by
        rw [← Nat.add_mul]; congr 1; omega
      have e3 : j - 1 + 1 = j := by omega
      rw [e3] at hle2
      omega

end

/-- **the link**: with `k = c0 ≥ 1`, `N ≥ 1`, `m ≤ c1`: the table value for `N` steps is below every
achievable cost -/
theorem table_le (N c0 c1 tv v : Nat) (c : Costs) (hN : 1 ≤ N) (hc0 : 1 ≤ c0)
    (ht : (hoptTable (N - 1) c0 c1 0 c.wd 0 c.rd c.ub c.uf).opt 1 (N - 1) c1 = some tv)
    (h : A c false c0 N c1 v) : tv + N * c.uf ≤ v + N * c.ub := by
  obtain ⟨t, ht', hle⟩ := link (N - 1) c0 c1 c hc0 h rfl (N - 1) (by omega) (le_refl _) (le_refl _)
  simp only [Bool.false_eq_true, if_false] at ht'
  have : (hoptTable (N - 1) c0 c1 0 c.wd 0 c.rd c.ub c.uf).opt 1 (N - 1) c1 = some t := ht'
  rw [ht] at this
  have e : tv = t := Option.some.inj this
  have e2 : N - 1 + 1 = N := by omega
  rw [e2] at hle
  omega

end Ckpt.HLB

#print axioms Ckpt.HLB.table_le
