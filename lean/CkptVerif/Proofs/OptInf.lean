import CkptVerif.Model.Revolve
import CkptVerif.Proofs.Opt0
import Mathlib.Tactic
/-!
# The one-read-disk cost table `optInfTable` satisfies its recurrence

`tinf[0] = ub`, `tinf[1] = uf + 2ub` (`cm ≥ 1`), and for `l ≥ 2`
`tinf[l] = min (opt0[cm][l]) (min_{1 ≤ j ≤ l-1} (wr + j·uf + tinf[l-j] + opt0[cm][j-1]))`;
hence `tinf[l] ≤ opt0[cm][l]`: with a disk the optimal cost can only go down.
-/
namespace Ckpt.RC

/-- the candidates "write a DISK checkpoint, advance `j` steps" for `tinf[l]`, reading earlier
entries from `tab` -/
def optInfCands (cm uf wr : Nat) (t0 : Array (Array Nat)) (tab : Array Nat) (l : Nat) : List Nat :=
  (List.range' 1 (l - 1)).map (fun j => wr + j * uf + tab.getD (l - j) 0 + opt0Get t0 cm (j - 1))

theorem optInfTable_eq (lmax cm uf ub wr : Nat) (t0 : Array (Array Nat)) :
    optInfTable lmax cm uf ub wr t0 = (List.range' 2 (lmax - 1)).foldl (fun tab l =>
      tab.push (min (opt0Get t0 cm l)
        ((optInfCands cm uf wr t0 tab l).foldl min ((optInfCands cm uf wr t0 tab l).headD 0))))
      #[ub, if cm = 0 then wr + uf + 2 * ub else uf + 2 * ub] := rfl

theorem optInfCands_congr (cm uf wr : Nat) (t0 : Array (Array Nat)) (tab tab' : Array Nat) (l : Nat)
    (h : ∀ j, j < l → tab[j]? = tab'[j]?) :
    optInfCands cm uf wr t0 tab l = optInfCands cm uf wr t0 tab' l := by
  unfold optInfCands
  apply List.map_congr_left
  intro j hj
  have := List.mem_range'_1.1 hj
  simp only [Array.getD_eq_getD_getElem?]
  rw [h (l - j) (by omega)]

/-- (a) the recurrence of `optInfTable` -/
theorem optInfTable_spec (lmax cm uf ub wr : Nat) (t0 : Array (Array Nat)) :
    (optInfTable lmax cm uf ub wr t0).getD 0 0 = ub ∧
    (1 ≤ cm → (optInfTable lmax cm uf ub wr t0).getD 1 0 = uf + 2 * ub) ∧
    (cm = 0 → (optInfTable lmax cm uf ub wr t0).getD 1 0 = wr + uf + 2 * ub) ∧
    ∀ l, 2 ≤ l → l ≤ lmax → (optInfTable lmax cm uf ub wr t0).getD l 0 =
      min (opt0Get t0 cm l)
        ((optInfCands cm uf wr t0 (optInfTable lmax cm uf ub wr t0) l).foldl min
          ((optInfCands cm uf wr t0 (optInfTable lmax cm uf ub wr t0) l).headD 0)) := by
  rw [optInfTable_eq]
  obtain ⟨_, h2, h3⟩ := pushFold_spec (fun tab l => min (opt0Get t0 cm l)
    ((optInfCands cm uf wr t0 tab l).foldl min ((optInfCands cm uf wr t0 tab l).headD 0)))
    (lmax - 1) 2 #[ub, if cm = 0 then wr + uf + 2 * ub else uf + 2 * ub] rfl
  refine ⟨?_, ?_, ?_, ?_⟩
  · rw [Array.getD_eq_getD_getElem?, h2 0 (by omega)]; rfl
  · intro hcm
    have : ¬ cm = 0 := by omega
    rw [Array.getD_eq_getD_getElem?, h2 1 (by omega)]
    simp [this]
  · intro hcm
    rw [Array.getD_eq_getD_getElem?, h2 1 (by omega)]
    simp [hcm]
  · intro l hl2 hl
    obtain ⟨row, _, hrow, hval⟩ := h3 l hl2 (by omega)
    rw [Array.getD_eq_getD_getElem?, hval, optInfCands_congr cm uf wr t0 row _ l hrow]
    rfl

/-- the recurrence with the candidate list written out as in the model -/
theorem optInf_rec (lmax cm uf ub wr : Nat) (t0 : Array (Array Nat)) (l : Nat) (hl2 : 2 ≤ l)
    (hl : l ≤ lmax) :
    let tinf := optInfTable lmax cm uf ub wr t0
    let cands := (List.range' 1 (l - 1)).map (fun j =>
      wr + j * uf + tinf.getD (l - j) 0 + opt0Get t0 cm (j - 1))
    tinf.getD l 0 = min (opt0Get t0 cm l) (cands.foldl min (cands.headD 0)) :=
  (optInfTable_spec lmax cm uf ub wr t0).2.2.2 l hl2 hl

/-- (b) `tinf[l] ≤ opt0[cm][l]`: DiskRevolve's table is never above Revolve's -/
theorem optInf_le_opt0 (lmax lmax0 mmax cm uf ub wr : Nat) (hcm1 : 1 ≤ cm) (hcm : cm ≤ mmax)
    (l : Nat) (hl : l ≤ lmax) :
    (optInfTable lmax cm uf ub wr (opt0Table lmax0 mmax uf ub)).getD l 0
      ≤ opt0Get (opt0Table lmax0 mmax uf ub) cm l := by
  obtain ⟨h0, h1, _, h2⟩ := optInfTable_spec lmax cm uf ub wr (opt0Table lmax0 mmax uf ub)
  rcases Nat.lt_or_ge l 2 with hlt | hge
  · rcases Nat.eq_zero_or_pos l with rfl | hpos
    · rw [h0, opt0Get_zero _ _ _ _ _ hcm]
    · have : l = 1 := by omega
      subst this
      rw [h1 hcm1, opt0Get_one _ _ _ _ _ hcm1 hcm]
  · rw [h2 l hge hl]; exact Nat.min_le_left _ _

example : (optInfTable 8 1 1 1 2 (opt0Table 8 1 1 1)).getD 8 0 = 27 ∧
    opt0Get (opt0Table 8 1 1 1) 1 8 = 45 := by decide +kernel

end Ckpt.RC
