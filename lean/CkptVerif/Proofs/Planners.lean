import CkptVerif.Model.Planners
import CkptVerif.Proofs.MixedStream
/-!
The planners the driver executes coincide with the specification planner `memoPlan` on every key
a stream for `N ≤ T.size` can query; hence the driver's Mixed streams (both code paths) are the
stream `mixedEvs memoPlan` the theorems are about.
-/
namespace Ckpt

theorem memoPlanner_eq (n : Nat) (m k : Nat) (hm : m ≤ n) :
    memoPlanner (Tabs.mk' n) m k = memoPlan m k := by
  unfold memoPlanner memoPlan Tabs.mk'
  dsimp only
  have hc : clampS m k < n + 1 := by unfold clampS; omega
  rw [dpGet_memoTable n (n + 1) m (clampS m k) hm hc]

theorem mixedEvs_memoPlanner (n N s : Nat) (st : Storage) (hN : N ≤ n) :
    mixedEvs (memoPlanner (Tabs.mk' n)) N s st = mixedEvs memoPlan N s st :=
  mixedEvs_congr _ _ N s st (fun m k hm _ => memoPlanner_eq n m k (by omega))

theorem mixedEvs_tabPlanner (n N s : Nat) (st : Storage) (hn : 1 ≤ n) (hN : N ≤ n) :
    mixedEvs (tabPlanner (Tabs.mk' n)) N s st = mixedEvs memoPlan N s st := by
  obtain ⟨t, ht, _⟩ := mixedTab_spec n n hn
  have e : tabPlanner (Tabs.mk' n) = tabPlan t := by
    unfold tabPlanner Tabs.mk'
    simp only [ht]
    rfl
  rw [e]
  exact mixedEvs_tab_eq_memo n n t ht N s st hN (by omega)

end Ckpt
