import CkptVerif.Proofs.LBPlans
import CkptVerif.Proofs.Meaning
import CkptVerif.Proofs.StepBridges
/-!
# C05: no executable schedule beats the binomial optimum

`C05_full`: every action stream that the checking executor `Spec/Exec.lean` accepts without a single
violation for the configuration "offline, `N` steps, at most `s` stored checkpoints, one adjoint
calculation, one step of adjoint dependencies in working storage", that completes the adjoint
calculation, and whose stored checkpoints hold restart data only, performs at least
`N + optimal_extra_steps(N, min(s, N-1))` forward steps.  No structure is assumed of the stream.

Proof: backward induction along the stream with the potential of `Proofs/LBPlans.lean`: at every
state, some plan costs no more than the forward steps still to come.
-/
namespace Ckpt.GW
open Ckpt.Mean

/-- forward steps performed by one action -/
def actFwd : Action → Nat
  | .forward n0 n1 _ _ _ => n1 - n0
  | _ => 0

/-- total number of forward steps of a stream of observations -/
def obsFwdSteps (os : List Obs) : Nat := (os.map (fun o => actFwd o.act)).sum

/-- a `Forward` that writes adjoint dependency data into a storage unit (the "mixed" mechanism) -/
def storesDeps : Action → Bool
  | .forward _ _ _ wa st => wa && st.isStore
  | _ => false

/-- what is assumed of the configuration: offline, one adjoint calculation, `s` units in all -/
structure CfgHyp (cfg : Cfg) (s : Nat) : Prop where
  budget : ∃ ra di, cfg.ram = some ra ∧ cfg.disk = some di ∧ ra + di = s
  passes : cfg.passes = some 1
  keeps : cfg.keepsAllDeps = false
  offline : cfg.online = false

theorem chk_nil_iff {c : Bool} {t : Tag} {n : Nat} : chk c t n = [] ↔ c = true := by
  cases c <;> simp [chk]

/-- positions of the available forward states: stored checkpoints and working storage -/
def avail (x : XS) : List Nat := x.cps.map (·.n) ++ x.fwd.toList

/-- invariant of the accepted prefixes -/
structure Inv (cfg : Cfg) (s : Nat) (x : XS) : Prop where
  fin : x.fin = true
  r_le : x.r ≤ cfg.N
  cps : ∀ c ∈ x.cps, c.deps = 0 ∧ c.st.isStore = true
  len : x.cps.length ≤ s
  deps : x.wDeps = none ∨ ∃ p, x.wDeps = some (p, p + 1) ∧ cfg.N - x.r ≤ p + 1 ∧
    (cfg.N - x.r = p + 1 → x.fwd = some (p + 1))
  done : 1 ≤ x.done → x.r = cfg.N

/-- the adjoint data of the step below the adjoint position is in working storage -/
def Flagged (cfg : Cfg) (x : XS) : Prop :=
  1 ≤ cfg.N - x.r ∧ x.wDeps = some (cfg.N - x.r - 1, cfg.N - x.r)

/-- the potential: a plan for the current state costs at most `n` -/
def Pot (cfg : Cfg) (s : Nat) (x : XS) (n : Nat) : Prop :=
  (Flagged cfg x → Reach s (avail x) (cfg.N - x.r - 1) n) ∧
  (¬ Flagged cfg x → Reach s (avail x) (cfg.N - x.r) n)

theorem length_eq_countSt (l : List Cp) (h : ∀ c ∈ l, c.st.isStore = true) :
    l.length = countSt l .ram + countSt l .disk := by
  induction l with
  | nil => rfl
  | cons c l ih =>
    rw [countSt_cons, countSt_cons, List.length_cons, ih (fun c' hc' => h c' (List.mem_cons_of_mem _ hc'))]
    have := h c (List.mem_cons_self ..)
    cases hc : c.st <;> simp [hc, Storage.isStore] at this ⊢ <;> omega

theorem length_le_of_budget {cfg : Cfg} {s : Nat} (H : CfgHyp cfg s) (l : List Cp)
    (h : ∀ c ∈ l, c.st.isStore = true) (hb : withinBudget cfg l = true) : l.length ≤ s := by
  obtain ⟨ra, di, hra, hdi, hs⟩ := H.budget
  rw [withinBudget_iff] at hb
  have := hb.1 ra hra
  have := hb.2 di hdi
  rw [length_eq_countSt l h]
  omega

theorem countSt_st_irrel (c c' : Cp) (l : List Cp) (h : c.st = c'.st) (s : Storage) :
    countSt (c :: l) s = countSt (c' :: l) s := by
  rw [countSt_cons, countSt_cons, h]

/-! ## the steps of the executor -/

theorem fwd_clean {cfg : Cfg} {x : XS} {n0 n1 : Nat} {wi wa : Bool} {st : Storage}
    (hfin : x.fin = true) (h : actViols cfg x (.forward n0 n1 wi wa st) = []) :
    n0 < n1 ∧ x.fwd = some n0 ∧ n1 ≤ cfg.N - x.r ∧
    (st.isStore = true → (wi = true ∨ wa = true) ∧
        withinBudget cfg ({ n := n0, st := st, ics := 0, deps := 0 } :: x.cps) = true) ∧
    (st = .work → wa = true → cfg.keepsAllDeps = false → n1 = n0 + 1 ∧ n1 = cfg.N - x.r) := by
  have hclip : clip cfg x n1 = n1 := by simp [clip, hfin]
  simp only [actViols, hclip, List.append_eq_nil_iff, chk_nil_iff] at h
  obtain ⟨⟨⟨⟨⟨⟨h1, h2⟩, h3⟩, h4⟩, h5⟩, h6⟩, h7⟩ := h
  simp only [hfin, Bool.not_true, Bool.false_or, decide_eq_true_eq] at h1 h4 h5
  refine ⟨h1, h4, h5, ?_, ?_⟩
  · intro hs
    rw [if_pos hs] at h6
    simp only [List.append_eq_nil_iff, chk_nil_iff] at h6
    simp only [hs, Bool.not_true, Bool.false_or, Bool.or_eq_true] at h2
    exact ⟨h2, h6.2⟩
  · intro hw hwa hk
    rw [if_pos hw] at h7
    simp only [chk_nil_iff, hwa, hk, Bool.not_true, Bool.false_or, Bool.or_false, decide_eq_true_eq] at h7
    exact h7

theorem mem_avail {x : XS} {e : Nat} : e ∈ avail x ↔ (∃ c ∈ x.cps, c.n = e) ∨ x.fwd = some e := by
  unfold avail
  rw [List.mem_append, List.mem_map]
  cases x.fwd <;> simp [eq_comm]

theorem step_forward {cfg : Cfg} {s : Nat} (H : CfgHyp cfg s) {x : XS} (hinv : Inv cfg s x)
    {n0 n1 : Nat} {wi wa : Bool} {st : Storage}
    (h : actViols cfg x (.forward n0 n1 wi wa st) = [])
    (hnd : storesDeps (.forward n0 n1 wi wa st) = false) :
    Inv cfg s (nextState cfg x (.forward n0 n1 wi wa st)) ∧
    ∀ n, Pot cfg s (nextState cfg x (.forward n0 n1 wi wa st)) n → Pot cfg s x (n + (n1 - n0)) := by
  obtain ⟨hlt, hfwd, hle, hstore, hwork⟩ := fwd_clean hinv.fin h
  have hclip : clip cfg x n1 = n1 := by simp [clip, hinv.fin]
  -- the state after the action
  generalize hx' : nextState cfg x (.forward n0 n1 wi wa st) = x'
  have e_fwd : x'.fwd = some n1 := by rw [← hx']; simp only [nextState, hclip]
  have e_r : x'.r = x.r := by rw [← hx']; rfl
  have e_done : x'.done = x.done := by rw [← hx']; rfl
  have e_fin : x'.fin = true := by rw [← hx']; simp only [nextState, hinv.fin, Bool.true_or]
  have e_deps : x'.wDeps = if st = .work ∧ wa = true then some (n0, n1) else none := by
    rw [← hx']; simp only [nextState, hclip]
  have e_cps : x'.cps = if st.isStore = true
      then { n := n0, st := st, ics := if wi = true then n1 - n0 else 0,
             deps := if wa = true then n1 - n0 else 0 } :: x.cps else x.cps := by
    rw [← hx']; simp only [nextState, hclip]
  have hstore_false : st.isStore = true → wa = false := by
    intro hs
    simp only [storesDeps, hs, Bool.and_true] at hnd
    exact hnd
  have hInv : Inv cfg s x' := by
    refine ⟨e_fin, by rw [e_r]; exact hinv.r_le, ?_, ?_, ?_, by rw [e_done, e_r]; exact hinv.done⟩
    · intro c hc
      rw [e_cps] at hc
      by_cases hs : st.isStore = true
      · rw [if_pos hs] at hc
        rcases List.mem_cons.mp hc with rfl | hc
        · exact ⟨by simp [hstore_false hs], hs⟩
        · exact hinv.cps c hc
      · rw [if_neg hs] at hc
        exact hinv.cps c hc
    · rw [e_cps]
      by_cases hs : st.isStore = true
      · rw [if_pos hs]
        apply length_le_of_budget H
        · intro c hc
          rcases List.mem_cons.mp hc with rfl | hc
          · exact hs
          · exact (hinv.cps c hc).2
        · have hb := (hstore hs).2
          refine withinBudget_mono (b := { n := n0, st := st, ics := 0, deps := 0 } :: x.cps) ?_ hb
          intro s'
          exact le_of_eq (by rw [countSt_cons, countSt_cons])
      · rw [if_neg hs]; exact hinv.len
    · rw [e_deps, e_r, e_fwd]
      by_cases hw : st = .work ∧ wa = true
      · rw [if_pos hw]
        obtain ⟨h1, h2⟩ := hwork hw.1 hw.2 H.keeps
        right
        exact ⟨n0, by rw [h1], by omega, fun _ => by rw [h1]⟩
      · rw [if_neg hw]; left; rfl
  refine ⟨hInv, ?_⟩
  intro n hp
  -- the state before is not flagged: the forward state would stand at the adjoint position
  have hnf : ¬ Flagged cfg x := by
    rintro ⟨ha, hd⟩
    rcases hinv.deps with h0 | ⟨p, hp1, hp2, hp3⟩
    · rw [h0] at hd; cases hd
    · rw [hp1] at hd
      simp only [Option.some.injEq, Prod.mk.injEq] at hd
      have := hp3 (by omega)
      rw [hfwd] at this
      simp only [Option.some.injEq] at this
      omega
  refine ⟨fun hf => absurd hf hnf, fun _ => ?_⟩
  have hn0 : n0 ∈ avail x := mem_avail.mpr (Or.inr hfwd)
  by_cases hw : st = .work ∧ wa = true
  · -- the turn-around
    obtain ⟨h1, h2⟩ := hwork hw.1 hw.2 H.keeps
    have hns : ¬ st.isStore = true := by rw [hw.1]; decide
    have hfl : Flagged cfg x' := by
      refine ⟨by rw [e_r]; omega, ?_⟩
      rw [e_deps, if_pos hw, e_r]
      have : cfg.N - x.r - 1 = n0 := by omega
      rw [this, ← h2]
    have hr := hp.1 hfl
    rw [e_r] at hr
    have e1 : n1 - n0 = 1 := by omega
    rw [e1]
    have ea : cfg.N - x.r - 1 = n0 := by omega
    have ha1 : 1 ≤ cfg.N - x.r := by omega
    have hmem : cfg.N - x.r - 1 ∈ avail x := by rw [ea]; exact hn0
    refine reach_turn (C := x.cps.map (·.n)) ha1 hmem
      (by rw [List.length_map]; exact hinv.len) ?_ ?_ hr
    · intro e he hlt'
      rcases mem_avail.mp he with ⟨c, hc, rfl⟩ | he
      · rw [e_cps, if_neg hns] at hc
        exact List.mem_map.mpr ⟨c, hc, rfl⟩
      · rw [e_fwd] at he
        simp only [Option.some.injEq] at he
        omega
    · intro e he
      obtain ⟨c, hc, rfl⟩ := List.mem_map.mp he
      exact mem_avail.mpr (Or.inl ⟨c, hc, rfl⟩)
  · have hnf' : ¬ Flagged cfg x' := by
      rintro ⟨_, hd⟩
      rw [e_deps, if_neg hw] at hd
      cases hd
    have hr := hp.2 hnf'
    rw [e_r] at hr
    refine reach_fwd hn0 hlt ?_ hr
    intro e he
    rcases mem_avail.mp he with ⟨c, hc, rfl⟩ | he
    · rw [e_cps] at hc
      by_cases hs : st.isStore = true
      · rw [if_pos hs] at hc
        rcases List.mem_cons.mp hc with rfl | hc
        · exact Or.inr hn0
        · exact Or.inr (mem_avail.mpr (Or.inl ⟨c, hc, rfl⟩))
      · rw [if_neg hs] at hc
        exact Or.inr (mem_avail.mpr (Or.inl ⟨c, hc, rfl⟩))
    · rw [e_fwd] at he
      simp only [Option.some.injEq] at he
      exact Or.inl he.symm

/-- an action that neither moves the adjoint nor creates a forward state at a new position -/
theorem step_loadlike {cfg : Cfg} {s : Nat} {x x' : XS} (hinv : Inv cfg s x)
    (hr : x'.r = x.r) (hdone : x'.done = x.done) (hfin : x'.fin = x.fin)
    (hcps : ∀ c ∈ x'.cps, c.deps = 0 ∧ c.st.isStore = true) (hlen : x'.cps.length ≤ s)
    (havail : ∀ e ∈ avail x', e ∈ avail x)
    (hdeps : (x'.wDeps = x.wDeps ∧ x'.fwd = x.fwd) ∨ (x'.wDeps = none ∧ x.wDeps = none)) :
    Inv cfg s x' ∧ ∀ n, Pot cfg s x' n → Pot cfg s x n := by
  have hfl : Flagged cfg x' ↔ Flagged cfg x := by
    unfold Flagged
    rw [hr]
    rcases hdeps with ⟨h1, _⟩ | ⟨h1, h2⟩
    · rw [h1]
    · rw [h1, h2]
  refine ⟨⟨by rw [hfin]; exact hinv.fin, by rw [hr]; exact hinv.r_le, hcps, hlen, ?_,
    by rw [hdone, hr]; exact hinv.done⟩, ?_⟩
  · rcases hdeps with ⟨h1, h2⟩ | ⟨h1, _⟩
    · rw [h1, h2, hr]; exact hinv.deps
    · left; exact h1
  · intro n hp
    refine ⟨fun hf => ?_, fun hf => ?_⟩
    · have := hp.1 (hfl.mpr hf)
      rw [hr] at this
      exact reach_sub havail this
    · have := hp.2 (fun h => hf (hfl.mp h))
      rw [hr] at this
      exact reach_sub havail this

theorem load_clean {cfg : Cfg} {x : XS} {n : Nat} {src dst : Storage}
    (h : actViols.loadViols cfg x n src dst = []) :
    ∃ c, findCp x.cps n src = some c ∧ (dst = .work → x.wDeps = none) ∧
      (dst.isStore = true → withinBudget cfg ({ c with st := dst } :: x.cps) = true) := by
  simp only [actViols.loadViols, List.append_eq_nil_iff, chk_nil_iff] at h
  obtain ⟨⟨_, _⟩, h3⟩ := h
  cases hf : findCp x.cps n src with
  | none => rw [hf] at h3; cases h3
  | some c =>
    rw [hf] at h3
    simp only [List.append_eq_nil_iff, chk_nil_iff] at h3
    obtain ⟨⟨_, h4⟩, h5⟩ := h3
    refine ⟨c, rfl, ?_, ?_⟩
    · intro hd
      rw [if_pos hd, chk_nil_iff, Bool.and_eq_true] at h4
      simpa using h4.2
    · intro hd
      rw [if_pos hd] at h5
      simp only [List.append_eq_nil_iff, chk_nil_iff] at h5
      exact h5.2
/-- `Copy` and `Move` at once: `cps0` is what is left of the stored checkpoints -/
theorem step_load_gen {cfg : Cfg} {s : Nat} (H : CfgHyp cfg s) {x : XS} (hinv : Inv cfg s x)
    {n : Nat} {dst : Storage} {c : Cp} (hcm : c ∈ x.cps) (hcn : c.n = n)
    (hwork : dst = .work → x.wDeps = none)
    (hstore : dst.isStore = true → withinBudget cfg ({ c with st := dst } :: x.cps) = true)
    (cps0 : List Cp) (hsub : ∀ c' ∈ cps0, c' ∈ x.cps) (hlen0 : cps0.length ≤ x.cps.length)
    (hcount : ∀ s', countSt cps0 s' ≤ countSt x.cps s')
    (x' : XS)
    (hx' : x' = if dst = .work then
        { x with cps := if dst.isStore then { c with st := dst } :: cps0 else cps0,
                 fwd := if c.ics > 0 then some n else none,
                 wIcs := if c.ics > 0 then some (n, n + c.ics) else none,
                 wDeps := if c.deps > 0 then some (n, n + c.deps) else none }
      else { x with cps := if dst.isStore then { c with st := dst } :: cps0 else cps0 }) :
    Inv cfg s x' ∧ ∀ m, Pot cfg s x' m → Pot cfg s x m := by
  have hd0 := (hinv.cps c hcm).1
  have hnavail : n ∈ avail x := mem_avail.mpr (Or.inl ⟨c, hcm, hcn⟩)
  have hcps0 : ∀ c' ∈ cps0, c'.deps = 0 ∧ c'.st.isStore = true := fun c' hc' => hinv.cps c' (hsub c' hc')
  by_cases hdw : dst = .work
  · subst hdw
    have hw := hwork rfl
    have e : x' = { x with cps := cps0, fwd := (if c.ics > 0 then some n else none),
                           wIcs := (if c.ics > 0 then some (n, n + c.ics) else none),
                           wDeps := none } := by
      rw [hx']; simp [Storage.isStore, hd0]
    subst e
    apply step_loadlike hinv
    · rfl
    · rfl
    · rfl
    · exact hcps0
    · exact le_trans hlen0 hinv.len
    · intro e he
      rcases mem_avail.mp he with ⟨c', hc', rfl⟩ | he
      · exact mem_avail.mpr (Or.inl ⟨c', hsub c' hc', rfl⟩)
      · simp at he; rw [← he.2]; exact hnavail
    · right; exact ⟨rfl, hw⟩
  · by_cases hds : dst.isStore = true
    · have e : x' = { x with cps := { c with st := dst } :: cps0 } := by
        rw [hx', if_neg hdw, if_pos hds]
      subst e
      have hb := hstore hds
      apply step_loadlike hinv
      · rfl
      · rfl
      · rfl
      · intro c' hc'
        rcases List.mem_cons.mp hc' with rfl | hc'
        · exact ⟨hd0, hds⟩
        · exact hcps0 c' hc'
      · apply length_le_of_budget H
        · intro c' hc'
          rcases List.mem_cons.mp hc' with rfl | hc'
          · exact hds
          · exact (hcps0 c' hc').2
        · refine withinBudget_mono ?_ hb
          intro s'
          rw [countSt_cons, countSt_cons]
          have := hcount s'
          omega
      · intro e he
        rcases mem_avail.mp he with ⟨c', hc', rfl⟩ | he
        · rcases List.mem_cons.mp hc' with rfl | hc'
          · exact mem_avail.mpr (Or.inl ⟨c, hcm, rfl⟩)
          · exact mem_avail.mpr (Or.inl ⟨c', hsub c' hc', rfl⟩)
        · exact mem_avail.mpr (Or.inr he)
      · left; exact ⟨rfl, rfl⟩
    · have e : x' = { x with cps := cps0 } := by
        rw [hx', if_neg hdw, if_neg hds]
      subst e
      apply step_loadlike hinv
      · rfl
      · rfl
      · rfl
      · exact hcps0
      · exact le_trans hlen0 hinv.len
      · intro e he
        rcases mem_avail.mp he with ⟨c', hc', rfl⟩ | he
        · exact mem_avail.mpr (Or.inl ⟨c', hsub c' hc', rfl⟩)
        · exact mem_avail.mpr (Or.inr he)
      · left; exact ⟨rfl, rfl⟩

theorem step_copy {cfg : Cfg} {s : Nat} (H : CfgHyp cfg s) {x : XS} (hinv : Inv cfg s x)
    {n : Nat} {src dst : Storage} (h : actViols cfg x (.copy n src dst) = []) :
    Inv cfg s (nextState cfg x (.copy n src dst)) ∧
    ∀ m, Pot cfg s (nextState cfg x (.copy n src dst)) m → Pot cfg s x m := by
  obtain ⟨c, hf, hwork, hstore⟩ := load_clean (show actViols.loadViols cfg x n src dst = [] from h)
  obtain ⟨hcm, hcn, _⟩ := findCp_some hf
  exact step_load_gen H hinv hcm hcn hwork hstore x.cps (fun _ h => h) (le_refl _) (fun _ => le_refl _) _
    (by simp only [nextState, hf])

theorem step_move {cfg : Cfg} {s : Nat} (H : CfgHyp cfg s) {x : XS} (hinv : Inv cfg s x)
    {n : Nat} {src dst : Storage} (h : actViols cfg x (.move n src dst) = []) :
    Inv cfg s (nextState cfg x (.move n src dst)) ∧
    ∀ m, Pot cfg s (nextState cfg x (.move n src dst)) m → Pot cfg s x m := by
  obtain ⟨c, hf, hwork, hstore⟩ := load_clean (show actViols.loadViols cfg x n src dst = [] from h)
  obtain ⟨hcm, hcn, _⟩ := findCp_some hf
  exact step_load_gen H hinv hcm hcn hwork hstore (eraseCp x.cps n src) (fun _ h => mem_eraseCp h)
    (List.length_filter_le _ _) (fun s' => countSt_eraseCp_le _ _ _ _) _
    (by simp only [nextState, hf])

theorem step_reverse {cfg : Cfg} {s : Nat} {x : XS} (hinv : Inv cfg s x) {n1 n0 : Nat} {cl : Bool}
    (h : actViols cfg x (.reverse n1 n0 cl) = []) :
    Inv cfg s (nextState cfg x (.reverse n1 n0 cl)) ∧
    ∀ m, Pot cfg s (nextState cfg x (.reverse n1 n0 cl)) m → Pot cfg s x m := by
  simp only [actViols, List.append_eq_nil_iff, chk_nil_iff, decide_eq_true_eq] at h
  obtain ⟨⟨⟨hlt, _⟩, hn1⟩, hcov⟩ := h
  obtain ⟨p, q, hw, hp, hq⟩ := covers_iff.mp hcov
  -- the dependency data are those of the step just below the adjoint: one step is reversed
  rcases hinv.deps with h0 | ⟨p', hw', hle', hfw'⟩
  · rw [h0] at hw; cases hw
  rw [hw'] at hw
  simp only [Option.some.injEq, Prod.mk.injEq] at hw
  obtain ⟨rfl, rfl⟩ := hw
  have ha : cfg.N - x.r = p' + 1 := by omega
  have hn0 : n0 = p' := by omega
  have hfl : Flagged cfg x := ⟨by omega, by rw [hw', ha]; rfl⟩
  generalize hx' : nextState cfg x (.reverse n1 n0 cl) = x'
  have e_r : x'.r = x.r + 1 := by rw [← hx']; show x.r + (n1 - n0) = _; omega
  have e_cps : x'.cps = x.cps := by rw [← hx']; rfl
  have e_fwd : x'.fwd = x.fwd := by rw [← hx']; rfl
  have e_fin : x'.fin = x.fin := by rw [← hx']; rfl
  have e_done : x'.done = x.done := by rw [← hx']; rfl
  have e_deps : x'.wDeps = if cl = true then none else x.wDeps := by rw [← hx']; rfl
  have e_avail : avail x' = avail x := by unfold avail; rw [e_cps, e_fwd]
  have hnf' : ¬ Flagged cfg x' := by
    rintro ⟨h1, h2⟩
    rw [e_deps] at h2
    split at h2
    · cases h2
    · rw [hw', e_r] at h2
      simp only [Option.some.injEq, Prod.mk.injEq] at h2
      omega
  refine ⟨⟨by rw [e_fin]; exact hinv.fin, by rw [e_r]; omega, by rw [e_cps]; exact hinv.cps,
    by rw [e_cps]; exact hinv.len, ?_, ?_⟩, ?_⟩
  · rw [e_deps]
    split
    · left; rfl
    · right
      exact ⟨p', hw', by rw [e_r]; omega, by rw [e_r]; intro h; omega⟩
  · rw [e_done, e_r]
    intro hd
    have := hinv.done hd
    omega
  · intro m hp
    have := hp.2 hnf'
    rw [e_avail, e_r] at this
    have e : cfg.N - (x.r + 1) = cfg.N - x.r - 1 := by omega
    rw [e] at this
    exact ⟨fun _ => this, fun hf => absurd hfl hf⟩

theorem step_endForward {cfg : Cfg} {s : Nat} {x : XS} (hinv : Inv cfg s x) :
    Inv cfg s (nextState cfg x .endForward) ∧
    ∀ m, Pot cfg s (nextState cfg x .endForward) m → Pot cfg s x m := by
  apply step_loadlike hinv
  · rfl
  · rfl
  · rfl
  · exact hinv.cps
  · exact hinv.len
  · intro e he; exact he
  · left; exact ⟨rfl, rfl⟩

theorem step_endReverse {cfg : Cfg} {s : Nat} (H : CfgHyp cfg s) {x : XS} (hinv : Inv cfg s x)
    (h : actViols cfg x .endReverse = []) :
    Inv cfg s (nextState cfg x .endReverse) ∧
    ∀ m, Pot cfg s (nextState cfg x .endReverse) m → Pot cfg s x m := by
  simp only [actViols, List.append_eq_nil_iff, chk_nil_iff, decide_eq_true_eq] at h
  obtain ⟨⟨_, hr⟩, _⟩ := h
  have e : nextState cfg x .endReverse = { x with done := x.done + 1 } := by
    simp only [nextState, H.passes]
    have : decide (x.done + 1 < 1) = false := by simp
    rw [this]
    rfl
  rw [e]
  have hinv' : Inv cfg s { x with done := x.done + 1 } :=
    ⟨hinv.fin, hinv.r_le, hinv.cps, hinv.len, hinv.deps, fun _ => hr⟩
  refine ⟨hinv', fun m hp => hp⟩

/-- **One accepted step**: the invariant is kept, and a plan for the state after the step gives a plan
for the state before it that costs at most the forward steps of the action more. -/
theorem step_pot {cfg : Cfg} {s : Nat} (H : CfgHyp cfg s) {x : XS} (hinv : Inv cfg s x) (o : Obs)
    (hclean : stepViols cfg x o = []) (hnd : storesDeps o.act = false) :
    Inv cfg s (nextState cfg x o.act) ∧
    ∀ m, Pot cfg s (nextState cfg x o.act) m → Pot cfg s x (m + actFwd o.act) := by
  unfold stepViols at hclean
  simp only [List.append_eq_nil_iff] at hclean
  obtain ⟨⟨_, hact⟩, _⟩ := hclean
  cases ho : o.act with
  | forward n0 n1 wi wa st =>
    rw [ho] at hact hnd
    exact step_forward H hinv hact hnd
  | reverse n1 n0 cl =>
    rw [ho] at hact
    exact step_reverse hinv hact
  | copy n src dst =>
    rw [ho] at hact
    exact step_copy H hinv hact
  | move n src dst =>
    rw [ho] at hact
    exact step_move H hinv hact
  | endForward => exact step_endForward hinv
  | endReverse =>
    rw [ho] at hact
    exact step_endReverse H hinv hact

/-! ## the whole stream -/

theorem obsFwdSteps_cons (o : Obs) (os : List Obs) :
    obsFwdSteps (o :: os) = actFwd o.act + obsFwdSteps os := by
  unfold obsFwdSteps; rw [List.map_cons, List.sum_cons]

/-- backward induction: a clean run from `x` that ends finished performs at least as many forward
steps as the cheapest plan for `x` costs -/
theorem run_pot {cfg : Cfg} {s : Nat} (H : CfgHyp cfg s) (os : List Obs) :
    ∀ (i : Nat) (x : XS), Inv cfg s x → (runFrom cfg i x os).2 = [] →
      finished cfg (runFrom cfg i x os).1 = true → (∀ o ∈ os, storesDeps o.act = false) →
      Pot cfg s x (obsFwdSteps os) := by
  induction os with
  | nil =>
    intro i x hinv _ hfin _
    have hdone : 1 ≤ x.done := by
      have : finished cfg x = true := hfin
      unfold finished at this
      rw [H.passes] at this
      simpa using this
    have hr := hinv.done hdone
    have ha : cfg.N - x.r = 0 := by omega
    refine ⟨fun hf => ?_, fun _ => ?_⟩
    · have := hf.1; omega
    · rw [ha]; exact reach_final s _
  | cons o os ih =>
    intro i x hinv hclean hfin hnd
    rw [runFrom_snd_cons, List.append_eq_nil_iff, List.map_eq_nil_iff] at hclean
    have hfin' : finished cfg (runFrom cfg (i + 1) (nextState cfg x o.act) os).1 = true := by
      rw [runFrom_fst_eq] at hfin ⊢
      exact hfin
    obtain ⟨hinv', hstep⟩ := step_pot H hinv o hclean.1 (hnd o (List.mem_cons_self ..))
    have := ih (i + 1) _ hinv' hclean.2 hfin' (fun o' ho' => hnd o' (List.mem_cons_of_mem _ ho'))
    have := hstep _ this
    rw [obsFwdSteps_cons, Nat.add_comm]
    exact this

theorem inv_init {cfg : Cfg} {s : Nat} (H : CfgHyp cfg s) : Inv cfg s (XS.init cfg) := by
  exact
    { fin := by simp [XS.init, H.offline]
      r_le := Nat.zero_le _
      cps := fun c hc => absurd hc List.not_mem_nil
      len := Nat.zero_le _
      deps := Or.inl rfl
      done := fun h => by simp [XS.init] at h }

/-- **The lower bound**, for a budget of `s` units split in any way between RAM and disk. -/
theorem lowerBound {cfg : Cfg} {s : Nat} (H : CfgHyp cfg s) (hN : 1 ≤ cfg.N) (os : List Obs)
    (hclean : (run cfg os).2 = []) (hdone : finished cfg (run cfg os).1 = true)
    (hnd : ∀ o ∈ os, storesDeps o.act = false) :
    cfg.N + extraCell cfg.N (clampS cfg.N s) ≤ obsFwdSteps os := by
  have hp := run_pot H os 0 (XS.init cfg) (inv_init H) hclean hdone hnd
  have hnf : ¬ Flagged cfg (XS.init cfg) := by
    rintro ⟨_, h⟩
    simp [XS.init] at h
  have := hp.2 hnf
  have e : avail (XS.init cfg) = [0] := rfl
  have e2 : cfg.N - (XS.init cfg).r = cfg.N := rfl
  rw [e, e2] at this
  exact reach_init hN this


/-! ## C05 -/

/-- **C05, the lower bound.**  Configuration: offline, `N` steps, at most `s` stored checkpoints (all in
RAM here; see `C05_full_split` for RAM + disk), one adjoint calculation, working storage holds the
adjoint data of one step.  ANY stream of observations that the checking executor accepts without a
violation, that completes the adjoint calculation, and that never writes adjoint dependency data into
a storage unit performs at least `N + optimal_extra_steps(N, min(s, N-1))` forward steps. -/
theorem C05_full (N s : Nat) (hN : 1 ≤ N) (hs : 1 ≤ s ∨ N = 1) (os : List Obs) (cfg : Cfg)
    (hcfg : cfg = { N := N, ram := some s, disk := some 0, passes := some 1, keepsAllDeps := false,
                    online := false })
    (hclean : (run cfg os).2 = []) (hdone : finished cfg (run cfg os).1 = true)
    (hnd : ∀ o ∈ os, storesDeps o.act = false) :
    N + extraCell N (clampS N s) ≤ obsFwdSteps os := by
  have _ := hs
  subst hcfg
  exact lowerBound (s := s) ⟨⟨s, 0, rfl, rfl, rfl⟩, rfl, rfl, rfl⟩ hN os hclean hdone hnd

/-- the same with the `s` units split between RAM and disk in any way -/
theorem C05_full_split (N ram disk : Nat) (hN : 1 ≤ N) (os : List Obs)
    (hclean : (run (cfgMultistage ram disk N) os).2 = [])
    (hdone : finished (cfgMultistage ram disk N) (run (cfgMultistage ram disk N) os).1 = true)
    (hnd : ∀ o ∈ os, storesDeps o.act = false) :
    N + extraCell N (clampS N (ram + disk)) ≤ obsFwdSteps os :=
  lowerBound (cfg := cfgMultistage ram disk N) (s := ram + disk) ⟨⟨ram, disk, rfl, rfl, rfl⟩, rfl, rfl, rfl⟩
    hN os hclean hdone hnd

/-- in closed form: for `1 ≤ s ≤ N - 1` and `β(s,t-1) < N ≤ β(s,t)` at least `(t+1)·N − β(s+1,t-1)` -/
theorem C05_full_closed (N s t : Nat) (hs : 1 ≤ s) (hsN : s ≤ N - 1) (hN : 2 ≤ N) (ht : 1 ≤ t)
    (hlo : Nat.choose (s + t - 1) (t - 1) < N) (hhi : N ≤ Nat.choose (s + t) t) (os : List Obs)
    (hclean : (run (cfgMultistage s 0 N) os).2 = [])
    (hdone : finished (cfgMultistage s 0 N) (run (cfgMultistage s 0 N) os).1 = true)
    (hnd : ∀ o ∈ os, storesDeps o.act = false) :
    (t + 1) * N ≤ obsFwdSteps os + Nat.choose (s + t) (t - 1) := by
  have h := C05_full_split N s 0 (by omega) os hclean hdone hnd
  have hc : clampS N (s + 0) = s := by unfold clampS; omega
  rw [hc] at h
  have := extraCell_closed N s t hs hsN hN hlo hhi ht
  omega

/-! ## the bound is attained: Multistage is optimal among all executable schedules -/

theorem segWith_noStoresDeps (N : Nat) (σ : Nat → Nat → Option Nat) (S : Nat) (alloc : Nat → Storage)
    (persist : Bool) : ∀ (fuel : Nat) (stored spine : Bool) (lo hi d : Nat) (evs : List Ev),
      segWith N σ S alloc persist fuel stored spine lo hi d = some evs →
      ∀ e ∈ evs, storesDeps e.act = false := by
  intro fuel
  induction fuel with
  | zero => intro _ _ _ _ _ evs h; simp [segWith] at h
  | succ fuel ih =>
    intro stored spine lo hi d evs h
    unfold segWith at h
    by_cases hu : hi = lo + 1
    · simp only [hu, if_true, Option.some.injEq] at h
      subst h
      intro e he
      simp only [List.mem_append, List.mem_singleton] at he
      rcases he with ((he | he) | he) | he
      · cases stored
        · simp at he
        · simp only [if_true, List.mem_singleton] at he
          subst he
          by_cases hp : persist = true ∧ d = 0 <;> simp [hp, storesDeps]
      · subst he; rfl
      · cases spine
        · simp at he
        · simp only [if_true, List.mem_singleton] at he
          subst he; rfl
      · subst he; rfl
    · simp only [hu, if_false] at h
      cases hσ : σ (hi - lo) (S - d) with
      | none => rw [hσ] at h; cases h
      | some a =>
        rw [hσ] at h
        simp only at h
        cases hr : segWith N σ S alloc persist fuel false spine (lo + a) hi (d + 1) with
        | none => rw [hr] at h; cases h
        | some right =>
          rw [hr] at h
          simp only at h
          cases hl : segWith N σ S alloc persist fuel true false lo (lo + a) d with
          | none => rw [hl] at h; cases h
          | some left =>
            rw [hl] at h
            simp only [Option.some.injEq] at h
            subst h
            intro e he
            simp only [List.mem_append] at he
            rcases he with (he | he) | he
            · cases stored
              · simp only [Bool.false_eq_true, if_false, List.mem_singleton] at he
                subst he; rfl
              · simp only [if_true, List.mem_cons, List.not_mem_nil, or_false] at he
                rcases he with he | he <;> (subst he; rfl)
            · exact ih false spine (lo + a) hi (d + 1) right hr e he
            · exact ih true false lo (lo + a) d left hl e he

theorem obsFwdSteps_append (as bs : List Obs) :
    obsFwdSteps (as ++ bs) = obsFwdSteps as + obsFwdSteps bs := by
  unfold obsFwdSteps; rw [List.map_append, List.sum_append]

theorem obsFwdSteps_map_obs (evs : List Ev) (N : Nat) :
    obsFwdSteps (evs.map (Ev.obs · N)) = GW.fwdSteps evs := by
  induction evs with
  | nil => rfl
  | cons e es ih => rw [List.map_cons, obsFwdSteps_cons, fwdSteps_cons, ih]; rfl

/-- the observations of the `MultistageCheckpointSchedule` stream: accepted, complete, restart data
only in the units, and exactly `N + optimal_extra_steps(N, min(ram + disk, N - 1))` forward steps -/
theorem multistage_obs (N ram disk : Nat) (traj : Traj) (hv : validMultistage N ram disk = true) :
    ∃ evs, multistageEvs N ram disk traj = .ok (evs ++ [⟨.endReverse, 1, N⟩]) ∧
      (run (cfgMultistage ram disk N)
        (evs.map (Ev.obs · N) ++ [⟨.endReverse, 1, N, some N, true, true⟩])).2 = [] ∧
      finished (cfgMultistage ram disk N) (run (cfgMultistage ram disk N)
        (evs.map (Ev.obs · N) ++ [⟨.endReverse, 1, N, some N, true, true⟩])).1 = true ∧
      (∀ o ∈ evs.map (Ev.obs · N) ++ [(⟨.endReverse, 1, N, some N, true, true⟩ : Obs)],
        storesDeps o.act = false) ∧
      obsFwdSteps (evs.map (Ev.obs · N) ++ [⟨.endReverse, 1, N, some N, true, true⟩]) =
        N + extraCell N (clampS N (ram + disk)) := by
  have hv' := hv
  simp only [validMultistage, Bool.and_eq_true, Bool.or_eq_true, decide_eq_true_eq] at hv'
  obtain ⟨h1, hunit⟩ := hv'
  obtain ⟨storage, hsto, hstore, hcr, hcd, hlen⟩ := multistageStorage_spec N ram disk traj h1
  have hunits : 2 ≤ N → 1 ≤ storage.length := by
    intro h; rw [hlen]; rcases hunit with h' | h' <;> omega
  obtain ⟨evs, sn, hseg, hclean⟩ := multistage_clean (cfgMultistage ram disk N) N storage traj
    rfl rfl rfl h1 hunits hstore (by simpa [withinOpt, cfgMultistage] using hcr)
    (by simpa [withinOpt, cfgMultistage] using hcd)
  have hevs : multistageEvs N ram disk traj = .ok (evs ++ [⟨.endReverse, 1, N⟩]) := by
    unfold multistageEvs
    rw [if_neg (by omega), hsto]
    simp only
    rw [if_neg (by intro h; have := hunits (by omega); omega), hseg]
  have hsw : segWith N (fun m k => nAdvance m k traj) storage.length
      (fun d => storage.getD d .none) false N false true 0 N 0 = some evs := by
    unfold multistageSeg at hseg
    cases hs : segWith N (fun m k => nAdvance m k traj) storage.length
        (fun d => storage.getD d .none) false N false true 0 N 0 with
    | none => rw [hs] at hseg; cases hseg
    | some evs' =>
      rw [hs] at hseg
      simp only [Option.map_some, Option.some.injEq] at hseg
      rw [List.append_cancel_right hseg]
  refine ⟨evs, hevs, hclean.run_viols, ?_, ?_, ?_⟩
  · rw [hclean.run_state]; rfl
  · intro o ho
    rcases List.mem_append.mp ho with ho | ho
    · obtain ⟨e, he, rfl⟩ := List.mem_map.mp ho
      exact segWith_noStoresDeps _ _ _ _ _ _ _ _ _ _ _ _ hsw e he
    · rw [List.mem_singleton] at ho; subst ho; rfl
  · rw [obsFwdSteps_append, obsFwdSteps_map_obs]
    have hf := multistage_fwdSteps N ram disk traj hv _ hevs
    rw [fwdSteps_append] at hf
    have e0 : GW.fwdSteps [(⟨.endReverse, 1, N⟩ : Ev)] = 0 := rfl
    have e1 : obsFwdSteps [(⟨.endReverse, 1, N, some N, true, true⟩ : Obs)] = 0 := rfl
    omega

/-- **C05, complete**: among ALL streams the executor accepts for `N` steps and `ram + disk` units
(restart data only), the stream of `MultistageCheckpointSchedule` — with either trajectory — performs
the minimum number of forward steps. -/
theorem C05_multistage_optimal (N ram disk : Nat) (traj : Traj)
    (hv : validMultistage N ram disk = true) :
    ∃ evs, multistageEvs N ram disk traj = .ok evs ∧
      ∀ os : List Obs, (run (cfgMultistage ram disk N) os).2 = [] →
        finished (cfgMultistage ram disk N) (run (cfgMultistage ram disk N) os).1 = true →
        (∀ o ∈ os, storesDeps o.act = false) →
        GW.fwdSteps evs ≤ obsFwdSteps os := by
  obtain ⟨evs, hevs, _, _, _, _⟩ := multistage_obs N ram disk traj hv
  refine ⟨_, hevs, fun os hc hd hn => ?_⟩
  rw [multistage_fwdSteps N ram disk traj hv _ hevs]
  have h1 : 1 ≤ N := by
    simp only [validMultistage, Bool.and_eq_true, decide_eq_true_eq] at hv
    exact hv.1
  exact C05_full_split N ram disk h1 os hc hd hn

/-! ### non-vacuity and a concrete instance -/

/-- a hand-written accepted stream for `N = 2`, `s = 1` (3 forward steps = `2 + E(2,1)`): the
hypotheses of `C05_full` are satisfiable -/
def demoStream : List Obs :=
  [⟨.forward 0 1 true false .ram, 1, 0, some 2, false, true⟩,
   ⟨.forward 1 2 false true .work, 2, 0, some 2, false, true⟩,
   ⟨.endForward, 2, 0, some 2, false, true⟩,
   ⟨.reverse 2 1 true, 2, 1, some 2, false, true⟩,
   ⟨.move 0 .ram .work, 0, 1, some 2, false, true⟩,
   ⟨.forward 0 1 false true .work, 1, 1, some 2, false, true⟩,
   ⟨.reverse 1 0 true, 1, 2, some 2, false, true⟩,
   ⟨.endReverse, 1, 2, some 2, true, true⟩]

example : (run (cfgMultistage 1 0 2) demoStream).2 = [] ∧
    finished (cfgMultistage 1 0 2) (run (cfgMultistage 1 0 2) demoStream).1 = true ∧
    (∀ o ∈ demoStream, storesDeps o.act = false) ∧ obsFwdSteps demoStream = 3 := by decide

/-- 10 steps, 3 units: no accepted stream does it with fewer than 25 forward steps -/
example (os : List Obs) (hclean : (run (cfgMultistage 3 0 10) os).2 = [])
    (hdone : finished (cfgMultistage 3 0 10) (run (cfgMultistage 3 0 10) os).1 = true)
    (hnd : ∀ o ∈ os, storesDeps o.act = false) : 25 ≤ obsFwdSteps os := by
  have := C05_full_closed 10 3 2 (by decide) (by decide) (by decide) (by decide) (by decide)
    (by decide) os hclean hdone hnd
  have e : Nat.choose (3 + 2) (2 - 1) = 5 := by decide
  omega

/-- the hypothesis "restart data only" cannot be dropped: with a dependency checkpoint (the mixed
mechanism) two steps are reversed with one unit in 2 < 3 forward steps, and the executor accepts -/
def mixedStream : List Obs :=
  [⟨.forward 0 1 false true .ram, 1, 0, some 2, false, true⟩,
   ⟨.forward 1 2 false true .work, 2, 0, some 2, false, true⟩,
   ⟨.endForward, 2, 0, some 2, false, true⟩,
   ⟨.reverse 2 1 true, 2, 1, some 2, false, true⟩,
   ⟨.move 0 .ram .work, 0, 1, some 2, false, true⟩,
   ⟨.reverse 1 0 true, 0, 2, some 2, false, true⟩,
   ⟨.endReverse, 0, 2, some 2, true, true⟩]

example : (run (cfgMultistage 1 0 2) mixedStream).2 = [] ∧
    finished (cfgMultistage 1 0 2) (run (cfgMultistage 1 0 2) mixedStream).1 = true ∧
    obsFwdSteps mixedStream = 2 ∧ 2 + extraCell 2 (clampS 2 1) = 3 ∧
    (∃ o ∈ mixedStream, storesDeps o.act = true) := by
  refine ⟨by decide, by decide, by decide, ?_, by decide⟩
  have : clampS 2 1 = 1 := by decide
  rw [this, extraCell_s1 2 (le_refl _)]

end Ckpt.GW
