import CkptVerif.Model.Online
/-!
# Facts about the step machine, for arbitrary histories of `next()` / `finalize(n)` calls
-/
namespace Ckpt

/-- A call a client can make on a schedule object. -/
inductive Op
  | next
  | fin (k : Int)
deriving Repr

/-- Apply one call, dropping its output. -/
def Sched.exec (s : Sched) (m : MSt) : Op → MSt
  | .next => (s.next m).1
  | .fin k => (finalize m k).1

/-- `m` is the state of the object after some history of calls. -/
def Reach (s : Sched) (m : MSt) : Prop := ∃ ops : List Op, ops.foldl s.exec s.init = m

theorem Reach.init (s : Sched) : Reach s s.init := ⟨[], rfl⟩

theorem Reach.step {s : Sched} {m : MSt} (h : Reach s m) (op : Op) : Reach s (s.exec m op) := by
  obtain ⟨ops, rfl⟩ := h
  exact ⟨ops ++ [op], by simp [List.foldl_append]⟩

/-- induction principle for reachable states -/
theorem Reach.induct {s : Sched} {P : MSt → Prop} (h0 : P s.init)
    (hstep : ∀ m op, Reach s m → P m → P (s.exec m op)) : ∀ {m}, Reach s m → P m := by
  have key : ∀ (ops : List Op) (m0 : MSt), Reach s m0 → P m0 → P (ops.foldl s.exec m0) := by
    intro ops
    induction ops with
    | nil => intro m0 _ h; exact h
    | cons op ops ih =>
      intro m0 hr h
      exact ih _ (hr.step op) (hstep m0 op hr h)
  intro m ⟨ops, h⟩
  subst h
  exact key ops _ (Reach.init s) h0

/-! ## (a)–(c) `finalize` -/

theorem finalize_lt (m : MSt) (k : Int) (h : k < 1) : finalize m k = (m, .valueError) := by
  unfold finalize; rw [if_pos h]

theorem finalize_none_ge (m : MSt) (k : Int) (h1 : 1 ≤ k) (h : m.maxN = none)
    (h2 : k ≤ m.n) :
    finalize m k = ({ m with n := k.toNat, maxN := some k.toNat }, .ok) := by
  unfold finalize; rw [if_neg (by omega)]; simp only [h]; rw [if_pos (by omega)]

theorem finalize_none_lt (m : MSt) (k : Int) (h1 : 1 ≤ k) (h : m.maxN = none)
    (h2 : (m.n : Int) < k) : finalize m k = (m, .runtimeError) := by
  unfold finalize; rw [if_neg (by omega)]; simp only [h]; rw [if_neg (by omega)]

theorem finalize_some_eq (m : MSt) (k : Int) (M : Nat) (h1 : 1 ≤ k) (h : m.maxN = some M)
    (h2 : (m.n : Int) = k) (h3 : (M : Int) = k) : finalize m k = (m, .ok) := by
  unfold finalize; rw [if_neg (by omega)]; simp only [h]; rw [if_neg (by omega)]

theorem finalize_some_ne (m : MSt) (k : Int) (M : Nat) (h1 : 1 ≤ k) (h : m.maxN = some M)
    (h2 : (m.n : Int) ≠ k ∨ (M : Int) ≠ k) : finalize m k = (m, .runtimeError) := by
  unfold finalize; rw [if_neg (by omega)]; simp only [h]; rw [if_pos h2]

/-- (a) online (`max_n` unknown): `finalize(k)` is accepted iff `1 ≤ k ≤ n`; it then sets
`max_n = n = k` and changes nothing else. -/
theorem finalize_ok_iff_online (m : MSt) (k : Int) (h : m.maxN = none) :
    ((finalize m k).2 = .ok ↔ (1 ≤ k ∧ k ≤ m.n)) ∧
    ((finalize m k).2 = .ok →
      (finalize m k).1 = { m with n := k.toNat, maxN := some k.toNat }) := by
  by_cases h1 : k < 1
  · rw [finalize_lt m k h1]
    exact ⟨⟨fun h => (by cases h), fun h => (by omega)⟩, fun h => (by cases h)⟩
  · by_cases h2 : k ≤ m.n
    · rw [finalize_none_ge m k (by omega) h h2]
      exact ⟨⟨fun _ => ⟨by omega, h2⟩, fun _ => rfl⟩, fun _ => rfl⟩
    · rw [finalize_none_lt m k (by omega) h (by omega)]
      exact ⟨⟨fun h => (by cases h), fun h => (by omega)⟩, fun h => (by cases h)⟩

/-- (b) `max_n` known: `finalize(k)` is accepted iff `k = max_n = n` (and `k ≥ 1`); the state
is never changed. -/
theorem finalize_ok_iff_known (m : MSt) (k : Int) (M : Nat) (h : m.maxN = some M) :
    ((finalize m k).2 = .ok ↔ (1 ≤ k ∧ (M : Int) = k ∧ (m.n : Int) = k)) ∧
    (finalize m k).1 = m := by
  by_cases h1 : k < 1
  · rw [finalize_lt m k h1]
    exact ⟨⟨fun h => (by cases h), fun h => (by omega)⟩, rfl⟩
  · by_cases h2 : (m.n : Int) ≠ k ∨ (M : Int) ≠ k
    · rw [finalize_some_ne m k M (by omega) h h2]
      exact ⟨⟨fun h => (by cases h), fun h => (by omega)⟩, rfl⟩
    · rw [finalize_some_eq m k M (by omega) h (by omega) (by omega)]
      exact ⟨⟨fun _ => by omega, fun _ => rfl⟩, rfl⟩

/-- (c) a rejected `finalize(k)`: ValueError iff `k < 1`, otherwise RuntimeError; state unchanged. -/
theorem finalize_rejected (m : MSt) (k : Int) (h : (finalize m k).2 ≠ .ok) :
    ((finalize m k).2 = .valueError ↔ k < 1) ∧
    ((finalize m k).2 ≠ .valueError → (finalize m k).2 = .runtimeError) ∧
    (finalize m k).1 = m := by
  by_cases h1 : k < 1
  · rw [finalize_lt m k h1]
    exact ⟨⟨fun _ => h1, fun _ => rfl⟩, fun h => absurd rfl h, rfl⟩
  · cases hm : m.maxN with
    | none =>
      by_cases h2 : k ≤ m.n
      · rw [finalize_none_ge m k (by omega) hm h2] at h; exact absurd rfl h
      · rw [finalize_none_lt m k (by omega) hm (by omega)]
        exact ⟨⟨fun h => (by cases h), fun h => absurd h h1⟩, fun _ => rfl, rfl⟩
    | some M =>
      by_cases h2 : (m.n : Int) ≠ k ∨ (M : Int) ≠ k
      · rw [finalize_some_ne m k M (by omega) hm h2]
        exact ⟨⟨fun h => (by cases h), fun h => absurd h h1⟩, fun _ => rfl, rfl⟩
      · rw [finalize_some_eq m k M (by omega) hm (by omega) (by omega)] at h; exact absurd rfl h

/-- `finalize` never changes `phase`, `exhausted`, `started`, `r`. -/
theorem finalize_frame (m : MSt) (k : Int) :
    (finalize m k).1.phase = m.phase ∧ (finalize m k).1.exhausted = m.exhausted ∧
    (finalize m k).1.started = m.started ∧ (finalize m k).1.r = m.r := by
  cases hm : m.maxN with
  | some M => rw [(finalize_ok_iff_known m k M hm).2]; exact ⟨rfl, rfl, rfl, rfl⟩
  | none =>
    by_cases h : (finalize m k).2 = .ok
    · rw [(finalize_ok_iff_online m k hm).2 h]; exact ⟨rfl, rfl, rfl, rfl⟩
    · rw [(finalize_rejected m k h).2.2]; exact ⟨rfl, rfl, rfl, rfl⟩

/-- `finalize` changes `maxN` only from `none` to `some`. -/
theorem finalize_maxN_some (m : MSt) (k : Int) (M : Nat) (h : m.maxN = some M) :
    (finalize m k).1.maxN = some M := by
  rw [(finalize_ok_iff_known m k M h).2]; exact h

example : (finalize (⟨7, 0, none, true, false, .fwd⟩ : MSt) 5).2 = .ok := by decide

/-! ## `next`: one equation per branch of `__next__` -/

/-- the `done` counter after `e` was emitted -/
def afterDone (e : Ev) (done : Nat) : Nat := if e.act = .endReverse then done + 1 else done

/-- does the generator return right after `e`? -/
def Sched.afterFin (s : Sched) (e : Ev) (done : Nat) : Bool :=
  match s.passes with
  | none => false
  | some 0 => e.act = .endForward
  | some k => decide (k ≤ afterDone e done)

theorem after_eq (s : Sched) (N : Nat) (e : Ev) (rest : List Ev) (d : Nat) :
    s.after N e rest d =
      if s.afterFin e d then (.stopped, true)
      else match rest with
        | [] => (.run (s.again N) (afterDone e d), false)
        | _ => (.run rest (afterDone e d), false) := rfl

theorem after_flag (s : Sched) (N : Nat) (e : Ev) (rest : List Ev) (d : Nat) :
    (s.after N e rest d).2 = true ↔ (s.after N e rest d).1 = .stopped := by
  rw [after_eq]
  cases s.afterFin e d
  · cases rest
    · exact ⟨fun h => (by cases h), fun h => (by cases h)⟩
    · exact ⟨fun h => (by cases h), fun h => (by cases h)⟩
  · exact ⟨fun _ => rfl, fun _ => rfl⟩

theorem next_stopped (s : Sched) (m : MSt) (h : m.phase = .stopped) :
    s.next m = ({ m with started := true }, .stop) := by
  unfold Sched.next; simp only [h]

theorem next_fwd_none (s : Sched) (m : MSt) (h : m.phase = .fwd) (hn : m.maxN = none) :
    s.next m = ({ m with started := true, n := (s.fwdEv m.n).n, r := (s.fwdEv m.n).r,
                         phase := .fwd, exhausted := false },
                .act ⟨(s.fwdEv m.n).act, (s.fwdEv m.n).n, (s.fwdEv m.n).r, none, false, true⟩) := by
  unfold Sched.next; simp only [h, hn]

theorem next_fwd_err (s : Sched) (m : MSt) (N : Nat) (err : Err) (h : m.phase = .fwd)
    (hn : m.maxN = some N) (hf : s.first N = .error err) :
    s.next m = ({ m with started := true, phase := .stopped }, .raised err) := by
  unfold Sched.next; simp only [h, hn, hf]

theorem next_fwd_nil (s : Sched) (m : MSt) (N : Nat) (h : m.phase = .fwd)
    (hn : m.maxN = some N) (hf : s.first N = .ok []) :
    s.next m = ({ m with started := true, phase := .stopped }, .stop) := by
  unfold Sched.next; simp only [h, hn, hf]

theorem next_fwd_cons (s : Sched) (m : MSt) (N : Nat) (e : Ev) (rest : List Ev)
    (h : m.phase = .fwd) (hn : m.maxN = some N) (hf : s.first N = .ok (e :: rest)) :
    s.next m = ({ m with started := true, n := e.n, r := e.r,
                         phase := (s.after N e rest 0).1, exhausted := (s.after N e rest 0).2 },
                .act ⟨e.act, e.n, e.r, some N, (s.after N e rest 0).2, true⟩) := by
  unfold Sched.next; simp only [h, hn, hf]

theorem next_run_nil (s : Sched) (m : MSt) (d : Nat) (h : m.phase = .run [] d) :
    s.next m = ({ m with started := true, phase := .stopped }, .stop) := by
  unfold Sched.next; simp only [h]

theorem next_run_cons (s : Sched) (m : MSt) (e : Ev) (rest : List Ev) (d : Nat)
    (h : m.phase = .run (e :: rest) d) :
    s.next m = ({ m with started := true, n := e.n, r := e.r,
                         phase := (s.after (m.maxN.getD 0) e rest d).1,
                         exhausted := (s.after (m.maxN.getD 0) e rest d).2 },
                .act ⟨e.act, e.n, e.r, m.maxN, (s.after (m.maxN.getD 0) e rest d).2, true⟩) := by
  unfold Sched.next; simp only [h]

/-- All branches of `next` at once: either the generator ends (StopIteration or an exception;
only `started` and `phase` change), or an event `e` is emitted. -/
theorem next_cases (s : Sched) (m : MSt) :
    (∃ out, (out = .stop ∨ ∃ e, out = .raised e) ∧
      s.next m = ({ m with started := true, phase := .stopped }, out)) ∨
    (∃ (e : Ev) (ph : Phase) (exh : Bool), (exh = true ↔ ph = .stopped) ∧
      s.next m = ({ m with started := true, n := e.n, r := e.r, phase := ph, exhausted := exh },
                  .act ⟨e.act, e.n, e.r, m.maxN, exh, true⟩)) := by
  cases hp : m.phase with
  | stopped =>
    refine .inl ⟨.stop, .inl rfl, ?_⟩
    rw [next_stopped s m hp, ← hp]
  | fwd =>
    cases hn : m.maxN with
    | none =>
      refine .inr ⟨s.fwdEv m.n, .fwd, false, ⟨fun h => (by cases h), fun h => (by cases h)⟩, ?_⟩
      rw [next_fwd_none s m hp hn, hn]
    | some N =>
      cases hf : s.first N with
      | error err => exact .inl ⟨.raised err, .inr ⟨err, rfl⟩, by rw [next_fwd_err s m N err hp hn hf, hn]⟩
      | ok l =>
        cases l with
        | nil => exact .inl ⟨.stop, .inl rfl, by rw [next_fwd_nil s m N hp hn hf, hn]⟩
        | cons e rest =>
          exact .inr ⟨e, _, _, after_flag s N e rest 0, by rw [next_fwd_cons s m N e rest hp hn hf, hn]⟩
  | run todo d =>
    cases todo with
    | nil => exact .inl ⟨.stop, .inl rfl, next_run_nil s m d hp⟩
    | cons e rest =>
      exact .inr ⟨e, _, _, after_flag s _ e rest d, next_run_cons s m e rest d hp⟩

/-! ## (e) flags, for arbitrary states and histories -/

theorem next_started (s : Sched) (m : MSt) : (s.next m).1.started = true := by
  rcases next_cases s m with ⟨out, _, h⟩ | ⟨e, ph, exh, _, h⟩ <;> rw [h]

theorem next_maxN (s : Sched) (m : MSt) : (s.next m).1.maxN = m.maxN := by
  rcases next_cases s m with ⟨out, _, h⟩ | ⟨e, ph, exh, _, h⟩ <;> rw [h]

theorem init_started (s : Sched) : s.init.started = false := rfl
theorem init_exhausted (s : Sched) : s.init.exhausted = false := rfl

/-- `is_running` is never reset. -/
theorem exec_started (s : Sched) (m : MSt) (op : Op) (h : m.started = true) :
    (s.exec m op).started = true := by
  cases op with
  | next => exact next_started s m
  | fin k => exact (finalize_frame m k).2.2.1.trans h

theorem foldl_exec_started (s : Sched) (ops : List Op) (m : MSt) (h : m.started = true) :
    (ops.foldl s.exec m).started = true := by
  induction ops generalizing m with
  | nil => exact h
  | cons op ops ih => exact ih _ (exec_started s m op h)

/-- After the generator has stopped: StopIteration forever, state otherwise unchanged. -/
theorem next_of_stopped (s : Sched) (m : MSt) (h : m.phase = .stopped) :
    s.next m = ({ m with started := true }, .stop) := next_stopped s m h

theorem next_of_stopped_idem (s : Sched) (m : MSt) (h : m.phase = .stopped) :
    s.next (s.next m).1 = s.next m := by
  rw [next_stopped s m h]
  exact next_stopped s _ h

/-- What an emitted action reports about the flags. -/
theorem next_act_flags (s : Sched) (m m' : MSt) (o : Obs) (h : s.next m = (m', .act o)) :
    o.exhausted = m'.exhausted ∧ o.running = true ∧
    (m'.exhausted = true ↔ m'.phase = .stopped) ∧
    o.n = m'.n ∧ o.r = m'.r ∧ o.maxN = m'.maxN := by
  rcases next_cases s m with ⟨out, ho, h'⟩ | ⟨e, ph, exh, hfl, h'⟩
  · rw [h'] at h
    rcases ho with rfl | ⟨e, rfl⟩ <;> cases h
  · rw [h'] at h
    cases h
    exact ⟨rfl, rfl, hfl, rfl, rfl, rfl⟩

/-- The invariant behind monotonicity of `is_exhausted`. -/
def ExhInv (m : MSt) : Prop := m.exhausted = true → m.phase = .stopped

theorem exhInv_init (s : Sched) : ExhInv s.init := fun h => by cases h

theorem exhInv_exec (s : Sched) (m : MSt) (op : Op) (h : ExhInv m) : ExhInv (s.exec m op) := by
  cases op with
  | fin k =>
    intro hx
    have hf := finalize_frame m k
    show (finalize m k).1.phase = .stopped
    rw [hf.1]; exact h (hf.2.1.symm.trans hx)
  | next =>
    show ExhInv (s.next m).1
    rcases next_cases s m with ⟨out, _, h'⟩ | ⟨e, ph, exh, hfl, h'⟩
    · rw [h']; intro _; rfl
    · rw [h']; exact hfl.1

theorem exhInv_of_reach {s : Sched} {m : MSt} (hr : Reach s m) : ExhInv m :=
  Reach.induct (exhInv_init s) (fun m op _ h => exhInv_exec s m op h) hr

/-- `is_exhausted` is monotone: once true it stays true (for every state satisfying the
invariant, in particular every reachable one). -/
theorem exec_exhausted_of_inv (s : Sched) (m : MSt) (op : Op) (hi : ExhInv m)
    (h : m.exhausted = true) : (s.exec m op).exhausted = true := by
  cases op with
  | fin k => exact (finalize_frame m k).2.1.trans h
  | next =>
    show (s.next m).1.exhausted = true
    rw [next_stopped s m (hi h)]; exact h

theorem exec_exhausted (s : Sched) (m : MSt) (op : Op) (hr : Reach s m)
    (h : m.exhausted = true) : (s.exec m op).exhausted = true :=
  exec_exhausted_of_inv s m op (exhInv_of_reach hr) h

theorem foldl_exec_exhausted (s : Sched) (ops : List Op) (m : MSt) (hr : Reach s m)
    (h : m.exhausted = true) : (ops.foldl s.exec m).exhausted = true := by
  induction ops generalizing m with
  | nil => exact h
  | cons op ops ih => exact ih _ (hr.step op) (exec_exhausted s m op hr h)

/-- Once exhausted (reachable state), every `next()` is StopIteration. -/
theorem next_of_exhausted (s : Sched) (m : MSt) (hr : Reach s m) (h : m.exhausted = true) :
    s.next m = ({ m with started := true }, .stop) :=
  next_stopped s m (exhInv_of_reach hr h)

/-! ## (d) online schedules: `max_n` unknown ⇒ the generator is in its forward loop -/

theorem reach_unknown_phase {s : Sched} {m : MSt} (hr : Reach s m) :
    m.maxN = none → m.phase = .fwd := by
  refine Reach.induct (P := fun m => m.maxN = none → m.phase = .fwd) (fun _ => rfl) ?_ hr
  intro m op _ ih
  cases op with
  | fin k =>
    intro hN
    show (finalize m k).1.phase = .fwd
    rw [(finalize_frame m k).1]
    apply ih
    cases hm : m.maxN with
    | none => rfl
    | some M =>
      have : (finalize m k).1.maxN = none := hN
      rw [finalize_maxN_some m k M hm] at this; cases this
  | next =>
    show (s.next m).1.maxN = none → (s.next m).1.phase = .fwd
    intro hN
    rw [next_maxN] at hN
    rw [next_fwd_none s m (ih hN) hN]

/-- (d) as stated: for an online schedule (`max_n` not given to the constructor), as long as
`max_n` is unknown the generator is in its forward loop.  (The hypothesis `hs` is not needed:
`reach_unknown_phase` holds for every schedule.) -/
theorem reach_online_phase {s : Sched} (_hs : s.maxN0 = none) {m : MSt} (hr : Reach s m) :
    m.maxN = none → m.phase = .fwd := reach_unknown_phase hr

/-- After an accepted `finalize(k)` of an online schedule in its forward loop, `next()` emits the
head of `first k`. -/
theorem finalize_then_next (s : Sched) (m : MSt) (k : Int) (e : Ev) (rest : List Ev)
    (hN : m.maxN = none) (hp : m.phase = .fwd) (hok : (finalize m k).2 = .ok)
    (hf : s.first k.toNat = .ok (e :: rest)) :
    ∃ m' o, s.next (finalize m k).1 = (m', .act o) ∧ o.act = e.act ∧ o.n = e.n ∧ o.r = e.r ∧
      o.maxN = some k.toNat := by
  have hst := (finalize_ok_iff_online m k hN).2 hok
  have h := next_fwd_cons s (finalize m k).1 k.toNat e rest
    (by rw [hst]; exact hp) (by rw [hst]) hf
  exact ⟨_, _, h, rfl, rfl, rfl, rfl⟩

theorem finalize_then_next_reach (s : Sched) (m : MSt) (k : Int) (e : Ev)
    (rest : List Ev) (hr : Reach s m) (hN : m.maxN = none) (hok : (finalize m k).2 = .ok)
    (hf : s.first k.toNat = .ok (e :: rest)) :
    ∃ m' o, s.next (finalize m k).1 = (m', .act o) ∧ o.act = e.act ∧ o.n = e.n ∧ o.r = e.r ∧
      o.maxN = some k.toNat :=
  finalize_then_next s m k e rest hN (reach_unknown_phase hr hN) hok hf

/-- "The next action after an accepted finalize is EndForward", for every reachable state of an
online schedule whose `first` starts with EndForward. -/
theorem endForward_after_finalize (s : Sched)
    (hfirst : ∀ N l, s.first N = .ok l → ∃ rest, l = ⟨.endForward, N, 0⟩ :: rest)
    (hex : ∀ N, ∃ l, s.first N = .ok l)
    (m : MSt) (k : Int) (hr : Reach s m) (hN : m.maxN = none) (hok : (finalize m k).2 = .ok) :
    ∃ m' o, s.next (finalize m k).1 = (m', .act o) ∧ o.act = .endForward ∧ o.n = k.toNat ∧
      o.r = 0 ∧ o.maxN = some k.toNat := by
  obtain ⟨l, hl⟩ := hex k.toNat
  obtain ⟨rest, rfl⟩ := hfirst _ _ hl
  exact finalize_then_next_reach s m k _ rest hr hN hok hl

theorem singleMemory_endForward_after_finalize (m : MSt) (k : Int)
    (hr : Reach singleMemorySched m) (hN : m.maxN = none) (hok : (finalize m k).2 = .ok) :
    ∃ m' o, singleMemorySched.next (finalize m k).1 = (m', .act o) ∧ o.act = .endForward ∧
      o.n = k.toNat ∧ o.r = 0 ∧ o.maxN = some k.toNat :=
  finalize_then_next_reach singleMemorySched m k _ _ hr hN hok rfl

theorem singleDisk_endForward_after_finalize (mv : Bool) (m : MSt) (k : Int)
    (hr : Reach (singleDiskSched mv) m) (hN : m.maxN = none) (hok : (finalize m k).2 = .ok) :
    ∃ m' o, (singleDiskSched mv).next (finalize m k).1 = (m', .act o) ∧ o.act = .endForward ∧
      o.n = k.toNat ∧ o.r = 0 ∧ o.maxN = some k.toNat :=
  finalize_then_next_reach (singleDiskSched mv) m k _ _ hr hN hok rfl

theorem none_endForward_after_finalize (m : MSt) (k : Int)
    (hr : Reach noneSched m) (hN : m.maxN = none) (hok : (finalize m k).2 = .ok) :
    ∃ m' o, noneSched.next (finalize m k).1 = (m', .act o) ∧ o.act = .endForward ∧
      o.n = k.toNat ∧ o.r = 0 ∧ o.maxN = some k.toNat :=
  finalize_then_next_reach noneSched m k _ _ hr hN hok rfl

theorem twoLevel_maxN0 (p b : Nat) (st : Storage) (traj : Traj) (s : Sched)
    (h : twoLevelSched p b st traj = .ok s) : s.maxN0 = none := by
  unfold twoLevelSched at h
  split at h
  · cases h
  · split at h
    · cases h
    · cases h; rfl

theorem twoLevel_first_head (p b : Nat) (st : Storage) (traj : Traj) (s : Sched)
    (h : twoLevelSched p b st traj = .ok s) (N : Nat) (l : List Ev) (hl : s.first N = .ok l) :
    ∃ rest, l = ⟨.endForward, N, 0⟩ :: rest := by
  unfold twoLevelSched at h
  split at h
  · cases h
  · split at h
    · cases h
    · cases h
      simp only at hl
      split at hl
      · cases hl; exact ⟨_, rfl⟩
      · cases hl

theorem twoLevel_endForward_after_finalize (p b : Nat) (st : Storage) (traj : Traj) (s : Sched)
    (h : twoLevelSched p b st traj = .ok s) (m : MSt) (k : Int) (l : List Ev)
    (hl : s.first k.toNat = .ok l)
    (hr : Reach s m) (hN : m.maxN = none) (hok : (finalize m k).2 = .ok) :
    ∃ m' o, s.next (finalize m k).1 = (m', .act o) ∧ o.act = .endForward ∧
      o.n = k.toNat ∧ o.r = 0 ∧ o.maxN = some k.toNat := by
  obtain ⟨rest, rfl⟩ := twoLevel_first_head p b st traj s h _ _ hl
  exact finalize_then_next_reach s m k _ rest hr hN hok hl

/-! ## (f) offline schedules: `max_n` known from the start -/

theorem offline_init_maxN (N : Nat) (evs : Except Err (List Ev)) (uses : Storage → Option Bool) :
    (offlineSched N evs uses).init.maxN = some N := rfl

theorem reach_known_maxN {s : Sched} {N : Nat} (hs : s.maxN0 = some N) {m : MSt}
    (hr : Reach s m) : m.maxN = some N := by
  refine Reach.induct (P := fun m => m.maxN = some N) hs ?_ hr
  intro m op _ ih
  cases op with
  | fin k => exact finalize_maxN_some m k N ih
  | next => exact (next_maxN s m).trans ih

theorem offline_reach_maxN (N : Nat) (evs : Except Err (List Ev)) (uses : Storage → Option Bool)
    {m : MSt} (hr : Reach (offlineSched N evs uses) m) : m.maxN = some N :=
  reach_known_maxN rfl hr

/-- For an offline schedule `finalize(k)` never changes the state, and is accepted exactly when
`k = N` and the forward stands at `N`. -/
theorem offline_finalize (N : Nat) (evs : Except Err (List Ev)) (uses : Storage → Option Bool)
    {m : MSt} (hr : Reach (offlineSched N evs uses) m) (k : Int) :
    (finalize m k).1 = m ∧
    ((finalize m k).2 = .ok ↔ (1 ≤ k ∧ k = (N : Int) ∧ (m.n : Int) = N)) := by
  have h := finalize_ok_iff_known m k N (offline_reach_maxN N evs uses hr)
  refine ⟨h.2, h.1.trans ⟨fun ⟨a, b, c⟩ => ⟨a, b.symm, by omega⟩, fun ⟨a, b, c⟩ => ⟨a, b.symm, by omega⟩⟩⟩

/-! ## Non-vacuity -/

/-- a reachable online state in which `finalize 3` is accepted -/
example : ∃ m, Reach singleMemorySched m ∧ m.maxN = none ∧ (finalize m 3).2 = .ok :=
  ⟨_, ⟨[.next], rfl⟩, rfl, by decide⟩

example : ∃ s, twoLevelSched 2 1 .ram .maximum = .ok s ∧ ∃ l, s.first 5 = .ok l := by
  refine ⟨_, rfl, ?_⟩
  have h : (twoLevelBlocks 5 2 1 .ram .maximum ((5 + 2 - 1) / 2)).isSome = true := by decide
  simp only
  cases hb : twoLevelBlocks 5 2 1 .ram .maximum ((5 + 2 - 1) / 2) with
  | none => rw [hb] at h; cases h
  | some v => exact ⟨_, rfl⟩

/-- a reachable offline state in which `finalize 2` is accepted -/
example : ∃ m, Reach (offlineSched 2 (.ok [⟨.forward 0 2 false false .none, 2, 0⟩,
      ⟨.endForward, 2, 0⟩]) (fun _ => some false)) m ∧ (finalize m 2).2 = .ok :=
  ⟨_, ⟨[.next], rfl⟩, by decide⟩

/-- a reachable exhausted state (NoneCheckpointSchedule after `next, finalize(5), next`) -/
example : ∃ m, Reach noneSched m ∧ m.exhausted = true ∧ m.phase = .stopped :=
  ⟨_, ⟨[.next, .fin 5, .next], rfl⟩, rfl, rfl⟩

/-- `next_act_flags` applies: the first `next()` of SingleMemory emits an action -/
example : ∃ m' o, singleMemorySched.next singleMemorySched.init = (m', .act o) := ⟨_, _, rfl⟩

end Ckpt

section AxiomCheck
open Ckpt
#print axioms finalize_ok_iff_online
#print axioms finalize_ok_iff_known
#print axioms finalize_rejected
#print axioms reach_online_phase
#print axioms finalize_then_next
#print axioms twoLevel_endForward_after_finalize
#print axioms singleDisk_endForward_after_finalize
#print axioms next_act_flags
#print axioms exec_exhausted
#print axioms exec_started
#print axioms offline_finalize
end AxiomCheck
