import CkptVerif.Proofs.LBPlans
import CkptVerif.Proofs.OptInf
import CkptVerif.Proofs.RevolveSteps
import Mathlib.Tactic
/-!
# The cost function behind the one-read-disk lower bound

`Gd uf wr k n`: the cheapest way (forward steps priced `uf`, every disk checkpoint priced
`wr = wd + rd`) to reverse `n` steps from a state held in working storage, with `k` RAM units and
one-read disk checkpoints.  It is the minimum over *compositions* `n = l_1 + … + l_m + top`:
the segments `l_i` start at a disk checkpoint (price `wr`), are swept once (`uf·l_i`) and reversed
with memory only (`uf·gwT l_i k`), the top part is reversed with memory only.

Facts proved here: the recurrence inequalities (`Gd_le_mem`, `Gd_le_split`), `Gd_one`, monotonicity
in `k` (`Gd_anti`), the disk merge `Gd_P2`, the RAM merge `Gd_P1`, and the link with the table
`optInfTable` (`optInf_le_Gd`).
-/
namespace Ckpt.LB7
open Ckpt.GW Ckpt.RC

/-- `CC uf wr k n c`: `c` is the price of some composition of `n ≥ 1` steps with `k` units.
With no unit at all a memory-only part is a single step. -/
inductive CC (uf wr k : Nat) : Nat → Nat → Prop
  | mem (n : Nat) (hn : 1 ≤ n) (hk : 1 ≤ k ∨ n = 1) : CC uf wr k n (uf * gwT n k)
  | split (n j c : Nat) (hj : 1 ≤ j) (hjn : j < n) (hk : 1 ≤ k ∨ j = 1) (h : CC uf wr k (n - j) c) :
      CC uf wr k n (wr + uf * j + uf * gwT j k + c)

theorem CC.pos {uf wr k n c : Nat} (h : CC uf wr k n c) : 1 ≤ n := by
  cases h with
  | mem n hn _ => exact hn
  | split n j c hj hjn _ _ => omega

theorem CC.exists (uf wr k : Nat) : ∀ n, 1 ≤ n → ∃ c, CC uf wr k n c := by
  intro n
  induction n using Nat.strong_induction_on with
  | _ n ih =>
    intro hn
    rcases Nat.eq_or_lt_of_le hn with rfl | h2
    · exact ⟨_, CC.mem 1 (le_refl _) (Or.inr rfl)⟩
    · obtain ⟨c, hc⟩ := ih (n - 1) (by omega) (by omega)
      exact ⟨_, CC.split n 1 c (le_refl _) h2 (Or.inr rfl) hc⟩

/-- the optimum over compositions -/
noncomputable def Gd (uf wr k n : Nat) : Nat := sInf {c | CC uf wr k n c}

theorem Gd_mem (uf wr k n : Nat) (hn : 1 ≤ n) : CC uf wr k n (Gd uf wr k n) := by
  have : {c | CC uf wr k n c}.Nonempty := CC.exists uf wr k n hn
  exact Nat.sInf_mem this

theorem Gd_le {uf wr k n c : Nat} (h : CC uf wr k n c) : Gd uf wr k n ≤ c := Nat.sInf_le h

theorem Gd_le_mem (uf wr k n : Nat) (hn : 1 ≤ n) (hk : 1 ≤ k ∨ n = 1) :
    Gd uf wr k n ≤ uf * gwT n k := Gd_le (CC.mem n hn hk)

theorem Gd_le_split (uf wr k n j : Nat) (hj : 1 ≤ j) (hjn : j < n) (hk : 1 ≤ k ∨ j = 1) :
    Gd uf wr k n ≤ wr + uf * j + uf * gwT j k + Gd uf wr k (n - j) :=
  Gd_le (CC.split n j _ hj hjn hk (Gd_mem uf wr k (n - j) (by omega)))

theorem Gd_one (uf wr k : Nat) : Gd uf wr k 1 = uf := by
  have h := Gd_mem uf wr k 1 (le_refl _)
  generalize Gd uf wr k 1 = c at h
  cases h with
  | mem _ _ _ => rw [gwT_one]; omega
  | split _ j c hj hjn _ _ => omega

/-- one more unit never hurts a memory-only part -/
theorem gwT_le_pred (l k : Nat) (h : 1 ≤ k ∨ l = 1) (hl : 1 ≤ l) : gwT l (k + 1) ≤ gwT l k := by
  rcases h with h | h
  · exact gwT_anti k h l hl
  · subst h; rw [gwT_one, gwT_one]

theorem CC_anti {uf wr k n c : Nat} (h : CC uf wr k n c) : ∃ c', c' ≤ c ∧ CC uf wr (k + 1) n c' := by
  induction h with
  | mem n hn hk =>
    exact ⟨_, Nat.mul_le_mul_left uf (gwT_le_pred n k hk hn), CC.mem n hn (Or.inl (by omega))⟩
  | split n j c hj hjn hk _ ih =>
    obtain ⟨c', hc', hcc⟩ := ih
    refine ⟨wr + uf * j + uf * gwT j (k + 1) + c', ?_, CC.split n j c' hj hjn (Or.inl (by omega)) hcc⟩
    have := Nat.mul_le_mul_left uf (gwT_le_pred j k hk hj)
    omega

/-- more units never hurt -/
theorem Gd_anti (uf wr k n : Nat) (hn : 1 ≤ n) : Gd uf wr (k + 1) n ≤ Gd uf wr k n := by
  obtain ⟨c', hc', hcc⟩ := CC_anti (Gd_mem uf wr k n hn)
  exact le_trans (Gd_le hcc) hc'

theorem Gd_anti' (uf wr : Nat) {k k' : Nat} (h : k ≤ k') (n : Nat) (hn : 1 ≤ n) :
    Gd uf wr k' n ≤ Gd uf wr k n := by
  induction h with
  | refl => exact le_refl _
  | step _ ih => exact le_trans (Gd_anti uf wr _ n hn) ih

/-- **the disk merge**: a further disk checkpoint at the base, a sweep of `j` steps -/
theorem CC_P2 {uf wr k j c : Nat} (h : CC uf wr k j c) :
    ∀ n, j < n → Gd uf wr k n ≤ wr + uf * j + c + Gd uf wr k (n - j) := by
  induction h with
  | mem j hj hk =>
    intro n hjn
    have := Gd_le_split uf wr k n j hj hjn hk
    omega
  | split j j' c' hj' hj'j hk _ ih =>
    intro n hjn
    have h1 := Gd_le_split uf wr k n j' hj' (by omega) hk
    have h2 := ih (n - j') (by omega)
    have e : n - j' - (j - j') = n - j := by omega
    rw [e] at h2
    have e2 : uf * j = uf * j' + uf * (j - j') := by rw [← Nat.mul_add]; congr 1; omega
    omega

theorem Gd_P2 (uf wr k n j : Nat) (hj : 1 ≤ j) (hjn : j < n) :
    Gd uf wr k n ≤ wr + uf * j + Gd uf wr k j + Gd uf wr k (n - j) :=
  CC_P2 (Gd_mem uf wr k j hj) n hjn

/-- the RAM merge when the left part is memory-only -/
theorem CC_P1' {uf wr k m c : Nat} (h : CC uf wr k m c) :
    ∀ t, 1 ≤ t → Gd uf wr (k + 1) (t + m) ≤ uf * t + uf * gwT t (k + 1) + c := by
  induction h with
  | mem m hm hk =>
    intro t ht
    have h1 := Gd_le_mem uf wr (k + 1) (t + m) (by omega) (Or.inl (by omega))
    have h2 := gwT_rec_le1 (t + m) (k + 1) t (by omega) ht (by omega)
      (by intro hk1; rcases hk with hk | hk <;> omega)
    rw [Nat.add_sub_cancel_left, Nat.add_sub_cancel] at h2
    have := Nat.mul_le_mul_left uf h2
    rw [Nat.mul_add, Nat.mul_add] at this
    omega
  | split m l c' hl hlm hk _ ih =>
    intro t ht
    have h1 := Gd_le_split uf wr (k + 1) (t + m) t ht (by omega) (Or.inl (by omega))
    rw [Nat.add_sub_cancel_left] at h1
    have h2 := ih l hl
    have e : l + (m - l) = m := by omega
    rw [e] at h2
    have h3 := Nat.mul_le_mul_left uf (gwT_le_pred l k hk hl)
    omega

/-- **the RAM merge**: the base stays in a RAM unit, a sweep of `j` steps -/
theorem CC_P1 {uf wr k j c : Nat} (h : CC uf wr (k + 1) j c) :
    ∀ n, j < n → Gd uf wr (k + 1) n ≤ uf * j + c + Gd uf wr k (n - j) := by
  induction h with
  | mem j hj _ =>
    intro n hjn
    have := CC_P1' (Gd_mem uf wr k (n - j) (by omega)) j hj
    have e : j + (n - j) = n := by omega
    rw [e] at this
    exact this
  | split j j' c' hj' hj'j hk _ ih =>
    intro n hjn
    have h1 := Gd_le_split uf wr (k + 1) n j' hj' (by omega) hk
    have h2 := ih (n - j') (by omega)
    have e : n - j' - (j - j') = n - j := by omega
    rw [e] at h2
    have e2 : uf * j = uf * j' + uf * (j - j') := by rw [← Nat.mul_add]; congr 1; omega
    omega

theorem Gd_P1 (uf wr k n j : Nat) (hj : 1 ≤ j) (hjn : j < n) :
    Gd uf wr (k + 1) n ≤ uf * j + Gd uf wr (k + 1) j + Gd uf wr k (n - j) :=
  CC_P1 (Gd_mem uf wr (k + 1) j hj) n hjn

/-! ## the table of DiskRevolve is below every composition -/

/-- `tinf[n-1] + n·uf ≤ n·ub + c` for every composition price `c` of `n` steps -/
theorem optInf_le_CC (lmax cm uf ub wr : Nat) (hcm : 1 ≤ cm) {n c : Nat} (h : CC uf wr cm n c) :
    n ≤ lmax + 1 →
    (optInfTable lmax cm uf ub wr (opt0Table lmax cm uf ub)).getD (n - 1) 0 + n * uf ≤ n * ub + c := by
  induction h with
  | mem n hn _ =>
    intro hle
    have h1 := optInf_le_opt0 lmax lmax cm cm uf ub wr hcm (le_refl _) (n - 1) (by omega)
    have h2 := opt0_eq_gwT lmax cm uf ub (n - 1) cm (by omega) hcm (le_refl _)
    have e : n - 1 + 1 = n := by omega
    rw [e] at h2
    omega
  | split n j c hj hjn _ hc ih =>
    intro hle
    have ihc := ih (by omega)
    obtain ⟨h0, h1, _, hrec⟩ := optInfTable_spec lmax cm uf ub wr (opt0Table lmax cm uf ub)
    have hg := opt0_eq_gwT lmax cm uf ub (j - 1) cm (by omega) hcm (le_refl _)
    have ej : j - 1 + 1 = j := by omega
    rw [ej] at hg
    by_cases hlast : n - j = 1
    · -- the right part is a single step: the memory-only entry is not worse
      have h1' := optInf_le_opt0 lmax lmax cm cm uf ub wr hcm (le_refl _) (n - 1) (by omega)
      have h2 := opt0_eq_gwT lmax cm uf ub (n - 1) cm (by omega) hcm (le_refl _)
      have e : n - 1 + 1 = n := by omega
      rw [e] at h2
      have h3 := gwT_rec_le1 n cm j hcm hj hjn (by intro _; exact hlast)
      rw [hlast, gwT_one] at h3
      have h4 := Nat.mul_le_mul_left uf h3
      have hc1 : uf ≤ c := by
        have := Gd_le hc
        rw [hlast, Gd_one] at this
        exact this
      have e3 : n * ub = j * ub + ub := by
        have : n = j + 1 := by omega
        rw [this, Nat.add_mul, Nat.one_mul]
      have e4 : uf * (j + gwT j cm + 1) = uf * j + uf * gwT j cm + uf := by ring
      have e5 : n * uf = j * uf + uf := by
        have : n = j + 1 := by omega
        rw [this, Nat.add_mul, Nat.one_mul]
      rw [e4] at h4
      have e6 : uf * j = j * uf := Nat.mul_comm _ _
      have e7 : uf * n = n * uf := Nat.mul_comm _ _
      have e8 : (n - 1 + 1) * uf = n * uf := by rw [e]
      have e9 : (n - 1 + 1) * ub = n * ub := by rw [e]
      omega
    · -- a candidate of the recurrence
      have hl2 : 2 ≤ n - 1 := by omega
      have hval := hrec (n - 1) hl2 (by omega)
      have hmemc : wr + j * uf +
          (optInfTable lmax cm uf ub wr (opt0Table lmax cm uf ub)).getD (n - 1 - j) 0 +
          opt0Get (opt0Table lmax cm uf ub) cm (j - 1) ∈
          optInfCands cm uf wr (opt0Table lmax cm uf ub)
            (optInfTable lmax cm uf ub wr (opt0Table lmax cm uf ub)) (n - 1) := by
        unfold optInfCands
        exact List.mem_map.2 ⟨j, List.mem_range'_1.2 ⟨hj, by omega⟩, rfl⟩
      have hle2 := foldl_min_le _ _ hmemc
      have hmin : (optInfTable lmax cm uf ub wr (opt0Table lmax cm uf ub)).getD (n - 1) 0 ≤
          wr + j * uf +
          (optInfTable lmax cm uf ub wr (opt0Table lmax cm uf ub)).getD (n - 1 - j) 0 +
          opt0Get (opt0Table lmax cm uf ub) cm (j - 1) := by
        rw [hval]
        exact le_trans (Nat.min_le_right _ _) hle2
      have e1 : n - 1 - j = n - j - 1 := by omega
      rw [e1] at hmin
      have e2 : n * uf = j * uf + (n - j) * uf := by rw [← Nat.add_mul]; congr 1; omega
      have e3 : n * ub = j * ub + (n - j) * ub := by rw [← Nat.add_mul]; congr 1; omega
      have e6 : uf * j = j * uf := Nat.mul_comm _ _
      omega

/-- the table value plus the first sweep is at most `N·ub + Gd cm N` -/
theorem optInf_le_Gd (N cm uf ub wr : Nat) (hN : 1 ≤ N) (hcm : 1 ≤ cm) :
    (optInfTable (N - 1) cm uf ub wr (opt0Table (N - 1) cm uf ub)).getD (N - 1) 0 + N * uf
      ≤ N * ub + Gd uf wr cm N :=
  optInf_le_CC (N - 1) cm uf ub wr hcm (Gd_mem uf wr cm N hN) (by omega)

end Ckpt.LB7
