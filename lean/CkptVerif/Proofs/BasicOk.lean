import CkptVerif.Model.Online
import CkptVerif.Spec.Configs
import CkptVerif.Proofs.ExecLemmas
/-!
# The schedules of basic_schedules.py are accepted by the specification executor

For every `N ≥ 1` and every number `k ≥ 1` of requested adjoint calculations the observations of
the canonical trace (`Sched.canon`) of `SingleMemoryStorageSchedule`,
`SingleDiskStorageSchedule` (both `move_data`) and `NoneCheckpointSchedule` run through the
executor from `XS.init` without a violation of any tag.
-/
namespace Ckpt.On

/-- an executor state, all fields explicit (`X` is `XF true`) -/
def XF (fin : Bool) (fwd : Option Nat) (r : Nat) (wIcs wDeps : Option (Nat × Nat)) (cps : List Cp)
    (ended : Bool) (done : Nat) (snap : List Cp) : XS :=
  { fwd := fwd, r := r, wIcs := wIcs, wDeps := wDeps, cps := cps, ended := ended, fin := fin,
    done := done, snap := snap }

theorem XF_true (fwd : Option Nat) (r : Nat) (wIcs wDeps : Option (Nat × Nat)) (cps : List Cp)
    (ended : Bool) (done : Nat) (snap : List Cp) :
    XF true fwd r wIcs wDeps cps ended done snap = X fwd r wIcs wDeps cps ended done snap := rfl

theorem maxsize_pos : 0 < maxsize := by unfold maxsize; norm_num

theorem alive_of_passes_none {cfg : Cfg} (h : cfg.passes = none) (dn : Nat) : Alive cfg dn :=
  ⟨by rw [h]; simp, by intro k hk; rw [h] at hk; cases hk⟩

theorem sameCps_refl (l : List Cp) : sameCps l l = true := by
  unfold sameCps
  simp only [beq_self_eq_true, Bool.true_and, Bool.and_self, List.all_eq_true]
  intro c hc
  simpa using hc

section steps
variable (cfg : Cfg) (N : Nat)

/-- reversal of a stretch whose dependencies are in WORK, forward state (if any) at `n` -/
theorem step_reverse_gen (f : Option Nat) (n lo hi r : Nat) (clear : Bool) (wi wd : Option (Nat × Nat))
    (cps : List Cp) (dn : Nat) (sn : List Cp) (hN : cfg.N = N) (hal : Alive cfg dn)
    (hlt : lo < hi) (h : hi = N - r) (hf : f = some n ∨ f = none) (hc : covers wd lo hi = true) :
    step cfg (X f r wi wd cps true dn sn) ⟨.reverse hi lo clear, n, r + (hi - lo), some N, false, true⟩
      = (X f (r + (hi - lo)) wi (if clear then none else wd) cps true dn sn, []) := by
  subst h
  rcases hf with rfl | rfl
  all_goals
    simp only [step, stepViols, actViols, nextState, X, obsViols, chk, hN, hc]
    simp [hlt]
    close_step hal

/-- `EndReverse` of a schedule permitting further adjoint calculations -/
theorem step_endReverse_again (f : Option Nat) (n : Nat) (wi wd : Option (Nat × Nat))
    (cps : List Cp) (dn : Nat) (sn : List Cp) (hN : cfg.N = N) (hp : cfg.passes = none)
    (hf : f = some n ∨ f = none) (hs : sameCps cps sn = true) :
    step cfg (X f N wi wd cps true dn sn) ⟨.endReverse, n, 0, some N, false, true⟩
      = (X f 0 wi wd cps true (dn + 1) sn, []) := by
  rcases hf with rfl | rfl
  all_goals
    simp [step, stepViols, actViols, nextState, obsViols, chk, X, finished, hN, hp, hs]

end steps

/-! ## SingleMemoryStorageSchedule -/

def singleMemoryPass (N : Nat) : List Obs :=
  [⟨.reverse N 0 false, N, N, some N, false, true⟩, ⟨.endReverse, N, 0, some N, false, true⟩]

def singleMemoryObs (N k : Nat) : List Obs :=
  [⟨.forward 0 maxsize false true .work, N, 0, some N, false, true⟩,
   ⟨.endForward, N, 0, some N, false, true⟩] ++ (List.replicate k (singleMemoryPass N)).flatten

theorem singleMemory_forward (N : Nat) (_hN : 1 ≤ N) (hmax : N ≤ maxsize) :
    step (cfgSingleMemory N) (XS.init (cfgSingleMemory N))
        ⟨.forward 0 maxsize false true .work, N, 0, some N, false, true⟩
      = (X (some N) 0 none (some (0, N)) [] false 0 [], []) := by
  have hm := maxsize_pos
  have hmin : min maxsize N = N := Nat.min_eq_right hmax
  simp [step, stepViols, actViols, nextState, obsViols, chk, X, XS.init, finished, cfgSingleMemory,
    clip, Storage.isStore, hm, hmin]

theorem singleMemory_passes (N : Nat) (hN : 1 ≤ N) (k dn : Nat) :
    Clean (cfgSingleMemory N) (X (some N) 0 none (some (0, N)) [] true dn [])
      (List.replicate k (singleMemoryPass N)).flatten
      (X (some N) 0 none (some (0, N)) [] true (dn + k) []) := by
  induction k generalizing dn with
  | zero => exact Clean.nil _ _
  | succ k ih =>
    rw [List.replicate_succ, List.flatten_cons]
    have hal := alive_of_passes_none (cfg := cfgSingleMemory N) rfl dn
    have h1 := step_reverse_gen (cfgSingleMemory N) N (some N) N 0 N 0 false none (some (0, N)) [] dn []
      rfl hal (by omega) (by omega) (Or.inl rfl) (by simp [covers])
    have h2 := step_endReverse_again (cfgSingleMemory N) N (some N) N none (some (0, N)) [] dn []
      rfl rfl (Or.inl rfl) (sameCps_refl [])
    simp only [Nat.zero_add, Nat.sub_zero, Bool.false_eq_true, if_false] at h1
    have h3 := ih (dn + 1)
    have e : dn + 1 + k = dn + (k + 1) := by omega
    rw [e] at h3
    exact Clean.append (Clean.cons h1 (Clean.single h2)) h3

/-- (a) SingleMemory: the canonical trace with `k` adjoint calculations is accepted -/
theorem singleMemory_clean (N k : Nat) (hN : 1 ≤ N) (hmax : N ≤ maxsize) (_hk : 1 ≤ k) :
    Clean (cfgSingleMemory N) (XS.init (cfgSingleMemory N)) (singleMemoryObs N k)
      (X (some N) 0 none (some (0, N)) [] true k []) := by
  unfold singleMemoryObs
  have hal := alive_of_passes_none (cfg := cfgSingleMemory N) rfl 0
  have h2 := step_endForward (cfgSingleMemory N) N none (some (0, N)) [] 0 [] rfl hal
  have h3 := singleMemory_passes N hN k 0
  rw [Nat.zero_add] at h3
  exact Clean.cons (singleMemory_forward N hN hmax) (Clean.cons h2 h3)

example : Clean (cfgSingleMemory 7) (XS.init (cfgSingleMemory 7)) (singleMemoryObs 7 3)
    (X (some 7) 0 none (some (0, 7)) [] true 3 []) :=
  singleMemory_clean 7 3 (by omega) (by unfold maxsize; norm_num) (by omega)

/-! ## NoneCheckpointSchedule -/

def noneObs (N : Nat) : List Obs :=
  [⟨.forward 0 maxsize false false .none, N, 0, some N, false, true⟩,
   ⟨.endForward, N, 0, some N, true, true⟩]

/-- (c) None: the canonical trace is accepted, and the stream has ended -/
theorem none_clean (N : Nat) (_hN : 1 ≤ N) (hmax : N ≤ maxsize) :
    Clean (cfgNone N) (XS.init (cfgNone N)) (noneObs N) (X (some N) 0 none none [] true 0 []) := by
  have hm := maxsize_pos
  have hmin : min maxsize N = N := Nat.min_eq_right hmax
  have h1 : step (cfgNone N) (XS.init (cfgNone N))
      ⟨.forward 0 maxsize false false .none, N, 0, some N, false, true⟩
      = (X (some N) 0 none none [] false 0 [], []) := by
    simp [step, stepViols, actViols, nextState, obsViols, chk, X, XS.init, finished, cfgNone,
      clip, Storage.isStore, hm, hmin]
  have h2 : step (cfgNone N) (X (some N) 0 none none [] false 0 [])
      ⟨.endForward, N, 0, some N, true, true⟩
      = (X (some N) 0 none none [] true 0 [], []) := by
    simp [step, stepViols, actViols, nextState, obsViols, chk, X, finished, cfgNone]
  exact Clean.cons h1 (Clean.single h2)

theorem none_finished (N : Nat) : finished (cfgNone N) (X (some N) 0 none none [] true 0 []) = true := rfl

example : Clean (cfgNone 5) (XS.init (cfgNone 5)) (noneObs 5) (X (some 5) 0 none none [] true 0 []) :=
  none_clean 5 (by omega) (by unfold maxsize; norm_num)

/-! ## SingleDiskStorageSchedule -/

/-- storage after `i` forward steps: one adjoint-dependency checkpoint per step, most recent first -/
def diskCps : Nat → List Cp
  | 0 => []
  | i+1 => ⟨i, .disk, 0, 1⟩ :: diskCps i

theorem diskCps_mem {i : Nat} {c : Cp} (h : c ∈ diskCps i) : c.n < i ∧ c = ⟨c.n, .disk, 0, 1⟩ := by
  induction i with
  | zero => simp [diskCps] at h
  | succ i ih =>
    rcases List.mem_cons.mp h with rfl | h'
    · exact ⟨by simp, rfl⟩
    · have := ih h'; exact ⟨by omega, this.2⟩

theorem countSt_diskCps_disk (i : Nat) : countSt (diskCps i) .disk = i := by
  induction i with
  | zero => rfl
  | succ i ih =>
    have : countSt (diskCps (i+1)) .disk = countSt (diskCps i) .disk + 1 := by
      simp [diskCps, countSt]
    rw [this, ih]

theorem countSt_diskCps_ram (i : Nat) : countSt (diskCps i) .ram = 0 := by
  induction i with
  | zero => rfl
  | succ i ih =>
    have : countSt (diskCps (i+1)) .ram = countSt (diskCps i) .ram := by
      simp [diskCps, countSt]
    rw [this, ih]

theorem findCp_diskCps_none (i n : Nat) (st : Storage) (h : i ≤ n) : findCp (diskCps i) n st = none := by
  unfold findCp
  rw [List.find?_eq_none]
  intro c hc
  have := (diskCps_mem hc).1
  simp; omega

theorem findCp_diskCps (M k : Nat) (h : k < M) : findCp (diskCps M) k .disk = some ⟨k, .disk, 0, 1⟩ := by
  induction M with
  | zero => omega
  | succ M ih =>
    by_cases hk : k = M
    · subst hk; simp [diskCps, findCp]
    · have := ih (by omega)
      unfold findCp at this ⊢
      rw [diskCps, List.find?_cons_of_neg]
      · exact this
      · simp; omega

theorem eraseCp_diskCps (k : Nat) : eraseCp (diskCps (k+1)) k .disk = diskCps k := by
  have h : eraseCp (diskCps k) k .disk = diskCps k := by
    unfold eraseCp
    rw [List.filter_eq_self]
    intro c hc
    have := (diskCps_mem hc).1
    simp; omega
  unfold eraseCp at h ⊢
  rw [diskCps, List.filter_cons, h]
  simp

section steps
variable (cfg : Cfg) (N : Nat)

/-- a Forward of an online schedule that has not been finalised, writing a checkpoint to `st`:
the executor clips its end at `N` and finalises once `N` is reached -/
theorem step_write_online (n0 n1 r : Nat) (wi wa : Bool) (st : Storage) (wi0 wd0 : Option (Nat × Nat))
    (cps : List Cp) (dn : Nat) (sn : List Cp) (hN : cfg.N = N) (hal : Alive cfg dn)
    (hst : st.isStore = true) (hlt : n0 < n1) (hw : wi = !wa) (ha : wa = true → min n1 N = n0 + 1)
    (hfind : findCp cps n0 st = none)
    (hB : withinBudget cfg (⟨n0, st, 0, 0⟩ :: cps) = true) :
    step cfg (XF false (some n0) r wi0 wd0 cps false dn sn)
        ⟨.forward n0 n1 wi wa st, min n1 N, r, if N ≤ n1 then some N else none, false, true⟩
      = (XF (decide (N ≤ n1)) (some (min n1 N)) r none none
          (⟨n0, st, if wi then min n1 N - n0 else 0, if wa then min n1 N - n0 else 0⟩ :: cps) false dn sn, []) := by
  have hnw : st ≠ .work := by
    intro hw; rw [hw] at hst; simp [Storage.isStore] at hst
  have hnn : st ≠ .none := by
    intro hw; rw [hw] at hst; simp [Storage.isStore] at hst
  subst hw
  cases wa
  · simp only [step, stepViols, actViols, nextState, clip, XF, obsViols, chk, hN, hst, hfind, hB]
    simp [hlt, hnw, hnn]
    by_cases h : N ≤ n1 <;> simp [h] <;> close_step hal
  · have ha' := ha rfl
    simp only [step, stepViols, actViols, nextState, clip, XF, obsViols, chk, hN, hst, hfind, hB]
    simp [hlt, hnw, hnn, ha']
    by_cases h : N ≤ n1 <;> simp [h] <;> close_step hal

/-- load adjoint dependency data (a checkpoint without restart data) from `src` into WORK, keeping it -/
theorem step_copy_deps (f : Option Nat) (i dp r : Nat) (src : Storage) (cps : List Cp)
    (dn : Nat) (sn : List Cp) (hN : cfg.N = N) (hal : Alive cfg dn)
    (hst : src.isStore = true) (hdp : 0 < dp) (h : i + 1 = N - r)
    (hfind : findCp cps i src = some ⟨i, src, 0, dp⟩) :
    step cfg (X f r none none cps true dn sn) ⟨.copy i src .work, i, r, some N, false, true⟩
      = (X none r none (some (i, i + dp)) cps true dn sn, []) := by
  have hnf := finished_false hal (X f r none none cps true dn sn) rfl
  have hnf' := finished_false hal (X none r none (some (i, i + dp)) cps true dn sn) rfl
  simp only [step, stepViols, hnf, actViols, actViols.loadViols, nextState, X, obsViols, chk, hN, hst, hfind] at *
  simp [hdp, h, Storage.isStore, hnf']
  omega

/-- load adjoint dependency data from `src` into WORK, deleting the checkpoint -/
theorem step_move_deps (f : Option Nat) (i dp r : Nat) (src : Storage) (cps : List Cp)
    (dn : Nat) (sn : List Cp) (hN : cfg.N = N) (hal : Alive cfg dn)
    (hst : src.isStore = true) (hdp : 0 < dp) (h : i + 1 = N - r)
    (hfind : findCp cps i src = some ⟨i, src, 0, dp⟩) :
    step cfg (X f r none none cps true dn sn) ⟨.move i src .work, i, r, some N, false, true⟩
      = (X none r none (some (i, i + dp)) (eraseCp cps i src) true dn sn, []) := by
  have hnf := finished_false hal (X f r none none cps true dn sn) rfl
  have hnf' := finished_false hal (X none r none (some (i, i + dp)) (eraseCp cps i src) true dn sn) rfl
  simp only [step, stepViols, hnf, actViols, actViols.loadViols, nextState, X, obsViols, chk, hN, hst, hfind] at *
  simp [hdp, h, Storage.isStore, hnf']
  omega

end steps

/-- the observations of the online forward sweep of SingleDisk under the canonical client -/
def singleDiskFwdObs (N : Nat) : List Obs :=
  (List.range N).map (fun i =>
    ⟨.forward i (i + 1) false true .disk, i + 1, 0, if i + 1 = N then some N else none, false, true⟩)

/-- decoration of the events after finalisation: exhausted exactly at the `EndReverse` of the
single permitted calculation (`move_data = True`) -/
def sdObs (move : Bool) (N : Nat) (e : Ev) : Obs :=
  ⟨e.act, e.n, e.r, some N, move && decide (e.act = .endReverse), true⟩

def singleDiskPassObs (move : Bool) (N : Nat) : List Obs := (singleDiskPass move N N).map (sdObs move N)

def singleDiskObs (move : Bool) (N k : Nat) : List Obs :=
  singleDiskFwdObs N ++ [sdObs move N ⟨.endForward, N, 0⟩] ++
    (List.replicate (if move then 1 else k) (singleDiskPassObs move N)).flatten

theorem alive_singleDisk (move : Bool) (N : Nat) : Alive (cfgSingleDisk move N) 0 := by
  cases move <;> simp [Alive, cfgSingleDisk]

theorem withinBudget_singleDisk (move : Bool) (N i : Nat) (h : i + 1 ≤ N) :
    withinBudget (cfgSingleDisk move N) (⟨i, .disk, 0, 0⟩ :: diskCps i) = true := by
  have h1 : countSt (⟨i, .disk, 0, 0⟩ :: diskCps i) .disk = i + 1 := by
    have := countSt_diskCps_disk i
    simp only [countSt] at this ⊢
    simp [this]
  have h2 : countSt (⟨i, .disk, 0, 0⟩ :: diskCps i) .ram = 0 := by
    have := countSt_diskCps_ram i
    simp only [countSt] at this ⊢
    simp [this]
  simp [withinBudget, withinOpt, cfgSingleDisk, h1, h2, h]

/-- the forward sweep: `j ≤ N` steps, each leaving its adjoint-dependency checkpoint on DISK -/
theorem singleDisk_forward (move : Bool) (N : Nat) (hN : 1 ≤ N) (j : Nat) (hj : j ≤ N) :
    Clean (cfgSingleDisk move N) (XS.init (cfgSingleDisk move N))
      ((List.range j).map (fun i =>
        (⟨.forward i (i + 1) false true .disk, i + 1, 0, if i + 1 = N then some N else none, false, true⟩ : Obs)))
      (XF (decide (N ≤ j)) (some j) 0 none none (diskCps j) false 0 []) := by
  induction j with
  | zero =>
    have : decide (N ≤ 0) = false := by simp; omega
    rw [this]
    exact Clean.nil _ _
  | succ j ih =>
    rw [List.range_succ, List.map_append]
    refine Clean.append (ih (by omega)) ?_
    have hd : decide (N ≤ j) = false := by simp; omega
    rw [hd]
    have hmin : min (j + 1) N = j + 1 := Nat.min_eq_left hj
    have h := step_write_online (cfgSingleDisk move N) N j (j + 1) 0 false true .disk none none (diskCps j) 0 []
      rfl (alive_singleDisk move N) rfl (by omega) rfl (fun _ => hmin)
      (findCp_diskCps_none j j .disk (le_refl _)) (withinBudget_singleDisk move N j hj)
    rw [hmin] at h
    have he : (if N ≤ j + 1 then some N else none) = (if j + 1 = N then some N else none) := by
      by_cases h' : j + 1 = N
      · simp [h']
      · have : ¬ N ≤ j + 1 := by omega
        simp [h', this]
    rw [he] at h
    simp only [Bool.false_eq_true, if_false, if_true, Nat.add_sub_cancel_left] at h
    exact Clean.single h

/-- one adjoint calculation of `move_data = False`: storage is left as it was -/
theorem singleDisk_pass_copy (N dn : Nat) (j : Nat) (hj : j ≤ N) (f : Option Nat) (hf : j = 0 → f = none) :
    Clean (cfgSingleDisk false N) (X f (N - j) none none (diskCps N) true dn (diskCps N))
      ((singleDiskPass false N j).map (sdObs false N))
      (X none 0 none none (diskCps N) true (dn + 1) (diskCps N)) := by
  have hal := alive_of_passes_none (cfg := cfgSingleDisk false N) rfl dn
  induction j generalizing f with
  | zero =>
    have hf' := hf rfl
    subst hf'
    simp only [singleDiskPass, List.map_cons, List.map_nil, sdObs, Bool.false_and, Bool.false_eq_true, if_false,
      Nat.sub_zero]
    exact Clean.single (step_endReverse_again (cfgSingleDisk false N) N none 0 none none (diskCps N) dn (diskCps N)
      rfl rfl (Or.inr rfl) (sameCps_refl _))
  | succ j ih =>
    simp only [singleDiskPass, List.map_cons, sdObs, Bool.false_and, Bool.false_eq_true, if_false]
    have h1 := step_copy_deps (cfgSingleDisk false N) N f j 1 (N - (j + 1)) .disk (diskCps N) dn (diskCps N)
      rfl hal rfl (by omega) (by omega) (findCp_diskCps N j (by omega))
    have h2 := step_reverse_gen (cfgSingleDisk false N) N none j j (j + 1) (N - (j + 1)) true none (some (j, j + 1))
      (diskCps N) dn (diskCps N) rfl hal (by omega) (by omega) (Or.inr rfl) (by simp [covers])
    have e : N - (j + 1) + (j + 1 - j) = N - j := by omega
    rw [e] at h2
    simp only [if_true] at h2
    exact Clean.cons h1 (Clean.cons h2 (ih (by omega) none (fun _ => rfl)))

/-- the single adjoint calculation of `move_data = True`: storage is emptied -/
theorem singleDisk_pass_move (N : Nat) (sn : List Cp) (j : Nat) (hj : j ≤ N) (f : Option Nat) (hf : j = 0 → f = none) :
    Clean (cfgSingleDisk true N) (X f (N - j) none none (diskCps j) true 0 sn)
      ((singleDiskPass true N j).map (sdObs true N))
      (X none N none none [] true 1 sn) := by
  have hal := alive_singleDisk true N
  induction j generalizing f with
  | zero =>
    have hf' := hf rfl
    subst hf'
    simp only [singleDiskPass, List.map_cons, List.map_nil, sdObs, Nat.sub_zero, if_true, diskCps]
    refine Clean.single ?_
    simp [step, stepViols, actViols, nextState, obsViols, chk, X, finished, cfgSingleDisk]
  | succ j ih =>
    simp only [singleDiskPass, List.map_cons, sdObs, if_true]
    have h1 := step_move_deps (cfgSingleDisk true N) N f j 1 (N - (j + 1)) .disk (diskCps (j + 1)) 0 sn
      rfl hal rfl (by omega) (by omega) (findCp_diskCps (j + 1) j (by omega))
    rw [eraseCp_diskCps] at h1
    have h2 := step_reverse_gen (cfgSingleDisk true N) N none j j (j + 1) (N - (j + 1)) true none (some (j, j + 1))
      (diskCps j) 0 sn rfl hal (by omega) (by omega) (Or.inr rfl) (by simp [covers])
    have e : N - (j + 1) + (j + 1 - j) = N - j := by omega
    rw [e] at h2
    simp only [if_true] at h2
    have e1 : (true && decide (Action.move j Storage.disk Storage.work = Action.endReverse)) = false := by simp
    have e2 : (true && decide (Action.reverse (j + 1) j true = Action.endReverse)) = false := by simp
    rw [e1, e2]
    exact Clean.cons h1 (Clean.cons h2 (ih (by omega) none (fun _ => rfl)))

theorem singleDisk_passes_copy (N : Nat) (hN : 1 ≤ N) (k dn : Nat) (f : Option Nat) :
    Clean (cfgSingleDisk false N) (X f 0 none none (diskCps N) true dn (diskCps N))
      (List.replicate k (singleDiskPassObs false N)).flatten
      (X (if k = 0 then f else none) 0 none none (diskCps N) true (dn + k) (diskCps N)) := by
  induction k generalizing dn f with
  | zero => exact Clean.nil _ _
  | succ k ih =>
    rw [List.replicate_succ, List.flatten_cons]
    have h1 := singleDisk_pass_copy N dn N (le_refl _) f (by omega)
    rw [Nat.sub_self] at h1
    have h2 := ih (dn + 1) none
    have e : dn + 1 + k = dn + (k + 1) := by omega
    rw [e] at h2
    have e2 : (if k = 0 then (none : Option Nat) else none) = none := by split <;> rfl
    rw [e2] at h2
    simp only [Nat.add_one_ne_zero, if_false]
    exact Clean.append h1 h2

/-- the state in which the forward sweep of SingleDisk ends is the finalised one -/
theorem singleDisk_prefix (move : Bool) (N : Nat) (hN : 1 ≤ N) :
    Clean (cfgSingleDisk move N) (XS.init (cfgSingleDisk move N))
      (singleDiskFwdObs N ++ [sdObs move N ⟨.endForward, N, 0⟩])
      (X (some N) 0 none none (diskCps N) true 0 (diskCps N)) := by
  have h1 := singleDisk_forward move N hN N (le_refl _)
  have hd : decide (N ≤ N) = true := by simp
  rw [hd, XF_true] at h1
  have h2 := step_endForward (cfgSingleDisk move N) N none none (diskCps N) 0 [] rfl (alive_singleDisk move N)
  have e : sdObs move N ⟨.endForward, N, 0⟩ = Ev.obs ⟨.endForward, N, 0⟩ N := by
    simp [sdObs, Ev.obs]
  rw [e]
  exact Clean.append h1 (Clean.single h2)

/-- (b) SingleDisk, `move_data = False`: the canonical trace with `k` adjoint calculations is
accepted; storage is the same after every calculation -/
theorem singleDisk_copy_clean (N k : Nat) (hN : 1 ≤ N) (hk : 1 ≤ k) :
    Clean (cfgSingleDisk false N) (XS.init (cfgSingleDisk false N)) (singleDiskObs false N k)
      (X none 0 none none (diskCps N) true k (diskCps N)) := by
  unfold singleDiskObs
  have h := singleDisk_passes_copy N hN k 0 (some N)
  have hk0 : ¬ k = 0 := by omega
  simp only [hk0, if_false, Nat.zero_add] at h
  simp only [Bool.false_eq_true, if_false]
  exact Clean.append (singleDisk_prefix false N hN) h

/-- (b) SingleDisk, `move_data = True`: the canonical trace (one adjoint calculation, whatever
number was asked for) is accepted, ends with empty storage, and the stream has ended -/
theorem singleDisk_move_clean (N k : Nat) (hN : 1 ≤ N) (_hk : 1 ≤ k) :
    Clean (cfgSingleDisk true N) (XS.init (cfgSingleDisk true N)) (singleDiskObs true N k)
      (X none N none none [] true 1 (diskCps N)) := by
  unfold singleDiskObs
  have h := singleDisk_pass_move N (diskCps N) N (le_refl _) (some N) (by omega)
  rw [Nat.sub_self] at h
  simp only [if_true, List.replicate_one, List.flatten_cons, List.flatten_nil, List.append_nil]
  exact Clean.append (singleDisk_prefix true N hN) h

theorem singleDisk_move_finished (N : Nat) :
    finished (cfgSingleDisk true N) (X none N none none [] true 1 (diskCps N)) = true := rfl

example : Clean (cfgSingleDisk false 4) (XS.init (cfgSingleDisk false 4)) (singleDiskObs false 4 3)
    (X none 0 none none (diskCps 4) true 3 (diskCps 4)) :=
  singleDisk_copy_clean 4 3 (by omega) (by omega)

example : Clean (cfgSingleDisk true 4) (XS.init (cfgSingleDisk true 4)) (singleDiskObs true 4 2)
    (X none 4 none none [] true 1 (diskCps 4)) :=
  singleDisk_move_clean 4 2 (by omega) (by omega)

/-! ## the observation lists are what the canonical client records (checked on instances) -/

/-- the observations on the `act` lines of a trace -/
def actLines (ls : List Line) : List Obs :=
  ls.filterMap (fun l => match l with | .act o => some o | _ => none)

example : actLines (singleMemorySched.canon 7 3 100) = singleMemoryObs 7 3 := by decide
example : actLines (noneSched.canon 7 3 100) = noneObs 7 := by decide
example : actLines ((singleDiskSched false).canon 4 3 100) = singleDiskObs false 4 3 := by decide
example : actLines ((singleDiskSched true).canon 4 3 100) = singleDiskObs true 4 3 := by decide

end Ckpt.On
