import CkptVerif.Proofs.Canon
import CkptVerif.Proofs.ExecLemmas
/-!
# Generic end-to-end glue for offline single-adjoint classes

Class-level acceptance theorems have the shape
`Clean cfg (XS.init cfg) (evs.map (Ev.obs · N) ++ [⟨.endReverse, nE, N, some N, true, true⟩]) xf`.
This file turns such a statement into "the monitor accepts the canonical trace of the schedule
object" (`monitor … (canon …) = []`).
-/
namespace Ckpt

/-- (i), general form: the decorated stream of `evs ++ [e]` -/
theorem obsRec_snoc (N : Nat) (evs : List Ev) (e : Ev) :
    obsRec N (evs ++ [e]) = evs.map (Ev.obs · N) ++ [⟨e.act, e.n, e.r, some N, true, true⟩] := by
  induction evs with
  | nil => rfl
  | cons a evs ih =>
    rw [List.cons_append, obsRec, ih]
    simp [Ev.obs]

/-- (i) the decorated stream of an offline schedule ending in `EndReverse` -/
theorem obsOffline_snoc_endReverse (N : Nat) (evs : List Ev) (nE : Nat) :
    obsOffline N (evs ++ [⟨.endReverse, nE, N⟩]) =
      evs.map (Ev.obs · N) ++ [⟨.endReverse, nE, N, some N, true, true⟩] := by
  rw [obsOffline_eq_rec, obsRec_snoc]

/-- (ii) a `Clean` run records no violation -/
theorem Clean.runFrom_viols {cfg : Cfg} {x x' : XS} {os : List Obs} (h : Clean cfg x os x')
    (i : Nat) : (runFrom cfg i x os).2 = [] := by rw [h i]

theorem Clean.runFrom_state {cfg : Cfg} {x x' : XS} {os : List Obs} (h : Clean cfg x os x')
    (i : Nat) : (runFrom cfg i x os).1 = x' := by rw [h i]

theorem Clean.run_viols {cfg : Cfg} {x' : XS} {os : List Obs} (h : Clean cfg (XS.init cfg) os x') :
    (run cfg os).2 = [] := h.runFrom_viols 0

theorem Clean.run_state {cfg : Cfg} {x' : XS} {os : List Obs} (h : Clean cfg (XS.init cfg) os x') :
    (run cfg os).1 = x' := h.runFrom_state 0

/-- (iii) **Glue theorem**: from class-level acceptance by the executor to acceptance of the
canonical trace of the schedule object by the whole monitor. -/
theorem offline_end_to_end (cfg : Cfg) (N k fuel : Nat) (evs : List Ev) (nE : Nat)
    (uses : Storage → Option Bool) (xf : XS)
    (hN : cfg.N = N) (hon : cfg.online = false) (hp : cfg.passes = some 1)
    (hfuel : evs.length + 5 ≤ fuel)
    (hpre : ∀ e ∈ evs, e.act ≠ .endReverse)
    (hclean : Clean cfg (XS.init cfg)
      (evs.map (Ev.obs · N) ++ [⟨.endReverse, nE, N, some N, true, true⟩]) xf)
    (huses : ∀ st, (uses st).isSome = true)
    (hram : (∃ e ∈ evs, touches .ram e.act = true) → uses .ram = some true)
    (hdisk : (∃ e ∈ evs, touches .disk e.act = true) → uses .disk = some true) :
    monitor cfg k
      ((offlineSched N (.ok (evs ++ [⟨.endReverse, nE, N⟩])) uses).canon N k fuel) = [] := by
  have hmem : ∀ st, (∃ e ∈ evs ++ [(⟨.endReverse, nE, N⟩ : Ev)], touches st e.act = true) →
      ∃ e ∈ evs, touches st e.act = true := by
    rintro st ⟨e, he, ht⟩
    rcases List.mem_append.mp he with he | he
    · exact ⟨e, he, ht⟩
    · rw [List.mem_singleton.mp he] at ht; cases ht
  apply monitor_offline_clean_gen cfg N N k fuel evs nE N uses hN hon hp
    (by rw [List.length_append, List.length_singleton]; omega) hpre
  · rw [obsOffline_snoc_endReverse]; exact hclean.run_viols
  · exact huses
  · exact fun h => hram (hmem _ h)
  · exact fun h => hdisk (hmem _ h)

/-- the start index only labels the violations -/
theorem runFrom_index (cfg : Cfg) (os : List Obs) : ∀ (x : XS) (i j : Nat),
    (runFrom cfg i x os).1 = (runFrom cfg j x os).1 ∧
    ((runFrom cfg i x os).2 = [] → (runFrom cfg j x os).2 = []) := by
  induction os with
  | nil => intro x i j; exact ⟨rfl, fun _ => rfl⟩
  | cons o os ih =>
    intro x i j
    obtain ⟨h1, h2⟩ := ih (step cfg x o).1 (i + 1) (j + 1)
    simp only [runFrom, List.append_eq_nil_iff, List.map_eq_nil_iff]
    exact ⟨h1, fun h => ⟨h.1, h2 h.2⟩⟩

/-- converse of (ii): a violation-free run from index 0 is `Clean` -/
theorem clean_of_runFrom (cfg : Cfg) (x : XS) (os : List Obs)
    (h : (runFrom cfg 0 x os).2 = []) : Clean cfg x os (runFrom cfg 0 x os).1 := by
  intro i
  obtain ⟨h1, h2⟩ := runFrom_index cfg os x 0 i
  exact Prod.ext h1.symm (h2 h)

/-- non-vacuity: the example of `Canon.lean` in `Clean` form -/
example : ∃ xf, Clean exCfg (XS.init exCfg)
    (exPre.map (Ev.obs · 2) ++ [⟨.endReverse, 1, 2, some 2, true, true⟩]) xf :=
  ⟨_, clean_of_runFrom exCfg _ _ (by decide)⟩

end Ckpt

section AxiomCheck
open Ckpt
#print axioms obsOffline_snoc_endReverse
#print axioms Clean.run_viols
#print axioms offline_end_to_end
end AxiomCheck
