import CkptVerif.Proofs.Canon
import CkptVerif.Proofs.ExecLemmas
import CkptVerif.Proofs.OfflineGlue
import CkptVerif.Proofs.SegLabels
import CkptVerif.Spec.Configs
/-!
# The canonical trace of an ONLINE schedule, and what the monitor does with it

For a `Sched` with `maxN0 = none` whose forward loop makes progress, the canonical driver
(`Sched.canon N k fuel`, finalisation point `N ≥ 1`) records

* the init line and a `uses` line,
* the forward act lines `fwdObs s N …` (reported `n = min (new n) N`; `max_n = none` except on
  the last one, where the driver has finalised: `n = N`, `max_n = some N`),
* then, depending on `passes`:
  - `none` (SingleMemory, SingleDisk copy, TwoLevel): the act lines of `first N` (a `uses` line
    after its EndForward), then `k - 1` times `again N`, then a `uses` line;
  - `some 1` (SingleDisk move): the act lines of `first N`, the last one (EndReverse) exhausted,
    three stop lines, a `uses` line;
  - `some 0` (None): the EndForward line, exhausted, a `uses` line, three stop lines, a `uses` line.

`monitor cfg k` of that trace is `[]` as soon as the observation list is `Clean` from `XS.init cfg`
to a state satisfying the end condition, and `uses_storage_type` answers correctly (C11).
-/
namespace Ckpt

/-! ## Generic monitor lemma for traces of the canonical shape -/

/-- the observations of the `act` lines -/
def actsOf (ls : List Line) : List Obs :=
  ls.filterMap (fun l => match l with | .act o => some o | _ => none)

/-- every line is the given `uses` line or an `act` line -/
def ActUses (u : Line) (ls : List Line) : Prop := ∀ l ∈ ls, l = u ∨ ∃ o, l = Line.act o

theorem actsOf_append (a b : List Line) : actsOf (a ++ b) = actsOf a ++ actsOf b := by
  simp [actsOf, List.filterMap_append]

theorem actsOf_map_act (os : List Obs) : actsOf (os.map Line.act) = os := by
  induction os with
  | nil => rfl
  | cons o os ih => simp only [List.map_cons, actsOf, List.filterMap_cons] at ih ⊢; rw [ih]

theorem actsOf_uses (a b c d : Option Bool) : actsOf [Line.uses a b c d] = [] := rfl

theorem ActUses.append {u : Line} {a b : List Line} (ha : ActUses u a) (hb : ActUses u b) :
    ActUses u (a ++ b) := by
  intro l hl
  rcases List.mem_append.mp hl with h | h
  · exact ha l h
  · exact hb l h

theorem ActUses.map_act (u : Line) (os : List Obs) : ActUses u (os.map Line.act) := by
  intro l hl
  obtain ⟨o, _, rfl⟩ := List.mem_map.mp hl
  exact .inr ⟨o, rfl⟩

theorem ActUses.single (u : Line) : ActUses u [u] := by
  intro l hl; exact .inl (List.mem_singleton.mp hl)

theorem lineActs_eq (ls : List Line) : lineActs ls = (actsOf ls).map (·.act) := by
  induction ls with
  | nil => rfl
  | cons l ls ih =>
    cases l <;> simp only [lineActs, actsOf, List.filterMap_cons, List.map_cons] at ih ⊢ <;> rw [ih]

/-- the monitor's fold over act/uses lines is the executor's run over the observations -/
theorem foldl_monStep_actUses (cfg : Cfg) (a b c d : Option Bool) :
    ∀ (ls : List Line) (x : XS) (i : Nat) (V : List (Nat × Viol)),
      ActUses (.uses a b c d) ls →
      ls.foldl (monStep cfg) ⟨x, i, false, V⟩ =
        ⟨(runFrom cfg i x (actsOf ls)).1, i + (actsOf ls).length, false,
          V ++ (runFrom cfg i x (actsOf ls)).2⟩ := by
  intro ls
  induction ls with
  | nil => intro x i V _; simp [actsOf, runFrom]
  | cons l ls ih =>
    intro x i V h
    have hl := h l (by simp)
    have hls : ActUses (.uses a b c d) ls := fun y hy => h y (by simp [hy])
    rcases hl with rfl | ⟨o, rfl⟩
    · rw [List.foldl_cons]
      show List.foldl (monStep cfg) ⟨x, i, false, V⟩ ls = _
      rw [ih x i V hls]
      rfl
    · rw [List.foldl_cons]
      simp only [monStep]
      rw [ih _ _ _ hls]
      have : actsOf (Line.act o :: ls) = o :: actsOf ls := rfl
      rw [this]
      simp only [runFrom, List.length_cons]
      simp [chk, Nat.add_assoc, Nat.add_comm 1]

/-- **Generic monitor lemma.**  A trace `init, uses, body, [stop, stop, stop,] uses` whose body
consists of act lines and copies of the `uses` line is accepted as soon as the observations of the
body are `Clean` from `XS.init cfg` to a state `xf` satisfying the end condition, and the `uses`
line satisfies C11 w.r.t. the observed actions. -/
theorem monitor_shape (cfg : Cfg) (k : Nat) (ua ub uc ud : Option Bool) (body : List Line)
    (stops : List Line) (xf : XS)
    (hbody : ActUses (.uses ua ub uc ud) body)
    (hclean : Clean cfg (XS.init cfg) (actsOf body) xf)
    (hstops : stops = [] ∨ (finished cfg xf = true ∧
      ∃ n r mN, stops = [Line.stop n r mN true true, Line.stop n r mN true true,
        Line.stop n r mN true true]))
    (hend : endViols cfg k xf = [])
    (hsome : ua.isSome = true ∧ ub.isSome = true ∧ uc.isSome = true ∧ ud.isSome = true)
    (hram : (∃ o ∈ actsOf body, touches .ram o.act = true) → ua = some true)
    (hdisk : (∃ o ∈ actsOf body, touches .disk o.act = true) → ub = some true) :
    monitor cfg k ([Line.init 0 0 (if cfg.online then none else some cfg.N) false false,
      Line.uses ua ub uc ud] ++ body ++ stops ++ [Line.uses ua ub uc ud]) = [] := by
  -- the fold
  have hfold : ([Line.init 0 0 (if cfg.online then none else some cfg.N) false false,
      Line.uses ua ub uc ud] ++ body ++ stops ++ [Line.uses ua ub uc ud]).foldl (monStep cfg)
        { x := XS.init cfg, idx := 0, stopped := false, viols := [] } =
      ⟨xf, (actsOf body).length, decide (stops ≠ []), []⟩ := by
    rw [List.foldl_append, List.foldl_append, List.foldl_append]
    have h0 : [Line.init 0 0 (if cfg.online then none else some cfg.N) false false,
        Line.uses ua ub uc ud].foldl (monStep cfg)
        { x := XS.init cfg, idx := 0, stopped := false, viols := [] } =
        { x := XS.init cfg, idx := 0, stopped := false, viols := [] } := by
      simp [monStep, chk]
    rw [h0, foldl_monStep_actUses cfg ua ub uc ud body _ _ _ hbody, hclean 0]
    rcases hstops with rfl | ⟨hfin, n, r, mN, rfl⟩
    · simp [monStep]
    · simp [monStep, hfin, chk]
  -- C11
  have hc11 : c11Viols ([Line.init 0 0 (if cfg.online then none else some cfg.N) false false,
      Line.uses ua ub uc ud] ++ body ++ stops ++ [Line.uses ua ub uc ud]) = [] := by
    have hacts : actsOf ([Line.init 0 0 (if cfg.online then none else some cfg.N) false false,
        Line.uses ua ub uc ud] ++ body ++ stops ++ [Line.uses ua ub uc ud]) = actsOf body := by
      rw [actsOf_append, actsOf_append, actsOf_append]
      have : actsOf stops = [] := by
        rcases hstops with rfl | ⟨_, n, r, mN, rfl⟩ <;> rfl
      rw [this]
      simp [actsOf]
    apply c11Viols_nil
    intro a b c d hmem
    rw [lineActs_eq, hacts]
    have huses : Line.uses a b c d = Line.uses ua ub uc ud := by
      simp only [List.mem_append, List.mem_cons, List.not_mem_nil, or_false] at hmem
      rcases hmem with (((h | h) | h) | h) | h
      · cases h
      · exact h
      · rcases hbody _ h with h' | ⟨o, h'⟩
        · exact h'
        · cases h'
      · rcases hstops with rfl | ⟨_, n, r, mN, rfl⟩
        · cases h
        · simp at h
      · exact h
    cases huses
    refine ⟨hsome.1, hsome.2.1, hsome.2.2.1, hsome.2.2.2, ?_, ?_⟩
    · intro h
      rw [List.any_eq_true] at h
      obtain ⟨x, hx, ht⟩ := h
      obtain ⟨o, ho, rfl⟩ := List.mem_map.mp hx
      exact hram ⟨o, ho, ht⟩
    · intro h
      rw [List.any_eq_true] at h
      obtain ⟨x, hx, ht⟩ := h
      obtain ⟨o, ho, rfl⟩ := List.mem_map.mp hx
      exact hdisk ⟨o, ho, ht⟩
  unfold monitor
  simp only [hfold, hc11, hend]
  rfl

/-! ## The forward phase -/

/-- the observations of the forward phase, started with the forward at `n`: `fwdEv` is applied
until the reported `n` reaches `N`; the driver then finalises (`n = N`, `max_n = some N`). -/
def fwdObs (s : Sched) (N : Nat) : (fuel : Nat) → (n : Nat) → List Obs
  | 0, _ => []
  | f+1, n =>
    if N ≤ (s.fwdEv n).n then [⟨(s.fwdEv n).act, N, (s.fwdEv n).r, some N, false, true⟩]
    else ⟨(s.fwdEv n).act, (s.fwdEv n).n, (s.fwdEv n).r, none, false, true⟩ ::
      fwdObs s N f (s.fwdEv n).n

/-- what the generic theorems assume of the forward loop -/
structure FwdHyp (s : Sched) : Prop where
  online : s.maxN0 = none
  progress : ∀ n, n < (s.fwdEv n).n
  notER : ∀ n, (s.fwdEv n).act ≠ .endReverse
  notEF : ∀ n, (s.fwdEv n).act ≠ .endForward

theorem canonLoop_fwd_more (s : Sched) (H : FwdHyp s) (N k g : Nat) (m : MSt)
    (hN : m.maxN = none) (hp : m.phase = .fwd) (hlt : (s.fwdEv m.n).n < N) :
    s.canonLoop N k (g + 1) m 0 false =
      Line.act ⟨(s.fwdEv m.n).act, (s.fwdEv m.n).n, (s.fwdEv m.n).r, none, false, true⟩ ::
      s.canonLoop N k g (⟨(s.fwdEv m.n).n, (s.fwdEv m.n).r, none, true, false, .fwd⟩ : MSt) 0 false := by
  rw [Sched.canonLoop]
  simp only [next_fwd_none s m hp hN]
  have h1 := H.notER m.n
  have h2 := H.notEF m.n
  have h3 : ¬ N ≤ (s.fwdEv m.n).n := by omega
  simp [h1, h2, h3, hN]

theorem canonLoop_fwd_last (s : Sched) (H : FwdHyp s) (N k g : Nat) (m : MSt) (h1N : 1 ≤ N)
    (hN : m.maxN = none) (hp : m.phase = .fwd) (hle : N ≤ (s.fwdEv m.n).n) :
    s.canonLoop N k (g + 1) m 0 false =
      Line.act ⟨(s.fwdEv m.n).act, N, (s.fwdEv m.n).r, some N, false, true⟩ ::
      s.canonLoop N k g (⟨N, (s.fwdEv m.n).r, some N, true, false, .fwd⟩ : MSt) 0 false := by
  rw [Sched.canonLoop]
  simp only [next_fwd_none s m hp hN]
  have h1 := H.notER m.n
  have h2 := H.notEF m.n
  have hfin : finalize (⟨(s.fwdEv m.n).n, (s.fwdEv m.n).r, none, true, false, .fwd⟩ : MSt) (N : Int) =
      ((⟨N, (s.fwdEv m.n).r, some N, true, false, .fwd⟩ : MSt), .ok) := by
    rw [finalize_none_ge _ _ (by omega) rfl (by simp; omega)]
    simp
  simp [h1, h2, hle, hN, hfin]

/-- the forward phase of the canonical loop -/
theorem canonLoop_fwd (s : Sched) (H : FwdHyp s) (N k : Nat) (h1N : 1 ≤ N) :
    ∀ (fF : Nat) (m : MSt) (g : Nat), m.maxN = none → m.phase = .fwd → m.n < N → N - m.n ≤ fF →
      ∃ r, s.canonLoop N k ((fwdObs s N fF m.n).length + g) m 0 false =
        (fwdObs s N fF m.n).map Line.act ++
          s.canonLoop N k g (⟨N, r, some N, true, false, .fwd⟩ : MSt) 0 false := by
  intro fF
  induction fF with
  | zero => intro m g _ _ h1 h2; omega
  | succ fF ih =>
    intro m g hN hp hlt hfF
    have hprog := H.progress m.n
    by_cases hle : N ≤ (s.fwdEv m.n).n
    · refine ⟨(s.fwdEv m.n).r, ?_⟩
      have : fwdObs s N (fF + 1) m.n =
          [⟨(s.fwdEv m.n).act, N, (s.fwdEv m.n).r, some N, false, true⟩] := by
        rw [fwdObs, if_pos hle]
      rw [this]
      simp only [List.length_singleton, List.map_cons, List.map_nil, List.cons_append,
        List.nil_append]
      rw [show 1 + g = g + 1 by omega]
      exact canonLoop_fwd_last s H N k g m h1N hN hp hle
    · have hlt' : (s.fwdEv m.n).n < N := by omega
      obtain ⟨r, ih'⟩ := ih (⟨(s.fwdEv m.n).n, (s.fwdEv m.n).r, none, true, false, .fwd⟩ : MSt) g
        rfl rfl hlt' (by simp only; omega)
      refine ⟨r, ?_⟩
      have : fwdObs s N (fF + 1) m.n =
          ⟨(s.fwdEv m.n).act, (s.fwdEv m.n).n, (s.fwdEv m.n).r, none, false, true⟩ ::
            fwdObs s N fF (s.fwdEv m.n).n := by
        rw [fwdObs, if_neg hle]
      rw [this]
      simp only [List.length_cons, List.map_cons, List.cons_append]
      rw [show (fwdObs s N fF (s.fwdEv m.n).n).length + 1 + g =
        ((fwdObs s N fF (s.fwdEv m.n).n).length + g) + 1 by omega]
      rw [canonLoop_fwd_more s H N k _ m hN hp hlt', ih']

/-! ## After finalisation: schedules with unboundedly many adjoint calculations -/

theorem afterFin_none (s : Sched) (hs : s.passes = none) (e : Ev) (d : Nat) :
    s.afterFin e d = false := by
  unfold Sched.afterFin; rw [hs]

theorem after_none_more (s : Sched) (hs : s.passes = none) (N : Nat) (e e' : Ev) (rest : List Ev)
    (d : Nat) : s.after N e (e' :: rest) d = (.run (e' :: rest) (afterDone e d), false) := by
  rw [after_eq, afterFin_none s hs]; rfl

theorem after_none_last (s : Sched) (hs : s.passes = none) (N : Nat) (e : Ev) (d : Nat) :
    s.after N e [] d = (.run (s.again N) (afterDone e d), false) := by
  rw [after_eq, afterFin_none s hs]; rfl

/-- step of the canonical loop on an `EndReverse` that does not exhaust the schedule -/
theorem canonLoop_act_er (s : Sched) (Nfin k f : Nat) (m : MSt) (seen : Nat) (usedEF : Bool)
    (nE rE N : Nat) (ph : Phase)
    (hnext : s.next m = ((⟨nE, rE, some N, true, false, ph⟩ : MSt),
      .act ⟨.endReverse, nE, rE, some N, false, true⟩)) :
    s.canonLoop Nfin k (f + 1) m seen usedEF =
      Line.act ⟨.endReverse, nE, rE, some N, false, true⟩ ::
      (if seen + 1 ≥ k then [s.usesLine]
       else s.canonLoop Nfin k f (⟨nE, rE, some N, true, false, ph⟩ : MSt) (seen + 1) usedEF) := by
  rw [Sched.canonLoop]
  simp only [hnext]
  by_cases hk : seen + 1 ≥ k
  · simp [hk]
  · simp [hk]

/-- one adjoint calculation of a schedule with `passes = none`, inside the canonical loop -/
theorem pass_loop (s : Sched) (hs : s.passes = none) (N k : Nat) (er : Ev)
    (her : er.act = .endReverse) :
    ∀ (pre : List Ev) (g : Nat) (m : MSt) (seen d : Nat),
      (∀ e ∈ pre, e.act ≠ .endReverse) → m.maxN = some N → m.phase = .run (pre ++ [er]) d →
      ∃ d', s.canonLoop N k ((pre ++ [er]).length + g) m seen true =
        (pre ++ [er]).map (fun e => Line.act (Ev.obs e N)) ++
          (if seen + 1 ≥ k then [s.usesLine]
           else s.canonLoop N k g (⟨er.n, er.r, some N, true, false, .run (s.again N) d'⟩ : MSt)
             (seen + 1) true) := by
  intro pre
  induction pre with
  | nil =>
    intro g m seen d _ hN hp
    refine ⟨afterDone er d, ?_⟩
    have hnext := next_run_cons s m er [] d hp
    rw [hN, after_none_last s hs] at hnext
    simp only [Option.getD_some] at hnext
    obtain ⟨act, n, r⟩ := er
    simp only at her
    subst her
    simp only [List.nil_append, List.length_singleton, List.map_cons, List.map_nil,
      List.cons_append, Ev.obs]
    rw [show 1 + g = g + 1 by omega]
    exact canonLoop_act_er s N k g m seen true n r N _ hnext
  | cons e pre ih =>
    intro g m seen d hne hN hp
    have he : e.act ≠ .endReverse := hne e (by simp)
    obtain ⟨e', rest', hl⟩ : ∃ e' rest', pre ++ [er] = e' :: rest' := by
      cases pre with
      | nil => exact ⟨_, _, rfl⟩
      | cons a t => exact ⟨_, _, rfl⟩
    have hp' : m.phase = .run (e :: (e' :: rest')) d := by rw [hp, ← hl]; rfl
    have hnext := next_run_cons s m e (e' :: rest') d hp'
    rw [hN, after_none_more s hs] at hnext
    obtain ⟨d', ih'⟩ := ih g (⟨e.n, e.r, some N, true, false, .run (e' :: rest') (afterDone e d)⟩ : MSt)
      seen (afterDone e d) (fun x hx => hne x (by simp [hx])) rfl (by rw [hl])
    refine ⟨d', ?_⟩
    rw [show ((e :: pre) ++ [er]).length + g = ((pre ++ [er]).length + g) + 1 by
      simp only [List.cons_append, List.length_cons]; omega]
    rw [canonLoop_act_more s N k _ m seen true e N _ he hnext]
    simp only [Bool.not_true, Bool.and_false, Bool.false_eq_true, if_false, List.append_nil,
      Bool.or_false]
    rw [ih']
    simp [Ev.obs]

/-- the events of the `j` further adjoint calculations -/
def agains (s : Sched) (N : Nat) (j : Nat) : List Ev := (List.replicate j (s.again N)).flatten

theorem agains_succ (s : Sched) (N j : Nat) : agains s N (j + 1) = s.again N ++ agains s N j := by
  simp [agains, List.replicate_succ]

/-- all remaining adjoint calculations: the loop stops at the `k`-th `EndReverse` -/
theorem passes_loop (s : Sched) (hs : s.passes = none) (N k : Nat) (apre : List Ev) (aer : Ev)
    (hagain : s.again N = apre ++ [aer]) (haer : aer.act = .endReverse)
    (hapre : ∀ e ∈ apre, e.act ≠ .endReverse) :
    ∀ (j : Nat) (pre : List Ev) (er : Ev) (g : Nat) (m : MSt) (seen d : Nat),
      er.act = .endReverse → (∀ e ∈ pre, e.act ≠ .endReverse) → m.maxN = some N →
      m.phase = .run (pre ++ [er]) d → seen + 1 + j = k →
      s.canonLoop N k ((pre ++ [er] ++ agains s N j).length + g) m seen true =
        (pre ++ [er] ++ agains s N j).map (fun e => Line.act (Ev.obs e N)) ++ [s.usesLine] := by
  intro j
  induction j with
  | zero =>
    intro pre er g m seen d her hpre hN hp hk
    obtain ⟨d', h⟩ := pass_loop s hs N k er her pre g m seen d hpre hN hp
    have : agains s N 0 = [] := rfl
    rw [this, List.append_nil, h, if_pos (by omega)]
  | succ j ih =>
    intro pre er g m seen d her hpre hN hp hk
    obtain ⟨d', h⟩ := pass_loop s hs N k er her pre ((s.again N ++ agains s N j).length + g) m
      seen d hpre hN hp
    rw [agains_succ]
    rw [show (pre ++ [er] ++ (s.again N ++ agains s N j)).length + g =
      (pre ++ [er]).length + ((s.again N ++ agains s N j).length + g) by
        simp only [List.length_append]; omega]
    rw [h, if_neg (by omega)]
    have := ih apre aer g (⟨er.n, er.r, some N, true, false, .run (s.again N) d'⟩ : MSt)
      (seen + 1) d' haer hapre rfl (by rw [hagain]) (by omega)
    rw [← hagain] at this
    rw [this]
    simp [List.map_append]

/-- the `EndForward` step right after finalisation (schedule not exhausted by it) -/
theorem canonLoop_ef (s : Sched) (hs : s.passes = none) (N k g : Nat) (m : MSt)
    (efs e' : Ev) (rest : List Ev) (hfirst : s.first N = .ok (efs :: e' :: rest))
    (hefs : efs.act = .endForward) (hN : m.maxN = some N) (hp : m.phase = .fwd) :
    s.canonLoop N k (g + 1) m 0 false =
      [Line.act (Ev.obs efs N), s.usesLine] ++
        s.canonLoop N k g (⟨efs.n, efs.r, some N, true, false, .run (e' :: rest) 0⟩ : MSt) 0 true := by
  have hne : efs.act ≠ .endReverse := by rw [hefs]; simp
  have hnext := next_fwd_cons s m N efs (e' :: rest) hp hN hfirst
  rw [after_none_more s hs, hN] at hnext
  have hd : afterDone efs 0 = 0 := by simp [afterDone, hne]
  rw [hd] at hnext
  rw [canonLoop_act_more s N k g m 0 false efs N _ hne hnext]
  simp [hefs, Ev.obs]

/-- **Canonical trace of an online schedule with unboundedly many adjoint calculations**
(SingleMemory, SingleDisk with copies, TwoLevel), for `k ≥ 1` requested calculations. -/
theorem canon_online_unbounded (s : Sched) (H : FwdHyp s) (hs : s.passes = none) (N k : Nat)
    (h1N : 1 ≤ N) (hk : 1 ≤ k) (efs : Ev) (ppre : List Ev) (per : Ev) (apre : List Ev) (aer : Ev)
    (hfirst : s.first N = .ok (efs :: (ppre ++ [per]))) (hefs : efs.act = .endForward)
    (hper : per.act = .endReverse) (hppre : ∀ e ∈ ppre, e.act ≠ .endReverse)
    (hagain : s.again N = apre ++ [aer]) (haer : aer.act = .endReverse)
    (hapre : ∀ e ∈ apre, e.act ≠ .endReverse) (fuel : Nat)
    (hfuel : (fwdObs s N N 0).length + 1 + (ppre ++ [per] ++ agains s N (k - 1)).length ≤ fuel) :
    s.canon N k fuel =
      [Line.init 0 0 none false false, s.usesLine] ++
        ((fwdObs s N N 0).map Line.act ++ [Line.act (Ev.obs efs N), s.usesLine] ++
          (ppre ++ [per] ++ agains s N (k - 1)).map (fun e => Line.act (Ev.obs e N))) ++ [] ++
        [s.usesLine] := by
  obtain ⟨g, rfl⟩ : ∃ g, fuel = (fwdObs s N N 0).length +
      (((ppre ++ [per] ++ agains s N (k - 1)).length + g) + 1) := ⟨fuel -
        ((fwdObs s N N 0).length + 1 + (ppre ++ [per] ++ agains s N (k - 1)).length), by omega⟩
  obtain ⟨e', rest', hl⟩ : ∃ e' rest', ppre ++ [per] = e' :: rest' := by
    cases ppre with
    | nil => exact ⟨_, _, rfl⟩
    | cons a t => exact ⟨_, _, rfl⟩
  unfold Sched.canon
  simp only [MSt.line, Sched.init, H.online]
  obtain ⟨r, hf⟩ := canonLoop_fwd s H N k h1N N (⟨0, 0, none, false, false, .fwd⟩ : MSt)
    (((ppre ++ [per] ++ agains s N (k - 1)).length + g) + 1) rfl rfl (by simp only; omega)
    (by simp only; omega)
  rw [hf, canonLoop_ef s hs N k _ _ efs e' rest' (by rw [hfirst, hl]) hefs rfl rfl, ← hl,
    passes_loop s hs N k apre aer hagain haer hapre (k - 1) ppre per g _ 0 0 hper hppre rfl rfl
      (by omega)]
  simp

theorem actsOf_map_obs (N : Nat) (evs : List Ev) :
    actsOf (evs.map (fun e => Line.act (Ev.obs e N))) = evs.map (Ev.obs · N) := by
  rw [show (fun e => Line.act (Ev.obs e N)) = Line.act ∘ (Ev.obs · N) from rfl, ← List.map_map,
    actsOf_map_act]

theorem ActUses.map_obs (u : Line) (N : Nat) (evs : List Ev) :
    ActUses u (evs.map (fun e => Line.act (Ev.obs e N))) := by
  intro l hl
  obtain ⟨e, _, rfl⟩ := List.mem_map.mp hl
  exact .inr ⟨_, rfl⟩

theorem ActUses.act_uses (u : Line) (o : Obs) : ActUses u [Line.act o, u] := by
  intro l hl
  simp only [List.mem_cons, List.not_mem_nil, or_false] at hl
  rcases hl with rfl | rfl
  · exact .inr ⟨_, rfl⟩
  · exact .inl rfl

theorem endViols_none (cfg : Cfg) (k : Nat) (xf : XS) (hp : cfg.passes = none)
    (h1 : xf.ended = true) (h2 : xf.done = k) (h3 : xf.r = 0) : endViols cfg k xf = [] := by
  unfold endViols; rw [hp]; simp [chk, h1, h2, h3]

/-- the observation list of an online schedule with unboundedly many adjoint calculations -/
def onlineObs (s : Sched) (N k : Nat) (first : List Ev) : List Obs :=
  fwdObs s N N 0 ++ (first ++ agains s N (k - 1)).map (Ev.obs · N)

/-- **Monitor theorem, online, `passes = none`.**  If the observation list
`onlineObs s N k (first N)` is accepted by the executor and ends in a state with
`ended`, `done = k`, `r = 0`, the canonical trace passes the whole monitor. -/
theorem monitor_online_unbounded (cfg : Cfg) (s : Sched) (H : FwdHyp s) (hs : s.passes = none)
    (N k : Nat) (h1N : 1 ≤ N) (hk : 1 ≤ k) (efs : Ev) (ppre : List Ev) (per : Ev)
    (apre : List Ev) (aer : Ev)
    (hfirst : s.first N = .ok (efs :: (ppre ++ [per]))) (hefs : efs.act = .endForward)
    (hper : per.act = .endReverse) (hppre : ∀ e ∈ ppre, e.act ≠ .endReverse)
    (hagain : s.again N = apre ++ [aer]) (haer : aer.act = .endReverse)
    (hapre : ∀ e ∈ apre, e.act ≠ .endReverse) (fuel : Nat)
    (hfuel : (onlineObs s N k (efs :: (ppre ++ [per]))).length ≤ fuel)
    (hon : cfg.online = true) (hpass : cfg.passes = none) (xf : XS)
    (hclean : Clean cfg (XS.init cfg) (onlineObs s N k (efs :: (ppre ++ [per]))) xf)
    (hended : xf.ended = true) (hdone : xf.done = k) (hr : xf.r = 0)
    (huses : ∀ st, (s.uses st).isSome = true)
    (hram : (∃ o ∈ onlineObs s N k (efs :: (ppre ++ [per])), touches .ram o.act = true) →
      s.uses .ram = some true)
    (hdisk : (∃ o ∈ onlineObs s N k (efs :: (ppre ++ [per])), touches .disk o.act = true) →
      s.uses .disk = some true) :
    monitor cfg k (s.canon N k fuel) = [] := by
  have hlen : (fwdObs s N N 0).length + 1 + (ppre ++ [per] ++ agains s N (k - 1)).length ≤ fuel := by
    simp only [onlineObs, List.length_append, List.length_map, List.length_cons] at hfuel ⊢
    omega
  rw [canon_online_unbounded s H hs N k h1N hk efs ppre per apre aer hfirst hefs hper hppre
    hagain haer hapre fuel hlen]
  have hacts : actsOf ((fwdObs s N N 0).map Line.act ++ [Line.act (Ev.obs efs N), s.usesLine] ++
      (ppre ++ [per] ++ agains s N (k - 1)).map (fun e => Line.act (Ev.obs e N))) =
      onlineObs s N k (efs :: (ppre ++ [per])) := by
    rw [actsOf_append, actsOf_append, actsOf_map_act, actsOf_map_obs]
    simp [onlineObs, actsOf, Sched.usesLine]
  have hinit : (none : Option Nat) = if cfg.online then none else some cfg.N := by rw [hon]; rfl
  rw [hinit]
  apply monitor_shape cfg k (s.uses .ram) (s.uses .disk) (s.uses .work) (s.uses .none) _ [] xf
  · exact ((ActUses.map_act _ _).append (ActUses.act_uses _ _)).append (ActUses.map_obs _ _ _)
  · rw [hacts]; exact hclean
  · exact .inl rfl
  · exact endViols_none cfg k xf hpass hended hdone hr
  · exact ⟨huses _, huses _, huses _, huses _⟩
  · rw [hacts]; exact hram
  · rw [hacts]; exact hdisk

/-! ## After finalisation: a single adjoint calculation (`passes = some 1`, SingleDisk with moves) -/

theorem actsOf_actLines (a b c d : Option Bool) (N : Nat) : ∀ (evs : List Ev) (usedEF : Bool),
    actsOf (actLines (.uses a b c d) N evs usedEF) = obsRec N evs := by
  intro evs
  induction evs with
  | nil => intro _; rfl
  | cons e rest ih =>
    intro usedEF
    rw [actLines_cons, actsOf_append, actsOf_append, ih, obsRec]
    have : actsOf (if (decide (e.act = .endForward) && !usedEF) = true
        then [Line.uses a b c d] else []) = [] := by
      split <;> rfl
    rw [this]
    rfl

theorem ActUses.actLines (u : Line) (N : Nat) (evs : List Ev) (usedEF : Bool) :
    ActUses u (actLines u N evs usedEF) := by
  intro l hl
  rcases mem_actLines u N l evs usedEF hl with h | ⟨e, _, exh, h⟩
  · exact .inl h
  · exact .inr ⟨_, h⟩

/-- **Canonical trace of an online schedule permitting one adjoint calculation.** -/
theorem canon_online_single (s : Sched) (H : FwdHyp s) (hs : s.passes = some 1) (N k : Nat)
    (h1N : 1 ≤ N) (efs : Ev) (ppre : List Ev) (nE rE : Nat)
    (hfirst : s.first N = .ok (efs :: (ppre ++ [⟨.endReverse, nE, rE⟩])))
    (hefs : efs.act = .endForward) (hppre : ∀ e ∈ ppre, e.act ≠ .endReverse) (fuel : Nat)
    (hfuel : (fwdObs s N N 0).length + ppre.length + 3 ≤ fuel) :
    s.canon N k fuel =
      [Line.init 0 0 none false false, s.usesLine] ++
        ((fwdObs s N N 0).map Line.act ++
          actLines s.usesLine N (efs :: (ppre ++ [⟨.endReverse, nE, rE⟩])) false) ++
        [Line.stop nE rE (some N) true true, Line.stop nE rE (some N) true true,
         Line.stop nE rE (some N) true true] ++ [s.usesLine] := by
  obtain ⟨g, rfl⟩ : ∃ g, fuel = (fwdObs s N N 0).length + g := ⟨fuel - (fwdObs s N N 0).length, by omega⟩
  unfold Sched.canon
  simp only [MSt.line, Sched.init, H.online]
  obtain ⟨r, hf⟩ := canonLoop_fwd s H N k h1N N (⟨0, 0, none, false, false, .fwd⟩ : MSt) g rfl rfl
    (by simp only; omega) (by simp only; omega)
  rw [hf]
  have := canonLoop_offline s hs N N k nE rE (efs :: ppre) g
    (⟨N, r, some N, true, false, .fwd⟩ : MSt) 0 false
    (by
      intro e he
      rcases List.mem_cons.mp he with rfl | he
      · rw [hefs]; simp
      · exact hppre e he)
    (by simp only [List.length_cons]; omega) rfl (.inl ⟨rfl, hfirst⟩)
  rw [this]
  simp

/-- **Monitor theorem, online, `passes = some 1`.** -/
theorem monitor_online_single (cfg : Cfg) (s : Sched) (H : FwdHyp s) (hs : s.passes = some 1)
    (N k : Nat) (h1N : 1 ≤ N) (efs : Ev) (ppre : List Ev) (nE rE : Nat)
    (hfirst : s.first N = .ok (efs :: (ppre ++ [⟨.endReverse, nE, rE⟩])))
    (hefs : efs.act = .endForward) (hppre : ∀ e ∈ ppre, e.act ≠ .endReverse) (fuel : Nat)
    (hfuel : (fwdObs s N N 0).length + ppre.length + 3 ≤ fuel)
    (hon : cfg.online = true) (hpass : cfg.passes = some 1) (xf : XS)
    (hclean : Clean cfg (XS.init cfg)
      (fwdObs s N N 0 ++ obsOffline N (efs :: (ppre ++ [⟨.endReverse, nE, rE⟩]))) xf)
    (hdone : 1 ≤ xf.done)
    (huses : ∀ st, (s.uses st).isSome = true)
    (hram : (∃ o ∈ fwdObs s N N 0 ++ obsOffline N (efs :: (ppre ++ [⟨.endReverse, nE, rE⟩])),
      touches .ram o.act = true) → s.uses .ram = some true)
    (hdisk : (∃ o ∈ fwdObs s N N 0 ++ obsOffline N (efs :: (ppre ++ [⟨.endReverse, nE, rE⟩])),
      touches .disk o.act = true) → s.uses .disk = some true) :
    monitor cfg k (s.canon N k fuel) = [] := by
  rw [canon_online_single s H hs N k h1N efs ppre nE rE hfirst hefs hppre fuel hfuel]
  have hacts : actsOf ((fwdObs s N N 0).map Line.act ++
      actLines s.usesLine N (efs :: (ppre ++ [⟨.endReverse, nE, rE⟩])) false) =
      fwdObs s N N 0 ++ obsOffline N (efs :: (ppre ++ [⟨.endReverse, nE, rE⟩])) := by
    rw [actsOf_append, actsOf_map_act, obsOffline_eq_rec]
    exact congrArg _ (actsOf_actLines _ _ _ _ N _ false)
  have hfin : finished cfg xf = true := finished_of_done cfg hpass xf hdone
  have hinit : (none : Option Nat) = if cfg.online then none else some cfg.N := by rw [hon]; rfl
  rw [hinit]
  apply monitor_shape cfg k (s.uses .ram) (s.uses .disk) (s.uses .work) (s.uses .none) _ _ xf
  · exact (ActUses.map_act _ _).append (ActUses.actLines _ _ _ _)
  · rw [hacts]; exact hclean
  · exact .inr ⟨hfin, _, _, _, rfl⟩
  · unfold endViols; rw [hpass]; simp [chk, hfin]
  · exact ⟨huses _, huses _, huses _, huses _⟩
  · rw [hacts]; exact hram
  · rw [hacts]; exact hdisk

/-! ## After finalisation: no adjoint calculation (`passes = some 0`, NoneCheckpointSchedule) -/

/-- **Canonical trace of an online schedule permitting no adjoint calculation.** -/
theorem canon_online_zero (s : Sched) (H : FwdHyp s) (hs : s.passes = some 0) (N k : Nat)
    (h1N : 1 ≤ N) (efs : Ev) (rest : List Ev) (hfirst : s.first N = .ok (efs :: rest))
    (hefs : efs.act = .endForward) (fuel : Nat) (hfuel : (fwdObs s N N 0).length + 2 ≤ fuel) :
    s.canon N k fuel =
      [Line.init 0 0 none false false, s.usesLine] ++
        ((fwdObs s N N 0).map Line.act ++
          [Line.act ⟨.endForward, efs.n, efs.r, some N, true, true⟩, s.usesLine]) ++
        [Line.stop efs.n efs.r (some N) true true, Line.stop efs.n efs.r (some N) true true,
         Line.stop efs.n efs.r (some N) true true] ++ [s.usesLine] := by
  obtain ⟨g, rfl⟩ : ∃ g, fuel = (fwdObs s N N 0).length + ((g + 1) + 1) :=
    ⟨fuel - (fwdObs s N N 0).length - 2, by omega⟩
  unfold Sched.canon
  simp only [MSt.line, Sched.init, H.online]
  obtain ⟨r, hf⟩ := canonLoop_fwd s H N k h1N N (⟨0, 0, none, false, false, .fwd⟩ : MSt)
    ((g + 1) + 1) rfl rfl (by simp only; omega) (by simp only; omega)
  rw [hf]
  have hnext := next_fwd_cons s (⟨N, r, some N, true, false, .fwd⟩ : MSt) N efs rest rfl rfl hfirst
  have hafter : s.after N efs rest 0 = (.stopped, true) := by
    rw [after_eq]
    have : s.afterFin efs 0 = true := by simp [Sched.afterFin, hs, hefs]
    rw [this]; rfl
  rw [hafter] at hnext
  have hstep : s.canonLoop N k ((g + 1) + 1) (⟨N, r, some N, true, false, .fwd⟩ : MSt) 0 false =
      [Line.act ⟨.endForward, efs.n, efs.r, some N, true, true⟩, s.usesLine] ++
        s.canonLoop N k (g + 1) (⟨efs.n, efs.r, some N, true, true, .stopped⟩ : MSt) 0 true := by
    rw [Sched.canonLoop]
    simp only [hnext]
    simp [hefs]
  rw [hstep, canonLoop_stopped s N k g _ _ _ rfl rfl]
  simp [MSt.line]

/-- **Monitor theorem, online, `passes = some 0`.** -/
theorem monitor_online_zero (cfg : Cfg) (s : Sched) (H : FwdHyp s) (hs : s.passes = some 0)
    (N k : Nat) (h1N : 1 ≤ N) (efs : Ev) (rest : List Ev) (hfirst : s.first N = .ok (efs :: rest))
    (hefs : efs.act = .endForward) (fuel : Nat) (hfuel : (fwdObs s N N 0).length + 2 ≤ fuel)
    (hon : cfg.online = true) (hpass : cfg.passes = some 0) (xf : XS)
    (hclean : Clean cfg (XS.init cfg)
      (fwdObs s N N 0 ++ [⟨.endForward, efs.n, efs.r, some N, true, true⟩]) xf)
    (hended : xf.ended = true)
    (huses : ∀ st, (s.uses st).isSome = true)
    (hram : (∃ o ∈ fwdObs s N N 0, touches .ram o.act = true) → s.uses .ram = some true)
    (hdisk : (∃ o ∈ fwdObs s N N 0, touches .disk o.act = true) → s.uses .disk = some true) :
    monitor cfg k (s.canon N k fuel) = [] := by
  rw [canon_online_zero s H hs N k h1N efs rest hfirst hefs fuel hfuel]
  have hacts : actsOf ((fwdObs s N N 0).map Line.act ++
      [Line.act ⟨.endForward, efs.n, efs.r, some N, true, true⟩, s.usesLine]) =
      fwdObs s N N 0 ++ [⟨.endForward, efs.n, efs.r, some N, true, true⟩] := by
    rw [actsOf_append, actsOf_map_act]; rfl
  have hfin : finished cfg xf = true := by unfold finished; rw [hpass]; exact hended
  have hinit : (none : Option Nat) = if cfg.online then none else some cfg.N := by rw [hon]; rfl
  have hmem : ∀ st, (∃ o ∈ fwdObs s N N 0 ++ [(⟨.endForward, efs.n, efs.r, some N, true, true⟩ : Obs)],
      touches st o.act = true) → ∃ o ∈ fwdObs s N N 0, touches st o.act = true := by
    rintro st ⟨o, ho, ht⟩
    rcases List.mem_append.mp ho with h | h
    · exact ⟨o, h, ht⟩
    · rw [List.mem_singleton.mp h] at ht; cases ht
  rw [hinit]
  apply monitor_shape cfg k (s.uses .ram) (s.uses .disk) (s.uses .work) (s.uses .none) _ _ xf
  · exact (ActUses.map_act _ _).append (ActUses.act_uses _ _)
  · rw [hacts]; exact hclean
  · exact .inr ⟨hfin, _, _, _, rfl⟩
  · unfold endViols; rw [hpass]; simp [chk, hfin]
  · exact ⟨huses _, huses _, huses _, huses _⟩
  · rw [hacts]; exact fun h => hram (hmem _ h)
  · rw [hacts]; exact fun h => hdisk (hmem _ h)

/-! ## Closed form of the forward phase for constant-step forward loops -/

/-- If every `fwdEv` advances by `p ≥ 1` (SingleMemory: `maxsize`, SingleDisk: `1`, TwoLevel: the
period), the forward phase from `n` consists of `q` unfinalised lines and the finalising one,
where `n + q·p < N ≤ n + (q+1)·p`. -/
theorem fwdObs_const (s : Sched) (N p : Nat) (hstep : ∀ n, (s.fwdEv n).n = n + p) :
    ∀ (q n f : Nat), n + q * p < N → N ≤ n + (q + 1) * p → q + 1 ≤ f →
      fwdObs s N f n =
        (List.range q).map (fun i => (⟨(s.fwdEv (n + i * p)).act, n + (i + 1) * p,
            (s.fwdEv (n + i * p)).r, none, false, true⟩ : Obs)) ++
          [⟨(s.fwdEv (n + q * p)).act, N, (s.fwdEv (n + q * p)).r, some N, false, true⟩] := by
  intro q
  induction q with
  | zero =>
    intro n f h1 h2 hf
    obtain ⟨f, rfl⟩ : ∃ f', f = f' + 1 := ⟨f - 1, by omega⟩
    rw [fwdObs, if_pos (by rw [hstep]; omega)]
    simp
  | succ q ih =>
    intro n f h1 h2 hf
    obtain ⟨f, rfl⟩ : ∃ f', f = f' + 1 := ⟨f - 1, by omega⟩
    have e1 : (q + 1) * p = q * p + p := Nat.succ_mul q p
    have e2 : (q + 1 + 1) * p = q * p + p + p := by rw [Nat.succ_mul, e1]
    rw [fwdObs, if_neg (by rw [hstep]; omega), hstep]
    rw [ih (n + p) f (by omega) (by omega) (by omega)]
    rw [List.range_succ_eq_map, List.map_cons, List.map_map, List.cons_append]
    have e3 : n + p + q * p = n + (q + 1) * p := by omega
    rw [e3]
    congr 1
    · simp
    · congr 1
      apply List.map_congr_left
      intro i _
      have e4 : (i + 1) * p = i * p + p := Nat.succ_mul i p
      have e5 : (i + 1 + 1) * p = i * p + p + p := by rw [Nat.succ_mul, e4]
      simp only [Function.comp, Nat.succ_eq_add_one]
      rw [show n + p + i * p = n + (i + 1) * p by omega,
        show n + p + (i + 1) * p = n + (i + 1 + 1) * p by omega]

/-! ## The five online classes -/

theorem maxsize_pos : 0 < maxsize := by decide

theorem fwdHyp_singleMemory : FwdHyp singleMemorySched :=
  ⟨rfl, fun n => Nat.lt_add_of_pos_right maxsize_pos, fun _ => by simp [singleMemorySched],
    fun _ => by simp [singleMemorySched]⟩

theorem fwdHyp_singleDisk (mv : Bool) : FwdHyp (singleDiskSched mv) :=
  ⟨rfl, fun n => Nat.lt_succ_self n, fun _ => by simp [singleDiskSched],
    fun _ => by simp [singleDiskSched]⟩

theorem fwdHyp_none : FwdHyp noneSched :=
  ⟨rfl, fun n => Nat.lt_add_of_pos_right maxsize_pos, fun _ => by simp [noneSched],
    fun _ => by simp [noneSched]⟩

theorem twoLevel_ok (p b : Nat) (st : Storage) (traj : Traj) (s : Sched)
    (h : twoLevelSched p b st traj = .ok s) :
    1 ≤ p ∧ (st = .ram ∨ st = .disk) ∧
    s = { maxN0 := none
          fwdEv := fun n => ⟨.forward n (n + p) true false .disk, n + p, 0⟩
          first := fun N =>
            match twoLevelBlocks N p b st traj ((N + p - 1) / p) with
            | some _ => .ok (⟨.endForward, N, 0⟩ :: twoLevelPass N p b st traj)
            | none => .error (.later "Invalid checkpointing state")
          again := fun N => twoLevelPass N p b st traj
          passes := none
          uses := fun s => some (s = .disk || s = st) } := by
  unfold twoLevelSched at h
  split at h
  · cases h
  · split at h
    · cases h
    · rename_i h1 h2
      simp only [Except.ok.injEq] at h
      exact ⟨by omega, not_not.mp h2, h.symm⟩

theorem fwdHyp_twoLevel (p b : Nat) (st : Storage) (traj : Traj) (s : Sched)
    (h : twoLevelSched p b st traj = .ok s) : FwdHyp s := by
  obtain ⟨hp, _, rfl⟩ := twoLevel_ok p b st traj s h
  exact ⟨rfl, fun n => by simp only; omega, fun _ => by simp, fun _ => by simp⟩

/-- closed form of SingleMemory's forward phase when `N ≤ sys.maxsize`: a single Forward -/
theorem fwdObs_singleMemory (N : Nat) (h1 : 1 ≤ N) (h2 : N ≤ maxsize) :
    fwdObs singleMemorySched N N 0 =
      [⟨.forward 0 maxsize false true .work, N, 0, some N, false, true⟩] := by
  have := fwdObs_const singleMemorySched N maxsize (fun _ => rfl) 0 0 N (by omega) (by omega) h1
  rw [this]
  simp [singleMemorySched]

/-- closed form of SingleDisk's forward phase: one Forward per step -/
theorem fwdObs_singleDisk (mv : Bool) (N : Nat) (h1 : 1 ≤ N) :
    fwdObs (singleDiskSched mv) N N 0 =
      (List.range (N - 1)).map (fun i =>
        (⟨.forward i (i + 1) false true .disk, i + 1, 0, none, false, true⟩ : Obs)) ++
      [⟨.forward (N - 1) N false true .disk, N, 0, some N, false, true⟩] := by
  have := fwdObs_const (singleDiskSched mv) N 1 (fun _ => rfl) (N - 1) 0 N (by omega) (by omega)
    (by omega)
  rw [this]
  have e : N - 1 + 1 = N := by omega
  simp [singleDiskSched, e]

/-- the reverse loop of SingleDisk ends in its only `EndReverse` -/
def singleDiskBody (move : Bool) (N : Nat) : Nat → List Ev
  | 0 => []
  | k+1 =>
    ⟨if move then .move k .disk .work else .copy k .disk .work, k, N - (k+1)⟩ ::
    ⟨.reverse (k+1) k true, k, N - k⟩ :: singleDiskBody move N k

theorem singleDiskPass_eq (move : Bool) (N : Nat) : ∀ j,
    singleDiskPass move N j = singleDiskBody move N j ++ [⟨.endReverse, 0, if move then N else 0⟩]
  | 0 => rfl
  | j+1 => by rw [singleDiskPass, singleDiskBody, singleDiskPass_eq move N j]; rfl

theorem singleDiskBody_noER (move : Bool) (N : Nat) : ∀ j, ∀ e ∈ singleDiskBody move N j,
    e.act ≠ .endReverse ∧ ∀ x, touches x e.act = true → x = .disk ∨ x = .work
  | 0 => by intro e he; cases he
  | j+1 => by
    intro e he
    rw [singleDiskBody] at he
    simp only [List.mem_cons] at he
    rcases he with rfl | rfl | he
    · cases move <;> simp [touches] <;> intro x hx <;> rcases hx with h | h <;> simp [← h]
    · simp [touches]
    · exact singleDiskBody_noER move N j e he

theorem twoLevelBlocks_noER (N p b : Nat) (st : Storage) (traj : Traj) : ∀ (blk : Nat)
    (evs : List Ev), twoLevelBlocks N p b st traj blk = some evs →
      ∀ e ∈ evs, e.act ≠ .endReverse ∧ ∀ x, touches x e.act = true → x = .work ∨ x = .disk ∨ x = st := by
  intro blk
  induction blk with
  | zero => intro evs h e he; simp only [twoLevelBlocks, Option.some.injEq] at h; subst h; cases he
  | succ blk ih =>
    intro evs h
    rw [twoLevelBlocks] at h
    split at h
    · cases h
    · rename_i seg hs
      split at h
      · cases h
      · rename_i rest hr
        simp only [Option.some.injEq] at h
        subst h
        intro e he
        rcases List.mem_append.mp he with he | he
        · refine ⟨segWith_no_endReverse hs e he, ?_⟩
          intro x hx
          rcases segWith_touches' hs e he x hx with h' | ⟨d', _, h'⟩
          · exact .inl h'
          · right
            by_cases hd : d' = 0
            · left; rw [← h']; simp [hd]
            · right; rw [← h']; simp [hd]
        · exact ih _ hr e he

/-! ### which storages an online trace names -/

/-- some event the schedule can produce names storage `st` -/
def Names (s : Sched) (N : Nat) (first : List Ev) (st : Storage) : Prop :=
  (∃ n, touches st (s.fwdEv n).act = true) ∨ (∃ e ∈ first, touches st e.act = true) ∨
    (∃ e ∈ s.again N, touches st e.act = true)

theorem mem_fwdObs (s : Sched) (N : Nat) (o : Obs) : ∀ (f n : Nat), o ∈ fwdObs s N f n →
    ∃ n', o.act = (s.fwdEv n').act
  | 0, _, h => by cases h
  | f+1, n, h => by
    rw [fwdObs] at h
    split at h
    · rw [List.mem_singleton.mp h]; exact ⟨n, rfl⟩
    · rcases List.mem_cons.mp h with rfl | h
      · exact ⟨n, rfl⟩
      · exact mem_fwdObs s N o f _ h

theorem mem_agains (s : Sched) (N : Nat) (e : Ev) : ∀ j, e ∈ agains s N j → e ∈ s.again N
  | 0, h => by cases h
  | j+1, h => by
    rw [agains_succ] at h
    rcases List.mem_append.mp h with h | h
    · exact h
    · exact mem_agains s N e j h

theorem names_of_onlineObs (s : Sched) (N k : Nat) (first : List Ev) (st : Storage)
    (h : ∃ o ∈ onlineObs s N k first, touches st o.act = true) : Names s N first st := by
  obtain ⟨o, ho, ht⟩ := h
  unfold onlineObs at ho
  rcases List.mem_append.mp ho with ho | ho
  · obtain ⟨n', hn'⟩ := mem_fwdObs s N o _ _ ho
    exact .inl ⟨n', by rw [← hn']; exact ht⟩
  · obtain ⟨e, he, rfl⟩ := List.mem_map.mp ho
    rcases List.mem_append.mp he with he | he
    · exact .inr (.inl ⟨e, he, ht⟩)
    · exact .inr (.inr ⟨e, mem_agains s N e _ he, ht⟩)

theorem names_of_fwdObs (s : Sched) (N : Nat) (first : List Ev) (st : Storage) (f n : Nat)
    (h : ∃ o ∈ fwdObs s N f n, touches st o.act = true) : Names s N first st := by
  obtain ⟨o, ho, ht⟩ := h
  obtain ⟨n', hn'⟩ := mem_fwdObs s N o _ _ ho
  exact .inl ⟨n', by rw [← hn']; exact ht⟩

/-! ### SingleMemoryStorageSchedule -/

/-- the events of SingleMemory after finalisation -/
def smFirst (N : Nat) : List Ev :=
  [⟨.endForward, N, 0⟩, ⟨.reverse N 0 false, N, N⟩, ⟨.endReverse, N, 0⟩]

/-- **SingleMemory**: executor acceptance of the observation list ⇒ monitor acceptance of the
canonical trace. -/
theorem singleMemory_monitor (N k fuel : Nat) (h1N : 1 ≤ N) (hk : 1 ≤ k) (xf : XS)
    (hfuel : (onlineObs singleMemorySched N k (smFirst N)).length ≤ fuel)
    (hclean : Clean (cfgSingleMemory N) (XS.init (cfgSingleMemory N))
      (onlineObs singleMemorySched N k (smFirst N)) xf)
    (hended : xf.ended = true) (hdone : xf.done = k) (hr : xf.r = 0) :
    monitor (cfgSingleMemory N) k (singleMemorySched.canon N k fuel) = [] := by
  have hno : ∀ st, st = .ram ∨ st = .disk → ¬ Names singleMemorySched N (smFirst N) st := by
    intro st hst
    rcases hst with rfl | rfl <;> simp [Names, singleMemorySched, smFirst, touches]
  exact monitor_online_unbounded (cfgSingleMemory N) singleMemorySched fwdHyp_singleMemory rfl N k
    h1N hk ⟨.endForward, N, 0⟩ [⟨.reverse N 0 false, N, N⟩] ⟨.endReverse, N, 0⟩
    [⟨.reverse N 0 false, N, N⟩] ⟨.endReverse, N, 0⟩ rfl rfl rfl (by simp) rfl rfl (by simp)
    fuel hfuel rfl rfl xf hclean hended hdone hr (fun st => rfl)
    (fun h => absurd (names_of_onlineObs _ _ _ _ _ h) (hno _ (.inl rfl)))
    (fun h => absurd (names_of_onlineObs _ _ _ _ _ h) (hno _ (.inr rfl)))

/-! ### SingleDiskStorageSchedule -/

/-- the events of SingleDisk after finalisation -/
def sdFirst (mv : Bool) (N : Nat) : List Ev :=
  ⟨.endForward, N, 0⟩ :: (singleDiskBody mv N N ++ [⟨.endReverse, 0, if mv then N else 0⟩])

theorem singleDisk_first (mv : Bool) (N : Nat) : (singleDiskSched mv).first N = .ok (sdFirst mv N) := by
  show Except.ok (_ :: singleDiskPass mv N N) = _
  rw [singleDiskPass_eq]; rfl

theorem singleDisk_noRam (mv : Bool) (N : Nat) : ¬ Names (singleDiskSched mv) N (sdFirst mv N) .ram := by
  have hbody : ∀ e ∈ singleDiskBody mv N N, ¬ touches .ram e.act = true := by
    intro e he ht
    rcases (singleDiskBody_noER mv N N e he).2 _ ht with h | h <;> cases h
  rintro (⟨n, h⟩ | ⟨e, he, h⟩ | ⟨e, he, h⟩)
  · simp [singleDiskSched, touches] at h
  · simp only [sdFirst, List.mem_cons, List.mem_append, List.not_mem_nil, or_false] at he
    rcases he with rfl | he | rfl
    · simp [touches] at h
    · exact hbody e he h
    · simp [touches] at h
  · have : (singleDiskSched mv).again N = singleDiskBody mv N N ++
        [⟨.endReverse, 0, if mv then N else 0⟩] := singleDiskPass_eq mv N N
    rw [this] at he
    simp only [List.mem_append, List.mem_cons, List.not_mem_nil, or_false] at he
    rcases he with he | rfl
    · exact hbody e he h
    · simp [touches] at h

/-- **SingleDisk with copies** (`move_data = False`, unboundedly many adjoint calculations). -/
theorem singleDiskCopy_monitor (N k fuel : Nat) (h1N : 1 ≤ N) (hk : 1 ≤ k) (xf : XS)
    (hfuel : (onlineObs (singleDiskSched false) N k (sdFirst false N)).length ≤ fuel)
    (hclean : Clean (cfgSingleDisk false N) (XS.init (cfgSingleDisk false N))
      (onlineObs (singleDiskSched false) N k (sdFirst false N)) xf)
    (hended : xf.ended = true) (hdone : xf.done = k) (hr : xf.r = 0) :
    monitor (cfgSingleDisk false N) k ((singleDiskSched false).canon N k fuel) = [] :=
  monitor_online_unbounded (cfgSingleDisk false N) (singleDiskSched false) (fwdHyp_singleDisk false)
    rfl N k h1N hk ⟨.endForward, N, 0⟩ (singleDiskBody false N N) ⟨.endReverse, 0, 0⟩
    (singleDiskBody false N N) ⟨.endReverse, 0, 0⟩ (singleDisk_first false N) rfl rfl
    (fun e he => (singleDiskBody_noER false N N e he).1) (singleDiskPass_eq false N N) rfl
    (fun e he => (singleDiskBody_noER false N N e he).1)
    fuel hfuel rfl rfl xf hclean hended hdone hr (fun _ => rfl)
    (fun h => absurd (names_of_onlineObs _ _ _ _ _ h) (singleDisk_noRam false N))
    (fun _ => rfl)

/-- **SingleDisk with moves** (`move_data = True`, a single adjoint calculation). -/
theorem singleDiskMove_monitor (N k fuel : Nat) (h1N : 1 ≤ N) (xf : XS)
    (hfuel : (fwdObs (singleDiskSched true) N N 0).length + (singleDiskBody true N N).length + 3
      ≤ fuel)
    (hclean : Clean (cfgSingleDisk true N) (XS.init (cfgSingleDisk true N))
      (fwdObs (singleDiskSched true) N N 0 ++ obsOffline N (sdFirst true N)) xf)
    (hdone : 1 ≤ xf.done) :
    monitor (cfgSingleDisk true N) k ((singleDiskSched true).canon N k fuel) = [] := by
  have hnames : ∀ st, (∃ o ∈ fwdObs (singleDiskSched true) N N 0 ++ obsOffline N (sdFirst true N),
      touches st o.act = true) → Names (singleDiskSched true) N (sdFirst true N) st := by
    rintro st ⟨o, ho, ht⟩
    rcases List.mem_append.mp ho with ho | ho
    · exact names_of_fwdObs _ _ _ _ _ _ ⟨o, ho, ht⟩
    · rw [obsOffline_eq_rec] at ho
      have : o.act ∈ (obsRec N (sdFirst true N)).map (·.act) := List.mem_map.mpr ⟨o, ho, rfl⟩
      rw [obsRec_acts] at this
      obtain ⟨e, he, hea⟩ := List.mem_map.mp this
      exact .inr (.inl ⟨e, he, by rw [hea]; exact ht⟩)
  exact monitor_online_single (cfgSingleDisk true N) (singleDiskSched true) (fwdHyp_singleDisk true)
    rfl N k h1N ⟨.endForward, N, 0⟩ (singleDiskBody true N N) 0 N (singleDisk_first true N) rfl
    (fun e he => (singleDiskBody_noER true N N e he).1) fuel hfuel rfl rfl xf hclean hdone
    (fun st => rfl) (fun h => absurd (hnames _ h) (singleDisk_noRam true N)) (fun _ => rfl)

/-! ### NoneCheckpointSchedule -/

/-- **None**: no adjoint calculation. -/
theorem none_monitor (N k fuel : Nat) (h1N : 1 ≤ N) (xf : XS)
    (hfuel : (fwdObs noneSched N N 0).length + 2 ≤ fuel)
    (hclean : Clean (cfgNone N) (XS.init (cfgNone N))
      (fwdObs noneSched N N 0 ++ [⟨.endForward, N, 0, some N, true, true⟩]) xf)
    (hended : xf.ended = true) :
    monitor (cfgNone N) k (noneSched.canon N k fuel) = [] := by
  have hno : ∀ st, st = .ram ∨ st = .disk →
      ¬ ∃ o ∈ fwdObs noneSched N N 0, touches st o.act = true := by
    rintro st hst ⟨o, ho, ht⟩
    obtain ⟨n', hn'⟩ := mem_fwdObs _ _ _ _ _ ho
    rw [hn'] at ht
    rcases hst with rfl | rfl <;> simp [noneSched, touches] at ht
  exact monitor_online_zero (cfgNone N) noneSched fwdHyp_none rfl N k h1N ⟨.endForward, N, 0⟩ []
    rfl rfl fuel hfuel rfl rfl xf hclean hended (fun st => rfl)
    (fun h => absurd h (hno _ (.inl rfl))) (fun h => absurd h (hno _ (.inr rfl)))

/-! ### TwoLevelCheckpointSchedule -/

/-- **TwoLevel**: whenever the schedule object exists and its generator does not raise for `N`. -/
theorem twoLevel_monitor (p b : Nat) (st : Storage) (traj : Traj) (s : Sched)
    (hsch : twoLevelSched p b st traj = .ok s) (N k fuel : Nat) (h1N : 1 ≤ N) (hk : 1 ≤ k)
    (blocks : List Ev)
    (hblocks : twoLevelBlocks N p b st traj ((N + p - 1) / p) = some blocks) (xf : XS)
    (hfuel : (onlineObs s N k (⟨.endForward, N, 0⟩ :: (blocks ++ [⟨.endReverse, 1, 0⟩]))).length
      ≤ fuel)
    (hclean : Clean (cfgTwoLevel p b st N) (XS.init (cfgTwoLevel p b st N))
      (onlineObs s N k (⟨.endForward, N, 0⟩ :: (blocks ++ [⟨.endReverse, 1, 0⟩]))) xf)
    (hended : xf.ended = true) (hdone : xf.done = k) (hr : xf.r = 0) :
    monitor (cfgTwoLevel p b st N) k (s.canon N k fuel) = [] := by
  have H := fwdHyp_twoLevel p b st traj s hsch
  obtain ⟨hp, hst, rfl⟩ := twoLevel_ok p b st traj s hsch
  have hpass : twoLevelPass N p b st traj = blocks ++ [⟨.endReverse, 1, 0⟩] := by
    unfold twoLevelPass; rw [hblocks]
  have hb := twoLevelBlocks_noER N p b st traj _ blocks hblocks
  refine monitor_online_unbounded (cfgTwoLevel p b st N) _ H rfl N k h1N hk ⟨.endForward, N, 0⟩
    blocks ⟨.endReverse, 1, 0⟩ blocks ⟨.endReverse, 1, 0⟩ ?_ rfl rfl (fun e he => (hb e he).1)
    hpass rfl (fun e he => (hb e he).1) fuel hfuel rfl rfl xf hclean hended hdone hr
    (fun _ => rfl) ?_ (fun _ => by simp)
  · simp only [hblocks, hpass]
  · intro h
    rcases hst with rfl | rfl
    · simp
    · exfalso
      have hbr : ∀ e ∈ blocks, ¬ touches .ram e.act = true := by
        intro e he ht
        rcases (hb e he).2 _ ht with h | h | h <;> cases h
      rcases names_of_onlineObs _ _ _ _ _ h with ⟨n, h⟩ | ⟨e, he, h⟩ | ⟨e, he, h⟩
      · simp [touches] at h
      · simp only [List.mem_cons, List.mem_append, List.not_mem_nil, or_false] at he
        rcases he with rfl | he | rfl
        · simp [touches] at h
        · exact hbr e he h
        · simp [touches] at h
      · simp only [hpass, List.mem_cons, List.mem_append, List.not_mem_nil, or_false] at he
        rcases he with he | rfl
        · exact hbr e he h
        · simp [touches] at h

/-! ### Non-vacuity: concrete traces accepted through the generic theorems -/

/-- SingleMemory, `N = 3`, two adjoint calculations -/
example : monitor (cfgSingleMemory 3) 2 (singleMemorySched.canon 3 2 10) = [] :=
  singleMemory_monitor 3 2 10 (by decide) (by decide) _ (by decide)
    (clean_of_runFrom _ _ _ (by decide)) (by decide) (by decide) (by decide)

/-- SingleDisk with moves, `N = 2` -/
example : monitor (cfgSingleDisk true 2) 1 ((singleDiskSched true).canon 2 1 12) = [] :=
  singleDiskMove_monitor 2 1 12 (by decide) _ (by decide)
    (clean_of_runFrom _ _ _ (by decide)) (by decide)

/-- None, `N = 4` -/
example : monitor (cfgNone 4) 1 (noneSched.canon 4 1 5) = [] :=
  none_monitor 4 1 5 (by decide) _ (by decide) (clean_of_runFrom _ _ _ (by decide)) (by decide)

end Ckpt

section AxiomCheck
open Ckpt
#print axioms monitor_shape
#print axioms canon_online_unbounded
#print axioms monitor_online_unbounded
#print axioms canon_online_single
#print axioms monitor_online_single
#print axioms canon_online_zero
#print axioms monitor_online_zero
#print axioms fwdObs_const
#print axioms singleMemory_monitor
#print axioms singleDiskCopy_monitor
#print axioms singleDiskMove_monitor
#print axioms none_monitor
#print axioms twoLevel_monitor
end AxiomCheck
