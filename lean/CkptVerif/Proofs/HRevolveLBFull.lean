import CkptVerif.Proofs.HRevolveLBFullRun
/-!
# C07 for HRevolve with DISK units: the relaxed LIFO discipline `Lifo'`

GOAL (still OPEN in full generality): `Ckpt.LB7.HRevolveOptimalT` (`Proofs/DiskCounterexamples.lean`)

    ∀ N c0 c1 v c os, 1 ≤ N → 1 ≤ c0 → 0 < c.uf →
      (hoptTable (N - 1) c0 c1 0 c.wd 0 c.rd c.ub c.uf).opt 1 (N - 1) c1 = some v →
      Accepted (cfgHRevolve c0 c1 N) os → v + N * c.uf ≤ obsCostT c os

PROVED here: `hrevolveOptimalT_partial2`, the statement for every accepted stream that obeys the
discipline `Lifo'` (`Proofs/HRevolveLBFullSteps.lean`), a restriction strictly weaker than `Lifo`:

* a `Copy`/`Move` into WORK loads the most recently stored checkpoint that is still ALIVE (position
  below the adjoint position); stale checkpoints anywhere in storage are ignored;
* ANY stored checkpoint may be deleted at any time (`Move … → NONE`), and a `Copy … → NONE` is allowed;
* what remains excluded: a `Copy`/`Move` into RAM or DISK (direct transfers between the levels), and
  a restart from a checkpoint while a more recent alive checkpoint is stored.

`lifo'_of_lifo`: every accepted `Lifo` stream is `Lifo'`; `hrevolveOptimalT_partial` is a corollary
(`hrevolveOptimalT_partial_again`).  `exLifo'` is an accepted stream that is `Lifo'` and not `Lifo`.

WHAT IS MISSING for `HRevolveOptimalT` itself: streams whose forward sweeps pass over stored checkpoints
that are used later, and direct transfers between RAM and DISK.  `Proofs/HRevolveLBFullGameMain.lean`
reduces the full statement to a purely combinatorial one: every accepted complete stream is a play of a
six-move pebble game (`game_of_accepted`), and
`hrevolveOptimalT_of_gameLB : (∀ c c0 c1, 1 ≤ c0 → GameLB c c0 c1) → HRevolveOptimalT`,
where `GameLB` says that every play from the initial state costs at least an achievable hierarchical
cost.  A candidate potential for `GameLB` (eager plans with chained sweeps; checked numerically for all
transitions of the game up to `N = 9`) is closed under every move, but its closure under `turn` needs a
reduction lemma ("RAM copies beyond the stored RAM checkpoints never pay") whose proof requires
cost-dependent exchange arguments (`rd` against the distance to a passed DISK checkpoint) that were not
formalised.  (Stale checkpoints cannot occur in a complete accepted stream — they could never be
removed — so that clause of `Lifo'` only matters for prefixes.)
-/
namespace Ckpt.LB7
open Ckpt.RC Ckpt.GW Ckpt.Mean Ckpt.HLB

/-- **one accepted step that obeys `Lifo'`** -/
theorem step_potT {c : Costs} {c0 c1 N : Nat} {x : XS}
    (hinv : GW.Inv (cfgHRevolve c0 c1 N) (c0 + c1) x) (hinv2 : Inv2 c0 c1 x) (o : Obs)
    (hclean : stepViols (cfgHRevolve c0 c1 N) x o = []) (hnd : storesDeps o.act = false)
    (hl : lifoAct' (cfgHRevolve c0 c1 N) x o.act = true) :
    Inv2 c0 c1 (nextState (cfgHRevolve c0 c1 N) x o.act) ∧
    ∀ m, PotT c c0 c1 (cfgHRevolve c0 c1 N) (nextState (cfgHRevolve c0 c1 N) x o.act) m →
      PotT c c0 c1 (cfgHRevolve c0 c1 N) x (m + actCostF c o.act) := by
  unfold stepViols at hclean
  simp only [List.append_eq_nil_iff] at hclean
  obtain ⟨⟨_, hact⟩, _⟩ := hclean
  cases ho : o.act with
  | forward n0 n1 wi wa st =>
    rw [ho] at hact hnd
    exact ⟨(step_forwardH (c := c) hinv hinv2 hact hnd).1, step_forwardT hinv hinv2 hact hnd⟩
  | reverse n1 n0 cl =>
    rw [ho] at hact
    exact ⟨(step_reverseH (c := c) hinv hinv2 hact).1, step_reverseT hinv hact⟩
  | copy n src dst =>
    rw [ho] at hact hl
    exact step_copyT hinv hinv2 hact hl
  | move n src dst =>
    rw [ho] at hact hl
    exact step_moveT hinv hinv2 hact hl
  | endForward =>
    refine ⟨(step_endForwardH (c := c) (N := N) hinv2).1, ?_⟩
    have hc : actCostF c .endForward = 0 := by simp [actCostF, actCostT, actCost, transfersToDisk]
    rw [hc]
    exact step_shrinkT (x := x) (x' := nextState (cfgHRevolve c0 c1 N) x .endForward)
      (List.Sublist.refl _) rfl rfl rfl 0
  | endReverse =>
    refine ⟨(step_endReverseH (c := c) (N := N) hinv2).1, ?_⟩
    have hc : actCostF c .endReverse = 0 := by simp [actCostF, actCostT, actCost, transfersToDisk]
    rw [hc]
    have e : nextState (cfgHRevolve c0 c1 N) x .endReverse = { x with done := x.done + 1 } := by
      have hp : (cfgHRevolve c0 c1 N).passes = some 1 := rfl
      simp only [nextState, hp]
      have : decide (x.done + 1 < 1) = false := by simp
      rw [this]
      rfl
    rw [e]
    exact step_shrinkT (x := x) (x' := { x with done := x.done + 1 })
      (List.Sublist.refl _) rfl rfl rfl 0

/-! ## the whole stream -/

theorem run_potT {c : Costs} {c0 c1 N : Nat} (os : List Obs) :
    ∀ (i : Nat) (x : XS), GW.Inv (cfgHRevolve c0 c1 N) (c0 + c1) x → Inv2 c0 c1 x →
      (runFrom (cfgHRevolve c0 c1 N) i x os).2 = [] →
      finished (cfgHRevolve c0 c1 N) (runFrom (cfgHRevolve c0 c1 N) i x os).1 = true →
      (∀ o ∈ os, storesDeps o.act = false) → lifoFrom' (cfgHRevolve c0 c1 N) x os = true →
      PotT c c0 c1 (cfgHRevolve c0 c1 N) x (obsCostF c os) := by
  induction os with
  | nil =>
    intro i x hinv _ _ hfin _ _
    have hdone : 1 ≤ x.done := by
      have : finished (cfgHRevolve c0 c1 N) x = true := hfin
      unfold finished at this
      simpa [cfgHRevolve] using this
    have hr := hinv.done hdone
    have ha : (cfgHRevolve c0 c1 N).N - x.r = 0 := by omega
    refine ⟨fun hf => ?_, fun _ => ?_⟩
    · have := hf.1; omega
    · rw [ha]; exact HLB.rt_final _ _
  | cons o os ih =>
    intro i x hinv hinv2 hclean hfin hnd hl
    rw [runFrom_snd_cons, List.append_eq_nil_iff, List.map_eq_nil_iff] at hclean
    have hfin' : finished (cfgHRevolve c0 c1 N)
        (runFrom (cfgHRevolve c0 c1 N) (i + 1) (nextState (cfgHRevolve c0 c1 N) x o.act) os).1 = true := by
      rw [runFrom_fst_eq] at hfin ⊢
      exact hfin
    simp only [lifoFrom', Bool.and_eq_true] at hl
    obtain ⟨hinv', _⟩ := step_pot (cfgHyp_h c0 c1 N) hinv o hclean.1 (hnd o (List.mem_cons_self ..))
    obtain ⟨hinv2', hstep⟩ := step_potT (c := c) hinv hinv2 o hclean.1 (hnd o (List.mem_cons_self ..)) hl.1
    have := ih (i + 1) _ hinv' hinv2' hclean.2 hfin'
      (fun o' ho' => hnd o' (List.mem_cons_of_mem _ ho')) hl.2
    have := hstep _ this
    rw [obsCostF_cons, Nat.add_comm]
    exact this

/-- **C07 for HRevolve with DISK units, among all schedules that obey the relaxed LIFO discipline.**
For `N ≥ 1` steps, `c0 ≥ 1` RAM units, `c1` DISK units and any cost vector: the value of the two-level
H-Revolve table (plus the first sweep) is a lower bound for the transfer-aware cost `obsCostT` of EVERY
stream of observations that the checking executor accepts for `cfgHRevolve c0 c1 N`, that completes the
adjoint calculation, whose storage units hold restart data only, and that obeys `Lifo'`: no `Copy`/`Move`
into RAM or DISK, and every `Copy`/`Move` into WORK loads the most recently stored checkpoint that is
still alive.  Checkpoints may be deleted in any order (`Move … → NONE`). -/
theorem hrevolveOptimalT_partial2 :
    ∀ (N c0 c1 v : Nat) (c : Costs) (os : List Obs), 1 ≤ N → 1 ≤ c0 → 0 < c.uf →
      (hoptTable (N - 1) c0 c1 0 c.wd 0 c.rd c.ub c.uf).opt 1 (N - 1) c1 = some v →
      Accepted (cfgHRevolve c0 c1 N) os → Lifo' (cfgHRevolve c0 c1 N) os →
      v + N * c.uf ≤ obsCostT c os := by
  intro N c0 c1 v c os hN hc0 _ hv hacc hlifo
  obtain ⟨hclean, hfin, hnd⟩ := hacc
  have hp := run_potT (c := c) os 0 (XS.init (cfgHRevolve c0 c1 N)) (inv_init (cfgHyp_h c0 c1 N))
    (inv2_init c0 c1 _) hclean hfin hnd hlifo
  have hnf : ¬ Flagged (cfgHRevolve c0 c1 N) (XS.init (cfgHRevolve c0 c1 N)) := by
    rintro ⟨_, h⟩
    simp [XS.init] at h
  have hr := hp.2 hnf
  have e1 : stk (XS.init (cfgHRevolve c0 c1 N)) = [] := rfl
  have e2 : (XS.init (cfgHRevolve c0 c1 N)).fwd = some 0 := rfl
  have e3 : (cfgHRevolve c0 c1 N).N - (XS.init (cfgHRevolve c0 c1 N)).r = N := rfl
  rw [e1, e2, e3] at hr
  obtain ⟨w, hw, hA⟩ := HLB.rt_init hN hr
  have htab := HLB.table_le N c0 c1 v w c hN hc0 hv hA
  have hrev := revSteps_eq (cfgHyp_h c0 c1 N) os hclean hfin hnd
  have e4 : (cfgHRevolve c0 c1 N).N = N := rfl
  rw [e4] at hrev
  rw [obsCostT_split, hrev, Nat.mul_comm c.ub N]
  omega

/-- the full statement follows for the streams that obey `Lifo'`; what is missing is exactly that
hypothesis -/
theorem hrevolveOptimalT_of_lifo'
    (h : ∀ (c0 c1 N : Nat) (os : List Obs), Accepted (cfgHRevolve c0 c1 N) os →
      Lifo' (cfgHRevolve c0 c1 N) os) : HRevolveOptimalT := by
  intro N c0 c1 v c os hN hc0 huf hv hacc
  exact hrevolveOptimalT_partial2 N c0 c1 v c os hN hc0 huf hv hacc (h c0 c1 N os hacc)

end Ckpt.LB7

#print axioms Ckpt.LB7.hrevolveOptimalT_partial2
#print axioms Ckpt.LB7.hrevolveOptimalT_of_lifo'
