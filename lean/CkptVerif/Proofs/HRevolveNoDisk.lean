import CkptVerif.Proofs.RevolveOptimal
import CkptVerif.Proofs.HRevolveCost
/-!
# H-Revolve without disk units is the Revolve optimum

* `hopt0_eq_opt0`: with free RAM transfers (`w0 = r0 = 0`) level 0 of the hierarchical table
  `hoptTable` IS the memory-only table `opt0Table`;
* `C07_hrevolve_nodisk_optimal`: the stream of `HRevolve(N, c0, 0)` costs no more than ANY complete
  stream the executor accepts for `cfgHRevolve c0 0 N` (restart data only).
(For `c1 ≥ 1` the corresponding statement is false for `obsCost` and open for the transfer-aware cost:
see `Proofs/DiskCounterexamples.lean`.)
-/
namespace Ckpt.RC
open Ckpt Ckpt.GW

/-- more units never hurt: from `k` units down to one -/
theorem gwT_le_one (n : Nat) (hn : 1 ≤ n) : ∀ k, 1 ≤ k → gwT n k ≤ gwT n 1 := by
  intro k hk
  induction k with
  | zero => omega
  | succ k ih =>
    rcases Nat.eq_zero_or_pos k with rfl | hk1
    · exact le_refl _
    · exact le_trans (gwT_anti k hk1 n hn) (ih hk1)

/-- the memory-only table is non-increasing in the number of units (against one unit) -/
theorem opt0Get_le_row1 (lmax mmax uf ub l m : Nat) (hl : l ≤ lmax) (hm1 : 1 ≤ m) (hm : m ≤ mmax) :
    opt0Get (opt0Table lmax mmax uf ub) m l ≤ opt0Get (opt0Table lmax mmax uf ub) 1 l := by
  have h1 := opt0_eq_gwT lmax mmax uf ub l m hl hm1 hm
  have h2 := opt0_eq_gwT lmax mmax uf ub l 1 hl (le_refl _) (by omega)
  have := Nat.mul_le_mul_left uf (gwT_le_one (l + 1) (by omega) m hm1)
  omega

section
variable (lmax c0 c1 w1 r1 ub uf : Nat)

/-- **level 0 of the hierarchical table is the memory-only table** (RAM transfers are free) -/
theorem hopt0_eq_opt0 (hc0 : 1 ≤ c0) : ∀ l, l ≤ lmax → ∀ m, 1 ≤ m → m ≤ c0 →
    (hoptTable lmax c0 c1 0 w1 0 r1 ub uf).optp 0 l m = some (opt0Get (opt0Table lmax c0 uf ub) m l) ∧
    (hoptTable lmax c0 c1 0 w1 0 r1 ub uf).opt 0 l m = some (opt0Get (opt0Table lmax c0 uf ub) m l) := by
  intro l
  induction l using Nat.strong_induction_on with
  | _ l ih =>
    intro hl m hm1 hm
    rcases Nat.lt_or_ge l 2 with hl2 | hl2
    · rcases Nat.eq_zero_or_pos l with rfl | hpos
      · rw [opt0Get_zero _ _ _ _ _ hm]
        exact hopt0_row0 lmax c0 c1 0 w1 0 r1 ub uf hc0 m hm
      · have : l = 1 := by omega
        subst this
        rw [opt0Get_one _ _ _ _ _ hm1 hm]
        obtain ⟨a, b⟩ := hopt0_row1 lmax c0 c1 0 w1 0 r1 ub uf hc0 hl m hm1 hm
        rw [a, b]
        exact ⟨by simp, by simp⟩
    · have hcol := hopt0_col1 lmax c0 c1 0 w1 0 r1 ub uf hc0 l hl2 hl
      have hrow1 := opt0Get_row1 lmax c0 uf ub l hc0 hl2 hl
      rcases Nat.eq_or_lt_of_le hm1 with rfl | hm2
      · rw [hrow1, hcol.1, hcol.2]
        exact ⟨by simp, by simp⟩
      · obtain ⟨a, b⟩ := hopt0_rec lmax c0 c1 0 w1 0 r1 ub uf hc0 l m hl2 hl hm2 hm
        obtain ⟨_, hmin, hmem⟩ := opt0Get_rec lmax c0 uf ub m l hm2 hm hl2 hl
        -- the candidates, by the induction hypothesis
        have hc : (List.range' 1 (l - 1)).map (fun j =>
              oadd (oadd (oadd (some (j * uf)) ((hoptTable lmax c0 c1 0 w1 0 r1 ub uf).opt 0 (l - j) (m - 1)))
                (some 0)) ((hoptTable lmax c0 c1 0 w1 0 r1 ub uf).optp 0 (j - 1) m)) =
            ((List.range' 1 (l - 1)).map (fun j =>
              j * uf + opt0Get (opt0Table lmax c0 uf ub) (m - 1) (l - j) +
                opt0Get (opt0Table lmax c0 uf ub) m (j - 1))).map some := by
          rw [List.map_map]
          apply List.map_congr_left
          intro j hj
          rw [List.mem_range'_1] at hj
          rw [(ih (l - j) (by omega) (by omega) (m - 1) (by omega) (by omega)).2,
            (ih (j - 1) (by omega) (by omega) m hm1 hm).1]
          simp [oadd]
        have hp : (hoptTable lmax c0 c1 0 w1 0 r1 ub uf).optp 0 l m =
            some (opt0Get (opt0Table lmax c0 uf ub) m l) := by
          rw [a, hc]
          apply ominList_eq_of
          · exact List.mem_append_left _ (List.mem_map.mpr ⟨_, hmem, rfl⟩)
          · intro y hy
            rcases List.mem_append.mp hy with hy | hy
            · obtain ⟨x, hx, rfl⟩ := List.mem_map.mp hy
              rw [ole_some_some]
              exact hmin x hx
            · rw [List.mem_singleton] at hy
              rw [hy, hcol.1, ole_some_some]
              have := opt0Get_le_row1 lmax c0 uf ub l m hl hm1 hm
              rw [hrow1] at this
              omega
        refine ⟨hp, ?_⟩
        rw [b, hp]
        simp [oadd]

end

/-- the cost of the HRevolve stream without disk units is the Revolve optimum
`uf·(N + E(N, min(c0, N-1))) + ub·N` -/
theorem hrevolve_nodisk_cost (N c0 : Nat) (c : Costs) (hN : 1 ≤ N) (hc0 : 1 ≤ c0) (evs : List Ev)
    (h : hrevolveEvs N c0 0 c = .ok evs) :
    cost c evs = c.uf * (N + extraCell N (clampS N c0)) + c.ub * N := by
  obtain ⟨v, hv, hc⟩ := hrevolve_cost N c0 0 c hN hc0 evs h
  have hv' : v = opt0Get (opt0Table (N - 1) c0 c.uf c.ub) c0 (N - 1) := by
    rcases Nat.eq_or_lt_of_le hN with h1 | h2
    · -- N = 1
      subst h1
      have := (hopt1_row0 (1 - 1) c0 0 0 c.wd 0 c.rd c.ub c.uf 0 (le_refl _)).2
      rw [this] at hv
      rw [opt0Get_zero _ _ _ _ _ (le_refl _)]
      exact (Option.some.inj hv).symm
    · rw [hopt1_col0_eq (N - 1) c0 0 0 c.wd 0 c.rd c.ub c.uf hc0 (N - 1) (by omega) (le_refl _),
        (hopt0_eq_opt0 (N - 1) c0 0 c.wd c.rd c.ub c.uf hc0 (N - 1) (le_refl _) c0 hc0 (le_refl _)).2] at hv
      exact (Option.some.inj hv).symm
  rw [hc, hv']
  have := opt0_eq_gwT (N - 1) c0 c.uf c.ub (N - 1) c0 (le_refl _) hc0 (le_refl _)
  have e : N - 1 + 1 = N := by omega
  rw [e] at this
  unfold gwT at this
  rw [this, Nat.mul_comm N c.ub]
  omega

/-- **HRevolve without disk units is cost-optimal among ALL executable schedules** -/
theorem C07_hrevolve_nodisk_optimal (N c0 : Nat) (c : Costs) (hN : 1 ≤ N) (hc0 : 1 ≤ c0)
    (evs : List Ev) (h : hrevolveEvs N c0 0 c = .ok evs) (os : List Obs)
    (hclean : (run (cfgHRevolve c0 0 N) os).2 = [])
    (hdone : finished (cfgHRevolve c0 0 N) (run (cfgHRevolve c0 0 N) os).1 = true)
    (hnd : ∀ o ∈ os, storesDeps o.act = false) :
    cost c evs ≤ obsCost c os := by
  rw [hrevolve_nodisk_cost N c0 c hN hc0 evs h]
  exact cost_lowerBound (cfg := cfgHRevolve c0 0 N) (s := c0) ⟨⟨c0, 0, rfl, rfl, rfl⟩, rfl, rfl, rfl⟩
    hN c os hclean hdone hnd

end Ckpt.RC

#print axioms Ckpt.RC.hopt0_eq_opt0
#print axioms Ckpt.RC.C07_hrevolve_nodisk_optimal
