import CkptVerif.Proofs.HRevolveLBFull
/-!
# The combinatorial core of `HRevolveOptimalT`: a pebble game

Everything that concerns the checking executor (violations, flags, the `ics` ranges, stale
checkpoints, …) is removed here once and for all: every accepted complete stream of
`cfgHRevolve c0 c1 N` is a play of the following game, at the same cost (without the reversed steps).

State `(a, toks, W)`: steps `[0, a)` are still to be reversed; `toks` are the stored checkpoints
(position, `true` = DISK); `W` is the position of the forward state in working storage.  Moves:

* `adv`   : the forward state advances (`uf` per step), not beyond `a`;
* `store` : the forward state is stored in a free unit (`wd` on DISK);
* `turn`  : the forward state stands at `a - 1`: one forward step, one reversed step (`uf`);
* `load`  : a stored checkpoint below `a` is copied into working storage (`rd` from DISK);
* `drop`  : stored checkpoints are deleted;
* `xfer`  : a stored checkpoint is copied into a free unit of the other level (`rd` out of DISK, `wd`
            into DISK).

`Game … x n`: some play from `x` reverses all steps at cost `n`.  `GameLB`: every play from the initial
state costs at least an achievable hierarchical cost (`HLB.A`, hence at least the table value).
`hrevolveOptimalT_of_gameLB : (∀ c c0 c1, 1 ≤ c0 → GameLB c c0 c1) → HRevolveOptimalT`.

`GameLB` is exactly what is still open; for plays in which every `load` takes the most recent alive
checkpoint and there is no `xfer` it follows from `hrevolveOptimalT_partial2`'s potential.
-/
namespace Ckpt.LB7
open Ckpt.RC Ckpt.GW Ckpt.Mean Ckpt.HLB

structure GState where
  a : Nat
  toks : List Src
  W : Option Nat

inductive GStep (c : Costs) (c0 c1 : Nat) : GState → GState → Nat → Prop
  | adv (a : Nat) (toks : List Src) (f f' : Nat) (h1 : f ≤ f') (h2 : f' ≤ a) :
      GStep c c0 c1 ⟨a, toks, some f⟩ ⟨a, toks, some f'⟩ ((f' - f) * c.uf)
  | store (a : Nat) (toks : List Src) (f : Nat) (d : Bool)
      (hcap : if d then nD toks + 1 ≤ c1 else nR toks + 1 ≤ c0) :
      GStep c c0 c1 ⟨a, toks, some f⟩ ⟨a, (f, d) :: toks, some f⟩ (if d then c.wd else 0)
  | turn (a : Nat) (toks : List Src) :
      GStep c c0 c1 ⟨a + 1, toks, some a⟩ ⟨a, toks, some (a + 1)⟩ c.uf
  | load (a : Nat) (toks : List Src) (W : Option Nat) (e : Nat) (d : Bool) (hm : (e, d) ∈ toks)
      (he : e < a) : GStep c c0 c1 ⟨a, toks, W⟩ ⟨a, toks, some e⟩ (if d then c.rd else 0)
  | drop (a : Nat) (toks toks' : List Src) (W : Option Nat) (hs : toks'.Sublist toks) :
      GStep c c0 c1 ⟨a, toks, W⟩ ⟨a, toks', W⟩ 0
  | xfer (a : Nat) (toks : List Src) (W : Option Nat) (e : Nat) (d : Bool) (hm : (e, d) ∈ toks)
      (hcap : if d then nR toks + 1 ≤ c0 else nD toks + 1 ≤ c1) :
      GStep c c0 c1 ⟨a, toks, W⟩ ⟨a, (e, !d) :: toks, W⟩ (if d then c.rd else c.wd)

/-- some play from `x` reverses all remaining steps at cost at most `n` -/
inductive Game (c : Costs) (c0 c1 : Nat) : GState → Nat → Prop
  | fin (toks : List Src) (W : Option Nat) (n : Nat) : Game c c0 c1 ⟨0, toks, W⟩ n
  | step (x y : GState) (w n : Nat) (h : GStep c c0 c1 x y w) (hy : Game c c0 c1 y n) :
      Game c c0 c1 x (n + w)

/-- **the open core**: every play from the initial state costs at least an achievable hierarchical
cost -/
def GameLB (c : Costs) (c0 c1 : Nat) : Prop :=
  ∀ N n, 1 ≤ N → Game c c0 c1 ⟨N, [], some 0⟩ n → ∃ v, v ≤ n ∧ A c false c0 N c1 v

/-- a play of cost at most `n` costs at most `n + w` -/
theorem Game.weaken {c : Costs} {c0 c1 : Nat} {x : GState} {n : Nat} (h : Game c c0 c1 x n) (w : Nat) :
    Game c c0 c1 x (n + w) := by
  induction h with
  | fin toks W n => exact Game.fin toks W (n + w)
  | step x y w' n h _ ih =>
    have := Game.step x y w' (n + w) h ih
    have e : n + w + w' = n + w' + w := by omega
    rw [e] at this
    exact this

theorem Game.step' {c : Costs} {c0 c1 : Nat} {x y : GState} {w n m : Nat} (h : GStep c c0 c1 x y w)
    (hy : Game c c0 c1 y n) (hm : m = n + w) : Game c c0 c1 x m := by
  subst hm; exact Game.step x y w n h hy

/-- the game state of an executor state -/
def PotG (c : Costs) (c0 c1 : Nat) (cfg : Cfg) (x : XS) (n : Nat) : Prop :=
  (Flagged cfg x → Game c c0 c1 ⟨cfg.N - x.r - 1, stk x, x.fwd⟩ n) ∧
  (¬ Flagged cfg x → Game c c0 c1 ⟨cfg.N - x.r, stk x, x.fwd⟩ n)

end Ckpt.LB7
