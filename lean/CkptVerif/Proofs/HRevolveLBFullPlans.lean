import CkptVerif.Proofs.HRevolveLBPlans
/-!
# Stack plans over the *alive, used* checkpoints

`Proofs/HRevolveLBPlans.lean` prices a stack `S` of stored checkpoints in which EVERY entry counts as
occupied.  Here the plan may choose any sub-stack `L` of the stored checkpoints (in the order of the
stack) whose entries are still *alive* (position below the adjoint): checkpoints that are not chosen
do not occupy a unit (they can be deleted at once).  This is what makes the potential closed under

* the deletion of an arbitrary stored checkpoint,
* stale checkpoints (position at or above the adjoint) lying anywhere in the stack,
* loading the most recent checkpoint that is still alive.

`RT … stk W a n`: some alive sub-stack of `stk` has a stack plan (`Reach`) of cost at most `n`.
-/
namespace Ckpt.HLB

def RT (c : Costs) (c0 c1 : Nat) (stk : List Src) (W : Option Nat) (a n : Nat) : Prop :=
  ∃ L : List Src, L.Sublist stk ∧ (∀ s ∈ L, s.1 < a) ∧ Reach c c0 c1 L W a n

section
variable {c : Costs} {c0 c1 : Nat}

theorem nR_sublist {L S : List Src} (h : L.Sublist S) : nR L ≤ nR S := by
  unfold nR
  exact (h.filter _).length_le

theorem nD_sublist {L S : List Src} (h : L.Sublist S) : nD L ≤ nD S := by
  unfold nD
  exact (h.filter _).length_le

theorem rt_final (stk : List Src) (W : Option Nat) : RT c c0 c1 stk W 0 0 :=
  ⟨[], List.nil_sublist _, fun _ h => absurd h List.not_mem_nil, reach_final _ _⟩

theorem rt_weaken {stk : List Src} {W : Option Nat} {a n n' : Nat} (h : RT c c0 c1 stk W a n)
    (hn : n ≤ n') : RT c c0 c1 stk W a n' := by
  obtain ⟨L, h1, h2, h3⟩ := h
  exact ⟨L, h1, h2, reach_weaken h3 hn⟩

/-- a larger stack (in the sense of sub-lists) is at least as good -/
theorem rt_mono {stk stk' : List Src} {W : Option Nat} {a n : Nat} (hs : stk'.Sublist stk)
    (h : RT c c0 c1 stk' W a n) : RT c c0 c1 stk W a n := by
  obtain ⟨L, h1, h2, h3⟩ := h
  exact ⟨L, h1.trans hs, h2, h3⟩

theorem rt_noW {stk : List Src} {W : Option Nat} {a n : Nat} (h : RT c c0 c1 stk none a n) :
    RT c c0 c1 stk W a n := by
  obtain ⟨L, h1, h2, h3⟩ := h
  exact ⟨L, h1, h2, reach_noW h3⟩

theorem rt_dead {stk : List Src} {f a n : Nat} (h : RT c c0 c1 stk (some f) a n) (hf : a ≤ f) :
    RT c c0 c1 stk none a n := by
  obtain ⟨L, h1, h2, h3⟩ := h
  exact ⟨L, h1, h2, reach_dead h3 hf⟩

theorem rt_adv {stk : List Src} {f f' a n : Nat} (hff : f ≤ f') (h : RT c c0 c1 stk (some f') a n) :
    RT c c0 c1 stk (some f) a (n + (f' - f) * c.uf) := by
  obtain ⟨L, h1, h2, h3⟩ := h
  exact ⟨L, h1, h2, reach_adv hff h3⟩

theorem rt_turn {stk : List Src} {a n : Nat} (ha : 1 ≤ a) (h : RT c c0 c1 stk none (a - 1) n) :
    RT c c0 c1 stk (some (a - 1)) a (n + c.uf) := by
  obtain ⟨L, h1, h2, h3⟩ := h
  exact ⟨L, h1, fun s hs => by have := h2 s hs; omega, reach_turn ha h3⟩

theorem rt_init {N n : Nat} (hN : 1 ≤ N) (h : RT c c0 c1 [] (some 0) N n) :
    ∃ v, v ≤ n ∧ A c false c0 N c1 v := by
  obtain ⟨L, h1, _, h3⟩ := h
  have : L = [] := List.eq_nil_of_sublist_nil h1
  subst this
  exact reach_init hN h3

/-- **storing the forward state** (a new most recent checkpoint) -/
theorem rt_store {stk : List Src} {f a n : Nat} {d : Bool}
    (hcap : if d then nD stk + 1 ≤ c1 else nR stk + 1 ≤ c0)
    (h : RT c c0 c1 ((f, d) :: stk) (some f) a n) :
    RT c c0 c1 stk (some f) a (n + (if d then c.wd else 0)) := by
  obtain ⟨L, h1, h2, h3⟩ := h
  cases h1 with
  | cons _ h1' => exact ⟨L, h1', h2, reach_weaken h3 (by omega)⟩
  | cons_cons _ h1' =>
    rename_i L0
    have hcap' : if d then nD L0 + 1 ≤ c1 else nR L0 + 1 ≤ c0 := by
      have hr := nR_sublist h1'
      have hd := nD_sublist h1'
      cases d
      · simp only [Bool.false_eq_true, if_false] at hcap ⊢; omega
      · simp only [if_true] at hcap ⊢; omega
    exact ⟨L0, h1', fun s hs => h2 s (List.mem_cons_of_mem _ hs), reach_store hcap' h3⟩

/-- a sub-list of `pre ++ rest` whose entries avoid `pre` is a sub-list of `rest` -/
theorem sublist_drop_prefix {α : Type} {P : α → Prop} :
    ∀ (pre rest L : List α), L.Sublist (pre ++ rest) → (∀ s ∈ pre, ¬ P s) → (∀ s ∈ L, P s) →
      L.Sublist rest := by
  intro pre
  induction pre with
  | nil => intro rest L h _ _; simpa using h
  | cons p pre ih =>
    intro rest L h hpre hL
    rw [List.cons_append] at h
    cases h with
    | cons _ h' => exact ih rest L h' (fun s hs => hpre s (List.mem_cons_of_mem _ hs)) hL
    | cons_cons _ h' =>
      exact absurd (hL p (List.mem_cons_self ..)) (hpre p (List.mem_cons_self ..))

/-- **loading the most recent alive checkpoint**, which stays stored -/
theorem rt_loadCopy {pre post : List Src} {W : Option Nat} {e : Nat} {d : Bool} {a n : Nat}
    (hpre : ∀ s ∈ pre, ¬ s.1 < a) (he : e < a)
    (h : RT c c0 c1 (pre ++ (e, d) :: post) (some e) a n) :
    RT c c0 c1 (pre ++ (e, d) :: post) W a (n + ldc c d) := by
  obtain ⟨L, h1, h2, h3⟩ := h
  have h1' := sublist_drop_prefix (P := fun s : Src => s.1 < a) pre _ L h1 hpre h2
  have hsub : ((e, d) :: post).Sublist (pre ++ (e, d) :: post) := List.sublist_append_right _ _
  cases h1' with
  | cons _ h1'' =>
    refine ⟨(e, d) :: L, (h1''.cons_cons _).trans hsub, ?_, reach_loadMove h3⟩
    intro s hs
    rcases List.mem_cons.mp hs with rfl | hs
    · exact he
    · exact h2 s hs
  | cons_cons _ h1'' =>
    rename_i L0
    exact ⟨(e, d) :: L0, (h1''.cons_cons _).trans hsub, h2, reach_loadCopy h3⟩

/-- **loading the most recent alive checkpoint and removing it** -/
theorem rt_loadMove {pre post : List Src} {W : Option Nat} {e : Nat} {d : Bool} {a n : Nat}
    (hpre : ∀ s ∈ pre, ¬ s.1 < a) (he : e < a)
    (h : RT c c0 c1 (pre ++ post) (some e) a n) :
    RT c c0 c1 (pre ++ (e, d) :: post) W a (n + ldc c d) := by
  obtain ⟨L, h1, h2, h3⟩ := h
  have h1' := sublist_drop_prefix (P := fun s : Src => s.1 < a) pre _ L h1 hpre h2
  have hsub : ((e, d) :: post).Sublist (pre ++ (e, d) :: post) := List.sublist_append_right _ _
  refine ⟨(e, d) :: L, (h1'.cons_cons _).trans hsub, ?_, reach_loadMove h3⟩
  intro s hs
  rcases List.mem_cons.mp hs with rfl | hs
  · exact he
  · exact h2 s hs

end

end Ckpt.HLB

#print axioms Ckpt.HLB.rt_store
#print axioms Ckpt.HLB.rt_loadCopy
#print axioms Ckpt.HLB.rt_loadMove
