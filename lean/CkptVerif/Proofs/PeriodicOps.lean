import CkptVerif.Model.Revolve
import CkptVerif.Proofs.Period
import Mathlib.Tactic
/-!
# PeriodicDiskRevolve: which operations the model stream performs on DISK (C19, stream part)

For `periodicEvs N cm c = .ok evs` with period `mx` (`mxrr cm c.uf (c.wd + c.rd) = some mx`, the
closed form of `mxrr_spec`, independent of `N`) and `q = (N - 2) / mx`:

* (iv) `evs = sweep ++ revSeg[q·mx, N) ++ (for b = q-1 … 0: move (b·mx) :: revSeg[b·mx, (b+1)·mx)) ++ [EndReverse]`;
* (i) the first `q` events are the DISK writes `Forward (i·mx) ((i+1)·mx) true false .disk`,
  `i = 0 … q-1`; `EndForward` comes after them;
* (ii) no later event writes to DISK;
* (iii) the loads from DISK are exactly the moves `Move (b·mx) .disk .work`, `b = q-1 … 0`, once
  each, and no `Copy` reads from DISK.
-/
namespace Ckpt
open List

/-! ## storages named by an event, and the label lemma for `segWith` -/

/-- the storages an action names -/
def Action.storages : Action → List Storage
  | .forward _ _ _ _ st => [st]
  | .copy _ src dst => [src, dst]
  | .move _ src dst => [src, dst]
  | _ => []

/-- the event stores data on DISK -/
def writesDisk (e : Ev) : Bool :=
  match e.act with
  | .forward _ _ _ _ st => decide (st = .disk)
  | .copy _ _ dst => decide (dst = .disk)
  | .move _ _ dst => decide (dst = .disk)
  | _ => false

/-- `Move n .disk dst`: the DISK checkpoint `n` is loaded (to `dst`) and deleted -/
def diskMove (e : Ev) : Option (Nat × Storage) :=
  match e.act with
  | .move n .disk dst => some (n, dst)
  | _ => none

/-- `Copy _ .disk _`: a DISK checkpoint is read and kept -/
def copiesFromDisk (e : Ev) : Bool :=
  match e.act with
  | .copy _ .disk _ => true
  | _ => false

/-- the event does not name DISK at all -/
def NoDisk (e : Ev) : Prop := ∀ s ∈ e.act.storages, s ≠ Storage.disk

theorem NoDisk.writes {e : Ev} (h : NoDisk e) : writesDisk e = false := by
  rcases e with ⟨act, n, r⟩
  cases act <;> simp [NoDisk, Action.storages, writesDisk] at h ⊢
  · exact h
  · exact h.2
  · exact h.2

theorem NoDisk.move {e : Ev} (h : NoDisk e) : diskMove e = none := by
  rcases e with ⟨act, n, r⟩
  cases act with
  | move n src dst =>
    cases src <;> simp [NoDisk, Action.storages, diskMove] at h ⊢
  | _ => simp [diskMove]

theorem NoDisk.copy {e : Ev} (h : NoDisk e) : copiesFromDisk e = false := by
  rcases e with ⟨act, n, r⟩
  cases act with
  | copy n src dst =>
    cases src <;> simp [NoDisk, Action.storages, copiesFromDisk] at h ⊢
  | _ => simp [copiesFromDisk]

/-- Label lemma: every storage named by an event of the generic binomial segment is working
storage or one of the labels `alloc d'`. -/
theorem segWith_labels (N : Nat) (σ : Nat → Nat → Option Nat) (S : Nat) (alloc : Nat → Storage)
    (persist : Bool) :
    ∀ (fuel : Nat) (stored spine : Bool) (lo hi d : Nat) (evs : List Ev),
      segWith N σ S alloc persist fuel stored spine lo hi d = some evs →
      ∀ e ∈ evs, ∀ s ∈ e.act.storages, s = Storage.work ∨ ∃ d', s = alloc d' := by
  intro fuel
  induction fuel with
  | zero => intro _ _ _ _ _ _ h; simp [segWith] at h
  | succ fuel ih =>
    intro stored spine lo hi d evs h
    unfold segWith at h
    dsimp only at h
    split at h
    · injection h with h
      subst h
      intro e he s hs
      simp only [mem_append, mem_cons, mem_ite_nil_right] at he
      by_cases hp : persist = true ∧ d = 0
      · rcases he with ((⟨_, he⟩ | he) | ⟨_, he⟩) | he <;>
          (try simp only [not_mem_nil, or_false] at he) <;> subst he <;>
          simp [hp, Action.storages] at hs <;> (try rcases hs with rfl | rfl) <;>
          first | exact Or.inl rfl | exact Or.inr ⟨_, rfl⟩
      · rcases he with ((⟨_, he⟩ | he) | ⟨_, he⟩) | he <;>
          (try simp only [not_mem_nil, or_false] at he) <;> subst he <;>
          simp [hp, Action.storages] at hs <;> (try rcases hs with rfl | rfl) <;>
          first | exact Or.inl rfl | exact Or.inr ⟨_, rfl⟩
    · split at h
      · cases h
      · rename_i a _
        split at h
        · cases h
        · rename_i right hright
          split at h
          · cases h
          · rename_i left hleft
            injection h with h
            subst h
            intro e he s hs
            rcases mem_append.1 he with he | he
            · rcases mem_append.1 he with he | he
              · cases stored <;> simp at he
                · subst he
                  simp [Action.storages] at hs
                  subst hs
                  exact Or.inr ⟨_, rfl⟩
                · rcases he with rfl | rfl <;> simp [Action.storages] at hs
                  · rcases hs with rfl | rfl
                    · exact Or.inr ⟨_, rfl⟩
                    · exact Or.inl rfl
                  · exact Or.inl hs
              · exact ih _ _ _ _ _ _ hright e he s hs
            · exact ih _ _ _ _ _ _ hleft e he s hs

/-- on the spine the segment emits `EndForward` -/
theorem segWith_spine_mem (N : Nat) (σ : Nat → Nat → Option Nat) (S : Nat) (alloc : Nat → Storage)
    (persist : Bool) :
    ∀ (fuel : Nat) (stored : Bool) (lo hi d : Nat) (evs : List Ev),
      segWith N σ S alloc persist fuel stored true lo hi d = some evs →
      ∃ e ∈ evs, e.act = .endForward := by
  intro fuel
  induction fuel with
  | zero => intro _ _ _ _ _ h; simp [segWith] at h
  | succ fuel ih =>
    intro stored lo hi d evs h
    unfold segWith at h
    dsimp only at h
    split at h
    · injection h with h
      subst h
      exact ⟨⟨.endForward, hi, N - hi⟩, by simp, rfl⟩
    · split at h
      · cases h
      · split at h
        · cases h
        · rename_i right hright
          split at h
          · cases h
          · injection h with h
            subst h
            obtain ⟨e, he, hact⟩ := ih _ _ _ _ _ hright
            exact ⟨e, mem_append_left _ (mem_append_right _ he), hact⟩

/-- off the spine the segment emits no `EndForward` -/
theorem segWith_nospine_noEnd (N : Nat) (σ : Nat → Nat → Option Nat) (S : Nat) (alloc : Nat → Storage)
    (persist : Bool) : ∀ (fuel : Nat) (stored : Bool) (lo hi d : Nat) (evs : List Ev),
    segWith N σ S alloc persist fuel stored false lo hi d = some evs →
    ∀ e ∈ evs, e.act ≠ .endForward := by
  intro fuel
  induction fuel with
  | zero => intro _ _ _ _ _ h; simp [segWith] at h
  | succ fuel ih =>
    intro stored lo hi d evs h
    unfold segWith at h
    dsimp only at h
    split at h
    · injection h with h
      subst h
      intro e he
      simp only [Bool.false_eq_true, if_false, append_nil, mem_append, mem_cons, not_mem_nil,
        or_false, mem_ite_nil_right] at he
      rcases he with (⟨_, he⟩ | he) | he <;> subst he
      · split <;> simp
      · simp
      · simp
    · split at h
      · cases h
      · split at h
        · cases h
        · rename_i right hright
          split at h
          · cases h
          · rename_i left hleft
            injection h with h
            subst h
            intro e he
            rcases mem_append.1 he with he | he
            · rcases mem_append.1 he with he | he
              · cases stored <;> simp at he
                · subst he; simp
                · rcases he with rfl | rfl <;> simp
              · exact ih _ _ _ _ _ hright e he
            · exact ih _ _ _ _ _ hleft e he

/-- the memory-only Revolve segment never names DISK -/
theorem revSeg_noDisk {N : Nat} {t : Array (Array Nat)} {uf cm : Nat} {spine : Bool} {lo hi : Nat}
    {evs : List Ev} (h : revSeg N t uf cm spine lo hi = some evs) : ∀ e ∈ evs, NoDisk e := by
  intro e he s hs
  rcases segWith_labels N _ cm (fun _ => Storage.ram) false _ _ _ _ _ _ evs h e he s hs with h1 | ⟨_, h1⟩ <;>
    (subst h1; simp)

/-! ## the shape of the stream -/

/-- the `i`-th periodic DISK write of the sweep -/
def sweepEv (mx i : Nat) : Ev := ⟨.forward (i * mx) ((i + 1) * mx) true false .disk, (i + 1) * mx, 0⟩

/-- the load of the DISK checkpoint of block `b` -/
def blockMove (N mx b : Nat) : Ev := ⟨.move (b * mx) .disk .work, b * mx, N - (b + 1) * mx⟩

/-- the Revolve segment of block `b` (`[]` if `revSeg` failed, which it does not) -/
def blockSeg (N : Nat) (t0 : Array (Array Nat)) (uf cm mx b : Nat) : List Ev :=
  (revSeg N t0 uf cm false (b * mx) ((b + 1) * mx)).getD []

/-- `move :: revSeg` for the blocks `b-1, …, 0` -/
def blocksOf (N : Nat) (t0 : Array (Array Nat)) (uf cm mx : Nat) : Nat → List Ev
  | 0 => []
  | b + 1 => blockMove N mx b :: (blockSeg N t0 uf cm mx b ++ blocksOf N t0 uf cm mx b)

theorem blocksOf_eq_flatMap (N : Nat) (t0 : Array (Array Nat)) (uf cm mx : Nat) : ∀ q,
    blocksOf N t0 uf cm mx q =
      (List.range q).reverse.flatMap (fun b => blockMove N mx b :: blockSeg N t0 uf cm mx b)
  | 0 => rfl
  | q + 1 => by
    rw [blocksOf, blocksOf_eq_flatMap N t0 uf cm mx q, range_succ, reverse_append]
    simp

theorem periodicSweep_eq (l mx : Nat) (hmx : 1 ≤ mx) :
    ∀ (fuel q0 : Nat), l - q0 * mx + 1 ≤ fuel →
      ∃ q, q0 ≤ q ∧ periodicSweep l mx fuel (q0 * mx) = ((List.range' q0 (q - q0)).map (sweepEv mx), q * mx) ∧
        l - q * mx ≤ mx ∧ ∀ i, q0 ≤ i → i < q → l - i * mx > mx := by
  intro fuel
  induction fuel with
  | zero => intro q0 h; omega
  | succ fuel ih =>
    intro q0 hfuel
    unfold periodicSweep
    by_cases hc : l - q0 * mx > mx
    · rw [if_pos hc]
      obtain ⟨q, h1, h2, h3, h4⟩ := ih (q0 + 1) (by rw [Nat.succ_mul]; omega)
      rw [Nat.succ_mul] at h2
      rw [h2]
      refine ⟨q, by omega, ?_, h3, ?_⟩
      · have e : q - q0 = (q - (q0 + 1)) + 1 := by omega
        rw [e, range'_succ, map_cons]
        simp only [sweepEv, Nat.succ_mul]
      · intro i hi1 hi2
        rcases Nat.eq_or_lt_of_le hi1 with rfl | hlt
        · exact hc
        · exact h4 i hlt hi2
    · rw [if_neg hc]
      refine ⟨q0, le_refl _, by simp, by omega, fun i h1 h2 => by omega⟩

theorem periodicBlocks_eq (N : Nat) (t0 : Array (Array Nat)) (uf cm mx : Nat) :
    ∀ (q : Nat) (blocks : List Ev), periodicBlocks N t0 uf cm mx q = some blocks →
      blocks = blocksOf N t0 uf cm mx q ∧
      ∀ b < q, revSeg N t0 uf cm false (b * mx) ((b + 1) * mx) = some (blockSeg N t0 uf cm mx b) := by
  intro q
  induction q with
  | zero =>
    intro blocks h
    simp only [periodicBlocks, Option.some.injEq] at h
    exact ⟨h.symm, fun b hb => by omega⟩
  | succ q ih =>
    intro blocks h
    unfold periodicBlocks at h
    dsimp only at h
    split at h
    · cases h
    · rename_i evs hevs
      split at h
      · cases h
      · rename_i rest hrest
        injection h with h
        obtain ⟨ih1, ih2⟩ := ih rest hrest
        have hseg : revSeg N t0 uf cm false (q * mx) ((q + 1) * mx) = some evs := by
          rw [Nat.succ_mul]; exact hevs
        have hbs : blockSeg N t0 uf cm mx q = evs := by simp [blockSeg, hseg]
        constructor
        · rw [← h, blocksOf, hbs, ih1]
          simp [blockMove, Nat.succ_mul]
        · intro b hb
          rcases Nat.eq_or_lt_of_le (Nat.le_of_lt_succ hb) with rfl | hlt
          · rw [hbs]; exact hseg
          · exact ih2 b hlt

/-- the number of periodic DISK checkpoints, three ways -/
theorem period_count_eq (N mx q : Nat) (hmx : 1 ≤ mx)
    (h1 : N - 1 - q * mx ≤ mx) (h2 : ∀ i, i < q → N - 1 - i * mx > mx) : q = (N - 2) / mx := by
  symm
  apply Nat.div_eq_of_lt_le
  · rcases Nat.eq_zero_or_pos q with rfl | hq
    · simp
    · have := h2 (q - 1) (by omega)
      have e : q * mx = (q - 1) * mx + mx := by
        conv_lhs => rw [show q = (q - 1) + 1 by omega, Nat.succ_mul]
      omega
  · rw [Nat.succ_mul]; omega

theorem period_cond_iff (N mx i : Nat) (hmx : 1 ≤ mx) :
    N - 1 - i * mx > mx ↔ i < (N - 2) / mx := by
  rw [Nat.lt_iff_add_one_le, Nat.le_div_iff_mul_le (by omega), Nat.succ_mul]
  omega

theorem filter_lt_range_length : ∀ (n q : Nat), q ≤ n →
    ((List.range n).filter (fun i => decide (i < q))).length = q
  | 0, q, h => by simp; omega
  | n + 1, q, h => by
    rw [range_succ, filter_append, length_append]
    rcases Nat.eq_or_lt_of_le h with rfl | hlt
    · have : (List.range n).filter (fun i => decide (i < n + 1)) = List.range n := by
        rw [filter_eq_self]; intro a ha; simp at ha ⊢; omega
      rw [this]; simp
    · rw [filter_lt_range_length n q (by omega)]
      simp; omega

/-- `q = (N-2)/mx` is the number of `i` with `N - 1 - i·mx > mx` -/
theorem period_count (N mx : Nat) (hmx : 1 ≤ mx) :
    ((List.range N).filter (fun i => decide (N - 1 - i * mx > mx))).length = (N - 2) / mx := by
  have : (fun i => decide (N - 1 - i * mx > mx)) = fun i => decide (i < (N - 2) / mx) := by
    funext i; rw [decide_eq_decide]; exact period_cond_iff N mx i hmx
  rw [this]
  apply filter_lt_range_length
  calc (N - 2) / mx ≤ N - 2 := Nat.div_le_self _ _
    _ ≤ N := Nat.sub_le _ _

/-- (iv) The stream literally is
`sweep ++ revSeg[q·mx, N) ++ (for b = q-1 … 0: move (b·mx) :: revSeg[b·mx, (b+1)·mx)) ++ [EndReverse]`. -/
theorem periodic_structure (N cm : Nat) (c : Costs) (mx : Nat) (evs : List Ev) (hN : 1 ≤ N)
    (hmx : mxrr cm c.uf (c.wd + c.rd) = some mx) (h : periodicEvs N cm c = .ok evs) :
    let q := (N - 2) / mx
    let t0 := opt0Table (max (N - 1) (mx + 1)) cm c.uf c.ub
    1 ≤ mx ∧ q * mx < N ∧ N - 1 - q * mx ≤ mx ∧
    ∃ mid, revSeg N t0 c.uf cm true (q * mx) N = some mid ∧
      (∀ b < q, revSeg N t0 c.uf cm false (b * mx) ((b + 1) * mx) = some (blockSeg N t0 c.uf cm mx b)) ∧
      evs = (List.range q).map (sweepEv mx) ++ mid ++
        (List.range q).reverse.flatMap (fun b => blockMove N mx b :: blockSeg N t0 c.uf cm mx b) ++
        [⟨.endReverse, 1, N⟩] := by
  intro q t0
  have hqdef : q = (N - 2) / mx := rfl
  clear_value q
  have hmx1 : 1 ≤ mx := mxrr_pos _ _ _ _ hmx
  obtain ⟨q', _, h2, h3, h4⟩ := periodicSweep_eq (N - 1) mx hmx1 N 0 (by omega)
  have hq : q' = q := by
    rw [hqdef]; exact period_count_eq N mx q' hmx1 h3 (fun i hi => h4 i (Nat.zero_le _) hi)
  subst hq
  rw [Nat.zero_mul, Nat.sub_zero, ← range_eq_range'] at h2
  have hlt : q' * mx < N := by
    rcases Nat.eq_zero_or_pos q' with h0 | hpos
    · rw [h0]; omega
    · have := h4 (q' - 1) (Nat.zero_le _) (by omega)
      have e : q' * mx = (q' - 1) * mx + mx := by
        conv_lhs => rw [show q' = (q' - 1) + 1 by omega, Nat.succ_mul]
      omega
  refine ⟨hmx1, hlt, h3, ?_⟩
  simp only [periodicEvs, hmx, h2] at h
  have hdiv : q' * mx / mx = q' := Nat.mul_div_cancel _ (by omega)
  rw [hdiv] at h
  split at h
  · cases h
  · rename_i mid hmid
    split at h
    · cases h
    · rename_i blocks hblocks
      injection h with h
      obtain ⟨hb1, hb2⟩ := periodicBlocks_eq N _ c.uf cm mx q' blocks hblocks
      refine ⟨mid, hmid, hb2, ?_⟩
      rw [← h, hb1, blocksOf_eq_flatMap]

/-! ## (i)–(iii) -/

theorem sweepEv_writes (mx i : Nat) : writesDisk (sweepEv mx i) = true := by simp [writesDisk, sweepEv]

/-- the events of the blocks: which of them move a DISK checkpoint -/
theorem blocksOf_filterMap_diskMove (N : Nat) (t0 : Array (Array Nat)) (uf cm mx : Nat) : ∀ q,
    (∀ b < q, revSeg N t0 uf cm false (b * mx) ((b + 1) * mx) = some (blockSeg N t0 uf cm mx b)) →
    (blocksOf N t0 uf cm mx q).filterMap diskMove =
      (List.range q).reverse.map (fun b => (b * mx, Storage.work))
  | 0, _ => rfl
  | q + 1, hseg => by
    have ih := blocksOf_filterMap_diskMove N t0 uf cm mx q (fun b hb => hseg b (by omega))
    have hnone : (blockSeg N t0 uf cm mx q).filterMap diskMove = [] := by
      rw [filterMap_eq_nil_iff]
      intro e he
      exact (revSeg_noDisk (hseg q (by omega)) e he).move
    have hmv : diskMove (blockMove N mx q) = some (q * mx, Storage.work) := rfl
    rw [blocksOf, filterMap_cons_some hmv, filterMap_append, hnone, ih, range_succ, reverse_append]
    simp

theorem blocksOf_props (N : Nat) (t0 : Array (Array Nat)) (uf cm mx : Nat) : ∀ q,
    (∀ b < q, revSeg N t0 uf cm false (b * mx) ((b + 1) * mx) = some (blockSeg N t0 uf cm mx b)) →
    ∀ e ∈ blocksOf N t0 uf cm mx q, writesDisk e = false ∧ copiesFromDisk e = false ∧
      e.act ≠ .endForward
  | 0, _ => by intro e he; cases he
  | q + 1, hseg => by
    have ih := blocksOf_props N t0 uf cm mx q (fun b hb => hseg b (by omega))
    intro e he
    rw [blocksOf] at he
    rcases mem_cons.1 he with rfl | he
    · simp [writesDisk, copiesFromDisk, blockMove]
    · rcases mem_append.1 he with he | he
      · have hnd := revSeg_noDisk (hseg q (by omega)) e he
        refine ⟨hnd.writes, hnd.copy, ?_⟩
        exact segWith_nospine_noEnd _ _ _ _ _ _ _ _ _ _ _ (hseg q (by omega)) e he
      · exact ih e he
/-- (i)–(iii), for the stream `periodicEvs N cm c = .ok evs`, with `q = (N-2)/mx`. -/
theorem periodic_disk_ops (N cm : Nat) (c : Costs) (mx : Nat) (evs : List Ev) (hN : 1 ≤ N)
    (hmx : mxrr cm c.uf (c.wd + c.rd) = some mx) (h : periodicEvs N cm c = .ok evs) :
    let q := (N - 2) / mx
    -- (i) the first `q` events are the periodic DISK writes, in order; `EndForward` comes later
    evs.take q = (List.range q).map (fun i =>
      (⟨.forward (i * mx) ((i + 1) * mx) true false .disk, (i + 1) * mx, 0⟩ : Ev)) ∧
    (∀ e ∈ evs.take q, writesDisk e = true ∧ e.act ≠ .endForward) ∧
    (∃ e ∈ evs.drop q, e.act = .endForward) ∧
    -- (ii) no other event writes to DISK (in particular none after `EndForward`)
    (∀ e ∈ evs.drop q, writesDisk e = false) ∧
    -- (iii) every DISK checkpoint is loaded exactly once, by a `Move` to WORK, last written first
    evs.filterMap diskMove = (List.range q).reverse.map (fun b => (b * mx, Storage.work)) ∧
    (∀ e ∈ evs, copiesFromDisk e = false) := by
  intro q
  obtain ⟨_, _, _, mid, hmid, hsegs, hevs⟩ := periodic_structure N cm c mx evs hN hmx h
  rw [← blocksOf_eq_flatMap] at hevs
  set t0 := opt0Table (max (N - 1) (mx + 1)) cm c.uf c.ub with ht0
  have hq : q = (N - 2) / mx := rfl
  rw [← hq] at hevs hsegs hmid
  have hlen : ((List.range q).map (sweepEv mx)).length = q := by simp
  have hsw : ∀ e ∈ (List.range q).map (sweepEv mx), writesDisk e = true ∧ e.act ≠ .endForward ∧
      diskMove e = none ∧ copiesFromDisk e = false := by
    intro e he
    obtain ⟨i, _, rfl⟩ := mem_map.1 he
    simp [writesDisk, sweepEv, diskMove, copiesFromDisk]
  have hmidnd := revSeg_noDisk hmid
  have hbl := blocksOf_props N t0 c.uf cm mx q hsegs
  have hassoc : evs = (List.range q).map (sweepEv mx) ++
      (mid ++ blocksOf N t0 c.uf cm mx q ++ [⟨.endReverse, 1, N⟩]) := by
    rw [hevs]; simp only [append_assoc]
  have htake : evs.take q = (List.range q).map (sweepEv mx) := by
    rw [hassoc, take_left' hlen]
  have hdrop : evs.drop q = mid ++ blocksOf N t0 c.uf cm mx q ++ [⟨.endReverse, 1, N⟩] := by
    rw [hassoc, drop_left' hlen]
  refine ⟨by rw [htake]; rfl, ?_, ?_, ?_, ?_, ?_⟩
  · intro e he
    rw [htake] at he
    exact ⟨(hsw e he).1, (hsw e he).2.1⟩
  · obtain ⟨e, he, hact⟩ := segWith_spine_mem N _ cm (fun _ => Storage.ram) false _ _ _ _ _ mid hmid
    exact ⟨e, by rw [hdrop]; exact mem_append_left _ (mem_append_left _ he), hact⟩
  · intro e he
    rw [hdrop] at he
    rcases mem_append.1 he with he | he
    · rcases mem_append.1 he with he | he
      · exact (hmidnd e he).writes
      · exact (hbl e he).1
    · rw [mem_singleton.1 he]; rfl
  · rw [hevs, filterMap_append, filterMap_append, filterMap_append,
      blocksOf_filterMap_diskMove N t0 c.uf cm mx q hsegs]
    have e1 : ((List.range q).map (sweepEv mx)).filterMap diskMove = [] := by
      rw [filterMap_eq_nil_iff]; intro e he; exact (hsw e he).2.2.1
    have e2 : mid.filterMap diskMove = [] := by
      rw [filterMap_eq_nil_iff]; intro e he; exact (hmidnd e he).move
    rw [e1, e2]
    simp [diskMove]
  · intro e he
    rw [hevs] at he
    rcases mem_append.1 he with he | he
    · rcases mem_append.1 he with he | he
      · rcases mem_append.1 he with he | he
        · exact (hsw e he).2.2.2
        · exact (hmidnd e he).copy
      · exact (hbl e he).2.1
    · rw [mem_singleton.1 he]; rfl

/-- (iii) as a multiset statement: the keys moved from DISK are `{i·mx | i < q}`, each once -/
theorem periodic_disk_moves_perm (N cm : Nat) (c : Costs) (mx : Nat) (evs : List Ev) (hN : 1 ≤ N)
    (hmx : mxrr cm c.uf (c.wd + c.rd) = some mx) (h : periodicEvs N cm c = .ok evs) :
    ((evs.filterMap diskMove).map (·.1)).Perm ((List.range ((N - 2) / mx)).map (· * mx)) := by
  rw [(periodic_disk_ops N cm c mx evs hN hmx h).2.2.2.2.1, map_map]
  exact (reverse_perm _).map _

-- a concrete instance: N = 9, one RAM unit, unit costs: period 2, q = 3
example : mxrr 1 1 2 = some 2 ∧ (9 - 2) / 2 = 3 ∧
    (match periodicEvs 9 1 ⟨1, 1, 1, 1⟩ with
      | .ok evs => evs.filterMap diskMove | .error _ => []) = [(4, .work), (2, .work), (0, .work)] := by
  decide +kernel

end Ckpt
