import CkptVerif.Proofs.DiskOneReadG
/-!
# Gap sequences for the one-read-disk lower bound

A plan cuts `[0, a)` at bases `b_1 < b_2 < …`; a base is *consuming* when the state it stands for is
held in a RAM unit while the gaps above it are reversed.  `XiG k s a` prices the gaps of the
sequence `s` of (base, consuming) pairs, the first gap having `k` units.
-/
namespace Ckpt.LB7
open Ckpt.GW

variable (uf wr : Nat)

/-- price of the gaps; a consuming base lowers the unit count of everything above it -/
noncomputable def XiG : Nat → List (Nat × Bool) → Nat → Nat
  | _, [], _ => 0
  | k, [p], a => Gd uf wr k (a - p.1)
  | k, p :: q :: rest, a => Gd uf wr k (q.1 - p.1) + XiG (if p.2 then k - 1 else k) (q :: rest) a

/-- bases increase and stay below `a`; a consuming base that is not the last needs a unit -/
def SeqOk : Nat → List (Nat × Bool) → Nat → Prop
  | _, [], _ => True
  | _, [p], a => p.1 < a
  | k, p :: q :: rest, a => p.1 < q.1 ∧ (p.2 = true → 1 ≤ k) ∧ SeqOk (if p.2 then k - 1 else k) (q :: rest) a

theorem XiG_cons_cons (k : Nat) (p q : Nat × Bool) (rest : List (Nat × Bool)) (a : Nat) :
    XiG uf wr k (p :: q :: rest) a =
      Gd uf wr k (q.1 - p.1) + XiG uf wr (if p.2 then k - 1 else k) (q :: rest) a := rfl

theorem SeqOk_cons_cons (k : Nat) (p q : Nat × Bool) (rest : List (Nat × Bool)) (a : Nat) :
    SeqOk k (p :: q :: rest) a ↔
      p.1 < q.1 ∧ (p.2 = true → 1 ≤ k) ∧ SeqOk (if p.2 then k - 1 else k) (q :: rest) a := Iff.rfl

/-- the next base after the head, or `a` -/
def nextB (rest : List (Nat × Bool)) (a : Nat) : Nat :=
  match rest with | [] => a | q :: _ => q.1

theorem XiG_cons (k : Nat) (p : Nat × Bool) (rest : List (Nat × Bool)) (a : Nat) :
    XiG uf wr k (p :: rest) a =
      Gd uf wr k (nextB rest a - p.1) + XiG uf wr (if p.2 then k - 1 else k) rest a := by
  cases rest with
  | nil => simp [XiG, nextB]
  | cons q rest => rfl

theorem SeqOk_cons (k : Nat) (p : Nat × Bool) (rest : List (Nat × Bool)) (a : Nat) :
    SeqOk k (p :: rest) a ↔
      p.1 < nextB rest a ∧ (p.2 = true → rest ≠ [] → 1 ≤ k) ∧
        SeqOk (if p.2 then k - 1 else k) rest a := by
  cases rest with
  | nil => simp [SeqOk, nextB]
  | cons q rest => simp [SeqOk, nextB]

/-- all bases lie below `a` -/
theorem SeqOk_lt : ∀ (s : List (Nat × Bool)) (k a : Nat), SeqOk k s a → ∀ p ∈ s, p.1 < a := by
  intro s
  induction s with
  | nil => intro k a _ p hp; cases hp
  | cons q rest ih =>
    intro k a h p hp
    rw [SeqOk_cons] at h
    obtain ⟨h1, _, h3⟩ := h
    rcases List.mem_cons.mp hp with rfl | hp'
    · cases rest with
      | nil => exact h1
      | cons r rest' =>
        have := ih _ a h3 r (List.mem_cons_self ..)
        simp only [nextB] at h1
        omega
    · exact ih _ a h3 p hp'

theorem nextB_le (rest : List (Nat × Bool)) (k a : Nat) (h : SeqOk k rest a) : nextB rest a ≤ a := by
  cases rest with
  | nil => exact le_refl _
  | cons q rest => exact le_of_lt (SeqOk_lt _ k a h q (List.mem_cons_self ..))

/-! ## monotonicity: more units, fewer consuming bases -/

/-- same bases, and every consuming base of the first list is consuming in the second -/
inductive FlagLe : List (Nat × Bool) → List (Nat × Bool) → Prop
  | nil : FlagLe [] []
  | cons (b : Nat) (c' c : Bool) (s' s : List (Nat × Bool)) (hc : c' = true → c = true)
      (h : FlagLe s' s) : FlagLe ((b, c') :: s') ((b, c) :: s)

theorem FlagLe.refl : ∀ s : List (Nat × Bool), FlagLe s s := by
  intro s
  induction s with
  | nil => exact FlagLe.nil
  | cons p s ih => exact FlagLe.cons p.1 p.2 p.2 s s (fun h => h) ih

theorem FlagLe.nextB {s' s : List (Nat × Bool)} (h : FlagLe s' s) (a : Nat) : nextB s' a = nextB s a := by
  cases h <;> rfl

theorem FlagLe.ne_nil {s' s : List (Nat × Bool)} (h : FlagLe s' s) : s' ≠ [] → s ≠ [] := by
  cases h <;> simp

theorem XiG_mono : ∀ (s s' : List (Nat × Bool)) (k k' a : Nat), k ≤ k' → FlagLe s' s → SeqOk k s a →
    SeqOk k' s' a ∧ XiG uf wr k' s' a ≤ XiG uf wr k s a := by
  intro s
  induction s with
  | nil =>
    intro s' k k' a _ hf _
    cases hf
    exact ⟨trivial, le_refl _⟩
  | cons p rest ih =>
    intro s' k k' a hk hf hs
    cases hf with
    | cons b c' c rest' _ hc hrest =>
      rw [SeqOk_cons] at hs
      obtain ⟨h1, h2, h3⟩ := hs
      have hk2 : (if c then k - 1 else k) ≤ (if c' then k' - 1 else k') := by
        cases c <;> cases c' <;> simp at hc ⊢ <;> omega
      obtain ⟨ih1, ih2⟩ := ih rest' _ _ a hk2 hrest h3
      rw [SeqOk_cons, XiG_cons, XiG_cons, hrest.nextB a]
      refine ⟨⟨h1, ?_, ih1⟩, ?_⟩
      · intro hc' hne
        have := h2 (hc hc') (hrest.ne_nil hne)
        omega
      · have := Gd_anti' uf wr hk (nextB rest a - b) (by simp only at h1; omega)
        simp only at ih2 ⊢
        omega

theorem XiG_mono_k (s : List (Nat × Bool)) (k k' a : Nat) (hk : k ≤ k') (h : SeqOk k s a) :
    SeqOk k' s a ∧ XiG uf wr k' s a ≤ XiG uf wr k s a :=
  XiG_mono uf wr s s k k' a hk (FlagLe.refl s) h

/-! ## surgery below a prefix -/

/-- A statement about suffixes that start at the same base lifts through any prefix. -/
theorem seq_prefix (d : Nat) (s s' : List (Nat × Bool)) (a : Nat)
    (hnb : ∀ a, nextB s a = nextB s' a) (hne : s = [] ↔ s' = [])
    (h : ∀ k, SeqOk k s a → SeqOk k s' a ∧ XiG uf wr k s' a ≤ XiG uf wr k s a + d) :
    ∀ (A : List (Nat × Bool)) (k : Nat), SeqOk k (A ++ s) a →
      SeqOk k (A ++ s') a ∧ XiG uf wr k (A ++ s') a ≤ XiG uf wr k (A ++ s) a + d := by
  intro A
  induction A with
  | nil => intro k hk; exact h k hk
  | cons p A ih =>
    intro k hk
    rw [List.cons_append, SeqOk_cons] at hk
    obtain ⟨h1, h2, h3⟩ := hk
    obtain ⟨ih1, ih2⟩ := ih _ h3
    have enb : nextB (A ++ s) a = nextB (A ++ s') a := by
      cases A with
      | nil => exact hnb a
      | cons q A' => rfl
    have ene : A ++ s ≠ [] ↔ A ++ s' ≠ [] := by
      cases A with
      | nil => simp only [List.nil_append]; exact not_congr hne
      | cons q A' => simp
    rw [List.cons_append, List.cons_append, SeqOk_cons, XiG_cons, XiG_cons, ← enb]
    refine ⟨⟨h1, fun hc hn => h2 hc (ene.mpr hn), ih1⟩, ?_⟩
    omega

/-! ## removing the base after a base -/

/-- RAM merge: the base below is consuming -/
theorem XiG_remove_P1 (k b x : Nat) (c2 : Bool) (R : List (Nat × Bool)) (a : Nat)
    (h : SeqOk k ((b, true) :: (x, c2) :: R) a) :
    SeqOk k ((b, true) :: R) a ∧
      XiG uf wr k ((b, true) :: R) a ≤ XiG uf wr k ((b, true) :: (x, c2) :: R) a + uf * (x - b) := by
  rw [SeqOk_cons_cons] at h
  obtain ⟨hbx, hk, hrest⟩ := h
  have hk1 : 1 ≤ k := hk rfl
  simp only at hbx hrest
  rw [SeqOk_cons] at hrest
  obtain ⟨hx, _, hR⟩ := hrest
  simp only [if_true] at hR hx ⊢
  obtain ⟨hR1, hR2⟩ := XiG_mono_k uf wr R _ (k - 1) a (by split <;> omega) hR
  have hnb := nextB_le R _ a hR
  rw [SeqOk_cons, XiG_cons, XiG_cons_cons, XiG_cons]
  simp only [if_true]
  refine ⟨⟨by omega, fun _ _ => hk1, hR1⟩, ?_⟩
  obtain ⟨k0, rfl⟩ : ∃ k0, k = k0 + 1 := ⟨k - 1, by omega⟩
  have hp := Gd_P1 uf wr k0 (nextB R a - b) (x - b) (by omega) (by omega)
  have e : nextB R a - b - (x - b) = nextB R a - x := by omega
  rw [e] at hp
  simp only [Nat.add_sub_cancel] at hR2 ⊢
  omega

/-- disk merge: costs a disk checkpoint -/
theorem XiG_remove_P2 (k b x : Nat) (c c2 : Bool) (R : List (Nat × Bool)) (a : Nat)
    (h : SeqOk k ((b, c) :: (x, c2) :: R) a) :
    SeqOk k ((b, c) :: R) a ∧
      XiG uf wr k ((b, c) :: R) a ≤ XiG uf wr k ((b, c) :: (x, c2) :: R) a + (wr + uf * (x - b)) := by
  rw [SeqOk_cons_cons] at h
  obtain ⟨hbx, hk, hrest⟩ := h
  simp only at hbx hk hrest
  rw [SeqOk_cons] at hrest
  obtain ⟨hx, _, hR⟩ := hrest
  simp only at hR hx
  obtain ⟨hR1, hR2⟩ := XiG_mono_k uf wr R _ (if c then k - 1 else k) a (by split <;> omega) hR
  have hnb := nextB_le R _ a hR
  rw [SeqOk_cons, XiG_cons, XiG_cons_cons, XiG_cons]
  simp only
  refine ⟨⟨by omega, fun hc _ => hk hc, hR1⟩, ?_⟩
  have hp := Gd_P2 uf wr k (nextB R a - b) (x - b) (by omega) (by omega)
  have e : nextB R a - b - (x - b) = nextB R a - x := by omega
  rw [e] at hp
  have ha := Gd_anti' uf wr (show (if c then k - 1 else k) ≤ k by split <;> omega) (nextB R a - x) (by omega)
  omega

/-! ## moving a consuming flag upwards -/

theorem XiG_bubble_step (k x y : Nat) (R : List (Nat × Bool)) (a : Nat)
    (h : SeqOk k ((x, true) :: (y, false) :: R) a) :
    SeqOk k ((x, false) :: (y, true) :: R) a ∧
      XiG uf wr k ((x, false) :: (y, true) :: R) a ≤ XiG uf wr k ((x, true) :: (y, false) :: R) a := by
  rw [SeqOk_cons_cons] at h
  obtain ⟨hxy, hk, hrest⟩ := h
  have hk1 : 1 ≤ k := hk rfl
  simp only [if_true] at hxy hrest
  rw [SeqOk_cons] at hrest
  obtain ⟨hy, _, hR⟩ := hrest
  simp only [Bool.false_eq_true, if_false] at hR hy
  rw [SeqOk_cons_cons, XiG_cons_cons, XiG_cons_cons, SeqOk_cons, XiG_cons, XiG_cons]
  simp only [Bool.false_eq_true, if_false, if_true]
  refine ⟨⟨hxy, by simp, hy, fun _ _ => hk1, hR⟩, ?_⟩
  have hnb := nextB_le R _ a hR
  have := Gd_anti' uf wr (show k - 1 ≤ k by omega) (nextB R a - y) (by omega)
  omega

/-- a consuming flag moves up past non-consuming bases -/
theorem XiG_bubble : ∀ (M : List (Nat × Bool)), (∀ p ∈ M, p.2 = false) →
    ∀ (k x y : Nat) (R : List (Nat × Bool)) (a : Nat),
    SeqOk k ((x, true) :: M ++ (y, false) :: R) a →
    SeqOk k ((x, false) :: M ++ (y, true) :: R) a ∧
      XiG uf wr k ((x, false) :: M ++ (y, true) :: R) a ≤
        XiG uf wr k ((x, true) :: M ++ (y, false) :: R) a := by
  intro M
  induction M with
  | nil =>
    intro _ k x y R a h
    exact XiG_bubble_step uf wr k x y R a h
  | cons m M ih =>
    intro hM k x y R a h
    obtain ⟨mb, mc⟩ := m
    have hmc : mc = false := hM (mb, mc) (List.mem_cons_self ..)
    subst hmc
    -- first step: swap with `m`
    have h1 := XiG_bubble_step uf wr k x mb (M ++ (y, false) :: R) a (by simpa using h)
    -- then continue from `m`
    have hok := h1.1
    rw [SeqOk_cons_cons] at hok
    obtain ⟨hx, _, hrest⟩ := hok
    simp only [Bool.false_eq_true, if_false] at hrest hx
    obtain ⟨i1, i2⟩ := ih (fun p hp => hM p (List.mem_cons_of_mem _ hp)) k mb y R a
      (by rw [List.cons_append]; exact hrest)
    rw [List.cons_append] at i1 i2
    rw [List.cons_append] at i2
    have e1 : (x, false) :: ((mb, false) :: M) ++ (y, true) :: R
        = (x, false) :: (mb, false) :: (M ++ (y, true) :: R) := by simp
    have e2 : (x, true) :: ((mb, false) :: M) ++ (y, false) :: R
        = (x, true) :: (mb, false) :: (M ++ (y, false) :: R) := by simp
    rw [e1, e2]
    have h1b := h1.2
    rw [XiG_cons_cons] at h1b ⊢
    rw [SeqOk_cons_cons]
    simp only [Bool.false_eq_true, if_false] at h1b ⊢
    refine ⟨⟨hx, by simp, i1⟩, ?_⟩
    omega

/-! ## one more single step on top -/

def countT (s : List (Nat × Bool)) : Nat := (s.filter (fun p => p.2)).length

theorem countT_cons (p : Nat × Bool) (s : List (Nat × Bool)) :
    countT (p :: s) = (if p.2 then 1 else 0) + countT s := by
  unfold countT
  rw [List.filter_cons]
  split <;> simp <;> omega

theorem XiG_snoc : ∀ (s : List (Nat × Bool)) (k a : Nat), 1 ≤ a → SeqOk k s (a - 1) → countT s ≤ k →
    SeqOk k (s ++ [(a - 1, true)]) a ∧
      XiG uf wr k (s ++ [(a - 1, true)]) a = XiG uf wr k s (a - 1) + uf := by
  intro s
  induction s with
  | nil =>
    intro k a ha _ _
    refine ⟨by show a - 1 < a; omega, ?_⟩
    show Gd uf wr k (a - (a - 1)) = 0 + uf
    have : a - (a - 1) = 1 := by omega
    rw [this, Gd_one]; omega
  | cons p rest ih =>
    intro k a ha hs hc
    rw [SeqOk_cons] at hs
    obtain ⟨h1, h2, h3⟩ := hs
    rw [countT_cons] at hc
    have hc' : countT rest ≤ (if p.2 then k - 1 else k) := by split <;> simp_all <;> omega
    obtain ⟨i1, i2⟩ := ih _ a ha h3 hc'
    have enb : nextB (rest ++ [(a - 1, true)]) a = nextB rest (a - 1) := by
      cases rest <;> rfl
    rw [List.cons_append, SeqOk_cons, XiG_cons, XiG_cons, enb, i2]
    refine ⟨⟨h1, ?_, i1⟩, by omega⟩
    intro hp _
    rw [if_pos hp] at hc
    omega

end Ckpt.LB7
