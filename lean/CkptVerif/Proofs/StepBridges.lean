import CkptVerif.Proofs.MultistageSteps
import CkptVerif.Proofs.MixedSteps
import CkptVerif.Proofs.MultistageE2E
import CkptVerif.Model.Online
/-!
# Step counts at the level of the schedule classes

(a) the two definitions of "number of forward steps of a stream" agree;
(b) `MultistageCheckpointSchedule(N, ram, disk)`: the stream performs exactly
`N + optimal_extra_steps(N, min(ram + disk, N - 1))` forward steps — the value of
`optimal_steps_binomial(N, ram + disk)` — independent of the split into RAM and disk units and of
the trajectory;
(c) `TwoLevelCheckpointSchedule(p, b)`: every period block of length `L` is recomputed with exactly the
binomial optimum `L + optimal_extra_steps(L, min(b + 1, L - 1))` forward steps.
-/
namespace Ckpt.GW

/-! ## (a) the two definitions of `fwdSteps` -/

theorem evFwd_eq_fwdLen (e : Ev) : evFwd e = e.fwdLen := rfl

theorem fwdSteps_bridge (evs : List Ev) : Ckpt.fwdSteps evs = GW.fwdSteps evs := by
  rw [fwdSteps_eq_sum]
  rfl

/-! ## (b) Multistage -/

theorem clampS_min (N s : Nat) : clampS N (min s (N - 1)) = clampS N s := by
  unfold clampS; omega

/-- what `multistageEvs` returns: the segment stream for `min (ram + disk) (N - 1)` units and the
labelling computed by `__init__` -/
theorem multistageEvs_ok (N ram disk : Nat) (traj : Traj) (hN : 1 ≤ N) (evs : List Ev)
    (h : multistageEvs N ram disk traj = .ok evs) :
    ∃ storage, multistageStorage N ram disk traj = some storage ∧
      (∀ x ∈ storage, x.isStore = true) ∧
      storage.length = min (ram + disk) (N - 1) ∧
      multistageSeg N (min (ram + disk) (N - 1)) (fun d => storage.getD d .none) traj = some evs := by
  obtain ⟨storage, hsto, hst, _, _, hlen⟩ := multistageStorage_spec N ram disk traj hN
  refine ⟨storage, hsto, hst, hlen, ?_⟩
  unfold multistageEvs at h
  rw [if_neg (by omega), hsto] at h
  simp only at h
  split at h
  · cases h
  · rw [hlen] at h
    cases hseg : multistageSeg N (min (ram + disk) (N - 1)) (fun d => storage.getD d .none) traj with
    | none => rw [hseg] at h; cases h
    | some evs' =>
      rw [hseg] at h
      injection h with h
      rw [h]

theorem multistage_fwdSteps (N ram disk : Nat) (traj : Traj)
    (hv : validMultistage N ram disk = true) (evs : List Ev)
    (h : multistageEvs N ram disk traj = .ok evs) :
    GW.fwdSteps evs = N + extraCell N (clampS N (ram + disk)) := by
  simp only [validMultistage, Bool.and_eq_true, Bool.or_eq_true, decide_eq_true_eq] at hv
  obtain ⟨h1, hunit⟩ := hv
  obtain ⟨storage, _, _, _, hseg⟩ := multistageEvs_ok N ram disk traj h1 evs h
  rw [multistageSeg_fwdSteps N _ _ traj evs hseg h1 (by intro h2; rcases hunit with h' | h' <;> omega),
    clampS_min]

/-- the number of forward steps depends on `ram + disk` only: not on the split, not on the trajectory -/
theorem multistage_fwdSteps_split_indep (N ram disk ram' disk' : Nat) (traj traj' : Traj)
    (hv : validMultistage N ram disk = true) (hv' : validMultistage N ram' disk' = true)
    (hsum : ram + disk = ram' + disk') (evs evs' : List Ev)
    (h : multistageEvs N ram disk traj = .ok evs) (h' : multistageEvs N ram' disk' traj' = .ok evs') :
    GW.fwdSteps evs = GW.fwdSteps evs' := by
  rw [multistage_fwdSteps N ram disk traj hv evs h, multistage_fwdSteps N ram' disk' traj' hv' evs' h',
    hsum]

/-- the stream performs the number of forward steps published by `optimal_steps_binomial` -/
theorem multistage_fwdSteps_optimal (N ram disk : Nat) (traj : Traj)
    (hv : validMultistage N ram disk = true) (evs : List Ev)
    (h : multistageEvs N ram disk traj = .ok evs) :
    optimalStepsBinomial N (ram + disk) = some (GW.fwdSteps evs) := by
  rw [multistage_fwdSteps N ram disk traj hv evs h]
  simp only [validMultistage, Bool.and_eq_true, Bool.or_eq_true, decide_eq_true_eq] at hv
  obtain ⟨h1, hunit⟩ := hv
  have hk : validKey N (clampS N (ram + disk)) = true := by
    rw [validKey_iff]
    unfold clampS
    rcases hunit with h' | h' <;> omega
  unfold optimalStepsBinomial extraSpec
  simp only [hk, if_true, Option.map_some]

/-- with the other definition of `fwdSteps` -/
theorem multistage_fwdSteps' (N ram disk : Nat) (traj : Traj)
    (hv : validMultistage N ram disk = true) (evs : List Ev)
    (h : multistageEvs N ram disk traj = .ok evs) :
    Ckpt.fwdSteps evs = N + extraCell N (clampS N (ram + disk)) := by
  rw [fwdSteps_bridge]; exact multistage_fwdSteps N ram disk traj hv evs h

/-- 10 steps, 1 RAM + 2 disk units: 25 forward steps; so for 3 + 0, 0 + 3, … -/
example (traj : Traj) (evs : List Ev) (h : multistageEvs 10 1 2 traj = .ok evs) :
    GW.fwdSteps evs = 25 := by
  rw [multistage_fwdSteps 10 1 2 traj (by decide) evs h]
  have : clampS 10 (1 + 2) = 3 := by decide
  rw [this]
  have := extraCell_closed 10 3 2 (by decide) (by decide) (by decide) (by decide) (by decide) (by decide)
  have e : Nat.choose (3 + 2) (2 - 1) = 5 := by decide
  omega

example : (match multistageEvs 6 1 2 .revolve with | .ok evs => some (GW.fwdSteps evs) | _ => none) =
    (match multistageEvs 6 2 1 .maximum with | .ok evs => some (GW.fwdSteps evs) | _ => none) := by
  decide

/-! ## (c) TwoLevel -/

/-- one period block `[lo, hi)`: the binomial optimum for `hi - lo` steps and `b + 1` units (the periodic
disk checkpoint at `lo` plus the `b` binomial snapshots), whatever the labelling, the fuel, `persist` -/
theorem block_fwdSteps (N b : Nat) (alloc : Nat → Storage) (persist : Bool) (traj : Traj)
    (fuel : Nat) (stored spine : Bool) (lo hi : Nat) (seg : List Ev)
    (h : segWith N (fun m k => nAdvance m k traj) (b + 1) alloc persist fuel stored spine lo hi 0 = some seg)
    (hlt : lo < hi) :
    GW.fwdSteps seg = (hi - lo) + extraCell (hi - lo) (clampS (hi - lo) (b + 1)) := by
  have := segWith_fwdSteps' (nAdvance_attainsMin traj) h hlt (Or.inr (by omega))
  rw [Nat.sub_zero] at this
  exact this

/-- length of the `j`-th period block -/
def blockLen (N p j : Nat) : Nat := min (j * p + p) N - j * p

theorem blockLen_full (N p j : Nat) (h : (j + 1) * p ≤ N) : blockLen N p j = p := by
  unfold blockLen
  have : (j + 1) * p = j * p + p := by rw [Nat.add_mul, Nat.one_mul]
  omega

theorem blockLen_pos (N p j : Nat) (hp : 1 ≤ p) (h : j * p < N) : 1 ≤ blockLen N p j := by
  unfold blockLen; omega

/-- the binomial optimum for one block -/
def blockOpt (N p b j : Nat) : Nat :=
  blockLen N p j + extraCell (blockLen N p j) (clampS (blockLen N p j) (b + 1))

theorem block_index_lt (N p q j : Nat) (hp : 1 ≤ p) (hq : q ≤ (N + p - 1) / p) (hj : j < q) :
    j * p < N := by
  have h1 : j + 1 ≤ (N + p - 1) / p := by omega
  have h2 := (Nat.le_div_iff_mul_le (by omega)).1 h1
  have : (j + 1) * p = j * p + p := by rw [Nat.add_mul, Nat.one_mul]
  omega

/-- **All blocks of one adjoint calculation**: block `j` performs `blockOpt N p b j` forward steps -/
theorem twoLevelBlocks_fwdSteps (N p b : Nat) (st : Storage) (traj : Traj) (hp : 1 ≤ p) :
    ∀ (q : Nat) (evs : List Ev), q ≤ (N + p - 1) / p →
      twoLevelBlocks N p b st traj q = some evs →
      GW.fwdSteps evs = ((List.range q).map (blockOpt N p b)).sum := by
  intro q
  induction q with
  | zero =>
    intro evs _ h
    have : evs = [] := by
      unfold twoLevelBlocks at h; exact (Option.some.inj h).symm
    subst this; rfl
  | succ q ih =>
    intro evs hq h
    unfold twoLevelBlocks at h
    dsimp only at h
    cases hseg : segWith N (fun m k => nAdvance m k traj) (b + 1)
        (fun d => if d = 0 then Storage.disk else st) true (min (q * p + p) N - q * p + 1) true false
        (q * p) (min (q * p + p) N) 0 with
    | none => rw [hseg] at h; cases h
    | some seg =>
      rw [hseg] at h
      dsimp only at h
      cases hrest : twoLevelBlocks N p b st traj q with
      | none => rw [hrest] at h; cases h
      | some rest =>
        rw [hrest] at h
        have h' := Option.some.inj h
        subst h'
        have hlt : q * p < min (q * p + p) N := by
          have := block_index_lt N p (q + 1) q hp hq (by omega)
          omega
        rw [fwdSteps_append, block_fwdSteps N b _ true traj _ true false _ _ seg hseg hlt,
          ih rest (by omega) hrest, List.range_succ, List.map_append, List.sum_append]
        simp only [List.map_cons, List.map_nil, List.sum_cons, List.sum_nil, Nat.add_zero]
        unfold blockOpt blockLen
        omega

/-- the whole reverse pass of `TwoLevelCheckpointSchedule` for `max_n = N` -/
theorem twoLevelPass_fwdSteps (N p b : Nat) (st : Storage) (traj : Traj) (hp : 1 ≤ p)
    (evs : List Ev) (h : twoLevelBlocks N p b st traj ((N + p - 1) / p) = some evs) :
    GW.fwdSteps (twoLevelPass N p b st traj) =
      ((List.range ((N + p - 1) / p)).map (blockOpt N p b)).sum := by
  unfold twoLevelPass
  rw [h]
  dsimp only
  rw [fwdSteps_append, twoLevelBlocks_fwdSteps N p b st traj hp _ evs (Nat.le_refl _) h]
  rfl

/-- the forward sweep before finalisation: `Forward(n, n + p, True, False, DISK)` -/
theorem twoLevelSched_fwdEv (p b : Nat) (st : Storage) (traj : Traj) (s : Sched)
    (h : twoLevelSched p b st traj = .ok s) (n : Nat) :
    (s.fwdEv n).act = .forward n (n + p) true false .disk ∧ (s.fwdEv n).n = n + p := by
  unfold twoLevelSched at h
  split at h
  · cases h
  · split at h
    · cases h
    · injection h with h
      subst h
      exact ⟨rfl, rfl⟩

/-- `N = 10`, period 4, 1 binomial snapshot: blocks of lengths 4, 4, 2 -/
example : (List.range 3).map (blockLen 10 4) = [4, 4, 2] := by decide

example : (twoLevelBlocks 10 4 1 .ram .revolve 3).map GW.fwdSteps = some (8 + 8 + 3) := by decide

end Ckpt.GW
