import CkptVerif.Proofs.HRevolveLBFullGameRun
/-!
# Every accepted stream is a play of the pebble game: `Copy`/`Move`, the whole stream, the reduction
-/
namespace Ckpt.LB7
open Ckpt.RC Ckpt.GW Ckpt.Mean Ckpt.HLB

/-- everything the executor checks for an accepted `Copy`/`Move` -/
theorem load_facts {cfg : Cfg} {x : XS} {n : Nat} {src dst : Storage}
    (h : actViols.loadViols cfg x n src dst = []) :
    src.isStore = true ∧ n < cfg.N - x.r ∧ ∃ cp, findCp x.cps n src = some cp ∧
      (dst = .work → x.wDeps = none) ∧
      (dst.isStore = true → findCp x.cps n dst = none ∧
        withinBudget cfg ({ cp with st := dst } :: x.cps) = true) := by
  have ha := load_alive h
  obtain ⟨cp, hf, hw, hb⟩ := load_clean h
  simp only [actViols.loadViols, List.append_eq_nil_iff, chk_nil_iff] at h
  obtain ⟨⟨h1, _⟩, h3⟩ := h
  refine ⟨h1, ha, cp, hf, hw, fun hs => ⟨?_, hb hs⟩⟩
  rw [hf] at h3
  simp only [List.append_eq_nil_iff, chk_nil_iff] at h3
  obtain ⟨_, h5⟩ := h3
  rw [if_pos hs] at h5
  simp only [List.append_eq_nil_iff, chk_nil_iff] at h5
  simpa using h5.1

theorem stk_mem {x : XS} {cp : Cp} (h : cp ∈ x.cps) : (cp.n, decide (cp.st = .disk)) ∈ stk x := by
  unfold stk; exact List.mem_map.mpr ⟨cp, h, rfl⟩

/-- `Copy` (`keep = true`) and `Move` (`keep = false`) -/
theorem step_cmG {c : Costs} {c0 c1 N : Nat} {x : XS}
    (hinv : GW.Inv (cfgHRevolve c0 c1 N) (c0 + c1) x) (hinv2 : Inv2 c0 c1 x)
    {n : Nat} {src dst : Storage} (keep : Bool)
    (h : actViols.loadViols (cfgHRevolve c0 c1 N) x n src dst = []) (x' : XS)
    (hx' : ∀ cp, findCp x.cps n src = some cp → x' =
      (let cps0 := if keep then x.cps else eraseCp x.cps n src
       let cps := if dst.isStore then { cp with st := dst } :: cps0 else cps0
       if dst = .work then
         { x with cps := cps, fwd := if cp.ics > 0 then some n else none,
                  wIcs := if cp.ics > 0 then some (n, n + cp.ics) else none,
                  wDeps := if cp.deps > 0 then some (n, n + cp.deps) else none }
       else { x with cps := cps })) :
    ∀ m, PotG c c0 c1 (cfgHRevolve c0 c1 N) x' m →
      PotG c c0 c1 (cfgHRevolve c0 c1 N) x
        (m + ((if src = .disk then c.rd else 0) + (if dst = .disk then c.wd else 0))) := by
  set cfg := cfgHRevolve c0 c1 N with hcfg
  obtain ⟨hsrc, ha, cp, hf, hw, hst⟩ := load_facts h
  obtain ⟨hmem, hn, hs⟩ := findCp_mem hf
  have hx := hx' cp hf
  have hd0 := (hinv.cps cp hmem).1
  have hics := hinv2.ics cp hmem
  have hsub0 : ((if keep then x.cps else eraseCp x.cps n src).map
      (fun cp => (cp.n, decide (cp.st = .disk)))).Sublist (stk x) := by
    unfold stk
    cases keep
    · exact (eraseCp_sublist _ _ _).map _
    · exact List.Sublist.refl _
  have htok : (n, decide (src = .disk)) ∈ stk x := by rw [← hn, ← hs]; exact stk_mem hmem
  by_cases hdw : dst = .work
  · -- a load
    subst hdw
    have hwn := hw rfl
    simp only [Storage.isStore, Bool.false_eq_true, if_false, if_true] at hx
    have e_fwd : x'.fwd = some n := by rw [hx]; simp [hics]
    have e_deps : x'.wDeps = none := by rw [hx]; simp [hd0]
    have e_r : x'.r = x.r := by rw [hx]
    have e_stk : (stk x').Sublist (stk x) := by
      have : stk x' = (if keep then x.cps else eraseCp x.cps n src).map
          (fun cp => (cp.n, decide (cp.st = .disk))) := by unfold stk; rw [hx]
      rw [this]; exact hsub0
    have hnf : ¬ Flagged cfg x := by rintro ⟨_, hd⟩; rw [hwn] at hd; cases hd
    have hnf' : ¬ Flagged cfg x' := by rintro ⟨_, hd⟩; rw [e_deps] at hd; cases hd
    intro m hp
    have hr := hp.2 hnf'
    rw [e_r, e_fwd] at hr
    refine ⟨fun hf' => absurd hf' hnf, fun _ => ?_⟩
    have s1 := GStep.load (c := c) (c0 := c0) (c1 := c1) (cfg.N - x.r) (stk x) x.fwd n
      (decide (src = .disk)) htok ha
    have s2 := GStep.drop (c := c) (c0 := c0) (c1 := c1) (cfg.N - x.r) (stk x) (stk x') (some n) e_stk
    refine Game.step' s1 (Game.step' s2 hr rfl) ?_
    have : (if decide (src = .disk) = true then c.rd else 0) = (if src = .disk then c.rd else 0) := by
      by_cases hd : src = .disk <;> simp [hd]
    rw [this]; simp
  · by_cases hds : dst.isStore = true
    · -- a transfer into the other level
      obtain ⟨hnone, hbud⟩ := hst hds
      have hne : src ≠ dst := by intro e; rw [e] at hf; rw [hf] at hnone; cases hnone
      simp only [hds, if_true, hdw, if_false] at hx
      have hbud' := (Ckpt.Mean.withinBudget_iff.mp hbud)
      have hcR := hbud'.1 c0 rfl
      have hcD := hbud'.2 c1 rfl
      rw [Ckpt.Mean.countSt_cons] at hcR hcD
      have hR : nR (stk x) = countSt x.cps .ram := nR_map x.cps (fun cp hcp => (hinv.cps cp hcp).2)
      have hD : nD (stk x) = countSt x.cps .disk := nD_map x.cps (fun cp hcp => (hinv.cps cp hcp).2)
      have hflip : (!decide (src = .disk)) = decide (dst = .disk) := by
        cases src <;> cases dst <;> simp_all [Storage.isStore]
      have hcap : if decide (src = .disk) then nR (stk x) + 1 ≤ c0 else nD (stk x) + 1 ≤ c1 := by
        cases src <;> cases dst <;> simp_all [Storage.isStore] <;> omega
      have hcost : (if src = .disk then c.rd else 0) + (if dst = .disk then c.wd else 0) =
          (if decide (src = .disk) then c.rd else c.wd) := by
        cases src <;> cases dst <;> simp_all [Storage.isStore]
      rw [hcost]
      intro m
      refine potG_lift (x := x) (x' := x') (by rw [hx]) (by rw [hx]) _ m ?_
      intro a hg
      have e_fwd : x'.fwd = x.fwd := by rw [hx]
      have e_stk : stk x' = (n, decide (dst = .disk)) ::
          (if keep then x.cps else eraseCp x.cps n src).map (fun cp => (cp.n, decide (cp.st = .disk))) := by
        unfold stk; rw [hx]; simp [hn]
      rw [e_fwd, e_stk] at hg
      have s1 := GStep.xfer (c := c) (c0 := c0) (c1 := c1) a (stk x) x.fwd n (decide (src = .disk)) htok hcap
      rw [hflip] at s1
      have s2 := GStep.drop (c := c) (c0 := c0) (c1 := c1) a ((n, decide (dst = .disk)) :: stk x) _ x.fwd
        (hsub0.cons_cons (n, decide (dst = .disk)))
      exact Game.step' s1 (Game.step' s2 hg rfl) (by omega)
    · -- nothing is loaded
      have hds' : dst.isStore = false := by simpa using hds
      simp only [hds', Bool.false_eq_true, if_false, hdw] at hx
      intro m
      refine potG_lift (x := x) (x' := x') (by rw [hx]) (by rw [hx]) _ m ?_
      intro a hg
      have e_fwd : x'.fwd = x.fwd := by rw [hx]
      have e_stk : (stk x').Sublist (stk x) := by
        have : stk x' = (if keep then x.cps else eraseCp x.cps n src).map
            (fun cp => (cp.n, decide (cp.st = .disk))) := by unfold stk; rw [hx]
        rw [this]; exact hsub0
      rw [e_fwd] at hg
      have s2 := GStep.drop (c := c) (c0 := c0) (c1 := c1) a (stk x) (stk x') x.fwd e_stk
      have := Game.weaken (Game.step' s2 hg rfl)
        ((if src = .disk then c.rd else 0) + (if dst = .disk then c.wd else 0))
      simpa using this

end Ckpt.LB7

namespace Ckpt.LB7
open Ckpt.RC Ckpt.GW Ckpt.Mean Ckpt.HLB

/-- the storage invariant under an accepted `Copy`/`Move` -/
theorem inv2_cm {c0 c1 N : Nat} {x : XS}
    (hinv2 : Inv2 c0 c1 x) {n : Nat} {src dst : Storage} (keep : Bool)
    (h : actViols.loadViols (cfgHRevolve c0 c1 N) x n src dst = []) (x' : XS)
    (hx' : ∀ cp, findCp x.cps n src = some cp → x'.cps =
      (let cps0 := if keep then x.cps else eraseCp x.cps n src
       if dst.isStore then { cp with st := dst } :: cps0 else cps0)) :
    Inv2 c0 c1 x' := by
  obtain ⟨_, _, cp, hf, _, hst⟩ := load_facts h
  obtain ⟨hmem, hn, hs⟩ := findCp_mem hf
  have hx := hx' cp hf
  have hsub0 : (if keep then x.cps else eraseCp x.cps n src).Sublist x.cps := by
    cases keep
    · exact eraseCp_sublist _ _ _
    · exact List.Sublist.refl _
  by_cases hds : dst.isStore = true
  · obtain ⟨hnone, hbud⟩ := hst hds
    simp only [hds, if_true] at hx
    have hbud' := (Ckpt.Mean.withinBudget_iff.mp hbud)
    have hcR := hbud'.1 c0 rfl
    have hcD := hbud'.2 c1 rfl
    rw [Ckpt.Mean.countSt_cons] at hcR hcD
    refine ⟨?_, ?_, ?_, ?_⟩
    · rw [hx, Ckpt.Mean.countSt_cons]
      have := countSt_sublist hsub0 .ram
      simp only at hcR ⊢; omega
    · rw [hx, Ckpt.Mean.countSt_cons]
      have := countSt_sublist hsub0 .disk
      simp only at hcD ⊢; omega
    · intro c' hc'
      rw [hx] at hc'
      rcases List.mem_cons.mp hc' with rfl | hc'
      · exact hinv2.ics cp hmem
      · exact hinv2.ics c' (hsub0.subset hc')
    · rw [hx, List.map_cons, List.nodup_cons]
      refine ⟨?_, (hsub0.map _).nodup hinv2.keys⟩
      intro hmem'
      obtain ⟨c', hc', hkey⟩ := List.mem_map.mp hmem'
      simp only [Prod.mk.injEq] at hkey
      unfold findCp at hnone
      rw [List.find?_eq_none] at hnone
      have := hnone c' (hsub0.subset hc')
      simp [hkey.1, hkey.2, hn] at this
  · have hds' : dst.isStore = false := by simpa using hds
    simp only [hds', Bool.false_eq_true, if_false] at hx
    have : x'.cps.Sublist x.cps := by rw [hx]; exact hsub0
    exact inv2_of_sublist this hinv2

theorem step_copyG {c : Costs} {c0 c1 N : Nat} {x : XS}
    (hinv : GW.Inv (cfgHRevolve c0 c1 N) (c0 + c1) x) (hinv2 : Inv2 c0 c1 x)
    {n : Nat} {src dst : Storage} (h : actViols (cfgHRevolve c0 c1 N) x (.copy n src dst) = []) :
    Inv2 c0 c1 (nextState (cfgHRevolve c0 c1 N) x (.copy n src dst)) ∧
    ∀ m, PotG c c0 c1 (cfgHRevolve c0 c1 N) (nextState (cfgHRevolve c0 c1 N) x (.copy n src dst)) m →
      PotG c c0 c1 (cfgHRevolve c0 c1 N) x (m + actCostF c (.copy n src dst)) := by
  have hcost : actCostF c (.copy n src dst) =
      (if src = .disk then c.rd else 0) + (if dst = .disk then c.wd else 0) := by
    simp [actCostF, actCostT, actCost, transfersToDisk]
  rw [hcost]
  refine ⟨inv2_cm hinv2 true h _ ?_, step_cmG hinv hinv2 true h _ ?_⟩
  · intro cp hf
    simp only [nextState, hf]
    by_cases hdw : dst = .work <;> simp [hdw]
  · intro cp hf
    simp only [nextState, hf]
    simp

theorem step_moveG {c : Costs} {c0 c1 N : Nat} {x : XS}
    (hinv : GW.Inv (cfgHRevolve c0 c1 N) (c0 + c1) x) (hinv2 : Inv2 c0 c1 x)
    {n : Nat} {src dst : Storage} (h : actViols (cfgHRevolve c0 c1 N) x (.move n src dst) = []) :
    Inv2 c0 c1 (nextState (cfgHRevolve c0 c1 N) x (.move n src dst)) ∧
    ∀ m, PotG c c0 c1 (cfgHRevolve c0 c1 N) (nextState (cfgHRevolve c0 c1 N) x (.move n src dst)) m →
      PotG c c0 c1 (cfgHRevolve c0 c1 N) x (m + actCostF c (.move n src dst)) := by
  have hcost : actCostF c (.move n src dst) =
      (if src = .disk then c.rd else 0) + (if dst = .disk then c.wd else 0) := by
    simp [actCostF, actCostT, actCost, transfersToDisk]
  rw [hcost]
  refine ⟨inv2_cm hinv2 false h _ ?_, step_cmG hinv hinv2 false h _ ?_⟩
  · intro cp hf
    simp only [nextState, hf]
    by_cases hdw : dst = .work <;> simp [hdw]
  · intro cp hf
    simp only [nextState, hf]
    simp

end Ckpt.LB7

namespace Ckpt.LB7
open Ckpt.RC Ckpt.GW Ckpt.Mean Ckpt.HLB

/-- **one accepted step is a (possibly empty) sequence of moves of the game**, at the same cost -/
theorem step_potG {c : Costs} {c0 c1 N : Nat} {x : XS}
    (hinv : GW.Inv (cfgHRevolve c0 c1 N) (c0 + c1) x) (hinv2 : Inv2 c0 c1 x) (o : Obs)
    (hclean : stepViols (cfgHRevolve c0 c1 N) x o = []) (hnd : storesDeps o.act = false) :
    Inv2 c0 c1 (nextState (cfgHRevolve c0 c1 N) x o.act) ∧
    ∀ m, PotG c c0 c1 (cfgHRevolve c0 c1 N) (nextState (cfgHRevolve c0 c1 N) x o.act) m →
      PotG c c0 c1 (cfgHRevolve c0 c1 N) x (m + actCostF c o.act) := by
  unfold stepViols at hclean
  simp only [List.append_eq_nil_iff] at hclean
  obtain ⟨⟨_, hact⟩, _⟩ := hclean
  cases ho : o.act with
  | forward n0 n1 wi wa st =>
    rw [ho] at hact hnd
    exact ⟨(step_forwardH (c := c) hinv hinv2 hact hnd).1, step_forwardG hinv hact⟩
  | reverse n1 n0 cl =>
    rw [ho] at hact
    exact ⟨(step_reverseH (c := c) hinv hinv2 hact).1, step_reverseG hinv hact⟩
  | copy n src dst =>
    rw [ho] at hact
    exact step_copyG hinv hinv2 hact
  | move n src dst =>
    rw [ho] at hact
    exact step_moveG hinv hinv2 hact
  | endForward =>
    refine ⟨(step_endForwardH (c := c) (N := N) hinv2).1, ?_⟩
    have hc : actCostF c .endForward = 0 := by simp [actCostF, actCostT, actCost, transfersToDisk]
    rw [hc]
    intro m
    exact potG_lift (x := x) (x' := nextState (cfgHRevolve c0 c1 N) x .endForward) rfl rfl 0 m
      (fun a hg => by
        have e1 : stk (nextState (cfgHRevolve c0 c1 N) x .endForward) = stk x := rfl
        have e2 : (nextState (cfgHRevolve c0 c1 N) x .endForward).fwd = x.fwd := rfl
        rw [e1, e2] at hg
        exact hg)
  | endReverse =>
    refine ⟨(step_endReverseH (c := c) (N := N) hinv2).1, ?_⟩
    have hc : actCostF c .endReverse = 0 := by simp [actCostF, actCostT, actCost, transfersToDisk]
    rw [hc]
    have e : nextState (cfgHRevolve c0 c1 N) x .endReverse = { x with done := x.done + 1 } := by
      have hp : (cfgHRevolve c0 c1 N).passes = some 1 := rfl
      simp only [nextState, hp]
      have : decide (x.done + 1 < 1) = false := by simp
      rw [this]
      rfl
    rw [e]
    intro m
    exact potG_lift (x := x) (x' := { x with done := x.done + 1 }) rfl rfl 0 m
      (fun a hg => by
        have e1 : stk { x with done := x.done + 1 } = stk x := rfl
        rw [e1] at hg
        exact hg)

theorem run_potG {c : Costs} {c0 c1 N : Nat} (os : List Obs) :
    ∀ (i : Nat) (x : XS), GW.Inv (cfgHRevolve c0 c1 N) (c0 + c1) x → Inv2 c0 c1 x →
      (runFrom (cfgHRevolve c0 c1 N) i x os).2 = [] →
      finished (cfgHRevolve c0 c1 N) (runFrom (cfgHRevolve c0 c1 N) i x os).1 = true →
      (∀ o ∈ os, storesDeps o.act = false) →
      PotG c c0 c1 (cfgHRevolve c0 c1 N) x (obsCostF c os) := by
  induction os with
  | nil =>
    intro i x hinv _ _ hfin _
    have hdone : 1 ≤ x.done := by
      have : finished (cfgHRevolve c0 c1 N) x = true := hfin
      unfold finished at this
      simpa [cfgHRevolve] using this
    have hr := hinv.done hdone
    have ha : (cfgHRevolve c0 c1 N).N - x.r = 0 := by omega
    refine ⟨fun hf => ?_, fun _ => ?_⟩
    · have := hf.1; omega
    · rw [ha]; exact Game.fin _ _ _
  | cons o os ih =>
    intro i x hinv hinv2 hclean hfin hnd
    rw [runFrom_snd_cons, List.append_eq_nil_iff, List.map_eq_nil_iff] at hclean
    have hfin' : finished (cfgHRevolve c0 c1 N)
        (runFrom (cfgHRevolve c0 c1 N) (i + 1) (nextState (cfgHRevolve c0 c1 N) x o.act) os).1 = true := by
      rw [runFrom_fst_eq] at hfin ⊢
      exact hfin
    obtain ⟨hinv', _⟩ := step_pot (cfgHyp_h c0 c1 N) hinv o hclean.1 (hnd o (List.mem_cons_self ..))
    obtain ⟨hinv2', hstep⟩ := step_potG (c := c) hinv hinv2 o hclean.1 (hnd o (List.mem_cons_self ..))
    have := ih (i + 1) _ hinv' hinv2' hclean.2 hfin'
      (fun o' ho' => hnd o' (List.mem_cons_of_mem _ ho'))
    have := hstep _ this
    rw [obsCostF_cons, Nat.add_comm]
    exact this

/-- **every accepted complete stream of `cfgHRevolve c0 c1 N` is a play of the pebble game** from the
initial state, at the cost of the stream without its reversed steps -/
theorem game_of_accepted (N c0 c1 : Nat) (c : Costs) (os : List Obs)
    (hacc : Accepted (cfgHRevolve c0 c1 N) os) :
    Game c c0 c1 ⟨N, [], some 0⟩ (obsCostF c os) := by
  obtain ⟨hclean, hfin, hnd⟩ := hacc
  have hp := run_potG (c := c) os 0 (XS.init (cfgHRevolve c0 c1 N)) (inv_init (cfgHyp_h c0 c1 N))
    (inv2_init c0 c1 _) hclean hfin hnd
  have hnf : ¬ Flagged (cfgHRevolve c0 c1 N) (XS.init (cfgHRevolve c0 c1 N)) := by
    rintro ⟨_, h⟩
    simp [XS.init] at h
  exact hp.2 hnf

/-- **the reduction**: `HRevolveOptimalT` follows from the lower bound for the pebble game -/
theorem hrevolveOptimalT_of_gameLB
    (h : ∀ (c : Costs) (c0 c1 : Nat), 1 ≤ c0 → GameLB c c0 c1) : HRevolveOptimalT := by
  intro N c0 c1 v c os hN hc0 _ hv hacc
  have hg := game_of_accepted N c0 c1 c os hacc
  obtain ⟨w, hw, hA⟩ := h c c0 c1 hc0 N _ hN hg
  have htab := HLB.table_le N c0 c1 v w c hN hc0 hv hA
  obtain ⟨hclean, hfin, hnd⟩ := hacc
  have hrev := revSteps_eq (cfgHyp_h c0 c1 N) os hclean hfin hnd
  have e4 : (cfgHRevolve c0 c1 N).N = N := rfl
  rw [e4] at hrev
  rw [obsCostT_split, hrev, Nat.mul_comm c.ub N]
  omega

end Ckpt.LB7

#print axioms Ckpt.LB7.game_of_accepted
#print axioms Ckpt.LB7.hrevolveOptimalT_of_gameLB
