import CkptVerif.Proofs.GW
import Mathlib.Tactic
/-!
# Plans: the potential behind the lower bound

State of a reversal in progress: the adjoint stands at `a` (steps `[0, a)` are still to be reversed)
and forward states are available at the positions `E` (stored restart checkpoints and the state in
working storage).  A *plan* is a list of pairs `(e, b)`: the state available at `e` is carried to the
base `b ≥ e` (at the price `b - e` of forward steps) and the bases `0 = b_1 < b_2 < … < a` cut `[0, a)`
into gaps; gap number `l` is reversed with `s - l + 1` units (its own base included), i.e. at the price
`gwT (b_{l+1} - b_l) (s - l + 1)`; a gap with no unit at all (the base is only in working storage)
must be a single step.  Distinct bases use distinct available states.

`Reach s E a n`: some plan for `(E, a)` costs at most `n`.  The lemmas `reach_*` say how the cheapest
plan can change under the moves of an executable schedule; `Proofs/LowerBound.lean` instantiates them
with the checking executor.
-/
namespace Ckpt.GW

/-! ## two more facts about the optimum -/

/-- equality in the one-unit recurrence -/
theorem gwT_k1_succ (i : Nat) (hi : 1 ≤ i) : gwT (i + 1) 1 = i + gwT i 1 + 1 := by
  rw [gwT_k1' (i + 1) (by omega), gwT_k1' i hi]
  have : Nat.choose (i + 1) 2 = Nat.choose i 1 + Nat.choose i 2 := Nat.choose_succ_succ' i 1
  rw [this, Nat.choose_one_right]
  omega

/-- the recurrence inequality, one unit included (the right part is then a single step) -/
theorem gwT_rec_le1 (m k i : Nat) (hk : 1 ≤ k) (h1 : 1 ≤ i) (h2 : i < m) (h0 : k = 1 → m - i = 1) :
    gwT m k ≤ i + gwT i k + gwT (m - i) (k - 1) := by
  rcases Nat.eq_or_lt_of_le hk with hk1 | hk2
  · subst hk1
    have hmi := h0 rfl
    have hm : m = i + 1 := by omega
    subst hm
    rw [hmi, gwT_one, gwT_k1_succ i h1]
  · exact gwT_rec_le m k i (by omega) hk2 h1 h2

/-- more units never hurt -/
theorem gwT_anti (k : Nat) (hk : 1 ≤ k) : ∀ m, 1 ≤ m → gwT m (k + 1) ≤ gwT m k := by
  intro m
  induction m using Nat.strong_induction_on generalizing k with
  | _ m ih =>
    intro hm
    rcases Nat.eq_or_lt_of_le hm with rfl | hm2
    · rw [gwT_one, gwT_one]
    · rcases Nat.eq_or_lt_of_le hk with hk1 | hk2
      · subst hk1
        obtain ⟨j, rfl⟩ : ∃ j, m = j + 1 := ⟨m - 1, by omega⟩
        have h1 : gwT (j + 1) 2 ≤ j + gwT j 2 + gwT (j + 1 - j) (2 - 1) :=
          gwT_rec_le (j + 1) 2 j (by omega) (le_refl _) (by omega) (by omega)
        have e : j + 1 - j = 1 := by omega
        rw [e, gwT_one] at h1
        have h3 : gwT j 2 ≤ gwT j 1 := ih j (by omega) 1 (le_refl _) (by omega)
        have h4 := gwT_k1_succ j (by omega)
        show gwT (j + 1) 2 ≤ gwT (j + 1) 1
        omega
      · obtain ⟨i, hi1, hi2, he⟩ := gwT_rec_attained m k (by omega) hk2
        have h1 := gwT_rec_le m (k + 1) i (by omega) (by omega) hi1 hi2
        rw [Nat.add_sub_cancel] at h1
        have h2 := ih i hi2 k hk hi1
        have h3 := ih (m - i) (by omega) (k - 1) (by omega) (by omega)
        have e : k - 1 + 1 = k := by omega
        rw [e] at h3
        omega

/-! ## the price of a list of bases -/

/-- price of reversing `[b_1, a)` cut at the bases `b_1 < b_2 < …`, the first gap having `k` units -/
def Xi : Nat → List Nat → Nat → Nat
  | _, [], _ => 0
  | k, [b], a => gwT (a - b) k
  | k, b :: b' :: rest, a => gwT (b' - b) k + Xi (k - 1) (b' :: rest) a

/-- the bases increase, stay below `a`, every gap but the last has a unit, and a last gap without
unit is a single step -/
def XiOk : Nat → List Nat → Nat → Prop
  | _, [], _ => True
  | k, [b], a => b < a ∧ (k = 0 → a = b + 1)
  | k, b :: b' :: rest, a => 1 ≤ k ∧ b < b' ∧ XiOk (k - 1) (b' :: rest) a

theorem Xi_cons_cons (k b b' : Nat) (rest : List Nat) (a : Nat) :
    Xi k (b :: b' :: rest) a = gwT (b' - b) k + Xi (k - 1) (b' :: rest) a := rfl

theorem XiOk_cons_cons (k b b' : Nat) (rest : List Nat) (a : Nat) :
    XiOk k (b :: b' :: rest) a ↔ 1 ≤ k ∧ b < b' ∧ XiOk (k - 1) (b' :: rest) a := Iff.rfl

theorem XiOk_single (k b a : Nat) : XiOk k [b] a ↔ b < a ∧ (k = 0 → a = b + 1) := Iff.rfl

/-- all bases lie below `a` and above the first one -/
theorem XiOk_bounds : ∀ (k : Nat) (B : List Nat) (a : Nat), XiOk k B a →
    ∀ b ∈ B, b < a ∧ ∀ b0, B.head? = some b0 → b0 ≤ b := by
  intro k B
  induction B generalizing k with
  | nil => intro a _ b hb; cases hb
  | cons c rest ih =>
    intro a h b hb
    cases rest with
    | nil =>
      rw [List.mem_singleton] at hb; subst hb
      exact ⟨h.1, fun b0 h0 => by simp at h0; omega⟩
    | cons c' rest' =>
      obtain ⟨_, hlt, hrest⟩ := h
      rcases List.mem_cons.mp hb with rfl | hb'
      · have := (ih (k - 1) a hrest c' (List.mem_cons_self ..)).1
        exact ⟨by omega, fun b0 h0 => by simp at h0; omega⟩
      · obtain ⟨h1, h2⟩ := ih (k - 1) a hrest b hb'
        have := h2 c' rfl
        exact ⟨h1, fun b0 h0 => by simp at h0; omega⟩

/-- with a larger first unit count the bases are still fine, and not more expensive -/
theorem Xi_anti : ∀ (k : Nat) (B : List Nat) (a : Nat), XiOk k B a →
    XiOk (k + 1) B a ∧ Xi (k + 1) B a ≤ Xi k B a := by
  intro k B
  induction B generalizing k with
  | nil => intro a _; exact ⟨trivial, le_refl _⟩
  | cons c rest ih =>
    intro a h
    cases rest with
    | nil =>
      obtain ⟨h1, h2⟩ := h
      refine ⟨⟨h1, by intro h0; omega⟩, ?_⟩
      show gwT (a - c) (k + 1) ≤ gwT (a - c) k
      rcases Nat.eq_zero_or_pos k with rfl | hk
      · have := h2 rfl
        have e : a - c = 1 := by omega
        rw [e, gwT_one, gwT_one]
      · exact gwT_anti k hk _ (by omega)
    | cons c' rest' =>
      obtain ⟨hk, hlt, hrest⟩ := h
      have := ih (k - 1) a hrest
      have e : k - 1 + 1 = k := by omega
      rw [e] at this
      refine ⟨⟨by omega, hlt, by rw [Nat.add_sub_cancel]; exact this.1⟩, ?_⟩
      rw [Xi_cons_cons, Xi_cons_cons, Nat.add_sub_cancel]
      have := gwT_anti k hk (c' - c) (by omega)
      omega

/-- **Removing a base** `x` (not the first): the two gaps around it merge, the gaps above gain a unit;
this costs at most the distance from the base below. -/
theorem Xi_remove : ∀ (pre : List Nat) (k p x : Nat) (post : List Nat) (a : Nat),
    XiOk k (pre ++ p :: x :: post) a →
    XiOk k (pre ++ p :: post) a ∧
      Xi k (pre ++ p :: post) a ≤ (x - p) + Xi k (pre ++ p :: x :: post) a := by
  intro pre
  induction pre with
  | nil =>
    intro k p x post a h
    simp only [List.nil_append] at h ⊢
    obtain ⟨hk, hpx, hrest⟩ := h
    cases post with
    | nil =>
      obtain ⟨hxa, h0⟩ := hrest
      refine ⟨⟨by omega, by intro h; omega⟩, ?_⟩
      show gwT (a - p) k ≤ (x - p) + (gwT (x - p) k + gwT (a - x) (k - 1))
      have := gwT_rec_le1 (a - p) k (x - p) hk (by omega) (by omega) (by intro h; have := h0 (by omega); omega)
      have e : a - p - (x - p) = a - x := by omega
      rw [e] at this
      omega
    | cons y post' =>
      obtain ⟨hk1, hxy, hrest'⟩ := hrest
      have hanti := Xi_anti (k - 1 - 1) (y :: post') a hrest'
      have e : k - 1 - 1 + 1 = k - 1 := by omega
      rw [e] at hanti
      refine ⟨⟨hk, by omega, hanti.1⟩, ?_⟩
      rw [Xi_cons_cons, Xi_cons_cons, Xi_cons_cons]
      have := gwT_rec_le (y - p) k (x - p) (by omega) (by omega) (by omega) (by omega)
      have e2 : y - p - (x - p) = y - x := by omega
      rw [e2] at this
      have := hanti.2
      omega
  | cons q pre' ih =>
    intro k p x post a h
    cases pre' with
    | nil =>
      simp only [List.cons_append, List.nil_append] at h ⊢
      obtain ⟨hk, hqp, hrest⟩ := h
      have := ih (k - 1) p x post a (by simpa using hrest)
      simp only [List.nil_append] at this
      refine ⟨⟨hk, hqp, this.1⟩, ?_⟩
      rw [Xi_cons_cons, Xi_cons_cons]
      have := this.2
      omega
    | cons q' pre'' =>
      simp only [List.cons_append] at h ⊢ ih
      obtain ⟨hk, hqq, hrest⟩ := h
      have := ih (k - 1) p x post a hrest
      refine ⟨⟨hk, hqq, this.1⟩, ?_⟩
      rw [Xi_cons_cons, Xi_cons_cons]
      have := this.2
      omega

/-- one more single-step gap on top -/
theorem Xi_snoc : ∀ (B : List Nat) (k a : Nat), XiOk k B a → B.length ≤ k →
    XiOk k (B ++ [a]) (a + 1) ∧ Xi k (B ++ [a]) (a + 1) = Xi k B a + 1 := by
  intro B
  induction B with
  | nil =>
    intro k a _ _
    refine ⟨⟨by omega, fun _ => rfl⟩, ?_⟩
    show gwT (a + 1 - a) k = 0 + 1
    rw [Nat.add_sub_cancel_left, gwT_one]
  | cons b rest ih =>
    intro k a h hlen
    cases rest with
    | nil =>
      obtain ⟨hba, _⟩ := h
      simp only [List.length_cons, List.length_nil] at hlen
      refine ⟨⟨by omega, hba, ⟨by omega, fun _ => rfl⟩⟩, ?_⟩
      show gwT (a - b) k + gwT (a + 1 - a) (k - 1) = gwT (a - b) k + 1
      rw [Nat.add_sub_cancel_left, gwT_one]
    | cons b' rest' =>
      obtain ⟨hk, hbb, hrest⟩ := h
      simp only [List.length_cons] at hlen
      have := ih (k - 1) a hrest (by simp only [List.length_cons]; omega)
      simp only [List.cons_append] at this ⊢
      refine ⟨⟨hk, hbb, this.1⟩, ?_⟩
      rw [Xi_cons_cons, Xi_cons_cons, this.2]
      omega

theorem XiOk_pairwise : ∀ (k : Nat) (B : List Nat) (a : Nat), XiOk k B a → B.Pairwise (· < ·) := by
  intro k B
  induction B generalizing k with
  | nil => intro a _; exact List.Pairwise.nil
  | cons c rest ih =>
    intro a h
    cases rest with
    | nil => exact List.pairwise_singleton _ _
    | cons c' rest' =>
      obtain ⟨_, hlt, hrest⟩ := h
      have hp := ih (k - 1) a hrest
      refine List.Pairwise.cons ?_ hp
      intro b hb
      have := (XiOk_bounds (k - 1) (c' :: rest') a hrest b hb).2 c' rfl
      omega

/-- nothing is left to reverse: no base -/
theorem XiOk_zero (k : Nat) (B : List Nat) (h : XiOk k B 0) : B = [] := by
  cases B with
  | nil => rfl
  | cons b rest =>
    have := (XiOk_bounds k (b :: rest) 0 h b (List.mem_cons_self ..)).1
    omega

/-! ## plans -/

/-- the part of the definition of a plan that does not mention the available states -/
structure PlanShape (s a : Nat) (P : List (Nat × Nat)) : Prop where
  ok : XiOk s (P.map Prod.snd) a
  head : 0 < a → ∃ rest, P = (0, 0) :: rest
  le : ∀ p ∈ P, p.1 ≤ p.2
  nodup : (P.map Prod.fst).Nodup

/-- a plan for the adjoint at `a` and forward states available at the positions `E` -/
def PlanOk (s : Nat) (E : List Nat) (a : Nat) (P : List (Nat × Nat)) : Prop :=
  PlanShape s a P ∧ ∀ p ∈ P, p.1 ∈ E

/-- forward steps spent on carrying the available states to the bases -/
def fee (P : List (Nat × Nat)) : Nat := (P.map (fun p => p.2 - p.1)).sum

def planVal (s a : Nat) (P : List (Nat × Nat)) : Nat := fee P + Xi s (P.map Prod.snd) a

/-- some plan costs at most `n` -/
def Reach (s : Nat) (E : List Nat) (a n : Nat) : Prop := ∃ P, PlanOk s E a P ∧ planVal s a P ≤ n

theorem fee_append (A B : List (Nat × Nat)) : fee (A ++ B) = fee A + fee B := by
  unfold fee; rw [List.map_append, List.sum_append]

theorem fee_cons (p : Nat × Nat) (B : List (Nat × Nat)) : fee (p :: B) = (p.2 - p.1) + fee B := by
  unfold fee; rw [List.map_cons, List.sum_cons]

/-- **Dropping a pair** (not the first) from a plan -/
theorem plan_remove (s a : Nat) (A : List (Nat × Nat)) (p y : Nat × Nat) (B : List (Nat × Nat))
    (h : PlanShape s a (A ++ p :: y :: B)) :
    PlanShape s a (A ++ p :: B) ∧
      planVal s a (A ++ p :: B) + (y.2 - y.1) ≤ planVal s a (A ++ p :: y :: B) + (y.2 - p.2) := by
  obtain ⟨hok, hhead, hle, hnd⟩ := h
  have e1 : (A ++ p :: y :: B).map Prod.snd = A.map Prod.snd ++ p.2 :: y.2 :: B.map Prod.snd := by simp
  have e2 : (A ++ p :: B).map Prod.snd = A.map Prod.snd ++ p.2 :: B.map Prod.snd := by simp
  rw [e1] at hok
  obtain ⟨hok', hxi⟩ := Xi_remove _ s p.2 y.2 _ a hok
  refine ⟨⟨by rw [e2]; exact hok', ?_, ?_, ?_⟩, ?_⟩
  · intro ha
    obtain ⟨rest, hr⟩ := hhead ha
    cases A with
    | nil =>
      simp only [List.nil_append, List.cons.injEq] at hr ⊢
      exact ⟨B, hr.1, rfl⟩
    | cons q A' =>
      simp only [List.cons_append, List.cons.injEq] at hr ⊢
      exact ⟨_, hr.1, rfl⟩
  · intro z hz
    apply hle
    simp only [List.mem_append, List.mem_cons] at hz ⊢
    tauto
  · have : List.Sublist ((A ++ p :: B).map Prod.fst) ((A ++ p :: y :: B).map Prod.fst) := by
      simp only [List.map_append, List.map_cons]
      exact (List.Sublist.refl _).append ((List.sublist_cons_self _ _).cons_cons _)
    exact hnd.sublist this
  · unfold planVal
    rw [e1, e2, fee_append, fee_append, fee_cons, fee_cons, fee_cons]
    omega

/-- the same, naming only what is needed of the pair below: it dominates all earlier bases -/
theorem plan_remove' (s a : Nat) (A : List (Nat × Nat)) (y : Nat × Nat) (B : List (Nat × Nat))
    (hA : A ≠ []) (h : PlanShape s a (A ++ y :: B)) :
    ∃ p ∈ A, (∀ z ∈ A, z.2 ≤ p.2) ∧ PlanShape s a (A ++ B) ∧
      planVal s a (A ++ B) + (y.2 - y.1) ≤ planVal s a (A ++ y :: B) + (y.2 - p.2) := by
  rcases List.eq_nil_or_concat A with h0 | ⟨A0, p, hc⟩
  · exact absurd h0 hA
  · rw [List.concat_eq_append] at hc
    subst hc
    have e : A0 ++ [p] ++ y :: B = A0 ++ p :: y :: B := by simp
    have e' : A0 ++ [p] ++ B = A0 ++ p :: B := by simp
    rw [e] at h
    obtain ⟨hs, hv⟩ := plan_remove s a A0 p y B h
    refine ⟨p, by simp, ?_, by rw [e']; exact hs, by rw [e, e']; exact hv⟩
    intro z hz
    have hpw := XiOk_pairwise _ _ _ h.ok
    simp only [List.map_append, List.map_cons] at hpw
    rw [List.pairwise_append] at hpw
    simp only [List.mem_append, List.mem_singleton] at hz
    rcases hz with hz | rfl
    · have := hpw.2.2 z.2 (List.mem_map.mpr ⟨z, hz, rfl⟩) p.2 (List.mem_cons_self ..)
      omega
    · exact le_refl _

/-- **Changing the source** of a pair (not the first) to an earlier position -/
theorem plan_resource (s a : Nat) (A : List (Nat × Nat)) (e e' b : Nat) (B : List (Nat × Nat))
    (hA : A ≠ []) (hee : e ≤ e') (hfresh : e ∉ (A ++ B).map Prod.fst)
    (h : PlanShape s a (A ++ (e', b) :: B)) :
    PlanShape s a (A ++ (e, b) :: B) ∧
      planVal s a (A ++ (e, b) :: B) = planVal s a (A ++ (e', b) :: B) + (e' - e) := by
  obtain ⟨hok, hhead, hle, hnd⟩ := h
  have e1 : (A ++ (e', b) :: B).map Prod.snd = (A ++ (e, b) :: B).map Prod.snd := by simp
  have hb : e' ≤ b := hle (e', b) (by simp)
  refine ⟨⟨by rw [← e1]; exact hok, ?_, ?_, ?_⟩, ?_⟩
  · intro ha
    obtain ⟨rest, hr⟩ := hhead ha
    cases A with
    | nil => exact absurd rfl hA
    | cons q A' =>
      simp only [List.cons_append, List.cons.injEq] at hr ⊢
      exact ⟨_, hr.1, rfl⟩
  · intro z hz
    simp only [List.mem_append, List.mem_cons] at hz
    rcases hz with hz | rfl | hz
    · exact hle z (by simp [hz])
    · show e ≤ b; omega
    · exact hle z (by simp [hz])
  · simp only [List.map_append, List.map_cons] at hnd hfresh ⊢
    rw [List.nodup_append] at hnd ⊢
    obtain ⟨h1, h2, h3⟩ := hnd
    rw [List.nodup_cons] at h2 ⊢
    simp only [List.mem_append, not_or] at hfresh
    refine ⟨h1, ⟨hfresh.2, h2.2⟩, ?_⟩
    intro x hx y hy
    rcases List.mem_cons.mp hy with rfl | hy'
    · intro hxy; subst hxy; exact hfresh.1 hx
    · exact h3 x hx y (List.mem_cons_of_mem _ hy')
  · unfold planVal
    rw [e1, fee_append, fee_append, fee_cons, fee_cons]
    show fee A + (b - e + fee B) + _ = fee A + (b - e' + fee B) + _ + (e' - e)
    omega

/-! ## how the cheapest plan can change -/

theorem planOk_bounds {s a : Nat} {P : List (Nat × Nat)} (h : PlanShape s a P) :
    ∀ p ∈ P, p.1 ≤ p.2 ∧ p.2 < a := by
  intro p hp
  exact ⟨h.le p hp, (XiOk_bounds _ _ _ h.ok p.2 (List.mem_map.mpr ⟨p, hp, rfl⟩)).1⟩

/-- nothing left to reverse -/
theorem reach_final (s : Nat) (E : List Nat) : Reach s E 0 0 := by
  have hs : PlanShape s 0 [] :=
    { ok := trivial
      head := fun h => absurd h (lt_irrefl _)
      le := fun p hp => absurd hp List.not_mem_nil
      nodup := List.nodup_nil }
  refine ⟨[], ⟨hs, fun p hp => absurd hp List.not_mem_nil⟩, ?_⟩
  show 0 + 0 ≤ 0
  exact le_refl _

/-- fewer available states: plans stay plans -/
theorem reach_sub {s : Nat} {E E' : List Nat} {a n : Nat} (hE : ∀ e ∈ E', e ∈ E)
    (h : Reach s E' a n) : Reach s E a n := by
  obtain ⟨P, ⟨hs, hsrc⟩, hv⟩ := h
  exact ⟨P, ⟨hs, fun p hp => hE _ (hsrc p hp)⟩, hv⟩

/-- at the very beginning only the state `0` is available: the plan is `[0]` with all `s` units -/
theorem reach_init {s N n : Nat} (hN : 1 ≤ N) (h : Reach s [0] N n) : gwT N s ≤ n := by
  obtain ⟨P, ⟨hs, hsrc⟩, hv⟩ := h
  obtain ⟨rest, rfl⟩ := hs.head (by omega)
  have hrest : rest = [] := by
    cases rest with
    | nil => rfl
    | cons q rest' =>
      exfalso
      have hq := hsrc q (by simp)
      rw [List.mem_singleton] at hq
      have := hs.nodup
      simp only [List.map_cons, List.nodup_cons, List.mem_cons, not_or] at this
      exact this.1.1 hq.symm
  subst hrest
  have : planVal s N [(0, 0)] = gwT N s := by
    show (0 - 0 + 0) + gwT (N - 0) s = gwT N s
    simp
  omega

/-- **A forward** from an available state `f` to `f'` (whether or not a checkpoint is written at `f`):
afterwards the states `E ∪ {f'}` (at most) are available. -/
theorem reach_fwd {s : Nat} {E E' : List Nat} {a n f f' : Nat} (hf : f ∈ E) (hlt : f < f')
    (hE : ∀ e ∈ E', e = f' ∨ e ∈ E) (h : Reach s E' a n) : Reach s E a (n + (f' - f)) := by
  obtain ⟨P, ⟨hs, hsrc⟩, hv⟩ := h
  by_cases hf' : f' ∈ P.map Prod.fst
  · obtain ⟨q, hq, hq1⟩ := List.mem_map.mp hf'
    obtain ⟨A, B, rfl⟩ := List.append_of_mem hq
    have hqb := planOk_bounds hs q (by simp)
    -- the pair is not the first one
    have hA : A ≠ [] := by
      rintro rfl
      obtain ⟨rest, hr⟩ := hs.head (by omega)
      simp only [List.nil_append, List.cons.injEq] at hr
      have : q.1 = 0 := by rw [hr.1]
      omega
    -- `f'` is the source of this pair only
    have hnd := hs.nodup
    simp only [List.map_append, List.map_cons] at hnd
    rw [List.nodup_append] at hnd
    obtain ⟨hndA, hndqB, hdisj⟩ := hnd
    rw [List.nodup_cons] at hndqB
    have hfA : ∀ z ∈ A, z.1 ≠ f' := by
      intro z hz hzf
      exact hdisj z.1 (List.mem_map.mpr ⟨z, hz, rfl⟩) q.1 (List.mem_cons_self ..) (by rw [hzf, hq1])
    have hfB : ∀ z ∈ B, z.1 ≠ f' := by
      intro z hz hzf
      exact hndqB.1 (by rw [hq1, ← hzf]; exact List.mem_map.mpr ⟨z, hz, rfl⟩)
    have hsrcA : ∀ z ∈ A, z.1 ∈ E := by
      intro z hz
      rcases hE _ (hsrc z (by simp [hz])) with h | h
      · exact absurd h (hfA z hz)
      · exact h
    have hsrcB : ∀ z ∈ B, z.1 ∈ E := by
      intro z hz
      rcases hE _ (hsrc z (by simp [hz])) with h | h
      · exact absurd h (hfB z hz)
      · exact h
    have hqeq : q = (f', q.2) := by rw [← hq1]
    by_cases hfu : f ∈ (A ++ B).map Prod.fst
    · rw [List.map_append, List.mem_append] at hfu
      rcases hfu with hfu | hfu
      · -- `f` is used below: drop the pair of `f'`
        obtain ⟨z, hz, hz1⟩ := List.mem_map.mp hfu
        obtain ⟨p, hp, hdom, hs', hv'⟩ := plan_remove' s a A q B hA hs
        have hzb := planOk_bounds hs z (by simp [hz])
        have := hdom z hz
        refine ⟨A ++ B, ⟨hs', ?_⟩, ?_⟩
        · intro w hw
          rcases List.mem_append.mp hw with hw | hw
          · exact hsrcA w hw
          · exact hsrcB w hw
        · rw [hq1] at hv'
          omega
      · -- `f` is used above: drop that pair and start the pair of `f'` from `f`
        obtain ⟨z, hz, hz1⟩ := List.mem_map.mp hfu
        obtain ⟨B0, B1, rfl⟩ := List.append_of_mem hz
        have e : A ++ q :: (B0 ++ z :: B1) = (A ++ q :: B0) ++ z :: B1 := by simp
        rw [e] at hs
        obtain ⟨p, hp, hdom, hs', hv'⟩ := plan_remove' s a (A ++ q :: B0) z B1 (by simp) hs
        have hqp := hdom q (by simp)
        have e' : (A ++ q :: B0) ++ B1 = A ++ (f', q.2) :: (B0 ++ B1) := by
          rw [hqeq]; simp
        rw [e'] at hs' hv'
        -- `f` occurs nowhere else
        have hnd2 := hs.nodup
        simp only [List.map_append, List.map_cons] at hnd2
        rw [List.nodup_append] at hnd2
        obtain ⟨_, hnd2z, hdisj2⟩ := hnd2
        rw [List.nodup_cons] at hnd2z
        have hfresh : f ∉ (A ++ (B0 ++ B1)).map Prod.fst := by
          simp only [List.map_append, List.mem_append, not_or]
          refine ⟨?_, ?_, ?_⟩
          · intro hx
            exact hdisj2 f (by simp [hx]) z.1 (List.mem_cons_self ..) hz1.symm
          · intro hx
            exact hdisj2 f (by simp [hx]) z.1 (List.mem_cons_self ..) hz1.symm
          · intro hx
            exact hnd2z.1 (by rw [hz1]; exact hx)
        obtain ⟨hs'', hv''⟩ := plan_resource s a A f f' q.2 (B0 ++ B1) hA (by omega) hfresh hs'
        refine ⟨A ++ (f, q.2) :: (B0 ++ B1), ⟨hs'', ?_⟩, ?_⟩
        · intro w hw
          simp only [List.mem_append, List.mem_cons] at hw
          rcases hw with hw | rfl | hw | hw
          · exact hsrcA w hw
          · exact hf
          · exact hsrcB w (by simp [hw])
          · exact hsrcB w (by simp [hw])
        · rw [e] at hv
          rw [hz1] at hv'
          omega
    · -- `f` is not used: start the pair of `f'` from `f`
      rw [hqeq] at hs
      obtain ⟨hs', hv'⟩ := plan_resource s a A f f' q.2 B hA (by omega) hfu hs
      refine ⟨A ++ (f, q.2) :: B, ⟨hs', ?_⟩, ?_⟩
      · intro w hw
        simp only [List.mem_append, List.mem_cons] at hw
        rcases hw with hw | rfl | hw
        · exact hsrcA w hw
        · exact hf
        · exact hsrcB w hw
      · rw [hqeq] at hv
        omega
  · refine ⟨P, ⟨hs, ?_⟩, by omega⟩
    intro p hp
    rcases hE _ (hsrc p hp) with h | h
    · exact absurd (by rw [← h]; exact List.mem_map.mpr ⟨p, hp, rfl⟩) hf'
    · exact h

/-- **The turn-around**: the state `a - 1` is available; the step `a - 1 → a` is taken (one forward
step) and reversed.  Afterwards at most the `≤ s` stored states `C` are available below `a - 1`. -/
theorem reach_turn {s : Nat} {E E' C : List Nat} {a n : Nat} (ha : 1 ≤ a) (hmem : a - 1 ∈ E)
    (hC : C.length ≤ s) (h1 : ∀ e ∈ E', e < a - 1 → e ∈ C) (h2 : ∀ e ∈ C, e ∈ E)
    (h : Reach s E' (a - 1) n) : Reach s E a (n + 1) := by
  obtain ⟨P, ⟨hs, hsrc⟩, hv⟩ := h
  have hb := planOk_bounds hs
  have hinC : ∀ p ∈ P, p.1 ∈ C := fun p hp => h1 _ (hsrc p hp) (by have := hb p hp; omega)
  have hlen : P.length ≤ s := by
    have hsub : P.map Prod.fst ⊆ C := by
      intro e he
      obtain ⟨p, hp, rfl⟩ := List.mem_map.mp he
      exact hinC p hp
    have := (hs.nodup.subperm hsub).length_le
    rw [List.length_map] at this
    omega
  have hsn := Xi_snoc (P.map Prod.snd) s (a - 1) hs.ok (by rw [List.length_map]; exact hlen)
  have ea : a - 1 + 1 = a := by omega
  rw [ea] at hsn
  have emap : (P ++ [(a - 1, a - 1)]).map Prod.snd = P.map Prod.snd ++ [a - 1] := by simp
  refine ⟨P ++ [(a - 1, a - 1)], ⟨⟨by rw [emap]; exact hsn.1, ?_, ?_, ?_⟩, ?_⟩, ?_⟩
  · intro _
    by_cases h0 : 0 < a - 1
    · obtain ⟨rest, rfl⟩ := hs.head h0
      exact ⟨rest ++ [(a - 1, a - 1)], rfl⟩
    · have e : a - 1 = 0 := by omega
      have hok0 : XiOk s (P.map Prod.snd) 0 := by rw [← e]; exact hs.ok
      have hP : P = [] := List.map_eq_nil_iff.mp (XiOk_zero s _ hok0)
      subst hP
      rw [e]
      exact ⟨[], rfl⟩
  · intro p hp
    rcases List.mem_append.mp hp with hp | hp
    · exact hs.le p hp
    · rw [List.mem_singleton] at hp; subst hp; exact le_refl _
  · rw [List.map_append, List.nodup_append]
    refine ⟨hs.nodup, by simp, ?_⟩
    intro x hx y hy
    obtain ⟨p, hp, rfl⟩ := List.mem_map.mp hx
    simp only [List.map_cons, List.map_nil, List.mem_singleton] at hy
    have := hb p hp
    omega
  · intro p hp
    rcases List.mem_append.mp hp with hp | hp
    · exact h2 _ (hinC p hp)
    · rw [List.mem_singleton] at hp; subst hp; exact hmem
  · unfold planVal at hv ⊢
    rw [emap, hsn.2, fee_append]
    have : fee [(a - 1, a - 1)] = 0 := by simp [fee]
    omega

end Ckpt.GW
