import CkptVerif.Proofs.Process
import CkptVerif.Proofs.MixedIterRefine
/-!
# The lazy Mixed object of the process model is the pure `Sched` machine

In `Model/Process.lean` a `MixedCheckpointSchedule` on the memoisation path is a *resumable*
generator (`MixPC`, `mixResume`) whose planner queries go through the process-global memo table.
Everywhere else in the development the same class is the pure machine `Sched.next` over
`mixedSched memoPlan N s st`, whose stream `mixedEvs memoPlan N s st` is computed by the recursive
model.  This file proves that they answer every sequence of operations identically.

* `twin_emits`: if the loop twin `mixInner / mixTurn / mixReload` of `Model/MixedIter.lean` returns
  the list `l` from some point, then resuming the generator repeatedly from that point yields
  exactly the events of `l`, one per `next()`, and then returns (`Emits`).
* `Bis`, `bis_step`: the bisimulation between the lazy object and the pure machine.
* `lazyMixed_refines`: alone in a fresh process, the lazy object answers any sequence of
  `next / finalize / observe / usesStorage` like the pure machine.
* `C15_mixed_process`: hence in ANY history, with anything interleaved, a Mixed object answers like
  the pure machine over the recursive specification.
-/
namespace Ckpt.Proc
open Ckpt

/-! ## answers of one object -/

/-- the answers of an object to a sequence of operations, the memo table being threaded -/
def objOuts (planM : PlanM) : ObjSt → Cache Cell → List OOp → List POut
  | _, _, [] => []
  | o, c, op :: rest =>
    (o.step planM op c).2.2 :: objOuts planM (o.step planM op c).2.1 (o.step planM op c).1 rest

/-- the answers of a pure machine -/
def plainOuts (s : Sched) : MSt → List OOp → List POut
  | _, [] => []
  | m, .next :: rest => .next (s.next m).2 :: plainOuts s (s.next m).1 rest
  | m, .finalize k :: rest => .fin (finalize m k).2 :: plainOuts s (finalize m k).1 rest
  | m, .observe :: rest => obsOf m :: plainOuts s m rest
  | m, .usesStorage x :: rest => .uses (s.uses x) :: plainOuts s m rest

theorem objOuts_plain (planM : PlanM) (s : Sched) (m : MSt) (c : Cache Cell) (ops : List OOp) :
    objOuts planM (.plain s m) c ops = plainOuts s m ops := by
  induction ops generalizing m c with
  | nil => rfl
  | cons op rest ih =>
    cases op with
    | next => exact congrArg _ (ih _ _)
    | finalize k => exact congrArg _ (ih _ _)
    | observe => exact congrArg _ (ih _ _)
    | usesStorage x => exact congrArg _ (ih _ _)

theorem objOuts_spec {planM : PlanM} {plan : Planner} {OK : Cache Cell → Prop}
    (h : PlanMSpec planM plan OK) (o : ObjSt) (c c' : Cache Cell) (hc : OK c) (ops : List OOp) :
    objOuts planM o c ops = objOuts (purePlanM plan) o c' ops := by
  induction ops generalizing o c c' with
  | nil => rfl
  | cons op rest ih =>
    obtain ⟨h1, h2⟩ := objStep_spec h o op c c' hc
    show (o.step planM op c).2.2 :: objOuts planM (o.step planM op c).2.1 (o.step planM op c).1 rest
      = (o.step (purePlanM plan) op c').2.2 ::
        objOuts (purePlanM plan) (o.step (purePlanM plan) op c').2.1
          (o.step (purePlanM plan) op c').1 rest
    rw [ih _ _ (o.step (purePlanM plan) op c').1 h2, h1]

/-- a process holding exactly one object answers like that object -/
theorem run_single (p : Proc) (o : Obj) (ho : p.objs = [o]) (ops : List OOp) :
    (p.run (ops.map (POp.obj 0))).2 = objOuts memoQuery o.st p.memo ops := by
  induction ops generalizing p o with
  | nil => rfl
  | cons op rest ih =>
    have h0 : p.objs[0]? = some o := by rw [ho]; rfl
    rw [List.map_cons, run_cons, step_obj_some p 0 op o h0]
    show _ :: _ = _ :: _
    congr 1
    refine ih _ { o with st := (o.st.step memoQuery op p.memo).2.1 } ?_
    show p.objs.set 0 _ = _
    rw [ho]; rfl

theorem run_solo (spec : Spec) (ops : List OOp) :
    (Proc.init.run (soloHistory spec ops)).2 =
      .constructed (mkObj spec).st.error? :: objOuts memoQuery (mkObj spec).st [] ops := by
  unfold soloHistory
  rw [run_cons]
  show _ :: _ = _ :: _
  congr 1
  exact run_single _ (mkObj spec) rfl ops

/-! ## the loop twin, seen from a suspension point -/

section twin
variable (plan : Planner) (N S : Nat) (st : Storage)

/-- what the loop twin computes from a suspension point -/
def den (fuel : Nat) : MixPC → Except Err (List Ev)
  | .inner σ t => mixInner plan N S st fuel σ t
  | .fr2 σ n1 t =>
    yieldEv ⟨.forward (n1 - 1) n1 false true .work, n1, σ.r⟩
      (mixInner plan N S st fuel { σ with n := n1 } t)
  | .rev σ =>
    yieldEv ⟨.reverse (N - (σ.r + 1) + 1) (N - (σ.r + 1)) true, σ.n, σ.r + 1⟩
      (mixReload plan N S st fuel { σ with r := σ.r + 1 })
  | .icsPost σ n0 t =>
    if σ.snapshots.length > S - 1 then mixErr
    else mixInner plan N S st fuel
      { σ with snapshotN := n0 :: σ.snapshotN, snapshots := (stWriteIcs, n0, σ.n) :: σ.snapshots }
      t
  | .reload σ => mixReload plan N S st fuel σ
  | .final => .ok []
  | .dead => .error .fuel

/-- the twin's continuation after one resumption -/
def contOf (fuel : Nat) : MixPC × GenOut → Except Err (List Ev)
  | (pc, .yield e) => yieldEv e (den plan N S st fuel pc)
  | (_, .raise err) => .error err
  | (_, .ret) => .ok []

theorem yieldEv_ok (e : Ev) (k : Except Err (List Ev)) (l : List Ev) (h : yieldEv e k = .ok l) :
    ∃ l', k = .ok l' ∧ l = e :: l' := by
  cases k with
  | error x => cases h
  | ok es => exact ⟨es, rfl, by injection h with h; exact h.symm⟩

/-! ### one unrolling of each loop is one resumption -/

theorem inner_unroll (fuel : Nat) (σ : MixSt) (t : Nat) :
    mixInner plan N S st (fuel + 1) σ t =
      if σ.n < N - σ.r then
        contOf plan N S st fuel (innerAfter S st σ
          (plan (N - σ.r - σ.n)
            (S - σ.snapshots.length + (if σ.snapshotN.contains σ.n then 1 else 0))))
      else mixTurn plan N S st fuel σ t := by
  rw [mixInner]
  by_cases hlt : σ.n < N - σ.r
  · rw [if_pos hlt, if_pos hlt]
    unfold innerAfter
    dsimp only
    generalize plan (N - σ.r - σ.n)
        (S - σ.snapshots.length + (if σ.snapshotN.contains σ.n = true then 1 else 0)) = ans
    cases ans with
    | none => rfl
    | some cell =>
      dsimp only
      simp only [apply_ite (contOf plan N S st fuel)]
      rfl
  · rw [if_neg hlt, if_neg hlt]

theorem turn_unroll (fuel : Nat) (σ : MixSt) (t : Nat) :
    mixTurn plan N S st (fuel + 1) σ t = contOf plan N S st fuel (turnStep N σ t) := by
  rw [mixTurn]
  unfold turnStep
  split
  · rfl
  · split
    · rfl
    · dsimp only
      split
      · rfl
      · rfl

theorem reload_unroll (fuel : Nat) (σ : MixSt) :
    mixReload plan N S st (fuel + 1) σ =
      contOf plan N S st fuel (reloadStep (purePlanM plan) N S st σ []).2 := by
  rw [mixReload]
  unfold reloadStep
  obtain ⟨n, r, keys, stack⟩ := σ
  cases stack with
  | nil =>
    dsimp only
    simp only [apply_ite (contOf plan N S st fuel), apply_ite Prod.snd]
    rfl
  | cons cp rest =>
    obtain ⟨cpStepType, cpN, x⟩ := cp
    dsimp only [purePlanM]
    unfold reloadAfter
    generalize plan (N - r - cpN) (S - (rest.length + 1) + 1) = ans
    cases ans with
    | none =>
      dsimp only
      simp only [apply_ite (contOf plan N S st fuel), apply_ite Prod.snd]
      rfl
    | some cell =>
      dsimp only
      simp only [apply_ite (contOf plan N S st fuel), apply_ite Prod.snd]
      rfl

/-! ### which resumptions yield `EndReverse` -/

theorem innerAfter_noER (σ : MixSt) (ans : Option Cell) (pc' : MixPC) (e : Ev)
    (h : innerAfter S st σ ans = (pc', .yield e)) : e.act ≠ .endReverse := by
  unfold innerAfter at h
  cases ans with
  | none => cases h
  | some cell =>
    dsimp only at h
    repeat' split at h
    all_goals (cases h <;> (intro hh; cases hh))

theorem turnStep_noER (σ : MixSt) (t : Nat) (pc' : MixPC) (e : Ev)
    (h : turnStep N σ t = (pc', .yield e)) : e.act ≠ .endReverse := by
  unfold turnStep revStep at h
  repeat' split at h
  all_goals (cases h <;> (intro hh; cases hh))

theorem reloadAfter_noER (σ : MixSt) (a b : Nat) (rest : List (Nat × Nat × Nat))
    (ans : Option Cell) (pc' : MixPC) (e : Ev)
    (h : reloadAfter N st σ a b rest ans = (pc', .yield e)) : e.act ≠ .endReverse := by
  unfold reloadAfter at h
  cases ans with
  | none => cases h
  | some cell =>
    dsimp only at h
    repeat' split at h
    all_goals (cases h <;> (intro hh; cases hh))

theorem reloadStep_ER (σ : MixSt) (pc' : MixPC) (e : Ev)
    (h : (reloadStep (purePlanM plan) N S st σ []).2 = (pc', .yield e))
    (he : e.act = .endReverse) : pc' = .final := by
  unfold reloadStep at h
  split at h
  · split at h
    · cases h
    · injection h with h1 _; exact h1.symm
  · split at h
    · cases h
    · split at h
      · cases h
      · exact absurd he (reloadAfter_noER N st σ _ _ _ _ pc' e h)

/-! ### the generator yields the twin's list -/

/-- resuming repeatedly from `pc` yields exactly the events of the list, then the generator is
suspended at `yield EndReverse()`; `EndReverse` is only ever the last event -/
def Emits : MixPC → List Ev → Prop
  | pc, [] => pc = .final
  | pc, e :: es =>
    ∃ pc', (mixResume (purePlanM plan) N S st pc []).2 = (pc', .yield e) ∧
      (e.act = .endReverse → es = []) ∧ Emits pc' es

/-- the statement for the two loop heads at a given fuel -/
def TwinEmits (fuel : Nat) : Prop :=
  (∀ σ t l, mixInner plan N S st fuel σ t = .ok l → Emits plan N S st (.inner σ t) l) ∧
  (∀ σ l, mixReload plan N S st fuel σ = .ok l → Emits plan N S st (.reload σ) l)

theorem den_of_twin (fuel : Nat) (h : TwinEmits plan N S st fuel) (pc : MixPC) (l : List Ev)
    (hd : den plan N S st fuel pc = .ok l) : Emits plan N S st pc l := by
  cases pc with
  | inner σ t => exact h.1 σ t l hd
  | reload σ => exact h.2 σ l hd
  | final =>
    have : l = [] := by injection hd with hd; exact hd.symm
    subst this; rfl
  | dead => cases hd
  | fr2 σ n1 t =>
    obtain ⟨l', hk, rfl⟩ := yieldEv_ok _ _ _ hd
    exact ⟨_, rfl, (fun hh => by cases hh), h.1 _ _ _ hk⟩
  | rev σ =>
    obtain ⟨l', hk, rfl⟩ := yieldEv_ok _ _ _ hd
    exact ⟨_, rfl, (fun hh => by cases hh), h.2 _ _ hk⟩
  | icsPost σ n0 t =>
    replace hd : (if σ.snapshots.length > S - 1 then mixErr
      else mixInner plan N S st fuel
        { σ with snapshotN := n0 :: σ.snapshotN, snapshots := (stWriteIcs, n0, σ.n) :: σ.snapshots }
        t) = .ok l := hd
    by_cases hgt : σ.snapshots.length > S - 1
    · rw [if_pos hgt] at hd; cases hd
    · rw [if_neg hgt] at hd
      have hi := h.1 _ _ _ hd
      cases l with
      | nil => cases hi
      | cons e es =>
        obtain ⟨pc', h1, h2, h3⟩ := hi
        refine ⟨pc', ?_, h2, h3⟩
        rw [mixResume_icsPost, if_neg hgt]
        exact h1

/-- from "the twin's continuation after this resumption is `l`" to `Emits` -/
theorem emits_of_cont (fuel : Nat) (h : TwinEmits plan N S st fuel) (pc : MixPC) (X : MixPC × GenOut)
    (hX : (mixResume (purePlanM plan) N S st pc []).2 = X) (l : List Ev)
    (hl : contOf plan N S st fuel X = .ok l)
    (hER : ∀ pc' e, X = (pc', .yield e) → e.act = .endReverse → pc' = .final)
    (hret : ∀ pc', X ≠ (pc', .ret)) : Emits plan N S st pc l := by
  obtain ⟨pc', out⟩ := X
  cases out with
  | raise err => cases hl
  | ret => exact absurd rfl (hret pc')
  | yield e =>
    obtain ⟨l', hk, rfl⟩ := yieldEv_ok _ _ _ hl
    refine ⟨pc', hX, ?_, den_of_twin plan N S st fuel h pc' l' hk⟩
    intro he
    have := hER pc' e rfl he
    subst this
    injection hk with hk
    exact hk.symm

theorem innerAfter_noret (σ : MixSt) (ans : Option Cell) (pc' : MixPC) :
    innerAfter S st σ ans ≠ (pc', .ret) := by
  intro h
  unfold innerAfter at h
  cases ans with
  | none => cases h
  | some cell =>
    dsimp only at h
    repeat' split at h
    all_goals cases h

theorem turnStep_noret (σ : MixSt) (t : Nat) (pc' : MixPC) : turnStep N σ t ≠ (pc', .ret) := by
  intro h
  unfold turnStep revStep at h
  repeat' split at h
  all_goals cases h

theorem reloadStep_noret (σ : MixSt) (pc' : MixPC) :
    (reloadStep (purePlanM plan) N S st σ []).2 ≠ (pc', .ret) := by
  intro h
  unfold reloadStep at h
  split at h
  · split at h <;> cases h
  · split at h
    · cases h
    · split at h
      · cases h
      · dsimp only [purePlanM] at h
        unfold reloadAfter at h
        split at h
        · cases h
        · dsimp only at h
          repeat' split at h
          all_goals cases h

theorem twin_emits : ∀ fuel, TwinEmits plan N S st fuel := by
  intro fuel
  induction fuel using Nat.strong_induction_on with
  | _ fuel ih =>
    cases fuel with
    | zero =>
      refine ⟨fun σ t l h => ?_, fun σ l h => ?_⟩
      · rw [mixInner] at h; cases h
      · rw [mixReload] at h; cases h
    | succ f =>
      refine ⟨fun σ t l h => ?_, fun σ l h => ?_⟩
      · rw [inner_unroll] at h
        by_cases hlt : σ.n < N - σ.r
        · rw [if_pos hlt] at h
          refine emits_of_cont plan N S st f (ih f (Nat.lt_succ_self f)) _ _ ?_ l h ?_ ?_
          · show (innerStep (purePlanM plan) N S st σ t []).2 = _
            rw [innerStep_pos _ _ _ _ _ _ _ hlt]; rfl
          · intro pc' e hx he
            exact absurd he (innerAfter_noER S st σ _ pc' e hx)
          · intro pc'; exact innerAfter_noret S st σ _ pc'
        · rw [if_neg hlt] at h
          cases f with
          | zero => rw [mixTurn] at h; cases h
          | succ g =>
            rw [turn_unroll] at h
            refine emits_of_cont plan N S st g (ih g (by omega)) _ _ ?_ l h ?_ ?_
            · show (innerStep (purePlanM plan) N S st σ t []).2 = _
              rw [innerStep_neg _ _ _ _ _ _ _ hlt]
            · intro pc' e hx he
              exact absurd he (turnStep_noER N σ t pc' e hx)
            · intro pc'; exact turnStep_noret N σ t pc'
      · rw [reload_unroll] at h
        refine emits_of_cont plan N S st f (ih f (Nat.lt_succ_self f)) _ _ rfl l h ?_ ?_
        · intro pc' e hx he
          exact reloadStep_ER plan N S st σ pc' e hx he
        · intro pc'; exact reloadStep_noret plan N S st σ pc'

/-- the whole stream: from the initial state of the generator -/
theorem mixedIter_emits (fuel : Nat) (l : List Ev) (h : mixedIter plan N S st fuel = .ok l) :
    Emits plan N S st (.inner MixSt.init stNone) l :=
  (twin_emits plan N S st fuel).1 _ _ _ h

end twin

/-! ## the bisimulation with the pure machine -/

section bis
variable (plan : Planner) (N S : Nat) (st : Storage) (evs : List Ev)

/-- the pure machine of a Mixed schedule whose stream is `evs` -/
def refSched : Sched := offlineSched N (.ok evs) (fun x => some (x = st))

/-- lazy object `(m, pc)` and pure machine state `m'` agree on the flags, and the generator will
yield what the machine still has to emit -/
inductive Bis : MSt → MixPC → MSt → Prop
  | fresh (m : MSt) (pc : MixPC) (hN : m.maxN = some N) (hx : m.exhausted = false)
      (h : Emits plan N S st pc evs) : Bis m pc { m with phase := .fwd }
  | running (m : MSt) (pc : MixPC) (todo : List Ev) (hN : m.maxN = some N)
      (hx : m.exhausted = false) (h : Emits plan N S st pc todo) :
      Bis m pc { m with phase := .run todo 0 }
  | ended (m : MSt) (pc : MixPC) (hN : m.maxN = some N) (h : pc = .final ∨ pc = .dead) :
      Bis m pc { m with phase := .stopped }

theorem finalize_offline (m : MSt) (k : Int) (hN : m.maxN = some N) : (finalize m k).1 = m := by
  unfold finalize
  split
  · rfl
  · rw [hN]; dsimp only
    split <;> rfl

theorem finalize_phase (m : MSt) (ph : Phase) (k : Int) (hN : m.maxN = some N) :
    (finalize { m with phase := ph } k).2 = (finalize m k).2 := by
  unfold finalize
  split
  · rfl
  · rw [hN]; dsimp only
    split <;> rfl

/-- one `next()` from a state in which `todo` is still to come -/
theorem next_todo (m : MSt) (pc : MixPC) (todo : List Ev) (hN : m.maxN = some N)
    (hx : m.exhausted = false) (h : Emits plan N S st pc todo) (m' : MSt)
    (hm' : m' = { m with phase := .run todo 0 } ∨ (m' = { m with phase := .fwd } ∧ todo = evs)) :
    (mixNext (purePlanM plan) N S st m pc []).2.2.2 = ((refSched N st evs).next m').2 ∧
      Bis plan N S st evs (mixNext (purePlanM plan) N S st m pc []).2.1
        (mixNext (purePlanM plan) N S st m pc []).2.2.1 ((refSched N st evs).next m').1 := by
  cases todo with
  | nil =>
    have hpc : pc = .final := h
    subst hpc
    rcases hm' with rfl | ⟨rfl, he⟩
    · refine ⟨rfl, ?_⟩
      exact Bis.ended { m with started := true } .dead hN (Or.inr rfl)
    · subst he
      refine ⟨?_, ?_⟩
      · show NextOut.stop = _
        unfold Sched.next refSched offlineSched
        simp [hN]
      · have : ((refSched N st []).next { m with phase := .fwd }).1 =
            { ({ m with started := true } : MSt) with phase := .stopped } := by
          unfold Sched.next refSched offlineSched
          simp [hN]
        rw [this]
        exact Bis.ended { m with started := true } .dead hN (Or.inr rfl)
  | cons e rest =>
    obtain ⟨pc', h1, h2, h3⟩ := h
    have hmix : (mixNext (purePlanM plan) N S st m pc []).2 =
        mixNextOf m (pc', .yield e) := by
      show mixNextOf m (mixResume (purePlanM plan) N S st pc []).2 = _
      rw [h1]
    rw [hmix]
    have hpure : (refSched N st evs).next m' =
        (if e.act = .endReverse then
          { ({ m with started := true, n := e.n, r := e.r, exhausted := true } : MSt) with
              phase := .stopped }
         else
          { ({ m with started := true, n := e.n, r := e.r, exhausted := false } : MSt) with
              phase := .run rest 0 },
         .act ⟨e.act, e.n, e.r, some N, decide (e.act = .endReverse), true⟩) := by
      rcases hm' with rfl | ⟨rfl, he⟩
      · unfold Sched.next Sched.after refSched offlineSched
        by_cases hER : e.act = .endReverse
        · simp [hN, hER]
        · cases rest <;> simp [hN, hER]
      · subst he
        unfold Sched.next Sched.after refSched offlineSched
        by_cases hER : e.act = .endReverse
        · simp [hN, hER]
        · cases rest <;> simp [hN, hER]
    rw [hpure]
    by_cases hER : e.act = .endReverse
    · have hrest := h2 hER
      subst hrest
      have hpc' : pc' = .final := h3
      subst hpc'
      refine ⟨?_, ?_⟩
      · simp [mixNextOf, hx, hER, hN]
      · simp only [hER, if_true]
        have : (mixNextOf m (.final, .yield e)).1 =
            { m with started := true, n := e.n, r := e.r, exhausted := true } := by
          simp [mixNextOf, hx, hER]
        rw [this]
        exact Bis.ended _ .final hN (Or.inl rfl)
    · refine ⟨?_, ?_⟩
      · simp [mixNextOf, hx, hER, hN]
      · simp only [hER, if_false]
        have : (mixNextOf m (pc', .yield e)).1 =
            { m with started := true, n := e.n, r := e.r, exhausted := false } := by
          simp [mixNextOf, hx, hER]
        rw [this]
        exact Bis.running _ pc' rest hN rfl h3

/-- **The bisimulation step**: related states answer every operation equally and stay related. -/
theorem bis_step (m : MSt) (pc : MixPC) (m' : MSt) (h : Bis plan N S st evs m pc m') (op : OOp) :
    ((ObjSt.mixed N S st m pc).step (purePlanM plan) op []).2.2 =
      ((ObjSt.plain (refSched N st evs) m').step (purePlanM plan) op []).2.2 ∧
    ∃ m₁ pc₁ m₁', ((ObjSt.mixed N S st m pc).step (purePlanM plan) op []).2.1 = .mixed N S st m₁ pc₁ ∧
      ((ObjSt.plain (refSched N st evs) m').step (purePlanM plan) op []).2.1 =
        .plain (refSched N st evs) m₁' ∧ Bis plan N S st evs m₁ pc₁ m₁' := by
  cases op with
  | observe =>
    refine ⟨?_, m, pc, m', rfl, rfl, h⟩
    cases h <;> rfl
  | usesStorage x => exact ⟨rfl, m, pc, m', rfl, rfl, h⟩
  | finalize k =>
    have hN : m.maxN = some N := by cases h <;> assumption
    have e1 : (finalize m k).1 = m := finalize_offline N m k hN
    refine ⟨?_, m, pc, m', ?_, ?_, h⟩
    · show POut.fin (finalize m k).2 = POut.fin (finalize m' k).2
      cases h <;> exact congrArg POut.fin (finalize_phase N m _ k hN).symm
    · show ObjSt.mixed N S st (finalize m k).1 pc = _
      rw [e1]
    · show ObjSt.plain _ (finalize m' k).1 = _
      have : m'.maxN = some N := by cases h <;> exact hN
      rw [finalize_offline N m' k this]
  | next =>
    cases h with
    | fresh hN hx hE =>
      obtain ⟨a, b⟩ := next_todo plan N S st evs m pc evs hN hx hE _ (Or.inr ⟨rfl, rfl⟩)
      exact ⟨congrArg POut.next a, _, _, _, rfl, rfl, b⟩
    | running todo hN hx hE =>
      obtain ⟨a, b⟩ := next_todo plan N S st evs m pc todo hN hx hE _ (Or.inl rfl)
      exact ⟨congrArg POut.next a, _, _, _, rfl, rfl, b⟩
    | ended hN hpc =>
      have hres : (mixResume (purePlanM plan) N S st pc []).2 = (.dead, .ret) := by
        rcases hpc with rfl | rfl <;> rfl
      have hmix : (mixNext (purePlanM plan) N S st m pc []).2 = mixNextOf m (.dead, .ret) := by
        show mixNextOf m (mixResume (purePlanM plan) N S st pc []).2 = _
        rw [hres]
      refine ⟨?_, { m with started := true }, .dead, _, ?_, rfl, ?_⟩
      · show POut.next (mixNext (purePlanM plan) N S st m pc []).2.2.2 = _
        rw [hmix]; rfl
      · show ObjSt.mixed N S st (mixNext (purePlanM plan) N S st m pc []).2.1
          (mixNext (purePlanM plan) N S st m pc []).2.2.1 = _
        rw [hmix]; rfl
      · exact Bis.ended { m with started := true } .dead hN (Or.inr rfl)

theorem purePlanM_cache (o : ObjSt) (op : OOp) (c : Cache Cell) :
    (o.step (purePlanM plan) op c).1 = c := by
  cases o with
  | failed e => rfl
  | plain s m => cases op <;> rfl
  | mixed N' S' st' m pc =>
    cases op with
    | next =>
      show (mixResume (purePlanM plan) N' S' st' pc c).1 = c
      cases pc with
      | inner σ t =>
        show (innerStep (purePlanM plan) N' S' st' σ t c).1 = c
        unfold innerStep; split <;> rfl
      | fr2 σ n1 t => rfl
      | rev σ => rfl
      | icsPost σ n0 t =>
        rw [mixResume_icsPost]; split
        · rfl
        · unfold innerStep; split <;> rfl
      | reload σ =>
        show (reloadStep (purePlanM plan) N' S' st' σ c).1 = c
        unfold reloadStep
        repeat' split
        all_goals rfl
      | final => rfl
      | dead => rfl
    | finalize k => rfl
    | observe => rfl
    | usesStorage x => rfl

theorem bis_outs (ops : List OOp) (m : MSt) (pc : MixPC) (m' : MSt)
    (h : Bis plan N S st evs m pc m') :
    objOuts (purePlanM plan) (.mixed N S st m pc) [] ops =
      objOuts (purePlanM plan) (.plain (refSched N st evs) m') [] ops := by
  induction ops generalizing m pc m' with
  | nil => rfl
  | cons op rest ih =>
    obtain ⟨e, m₁, pc₁, m₁', h1, h2, hb⟩ := bis_step plan N S st evs m pc m' h op
    show _ :: _ = _ :: _
    rw [purePlanM_cache, purePlanM_cache, e, h1, h2, ih _ _ _ hb]

end bis

/-! ## the theorems -/

theorem specPlanner_eq_memoPlan : specPlanner = memoPlan := rfl

/-- **Refinement.**  For valid parameters, a `MixedCheckpointSchedule(N, s, storage=st)` on the
memoisation path, alone in a fresh process (lazy generator, planner queries through the memo
table), answers any sequence of `next()`, `finalize`, flag reads and `uses_storage_type` exactly
like the pure machine `Sched.next` over `mixedSched memoPlan N s st` (stream computed by the
recursive model from the recursive specification of the planner). -/
theorem lazyMixed_refines (N s : Nat) (st : Storage) (hst : st = .ram ∨ st = .disk) (hN : 1 ≤ N)
    (hs : min 1 (N - 1) ≤ s) (ops : List OOp) :
    ∃ sch, mixedSched memoPlan N s st = .ok sch ∧
      (Proc.init.run (soloHistory (.MX N s st false) ops)).2 =
        .constructed none :: plainOuts sch sch.init ops := by
  obtain ⟨evs0, _, _, hev, _⟩ := mixed_clean_plan memoPlan memoPlan_hyp N s st hst hN hs
  have hiter : mixedIter memoPlan N (min s (N - 1)) st (mixedIterFuel N) =
      .ok (evs0 ++ [⟨.endReverse, 1, N⟩]) := by
    rw [RC.mixedIter_eq_mixedEvs memoPlan memoPlan_hyp N s st hst hN hs _
      (by unfold mixedIterFuel; omega), hev]
  have hE := mixedIter_emits memoPlan N (min s (N - 1)) st _ _ hiter
  have hc1 : ¬ (s < min 1 (N - 1) ∧ 1 ≤ N) := by omega
  have hc2 : ¬ ¬ (st = .ram ∨ st = .disk) := fun h => h hst
  have hc3 : ¬ N < 1 := by omega
  have hsched : mixedSched memoPlan N s st =
      .ok (refSched N st (evs0 ++ [⟨.endReverse, 1, N⟩])) := by
    unfold mixedSched
    rw [if_neg hc1, if_neg hc2, if_neg hc3, hev]
    rfl
  refine ⟨_, hsched, ?_⟩
  rw [run_solo]
  have hobj : (mkObj (.MX N s st false)).st =
      .mixed N (min s (N - 1)) st
        { n := 0, r := 0, maxN := some N, started := false, exhausted := false, phase := .fwd }
        (.inner MixSt.init stNone) := by
    show mkMixed N s st = _
    unfold mkMixed
    rw [if_neg hc1, if_neg hc2, if_neg hc3]
  rw [hobj]
  congr 1
  rw [objOuts_spec memoQuery_spec _ [] [] (CacheOK_nil _), specPlanner_eq_memoPlan,
    bis_outs memoPlan N (min s (N - 1)) st (evs0 ++ [⟨.endReverse, 1, N⟩]) ops _ _ _
      (Bis.fresh _ _ rfl rfl hE), objOuts_plain]
  rfl

/-- **C15 for Mixed objects, against the pure model.**  In ANY history — other schedules of any
class built and iterated before, in between and concurrently, other Mixed objects filling the
shared memo table, helper calls, observer reads — the answers of a Mixed object with valid
parameters are those of the pure machine over the recursive specification. -/
theorem C15_mixed_process (pre post : List POp) (N s : Nat) (st : Storage)
    (hst : st = .ram ∨ st = .disk) (hN : 1 ≤ N) (hs : min 1 (N - 1) ≤ s) :
    ∃ sch, mixedSched memoPlan N s st = .ok sch ∧
      ownOuts (Proc.init.run pre).1.objs.length (.construct (.MX N s st false) :: post)
          ((Proc.init.run (pre ++ .construct (.MX N s st false) :: post)).2.drop pre.length)
        = plainOuts sch sch.init (ownOps (Proc.init.run pre).1.objs.length post) := by
  obtain ⟨sch, h1, h2⟩ := lazyMixed_refines N s st hst hN hs
    (ownOps (Proc.init.run pre).1.objs.length post)
  refine ⟨sch, h1, ?_⟩
  have h := C15_process pre post (.MX N s st false)
  simp only at h
  rw [h, h2]
  rfl

/-- every other class: the object of the process model *is* the pure machine -/
theorem C15_plain_process (pre post : List POp) (spec : Spec) (sch : Sched)
    (hspec : ∀ N s st, spec ≠ .MX N s st false) (hs : spec.sched = .ok sch) :
    ownOuts (Proc.init.run pre).1.objs.length (.construct spec :: post)
        ((Proc.init.run (pre ++ .construct spec :: post)).2.drop pre.length)
      = plainOuts sch sch.init (ownOps (Proc.init.run pre).1.objs.length post) := by
  have h := C15_process pre post spec
  simp only at h
  rw [h, run_solo]
  have hobj : (mkObj spec).st = .plain sch sch.init := by
    have : (mkObj spec).st = mkPlain spec := by
      cases spec with
      | MX N s st numba =>
        cases numba with
        | false => exact absurd rfl (hspec N s st)
        | true => rfl
      | _ => rfl
    rw [this]; unfold mkPlain; rw [hs]
  rw [hobj]
  exact objOuts_plain _ _ _ _ _

-- the hypotheses are satisfiable: the two Mixed objects of `exHistory`
example (ops : List OOp) := lazyMixed_refines 5 2 .disk (Or.inr rfl) (by decide) (by decide) ops
example := C15_mixed_process (exHistory.take 4) (exHistory.drop 5) 5 2 .disk (Or.inr rfl)
  (by decide) (by decide)

#print axioms lazyMixed_refines
#print axioms C15_mixed_process
#print axioms C15_plain_process

end Ckpt.Proc
