import CkptVerif.Proofs.OpsRevolve
import CkptVerif.Proofs.HRevolveStruct
/-!
# Refinement for HRevolve: the twin's stream is the structural stream `hRs` (= `resolveLoads ∘ hR`)
-/
namespace Ckpt.Ops

/-! ## `hrevolve_recurse` / `hrevolve_aux` at offset `lo`, in block form -/

/-- `Write_Forward [0, lo+1]; Forward [lo, lo+1]; Backward [lo+1, lo]; Discard_Forward [0, lo+1]` -/
def hturn (lo : Nat) : List Op :=
  [Op.wf 0 (lo + 1), Op.fwd lo (lo + 1), Op.bwd (lo + 1) lo, Op.df 0 (lo + 1)]

/-- the stored segment `[lo, lo+n+1)` with one RAM slot -/
def hqLoop (lo : Nat) : Nat → List Op
  | 0 => [Op.r 0 lo] ++ hturn lo ++ [Op.d 0 lo]
  | n+1 => [Op.r 0 lo, Op.fwd lo (lo + n + 1)] ++ hturn (lo + n + 1) ++ hqLoop lo n

mutual
def hrecAt (c : HCtx) : (fuel lo l K cmem : Nat) → Option (List Op)
  | 0, _, _, _, _ => none
  | fuel+1, lo, l, K, cmem =>
    if l = 0 then some (hturn lo)
    else if K = 0 ∧ cmem = 0 then none
    else if l = 1 then
      some ([Op.w 0 lo, Op.fwd lo (lo + 1)] ++ hturn (lo + 1) ++ hqLoop lo 0)
    else if K = 0 then
      match hauxAt c fuel lo l 0 cmem with
      | none => none
      | some aux => some ([Op.w 0 lo] ++ aux)
    else if olt (oadd (some (c.w K)) (c.tab.optp K l cmem)) (c.tab.opt (K - 1) l (cv c (K - 1))) then
      match hauxAt c fuel lo l K cmem with
      | none => none
      | some aux => some ([Op.w K lo] ++ aux)
    else hrecAt c fuel lo l (K - 1) (cv c (K - 1))
def hauxAt (c : HCtx) : (fuel lo l K cmem : Nat) → Option (List Op)
  | 0, _, _, _, _ => none
  | fuel+1, lo, l, K, cmem =>
    if cmem = 0 then none
    else if l = 0 then some (hturn lo)
    else if l = 1 then
      if c.w 0 + c.rr 0 < c.rr K then
        some ([Op.w 0 lo, Op.fwd lo (lo + 1)] ++ hturn (lo + 1) ++ hqLoop lo 0)
      else
        some ([Op.fwd lo (lo + 1)] ++ hturn (lo + 1) ++ [Op.r K lo] ++ hturn lo ++ [Op.d 0 lo])
    else if K = 0 ∧ cmem = 1 then
      some ([Op.fwd lo (lo + l)] ++ hturn (lo + l) ++ hqLoop lo (l - 1))
    else if hSplit c K cmem l then
      match hrecAt c fuel (lo + argminO (hCands c K cmem l)) (l - argminO (hCands c K cmem l)) K
          (cmem - 1) with
      | none => none
      | some right =>
        match hauxAt c fuel lo (argminO (hCands c K cmem l) - 1) K cmem with
        | none => none
        | some left =>
          let s := [Op.fwd lo (lo + argminO (hCands c K cmem l))] ++ right ++ [Op.r K lo] ++ left
          some (if K = 0 ∧ (s.getLast?.map (·.kind)) ≠ some .discard then s ++ [Op.d 0 lo] else s)
    else if K = 0 then hauxAt c fuel lo l 0 1
    else hrecAt c fuel lo l (K - 1) (cv c (K - 1))
end

theorem shiftOp_w (s K n : Nat) : shiftOp s (Op.w K n) = Op.w K (s + n) := by
  simp [shiftOp, Op.w, Nat.add_comm]
theorem shiftOp_r (s K n : Nat) : shiftOp s (Op.r K n) = Op.r K (s + n) := by
  simp [shiftOp, Op.r, Nat.add_comm]
theorem shiftOp_d (s K n : Nat) : shiftOp s (Op.d K n) = Op.d K (s + n) := by
  simp [shiftOp, Op.d, Nat.add_comm]
theorem shiftOp_wf (s K n : Nat) : shiftOp s (Op.wf K n) = Op.wf K (s + n) := by
  simp [shiftOp, Op.wf, Nat.add_comm]
theorem shiftOp_df (s K n : Nat) : shiftOp s (Op.df K n) = Op.df K (s + n) := by
  simp [shiftOp, Op.df, Nat.add_comm]

theorem shiftOps_hturn (s lo : Nat) : shiftOps s (hturn lo) = hturn (s + lo) := by
  simp [shiftOps, hturn, shiftOp_wf, shiftOp_fwd, shiftOp_bwd, shiftOp_df, Nat.add_assoc]

theorem shiftOps_hqLoop (s lo : Nat) : ∀ n, shiftOps s (hqLoop lo n) = hqLoop (s + lo) n := by
  intro n
  induction n with
  | zero =>
    rw [hqLoop, hqLoop, shiftOps_append, shiftOps_append, shiftOps_hturn]
    simp [shiftOps, shiftOp_r, shiftOp_d]
  | succ n ih =>
    rw [hqLoop, hqLoop, shiftOps_append, shiftOps_append, ih, shiftOps_hturn]
    simp [shiftOps, shiftOp_r, shiftOp_fwd, Nat.add_assoc]

theorem hrevolve_loop_eq (l : Nat) : ∀ n, n + 1 ≤ l →
    (List.range n).reverse.flatMap (hrevolveLoopBody l) ++
      [Op.r 0 0, Op.wf 0 1, Op.fwd 0 1, Op.bwd 1 0, Op.df 0 1, Op.d 0 0] = hqLoop 0 n := by
  intro n
  induction n with
  | zero => intro _; simp [hqLoop, hturn]
  | succ n ih =>
    intro hn
    have hr : (List.range (n + 1)).reverse = n :: (List.range n).reverse := by
      rw [List.range_succ, List.reverse_append]; rfl
    rw [hr, List.flatMap_cons, List.append_assoc, ih (by omega)]
    have h1 : n ≠ l - 1 := by omega
    simp [hrevolveLoopBody, hqLoop, hturn, h1]

theorem getLast?_shiftOps_kind (s : Nat) (ops : List Op) :
    (shiftOps s ops).getLast?.map (·.kind) = ops.getLast?.map (·.kind) := by
  unfold shiftOps
  rw [List.getLast?_map]
  cases ops.getLast? with
  | none => rfl
  | some o => simp [shiftOp_kind]

/-- the Python sequences shifted by `lo` are the block forms at offset `lo` -/
theorem shiftOps_hrevolve (c : HCtx) : ∀ fuel,
    (∀ lo l K cm, (hrevolveRecOps c fuel l K cm).map (shiftOps lo) = hrecAt c fuel lo l K cm) ∧
    (∀ lo l K cm, (hrevolveAuxOps c fuel l K cm).map (shiftOps lo) = hauxAt c fuel lo l K cm) := by
  intro fuel
  induction fuel with
  | zero =>
    constructor
    · intro lo l K cm; rw [hrevolveRecOps, hrecAt]; rfl
    · intro lo l K cm; rw [hrevolveAuxOps, hauxAt]; rfl
  | succ fuel ih =>
    obtain ⟨ihR, ihA⟩ := ih
    constructor
    · intro lo l K cm
      rw [hrevolveRecOps, hrecAt]
      by_cases h0 : l = 0
      · rw [if_pos h0, if_pos h0, Option.map_some]
        simp [shiftOps, hturn, shiftOp_wf, shiftOp_fwd, shiftOp_bwd, shiftOp_df]
      rw [if_neg h0, if_neg h0]
      by_cases hk : K = 0 ∧ cm = 0
      · rw [if_pos hk, if_pos hk]; rfl
      rw [if_neg hk, if_neg hk]
      by_cases h1 : l = 1
      · rw [if_pos h1, if_pos h1, Option.map_some]
        simp [shiftOps, hturn, hqLoop, shiftOp_wf, shiftOp_fwd, shiftOp_bwd, shiftOp_df, shiftOp_w,
          shiftOp_r, shiftOp_d]
      rw [if_neg h1, if_neg h1]
      by_cases hK : K = 0
      · rw [if_pos hK, if_pos hK, ← ihA lo l 0 cm]
        cases hrevolveAuxOps c fuel l 0 cm with
        | none => rfl
        | some aux =>
          simp only [Option.map_some]
          rw [shiftOps_append]
          simp [shiftOps, shiftOp_w]
      rw [if_neg hK, if_neg hK]
      by_cases ht : olt (oadd (some (c.w K)) (c.tab.optp K l cm))
          (c.tab.opt (K - 1) l (cv c (K - 1))) = true
      · rw [if_pos ht, if_pos ht, ← ihA lo l K cm]
        cases hrevolveAuxOps c fuel l K cm with
        | none => rfl
        | some aux =>
          simp only [Option.map_some]
          rw [shiftOps_append]
          simp [shiftOps, shiftOp_w]
      · rw [if_neg ht, if_neg ht]
        exact ihR lo l (K - 1) (cv c (K - 1))
    · intro lo l K cm
      rw [hrevolveAuxOps, hauxAt]
      by_cases hc : cm = 0
      · rw [if_pos hc, if_pos hc]; rfl
      rw [if_neg hc, if_neg hc]
      by_cases h0 : l = 0
      · rw [if_pos h0, if_pos h0, Option.map_some]
        simp [shiftOps, hturn, shiftOp_wf, shiftOp_fwd, shiftOp_bwd, shiftOp_df]
      rw [if_neg h0, if_neg h0]
      by_cases h1 : l = 1
      · rw [if_pos h1, if_pos h1]
        dsimp only
        by_cases ht : c.w 0 + c.rr 0 < c.rr K
        · rw [if_pos ht]
          simp [ht, shiftOps, hturn, hqLoop, shiftOp_wf, shiftOp_fwd, shiftOp_bwd, shiftOp_df,
            shiftOp_w, shiftOp_r, shiftOp_d]
        · rw [if_neg ht]
          simp [ht, shiftOps, hturn, shiftOp_wf, shiftOp_fwd, shiftOp_bwd, shiftOp_df,
            shiftOp_r, shiftOp_d]
      rw [if_neg h1, if_neg h1]
      by_cases hk : K = 0 ∧ cm = 1
      · rw [if_pos hk, if_pos hk, Option.map_some]
        obtain ⟨l', rfl⟩ : ∃ l', l = l' + 1 := ⟨l - 1, by omega⟩
        have hr : (List.range (l' + 1)).reverse = l' :: (List.range l').reverse := by
          rw [List.range_succ, List.reverse_append]; rfl
        rw [hr, List.flatMap_cons, List.append_assoc, hrevolve_loop_eq (l' + 1) l' (by omega),
          shiftOps_append, shiftOps_hqLoop]
        simp [hrevolveLoopBody, shiftOps, hturn, shiftOp_wf, shiftOp_fwd, shiftOp_bwd, shiftOp_df,
          Nat.add_assoc]
      rw [if_neg hk, if_neg hk]
      dsimp only
      have hcands : (List.range' 1 (l - 1)).map (fun j =>
          oadd (oadd (oadd (some (j * c.uf)) (c.tab.opt K (l - j) (cm - 1))) (some (c.rr K)))
            (c.tab.optp K (j - 1) cm)) = hCands c K cm l := rfl
      rw [hcands]
      by_cases hK : K = 0
      · subst hK
        rw [if_pos rfl]
        have hsp : olt (ominList (hCands c 0 cm l)) (c.tab.optp 0 l 1) = hSplit c 0 cm l := rfl
        rw [hsp]
        by_cases hs : hSplit c 0 cm l = true
        · rw [if_pos hs, if_pos hs]
          generalize argminO (hCands c 0 cm l) = j
          rw [← ihR (lo + j) (l - j) 0 (cm - 1), ← ihA lo (j - 1) 0 cm]
          cases hrevolveRecOps c fuel (l - j) 0 (cm - 1) with
          | none => rfl
          | some right =>
            cases hrevolveAuxOps c fuel (j - 1) 0 cm with
            | none => rfl
            | some left =>
              simp only [Option.map_some]
              have e : shiftOps lo ([Op.fwd 0 j] ++ shiftOps j right ++ [Op.r 0 0] ++ left) =
                  [Op.fwd lo (lo + j)] ++ shiftOps (lo + j) right ++ [Op.r 0 lo] ++ shiftOps lo left := by
                rw [shiftOps_append, shiftOps_append, shiftOps_append, shiftOps_shiftOps]
                simp [shiftOps, shiftOp_fwd, shiftOp_r]
              have ek := getLast?_shiftOps_kind lo
                ([Op.fwd 0 j] ++ shiftOps j right ++ [Op.r 0 0] ++ left)
              rw [e] at ek
              by_cases hd : (([Op.fwd 0 j] ++ shiftOps j right ++ [Op.r 0 0] ++ left).getLast?.map
                  (·.kind)) ≠ some .discard
              · rw [if_pos hd, if_pos ⟨trivial, by rw [ek]; exact hd⟩, shiftOps_append, e]
                simp [shiftOps, shiftOp_d]
              · rw [if_neg hd, if_neg (fun h => hd (by rw [← ek]; exact h.2)), e]
        · rw [if_neg hs, if_neg hs, if_pos rfl]
          exact ihA lo l 0 1
      · rw [if_neg hK]
        have hsp : olt (ominList (hCands c K cm l)) (c.tab.opt (K - 1) l (cv c (K - 1))) =
            hSplit c K cm l := by
          unfold hSplit hOther; rw [if_neg hK]
        rw [hsp]
        by_cases hs : hSplit c K cm l = true
        · rw [if_pos hs, if_pos hs]
          generalize argminO (hCands c K cm l) = j
          rw [← ihR (lo + j) (l - j) K (cm - 1), ← ihA lo (j - 1) K cm]
          cases hrevolveRecOps c fuel (l - j) K (cm - 1) with
          | none => rfl
          | some right =>
            cases hrevolveAuxOps c fuel (j - 1) K cm with
            | none => rfl
            | some left =>
              simp only [Option.map_some]
              rw [if_neg (fun h => hK h.1), shiftOps_append, shiftOps_append, shiftOps_append,
                shiftOps_shiftOps]
              simp [shiftOps, shiftOp_fwd, shiftOp_r]
        · rw [if_neg hs, if_neg hs, if_neg hK]
          exact ihR lo l (K - 1) (cv c (K - 1))

/-! ## the hierarchical operations -/

theorem convAct_w (K n : Nat) (hK : K ≤ 1) : convAct (Op.w K n) = .ok ⟨.write, n, none, some (lvl K)⟩ := by
  rcases Nat.le_one_iff_eq_zero_or_eq_one.1 hK with rfl | rfl <;> rfl

theorem convAct_r (K n : Nat) (hK : K ≤ 1) : convAct (Op.r K n) = .ok ⟨.read, n, none, some (lvl K)⟩ := by
  rcases Nat.le_one_iff_eq_zero_or_eq_one.1 hK with rfl | rfl <;> rfl

theorem convAct_d (K n : Nat) (hK : K ≤ 1) : convAct (Op.d K n) = .ok ⟨.discard, n, none, some (lvl K)⟩ := by
  rcases Nat.le_one_iff_eq_zero_or_eq_one.1 hK with rfl | rfl <;> rfl

theorem convAct_wf (K n : Nat) : convAct (Op.wf K n) = .ok ⟨.writeForward, n, none, some .work⟩ := rfl
theorem convAct_df (K n : Nat) : convAct (Op.df K n) = .ok ⟨.discardForward, n, none, some .work⟩ := rfl

theorem opKeyOf_r (K n : Nat) (hK : K ≤ 1) : opKeyOf (Op.r K n) = (some (lvl K), n) := by
  unfold opKeyOf; rw [convAct_r K n hK]

theorem opKeyOf_w (K n : Nat) (hK : K ≤ 1) : opKeyOf (Op.w K n) = (some (lvl K), n) := by
  unfold opKeyOf; rw [convAct_w K n hK]

theorem opTouches_hturn (lo : Nat) : ∀ o ∈ hturn lo, opTouches o = false := by
  intro o ho
  simp [hturn] at ho
  rcases ho with rfl | rfl | rfl | rfl <;> rfl

theorem wf_hturn (lo : Nat) : OpsWf (hturn lo) := by
  intro o ho
  simp [hturn] at ho
  rcases ho with rfl | rfl | rfl | rfl
  · exact ⟨_, convAct_wf _ _⟩
  · exact ⟨_, convAct_fwd _ _ (by omega)⟩
  · exact ⟨_, convAct_bwd _ _ (by omega)⟩
  · exact ⟨_, convAct_df _ _⟩

theorem hturn_block (N : Nat) (wrap : Option Op) (pos : Nat) (prev : Option Op) (tail : List Op)
    (lo : Nat) (S : List (Option Storage × Nat)) (hlo : lo + 1 ≤ N) :
    Conv N wrap pos prev (hturn lo) tail lo (N - (lo + 1)) S (turnEvs N lo) (lo + 1) (N - lo) S := by
  have e : N - lo = N - (lo + 1) + 1 := by omega
  rw [e]
  unfold hturn
  refine Conv.evs (evs' := [] ++ (fwdEvs N lo (lo + 1) (N - (lo + 1)) false true .work ++
    ([⟨.reverse (lo + 1) lo true, lo + 1, N - (lo + 1) + 1⟩] ++ ([] ++ [])))) ?_ (by simp [turnEvs])
  refine Conv.cons (step_wf N _ _ (Op.df 0 (lo + 1)) _ _ lo _ S (Or.inr ⟨rfl, rfl⟩) rfl rfl) ?_
  refine Conv.cons (n1 := lo + 1) (r1 := N - (lo + 1)) (S1 := S) ?_ ?_
  · rw [if_neg (by omega)]
    exact step_fwd_turn N _ _ _ _ lo _ S _ (convAct_wf _ _) (Or.inl rfl) rfl rfl (by omega)
  refine Conv.cons (step_bwd N _ _ _ _ lo _ S (by omega)) ?_
  refine Conv.cons (step_noop N _ _ _ _ _ (lo + 1) _ S _ (convAct_df _ _)
    (Or.inl ⟨Or.inl rfl, rfl⟩)) ?_
  exact Conv.nil _ _ _ _ _ _ _ _

/-- `evBase` is the turn-around step -/
theorem evBase_eq_turn (c : HCtx) (lo : Nat) (spine : Bool) (h : spine = true ↔ lo + 1 = c.N) :
    evBase c lo (lo + 1) spine = turnEvs c.N lo := by
  by_cases hN : lo + 1 = c.N
  · have : spine = true := h.2 hN
    subst this
    simp [evBase, turnEvs, fwdEvs, hN]
  · have : spine = false := by
      cases spine with
      | false => rfl
      | true => exact absurd (h.1 rfl) hN
    subst this
    simp [evBase, turnEvs, fwdEvs, hN]

theorem hqLoop_head (lo n : Nat) : ∃ x, hqLoop lo n = Op.r 0 lo :: x := by
  cases n with
  | zero => exact ⟨_, rfl⟩
  | succ n => exact ⟨_, rfl⟩

theorem lastRd_r (K n : Nat) (hK : K ≤ 1) (rest : List Op) :
    lastRd (some (lvl K), n) (Op.r K n :: rest) = false := by
  rw [lastRd, if_pos ⟨rfl, opKeyOf_r K n hK⟩]

theorem lastRd_hqLoop (lo n : Nat) (y : List Op) :
    lastRd (some .ram, lo) (hqLoop lo n ++ y) = false := by
  obtain ⟨x, hx⟩ := hqLoop_head lo n
  rw [hx, List.cons_append]
  exact lastRd_r 0 lo (by omega) _

theorem mem_hqLoop_zero (lo : Nat) (o : Op) :
    o ∈ hqLoop lo 0 ↔ o = Op.r 0 lo ∨ o ∈ hturn lo ∨ o = Op.d 0 lo := by
  simp [hqLoop]

theorem mem_hqLoop_succ (lo n : Nat) (o : Op) :
    o ∈ hqLoop lo (n + 1) ↔ o = Op.r 0 lo ∨ o = Op.fwd lo (lo + n + 1) ∨ o ∈ hturn (lo + n + 1) ∨
      o ∈ hqLoop lo n := by
  simp [hqLoop]

/-- facts about a block of operations for the segment `[lo, hi)`: well-formed, reads and writes
concern steps in `[lo, hi)`, RAM only if `ramOnly` -/
structure OpsFacts (lo hi : Nat) (ramOnly : Prop) (ops : List Op) : Prop where
  wf : OpsWf ops
  keys : KeysOps lo hi ops
  ram : ramOnly → ∀ o ∈ ops, opTouches o = true → (opKeyOf o).1 = some Storage.ram

theorem OpsFacts.append {lo hi : Nat} {p : Prop} {a b : List Op} (ha : OpsFacts lo hi p a)
    (hb : OpsFacts lo hi p b) : OpsFacts lo hi p (a ++ b) where
  wf := ha.wf.append hb.wf
  keys := ha.keys.append hb.keys
  ram := by
    intro hp o ho ht
    rcases List.mem_append.1 ho with h | h
    · exact ha.ram hp o h ht
    · exact hb.ram hp o h ht

theorem OpsFacts.mono {lo hi lo' hi' : Nat} {p p' : Prop} {a : List Op} (ha : OpsFacts lo hi p a)
    (h1 : lo' ≤ lo) (h2 : hi ≤ hi') (h3 : p' → p) : OpsFacts lo' hi' p' a where
  wf := ha.wf
  keys := ha.keys.mono h1 h2
  ram := fun hp => ha.ram (h3 hp)

theorem OpsFacts.of_noTouch {lo hi : Nat} {p : Prop} {a : List Op} (hwf : OpsWf a)
    (h : ∀ o ∈ a, opTouches o = false) : OpsFacts lo hi p a where
  wf := hwf
  keys := KeysOps.of_noTouch h
  ram := by intro _ o ho ht; rw [h o ho] at ht; cases ht

theorem OpsFacts.single {lo hi : Nat} {p : Prop} (o : Op) (hwf : ∃ a, convAct o = .ok a)
    (h : opTouches o = true → lo ≤ (opKeyOf o).2 ∧ (opKeyOf o).2 < hi ∧
      (p → (opKeyOf o).1 = some Storage.ram)) : OpsFacts lo hi p [o] where
  wf := by intro o' ho'; rw [List.mem_singleton] at ho'; subst ho'; exact hwf
  keys := by
    intro o' ho' ht; rw [List.mem_singleton] at ho'; subst ho'
    exact ⟨(h ht).1, (h ht).2.1⟩
  ram := by
    intro hp o' ho' ht; rw [List.mem_singleton] at ho'; subst ho'
    exact (h ht).2.2 hp

theorem facts_hturn (lo hi lo' : Nat) (p : Prop) : OpsFacts lo hi p (hturn lo') :=
  OpsFacts.of_noTouch (wf_hturn lo') (opTouches_hturn lo')

theorem facts_fwd (lo hi a b : Nat) (p : Prop) (h : a < b) : OpsFacts lo hi p [Op.fwd a b] :=
  OpsFacts.single _ ⟨_, convAct_fwd a b h⟩ (fun ht => by cases ht)

theorem facts_d (lo hi n : Nat) (p : Prop) : OpsFacts lo hi p [Op.d 0 n] :=
  OpsFacts.single _ ⟨_, convAct_d 0 n (by omega)⟩ (fun ht => by cases ht)

theorem facts_r (lo hi K : Nat) (p : Prop) (hK : K ≤ 1) (hlt : lo < hi) (hp : p → K = 0) :
    OpsFacts lo hi p [Op.r K lo] :=
  OpsFacts.single _ ⟨_, convAct_r K lo hK⟩ (fun _ => by
    rw [opKeyOf_r K lo hK]
    exact ⟨le_refl _, hlt, fun h => by rw [hp h]; rfl⟩)

theorem facts_w (lo hi K : Nat) (p : Prop) (hK : K ≤ 1) (hlt : lo < hi) (hp : p → K = 0) :
    OpsFacts lo hi p [Op.w K lo] :=
  OpsFacts.single _ ⟨_, convAct_w K lo hK⟩ (fun _ => by
    rw [opKeyOf_w K lo hK]
    exact ⟨le_refl _, hlt, fun h => by rw [hp h]; rfl⟩)

theorem facts_hqLoop (lo hi : Nat) (p : Prop) (hlt : lo < hi) : ∀ n, OpsFacts lo hi p (hqLoop lo n) := by
  intro n
  induction n with
  | zero =>
    exact ((facts_r lo hi 0 p (by omega) hlt (fun _ => rfl)).append (facts_hturn lo hi lo p)).append
      (facts_d lo hi lo p)
  | succ n ih =>
    have : hqLoop lo (n + 1) = [Op.r 0 lo] ++ [Op.fwd lo (lo + n + 1)] ++ hturn (lo + n + 1) ++
        hqLoop lo n := by simp [hqLoop]
    rw [this]
    exact (((facts_r lo hi 0 p (by omega) hlt (fun _ => rfl)).append
      (facts_fwd lo hi _ _ p (by omega))).append (facts_hturn lo hi _ p)).append ih

/-- the stored segment `[lo, lo+n+1)` reversed with a single RAM slot -/
theorem hqLoop_conv (c : HCtx) (wrap : Option Op) (tail : List Op) (lo : Nat)
    (S : List (Option Storage × Nat)) (htail : TailOk lo tail) (hS : SnapOk lo S) :
    ∀ (n : Nat), lo + n + 1 < c.N →
      ∀ pos prev n0, Conv c.N wrap pos prev (hqLoop lo n) tail n0 (c.N - (lo + n + 1))
        ((some .ram, lo) :: S)
        ((List.range n).reverse.flatMap (loopEv c lo) ++ [evLoad false lo .ram (c.N - (lo + 1))] ++
          evBase c lo (lo + 1) false) (lo + 1) (c.N - lo) S := by
  have hkey : (some Storage.ram, lo) ∉ S := by
    intro h; have := hS _ h; simp at this
  intro n
  induction n with
  | zero =>
    intro hN pos prev n0
    show Conv c.N wrap pos prev (Op.r 0 lo :: (hturn lo ++ [Op.d 0 lo])) tail n0 _ _ _ _ _ _
    have hlast : isLastAt (Op.r 0 lo) ((hturn lo ++ [Op.d 0 lo]) ++ tail) = true := by
      unfold isLastAt
      rw [opKeyOf_r 0 lo (by omega), List.append_assoc, lastRd_skip _ _ _ (fun o ho ht => by
        rw [opTouches_hturn lo o ho] at ht; cases ht)]
      rw [List.singleton_append, lastRd]
      simp only [opIsRead, opIsWrite, Op.d, OpKind.isRead, OpKind.isWrite, Bool.false_eq_true,
        false_and, if_false]
      exact lastRd_tail lo tail htail _ lo (le_refl _)
    refine Conv.evs (evs' := [⟨.move lo .ram .work, lo, c.N - (lo + 0 + 1)⟩] ++
      (turnEvs c.N lo ++ ([] ++ []))) ?_ (by
        rw [evBase_eq_turn c lo false (by constructor <;> intro h <;> [cases h; omega])]
        simp [evLoad])
    refine Conv.cons (n1 := lo) (r1 := c.N - (lo + 0 + 1)) (S1 := S) ?_ ?_
    · rw [hlast]
      exact step_read_last c.N _ _ _ _ n0 _ S _ .ram (convAct_r 0 lo (by omega)) rfl rfl hkey
    · refine Conv.append (n1 := lo + 1) (r1 := c.N - lo) (S1 := S) (by simp [hturn]) ?_ ?_
      · exact Conv.congr (hturn_block c.N wrap _ _ _ lo S (by omega)) rfl (by simp) rfl rfl rfl
      · refine Conv.cons (e1 := []) (e2 := []) ?_ (Conv.nil _ _ _ _ _ _ _ _)
        refine step_noop c.N _ _ _ _ _ (lo + 1) _ S _ (convAct_d 0 lo (by omega))
          (Or.inr (Or.inl ⟨Or.inl rfl, ?_⟩))
        simp [hturn]
  | succ n ih =>
    intro hN pos prev n0
    show Conv c.N wrap pos prev (Op.r 0 lo :: Op.fwd lo (lo + n + 1) ::
      (hturn (lo + n + 1) ++ hqLoop lo n)) tail n0 _ _ _ _ _ _
    have hlast : isLastAt (Op.r 0 lo)
        ((Op.fwd lo (lo + n + 1) :: (hturn (lo + n + 1) ++ hqLoop lo n)) ++ tail) = false := by
      unfold isLastAt
      rw [opKeyOf_r 0 lo (by omega), List.cons_append, lastRd]
      simp only [opIsRead, opIsWrite, Op.fwd, OpKind.isRead, OpKind.isWrite, Bool.false_eq_true,
        false_and, if_false]
      rw [List.append_assoc, lastRd_skip _ _ _ (fun o ho ht => by
        rw [opTouches_hturn _ o ho] at ht; cases ht)]
      exact lastRd_hqLoop lo n tail
    have hne : ¬ lo + n + 1 = c.N := by omega
    have hr : (List.range (n + 1)).reverse = n :: (List.range n).reverse := by
      rw [List.range_succ, List.reverse_append]; rfl
    refine Conv.evs (evs' := [⟨.copy lo .ram .work, lo, c.N - (lo + (n + 1) + 1)⟩] ++
      (fwdEvs c.N lo (lo + n + 1) (c.N - (lo + (n + 1) + 1)) false false .work ++
        (turnEvs c.N (lo + n + 1) ++
          ((List.range n).reverse.flatMap (loopEv c lo) ++ [evLoad false lo .ram (c.N - (lo + 1))] ++
            evBase c lo (lo + 1) false)))) ?_ (by
        rw [hr, List.flatMap_cons, loopEv,
          show lo + n + 2 = lo + n + 1 + 1 from rfl,
          evBase_eq_turn c (lo + n + 1) false (by constructor <;> intro h <;> [cases h; omega])]
        have hne' : ¬ lo + (n + 1) = c.N := by omega
        simp [evLoad, evFwd, fwdEvs, hne', Nat.add_assoc])
    refine Conv.cons (n1 := lo) (r1 := c.N - (lo + (n + 1) + 1)) (S1 := (some .ram, lo) :: S) ?_ ?_
    · rw [hlast]
      exact step_read_copy c.N _ _ _ _ n0 _ _ _ .ram (convAct_r 0 lo (by omega)) rfl rfl
    refine Conv.cons (n1 := lo + n + 1) (r1 := c.N - (lo + (n + 1) + 1))
      (S1 := (some .ram, lo) :: S) ?_ ?_
    · rw [if_neg (by omega)]
      exact step_fwd_plain c.N _ _ _ _ lo (lo + n + 1) _ _ _ (convAct_r 0 lo (by omega)) rfl
        (by omega) (fun h => absurd h hne)
    refine Conv.append (n1 := lo + n + 1 + 1) (r1 := c.N - (lo + n + 1))
      (S1 := (some .ram, lo) :: S) (by simp [hturn]) ?_ ?_
    · exact Conv.congr (hturn_block c.N wrap _ _ _ (lo + n + 1) _ (by omega)) rfl (by omega) rfl
        rfl rfl
    · exact ih (by omega) _ _ (lo + n + 1 + 1)

/-! ## prefixes: `Write; Forward`, `Read; Forward`, `Read` -/

theorem conv_write_prefix (c : HCtx) (K lo a hi : Nat) (Y tail : List Op) (wrap : Option Op)
    (S S' : List (Option Storage × Nat)) (evsY : List Ev) (n' r' : Nat) (hK : K ≤ 1) (ha : 0 < a)
    (hN : ¬ lo + a = c.N) (hkey : (some (lvl K), lo) ∉ S)
    (hY : ∀ pos prev, Conv c.N wrap pos prev Y tail (lo + a) (c.N - hi) ((some (lvl K), lo) :: S)
      evsY n' r' S') :
    ∀ pos prev, Conv c.N wrap pos prev (Op.w K lo :: Op.fwd lo (lo + a) :: Y) tail lo (c.N - hi) S
      (evFwd c lo (lo + a) hi (some K) :: evsY) n' r' S' := by
  intro pos prev
  refine Conv.evs (evs' := [] ++ (fwdEvs c.N lo (lo + a) (c.N - hi) true false (lvl K) ++ evsY)) ?_
    (by simp [fwdEvs, hN, evFwd])
  refine Conv.cons (n1 := lo) (r1 := c.N - hi) (S1 := S)
    (step_noop c.N _ _ _ _ _ lo _ S _ (convAct_w K lo hK) (Or.inr (Or.inr ⟨rfl, rfl⟩))) ?_
  refine Conv.cons (n1 := lo + a) (r1 := c.N - hi) (S1 := (some (lvl K), lo) :: S) ?_ (hY _ _)
  rw [if_neg (by omega)]
  exact step_fwd_write c.N _ _ _ _ lo (lo + a) _ S _ (lvl K) (convAct_w K lo hK) rfl rfl rfl
    (by omega) (fun h => absurd h hN) hkey

theorem conv_copy_prefix (c : HCtx) (K lo a hi : Nat) (Y tail : List Op) (wrap : Option Op)
    (S0 S' : List (Option Storage × Nat)) (evsY : List Ev) (n' r' : Nat) (hK : K ≤ 1) (ha : 0 < a)
    (hN : ¬ lo + a = c.N)
    (hlast : lastRd (some (lvl K), lo) (Y ++ tail) = false)
    (hY : ∀ pos prev, Conv c.N wrap pos prev Y tail (lo + a) (c.N - hi) S0 evsY n' r' S') :
    ∀ pos prev n0, Conv c.N wrap pos prev (Op.r K lo :: Op.fwd lo (lo + a) :: Y) tail n0 (c.N - hi) S0
      (evLoad true lo (lvl K) (c.N - hi) :: evFwd c lo (lo + a) hi none :: evsY) n' r' S' := by
  intro pos prev n0
  have hl : isLastAt (Op.r K lo) ((Op.fwd lo (lo + a) :: Y) ++ tail) = false := by
    unfold isLastAt
    rw [opKeyOf_r K lo hK, List.cons_append, lastRd]
    simp only [opIsRead, opIsWrite, Op.fwd, OpKind.isRead, OpKind.isWrite, Bool.false_eq_true,
      false_and, if_false]
    exact hlast
  refine Conv.evs (evs' := [⟨.copy lo (lvl K) .work, lo, c.N - hi⟩] ++
    (fwdEvs c.N lo (lo + a) (c.N - hi) false false .work ++ evsY)) ?_
    (by simp [fwdEvs, hN, evFwd, evLoad])
  refine Conv.cons (n1 := lo) (r1 := c.N - hi) (S1 := S0) ?_ ?_
  · rw [hl]
    exact step_read_copy c.N _ _ _ _ n0 _ _ _ (lvl K) (convAct_r K lo hK) rfl rfl
  refine Conv.cons (n1 := lo + a) (r1 := c.N - hi) (S1 := S0) ?_ (hY _ _)
  rw [if_neg (by omega)]
  exact step_fwd_plain c.N _ _ _ _ lo (lo + a) _ _ _ (convAct_r K lo hK) rfl (by omega)
    (fun h => absurd h hN)

theorem conv_move_prefix (c : HCtx) (K lo r : Nat) (Y tail : List Op) (wrap : Option Op)
    (S S' : List (Option Storage × Nat)) (evsY : List Ev) (n' r' : Nat) (hK : K ≤ 1)
    (hkey : (some (lvl K), lo) ∉ S)
    (hlast : lastRd (some (lvl K), lo) (Y ++ tail) = true)
    (hY : ∀ pos prev, Conv c.N wrap pos prev Y tail lo r S evsY n' r' S') :
    ∀ pos prev n0, Conv c.N wrap pos prev (Op.r K lo :: Y) tail n0 r ((some (lvl K), lo) :: S)
      (evLoad false lo (lvl K) r :: evsY) n' r' S' := by
  intro pos prev n0
  have hl : isLastAt (Op.r K lo) (Y ++ tail) = true := by
    unfold isLastAt
    rw [opKeyOf_r K lo hK]; exact hlast
  refine Conv.evs (evs' := [⟨.move lo (lvl K) .work, lo, r⟩] ++ evsY) ?_ (by simp [evLoad])
  refine Conv.cons (n1 := lo) (r1 := r) (S1 := S) ?_ (hY _ _)
  rw [hl]
  exact step_read_last c.N _ _ _ _ n0 _ S _ (lvl K) (convAct_r K lo hK) rfl rfl hkey

end Ckpt.Ops
