import CkptVerif.Spec.Exec
import Mathlib.Tactic
/-!
# Per-action lemmas for the specification executor

Each lemma states, for one kind of action emitted by the generators, the precondition under which
`step` records no violation at all (of any tag) and what the successor state is.  The acceptance
proofs of the schedule classes chain these lemmas.
-/
namespace Ckpt

/-- a finalised executor state, all fields explicit -/
def X (fwd : Option Nat) (r : Nat) (wIcs wDeps : Option (Nat × Nat)) (cps : List Cp)
    (ended : Bool) (done : Nat) (snap : List Cp) : XS :=
  { fwd := fwd, r := r, wIcs := wIcs, wDeps := wDeps, cps := cps, ended := ended, fin := true,
    done := done, snap := snap }

/-- the observation a generator event yields while the schedule is not exhausted -/
def Ev.obs (e : Ev) (N : Nat) : Obs := ⟨e.act, e.n, e.r, some N, false, true⟩

/-- no further adjoint calculation has made the stream end: `done` calculations completed and
more are permitted -/
def Alive (cfg : Cfg) (dn : Nat) : Prop :=
  cfg.passes ≠ some 0 ∧ ∀ k, cfg.passes = some k → dn < k

theorem finished_false {cfg : Cfg} {dn : Nat} (h : Alive cfg dn) (x : XS) (hx : x.done = dn) :
    finished cfg x = false := by
  unfold finished
  rcases hp : cfg.passes with _ | k
  · rfl
  · cases k with
    | zero => exact absurd hp h.1
    | succ k =>
      have := h.2 _ hp
      simp; omega

theorem run_append (cfg : Cfg) (i : Nat) (x : XS) (as bs : List Obs) :
    runFrom cfg i x (as ++ bs) =
      let p := runFrom cfg i x as
      let q := runFrom cfg (i + as.length) p.1 bs
      (q.1, p.2 ++ q.2) := by
  induction as generalizing i x with
  | nil => simp [runFrom]
  | cons a as ih =>
    simp only [List.cons_append, runFrom, List.length_cons]
    rw [ih]
    simp only [List.append_assoc]
    have : i + 1 + as.length = i + (as.length + 1) := by omega
    rw [this]

/-- `Clean cfg x os x'`: running `os` from `x` records no violation and ends in `x'`. -/
def Clean (cfg : Cfg) (x : XS) (os : List Obs) (x' : XS) : Prop :=
  ∀ i, runFrom cfg i x os = (x', [])

theorem Clean.nil (cfg : Cfg) (x : XS) : Clean cfg x [] x := fun _ => rfl

theorem Clean.cons {cfg : Cfg} {x x' x'' : XS} {o : Obs} {os : List Obs}
    (h1 : step cfg x o = (x', [])) (h2 : Clean cfg x' os x'') : Clean cfg x (o :: os) x'' := by
  intro i
  simp only [runFrom, h1, h2 (i+1)]
  rfl

theorem Clean.append {cfg : Cfg} {x x' x'' : XS} {as bs : List Obs}
    (h1 : Clean cfg x as x') (h2 : Clean cfg x' bs x'') : Clean cfg x (as ++ bs) x'' := by
  intro i
  rw [run_append, h1 i]
  simp only [h2 (i + as.length)]
  rfl

theorem Clean.single {cfg : Cfg} {x x' : XS} {o : Obs} (h : step cfg x o = (x', [])) :
    Clean cfg x [o] x' := Clean.cons h (Clean.nil cfg x')

section steps
variable (cfg : Cfg) (N : Nat)

/-- closes the arithmetic / `finished … = false` leftovers of the step lemmas -/
macro "close_step" hal:ident : tactic =>
  `(tactic| (repeat (first
      | omega
      | exact finished_false $hal _ rfl
      | rfl
      | (refine ⟨?_, ?_⟩))))

/-- plain advance in working storage -/
theorem step_plain (f : Option Nat) (lo a r : Nat) (wi wd : Option (Nat × Nat)) (cps : List Cp) (e : Bool)
    (dn : Nat) (sn : List Cp) (hN : cfg.N = N) (hal : Alive cfg dn)
    (h : lo + a ≤ N - r) (ha : 0 < a) (hf : f = some lo) :
    step cfg (X f r wi wd cps e dn sn) (Ev.obs ⟨.forward lo (lo + a) false false .work, lo + a, r⟩ N)
      = (X (some (lo + a)) r none none cps e dn sn, []) := by
  have hnf := finished_false hal (X f r wi wd cps e dn sn) rfl
  subst hf
  simp only [step, stepViols, hnf, actViols, nextState, clip, X, Ev.obs, Storage.isStore, obsViols, chk, hN] at *
  simp [h, ha]
  close_step hal

/-- the turn-around forward: one step, recording the adjoint dependencies in WORK -/
theorem step_turn (f : Option Nat) (lo r : Nat) (wi wd : Option (Nat × Nat)) (cps : List Cp) (e : Bool)
    (dn : Nat) (sn : List Cp) (hN : cfg.N = N) (hal : Alive cfg dn)
    (h : lo + 1 = N - r) (hf : f = some lo) :
    step cfg (X f r wi wd cps e dn sn) (Ev.obs ⟨.forward lo (lo + 1) false true .work, lo + 1, r⟩ N)
      = (X (some (lo + 1)) r none (some (lo, lo + 1)) cps e dn sn, []) := by
  have hnf := finished_false hal (X f r wi wd cps e dn sn) rfl
  subst hf
  simp only [step, stepViols, hnf, actViols, nextState, clip, X, Ev.obs, Storage.isStore, obsViols, chk, hN] at *
  simp [h]
  close_step hal

/-- reversal of the single step whose dependencies are in WORK -/
theorem step_reverse (f : Option Nat) (lo r : Nat) (wi : Option (Nat × Nat)) (cps : List Cp)
    (dn : Nat) (sn : List Cp) (hN : cfg.N = N) (hal : Alive cfg dn)
    (h : lo + 1 = N - r) (hf : f = some (lo + 1)) :
    step cfg (X f r wi (some (lo, lo + 1)) cps true dn sn) (Ev.obs ⟨.reverse (lo + 1) lo true, lo + 1, r + 1⟩ N)
      = (X f (r + 1) wi none cps true dn sn, []) := by
  have hnf := finished_false hal (X f r wi (some (lo, lo + 1)) cps true dn sn) rfl
  subst hf
  simp only [step, stepViols, hnf, actViols, nextState, clip, X, Ev.obs, Storage.isStore, obsViols, chk, hN, covers] at *
  simp [h]
  close_step hal

theorem step_endForward (wi wd : Option (Nat × Nat)) (cps : List Cp)
    (dn : Nat) (sn : List Cp) (hN : cfg.N = N) (hal : Alive cfg dn) :
    step cfg (X (some N) 0 wi wd cps false dn sn) (Ev.obs ⟨.endForward, N, 0⟩ N)
      = (X (some N) 0 wi wd cps true dn cps, []) := by
  have hnf := finished_false hal (X (some N) 0 wi wd cps false dn sn) rfl
  simp only [step, stepViols, hnf, actViols, nextState, clip, X, Ev.obs, Storage.isStore, obsViols, chk, hN] at *
  simp
  close_step hal

/-! ### checkpoint stacks -/

/-- labels of a checkpoint stack (most recent first): position `i` from the bottom is in `alloc i` -/
def Labelled (alloc : Nat → Storage) : List Cp → Prop
  | [] => True
  | c :: rest => c.st = alloc rest.length ∧ Labelled alloc rest

/-- all keys below `lo` -/
def Below (cps : List Cp) (lo : Nat) : Prop := ∀ c ∈ cps, c.n < lo

/-- no key inside `[lo, hi)` -/
def Outside (cps : List Cp) (lo hi : Nat) : Prop := ∀ c ∈ cps, c.n < lo ∨ hi ≤ c.n

theorem Below.mono {cps : List Cp} {lo lo' : Nat} (h : Below cps lo) (hl : lo ≤ lo') : Below cps lo' :=
  fun c hc => Nat.lt_of_lt_of_le (h c hc) hl

theorem Below.cons {rest : List Cp} {lo lo' : Nat} {c : Cp} (h : Below rest lo) (hc : c.n = lo) (hl : lo < lo') :
    Below (c :: rest) lo' := by
  intro c' hc'
  rcases List.mem_cons.mp hc' with rfl | h'
  · omega
  · have := h c' h'; omega

theorem Outside.mono {cps : List Cp} {lo hi lo' hi' : Nat} (h : Outside cps lo hi) (hl : lo ≤ lo') (hh : hi' ≤ hi) :
    Outside cps lo' hi' := by
  intro c hc
  rcases h c hc with h1 | h1
  · left; omega
  · right; omega

theorem findCp_none {rest base : List Cp} {lo lo0 hi0 : Nat} (hr : Below rest lo) (hb : Outside base lo0 hi0)
    (h0 : lo0 ≤ lo) (h1 : lo < hi0) (st : Storage) : findCp (rest ++ base) lo st = none := by
  unfold findCp
  rw [List.find?_eq_none]
  intro c hc
  rcases List.mem_append.mp hc with h | h
  · have := hr c h; simp; omega
  · rcases hb c h with h' | h' <;> (simp; omega)

theorem eraseCp_stack {rest base : List Cp} {lo lo0 hi0 : Nat} (hr : Below rest lo) (hb : Outside base lo0 hi0)
    (h0 : lo0 ≤ lo) (h1 : lo < hi0) (st : Storage) : eraseCp (rest ++ base) lo st = rest ++ base := by
  unfold eraseCp
  rw [List.filter_eq_self]
  intro c hc
  rcases List.mem_append.mp hc with h | h
  · have := hr c h; simp; omega
  · rcases hb c h with h' | h' <;> (simp; omega)

theorem withinBudget_congr (cfg : Cfg) (c c' : Cp) (cps : List Cp) (h : c.st = c'.st) :
    withinBudget cfg (c :: cps) = withinBudget cfg (c' :: cps) := by
  have e : ∀ s, countSt (c :: cps) s = countSt (c' :: cps) s := by
    intro s
    simp only [countSt, List.filter_cons, h]
    split <;> simp
  simp only [withinBudget, e]

/-- write a restart checkpoint for `lo` onto the stack while advancing to `lo + a` -/
theorem step_write (alloc : Nat → Storage) (S : Nat) (base : List Cp) (lo0 hi0 : Nat)
    (f : Option Nat) (lo a r : Nat) (wi wd : Option (Nat × Nat)) (rest : List Cp) (e : Bool)
    (dn : Nat) (sn : List Cp) (hN : cfg.N = N) (hal : Alive cfg dn)
    (h : lo + a ≤ N - r) (ha : 0 < a) (hf : f = some lo)
    (hst : (alloc rest.length).isStore = true)
    (hr : Below rest lo) (hb : Outside base lo0 hi0) (h0 : lo0 ≤ lo) (h1 : lo < hi0)
    (hB : withinBudget cfg (⟨lo, alloc rest.length, a, 0⟩ :: (rest ++ base)) = true) :
    step cfg (X f r wi wd (rest ++ base) e dn sn)
        (Ev.obs ⟨.forward lo (lo + a) true false (alloc rest.length), lo + a, r⟩ N)
      = (X (some (lo + a)) r none none (⟨lo, alloc rest.length, a, 0⟩ :: (rest ++ base)) e dn sn, []) := by
  have hnf := finished_false hal (X f r wi wd (rest ++ base) e dn sn) rfl
  have hfind := findCp_none hr hb h0 h1 (alloc rest.length)
  have hB' : withinBudget cfg (⟨lo, alloc rest.length, 0, 0⟩ :: (rest ++ base)) = true := by
    rw [← hB]; exact withinBudget_congr cfg _ _ _ rfl
  have hnw : alloc rest.length ≠ .work := by
    intro hw; rw [hw] at hst; simp [Storage.isStore] at hst
  have hnn : alloc rest.length ≠ .none := by
    intro hw; rw [hw] at hst; simp [Storage.isStore] at hst
  subst hf
  simp only [step, stepViols, hnf, actViols, nextState, clip, X, Ev.obs, obsViols, chk, hN, hst, hfind, hB'] at *
  simp [h, ha, hnw, hnn]
  close_step hal

/-- re-load the checkpoint on top of the stack, keeping it -/
theorem step_copy (base : List Cp) (f : Option Nat) (lo k r : Nat) (st : Storage) (rest : List Cp)
    (dn : Nat) (sn : List Cp) (hN : cfg.N = N) (hal : Alive cfg dn)
    (hst : st.isStore = true) (hk : 0 < k) (h : N - r ≤ lo + k) (hlo : lo < N - r) :
    step cfg (X f r none none (⟨lo, st, k, 0⟩ :: (rest ++ base)) true dn sn)
        (Ev.obs ⟨.copy lo st .work, lo, r⟩ N)
      = (X (some lo) r (some (lo, lo + k)) none (⟨lo, st, k, 0⟩ :: (rest ++ base)) true dn sn, []) := by
  have hnf := finished_false hal (X f r none none (⟨lo, st, k, 0⟩ :: (rest ++ base)) true dn sn) rfl
  have hfind : findCp (⟨lo, st, k, 0⟩ :: (rest ++ base)) lo st = some ⟨lo, st, k, 0⟩ := by
    simp [findCp]
  simp only [step, stepViols, hnf, actViols, actViols.loadViols, nextState, X, Ev.obs, obsViols, chk, hN, hst, hfind] at *
  simp [hk, h, hlo, Storage.isStore]
  close_step hal

/-- re-load the checkpoint on top of the stack for the last time, deleting it -/
theorem step_move (base : List Cp) (lo0 hi0 : Nat) (f : Option Nat) (lo k r : Nat) (st : Storage) (rest : List Cp)
    (dn : Nat) (sn : List Cp) (hN : cfg.N = N) (hal : Alive cfg dn)
    (hst : st.isStore = true) (hk : 0 < k) (h : N - r ≤ lo + k) (hlo : lo < N - r)
    (hr : Below rest lo) (hb : Outside base lo0 hi0) (h0 : lo0 ≤ lo) (h1 : lo < hi0) :
    step cfg (X f r none none (⟨lo, st, k, 0⟩ :: (rest ++ base)) true dn sn)
        (Ev.obs ⟨.move lo st .work, lo, r⟩ N)
      = (X (some lo) r (some (lo, lo + k)) none (rest ++ base) true dn sn, []) := by
  have hnf := finished_false hal (X f r none none (⟨lo, st, k, 0⟩ :: (rest ++ base)) true dn sn) rfl
  have hfind : findCp (⟨lo, st, k, 0⟩ :: (rest ++ base)) lo st = some ⟨lo, st, k, 0⟩ := by
    simp [findCp]
  have herase : eraseCp (⟨lo, st, k, 0⟩ :: (rest ++ base)) lo st = rest ++ base := by
    have := eraseCp_stack hr hb h0 h1 st
    unfold eraseCp at this ⊢
    rw [List.filter_cons, this]
    simp
  simp only [step, stepViols, hnf, actViols, actViols.loadViols, nextState, X, Ev.obs, obsViols, chk, hN, hst, hfind, herase] at *
  simp [hk, h, hlo, Storage.isStore]
  close_step hal

end steps

end Ckpt
