import CkptVerif.Proofs.Binom
/-! The period formula `mxrr_close_formula` of PeriodicDiskRevolve: the fuelled loop always
terminates within its fuel and returns `beta cm t*` for the least `t*` with
`beta (cm+1) t* * uf > wd + rd`. -/
namespace Ckpt

/-- the loop started at `t ≤ ts` with enough fuel stops exactly at the first failing `ts` -/
theorem mxrrLoop_eq (cm uf wr ts : Nat) (hlt : wr < beta (cm + 1) ts * uf)
    (hmin : ∀ s < ts, beta (cm + 1) s * uf ≤ wr) :
    ∀ fuel t, t ≤ ts → ts - t < fuel → mxrrLoop cm uf wr fuel t = some ts := by
  intro fuel
  induction fuel with
  | zero => intro t _ h; omega
  | succ fuel ih =>
    intro t hle hf
    rcases Nat.lt_or_ge t ts with h | h
    · have := hmin t h
      simp only [mxrrLoop, this, if_true]
      exact ih (t + 1) h (by omega)
    · have e : t = ts := by omega
      subst e
      have : ¬ beta (cm + 1) t * uf ≤ wr := by omega
      simp only [mxrrLoop, this, if_false]

/-- at `t = wr` the loop test already fails -/
theorem mxrr_test_fails_at (cm uf wr : Nat) (huf : 0 < uf) : wr < beta (cm + 1) wr * uf := by
  have h1 := beta_succ_ge cm wr
  calc wr < beta (cm + 1) wr := h1
    _ = beta (cm + 1) wr * 1 := (Nat.mul_one _).symm
    _ ≤ beta (cm + 1) wr * uf := Nat.mul_le_mul_left _ huf

theorem mxrr_exists (cm uf wr : Nat) (huf : 0 < uf) : ∃ t, wr < beta (cm + 1) t * uf :=
  ⟨wr, mxrr_test_fails_at cm uf wr huf⟩

/-- The fuel `wr + 2` always suffices, and the result is `beta cm t*` for the least `t*` with
`beta (cm+1) t* * uf > wr`. -/
theorem mxrr_spec (cm uf wr : Nat) (huf : 0 < uf) :
    ∃ h : ∃ t, wr < beta (cm + 1) t * uf, mxrr cm uf wr = some (beta cm (Nat.find h)) := by
  refine ⟨mxrr_exists cm uf wr huf, ?_⟩
  generalize hh : mxrr_exists cm uf wr huf = h
  have hle : Nat.find h ≤ wr := Nat.find_min' h (mxrr_test_fails_at cm uf wr huf)
  have hloop : mxrrLoop cm uf wr (wr + 2) 0 = some (Nat.find h) :=
    mxrrLoop_eq cm uf wr (Nat.find h) (Nat.find_spec h)
      (fun s hs => Nat.le_of_not_lt (Nat.find_min h hs)) (wr + 2) 0 (Nat.zero_le _) (by omega)
  have hne : ¬ uf = 0 := by omega
  simp only [mxrr, hne, if_false, hloop, Option.map_some]

/-- the least index is at most `wr`, so the loop makes at most `wr + 1` tests -/
theorem mxrr_find_le (cm uf wr : Nat) (h : ∃ t, wr < beta (cm + 1) t * uf) (huf : 0 < uf) :
    Nat.find h ≤ wr :=
  Nat.find_min' h (mxrr_test_fails_at cm uf wr huf)

theorem mxrr_zero (cm wr : Nat) : mxrr cm 0 wr = none := by simp [mxrr]

theorem mxrr_eq_none_iff (cm uf wr : Nat) : mxrr cm uf wr = none ↔ uf = 0 := by
  constructor
  · intro h
    by_contra hne
    obtain ⟨_, h2⟩ := mxrr_spec cm uf wr (Nat.pos_of_ne_zero hne)
    rw [h2] at h; cases h
  · rintro rfl; exact mxrr_zero cm wr

/-- the returned period is at least 1 -/
theorem mxrr_pos (cm uf wr m : Nat) (h : mxrr cm uf wr = some m) : 1 ≤ m := by
  by_cases huf : uf = 0
  · subst huf; rw [mxrr_zero] at h; cases h
  · obtain ⟨_, h2⟩ := mxrr_spec cm uf wr (Nat.pos_of_ne_zero huf)
    rw [h2] at h
    injection h with h
    subst h
    exact beta_pos _ _

/-- characterisation without `Nat.find` -/
theorem mxrr_eq_some_iff (cm uf wr m : Nat) (huf : 0 < uf) :
    mxrr cm uf wr = some m ↔
      ∃ ts, wr < beta (cm + 1) ts * uf ∧ (∀ s < ts, beta (cm + 1) s * uf ≤ wr) ∧ m = beta cm ts := by
  obtain ⟨h, h2⟩ := mxrr_spec cm uf wr huf
  rw [h2]
  constructor
  · intro e
    injection e with e
    exact ⟨Nat.find h, Nat.find_spec h, fun s hs => Nat.le_of_not_lt (Nat.find_min h hs), e.symm⟩
  · rintro ⟨ts, h1, h3, rfl⟩
    have : Nat.find h = ts := by
      apply le_antisymm (Nat.find_min' h h1)
      by_contra hc
      have := h3 _ (Nat.lt_of_not_le hc)
      have := Nat.find_spec h
      omega
    rw [this]

-- the hypotheses are satisfiable: cm = 2, uf = 1, wd + rd = 7: beta 3 t = 1, 4, 10 so t* = 2,
-- period = beta 2 2 = 6
example : mxrr 2 1 7 = some 6 := by decide
example : ∃ h : ∃ t, 7 < beta (2 + 1) t * 1, mxrr 2 1 7 = some (beta 2 (Nat.find h)) :=
  mxrr_spec 2 1 7 (by decide)

end Ckpt
