import CkptVerif.Proofs.HRevolveLB
/-!
# The HRevolve stream is LIFO

`Proofs/HRevolveOk.lean` proves that the checking executor accepts the stream of
`HRevolveCheckpointSchedule`.  This file repeats that proof with one more conclusion: every `Copy`/`Move`
of the stream loads the head of the list of stored checkpoints into WORK (`LB7.Lifo`).  Hence the
HRevolve stream is itself a member of the class in which `LB7.hrevolveOptimalT_partial` shows it to
be cost-optimal.
-/
namespace Ckpt
open Ckpt.LB7 Ckpt.Mean

theorem lifoFrom_append (cfg : Cfg) : ∀ (as bs : List Obs) (x : XS),
    lifoFrom cfg x (as ++ bs) = (lifoFrom cfg x as && lifoFrom cfg (finalSt cfg x as) bs) := by
  intro as
  induction as with
  | nil => intro bs x; simp [lifoFrom, finalSt]
  | cons a as ih =>
    intro bs x
    simp only [List.cons_append, lifoFrom, ih, finalSt, List.foldl_cons, Bool.and_assoc]

/-- a clean run all of whose loads take the head of the stack -/
def CleanL (cfg : Cfg) (x : XS) (os : List Obs) (x' : XS) : Prop :=
  Clean cfg x os x' ∧ lifoFrom cfg x os = true ∧ ∀ o ∈ os, GW.storesDeps o.act = false

macro "nd_tac" : tactic =>
  `(tactic| first
    | rfl
    | (simp only [Ev.obs, evFwd]; split <;> rfl)
    | (simp [GW.storesDeps, Ev.obs, evLoad]; done))

macro "lifo_tac" : tactic =>
  `(tactic| first
    | rfl
    | (simp [lifoAct, X, Ev.obs, evLoad]; done)
    | (simp only [Ev.obs, evFwd]; split <;> rfl))

theorem CleanL.nil (cfg : Cfg) (x : XS) : CleanL cfg x [] x :=
  ⟨Clean.nil cfg x, rfl, fun _ h => absurd h List.not_mem_nil⟩

theorem CleanL.cons {cfg : Cfg} {x x' x'' : XS} {o : Obs} {os : List Obs}
    (h1 : step cfg x o = (x', [])) (h2 : CleanL cfg x' os x'')
    (hl : lifoAct x o.act = true := by lifo_tac)
    (hd : GW.storesDeps o.act = false := by nd_tac) : CleanL cfg x (o :: os) x'' := by
  refine ⟨Clean.cons h1 h2.1, ?_, ?_⟩
  · have e : nextState cfg x o.act = x' := congrArg Prod.fst h1
    simp only [lifoFrom, hl, e, h2.2.1, Bool.and_self]
  · intro o' ho'
    rcases List.mem_cons.mp ho' with rfl | h
    · exact hd
    · exact h2.2.2 o' h

theorem CleanL.append {cfg : Cfg} {x x' x'' : XS} {as bs : List Obs}
    (h1 : CleanL cfg x as x') (h2 : CleanL cfg x' bs x'') : CleanL cfg x (as ++ bs) x'' := by
  refine ⟨Clean.append h1.1 h2.1, ?_, ?_⟩
  · have e : finalSt cfg x as = x' := by
      rw [← runFrom_fst_eq cfg as 0 x, h1.1 0]
    rw [lifoFrom_append, h1.2.1, e, h2.2.1]
    rfl
  · intro o ho
    rcases List.mem_append.mp ho with h | h
    · exact h1.2.2 o h
    · exact h2.2.2 o h

theorem CleanL.single {cfg : Cfg} {x x' : XS} {o : Obs} (h : step cfg x o = (x', []))
    (hl : lifoAct x o.act = true := by lifo_tac)
    (hd : GW.storesDeps o.act = false := by nd_tac) : CleanL cfg x [o] x' :=
  CleanL.cons h (CleanL.nil cfg x') hl hd

section blocks
variable {cfg : Cfg} {c : HCtx} {dn : Nat} (H : HHyp cfg c dn)
include H

/-- one step: advance recording the dependencies, (end of the forward sweep,) reverse -/
theorem evBase_cleanL (lo : Nat) (spine : Bool) (wi wd : Option (Nat × Nat)) (cps : List Cp)
    (sn : List Cp) (h1 : lo + 1 ≤ c.N) (hsp : spine = true → lo + 1 = c.N) :
    CleanL cfg (X (some lo) (c.N - (lo + 1)) wi wd cps (!spine) dn sn)
      ((evBase c lo (lo + 1) spine).map (Ev.obs · c.N))
      (X (some (lo + 1)) (c.N - lo) none none cps true dn (if spine then cps else sn)) := by
  have hcN := H.hN
  have hal := H.alive
  have hr : lo + 1 = c.N - (c.N - (lo + 1)) := by omega
  have hr2 : c.N - (lo + 1) + 1 = c.N - lo := by omega
  cases spine with
  | false =>
    simp only [evBase, Bool.false_eq_true, if_false, List.append_nil, Bool.not_false,
      List.map_cons, List.map_nil, List.cons_append, List.nil_append]
    refine CleanL.cons (step_turn cfg c.N (some lo) lo _ wi wd _ true dn sn hcN hal hr rfl) ?_
    refine CleanL.cons (step_reverse cfg c.N (some (lo+1)) lo _ none _ dn sn hcN hal hr rfl) ?_
    rw [hr2]; exact CleanL.nil _ _
  | true =>
    have hN' := hsp rfl
    simp only [evBase, if_true, Bool.not_true, List.map_cons, List.map_nil, List.cons_append,
      List.nil_append]
    rw [← hN'] at hcN ⊢
    simp only [Nat.sub_self]
    refine CleanL.cons (step_turn cfg (lo+1) (some lo) lo 0 wi wd _ false dn sn hcN hal (by omega) rfl) ?_
    refine CleanL.cons (step_endForward cfg (lo+1) none _ _ dn sn hcN hal) ?_
    refine CleanL.cons (step_reverse cfg (lo+1) (some (lo+1)) lo 0 none cps dn cps hcN hal (by omega) rfl) ?_
    have e1 : 0 + 1 = lo + 1 - lo := by omega
    rw [e1]; exact CleanL.nil _ _


/-- the two-step segment, the first step re-stored in RAM -/
theorem unit_write_cleanL (base : List Cp) (lo0 hi0 : Nat) (hb : Outside base lo0 hi0)
    (lo : Nat) (spine : Bool) (wi wd : Option (Nat × Nat)) (rest : List Cp) (sn : List Cp)
    (hN : lo + 2 ≤ c.N) (hsp : spine = true → lo + 2 = c.N) (h0 : lo0 ≤ lo) (h1 : lo < hi0)
    (hr : Below rest lo)
    (hbud : countSt (rest ++ base) .ram + 1 ≤ c.c0 ∧ countSt (rest ++ base) .disk ≤ c.c1) :
    ∃ sn', (spine = false → sn' = sn) ∧
    CleanL cfg (X (some lo) (c.N - (lo + 2)) wi wd (rest ++ base) (!spine) dn sn)
      (([evFwd c lo (lo + 1) (lo + 2) (some 0)] ++ evBase c (lo + 1) (lo + 2) spine ++
        [evLoad false lo .ram (c.N - (lo + 1))] ++ evBase c lo (lo + 1) false).map (Ev.obs · c.N))
      (X (some (lo + 1)) (c.N - lo) none none (rest ++ base) true dn sn') := by
  refine ⟨if spine then (⟨lo, .ram, 1, 0⟩ : Cp) :: (rest ++ base) else sn, fun h => by simp [h], ?_⟩
  have hw := write_step H base lo0 hi0 0 lo 1 (lo + 2) wi wd rest (!spine) sn (by omega) hN
    (by omega) hr hb h0 h1 (ram_budget H _ lo 1 hbud)
  have hb1 := evBase_cleanL H (lo + 1) spine none none ((⟨lo, .ram, 1, 0⟩ : Cp) :: (rest ++ base)) sn
    (by omega) hsp
  have hm := step_move cfg c.N base lo0 hi0 (some (lo + 1 + 1)) lo 1 (c.N - (lo + 1)) .ram rest dn
    (if spine then (⟨lo, .ram, 1, 0⟩ : Cp) :: (rest ++ base) else sn) H.hN H.alive rfl (by omega)
    (by omega) (by omega) hr hb h0 h1
  have hb2 := evBase_cleanL H lo false (some (lo, lo + 1)) none (rest ++ base)
    (if spine then (⟨lo, .ram, 1, 0⟩ : Cp) :: (rest ++ base) else sn) (by omega) (by simp)
  simp only [List.map_append, List.map_cons, List.cons_append, List.nil_append,
    List.append_assoc]
  refine CleanL.cons hw (CleanL.append hb1 (CleanL.cons hm ?_))
  simpa using hb2

/-- the two-step segment, the checkpoint at `lo` being present -/
theorem unit_plain_cleanL (base : List Cp) (lo0 hi0 : Nat) (hb : Outside base lo0 hi0)
    (lo : Nat) (st : Storage) (kk : Nat) (wi wd : Option (Nat × Nat)) (rest : List Cp)
    (sn : List Cp) (hst : st.isStore = true) (hkk : 2 ≤ kk)
    (hN : lo + 2 ≤ c.N) (h0 : lo0 ≤ lo) (h1 : lo < hi0) (hr : Below rest lo) :
    CleanL cfg (X (some lo) (c.N - (lo + 2)) wi wd (⟨lo, st, kk, 0⟩ :: (rest ++ base)) true dn sn)
      (([evFwd c lo (lo + 1) (lo + 2) none] ++ evBase c (lo + 1) (lo + 2) false ++
        [evLoad false lo st (c.N - (lo + 1))] ++ evBase c lo (lo + 1) false).map (Ev.obs · c.N))
      (X (some (lo + 1)) (c.N - lo) none none (rest ++ base) true dn sn) := by
  have hw := plain_step H lo 1 (lo + 2) wi wd ((⟨lo, st, kk, 0⟩ : Cp) :: (rest ++ base)) true sn
    (by omega) hN (by omega)
  have hb1 := evBase_cleanL H (lo + 1) false none none ((⟨lo, st, kk, 0⟩ : Cp) :: (rest ++ base)) sn
    (by omega) (by simp)
  have hm := step_move cfg c.N base lo0 hi0 (some (lo + 1 + 1)) lo kk (c.N - (lo + 1)) st rest dn
    sn H.hN H.alive hst (by omega) (by omega) (by omega) hr hb h0 h1
  have hb2 := evBase_cleanL H lo false (some (lo, lo + kk)) none (rest ++ base) sn (by omega) (by simp)
  simp only [List.map_append, List.map_cons, List.cons_append, List.nil_append,
    List.append_assoc]
  refine CleanL.cons hw (CleanL.append ?_ (CleanL.cons hm ?_))
  · simpa using hb1
  · simpa using hb2

/-- the tail of the `cm = 1` loop: `n` further re-loads of `(lo, st)`, each followed by an advance
and the reversal of one step; then the last load (a `move`) and the first step -/
theorem loop_cleanL (base : List Cp) (lo0 hi0 : Nat) (hb : Outside base lo0 hi0)
    (lo : Nat) (kk : Nat) (rest : List Cp) (sn : List Cp) (h0 : lo0 ≤ lo) (h1 : lo < hi0)
    (hr : Below rest lo) :
    ∀ (n : Nat) (f : Option Nat), n + 1 ≤ kk → lo + n + 1 ≤ c.N →
    CleanL cfg (X f (c.N - (lo + n + 1)) none none (⟨lo, .ram, kk, 0⟩ :: (rest ++ base)) true dn sn)
      (((List.range n).reverse.flatMap (loopEv c lo) ++
        [evLoad false lo .ram (c.N - (lo + 1))] ++ evBase c lo (lo + 1) false).map (Ev.obs · c.N))
      (X (some (lo + 1)) (c.N - lo) none none (rest ++ base) true dn sn) := by
  intro n
  induction n with
  | zero =>
    intro f hk hN
    have hm := step_move cfg c.N base lo0 hi0 f lo kk (c.N - (lo + 1)) .ram rest dn
      sn H.hN H.alive rfl (by omega) (by omega) (by omega) hr hb h0 h1
    have hb2 := evBase_cleanL H lo false (some (lo, lo + kk)) none (rest ++ base) sn (by omega)
      (by simp)
    simp only [List.range_zero, List.reverse_nil, List.flatMap_nil, List.nil_append,
      List.map_cons, List.cons_append]
    refine CleanL.cons hm ?_
    simpa using hb2
  | succ n ih =>
    intro f hk hN
    rw [List.range_succ, List.reverse_append, List.reverse_singleton, List.singleton_append,
      List.flatMap_cons, List.append_assoc, List.append_assoc, loopEv_append, List.map_cons,
      List.map_cons, List.map_append]
    have hc := step_copy cfg c.N base f lo kk (c.N - (lo + n + 2)) .ram rest dn sn H.hN H.alive rfl
      (by omega) (by omega) (by omega)
    have hp := plain_step H lo (n + 1) (lo + n + 2) (some (lo, lo + kk)) none
      ((⟨lo, .ram, kk, 0⟩ : Cp) :: (rest ++ base)) true sn (by omega) (by omega) (by omega)
    have hb1 := evBase_cleanL H (lo + n + 1) false none none
      ((⟨lo, .ram, kk, 0⟩ : Cp) :: (rest ++ base)) sn (by omega) (by simp)
    have hrest := ih (some (lo + n + 1 + 1)) (by omega) (by omega)
    have e1 : lo + (n + 1) + 1 = lo + n + 2 := by omega
    have e2 : lo + (n + 1) = lo + n + 1 := by omega
    rw [e1]
    rw [e2] at hp
    refine CleanL.cons hc (CleanL.cons hp (CleanL.append
      (x' := X (some (lo + n + 1 + 1)) (c.N - (lo + n + 1)) none none
        ((⟨lo, .ram, kk, 0⟩ : Cp) :: (rest ++ base)) true dn sn) ?_ ?_))
    · simpa using hb1
    · rw [← List.append_assoc]
      simpa using hrest

end blocks

/-! ## the Hoare triples of `hRs` and `hAs` -/


/-- what is proved about a call of `hRs`: forward in WORK at `lo`, adjoint at `hi`, stack `rest`
(keys `< lo`) ⟶ adjoint at `lo`, same stack -/
def RTripleL (cfg : Cfg) (c : HCtx) (dn : Nat) (base : List Cp) (lo0 hi0 fuel : Nat) : Prop :=
  ∀ (lo hi K cm : Nat) (spine : Bool) (rest : List Cp) (wi wd : Option (Nat × Nat)) (sn : List Cp),
    4 * (hi - lo) + rankR K ≤ fuel → lo < hi → hi ≤ c.N → lo0 ≤ lo → hi ≤ hi0 →
    (spine = true → hi = c.N) → K ≤ 1 → (K = 0 → 1 ≤ cm) → Below rest lo →
    Inv c K cm (rest ++ base) →
    ∃ evs sn', hRs c fuel lo hi K cm spine = some evs ∧ (spine = false → sn' = sn) ∧
      CleanL cfg (X (some lo) (c.N - hi) wi wd (rest ++ base) (!spine) dn sn)
        (evs.map (Ev.obs · c.N))
        (X (some (lo + 1)) (c.N - lo) none none (rest ++ base) true dn sn')

/-- what is proved about a call of `hAs`; `pres`: the checkpoint `⟨lo, lvl K, kk, 0⟩` is on top
of the stack (it was just re-loaded by a `copy`) -/
def ATripleL (cfg : Cfg) (c : HCtx) (dn : Nat) (base : List Cp) (lo0 hi0 fuel : Nat) : Prop :=
  ∀ (lo hi K cm : Nat) (spine : Bool) (pending : Option Nat) (pres : Bool) (rest : List Cp)
    (kk : Nat) (wi wd : Option (Nat × Nat)) (sn : List Cp),
    4 * (hi - lo) + rankA K cm ≤ fuel → lo < hi → hi ≤ c.N → lo0 ≤ lo → hi ≤ hi0 →
    (spine = true → hi = c.N) → K ≤ 1 → 1 ≤ cm → Below rest lo →
    Inv c K cm (rest ++ base) →
    (pending = none ∨ pending = some K) →
    (pending = some K → 2 ≤ hi - lo - 1 ∧ (K = 1 → hSplit c 1 cm (hi - lo - 1) = true)) →
    (pending = none → spine = false) →
    pres = (pending.isNone && reloads c K cm (hi - lo - 1)) →
    (pres = true → hi ≤ lo + kk) →
    ∃ evs sn', hAs c fuel lo hi K cm spine pending = some evs ∧ (spine = false → sn' = sn) ∧
      CleanL cfg
        (X (some lo) (c.N - hi) wi wd ((if pres then ⟨lo, lvl K, kk, 0⟩ :: rest else rest) ++ base)
          (!spine) dn sn)
        (evs.map (Ev.obs · c.N))
        (X (some (lo + 1)) (c.N - lo) none none (rest ++ base) true dn sn')

theorem hrev_okL {cfg : Cfg} {c : HCtx} {dn : Nat} (H : HHyp cfg c dn) (base : List Cp)
    (lo0 hi0 : Nat) (hb : Outside base lo0 hi0) :
    ∀ fuel, RTripleL cfg c dn base lo0 hi0 fuel ∧ ATripleL cfg c dn base lo0 hi0 fuel := by
  intro fuel
  induction fuel with
  | zero =>
    constructor
    · intro lo hi K cm spine rest wi wd sn hf hlt; omega
    · intro lo hi K cm spine pending pres rest kk wi wd sn hf hlt; omega
  | succ fuel ih =>
    obtain ⟨ihR, ihA⟩ := ih
    constructor
    · -- hRs
      intro lo hi K cm spine rest wi wd sn hf hlt hN hlo0 hhi0 hsp hK hcm hbelow hinv
      rw [hRs_succ]
      by_cases h0 : hi - lo - 1 = 0
      · rw [if_pos h0]
        obtain rfl : hi = lo + 1 := by omega
        refine ⟨_, _, rfl, fun h => ?_, evBase_cleanL H lo spine wi wd _ sn hN hsp⟩
        simp [h]
      rw [if_neg h0, if_neg (by omega : ¬ (K = 0 ∧ cm = 0))]
      by_cases h1 : hi - lo - 1 = 1
      · rw [if_pos h1]
        obtain rfl : hi = lo + 2 := by omega
        obtain ⟨sn', hsn, hcl⟩ := unit_write_cleanL H base lo0 hi0 hb lo spine wi wd rest sn hN hsp
          hlo0 (by omega) hbelow (Inv_ram c K cm _ hinv H.c0pos hcm)
        exact ⟨_, sn', rfl, hsn, hcl⟩
      rw [if_neg h1]
      by_cases h3 : K = 0
      · subst h3
        rw [if_pos rfl]
        obtain ⟨evs, sn', he, hsn, hcl⟩ := ihA lo hi 0 cm spine (some 0) false rest 0 wi wd sn
          (by unfold rankR at hf; unfold rankA; split_ifs <;> simp at hf ⊢ <;> omega)
          hlt hN hlo0 hhi0 hsp (by omega) (hcm rfl) hbelow hinv (Or.inr rfl)
          (fun _ => ⟨by omega, fun h => by omega⟩) (fun h => by cases h) (by simp) (by simp)
        refine ⟨evs, sn', he, hsn, ?_⟩
        simpa only [Bool.false_eq_true, if_false] using hcl
      rw [if_neg h3]
      have hK1 : K = 1 := by omega
      subst hK1
      by_cases h4 : olt (oadd (some (c.w 1)) (c.tab.optp 1 (hi - lo - 1) cm))
          (c.tab.opt (1 - 1) (hi - lo - 1) (cv c (1 - 1))) = true
      · rw [if_pos h4]
        have h4' : olt (oadd (some (c.w 1)) (c.tab.optp 1 (hi - lo - 1) cm))
            (c.tab.opt 0 (hi - lo - 1) c.c0) = true := h4
        obtain ⟨hcm0, hsplit⟩ := H.tab (hi - lo - 1) cm (by omega) h4'
        obtain ⟨evs, sn', he, hsn, hcl⟩ := ihA lo hi 1 cm spine (some 1) false rest 0 wi wd sn
          (by unfold rankR at hf; unfold rankA; simp at hf ⊢; omega)
          hlt hN hlo0 hhi0 hsp (by omega) (by omega) hbelow hinv (Or.inr rfl)
          (fun _ => ⟨by omega, fun _ => hsplit⟩) (fun h => by cases h) (by simp) (by simp)
        refine ⟨evs, sn', he, hsn, ?_⟩
        simpa only [Bool.false_eq_true, if_false] using hcl
      · rw [if_neg h4]
        exact ihR lo hi (1 - 1) (cv c (1 - 1)) spine rest wi wd sn
          (by unfold rankR at hf ⊢; simp at hf ⊢; omega) hlt hN hlo0 hhi0 hsp (by omega)
          (fun _ => H.c0pos) hbelow (Inv_down c 1 cm _ hinv (by omega))
    · -- hAs
      intro lo hi K cm spine pending pres rest kk wi wd sn hf hlt hN hlo0 hhi0 hsp hK hcm hbelow
        hinv hp hpend hpsp hpres hkk
      rw [hAs_succ, if_neg (by omega : ¬ cm = 0)]
      by_cases h0 : hi - lo - 1 = 0
      · rw [if_pos h0]
        have hpn : pending = none := by
          rcases hp with h | h
          · exact h
          · have := (hpend h).1; omega
        subst hpn
        obtain rfl : hi = lo + 1 := by omega
        have hpf : pres = false := by rw [hpres, h0]; simp [reloads]
        subst hpf
        simp only [Option.isSome_none, Bool.false_eq_true, if_false]
        refine ⟨_, _, rfl, fun h => ?_, evBase_cleanL H lo spine wi wd _ sn hN hsp⟩
        simp [h]
      rw [if_neg h0]
      by_cases h1 : hi - lo - 1 = 1
      · rw [if_pos h1]
        have hpn : pending = none := by
          rcases hp with h | h
          · exact h
          · have := (hpend h).1; omega
        subst hpn
        have hspf := hpsp rfl
        subst hspf
        obtain rfl : hi = lo + 2 := by omega
        simp only [Option.isSome_none, Bool.false_eq_true, if_false]
        by_cases ht : c.w 0 + c.rr 0 < c.rr K
        · rw [if_pos ht]
          have hK0 : K ≠ 0 := by intro h; subst h; omega
          have hpf : pres = false := by rw [hpres, h1]; simp [reloads, ht]
          subst hpf
          obtain ⟨sn', hsn, hcl⟩ := unit_write_cleanL H base lo0 hi0 hb lo false wi wd rest sn hN
            (by simp) hlo0 (by omega) hbelow
            (Inv_ram c K cm _ hinv H.c0pos (fun h => absurd h hK0))
          refine ⟨_, sn', rfl, fun _ => hsn rfl, ?_⟩
          simpa only [Bool.false_eq_true, if_false] using hcl
        · rw [if_neg ht]
          have hpt : pres = true := by rw [hpres, h1]; simp [reloads, ht]
          subst hpt
          have hkk' := hkk rfl
          refine ⟨_, sn, rfl, fun _ => rfl, ?_⟩
          simp only [if_true, List.cons_append, Bool.not_false]
          exact unit_plain_cleanL H base lo0 hi0 hb lo (lvl K) kk wi wd rest sn (lvl_isStore K)
            (by omega) hN hlo0 (by omega) hbelow
      rw [if_neg h1]
      have hl2 : 2 ≤ hi - lo - 1 := by omega
      by_cases h2 : K = 0 ∧ cm = 1
      · -- the `cm = 1` loop
        rw [if_pos h2]
        obtain ⟨hK0, hcm1⟩ := h2
        subst hK0
        subst hcm1
        obtain ⟨l', hl'⟩ : ∃ l', hi - lo - 1 = l' + 1 := ⟨hi - lo - 1 - 1, by omega⟩
        have hl1 : 1 ≤ l' := by omega
        obtain rfl : hi = lo + l' + 2 := by omega
        rw [hl', hAs_loop_body c lo l' spine pending _ rfl]
        -- the checkpoint after the first action
        have hfirst : ∃ kk', l' + 1 ≤ kk' ∧
            CleanL cfg
              (X (some lo) (c.N - (lo + l' + 2)) wi wd
                ((if pres then ⟨lo, lvl 0, kk, 0⟩ :: rest else rest) ++ base) (!spine) dn sn)
              [Ev.obs (evFwd c lo (lo + l' + 1) (lo + l' + 2) pending) c.N]
              (X (some (lo + l' + 1)) (c.N - (lo + l' + 2)) none none
                (⟨lo, .ram, kk', 0⟩ :: (rest ++ base)) (!spine) dn sn) := by
          rcases hp with rfl | rfl
          · have hpt : pres = true := by
              rw [hpres, hl', reloads_zero c 1 (l' + 1) (by omega)]; rfl
            subst hpt
            have hkk' := hkk rfl
            refine ⟨kk, by omega, ?_⟩
            simp only [if_true, List.cons_append, lvl_zero]
            exact CleanL.single (plain_step H lo (l' + 1) (lo + l' + 2) wi wd _ _ sn (by omega) hN
              (by omega))
          · have hpf : pres = false := by rw [hpres]; rfl
            subst hpf
            refine ⟨l' + 1, le_refl _, ?_⟩
            simp only [Bool.false_eq_true, if_false]
            exact CleanL.single (write_step H base lo0 hi0 0 lo (l' + 1) (lo + l' + 2) wi wd rest
              (!spine) sn (by omega) hN (by omega) hbelow hb hlo0 (by omega)
              (lvl_budget H 0 1 _ lo (l' + 1) hinv (le_refl _)))
        obtain ⟨kk', hkk', hfirst⟩ := hfirst
        have hb1 := evBase_cleanL H (lo + l' + 1) spine none none
          ((⟨lo, .ram, kk', 0⟩ : Cp) :: (rest ++ base)) sn (by omega) (fun h => by
            have := hsp h; omega)
        have hloop := loop_cleanL H base lo0 hi0 hb lo kk' rest
          (if spine then (⟨lo, .ram, kk', 0⟩ : Cp) :: (rest ++ base) else sn) hlo0 (by omega) hbelow
          l' (some (lo + l' + 1 + 1)) hkk' (by omega)
        refine ⟨_, (if spine then (⟨lo, .ram, kk', 0⟩ : Cp) :: (rest ++ base) else sn), rfl,
          fun h => ?_, ?_⟩
        · simp [h]
        · simp only [List.map_append, List.map_cons, List.cons_append,
            List.nil_append, List.append_assoc]
          refine CleanL.append hfirst (CleanL.append (by simpa using hb1) ?_)
          simpa only [List.map_append, List.map_cons, List.map_nil, List.cons_append,
            List.nil_append, List.append_assoc] using hloop
      rw [if_neg h2]
      by_cases h3 : hSplit c K cm (hi - lo - 1) = true
      · -- a split
        rw [if_pos h3]
        obtain ⟨hj1, hj2⟩ := hSplit_range c K cm (hi - lo - 1) hl2
        generalize argminO (hCands c K cm (hi - lo - 1)) = j at hj1 hj2 ⊢
        have hrel : reloads c K cm (hi - lo - 1) = true := by
          by_cases hK0 : K = 0
          · subst hK0; exact reloads_zero c cm _ hl2
          · rw [reloads_pos c K cm _ hl2 hK0]; exact h3
        -- first action
        have hfirst : ∃ kk', j ≤ kk' ∧
            CleanL cfg
              (X (some lo) (c.N - hi) wi wd
                ((if pres then ⟨lo, lvl K, kk, 0⟩ :: rest else rest) ++ base) (!spine) dn sn)
              [Ev.obs (evFwd c lo (lo + j) hi pending) c.N]
              (X (some (lo + j)) (c.N - hi) none none
                (⟨lo, lvl K, kk', 0⟩ :: (rest ++ base)) (!spine) dn sn) := by
          rcases hp with rfl | rfl
          · have hpt : pres = true := by rw [hpres, hrel]; rfl
            subst hpt
            have hkk' := hkk rfl
            refine ⟨kk, by omega, ?_⟩
            simp only [if_true, List.cons_append]
            exact CleanL.single (plain_step H lo j hi wi wd _ _ sn (by omega) hN (by omega))
          · have hpf : pres = false := by rw [hpres]; rfl
            subst hpf
            refine ⟨j, le_refl _, ?_⟩
            simp only [Bool.false_eq_true, if_false]
            exact CleanL.single (write_step H base lo0 hi0 K lo j hi wi wd rest
              (!spine) sn (by omega) hN (by omega) hbelow hb hlo0 (by omega)
              (lvl_budget H K cm _ lo j hinv hcm))
        obtain ⟨kk', hkk', hfirst⟩ := hfirst
        -- right part
        obtain ⟨right, sn1, hright, hsn1, hcl_right⟩ := ihR (lo + j) hi K (cm - 1) spine
          (⟨lo, lvl K, kk', 0⟩ :: rest) none none sn
          (by unfold rankA at hf; unfold rankR; split_ifs at hf ⊢ <;> omega)
          (by omega) hN (by omega) hhi0 hsp hK (fun h => by omega)
          (hbelow.cons rfl (by omega)) (by
            have := Inv_push c K cm (rest ++ base) lo kk' hinv hcm
            simpa only [List.cons_append] using this)
        rw [hright]
        -- left part
        have hpl : (reloads c K cm (j - 1)) =
            ((none : Option Nat).isNone && reloads c K cm (lo + j - lo - 1)) := by
          rw [show lo + j - lo - 1 = j - 1 by omega]; rfl
        obtain ⟨left, sn2, hleft, hsn2, hcl_left⟩ := ihA lo (lo + j) K cm false none
          (reloads c K cm (j - 1)) rest kk' (some (lo, lo + kk')) none sn1
          (by unfold rankA at hf ⊢; split_ifs at hf ⊢ <;> omega)
          (by omega) (by omega) hlo0 (by omega) (by simp) hK hcm hbelow hinv (Or.inl rfl)
          (fun h => by cases h) (fun _ => rfl) hpl (fun _ => by omega)
        rw [hleft]
        refine ⟨_, sn2, rfl, fun h => by rw [hsn2 rfl, hsn1 h], ?_⟩
        simp only [List.map_append, List.map_cons, List.cons_append,
          List.nil_append, List.append_assoc, Bool.not_false] at hcl_right hcl_left ⊢
        refine CleanL.append hfirst (CleanL.append hcl_right ?_)
        cases hrl : reloads c K cm (j - 1) with
        | true =>
          rw [hrl] at hcl_left
          simp only [if_true, List.cons_append] at hcl_left
          refine CleanL.cons ?_ hcl_left
          exact step_copy cfg c.N base (some (lo + j + 1)) lo kk' (c.N - (lo + j)) (lvl K) rest dn sn1
            H.hN H.alive (lvl_isStore K) (by omega) (by omega) (by omega)
        | false =>
          rw [hrl] at hcl_left
          simp only [Bool.false_eq_true, if_false] at hcl_left
          refine CleanL.cons ?_ hcl_left
          exact step_move cfg c.N base lo0 hi0 (some (lo + j + 1)) lo kk' (c.N - (lo + j)) (lvl K)
            rest dn sn1 H.hN H.alive (lvl_isStore K) (by omega) (by omega) (by omega) hbelow hb
            hlo0 (by omega)
      rw [if_neg h3]
      by_cases h4 : K = 0
      · subst h4
        rw [if_pos rfl]
        have hcm2 : 2 ≤ cm := by
          by_contra hh
          exact h2 ⟨rfl, by omega⟩
        exact ihA lo hi 0 1 spine pending pres rest kk wi wd sn
          (by unfold rankA at hf ⊢; split_ifs at hf ⊢ <;> omega)
          hlt hN hlo0 hhi0 hsp (by omega) (le_refl _) hbelow (Inv_one c cm _ hinv hcm) hp
          (fun h => ⟨(hpend h).1, fun h1 => by omega⟩) hpsp
          (by rw [hpres, reloads_zero c cm _ hl2, reloads_zero c 1 _ hl2]) hkk
      · rw [if_neg h4]
        have hK1 : K = 1 := by omega
        subst hK1
        have hpn : pending = none := by
          rcases hp with h | h
          · exact h
          · exact absurd ((hpend h).2 rfl) h3
        subst hpn
        have hpf : pres = false := by
          rw [hpres, reloads_pos c 1 cm _ hl2 (by omega)]
          simpa using h3
        subst hpf
        simp only [Option.isSome_none, Bool.false_eq_true, if_false]
        exact ihR lo hi (1 - 1) (cv c (1 - 1)) spine rest wi wd sn
          (by unfold rankA at hf; unfold rankR; simp at hf ⊢; omega) hlt hN hlo0 hhi0 hsp (by omega)
          (fun _ => H.c0pos) hbelow (Inv_down c 1 cm _ hinv (by omega))


/-! ## the complete stream -/

/-- the HRevolve stream is accepted and LIFO, given the table fact -/
theorem hrevolve_cleanL_of_tab (N c0 c1 : Nat) (c : Costs) (hN : 1 ≤ N) (hc0 : 1 ≤ c0)
    (htab : TabOk (hCtxOf N c0 c1 c)) :
    ∃ evs sn, hrevolveEvs N c0 c1 c = .ok (evs ++ [⟨.endReverse, 1, N⟩]) ∧
      CleanL (cfgHRevolve c0 c1 N) (XS.init (cfgHRevolve c0 c1 N))
        (evs.map (Ev.obs · N) ++ [⟨.endReverse, 1, N, some N, true, true⟩])
        (X (some 1) N none none [] true 1 sn) := by
  have H : HHyp (cfgHRevolve c0 c1 N) (hCtxOf N c0 c1 c) 0 :=
    { hN := rfl
      alive := ⟨by simp [cfgHRevolve], by intro k hk; simp [cfgHRevolve] at hk; omega⟩
      ram := rfl
      disk := rfl
      c0pos := hc0
      tab := htab }
  have hNe : (hCtxOf N c0 c1 c).N = N := rfl
  obtain ⟨evs, sn', hevs, _, hclean⟩ := (hrev_okL H [] 0 N (by intro cp hcp; cases hcp)
    (4 * N + 8)).1 0 N 1 c1 true [] none none []
    (by unfold rankR; simp) (by omega) (le_refl _) (le_refl _) (le_refl _)
    (fun _ => rfl) (le_refl _) (fun h => by cases h) (by intro cp hcp; cases hcp)
    (by unfold Inv; simp [countSt]; exact le_refl c1)
  have hres := resolveLoads_hR (hCtxOf N c0 c1 c) (4 * N + 8) 0 N 1 c1 true (le_refl _)
  rw [hevs] at hres
  refine ⟨evs, sn', ?_, ?_⟩
  · rw [hrevolveEvs_eq]
    cases hr : hR (hCtxOf N c0 c1 c) (4 * N + 8) 0 N 1 c1 true with
    | none => rw [hr] at hres; cases hres
    | some ops =>
      rw [hr, Option.map_some] at hres
      cases hres
      rfl
  · have hinit : XS.init (cfgHRevolve c0 c1 N) = X (some 0) (N - N) none none ([] ++ []) (!true) 0 [] := by
      simp [XS.init, X, cfgHRevolve]
    rw [hinit]
    rw [hNe] at hclean
    refine CleanL.append hclean ?_
    have : N - 0 = N := by omega
    rw [this]
    exact CleanL.single (step_endReverse_final (cfgHRevolve c0 c1 N) N 1 sn' rfl rfl)

theorem hrevolve_cleanL (N c0 c1 : Nat) (c : Costs) (hN : 1 ≤ N) (hc0 : 1 ≤ c0) :
    ∃ evs sn, hrevolveEvs N c0 c1 c = .ok (evs ++ [⟨.endReverse, 1, N⟩]) ∧
      CleanL (cfgHRevolve c0 c1 N) (XS.init (cfgHRevolve c0 c1 N))
        (evs.map (Ev.obs · N) ++ [⟨.endReverse, 1, N, some N, true, true⟩])
        (X (some 1) N none none [] true 1 sn) :=
  hrevolve_cleanL_of_tab N c0 c1 c hN hc0 (tabOk_hCtxOf N c0 c1 c)

end Ckpt

namespace Ckpt.LB7
open Ckpt.RC Ckpt.GW Ckpt.Mean

/-- a LIFO stream makes no transfer into DISK -/
theorem lifoFrom_noTransfer (cfg : Cfg) : ∀ (os : List Obs) (x : XS), lifoFrom cfg x os = true →
    ∀ o ∈ os, transfersToDisk o.act = false := by
  intro os
  induction os with
  | nil => intro _ _ o ho; cases ho
  | cons a os ih =>
    intro x h o ho
    simp only [lifoFrom, Bool.and_eq_true] at h
    rcases List.mem_cons.mp ho with rfl | ho'
    · cases hact : o.act with
      | copy n src dst =>
        rw [hact] at h
        simp only [lifoAct, Bool.and_eq_true, decide_eq_true_eq] at h
        simp [transfersToDisk, h.1.1]
      | move n src dst =>
        rw [hact] at h
        simp only [lifoAct, Bool.and_eq_true, decide_eq_true_eq] at h
        simp [transfersToDisk, h.1.1]
      | _ => rfl
    · exact ih _ h.2 o ho'

/-- **the HRevolve stream is an accepted LIFO stream that attains the bound**: its observations are
accepted for `cfgHRevolve c0 c1 N`, complete, hold restart data only, obey the LIFO discipline, and
their transfer-aware cost is the table value plus the first sweep — the lower bound of
`hrevolveOptimalT_partial` -/
theorem hrevolve_lifo_attains (N c0 c1 : Nat) (c : Costs) (hN : 1 ≤ N) (hc0 : 1 ≤ c0) :
    ∃ evs os v, hrevolveEvs N c0 c1 c = .ok evs ∧ os.map (·.act) = evs.map (·.act) ∧
      Accepted (cfgHRevolve c0 c1 N) os ∧ Lifo (cfgHRevolve c0 c1 N) os ∧
      (hoptTable (N - 1) c0 c1 0 c.wd 0 c.rd c.ub c.uf).opt 1 (N - 1) c1 = some v ∧
      obsCostT c os = v + N * c.uf := by
  obtain ⟨evs, sn, hevs, hcl, hlifo, hnd⟩ := hrevolve_cleanL N c0 c1 c hN hc0
  obtain ⟨v, hv, hcost⟩ := hrevolve_cost N c0 c1 c hN hc0 _ hevs
  have hacts : (evs.map (Ev.obs · N) ++ [(⟨.endReverse, 1, N, some N, true, true⟩ : Obs)]).map (·.act)
      = (evs ++ [(⟨.endReverse, 1, N⟩ : Ev)]).map (·.act) := by
    rw [List.map_append, List.map_append, List.map_map]
    rfl
  have hrun : run (cfgHRevolve c0 c1 N)
      (evs.map (Ev.obs · N) ++ [(⟨.endReverse, 1, N, some N, true, true⟩ : Obs)]) =
      (X (some 1) N none none [] true 1 sn, []) := hcl 0
  refine ⟨_, _, v, hevs, hacts, ⟨?_, ?_, hnd⟩, hlifo, hv, ?_⟩
  · rw [hrun]
  · rw [hrun]; rfl
  · rw [obsCostT_eq_obsCost c _ (lifoFrom_noTransfer _ _ _ hlifo), obsCost_eq_cost c _ _ hacts, hcost]

/-- **HRevolve is a cost-optimal LIFO schedule**: its stream is accepted and LIFO, and no accepted
LIFO stream (restart data only) is cheaper in the transfer-aware cost -/
theorem C07_hrevolve_optimal_in_lifo (N c0 c1 : Nat) (c : Costs) (hN : 1 ≤ N) (hc0 : 1 ≤ c0)
    (huf : 0 < c.uf) :
    ∃ evs os0, hrevolveEvs N c0 c1 c = .ok evs ∧ os0.map (·.act) = evs.map (·.act) ∧
      Accepted (cfgHRevolve c0 c1 N) os0 ∧ Lifo (cfgHRevolve c0 c1 N) os0 ∧
      ∀ os, Accepted (cfgHRevolve c0 c1 N) os → Lifo (cfgHRevolve c0 c1 N) os →
        obsCostT c os0 ≤ obsCostT c os := by
  obtain ⟨evs, os0, v, hevs, hacts, hacc, hlifo, hv, hcost⟩ := hrevolve_lifo_attains N c0 c1 c hN hc0
  refine ⟨evs, os0, hevs, hacts, hacc, hlifo, fun os ha hl => ?_⟩
  rw [hcost]
  exact hrevolveOptimalT_partial N c0 c1 v c os hN hc0 huf hv ha hl

end Ckpt.LB7

#print axioms Ckpt.LB7.hrevolve_lifo_attains
#print axioms Ckpt.LB7.C07_hrevolve_optimal_in_lifo
