import CkptVerif.Model.Segment
import CkptVerif.Proofs.ExecLemmas
/-!
# Acceptance of the generic binomial segment by the specification executor

`segWith_ok`: for ANY split function `σ` with `1 ≤ σ m k ≤ m-1` (for `m ≥ 2`, `k ≥ 1`) and
`σ m 1 = m-1`, any labelling `alloc` of the stack positions by RAM/DISK that respects the budgets,
and any set `base` of other checkpoints whose keys lie outside the region, the stream
`segWith … lo hi d` runs through the executor without a single violation (of any tag) and takes
the state "adjoint at `hi`, stack of depth `d`" to "adjoint at `lo`, same stack".
No bound on `N`, the number of units, or the depth.
-/
namespace Ckpt

structure SegHyp (cfg : Cfg) (N : Nat) (σ : Nat → Nat → Option Nat) (S : Nat) (alloc : Nat → Storage)
    (base : List Cp) (lo0 hi0 dn : Nat) : Prop where
  hN : cfg.N = N
  alive : Alive cfg dn
  range : ∀ m k, 2 ≤ m → 1 ≤ k → ∃ a, σ m k = some a ∧ 1 ≤ a ∧ a ≤ m - 1
  one : ∀ m, 2 ≤ m → σ m 1 = some (m - 1)
  store : ∀ i, i < S → (alloc i).isStore = true
  budget : ∀ stack : List Cp, Labelled alloc stack → stack.length ≤ S → withinBudget cfg (stack ++ base) = true
  base : Outside base lo0 hi0

/-- the checkpoint for `lo` at stack depth `d` covering `k` steps -/
def topCp (alloc : Nat → Storage) (lo d k : Nat) : Cp := ⟨lo, alloc d, k, 0⟩

theorem segWith_ok {cfg : Cfg} {N : Nat} {σ : Nat → Nat → Option Nat} {S : Nat} {alloc : Nat → Storage}
    {base : List Cp} {lo0 hi0 dn : Nat} (persist : Bool) (H : SegHyp cfg N σ S alloc base lo0 hi0 dn) :
    ∀ (fuel : Nat) (stored spine : Bool) (lo hi d : Nat) (rest : List Cp) (k : Nat) (f : Option Nat) (sn : List Cp)
      (wi wd : Option (Nat × Nat)),
      (stored = true → wi = none ∧ wd = none) →
      hi - lo ≤ fuel → lo < hi → hi ≤ N → lo0 ≤ lo → hi ≤ hi0 →
      (spine = true → hi = N ∧ stored = false) →
      (persist = true → d = 0 → stored = true) →
      Below rest lo → Labelled alloc rest → rest.length = d →
      (lo + 2 ≤ hi → d + 1 ≤ S) →
      (stored = false → f = some lo) →
      (stored = true → hi ≤ lo + k ∧ 0 < k ∧ d < S) →
      ∃ evs sn', segWith N σ S alloc persist fuel stored spine lo hi d = some evs ∧
        (spine = false → sn' = sn) ∧
        Clean cfg
          (X f (N - hi) wi wd ((if stored then topCp alloc lo d k :: rest else rest) ++ base) (!spine) dn sn)
          (evs.map (Ev.obs · N))
          (X (some (lo + 1)) (N - lo) none none
            ((if persist ∧ d = 0 then topCp alloc lo d k :: rest else rest) ++ base) true dn sn') := by
  intro fuel
  induction fuel with
  | zero => intro _ _ lo hi _ _ _ _ _ _ _ _ h1 h2; omega
  | succ fuel ih =>
    intro stored spine lo hi d rest k f sn wi wd hw hfuel hlt hN hlo0 hhi0 hspine hpers hbelow hlab hlen hd hf hk
    have hcN := H.hN
    have hal := H.alive
    unfold segWith
    by_cases hbase : hi = lo + 1
    · -- unit segment
      simp only [hbase, if_true]
      subst hbase
      have hr : lo + 1 = N - (N - (lo + 1)) := by omega
      have hr2 : N - (lo + 1) + 1 = N - lo := by omega
      cases stored with
      | false =>
        have hf' := hf rfl
        have hnp : ¬ (persist = true ∧ d = 0) := by
          rintro ⟨hp, hd0⟩; have := hpers hp hd0; simp at this
        cases spine with
        | false =>
          refine ⟨_, sn, rfl, fun _ => rfl, ?_⟩
          simp only [Bool.false_eq_true, if_false, List.nil_append, List.append_nil, Bool.not_false,
            List.map_cons, List.map_nil, List.cons_append, hnp]
          refine Clean.cons (step_turn cfg N f lo _ wi wd _ true dn sn hcN hal hr hf') ?_
          refine Clean.cons (step_reverse cfg N (some (lo+1)) lo _ none _ dn sn hcN hal hr rfl) ?_
          rw [hr2]; exact Clean.nil _ _
        | true =>
          have hN' := (hspine rfl).1
          subst hN'
          refine ⟨_, rest ++ base, rfl, fun h => by simp at h, ?_⟩
          simp only [if_true, Bool.false_eq_true, if_false, List.nil_append, Bool.not_true,
            List.map_cons, List.map_nil, List.cons_append, hnp, Nat.sub_self]
          refine Clean.cons (step_turn cfg (lo+1) f lo 0 wi wd _ false dn sn hcN hal (by omega) hf') ?_
          refine Clean.cons (step_endForward cfg (lo+1) none _ _ dn sn hcN hal) ?_
          refine Clean.cons (step_reverse cfg (lo+1) (some (lo+1)) lo 0 none (rest ++ base) dn (rest ++ base) hcN hal (by omega) rfl) ?_
          have e1 : 0 + 1 = lo + 1 - lo := by omega
          rw [e1]; exact Clean.nil _ _
      | true =>
        have hsp : spine = false := by
          cases spine with
          | false => rfl
          | true => exact absurd (hspine rfl).2 (by simp)
        subst hsp
        obtain ⟨hk1, hk2, hdS⟩ := hk rfl
        obtain ⟨hwi, hwd⟩ := hw rfl
        subst hwi; subst hwd
        have hstd : (alloc d).isStore = true := H.store d hdS
        refine ⟨_, sn, rfl, fun _ => rfl, ?_⟩
        by_cases hp : persist = true ∧ d = 0
        · simp only [if_true, Bool.false_eq_true, if_false, List.append_nil, Bool.not_false, hp, and_self,
            List.map_cons, List.map_nil, List.cons_append, List.nil_append, topCp]
          refine Clean.cons (step_copy cfg N base f lo k _ (alloc 0) rest dn sn hcN hal (by simpa [hp.2] using hstd)
            hk2 (by omega) (by omega)) ?_
          refine Clean.cons (step_turn cfg N _ lo _ _ none _ true dn sn hcN hal hr rfl) ?_
          refine Clean.cons (step_reverse cfg N (some (lo+1)) lo _ none _ dn sn hcN hal hr rfl) ?_
          rw [hr2]; exact Clean.nil _ _
        · simp only [if_true, Bool.false_eq_true, if_false, List.append_nil, Bool.not_false, hp,
            List.map_cons, List.map_nil, List.cons_append, List.nil_append, topCp]
          refine Clean.cons (step_move cfg N base lo0 hi0 f lo k _ (alloc d) rest dn sn hcN hal hstd
            hk2 (by omega) (by omega) hbelow H.base hlo0 (by omega)) ?_
          refine Clean.cons (step_turn cfg N _ lo _ _ none _ true dn sn hcN hal hr rfl) ?_
          refine Clean.cons (step_reverse cfg N (some (lo+1)) lo _ none _ dn sn hcN hal hr rfl) ?_
          rw [hr2]; exact Clean.nil _ _
    · -- recursive case
      simp only [hbase, if_false]
      have h2 : lo + 2 ≤ hi := by omega
      have hdS := hd h2
      obtain ⟨a, ha, ha1, ha2⟩ := H.range (hi - lo) (S - d) (by omega) (by omega)
      rw [ha]; dsimp only
      have hstd : (alloc d).isStore = true := H.store d (by omega)
      -- units for the right part
      have hright_units : lo + a + 2 ≤ hi → (d + 1) + 1 ≤ S := by
        intro h
        by_contra hc
        have hS1 : S - d = 1 := by omega
        rw [hS1, H.one _ (by omega)] at ha
        injection ha with ha; omega
      -- state after `first`
      have hfirst : ∃ kk, (stored = true → kk = k) ∧ (stored = false → kk = a) ∧
          Clean cfg
            (X f (N - hi) wi wd ((if stored then topCp alloc lo d k :: rest else rest) ++ base) (!spine) dn sn)
            ((if stored = true then
                [(⟨.copy lo (alloc d) .work, lo, N - hi⟩ : Ev), ⟨.forward lo (lo + a) false false .work, lo + a, N - hi⟩]
              else [⟨.forward lo (lo + a) true false (alloc d), lo + a, N - hi⟩]).map (Ev.obs · N))
            (X (some (lo + a)) (N - hi) none none ((topCp alloc lo d kk :: rest) ++ base) (!spine) dn sn) := by
        cases stored with
        | false =>
          refine ⟨a, by simp, by simp, ?_⟩
          have hf' := hf rfl
          simp only [Bool.false_eq_true, if_false, List.map_cons, List.map_nil, topCp]
          have hB := H.budget (topCp alloc lo d a :: rest) ⟨by simp [topCp, hlen], hlab⟩ (by simp [hlen]; omega)
          have := step_write cfg N alloc S base lo0 hi0 f lo a (N - hi) wi wd rest (!spine) dn sn hcN hal
            (by omega) (by omega) hf' (by rw [hlen]; exact hstd) hbelow H.base hlo0 (by omega)
            (by rw [hlen]; simpa [topCp] using hB)
          rw [hlen] at this
          exact Clean.single this
        | true =>
          obtain ⟨hk1, hk2, _⟩ := hk rfl
          obtain ⟨hwi, hwd⟩ := hw rfl
          subst hwi; subst hwd
          have hsp : spine = false := by
            cases spine with
            | false => rfl
            | true => exact absurd (hspine rfl).2 (by simp)
          subst hsp
          refine ⟨k, by simp, by simp, ?_⟩
          simp only [if_true, List.map_cons, List.map_nil, Bool.not_false, topCp, List.cons_append]
          refine Clean.cons (step_copy cfg N base f lo k _ (alloc d) rest dn sn hcN hal hstd hk2 (by omega) (by omega)) ?_
          exact Clean.single (step_plain cfg N _ lo a _ _ none _ true dn sn hcN hal (by omega) (by omega) rfl)
      obtain ⟨kk, hkk1, hkk2, hfirst⟩ := hfirst
      -- right part
      obtain ⟨right, sn1, hright, hsn1, hrun_right⟩ := ih false spine (lo + a) hi (d + 1)
        (topCp alloc lo d kk :: rest) 0 (some (lo + a)) sn none none (by simp)
        (by omega) (by omega) hN (by omega) hhi0 (fun h => ⟨(hspine h).1, rfl⟩) (by intro _ h; omega)
        (hbelow.cons rfl (by omega)) ⟨by simp [topCp, hlen], hlab⟩ (by simp [hlen])
        hright_units (fun _ => rfl) (by simp)
      rw [hright]; dsimp only
      -- left part
      obtain ⟨left, sn2, hleft, hsn2, hrun_left⟩ := ih true false lo (lo + a) d rest kk (some (lo + a + 1)) sn1
        none none (fun _ => ⟨rfl, rfl⟩)
        (by omega) (by omega) (by omega) hlo0 (by omega) (by simp) (fun _ _ => rfl) hbelow hlab hlen
        (fun _ => hdS) (by simp)
        (fun _ => by
          cases stored with
          | false => have := hkk2 rfl; omega
          | true => have := hkk1 rfl; have := (hk rfl); omega)
      rw [hleft]; dsimp only
      refine ⟨_, sn2, rfl, fun h => by rw [hsn2 rfl, hsn1 h], ?_⟩
      rw [List.map_append, List.map_append]
      simp only [Bool.false_eq_true, if_false, Nat.add_one_ne_zero, and_false] at hrun_right
      simp only [if_true, Bool.not_false] at hrun_left
      have h12 := Clean.append hfirst hrun_right
      -- the top checkpoint in the post-state is the one the segment was entered with
      by_cases hp : persist = true ∧ d = 0
      · have hk_eq : kk = k := hkk1 (hpers hp.1 hp.2)
        rw [hk_eq] at hrun_left h12
        rw [if_pos hp] at hrun_left ⊢
        exact Clean.append h12 hrun_left
      · rw [if_neg hp] at hrun_left ⊢
        exact Clean.append h12 hrun_left
end Ckpt
