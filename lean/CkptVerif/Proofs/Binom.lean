import CkptVerif.Model.Revolve
import Mathlib.Data.Nat.Choose.Basic
import Mathlib.Tactic
/-! `binom`/`beta` of the model are the binomial coefficients; growth of `beta (c+1) ·`. -/
namespace Ckpt

theorem binom_eq_choose (n k : Nat) : binom n k = Nat.choose n k := by
  induction n generalizing k with
  | zero => cases k <;> simp [binom]
  | succ n ih =>
    cases k with
    | zero => simp [binom]
    | succ k => simp [binom, ih, Nat.choose_succ_succ]

theorem beta_eq (x y : Nat) : beta x y = (x + y).choose y := by
  unfold beta; exact binom_eq_choose _ _

/-- Pascal's rule in `beta` form -/
theorem beta_succ_succ (c t : Nat) : beta (c + 1) (t + 1) = beta (c + 1) t + beta c (t + 1) := by
  simp only [beta_eq]
  have e : c + 1 + (t + 1) = (c + 1 + t) + 1 := by omega
  have e' : c + 1 + t = c + (t + 1) := by omega
  rw [e, Nat.choose_succ_succ, e']

theorem beta_pos (x y : Nat) : 1 ≤ beta x y := by
  rw [beta_eq]; exact Nat.choose_pos (by omega)

theorem beta_zero_right (x : Nat) : beta x 0 = 1 := by simp [beta_eq]

theorem beta_lt_succ (c t : Nat) : beta (c + 1) t < beta (c + 1) (t + 1) := by
  have := beta_succ_succ c t
  have := beta_pos c (t + 1)
  omega

theorem beta_succ_ge (c t : Nat) : t + 1 ≤ beta (c + 1) t := by
  induction t with
  | zero => simp [beta_zero_right]
  | succ t ih => have := beta_lt_succ c t; omega

theorem beta_succ_strictMono (c : Nat) : StrictMono (fun t => beta (c + 1) t) :=
  strictMono_nat_of_lt_succ (beta_lt_succ c)

theorem beta_succ_lt_of_lt (c : Nat) {s t : Nat} (h : s < t) : beta (c + 1) s < beta (c + 1) t :=
  beta_succ_strictMono c h

theorem beta_succ_le_of_le (c : Nat) {s t : Nat} (h : s ≤ t) : beta (c + 1) s ≤ beta (c + 1) t :=
  (beta_succ_strictMono c).monotone h

example : beta 3 2 = 10 ∧ (3 + 2).choose 2 = 10 := by decide
example : 4 + 1 ≤ beta (2 + 1) 4 := beta_succ_ge 2 4

end Ckpt
