import CkptVerif.Model.Revolve
import CkptVerif.Proofs.Argmin
import Mathlib.Tactic
/-!
# Tools for the two-level cost table `hoptTable`

* `g2`/`s2` on well-shaped 2-D arrays;
* `writes_spec`: a fold of cell writes on a pair of tables whose written values read only
  lexicographically earlier cells (column first, then row) ends in a state that satisfies, at every
  written cell, the defining equation *evaluated in the final state*;
* order facts for `oadd`, `omin`, `ominList`.
-/
namespace Ckpt.RC
open List

abbrev T2 := Array (Array (Option Nat))

/-- `lmax + 1` rows of `c + 1` entries -/
def Shape (lmax c : Nat) (t : T2) : Prop :=
  t.size = lmax + 1 ∧ ∀ (l : Nat) (row : Array (Option Nat)), t[l]? = some row → row.size = c + 1

theorem g2_eq (t : T2) (l m : Nat) : g2 t l m = ((t[l]?.getD #[])[m]?).getD none := by
  simp [g2]

theorem g2_s2_ne (t : T2) (l m l' m' : Nat) (v : Option Nat) (h : ¬ (l = l' ∧ m = m')) :
    g2 (s2 t l m v) l' m' = g2 t l' m' := by
  simp only [g2_eq, s2, Array.getElem?_modify]
  by_cases hl : l = l'
  · subst hl
    have hm : m ≠ m' := fun hm => h ⟨rfl, hm⟩
    rw [if_pos rfl]
    cases t[l]? with
    | none => rfl
    | some row => simp [Array.getElem?_setIfInBounds_ne hm]
  · rw [if_neg hl]

theorem g2_s2_eq {lmax c : Nat} {t : T2} (hs : Shape lmax c t) (l m : Nat) (v : Option Nat)
    (hl : l ≤ lmax) (hm : m ≤ c) : g2 (s2 t l m v) l m = v := by
  simp only [g2_eq, s2, Array.getElem?_modify, if_true]
  have hlt : l < t.size := by rw [hs.1]; omega
  have hrow : t[l]? = some t[l] := Array.getElem?_eq_getElem hlt
  have hsz := hs.2 l _ hrow
  rw [hrow]
  simp only [Option.map_some, Option.getD_some, Array.getElem?_setIfInBounds, if_true]
  rw [if_pos (by rw [hsz]; omega)]
  rfl

theorem Shape.s2 {lmax c : Nat} {t : T2} (hs : Shape lmax c t) (l m : Nat) (v : Option Nat) :
    Shape lmax c (s2 t l m v) := by
  refine ⟨by simp [Ckpt.s2, hs.1], ?_⟩
  intro l' row h
  simp only [Ckpt.s2, Array.getElem?_modify] at h
  by_cases hl : l = l'
  · rw [if_pos hl] at h
    cases hr : t[l']? with
    | none => rw [hr] at h; cases h
    | some r =>
      rw [hr] at h
      simp only [Option.map_some, Option.some.injEq] at h
      rw [← h, Array.size_setIfInBounds]
      exact hs.2 l' r hr
  · rw [if_neg hl] at h; exact hs.2 l' row h

/-- the blank table -/
def hBlank (lmax c : Nat) : T2 := Array.replicate (lmax + 1) (Array.replicate (c + 1) none)

theorem hBlank_shape (lmax c : Nat) : Shape lmax c (hBlank lmax c) := by
  refine ⟨by simp [hBlank], ?_⟩
  intro l row h
  simp only [hBlank, Array.getElem?_replicate] at h
  split at h
  · injection h with h; rw [← h]; simp
  · cases h

theorem hBlank_g2 (lmax c l m : Nat) : g2 (hBlank lmax c) l m = none := by
  simp only [g2_eq, hBlank, Array.getElem?_replicate]
  split
  · simp only [Option.getD_some, Array.getElem?_replicate]
    split <;> rfl
  · rfl

/-! ## folds of writes -/

/-- cells are `(l, m)`; the tables are filled column by column, each column top-down -/
def lt2 (x y : Nat × Nat) : Prop := x.2 < y.2 ∨ (x.2 = y.2 ∧ x.1 < y.1)

/-- two pairs of tables agree on all cells before `k` -/
def AgreeBefore (σ σ' : T2 × T2) (k : Nat × Nat) : Prop :=
  ∀ x, lt2 x k → g2 σ.1 x.1 x.2 = g2 σ'.1 x.1 x.2 ∧ g2 σ.2 x.1 x.2 = g2 σ'.2 x.1 x.2

/-- one write: cell `k` of both tables -/
def writeStep (F G : T2 × T2 → Nat × Nat → Option Nat) (σ : T2 × T2) (k : Nat × Nat) : T2 × T2 :=
  (s2 σ.1 k.1 k.2 (F σ k), s2 σ.2 k.1 k.2 (G σ k))

/-- A fold of writes at strictly increasing cells, where the value written at `k` depends only on
cells before `k`: shapes are kept, other cells are untouched, and each written cell satisfies its
equation in the FINAL state. -/
theorem writes_spec {lmax c c' : Nat} (F G : T2 × T2 → Nat × Nat → Option Nat) :
    ∀ (ks : List (Nat × Nat)) (σ : T2 × T2),
      (∀ σ σ', ∀ k ∈ ks, AgreeBefore σ σ' k → F σ k = F σ' k ∧ G σ k = G σ' k) →
      ks.Pairwise lt2 →
      (∀ k ∈ ks, k.1 ≤ lmax ∧ k.2 ≤ c ∧ k.2 ≤ c') → Shape lmax c σ.1 → Shape lmax c' σ.2 →
      Shape lmax c (ks.foldl (writeStep F G) σ).1 ∧ Shape lmax c' (ks.foldl (writeStep F G) σ).2 ∧
      (∀ x, x ∉ ks → g2 (ks.foldl (writeStep F G) σ).1 x.1 x.2 = g2 σ.1 x.1 x.2 ∧
        g2 (ks.foldl (writeStep F G) σ).2 x.1 x.2 = g2 σ.2 x.1 x.2) ∧
      ∀ k ∈ ks, g2 (ks.foldl (writeStep F G) σ).1 k.1 k.2 = F (ks.foldl (writeStep F G) σ) k ∧
        g2 (ks.foldl (writeStep F G) σ).2 k.1 k.2 = G (ks.foldl (writeStep F G) σ) k := by
  intro ks
  induction ks with
  | nil => intro σ _ _ _ h1 h2; exact ⟨h1, h2, fun _ _ => ⟨rfl, rfl⟩, fun k hk => by cases hk⟩
  | cons k ks ih =>
    intro σ hloc hpw hin h1 h2
    obtain ⟨hk, hpw'⟩ := pairwise_cons.1 hpw
    obtain ⟨hkl, hkc, hkc'⟩ := hin k mem_cons_self
    rw [foldl_cons]
    have s1 : Shape lmax c (writeStep F G σ k).1 := h1.s2 _ _ _
    have s2' : Shape lmax c' (writeStep F G σ k).2 := h2.s2 _ _ _
    obtain ⟨i1, i2, i3, i4⟩ := ih (writeStep F G σ k)
      (fun σ σ' k' hk' => hloc σ σ' k' (mem_cons_of_mem _ hk')) hpw' (fun k' hk' => hin k' (mem_cons_of_mem _ hk')) s1 s2'
    have hirr : ∀ x : Nat × Nat, ¬ lt2 x x := by
      intro x h; rcases h with h | ⟨_, h⟩ <;> omega
    have hasym : ∀ x y : Nat × Nat, lt2 x y → ¬ lt2 y x := by
      intro x y h h'; rcases h with h | ⟨h, h2⟩ <;> rcases h' with h' | ⟨h', h3⟩ <;> omega
    have hknot : k ∉ ks := fun hmem => hirr k (hk k hmem)
    refine ⟨i1, i2, ?_, ?_⟩
    · intro x hx
      have hxk : x ≠ k := fun h => hx (h ▸ mem_cons_self)
      have hxks : x ∉ ks := fun h => hx (mem_cons_of_mem _ h)
      have hne : ¬ (k.1 = x.1 ∧ k.2 = x.2) := fun h => hxk (Prod.ext h.1.symm h.2.symm)
      obtain ⟨a, b⟩ := i3 x hxks
      exact ⟨by rw [a]; exact g2_s2_ne _ _ _ _ _ _ hne, by rw [b]; exact g2_s2_ne _ _ _ _ _ _ hne⟩
    · intro k' hk'
      rcases mem_cons.1 hk' with rfl | hk'
      · obtain ⟨a, b⟩ := i3 k' hknot
        -- the final state agrees with `σ` before `k'`
        have hag : AgreeBefore σ (ks.foldl (writeStep F G) (writeStep F G σ k')) k' := by
          intro x hx
          have hxk : x ≠ k' := fun h => hirr k' (h ▸ hx)
          have hxks : x ∉ ks := fun h => hasym x k' hx (hk x h)
          have hne : ¬ (k'.1 = x.1 ∧ k'.2 = x.2) := fun h => hxk (Prod.ext h.1.symm h.2.symm)
          obtain ⟨a', b'⟩ := i3 x hxks
          exact ⟨by rw [a']; exact (g2_s2_ne _ _ _ _ _ _ hne).symm,
            by rw [b']; exact (g2_s2_ne _ _ _ _ _ _ hne).symm⟩
        obtain ⟨hF, hG⟩ := hloc _ _ k' mem_cons_self hag
        rw [a, b, ← hF, ← hG]
        exact ⟨g2_s2_eq h1 _ _ _ hkl hkc, g2_s2_eq h2 _ _ _ hkl hkc'⟩
      · exact i4 k' hk'

/-- nested loops (outer `m`, inner `l`) as one fold over the cells `(l, m)` -/
theorem nested_fold_eq {σT : Type} (step : σT → Nat × Nat → σT) (ms ls : List Nat) (σ : σT) :
    ms.foldl (fun p m => ls.foldl (fun p l => step p (l, m)) p) σ =
      (ms.flatMap (fun m => ls.map (fun l => (l, m)))).foldl step σ := by
  rw [foldl_flatMap]
  congr 1
  funext p m
  rw [foldl_map]

theorem cells_pairwise (m0 nm l0 nl : Nat) :
    ((List.range' m0 nm).flatMap (fun m => (List.range' l0 nl).map (fun l => (l, m)))).Pairwise lt2 := by
  rw [pairwise_flatMap]
  constructor
  · intro m _
    rw [pairwise_map]
    exact (pairwise_lt_range' (s := l0) (n := nl)).imp (fun h => Or.inr ⟨rfl, h⟩)
  · refine (pairwise_lt_range' (s := m0) (n := nm)).imp ?_
    intro a b hab x hx y hy
    obtain ⟨_, _, rfl⟩ := mem_map.1 hx
    obtain ⟨_, _, rfl⟩ := mem_map.1 hy
    exact Or.inl hab

theorem mem_cells {m0 nm l0 nl : Nat} {x : Nat × Nat} :
    x ∈ (List.range' m0 nm).flatMap (fun m => (List.range' l0 nl).map (fun l => (l, m))) ↔
      (m0 ≤ x.2 ∧ x.2 < m0 + nm) ∧ (l0 ≤ x.1 ∧ x.1 < l0 + nl) := by
  rw [mem_flatMap]
  constructor
  · rintro ⟨m, hm, hx⟩
    obtain ⟨l, hl, rfl⟩ := mem_map.1 hx
    exact ⟨mem_range'_1.1 hm, mem_range'_1.1 hl⟩
  · rintro ⟨hm, hl⟩
    exact ⟨x.2, mem_range'_1.2 hm, mem_map.2 ⟨x.1, mem_range'_1.2 hl, rfl⟩⟩

/-! ## order facts on extended naturals -/

theorem ole_none (a : Option Nat) : ole a none = true := by cases a <;> simp [ole, olt]

theorem oadd_mono {a a' b b' : Option Nat} (h1 : ole a a' = true) (h2 : ole b b' = true) :
    ole (oadd a b) (oadd a' b') = true := by
  cases a <;> cases a' <;> cases b <;> cases b' <;> simp [ole, olt, oadd] at *
  omega

theorem omin_le_left (a b : Option Nat) : ole (omin a b) a = true := by
  unfold omin
  split
  · rename_i h; exact ole_of_olt h
  · exact ole_refl a

theorem omin_le_right (a b : Option Nat) : ole (omin a b) b = true := by
  unfold omin
  split
  · exact ole_refl b
  · rename_i h; simpa [ole] using h

theorem omin_mono {a a' b b' : Option Nat} (h1 : ole a a' = true) (h2 : ole b b' = true) :
    ole (omin a b) (omin a' b') = true := by
  have e : omin a' b' = a' ∨ omin a' b' = b' := by unfold omin; split <;> simp
  rcases e with e | e <;> rw [e]
  · exact ole_trans (omin_le_left a b) h1
  · exact ole_trans (omin_le_right a b) h2

theorem isSome_of_ole_some {a : Option Nat} {n : Nat} (h : ole a (some n) = true) : a.isSome = true := by
  cases a <;> simp [ole, olt] at *

/-- every element of `L'` dominates some element of `L` ⟹ `min L ≤ min L'` -/
theorem ominList_mono (L L' : List (Option Nat))
    (h : ∀ y ∈ L', ∃ x ∈ L, ole x y = true) : ole (ominList L) (ominList L') = true := by
  by_cases hne : L' = []
  · subst hne; exact ole_none _
  · obtain ⟨x, hx, hxy⟩ := h _ (ominList_mem L' hne)
    exact ole_trans (ominList_le L x hx) hxy

theorem ominList_isSome_of_mem (L : List (Option Nat)) (n : Nat) (h : some n ∈ L) :
    (ominList L).isSome = true :=
  isSome_of_ole_some (ominList_le L _ h)

end Ckpt.RC
